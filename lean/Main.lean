import PseudoModel.Top
open Pseudo

def hexDigit (n : Nat) : Char := if n < 10 then Char.ofNat (48 + n) else Char.ofNat (87 + n)

def toHex (s : Str) : String :=
  String.ofList (s.foldr (fun c acc => hexDigit (c.toNat / 16) :: hexDigit (c.toNat % 16) :: acc) [])

def hexVal (c : Char) : Nat :=
  if c.toNat ≥ 97 then c.toNat - 87 else if c.toNat ≥ 65 then c.toNat - 55 else c.toNat - 48

def fromHex (s : String) : Str :=
  let rec go : List Char → Str
    | a :: b :: rest => Char.ofNat (hexVal a * 16 + hexVal b) :: go rest
    | _ => []
  go s.toList

def kindStr : DiagKind → String
  | .syntax => "syntax" | .runtime => "runtime" | .pedantic => "pedantic"

def msgStr (m : Msg) : String := (toString (repr m)).replace "Pseudo.Msg." ""

def frameJson (f : Frame) : String :=
  "{\"name\":\"" ++ toHex f.name ++ "\",\"line\":" ++ toString f.line ++ ",\"col\":" ++ toString f.col ++ "}"

def diagJson (d : Diag) : String :=
  "{\"kind\":\"" ++ kindStr d.kind ++ "\",\"line\":" ++ toString d.line ++ ",\"col\":" ++ toString d.col ++
  ",\"msg\":\"" ++ msgStr d.msg ++ "\",\"trace\":[" ++ String.intercalate "," (d.trace.map frameJson) ++ "]}"

def nodeJson (p : Str × FsNode) : String :=
  let (k, c) := match p.2 with
    | .file s => ("f", toHex s)
    | .dir => ("d", "")
    | .devFull => ("x", "")
  "{\"name\":\"" ++ toHex p.1 ++ "\",\"kind\":\"" ++ k ++ "\",\"content\":\"" ++ c ++ "\"}"

def resultJson (id : String) (r : RunResult) : String :=
  "{\"id\":\"" ++ id ++ "\",\"out\":\"" ++ toHex r.out ++ "\",\"exit\":" ++ toString r.exitCode ++
  ",\"diags\":[" ++ String.intercalate "," (r.diags.map diagJson) ++ "]" ++
  ",\"err\":[" ++ String.intercalate "," (r.errLines.map fun l => "\"" ++ toHex l ++ "\"") ++ "]" ++
  ",\"fs\":[" ++ String.intercalate "," (r.fs.map nodeJson) ++ "]" ++
  ",\"stdin_left\":\"" ++ toHex r.stdinLeft ++ "\"" ++
  ",\"steps\":" ++ toString r.steps ++
  ",\"inconclusive\":" ++ (if r.inconclusive then "true" else "false") ++
  ",\"crash\":" ++ (match r.crash with | some p => "\"" ++ toString (repr p) ++ "\"" | none => "null") ++ "}"

structure Case where
  id : String := ""
  mode : String := "file"
  ped : Bool := false
  prog : Str := []
  stdin : Str := []
  fs : List (Str × FsNode) := []
  steps : Nat := 200000
  depth : Nat := 1000
  fuel : Nat := 100000

def runCase (c : Case) : RunResult :=
  let cfg : Cfg := { pedantic := c.ped, fuel := c.fuel, stepLimit := c.steps, depthLimit := c.depth }
  if c.mode == "repl" then repl cfg c.fs c.stdin
  else if c.mode == "lex" then
    match lex { pedantic := c.ped } c.prog with
    | .ok toks => { out := (String.intercalate " " (toks.map fun t => (toString (repr t.k)).replace "Pseudo.TK." "" ++ ":" ++ toString t.line ++ ":" ++ toString t.col ++ ":" ++ toHex t.val)).toList }
    | .error d => { diags := [d], exitCode := 1 }
  else runFile cfg c.prog c.fs c.stdin

partial def loop (h : IO.FS.Stream) (out : IO.FS.Stream) (c : Case) : IO Unit := do
  let line ← h.getLine
  if line.isEmpty then return ()
  let parts := (line.trimAscii.toString.splitOn " ")
  match parts with
  | ["CASE", id, mode, ped] => loop h out { id := id, mode := mode, ped := ped == "1" }
  | ["P", x] => loop h out { c with prog := fromHex x }
  | ["P"] => loop h out { c with prog := [] }
  | ["I", x] => loop h out { c with stdin := fromHex x }
  | ["I"] => loop h out { c with stdin := [] }
  | ["F", n, k, x] =>
    let node := if k == "d" then FsNode.dir else if k == "x" then FsNode.devFull else FsNode.file (fromHex x)
    loop h out { c with fs := c.fs ++ [(fromHex n, node)] }
  | ["F", n, k] =>
    let node := if k == "d" then FsNode.dir else if k == "x" then FsNode.devFull else FsNode.file []
    loop h out { c with fs := c.fs ++ [(fromHex n, node)] }
  | ["B", s, d, f] => loop h out { c with steps := s.toNat!, depth := d.toNat!, fuel := f.toNat! }
  | ["END"] =>
    out.putStrLn (resultJson c.id (runCase c))
    out.flush
    loop h out {}
  | _ => loop h out c

def main : IO Unit := do
  loop (← IO.getStdin) (← IO.getStdout) {}
