import PseudoProofs.FrameInvSteps
import PseudoProofs.FrameInvLoad
/-!
# C04 frame theorem: `execStmt`, one lemma per statement form (part 1 of 3)
-/
namespace Pseudo.Frame
open Pseudo
variable {k f : Nat}
set_option linter.unusedVariables false

macro_rules | `(tactic| fr_safe) => `(tactic| exact noPtr_load (by assumption))

set_option maxHeartbeats 2000000 in
theorem step_execStmt_expr (ih : AllF k f) (e : _) : EnsF k (NoPtr k) (execStmt (f+1) (.expr e)) := by
  fr_fn execStmt

set_option maxHeartbeats 2000000 in
theorem step_execStmt_declare (ih : AllF k f) (t ids ty : _) : EnsF k (NoPtr k) (execStmt (f+1) (.declare t ids ty)) := by
  fr_fn execStmt

set_option maxHeartbeats 2000000 in
theorem step_execStmt_declareArr (ih : AllF k f) (t ids ty bounds : _) : EnsF k (NoPtr k) (execStmt (f+1) (.declareArr t ids ty bounds)) := by
  fr_fn execStmt

set_option maxHeartbeats 2000000 in
theorem step_execStmt_const (ih : AllF k f) (t name e : _) : EnsF k (NoPtr k) (execStmt (f+1) (.const t name e)) := by
  fr_fn execStmt

set_option maxHeartbeats 2000000 in
theorem step_execStmt_typeEnum (ih : AllF k f) (t name vals : _) : EnsF k (NoPtr k) (execStmt (f+1) (.typeEnum t name vals)) := by
  fr_fn execStmt

set_option maxHeartbeats 2000000 in
theorem step_execStmt_typePtr (ih : AllF k f) (t name target : _) : EnsF k (NoPtr k) (execStmt (f+1) (.typePtr t name target)) := by
  fr_fn execStmt

set_option maxHeartbeats 2000000 in
theorem step_execStmt_typeRec (ih : AllF k f) (t name body : _) : EnsF k (NoPtr k) (execStmt (f+1) (.typeRec t name body)) := by
  fr_fn execStmt

set_option maxHeartbeats 2000000 in
theorem step_execStmt_ifs (ih : AllF k f) (t branches els : _) : EnsF k (NoPtr k) (execStmt (f+1) (.ifs t branches els)) := by
  fr_fn execStmt

set_option maxHeartbeats 2000000 in
theorem step_execStmt_case (ih : AllF k f) (t sel clauses : _) : EnsF k (NoPtr k) (execStmt (f+1) (.case t sel clauses)) := by
  fr_fn execStmt

set_option maxHeartbeats 2000000 in
theorem step_execStmt_while (ih : AllF k f) (t c b : _) : EnsF k (NoPtr k) (execStmt (f+1) (.while t c b)) := by
  fr_fn execStmt

set_option maxHeartbeats 2000000 in
theorem step_execStmt_repeat (ih : AllF k f) (t b c : _) : EnsF k (NoPtr k) (execStmt (f+1) (.repeat t b c)) := by
  fr_fn execStmt

set_option maxHeartbeats 2000000 in
theorem step_execStmt_for (ih : AllF k f) (t it start stop step b : _) : EnsF k (NoPtr k) (execStmt (f+1) (.for t it start stop step b)) := by
  fr_fn execStmt

end Pseudo.Frame
