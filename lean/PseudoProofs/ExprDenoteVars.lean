import Properties.C02Full
/-!
# ExprDenoteVars — the typed denotation of the operator grammar over literals AND VARIABLES
(helpers for `Properties/C02Vars.lean`)

`PseudoProofs/ExprDenote.lean` / `Properties/C02Full.lean` cover expression trees whose leaves are literals.  Here:

* `VExpr` — the same trees with one more leaf, `var t`: the plain variable access the parser builds for an identifier
  token `t` (`Expr.access t (Ref.var t)`, `Parser.parseAtom`); `denoteV : VExpr → Expr`; `VExpr.size` (a variable leaf
  counts 2: `evalExpr` calls `resolveRef`); `VExpr.vars` the names that occur;
* `Env := Str → Option Val` and `evalTV ρ : VExpr → Except (Tok × Msg) Val` — `evalT` extended by
  `var t ↦ ρ t.val`, an unbound name being the error `notDefined` at the name's token;
* the read-only primitives as functions of the state (`readLocV`, `enumLitV`; the library that has them,
  `PseudoProofs/EvalStep.lean`, cannot be imported next to `Properties/C02Full.lean`: `EvalInv` clashes with
  `ParseLemmas`), `VarIs σ x v` (the name `x` denotes, in `σ`, a variable — of the current activation, else of the
  global one, possibly a BYREF alias — that reads `v`), `NoName σ x` (`x` is neither a variable, nor an array, nor an
  enumeration literal), `Agrees σ ρ e`;
* `run_access_var`, `run_access_undefined`, `run_access_enumLit` — the evaluator on a variable leaf;
* `eval_denote_outTV` — the evaluator on `denoteV e` returns what `evalTV ρ e` denotes;
* `evalTV_lit`, inversion lemmas (`evalTV_arith`, … as `bin2`), `evalTV_congr`;
* substitution: `substV ρ txt e : TExpr` replaces every variable leaf by the literal of its value; `evalTV_subst`.
-/
set_option linter.unusedSimpArgs false
namespace Pseudo.ExprDenoteVars

open FloatFmt C02Eval ExprDenote

/-! ## syntax -/

inductive VExpr
  | int (t : Tok) (n : Int)
  | real (t : Tok) (txt : Str)
  | bool (t : Tok) (b : Bool)
  | chr (t : Tok) (c : Char)
  | str (t : Tok) (s : Str)
  | var (t : Tok)
  | paren (e : VExpr)
  | neg (t : Tok) (e : VExpr)
  | not (t : Tok) (e : VExpr)
  | arith (t : Tok) (op : ArOp) (l r : VExpr)
  | cmp (t : Tok) (op : CmpOp) (l r : VExpr)
  | logic (t : Tok) (op : LogOp) (l r : VExpr)
  | concat (t : Tok) (l r : VExpr)
deriving Inhabited

/-- the AST the parser builds; an identifier `x` is `Expr.access x (Ref.var x)` -/
def denoteV : VExpr → Expr
  | .int t n => .intLit t n
  | .real t txt => .realLit t txt
  | .bool t b => .boolLit t b
  | .chr t c => .charLit t c
  | .str t s => .strLit t s
  | .var t => .access t (.var t)
  | .paren e => denoteV e
  | .neg t e => .neg t (denoteV e)
  | .not t e => .not t (denoteV e)
  | .arith t op l r => .arith t op (denoteV l) (denoteV r)
  | .cmp t op l r => .cmp t op (denoteV l) (denoteV r)
  | .logic t op l r => .logic t op (denoteV l) (denoteV r)
  | .concat t l r => .concat t (denoteV l) (denoteV r)

/-- number of AST nodes (`Expr` and `Ref` nodes: a variable leaf has two) -/
def VExpr.size : VExpr → Nat
  | .int _ _ | .real _ _ | .bool _ _ | .chr _ _ | .str _ _ => 1
  | .var _ => 2
  | .paren e => e.size
  | .neg _ e | .not _ e => e.size + 1
  | .arith _ _ l r | .cmp _ _ l r | .logic _ _ l r | .concat _ l r => l.size + r.size + 1

/-- nesting depth of operators (parentheses do not count); a leaf has depth 0 -/
def VExpr.depth : VExpr → Nat
  | .int _ _ | .real _ _ | .bool _ _ | .chr _ _ | .str _ _ | .var _ => 0
  | .paren e => e.depth
  | .neg _ e | .not _ e => e.depth + 1
  | .arith _ _ l r | .cmp _ _ l r | .logic _ _ l r | .concat _ l r => max l.depth r.depth + 1

/-- the variable names that occur -/
def VExpr.vars : VExpr → List Str
  | .int _ _ | .real _ _ | .bool _ _ | .chr _ _ | .str _ _ => []
  | .var t => [t.val]
  | .paren e | .neg _ e | .not _ e => e.vars
  | .arith _ _ l r | .cmp _ _ l r | .logic _ _ l r | .concat _ l r => l.vars ++ r.vars

theorem VExpr.size_pos (e : VExpr) : 0 < e.size := by
  induction e <;> simp [VExpr.size] <;> assumption

/-- a tree of operator depth `d` has fewer than `3 * 2 ^ d` nodes -/
theorem VExpr.size_lt_depth (e : VExpr) : e.size + 1 ≤ 3 * 2 ^ e.depth := by
  induction e with
  | int | real | bool | chr | str | var => simp [VExpr.size, VExpr.depth]
  | paren e ih => exact ih
  | neg t e ih => simp only [VExpr.size, VExpr.depth, Nat.pow_succ]; omega
  | not t e ih => simp only [VExpr.size, VExpr.depth, Nat.pow_succ]; omega
  | arith t op l r ihl ihr =>
    simp only [VExpr.size, VExpr.depth, Nat.pow_succ]
    have h1 : 2 ^ l.depth ≤ 2 ^ max l.depth r.depth := Nat.pow_le_pow_right (by omega) (Nat.le_max_left _ _)
    have h2 : 2 ^ r.depth ≤ 2 ^ max l.depth r.depth := Nat.pow_le_pow_right (by omega) (Nat.le_max_right _ _)
    omega
  | cmp t op l r ihl ihr =>
    simp only [VExpr.size, VExpr.depth, Nat.pow_succ]
    have h1 : 2 ^ l.depth ≤ 2 ^ max l.depth r.depth := Nat.pow_le_pow_right (by omega) (Nat.le_max_left _ _)
    have h2 : 2 ^ r.depth ≤ 2 ^ max l.depth r.depth := Nat.pow_le_pow_right (by omega) (Nat.le_max_right _ _)
    omega
  | logic t op l r ihl ihr =>
    simp only [VExpr.size, VExpr.depth, Nat.pow_succ]
    have h1 : 2 ^ l.depth ≤ 2 ^ max l.depth r.depth := Nat.pow_le_pow_right (by omega) (Nat.le_max_left _ _)
    have h2 : 2 ^ r.depth ≤ 2 ^ max l.depth r.depth := Nat.pow_le_pow_right (by omega) (Nat.le_max_right _ _)
    omega
  | concat t l r ihl ihr =>
    simp only [VExpr.size, VExpr.depth, Nat.pow_succ]
    have h1 : 2 ^ l.depth ≤ 2 ^ max l.depth r.depth := Nat.pow_le_pow_right (by omega) (Nat.le_max_left _ _)
    have h2 : 2 ^ r.depth ≤ 2 ^ max l.depth r.depth := Nat.pow_le_pow_right (by omega) (Nat.le_max_right _ _)
    omega

/-! ## the denotation -/

/-- an environment: the value of each variable name (`none`: the name denotes nothing) -/
abbrev Env := Str → Option Val

/-- the common shape of the unary nodes -/
def un1 (t : Tok) (f : Val → Except Msg Val) (r : Except Err Val) : Except Err Val :=
  match r with
  | .error x => .error x
  | .ok v => atTok t (f v)

/-- the shape of `AND` / `OR`: the right operand's result is only looked at if the left value does not short-circuit -/
def log2 (t : Tok) (op : LogOp) (rl rr : Except Err Val) : Except Err Val :=
  match rl with
  | .error x => .error x
  | .ok a =>
    if shortT op a then .ok (.bool false)
    else
      match rr with
      | .error x => .error x
      | .ok b => atTok t (logicT op a b)

/-- Reference semantics of the operator grammar over literals and variables: `evalT` with one more clause, a variable
    leaf denotes its value in `ρ`; a name without a value is the error `notDefined` at the name's token.  (`un1`, `bin2`,
    `log2` are the shapes of the unary, strict binary and logical nodes of `evalT`: operands left to right, the first
    error wins, `FALSE AND r` does not look at `r`.) -/
def evalTV (ρ : Env) : VExpr → Except Err Val
  | .int _ n => .ok (.int n)
  | .real _ txt => .ok (.real (strtod txt).1)
  | .bool _ b => .ok (.bool b)
  | .chr _ c => .ok (.chr c)
  | .str _ s => .ok (.str s)
  | .var t =>
    match ρ t.val with
    | some v => .ok v
    | none => .error (t, .notDefined)
  | .paren e => evalTV ρ e
  | .neg t e => un1 t negT (evalTV ρ e)
  | .not t e => un1 t ExprDenote.notT (evalTV ρ e)
  | .arith t op l r => bin2 t (arithT op) (evalTV ρ l) (evalTV ρ r)
  | .cmp t op l r => bin2 t (cmpT op) (evalTV ρ l) (evalTV ρ r)
  | .logic t op l r => log2 t op (evalTV ρ l) (evalTV ρ r)
  | .concat t l r => bin2 t concatT (evalTV ρ l) (evalTV ρ r)

/-- `evalT` has the same shapes -/
theorem evalT_neg (t : Tok) (e : TExpr) : evalT (.neg t e) = un1 t negT (evalT e) := by
  simp only [evalT, un1]; cases evalT e <;> rfl

theorem evalT_not (t : Tok) (e : TExpr) : evalT (.not t e) = un1 t ExprDenote.notT (evalT e) := by
  simp only [evalT, un1]; cases evalT e <;> rfl

theorem evalT_logic (t : Tok) (op : LogOp) (l r : TExpr) :
    evalT (.logic t op l r) = log2 t op (evalT l) (evalT r) := by
  simp only [evalT, log2]
  cases evalT l with
  | error x => rfl
  | ok a => cases evalT r <;> rfl

/-- every variable of `e` that has a value in `ρ` has one of the five primitive types -/
def LitEnv (ρ : Env) (e : VExpr) : Prop := ∀ x ∈ e.vars, ∀ v, ρ x = some v → IsLit v = true

/-- every variable of `e` has a value in `ρ` -/
def Bound (ρ : Env) (e : VExpr) : Prop := ∀ x ∈ e.vars, ∃ v, ρ x = some v

theorem LitEnv.left {ρ : Env} {l r : VExpr} (h : ∀ x ∈ l.vars ++ r.vars, ∀ v, ρ x = some v → IsLit v = true) :
    LitEnv ρ l := fun x hx => h x (List.mem_append_left _ hx)
theorem LitEnv.right {ρ : Env} {l r : VExpr} (h : ∀ x ∈ l.vars ++ r.vars, ∀ v, ρ x = some v → IsLit v = true) :
    LitEnv ρ r := fun x hx => h x (List.mem_append_right _ hx)

/-! ## inversion of `evalTV` (the same shapes as for `evalT`) -/

theorem evalTV_arith (ρ : Env) (t : Tok) (op : ArOp) (l r : VExpr) :
    evalTV ρ (.arith t op l r) = bin2 t (arithT op) (evalTV ρ l) (evalTV ρ r) := rfl

theorem evalTV_cmp (ρ : Env) (t : Tok) (op : CmpOp) (l r : VExpr) :
    evalTV ρ (.cmp t op l r) = bin2 t (cmpT op) (evalTV ρ l) (evalTV ρ r) := rfl

theorem evalTV_concat (ρ : Env) (t : Tok) (l r : VExpr) :
    evalTV ρ (.concat t l r) = bin2 t concatT (evalTV ρ l) (evalTV ρ r) := rfl

theorem evalTV_logic (ρ : Env) (t : Tok) (op : LogOp) (l r : VExpr) :
    evalTV ρ (.logic t op l r) = log2 t op (evalTV ρ l) (evalTV ρ r) := rfl

theorem evalTV_neg (ρ : Env) (t : Tok) (e : VExpr) : evalTV ρ (.neg t e) = un1 t negT (evalTV ρ e) := rfl

theorem evalTV_not (ρ : Env) (t : Tok) (e : VExpr) : evalTV ρ (.not t e) = un1 t ExprDenote.notT (evalTV ρ e) := rfl

theorem un1_ok {t : Tok} {f : Val → Except Msg Val} {r : Except Err Val} {v : Val} :
    un1 t f r = .ok v ↔ ∃ a, r = .ok a ∧ f a = .ok v := by
  cases r <;> simp [un1, atTok_ok]

theorem un1_error {t : Tok} {f : Val → Except Msg Val} {r : Except Err Val} {x : Err} :
    un1 t f r = .error x ↔ r = .error x ∨ ∃ a m, r = .ok a ∧ f a = .error m ∧ x = (t, m) := by
  cases r <;> simp [un1, atTok_error]

theorem log2_ok {t : Tok} {op : LogOp} {rl rr : Except Err Val} {v : Val} :
    log2 t op rl rr = .ok v ↔
      ∃ a, rl = .ok a ∧
        ((shortT op a = true ∧ v = .bool false) ∨
         (shortT op a = false ∧ ∃ b, rr = .ok b ∧ logicT op a b = .ok v)) := by
  unfold log2
  cases rl with
  | error x => simp
  | ok a =>
    cases hs : shortT op a
    · cases rr <;> simp [hs, atTok_ok]
    · simp [hs, eq_comm (a := v)]

theorem log2_error {t : Tok} {op : LogOp} {rl rr : Except Err Val} {x : Err} :
    log2 t op rl rr = .error x ↔
      rl = .error x ∨
      (∃ a, rl = .ok a ∧ shortT op a = false ∧ rr = .error x) ∨
      (∃ a b m, rl = .ok a ∧ shortT op a = false ∧ rr = .ok b ∧ logicT op a b = .error m ∧ x = (t, m)) := by
  unfold log2
  cases rl with
  | error y => simp
  | ok a =>
    cases hs : shortT op a
    · cases rr <;> simp [hs, atTok_error]
    · simp [hs]

theorem evalTV_neg_ok {ρ : Env} {t : Tok} {e : VExpr} {v : Val} :
    evalTV ρ (.neg t e) = .ok v ↔ ∃ a, evalTV ρ e = .ok a ∧ negT a = .ok v := un1_ok

theorem evalTV_neg_error {ρ : Env} {t : Tok} {e : VExpr} {x : Err} :
    evalTV ρ (.neg t e) = .error x ↔
      evalTV ρ e = .error x ∨ ∃ a m, evalTV ρ e = .ok a ∧ negT a = .error m ∧ x = (t, m) := un1_error

theorem evalTV_not_ok {ρ : Env} {t : Tok} {e : VExpr} {v : Val} :
    evalTV ρ (.not t e) = .ok v ↔ ∃ a, evalTV ρ e = .ok a ∧ ExprDenote.notT a = .ok v := un1_ok

theorem evalTV_not_error {ρ : Env} {t : Tok} {e : VExpr} {x : Err} :
    evalTV ρ (.not t e) = .error x ↔
      evalTV ρ e = .error x ∨ ∃ a m, evalTV ρ e = .ok a ∧ ExprDenote.notT a = .error m ∧ x = (t, m) := un1_error

theorem evalTV_logic_ok {ρ : Env} {t : Tok} {op : LogOp} {l r : VExpr} {v : Val} :
    evalTV ρ (.logic t op l r) = .ok v ↔
      ∃ a, evalTV ρ l = .ok a ∧
        ((shortT op a = true ∧ v = .bool false) ∨
         (shortT op a = false ∧ ∃ b, evalTV ρ r = .ok b ∧ logicT op a b = .ok v)) := log2_ok

theorem evalTV_logic_error {ρ : Env} {t : Tok} {op : LogOp} {l r : VExpr} {x : Err} :
    evalTV ρ (.logic t op l r) = .error x ↔
      evalTV ρ l = .error x ∨
      (∃ a, evalTV ρ l = .ok a ∧ shortT op a = false ∧ evalTV ρ r = .error x) ∨
      (∃ a b m, evalTV ρ l = .ok a ∧ shortT op a = false ∧ evalTV ρ r = .ok b ∧ logicT op a b = .error m ∧
        x = (t, m)) := log2_error

theorem evalTV_var_ok {ρ : Env} {t : Tok} {v : Val} : evalTV ρ (.var t) = .ok v ↔ ρ t.val = some v := by
  simp only [evalTV]
  cases ρ t.val <;> simp

theorem evalTV_var_error {ρ : Env} {t : Tok} {x : Err} :
    evalTV ρ (.var t) = .error x ↔ ρ t.val = none ∧ x = (t, .notDefined) := by
  simp only [evalTV]
  cases ρ t.val <;> simp [eq_comm (a := x)]

/-! ## values stay within the five primitive types -/

theorem evalTV_lit (ρ : Env) (e : VExpr) : LitEnv ρ e → ∀ v, evalTV ρ e = .ok v → IsLit v = true := by
  induction e with
  | int t n => intro _ v h; simp only [evalTV, Except.ok.injEq] at h; subst h; rfl
  | real t x => intro _ v h; simp only [evalTV, Except.ok.injEq] at h; subst h; rfl
  | bool t b => intro _ v h; simp only [evalTV, Except.ok.injEq] at h; subst h; rfl
  | chr t c => intro _ v h; simp only [evalTV, Except.ok.injEq] at h; subst h; rfl
  | str t s => intro _ v h; simp only [evalTV, Except.ok.injEq] at h; subst h; rfl
  | var t => intro hl v h; exact hl t.val (List.mem_singleton.mpr rfl) v (evalTV_var_ok.mp h)
  | paren e ih => intro hl v h; exact ih hl v h
  | neg t e ih =>
    intro _ v h
    obtain ⟨a, _, hv⟩ := evalTV_neg_ok.mp h
    exact negT_lit hv
  | not t e ih =>
    intro _ v h
    obtain ⟨a, _, hv⟩ := evalTV_not_ok.mp h
    obtain ⟨b, rfl⟩ := notT_bool hv; rfl
  | arith t op l r ihl ihr =>
    intro _ v h
    rw [evalTV_arith] at h
    obtain ⟨a, b, _, _, hv⟩ := bin2_ok.mp h
    exact arithT_lit hv
  | cmp t op l r ihl ihr =>
    intro _ v h
    rw [evalTV_cmp] at h
    obtain ⟨a, b, _, _, hv⟩ := bin2_ok.mp h
    obtain ⟨b, rfl⟩ := cmpT_bool hv; rfl
  | logic t op l r ihl ihr =>
    intro _ v h
    obtain ⟨a, _, hv⟩ := evalTV_logic_ok.mp h
    rcases hv with ⟨_, rfl⟩ | ⟨_, b, _, hv⟩
    · rfl
    · obtain ⟨b, rfl⟩ := logicT_bool hv; rfl
  | concat t l r ihl ihr =>
    intro _ v h
    rw [evalTV_concat] at h
    obtain ⟨a, b, _, _, hv⟩ := bin2_ok.mp h
    obtain ⟨s, rfl⟩ := concatT_str hv; rfl

/-- the denotation only looks at the variables that occur -/
theorem evalTV_congr (ρ ρ' : Env) (e : VExpr) (h : ∀ x ∈ e.vars, ρ x = ρ' x) : evalTV ρ e = evalTV ρ' e := by
  induction e with
  | int t n => rfl
  | real t x => rfl
  | bool t b => rfl
  | chr t c => rfl
  | str t s => rfl
  | var t => simp only [evalTV, h t.val (List.mem_singleton.mpr rfl)]
  | paren e ih => exact ih h
  | neg t e ih => simp only [evalTV, ih h]
  | not t e ih => simp only [evalTV, ih h]
  | arith t op l r ihl ihr =>
    simp only [evalTV, ihl fun x hx => h x (List.mem_append_left _ hx), ihr fun x hx => h x (List.mem_append_right _ hx)]
  | cmp t op l r ihl ihr =>
    simp only [evalTV, ihl fun x hx => h x (List.mem_append_left _ hx), ihr fun x hx => h x (List.mem_append_right _ hx)]
  | logic t op l r ihl ihr =>
    simp only [evalTV, ihl fun x hx => h x (List.mem_append_left _ hx), ihr fun x hx => h x (List.mem_append_right _ hx)]
  | concat t l r ihl ihr =>
    simp only [evalTV, ihl fun x hx => h x (List.mem_append_left _ hx), ihr fun x hx => h x (List.mem_append_right _ hx)]

/-! ## the read-only primitives as functions of the state -/

theorem mrun_pure {α : Type} (a : α) (σ : St) : (pure a : M α).run.run σ = (.ok a, σ) := rfl
theorem mrun_throw {α : Type} (e : Stop) (σ : St) : (throw e : M α).run.run σ = (.error e, σ) := rfl

theorem mrun_tryCatch_ok {α : Type} (m : M α) (hd : Stop → M α) (σ σ' : St) (a : α) (h : m.run.run σ = (.ok a, σ')) :
    (tryCatch m hd).run.run σ = (.ok a, σ') := by
  simp only [tryCatch, tryCatchThe, MonadExceptOf.tryCatch, ExceptT.tryCatch, bind, ExceptT.mk, ExceptT.run,
    StateT.bind, StateT.run] at h ⊢
  rw [h]
  rfl

theorem mrun_tryCatch_err {α : Type} (m : M α) (hd : Stop → M α) (σ σ' : St) (e : Stop)
    (h : m.run.run σ = (.error e, σ')) : (tryCatch m hd).run.run σ = (hd e).run.run σ' := by
  simp only [tryCatch, tryCatchThe, MonadExceptOf.tryCatch, ExceptT.tryCatch, bind, ExceptT.mk, ExceptT.run,
    StateT.bind, StateT.run] at h ⊢
  rw [h]

/-- `readLoc` as a function of the state (the same definition as `Pseudo.readLocP` of `PseudoProofs/EvalStep.lean`) -/
def readLocV (σ : St) (l : Loc) : Except Stop Val :=
  match σ.acts.find? (·.id == l.act) with
  | none => .error (.crash .danglingLoc)
  | some a =>
    match slotOf a l with
    | none => .error (.crash .danglingLoc)
    | some s =>
      match getPath s.val l.path with
      | some v => .ok v
      | none => .error (.crash .danglingLoc)

theorem mrun_findAct (id : Nat) (σ : St) : (findAct id).run.run σ = (.ok (σ.acts.find? (·.id == id)), σ) := rfl

theorem mrun_readLoc (l : Loc) (σ : St) : (readLoc l).run.run σ = (readLocV σ l, σ) := by
  unfold readLoc readLocV
  rw [mrun_bind_ok _ _ _ _ _ (mrun_findAct _ σ)]
  cases σ.acts.find? (·.id == l.act) with
  | none => rfl
  | some a =>
    dsimp only
    cases slotOf a l with
    | none => rfl
    | some s =>
      dsimp only
      cases getPath s.val l.path <;> rfl

theorem mrun_curAct (σ : St) (cur : Act) (rest : List Act) (h : σ.acts = cur :: rest) :
    curAct.run.run σ = (.ok cur, σ) := by
  unfold curAct
  rw [mrun_bind_ok _ _ _ _ _ (mrun_get σ), h]
  rfl

theorem mrun_globalAct (σ : St) (g : Act) (h : σ.acts.getLast? = some g) : globalAct.run.run σ = (.ok g, σ) := by
  unfold globalAct
  rw [mrun_bind_ok _ _ _ _ _ (mrun_get σ), h]
  rfl

theorem mrun_lookupVar (σ : St) (cur g : Act) (rest : List Act) (n : Str) (h : σ.acts = cur :: rest)
    (hg : σ.acts.getLast? = some g) : (lookupVar n).run.run σ = (.ok (lookupVarIn cur g n), σ) := by
  unfold lookupVar
  rw [mrun_bind_ok _ _ _ _ _ (mrun_curAct σ cur rest h), mrun_bind_ok _ _ _ _ _ (mrun_globalAct σ g hg)]
  rfl

theorem mrun_lookupArr (σ : St) (cur g : Act) (rest : List Act) (n : Str) (h : σ.acts = cur :: rest)
    (hg : σ.acts.getLast? = some g) : (lookupArr n).run.run σ = (.ok (lookupArrIn cur g n), σ) := by
  unfold lookupArr
  rw [mrun_bind_ok _ _ _ _ _ (mrun_curAct σ cur rest h), mrun_bind_ok _ _ _ _ _ (mrun_globalAct σ g hg)]
  rfl

/-- the activation type names (and enumeration literals) are looked up from (`typeScopeAct`) -/
def typeScopeV (σ : St) : Option Act :=
  if (σ.acts.takeWhile (·.isComp)).any (·.typeGlobal) then σ.acts.getLast? else σ.acts.find? (fun a => !a.isComp)

theorem mrun_scopeAct (σ : St) (a : Act) (h : σ.acts.find? (fun a => !a.isComp) = some a) :
    scopeAct.run.run σ = (.ok a, σ) := by
  unfold scopeAct
  rw [mrun_bind_ok _ _ _ _ _ (mrun_get σ), h]
  rfl

theorem mrun_typeScopeAct (σ : St) (a : Act) (h : typeScopeV σ = some a) : typeScopeAct.run.run σ = (.ok a, σ) := by
  unfold typeScopeAct
  rw [mrun_bind_ok _ _ _ _ _ (mrun_get σ)]
  unfold typeScopeV at h
  split at h
  · rename_i hc
    simp only [hc, if_true]
    exact mrun_globalAct σ a h
  · rename_i hc
    simp only [hc, Bool.false_eq_true, if_false]
    exact mrun_scopeAct σ a h

/-- `getEnumElement` as a function of the state: the enumeration literal the name `x` denotes, if any -/
def enumLitV (σ : St) (x : Str) : Option Val :=
  match typeScopeV σ, σ.acts.getLast? with
  | some a, some g =>
    match enumElemIn a x with
    | some v => some v
    | none => if a.id == g.id then none else enumElemIn g x
  | _, _ => none

theorem typeScopeV_some (σ : St) (h : HasScope σ) : ∃ a g, typeScopeV σ = some a ∧ σ.acts.getLast? = some g := by
  obtain ⟨g, hg⟩ : ∃ g, σ.acts.getLast? = some g := by
    cases hf : σ.acts.getLast? with
    | some g => exact ⟨g, rfl⟩
    | none =>
      exfalso
      obtain ⟨a, ha, _⟩ := h
      rw [List.getLast?_eq_none_iff] at hf
      rw [hf] at ha
      cases ha
  obtain ⟨s, hs⟩ : ∃ s, σ.acts.find? (fun a => !a.isComp) = some s := by
    cases hf : σ.acts.find? (fun a => !a.isComp) with
    | some a => exact ⟨a, rfl⟩
    | none =>
      exfalso
      obtain ⟨a, ha, hc⟩ := h
      have := List.find?_eq_none.mp hf a ha
      simp [hc] at this
  unfold typeScopeV
  split
  · exact ⟨g, g, hg, hg⟩
  · exact ⟨s, g, hs, hg⟩

theorem mrun_getEnumElement (σ : St) (x : Str) (h : HasScope σ) :
    (getEnumElement x).run.run σ = (.ok (enumLitV σ x), σ) := by
  obtain ⟨a, g, ha, hg⟩ := typeScopeV_some σ h
  unfold getEnumElement enumLitV
  rw [mrun_bind_ok _ _ _ _ _ (mrun_typeScopeAct σ a ha), mrun_bind_ok _ _ _ _ _ (mrun_globalAct σ g hg), ha, hg]
  dsimp only
  cases enumElemIn a x with
  | some v => rfl
  | none =>
    dsimp only
    cases hid : a.id == g.id <;> rfl

/-! ## what a name denotes in a state -/

/-- the location `resolveRef` yields for the variable slot `s` of activation `b`: the slot itself, or — for a BYREF
    formal — the location it aliases -/
def holderLoc (b : Act) (s : Slot) : Loc :=
  match s.ref with
  | some l => l
  | none => { act := b.id, isArr := false, name := s.name, path := [] }

/-- **the name `x` denotes a variable that reads `v`**: the variables of the current activation, then (from another
    activation) those of the global one, have a slot named `x` (`lookupVarIn`, what `resolveRef` does on `Ref.var`), and
    the location of that slot — for a BYREF formal the aliased location — reads `v`. -/
def VarIs (σ : St) (x : Str) (v : Val) : Prop :=
  ∃ cur rest g b s, σ.acts = cur :: rest ∧ σ.acts.getLast? = some g ∧ lookupVarIn cur g x = some (b, s) ∧
    readLocV σ (holderLoc b s) = .ok v

/-- the environment of a state: the value each name reads as a variable (`none`: not a variable, or a dangling one) -/
def envOf (σ : St) : Env := fun x =>
  match σ.acts, σ.acts.getLast? with
  | cur :: _, some g =>
    match lookupVarIn cur g x with
    | some (b, s) =>
      match readLocV σ (holderLoc b s) with
      | .ok v => some v
      | .error _ => none
    | none => none
  | _, _ => none

theorem VarIs.of_envOf {σ : St} {x : Str} {v : Val} (h : envOf σ x = some v) : VarIs σ x v := by
  unfold envOf at h
  cases hacts : σ.acts with
  | nil => rw [hacts] at h; cases h
  | cons cur rest =>
    cases hg : σ.acts.getLast? with
    | none => rw [hacts] at hg; simp at hg
    | some g =>
      rw [hg, hacts] at h
      dsimp only at h
      cases hl : lookupVarIn cur g x with
      | none => rw [hl] at h; cases h
      | some p =>
        obtain ⟨b, s⟩ := p
        rw [hl] at h
        dsimp only at h
        cases hr : readLocV σ (holderLoc b s) with
        | error e => rw [hr] at h; cases h
        | ok w =>
          rw [hr] at h
          cases h
          exact ⟨cur, rest, g, b, s, hacts, hg, hl, hr⟩

/-- **the name `x` denotes nothing**: no variable and no array of that name is visible, and `x` is not an enumeration
    literal of a visible enumerated type (for such a literal the evaluator's `catchNotDefined` fallback returns the
    enumeration value instead of the `notDefined` error). -/
def NoName (σ : St) (x : Str) : Prop :=
  ∃ cur rest g, σ.acts = cur :: rest ∧ σ.acts.getLast? = some g ∧ lookupVarIn cur g x = none ∧
    lookupArrIn cur g x = none ∧ enumLitV σ x = none

/-- the environment `ρ` describes the state `σ` on the variables of `e`: a name with a value in `ρ` denotes a variable
    of one of the five primitive types reading that value, a name without a value denotes nothing -/
def Agrees (σ : St) (ρ : Env) (e : VExpr) : Prop :=
  ∀ x ∈ e.vars, match ρ x with
    | some v => IsLit v = true ∧ VarIs σ x v
    | none => NoName σ x

theorem Agrees.litEnv {σ : St} {ρ : Env} {e : VExpr} (h : Agrees σ ρ e) : LitEnv ρ e := by
  intro x hx v hv
  have := h x hx
  rw [hv] at this
  exact this.1

theorem exists_getLast (cur : Act) (rest : List Act) : ∃ g, (cur :: rest).getLast? = some g := by
  cases h : (cur :: rest).getLast? with
  | some g => exact ⟨g, rfl⟩
  | none => rw [List.getLast?_eq_none_iff] at h; cases h

/-- a plain (not BYREF) variable slot of the current activation -/
theorem VarIs.of_current (σ : St) (cur : Act) (rest : List Act) (x : Str) (s : Slot)
    (h : σ.acts = cur :: rest) (hs : findSlot cur.vars x = some s) (href : s.ref = none) : VarIs σ x s.val := by
  obtain ⟨g, hg⟩ := exists_getLast cur rest
  have hname : s.name = x := by
    unfold findSlot at hs
    have := List.find?_some hs
    simpa using this
  refine ⟨cur, rest, g, cur, s, h, by rw [h]; exact hg, by simp only [lookupVarIn, hs], ?_⟩
  unfold readLocV holderLoc
  simp only [href, h, List.find?_cons, beq_self_eq_true, slotOf, Bool.false_eq_true, if_false, hname, hs, getPath]

/-- a plain variable slot of the global activation, seen from an activation that has no variable of that name -/
theorem VarIs.of_global (σ : St) (cur g : Act) (rest : List Act) (x : Str) (s : Slot)
    (h : σ.acts = cur :: rest) (hg : σ.acts.getLast? = some g) (hcur : findSlot cur.vars x = none)
    (hid : (cur.id == g.id) = false) (hfind : σ.acts.find? (·.id == g.id) = some g)
    (hs : findSlot g.vars x = some s) (href : s.ref = none) : VarIs σ x s.val := by
  have hname : s.name = x := by
    unfold findSlot at hs
    have := List.find?_some hs
    simpa using this
  refine ⟨cur, rest, g, g, s, h, hg, ?_, ?_⟩
  · simp only [lookupVarIn, hcur, hid, Bool.false_eq_true, if_false, hs, Option.map_some]
  · unfold readLocV holderLoc
    simp only [href, hfind, slotOf, Bool.false_eq_true, if_false, hname, hs, getPath]

theorem VarIs.hasScope_of_noComp {σ : St} {x : Str} {v : Val} (h : VarIs σ x v)
    (hc : ∀ a ∈ σ.acts, a.isComp = false) : HasScope σ := by
  obtain ⟨cur, rest, _, _, _, hacts, _⟩ := h
  exact ⟨cur, by rw [hacts]; exact List.mem_cons_self, hc cur (by rw [hacts]; exact List.mem_cons_self)⟩

/-! ## the evaluator on a variable leaf -/

theorem resolveRef_var (f : Nat) (t : Tok) :
    resolveRef (f+1) (.var t) = (do
      match ← lookupVar t.val with
      | some (a, s) =>
        match s.ref with
        | some l => pure { loc := l, isArr := false, ty := s.ty, name := l.name }
        | none => pure { loc := { act := a.id, isArr := false, name := s.name, path := [] }, isArr := false, ty := s.ty, name := s.name }
      | none =>
        match ← lookupArr t.val with
        | some (a, s) => pure { loc := { act := a.id, isArr := true, name := s.name, path := [] }, isArr := true, ty := s.ty, name := s.name }
        | none => rtErr t .notDefined) := by
  rw [resolveRef.eq_def]; rfl

theorem evalExpr_access (f : Nat) (t : Tok) (r : Ref) :
    evalExpr (f+1) (.access t r) = (do
        let h ← catchNotDefined (resolveRef f r >>= fun h => pure (some h)) fun e => do
          match ← getEnumElement t.val with
          | some _ => pure none
          | none => throw e
        match h with
        | none =>
          match ← getEnumElement t.val with
          | some v => pure v
          | none => throw (.crash .other)
        | some h =>
          if h.isArr then rtErr t .arrayDirect
          else readLoc h.loc) := by
  rw [evalExpr.eq_def]; rfl

/-- a name that denotes a variable resolves to its holder, with every fuel `≥ 1` -/
theorem mrun_resolveRef_var (σ : St) (cur g : Act) (rest : List Act) (t : Tok) (f : Nat) (b : Act) (s : Slot)
    (h : σ.acts = cur :: rest) (hg : σ.acts.getLast? = some g) (hl : lookupVarIn cur g t.val = some (b, s)) :
    ∃ hd : Holder, (resolveRef (f+1) (.var t)).run.run σ = (.ok hd, σ) ∧ hd.isArr = false ∧ hd.loc = holderLoc b s := by
  rw [resolveRef_var, mrun_bind_ok _ _ _ _ _ (mrun_lookupVar σ cur g rest t.val h hg), hl]
  dsimp only
  unfold holderLoc
  cases s.ref with
  | none => exact ⟨_, rfl, rfl, rfl⟩
  | some l => exact ⟨_, rfl, rfl, rfl⟩

/-- a name that is neither a variable nor an array: `notDefined` at the name's token -/
theorem mrun_resolveRef_undefined (σ : St) (cur g : Act) (rest : List Act) (t : Tok) (f : Nat)
    (h : σ.acts = cur :: rest) (hg : σ.acts.getLast? = some g) (hl : lookupVarIn cur g t.val = none)
    (hla : lookupArrIn cur g t.val = none) :
    (resolveRef (f+1) (.var t)).run.run σ = (.error (.diag (rtDiag σ t.line t.col .notDefined)), σ) := by
  rw [resolveRef_var, mrun_bind_ok _ _ _ _ _ (mrun_lookupVar σ cur g rest t.val h hg), hl]
  dsimp only
  rw [mrun_bind_ok _ _ _ _ _ (mrun_lookupArr σ cur g rest t.val h hg), hla]
  exact run_rtErr t .notDefined σ

/-- the trace of a runtime diagnostic has one frame per activation (what `catchNotDefined` tests) -/
theorem rtDiag_trace_length (σ : St) (cur : Act) (rest : List Act) (h : σ.acts = cur :: rest) (l c : Nat) (m : Msg) :
    (rtDiag σ l c m).trace.length = σ.acts.length := by
  unfold rtDiag
  rw [h]
  simp

/-- **a variable leaf**: with fuel `≥ 2`, the value the variable reads; the state is unchanged -/
theorem run_access_var (σ : St) (t : Tok) (v : Val) (f : Nat) (h : VarIs σ t.val v) :
    (evalExpr (f+2) (.access t (.var t))).run.run σ = (.ok v, σ) := by
  obtain ⟨cur, rest, g, b, s, hacts, hg, hl, hr⟩ := h
  obtain ⟨hd, hres, harr, hloc⟩ := mrun_resolveRef_var σ cur g rest t f b s hacts hg hl
  have h2 : (resolveRef (f+1) (.var t) >>= fun h => (pure (some h) : M (Option Holder))).run.run σ = (.ok (some hd), σ) := by
    rw [mrun_bind_ok _ _ _ _ _ hres]; rfl
  rw [evalExpr_access]
  unfold catchNotDefined
  rw [mrun_bind_ok _ _ _ _ _ (mrun_tryCatch_ok _ _ _ _ _ h2)]
  simp only [harr, Bool.false_eq_true, if_false]
  rw [mrun_readLoc, hloc, hr]

/-- **an undefined name**: with fuel `≥ 2`, the runtime error `notDefined` at the name's token; the state is unchanged -/
theorem run_access_undefined (σ : St) (t : Tok) (f : Nat) (hs : HasScope σ) (h : NoName σ t.val) :
    (evalExpr (f+2) (.access t (.var t))).run.run σ =
      (.error (.diag (rtDiag σ t.line t.col .notDefined)), σ) := by
  obtain ⟨cur, rest, g, hacts, hg, hl, hla, hen⟩ := h
  have hres := mrun_resolveRef_undefined σ cur g rest t f hacts hg hl hla
  have h2 : (resolveRef (f+1) (.var t) >>= fun h => (pure (some h) : M (Option Holder))).run.run σ =
      (.error (.diag (rtDiag σ t.line t.col .notDefined)), σ) := mrun_bind_err _ _ _ _ _ hres
  rw [evalExpr_access]
  unfold catchNotDefined
  apply mrun_bind_err
  rw [mrun_tryCatch_err _ _ _ _ _ h2]
  simp only [rtDiag_kind, rtDiag_msg, beq_self_eq_true, Bool.and_self, if_true]
  rw [mrun_bind_ok _ _ _ _ _ (mrun_get σ)]
  simp only [rtDiag_trace_length σ cur rest hacts, beq_self_eq_true, if_true]
  rw [mrun_bind_ok _ _ _ _ _ (mrun_getEnumElement σ t.val hs), hen]
  rfl

/-- **an enumeration literal** (a name that is neither a variable nor an array, but a literal of a visible enumerated
    type): with fuel `≥ 2`, the enumeration value; the state is unchanged -/
theorem run_access_enumLit (σ : St) (t : Tok) (f : Nat) (hs : HasScope σ) (cur g : Act) (rest : List Act) (ev : Val)
    (hacts : σ.acts = cur :: rest) (hg : σ.acts.getLast? = some g) (hl : lookupVarIn cur g t.val = none)
    (hla : lookupArrIn cur g t.val = none) (hen : enumLitV σ t.val = some ev) :
    (evalExpr (f+2) (.access t (.var t))).run.run σ = (.ok ev, σ) := by
  have hres := mrun_resolveRef_undefined σ cur g rest t f hacts hg hl hla
  have h2 : (resolveRef (f+1) (.var t) >>= fun h => (pure (some h) : M (Option Holder))).run.run σ =
      (.error (.diag (rtDiag σ t.line t.col .notDefined)), σ) := mrun_bind_err _ _ _ _ _ hres
  have h3 : (catchNotDefined (resolveRef (f+1) (.var t) >>= fun h => (pure (some h) : M (Option Holder))) fun e => do
          match ← getEnumElement t.val with
          | some _ => pure none
          | none => throw e).run.run σ = (.ok none, σ) := by
    unfold catchNotDefined
    rw [mrun_tryCatch_err _ _ _ _ _ h2]
    simp only [rtDiag_kind, rtDiag_msg, beq_self_eq_true, Bool.and_self, if_true]
    rw [mrun_bind_ok _ _ _ _ _ (mrun_get σ)]
    simp only [rtDiag_trace_length σ cur rest hacts, beq_self_eq_true, if_true]
    rw [mrun_bind_ok _ _ _ _ _ (mrun_getEnumElement σ t.val hs), hen]
    rfl
  rw [evalExpr_access, mrun_bind_ok _ _ _ _ _ h3]
  dsimp only
  rw [mrun_bind_ok _ _ _ _ _ (mrun_getEnumElement σ t.val hs), hen]
  rfl

/-! ## the evaluator on a denoted tree -/

theorem Agrees.left {σ : St} {ρ : Env} {l r : VExpr}
    (h : ∀ x ∈ l.vars ++ r.vars, match ρ x with | some v => IsLit v = true ∧ VarIs σ x v | none => NoName σ x) :
    Agrees σ ρ l := fun x hx => h x (List.mem_append_left _ hx)
theorem Agrees.right {σ : St} {ρ : Env} {l r : VExpr}
    (h : ∀ x ∈ l.vars ++ r.vars, match ρ x with | some v => IsLit v = true ∧ VarIs σ x v | none => NoName σ x) :
    Agrees σ ρ r := fun x hx => h x (List.mem_append_right _ hx)

/-- the evaluator on a denoted tree returns the denoted result -/
theorem eval_denote_outTV (ρ : Env) (e : VExpr) : ∀ (fuel : Nat) (σ : St), fuel > e.size → HasScope σ → Agrees σ ρ e →
    (evalExpr fuel (denoteV e)).run.run σ = outT σ (evalTV ρ e) := by
  induction e with
  | int t n =>
    intro fuel σ hf _ _
    obtain ⟨f, rfl⟩ : ∃ f, fuel = f + 1 := ⟨fuel - 1, by simp only [VExpr.size] at hf; omega⟩
    simp only [denoteV, evalExpr_intLit]; rfl
  | real t x =>
    intro fuel σ hf _ _
    obtain ⟨f, rfl⟩ : ∃ f, fuel = f + 1 := ⟨fuel - 1, by simp only [VExpr.size] at hf; omega⟩
    simp only [denoteV, evalExpr_realLit]; rfl
  | bool t b =>
    intro fuel σ hf _ _
    obtain ⟨f, rfl⟩ : ∃ f, fuel = f + 1 := ⟨fuel - 1, by simp only [VExpr.size] at hf; omega⟩
    simp only [denoteV, evalExpr_boolLit]; rfl
  | chr t c =>
    intro fuel σ hf _ _
    obtain ⟨f, rfl⟩ : ∃ f, fuel = f + 1 := ⟨fuel - 1, by simp only [VExpr.size] at hf; omega⟩
    simp only [denoteV, evalExpr_charLit]; rfl
  | str t s =>
    intro fuel σ hf _ _
    obtain ⟨f, rfl⟩ : ∃ f, fuel = f + 1 := ⟨fuel - 1, by simp only [VExpr.size] at hf; omega⟩
    simp only [denoteV, evalExpr_strLit]; rfl
  | var t =>
    intro fuel σ hf hs ha
    obtain ⟨f, rfl⟩ : ∃ f, fuel = f + 2 := ⟨fuel - 2, by simp only [VExpr.size] at hf; omega⟩
    have hx := ha t.val (List.mem_singleton.mpr rfl)
    simp only [denoteV, evalTV]
    cases hρ : ρ t.val with
    | some v =>
      rw [hρ] at hx
      rw [run_access_var σ t v f hx.2]; rfl
    | none =>
      rw [hρ] at hx
      rw [run_access_undefined σ t f hs hx]; rfl
  | paren e ih => intro fuel σ hf hs ha; exact ih fuel σ hf hs ha
  | neg t e ih =>
    intro fuel σ hf hs ha
    simp only [VExpr.size] at hf
    obtain ⟨f, rfl⟩ : ∃ f, fuel = f + 1 := ⟨fuel - 1, by omega⟩
    have H := ih f σ (by omega) hs ha
    simp only [denoteV, evalExpr_neg, evalTV]
    cases he : evalTV ρ e with
    | error x => obtain ⟨t', m⟩ := x; rw [he] at H; exact mrun_bind_err _ _ _ _ _ H
    | ok v => rw [he] at H; rw [mrun_bind_ok _ _ _ _ _ H, run_liftMsg, ← negT_eq]; rfl
  | not t e ih =>
    intro fuel σ hf hs ha
    simp only [VExpr.size] at hf
    obtain ⟨f, rfl⟩ : ∃ f, fuel = f + 1 := ⟨fuel - 1, by omega⟩
    have H := ih f σ (by omega) hs ha
    simp only [denoteV, evalExpr_not, evalTV]
    cases he : evalTV ρ e with
    | error x => obtain ⟨t', m⟩ := x; rw [he] at H; exact mrun_bind_err _ _ _ _ _ H
    | ok v => rw [he] at H; rw [mrun_bind_ok _ _ _ _ _ H, run_liftMsg, ← notT_eq]; rfl
  | arith t op l r ihl ihr =>
    intro fuel σ hf hs ha
    simp only [VExpr.size] at hf
    obtain ⟨f, rfl⟩ : ∃ f, fuel = f + 1 := ⟨fuel - 1, by omega⟩
    have hal : Agrees σ ρ l := Agrees.left ha
    have har : Agrees σ ρ r := Agrees.right ha
    have Hl := ihl f σ (by omega) hs hal
    have Hr := ihr f σ (by omega) hs har
    simp only [denoteV, evalExpr_arith, evalTV]
    cases hl : evalTV ρ l with
    | error x => obtain ⟨t', m⟩ := x; rw [hl] at Hl; exact mrun_bind_err _ _ _ _ _ Hl
    | ok a =>
      rw [hl] at Hl; rw [mrun_bind_ok _ _ _ _ _ Hl]
      cases hr : evalTV ρ r with
      | error x => obtain ⟨t', m⟩ := x; rw [hr] at Hr; exact mrun_bind_err _ _ _ _ _ Hr
      | ok b =>
        rw [hr] at Hr
        obtain ⟨sa, hsa⟩ := run_scopeAct_ok σ hs
        obtain ⟨g, hg⟩ := run_globalAct_ok σ hs
        rw [mrun_bind_ok _ _ _ _ _ Hr, mrun_bind_ok _ _ _ _ _ hsa, mrun_bind_ok _ _ _ _ _ hg, run_liftMsg,
          ← arithT_eq _ op a b (evalTV_lit ρ l hal.litEnv a hl) (evalTV_lit ρ r har.litEnv b hr)]
        rfl
  | cmp t op l r ihl ihr =>
    intro fuel σ hf hs ha
    simp only [VExpr.size] at hf
    obtain ⟨f, rfl⟩ : ∃ f, fuel = f + 1 := ⟨fuel - 1, by omega⟩
    have hal : Agrees σ ρ l := Agrees.left ha
    have har : Agrees σ ρ r := Agrees.right ha
    have Hl := ihl f σ (by omega) hs hal
    have Hr := ihr f σ (by omega) hs har
    simp only [denoteV, evalExpr_cmp, evalTV]
    cases hl : evalTV ρ l with
    | error x => obtain ⟨t', m⟩ := x; rw [hl] at Hl; exact mrun_bind_err _ _ _ _ _ Hl
    | ok a =>
      rw [hl] at Hl; rw [mrun_bind_ok _ _ _ _ _ Hl]
      cases hr : evalTV ρ r with
      | error x => obtain ⟨t', m⟩ := x; rw [hr] at Hr; exact mrun_bind_err _ _ _ _ _ Hr
      | ok b =>
        rw [hr] at Hr
        rw [mrun_bind_ok _ _ _ _ _ Hr, run_liftMsg,
          ← cmpT_eq op a b (evalTV_lit ρ l hal.litEnv a hl) (evalTV_lit ρ r har.litEnv b hr)]
        rfl
  | concat t l r ihl ihr =>
    intro fuel σ hf hs ha
    simp only [VExpr.size] at hf
    obtain ⟨f, rfl⟩ : ∃ f, fuel = f + 1 := ⟨fuel - 1, by omega⟩
    have hal : Agrees σ ρ l := Agrees.left ha
    have har : Agrees σ ρ r := Agrees.right ha
    have Hl := ihl f σ (by omega) hs hal
    have Hr := ihr f σ (by omega) hs har
    simp only [denoteV, evalExpr_concat, evalTV]
    cases hl : evalTV ρ l with
    | error x => obtain ⟨t', m⟩ := x; rw [hl] at Hl; exact mrun_bind_err _ _ _ _ _ Hl
    | ok a =>
      rw [hl] at Hl; rw [mrun_bind_ok _ _ _ _ _ Hl]
      cases hr : evalTV ρ r with
      | error x => obtain ⟨t', m⟩ := x; rw [hr] at Hr; exact mrun_bind_err _ _ _ _ _ Hr
      | ok b =>
        rw [hr] at Hr
        rw [mrun_bind_ok _ _ _ _ _ Hr, run_liftMsg,
          ← concatT_eq a b (evalTV_lit ρ l hal.litEnv a hl) (evalTV_lit ρ r har.litEnv b hr)]
        rfl
  | logic t op l r ihl ihr =>
    intro fuel σ hf hs ha
    simp only [VExpr.size] at hf
    obtain ⟨f, rfl⟩ : ∃ f, fuel = f + 1 := ⟨fuel - 1, by omega⟩
    have hal : Agrees σ ρ l := Agrees.left ha
    have har : Agrees σ ρ r := Agrees.right ha
    have Hl := ihl f σ (by omega) hs hal
    have Hr := ihr f σ (by omega) hs har
    simp only [denoteV, evalExpr_logic]
    cases hl : evalTV ρ l with
    | error x =>
      obtain ⟨t', m⟩ := x; rw [hl] at Hl
      simp only [evalTV, hl]
      exact mrun_bind_err _ _ _ _ _ Hl
    | ok a =>
      rw [hl] at Hl; rw [mrun_bind_ok _ _ _ _ _ Hl]
      split
      · simp only [evalTV, hl, log2, shortT, if_true]; rfl
      · rename_i hne
        have hsc : shortT op a = false := by
          unfold shortT
          split
          · exact (hne rfl rfl).elim
          · rfl
        cases hr : evalTV ρ r with
        | error x =>
          obtain ⟨t', m⟩ := x; rw [hr] at Hr
          simp only [evalTV, hl, hr, log2, hsc, Bool.false_eq_true, if_false]
          exact mrun_bind_err _ _ _ _ _ Hr
        | ok b =>
          rw [hr] at Hr
          simp only [evalTV, hl, hr, log2, hsc, Bool.false_eq_true, if_false]
          rw [mrun_bind_ok _ _ _ _ _ Hr, run_liftMsg, ← logicT_eq]

/-! ## substitution: variables replaced by the literals of their values -/

/-- the literal leaf of a primitive value; `txt` chooses the text of a REAL literal -/
def litOf (t : Tok) (txt : Float → Str) : Val → TExpr
  | .int n => .int t n
  | .real x => .real t (txt x)
  | .bool b => .bool t b
  | .chr c => .chr t c
  | .str s => .str t s
  | _ => .int t 0

/-- replace every variable leaf by the literal of its value in `ρ` (at the variable's token) -/
def substV (ρ : Env) (txt : Float → Str) : VExpr → TExpr
  | .int t n => .int t n
  | .real t x => .real t x
  | .bool t b => .bool t b
  | .chr t c => .chr t c
  | .str t s => .str t s
  | .var t =>
    match ρ t.val with
    | some v => litOf t txt v
    | none => .int t 0
  | .paren e => .paren (substV ρ txt e)
  | .neg t e => .neg t (substV ρ txt e)
  | .not t e => .not t (substV ρ txt e)
  | .arith t op l r => .arith t op (substV ρ txt l) (substV ρ txt r)
  | .cmp t op l r => .cmp t op (substV ρ txt l) (substV ρ txt r)
  | .logic t op l r => .logic t op (substV ρ txt l) (substV ρ txt r)
  | .concat t l r => .concat t (substV ρ txt l) (substV ρ txt r)

/-- `txt` denotes the REAL values of the variables of `e`: the literal `txt y` reads back as `y` -/
def RealTexts (ρ : Env) (txt : Float → Str) (e : VExpr) : Prop :=
  ∀ x ∈ e.vars, ∀ y, ρ x = some (.real y) → (strtod (txt y)).1 = y

theorem evalT_litOf (t : Tok) (txt : Float → Str) (v : Val) (hv : IsLit v = true)
    (hr : ∀ y, v = .real y → (strtod (txt y)).1 = y) : evalT (litOf t txt v) = .ok v := by
  cases v <;> simp [IsLit] at hv <;> simp only [litOf, evalT]
  rw [hr _ rfl]

/-- **substitution lemma** -/
theorem evalTV_subst (ρ : Env) (txt : Float → Str) (e : VExpr) :
    Bound ρ e → LitEnv ρ e → RealTexts ρ txt e → evalTV ρ e = evalT (substV ρ txt e) := by
  induction e with
  | int t n => intros; rfl
  | real t x => intros; rfl
  | bool t b => intros; rfl
  | chr t c => intros; rfl
  | str t s => intros; rfl
  | var t =>
    intro hb hl hr
    obtain ⟨v, hv⟩ := hb t.val (List.mem_singleton.mpr rfl)
    simp only [evalTV, substV, hv]
    exact (evalT_litOf t txt v (hl _ (List.mem_singleton.mpr rfl) v hv)
      (fun y hy => hr _ (List.mem_singleton.mpr rfl) y (hy ▸ hv))).symm
  | paren e ih => intro hb hl hr; exact ih hb hl hr
  | neg t e ih => intro hb hl hr; simp only [evalTV, substV, evalT_neg, evalT_not, ih hb hl hr]
  | not t e ih => intro hb hl hr; simp only [evalTV, substV, evalT_neg, evalT_not, ih hb hl hr]
  | arith t op l r ihl ihr =>
    intro hb hl hr
    simp only [evalTV, substV, evalT_arith, evalT_cmp, evalT_concat, evalT_logic,
      ihl (fun x hx => hb x (List.mem_append_left _ hx)) (fun x hx => hl x (List.mem_append_left _ hx))
        (fun x hx => hr x (List.mem_append_left _ hx)),
      ihr (fun x hx => hb x (List.mem_append_right _ hx)) (fun x hx => hl x (List.mem_append_right _ hx))
        (fun x hx => hr x (List.mem_append_right _ hx))]
  | cmp t op l r ihl ihr =>
    intro hb hl hr
    simp only [evalTV, substV, evalT_arith, evalT_cmp, evalT_concat, evalT_logic,
      ihl (fun x hx => hb x (List.mem_append_left _ hx)) (fun x hx => hl x (List.mem_append_left _ hx))
        (fun x hx => hr x (List.mem_append_left _ hx)),
      ihr (fun x hx => hb x (List.mem_append_right _ hx)) (fun x hx => hl x (List.mem_append_right _ hx))
        (fun x hx => hr x (List.mem_append_right _ hx))]
  | logic t op l r ihl ihr =>
    intro hb hl hr
    simp only [evalTV, substV, evalT_arith, evalT_cmp, evalT_concat, evalT_logic,
      ihl (fun x hx => hb x (List.mem_append_left _ hx)) (fun x hx => hl x (List.mem_append_left _ hx))
        (fun x hx => hr x (List.mem_append_left _ hx)),
      ihr (fun x hx => hb x (List.mem_append_right _ hx)) (fun x hx => hl x (List.mem_append_right _ hx))
        (fun x hx => hr x (List.mem_append_right _ hx))]
  | concat t l r ihl ihr =>
    intro hb hl hr
    simp only [evalTV, substV, evalT_arith, evalT_cmp, evalT_concat, evalT_logic,
      ihl (fun x hx => hb x (List.mem_append_left _ hx)) (fun x hx => hl x (List.mem_append_left _ hx))
        (fun x hx => hr x (List.mem_append_left _ hx)),
      ihr (fun x hx => hb x (List.mem_append_right _ hx)) (fun x hx => hl x (List.mem_append_right _ hx))
        (fun x hx => hr x (List.mem_append_right _ hx))]

/-- a tree without variable leaves is a `TExpr` -/
def ofT : TExpr → VExpr
  | .int t n => .int t n
  | .real t x => .real t x
  | .bool t b => .bool t b
  | .chr t c => .chr t c
  | .str t s => .str t s
  | .paren e => .paren (ofT e)
  | .neg t e => .neg t (ofT e)
  | .not t e => .not t (ofT e)
  | .arith t op l r => .arith t op (ofT l) (ofT r)
  | .cmp t op l r => .cmp t op (ofT l) (ofT r)
  | .logic t op l r => .logic t op (ofT l) (ofT r)
  | .concat t l r => .concat t (ofT l) (ofT r)

theorem evalTV_ofT (ρ : Env) (e : TExpr) : evalTV ρ (ofT e) = evalT e := by
  induction e with
  | int t n => rfl
  | real t x => rfl
  | bool t b => rfl
  | chr t c => rfl
  | str t s => rfl
  | paren e ih => exact ih
  | neg t e ih => rw [evalT_neg, ← ih]; rfl
  | not t e ih => rw [evalT_not, ← ih]; rfl
  | arith t op l r ihl ihr => rw [evalT_arith, ← ihl, ← ihr]; rfl
  | cmp t op l r ihl ihr => rw [evalT_cmp, ← ihl, ← ihr]; rfl
  | logic t op l r ihl ihr => rw [evalT_logic, ← ihl, ← ihr]; rfl
  | concat t l r ihl ihr => rw [evalT_concat, ← ihl, ← ihr]; rfl

theorem denoteV_ofT (e : TExpr) : denoteV (ofT e) = denoteT e := by
  induction e <;> simp only [ofT, denoteV, denoteT, *]

theorem vars_ofT (e : TExpr) : (ofT e).vars = [] := by
  induction e <;> simp only [ofT, VExpr.vars, List.append_nil, *]

theorem size_ofT (e : TExpr) : (ofT e).size = e.size := by
  induction e <;> simp only [ofT, VExpr.size, TExpr.size, *]

/-! ## one operator on arbitrary operand expressions that evaluate without changing the state

The operands may be any `Expr` (array elements, record fields, calls of functions without side effects, …): these
are the inductive steps of `eval_denote_outTV`, stated on their own. -/

theorem step_neg (σ : St) (f : Nat) (t : Tok) (e : Expr) (a : Val) (he : (evalExpr f e).run.run σ = (.ok a, σ)) :
    (evalExpr (f+1) (.neg t e)).run.run σ = outT σ (atTok t (negT a)) := by
  rw [evalExpr_neg, mrun_bind_ok _ _ _ _ _ he, run_liftMsg, ← negT_eq]

theorem step_not (σ : St) (f : Nat) (t : Tok) (e : Expr) (a : Val) (he : (evalExpr f e).run.run σ = (.ok a, σ)) :
    (evalExpr (f+1) (.not t e)).run.run σ = outT σ (atTok t (ExprDenote.notT a)) := by
  rw [evalExpr_not, mrun_bind_ok _ _ _ _ _ he, run_liftMsg, ← notT_eq]

theorem step_arith (σ : St) (f : Nat) (t : Tok) (op : ArOp) (l r : Expr) (a b : Val) (hs : HasScope σ)
    (hl : (evalExpr f l).run.run σ = (.ok a, σ)) (hr : (evalExpr f r).run.run σ = (.ok b, σ))
    (ha : IsLit a = true) (hb : IsLit b = true) :
    (evalExpr (f+1) (.arith t op l r)).run.run σ = outT σ (atTok t (arithT op a b)) := by
  obtain ⟨sa, hsa⟩ := run_scopeAct_ok σ hs
  obtain ⟨g, hg⟩ := run_globalAct_ok σ hs
  rw [evalExpr_arith, mrun_bind_ok _ _ _ _ _ hl, mrun_bind_ok _ _ _ _ _ hr, mrun_bind_ok _ _ _ _ _ hsa,
    mrun_bind_ok _ _ _ _ _ hg, run_liftMsg, ← arithT_eq _ op a b ha hb]

theorem step_cmp (σ : St) (f : Nat) (t : Tok) (op : CmpOp) (l r : Expr) (a b : Val)
    (hl : (evalExpr f l).run.run σ = (.ok a, σ)) (hr : (evalExpr f r).run.run σ = (.ok b, σ))
    (ha : IsLit a = true) (hb : IsLit b = true) :
    (evalExpr (f+1) (.cmp t op l r)).run.run σ = outT σ (atTok t (cmpT op a b)) := by
  rw [evalExpr_cmp, mrun_bind_ok _ _ _ _ _ hl, mrun_bind_ok _ _ _ _ _ hr, run_liftMsg, ← cmpT_eq op a b ha hb]

theorem step_concat (σ : St) (f : Nat) (t : Tok) (l r : Expr) (a b : Val)
    (hl : (evalExpr f l).run.run σ = (.ok a, σ)) (hr : (evalExpr f r).run.run σ = (.ok b, σ))
    (ha : IsLit a = true) (hb : IsLit b = true) :
    (evalExpr (f+1) (.concat t l r)).run.run σ = outT σ (atTok t (concatT a b)) := by
  rw [evalExpr_concat, mrun_bind_ok _ _ _ _ _ hl, mrun_bind_ok _ _ _ _ _ hr, run_liftMsg, ← concatT_eq a b ha hb]

theorem step_logic (σ : St) (f : Nat) (t : Tok) (op : LogOp) (l r : Expr) (a : Val) (rr : Except Err Val)
    (hl : (evalExpr f l).run.run σ = (.ok a, σ))
    (hr : shortT op a = false → (evalExpr f r).run.run σ = outT σ rr) :
    (evalExpr (f+1) (.logic t op l r)).run.run σ = outT σ (log2 t op (.ok a) rr) := by
  rw [evalExpr_logic, mrun_bind_ok _ _ _ _ _ hl]
  split
  · rfl
  · rename_i hne
    have hsc : shortT op a = false := by
      unfold shortT
      split
      · exact (hne rfl rfl).elim
      · rfl
    have Hr := hr hsc
    simp only [log2, hsc, Bool.false_eq_true, if_false]
    cases rr with
    | error x => obtain ⟨t', m⟩ := x; exact mrun_bind_err _ _ _ _ _ Hr
    | ok b => rw [mrun_bind_ok _ _ _ _ _ Hr, run_liftMsg, ← logicT_eq]

end Pseudo.ExprDenoteVars
