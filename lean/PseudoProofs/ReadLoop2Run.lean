import PseudoProofs.ReadLoop2
/-!
# Helpers for C15 (`Properties/C15Files.lean`), part 2: runs of statements on `Tgt` variables, and the generic reading loop

* constructors of `Tgt`: `Tgt.of_cur`, `Tgt.of_global`, `Tgt.of_byref`;
* runs: `run_readFile_tgt` (READFILE into a `Tgt` STRING variable), `run_accessTgt` (the expression `x`), `run_outputTgt`
  (OUTPUT x), `run_writeFileTgt` (WRITEFILE b, x), `run_incrTgt` (x <- x + 1);
* `whileLoop_readGen`: the loop `WHILE NOT EOF(n) DO READFILE n, line ; s2 ENDWHILE` for ANY second statement `s2` that has a
  specification `S2` (its run from the state after READFILE is `post l`, it keeps the loop's invariant `Core`); the final state
  is the fold `loopFinal`.
-/
namespace Pseudo.ReadLoop2
open Pseudo Pseudo.FileStmt Pseudo.ReadLoop Pseudo.ArrayLemmas Pseudo.C07Copy

/-! ### constructors of `Tgt` -/

theorem readLocP_at (σ : St) (c : Act) (x : Str) (s : Slot) (hfind : σ.acts.find? (·.id == c.id) = some c)
    (hs : findSlot c.vars x = some s) : readLocP σ (curLoc c x) = .ok s.val := by
  have hslot : slotOf c (curLoc c x) = some s := hs
  unfold readLocP
  show (match σ.acts.find? (·.id == c.id) with | none => _ | some a' => _) = _
  rw [hfind]
  dsimp only
  rw [hslot]
  rfl

theorem locConstP_at (σ : St) (c : Act) (x : Str) (s : Slot) (hfind : σ.acts.find? (·.id == c.id) = some c)
    (hs : findSlot c.vars x = some s) : locConstP σ (curLoc c x) = s.isConst := by
  have hslot : slotOf c (curLoc c x) = some s := hs
  unfold locConstP
  show (match σ.acts.find? (·.id == c.id) with | none => _ | some a' => _) = _
  rw [hfind]
  dsimp only
  rw [hslot]
  rfl

/-- the general constructor: the look-up of `x` yields a slot standing for the plain variable `y` of the activation `c`, which
    is the first activation with its number on the stack -/
theorem Tgt.mk' {σ : St} {x y : Str} {ty ty' : Ty} {v : Val} {a : Act} {s : Slot} {c : Act}
    (hl : lookupVarP σ x = .ok (some (a, s))) (hty : s.ty = ty) (hloc : varLoc a s = curLoc c y)
    (hfind : σ.acts.find? (·.id == c.id) = some c) (hv : HasVar c y ty' v) : Tgt σ x ty (curLoc c y) v := by
  obtain ⟨s', hs', _, hc, _, hval⟩ := hv
  exact ⟨⟨a, s, hl, hty, hloc⟩, rfl, rfl, by rw [locConstP_at σ c y s' hfind hs', hc],
    by rw [readLocP_at σ c y s' hfind hs', hval]⟩

/-- a plain variable of the current activation -/
theorem Tgt.of_cur {σ : St} {a : Act} {rest : List Act} {x : Str} {ty : Ty} {v : Val} (hacts : σ.acts = a :: rest)
    (hv : HasVar a x ty v) : Tgt σ x ty (curLoc a x) v := by
  obtain ⟨s, hs, hty, hc, hr, hval⟩ := hv
  have hname := ReadLoop.findSlot_name _ _ _ hs
  refine Tgt.mk' (lookupVarP_cur σ a rest x s hacts hs) hty ?_ (by rw [hacts]; simp) ⟨s, hs, hty, hc, hr, hval⟩
  unfold varLoc curLoc; rw [hr, hname]

theorem getLast_of_eq (l : List Act) (h : l ≠ []) (xs : List Act) (g : Act) (e : l = xs ++ [g]) : l.getLast h = g := by
  subst e; exact List.getLast_concat

/-- a plain variable of the global activation `g`, seen from an activation `a` that has no variable of that name (the stack is
    `a :: mid ++ [g]`; no activation above `g` has `g`'s number) -/
theorem Tgt.of_global {σ : St} {a g : Act} {mid : List Act} {x : Str} {ty : Ty} {v : Val}
    (hacts : σ.acts = a :: (mid ++ [g])) (hno : findSlot a.vars x = none)
    (hids : ∀ b ∈ a :: mid, b.id ≠ g.id) (hv : HasVar g x ty v) : Tgt σ x ty (curLoc g x) v := by
  obtain ⟨s, hs, hty, hc, hr, hval⟩ := hv
  have hname := ReadLoop.findSlot_name _ _ _ hs
  have hag : (a.id == g.id) = false := by
    have := hids a (List.mem_cons_self ..)
    simpa using this
  have hlast : (a :: (mid ++ [g])).getLast (List.cons_ne_nil _ _) = g :=
    getLast_of_eq _ _ (a :: mid) g rfl
  have hl : lookupVarP σ x = .ok (some (g, s)) := by
    rw [lookupVarP_cons σ a _ hacts, hlast]
    unfold lookupVarIn
    rw [hno]
    simp only [hag, Bool.false_eq_true, if_false, hs, Option.map_some]
  have hfind : σ.acts.find? (·.id == g.id) = some g := by
    rw [hacts, ← List.cons_append, List.find?_append]
    have : (a :: mid).find? (·.id == g.id) = none := by
      rw [List.find?_eq_none]
      intro b hb
      simpa using hids b hb
    rw [this]
    simp
  refine Tgt.mk' hl hty ?_ hfind ⟨s, hs, hty, hc, hr, hval⟩
  unfold varLoc curLoc; rw [hr, hname]

/-- a BYREF formal `x` of the current activation that stands for the plain variable `y` of an activation `c` on the stack -/
theorem Tgt.of_byref {σ : St} {a c : Act} {rest : List Act} {x y : Str} {ty ty' : Ty} {v : Val} {s : Slot}
    (hacts : σ.acts = a :: rest) (hs : findSlot a.vars x = some s) (hty : s.ty = ty)
    (href : s.ref = some (curLoc c y)) (hfind : σ.acts.find? (·.id == c.id) = some c) (hv : HasVar c y ty' v) :
    Tgt σ x ty (curLoc c y) v := by
  refine Tgt.mk' (lookupVarP_cur σ a rest x s hacts hs) hty ?_ hfind hv
  unfold varLoc; rw [href]

/-! ### runs of statements -/

theorem run_readFile_tgt (f : Nat) (t tn id : Tok) (n : Str) (σ : St) (L : Loc) (v0 : Str) (h : Handle)
    (hb : σ.steps + 1 ≤ σ.stepLimit) (ht : Tgt σ id.val .str L (.str v0))
    (hh : FState.handle (fileSt σ) n = some h) (hm : h.mode = .read) :
    (execStmt (f+3) (.readFile t (.strLit tn n) id)).run.run σ =
      (.ok .none, writeLocSt { σ with steps := σ.steps + 1, handles := setRest σ.handles n (readLineOf h.rest).2 } L
          (.str (readLineOf h.rest).1)) := by
  obtain ⟨a, s, hlv, hty, hloc⟩ := ht.look
  obtain ⟨line, root, hr, hrun, _, hroot⟩ :=
    (C16_exec_readFile (f+1) t (.strLit tn n) id σ n a s (.str v0) hb (evalsTo_strLit f tn n _) hlv hty
      (by rw [hloc]; exact ht.nconst) (by rw [hloc]; exact ht.val) rfl).1
      _ _ (fstep_readLine_ok (fileSt σ) n h hh hm)
  injection hr with hr
  subst hr
  have hroot' : root = .str (readLineOf h.rest).1 := hroot (by rw [hloc]; exact ht.path)
  subst hroot'
  rw [hrun, hloc]
  rfl

theorem run_resolveTgt (f : Nat) (t : Tok) (σ : St) (ty : Ty) (L : Loc) (v : Val) (ht : Tgt σ t.val ty L v) :
    ∃ nm, (resolveRef (f+1) (.var t)).run.run σ = (.ok { loc := L, isArr := false, ty := ty, name := nm }, σ) := by
  obtain ⟨a, s, hlv, hty, hloc⟩ := ht.look
  rw [resolveRef_var, run_bind, FileStmt.run_lookupVar, hlv]
  dsimp only
  unfold varLoc at hloc
  cases hr : s.ref with
  | some l =>
    rw [hr] at hloc
    dsimp only at hloc ⊢
    subst hloc; subst hty
    exact ⟨_, rfl⟩
  | none =>
    rw [hr] at hloc
    dsimp only at hloc ⊢
    subst hloc; subst hty
    exact ⟨_, rfl⟩

/-- the expression `x` for a `Tgt` variable -/
theorem run_accessTgt (f : Nat) (tacc tv : Tok) (σ : St) (ty : Ty) (L : Loc) (v : Val) (ht : Tgt σ tv.val ty L v) :
    (evalExpr (f+2) (.access tacc (.var tv))).run.run σ = (.ok v, σ) := by
  obtain ⟨nm, hres⟩ := run_resolveTgt f tv σ ty L v ht
  rw [run_evalExpr_access_resolved σ tacc (.var tv) _ (f+1) hres rfl]
  show (readLocP σ L, σ) = _
  rw [ht.val]

/-- `OUTPUT x` for a STRING `Tgt` variable: two chunks, the text and the line break -/
theorem run_outputTgt (f : Nat) (to tacc tv : Tok) (σ : St) (L : Loc) (l : Str)
    (hb : σ.steps + 1 ≤ σ.stepLimit) (ht : Tgt σ tv.val .str L (.str l)) :
    (execStmt (f+4) (.output to [.access tacc (.var tv)])).run.run σ =
      (.ok .none, { σ with steps := σ.steps + 1, out := ['\n'] :: l :: σ.out }) := by
  have ht' : Tgt (tickSt σ) tv.val .str L (.str l) := ht.of_acts rfl
  have he := run_accessTgt f tacc tv (tickSt σ) .str L _ ht'
  rw [execStmt.eq_def]
  dsimp only
  rw [run_bind_ok _ _ _ _ _ (run_tick_ok to σ hb), run_bind, outputAll.eq_def]
  dsimp only
  rw [run_bind_ok _ _ _ _ _ he]
  have hot : (outputText (.str l)).run.run (tickSt σ) = (.ok (some l), tickSt σ) := rfl
  rw [run_bind_ok _ _ _ _ _ hot]
  dsimp only
  have hemit : ∀ (x : Str) (τ : St), (emit x).run.run τ = (.ok ⟨⟩, { τ with out := x :: τ.out }) := fun _ _ => rfl
  rw [run_bind_ok _ _ _ _ _ (hemit l _), outputAll.eq_def]
  rfl

/-- the content of the file `b` (empty if it is not a file) -/
def contentOf (fs : List (Str × FsNode)) (b : Str) : Str :=
  match FState.node { fs := fs } b with
  | some (.file c) => c
  | _ => []

/-- `WRITEFILE b, x` for a STRING `Tgt` variable on a handle open FOR WRITE / APPEND: the file grows by the line -/
theorem run_writeFileTgt (f : Nat) (t tn tacc tv : Tok) (b : Str) (σ : St) (L : Loc) (l c : Str) (hb : Handle)
    (hbud : σ.steps + 1 ≤ σ.stepLimit) (ht : Tgt σ tv.val .str L (.str l))
    (hh : FState.handle (fileSt σ) b = some hb) (hm : hb.mode = .write ∨ hb.mode = .append)
    (hn : FState.node (fileSt σ) b = some (.file c)) :
    (execStmt (f+4) (.writeFile t (.strLit tn b) (.access tacc (.var tv)))).run.run σ =
      (.ok .none, { σ with steps := σ.steps + 1, fs := setNode σ.fs b (.file (c ++ l ++ ['\n'])) }) := by
  have ht' : Tgt (tickSt σ) tv.val .str L (.str l) := ht.of_acts rfl
  have he : EvalsTo ((f+2)+1) (.access tacc (.var tv)) (tickSt σ) (.str l) := run_accessTgt (f+1) tacc tv (tickSt σ) .str L _ ht'
  obtain ⟨s', hs', hfs, hhs⟩ := C15_write_line (fileSt σ) b l c hb hh hm hn
  have hp : fpre (fileSt σ) (.write b []) = .ok () := fpre_of_fstep_ok _ (.write b l) _ hs'
  have hw : writeTextP (.str l) = .ok l := rfl
  rw [exec_writeFile (f+2) t _ _ σ b (.str l) hbud (evalsTo_strLit (f+1) tn b _) he, hp]
  dsimp only
  rw [hw]
  dsimp only
  rw [liftStep_ok σ t _ s' _ hs']
  unfold setFile tickSt
  rw [hfs, hhs]
  rfl

theorem run_plusOneTgt (f : Nat) (tp tacc tv t1 : Tok) (σ : St) (L : Loc) (c : Int)
    (ha : ∃ a rest, σ.acts = a :: rest ∧ a.isComp = false) (ht : Tgt σ tv.val .int L (.int c)) :
    (evalExpr (f+3) (.arith tp .add (.access tacc (.var tv)) (.intLit t1 1))).run.run σ = (.ok (.int (wrap64 (c + 1))), σ) := by
  obtain ⟨a, rest, hacts, hcomp⟩ := ha
  have hl := run_accessTgt f tacc tv σ .int L _ ht
  have hr : (evalExpr (f+2) (.intLit t1 1)).run.run σ = (.ok (.int 1), σ) := evalsTo_intLit (f+1) t1 1 σ
  have hsc : scopeAct.run.run σ = (.ok a, σ) := by
    rw [run_scopeAct]; unfold scopeActP; rw [hacts]; simp [hcomp]
  have hg : globalAct.run.run σ = (.ok ((a :: rest).getLast (List.cons_ne_nil a rest)), σ) := by
    rw [run_globalAct]; unfold globalActP; rw [hacts, List.getLast?_eq_some_getLast (List.cons_ne_nil a rest)]
  rw [evalExpr.eq_def]
  dsimp only
  rw [run_bind_ok _ _ _ _ _ hl, run_bind_ok _ _ _ _ _ hr, run_bind_ok _ _ _ _ _ hsc, run_bind_ok _ _ _ _ _ hg,
    evalArith_add_int]
  rfl

/-- the statement `x <- x + 1` for an INTEGER `Tgt` variable (64-bit wrap-around as in the model) -/
theorem run_incrTgt (f : Nat) (ta tx tp tacc tv t1 : Tok) (σ : St) (L : Loc) (c : Int)
    (hb : σ.steps + 1 ≤ σ.stepLimit) (ha : ∃ a rest, σ.acts = a :: rest ∧ a.isComp = false) (htv : tv.val = tx.val)
    (ht : Tgt σ tx.val .int L (.int c)) :
    (execStmt (f+6) (.expr (.assign ta (.var tx) (.arith tp .add (.access tacc (.var tv)) (.intLit t1 1))))).run.run σ =
      (.ok .none, writeLocSt { σ with steps := σ.steps + 1 } L (.int (wrap64 (c + 1)))) := by
  have ht' : Tgt (tickSt σ) tx.val .int L (.int c) := ht.of_acts rfl
  have ht'' : Tgt (tickSt σ) tv.val .int L (.int c) := by rw [htv]; exact ht'
  obtain ⟨a, rest, hacts, hcomp⟩ := ha
  have hrhs := run_plusOneTgt f tp tacc tv t1 (tickSt σ) L c ⟨a, rest, hacts, hcomp⟩ ht''
  obtain ⟨nm, hres⟩ := run_resolveTgt (f+2) tx (tickSt σ) .int L _ ht'
  have hne : (tickSt σ).acts ≠ [] := by show σ.acts ≠ []; rw [hacts]; exact List.cons_ne_nil _ _
  have hasg := run_execAssign_resolved (tickSt σ) ta (.var tx) _ (.int (wrap64 (c + 1))) _ (f+3) hne hrhs hres rfl ht'.nconst
  obtain ⟨root, hw, _, _, hroot⟩ := writeLoc_exact ta L (.int (wrap64 (c + 1))) (.int c) (tickSt σ) ht'.val ht'.nconst rfl
  have hroot' := hroot ht'.path
  subst hroot'
  have hcast : implicitCast .int (.int (wrap64 (c + 1))) = .int (wrap64 (c + 1)) := rfl
  have hty : ((Val.int (wrap64 (c + 1))).ty != Ty.int) = false := rfl
  dsimp only at hasg
  rw [hcast, hty] at hasg
  simp only [Bool.false_eq_true, if_false] at hasg
  rw [hw] at hasg
  rw [run_execStmt_assign σ ta (.var tx) _ (f+4) hb, hasg]
  rfl

end Pseudo.ReadLoop2
