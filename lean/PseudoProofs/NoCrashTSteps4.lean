import PseudoProofs.NoCrashTSpec
/-!
# C01 with enum / pointer types: the step lemmas of `execStmt` (one per constructor, part 1)
-/
namespace Pseudo.NT
open Pseudo
open Pseudo.NC (ReadsIn ActRead ErrOK ErrNR NoCrash RO EOK errOK_diag errNR_diag errOK_fuel errNR_fuel errOK_brk errOK_cont
  getLast?_mem ro_findAct ro_isLive ro_rtErr ro_rtErr0 ro_pedErr ro_liftMsg ro_liftMsg0 ro_readLoc ro_locIsConst ro_filePre
  ro_writeText ro_get getPath_nil findSlot_name findSlot_mem lookupVarIn_some lookupArrIn_some lookupVarIn_none top_mem
  getPath_append)
variable {f : Nat}

set_option linter.unusedVariables false

theorem step_execStmt_expr (ih : AllTri f) (top : Bool) (e : Expr) (hok : okStmt top (.expr e) = true) :
    Tri (TopCond top) (execStmt (f+1) (.expr e)) QV := by
  intro σ hW _; have hE0 := Ext.refl σ; rw [execStmt.eq_def]; dsimp only
  refine Run.bind hE0 (run_tick hW _) fun _ σ1 hW1 hE1 hE01 _ => ?_
  exact Run.of_tri hE01 (ih.evalExpr e σ1 hW1 trivial) fun _ _ _ _ h => h

theorem step_execStmt_declare (ih : AllTri f) (top : Bool) (t : Tok) (ids : List Tok) (ty : Tok)
    (hok : okStmt top (.declare t ids ty) = true) :
    Tri (TopCond top) (execStmt (f+1) (.declare t ids ty)) QV := by
  intro σ hW _; have hE0 := Ext.refl σ; rw [execStmt.eq_def]; dsimp only
  refine Run.bind hE0 (run_tick hW _) fun _ σ1 hW1 hE1 hE01 _ => ?_
  refine Run.bind hE01 (ih.declareVars t ids ty σ1 hW1 trivial) fun _ σ2 hW2 hE2 hE02 _ => ?_
  exact Run.pure hW2 hE02 ⟨rfl, trivial⟩

theorem step_execStmt_declareArr (ih : AllTri f) (top : Bool) (t : Tok) (ids : List Tok) (ty : Tok)
    (bounds : List (Expr × Expr)) (hok : okStmt top (.declareArr t ids ty bounds) = true) :
    Tri (TopCond top) (execStmt (f+1) (.declareArr t ids ty bounds)) QV := by
  intro σ hW _; have hE0 := Ext.refl σ; rw [execStmt.eq_def]; dsimp only
  refine Run.bind hE0 (run_tick hW _) fun _ σ1 hW1 hE1 hE01 _ => ?_
  refine Run.ro hW1 hE01 (ro_curAct hW1) fun a ⟨rest, ha⟩ => ?_
  split
  · exact Run.rtErr hW1 hE01 _ _
  · refine Run.bind hE01 (ih.evalBounds bounds [] σ1 hW1 trivial) fun dims σ2 hW2 hE2 hE02 _ => ?_
    refine Run.bind hE02 (ih.declareArrs t ids ty dims σ2 hW2 trivial) fun _ σ3 hW3 hE3 hE03 _ => ?_
    exact Run.pure hW3 hE03 ⟨rfl, trivial⟩

theorem step_execStmt_const (ih : AllTri f) (top : Bool) (t : Tok) (name : Tok) (e : Expr)
    (hok : okStmt top (.const t name e) = true) :
    Tri (TopCond top) (execStmt (f+1) (.const t name e)) QV := by
  intro σ hW _; have hE0 := Ext.refl σ; rw [execStmt.eq_def]; dsimp only
  refine Run.bind hE0 (run_tick hW _) fun _ σ1 hW1 hE1 hE01 _ => ?_
  refine Run.bind hE01 (ih.evalExpr e σ1 hW1 trivial) fun v σ2 hW2 hE2 hE02 hv => ?_
  refine Run.ro hW2 hE02 (ro_curAct hW2) fun a ⟨rest, ha⟩ => ?_
  split
  · exact Run.rtErr hW2 hE02 _ _
  · refine Run.bind hE02 (run_addVar hW2 { name := name.val, ty := v.ty, isConst := true, val := v } rfl ⟨hv.1, rfl, hv.2⟩)
      fun _ σ3 hW3 hE3 hE03 _ => ?_
    exact Run.pure hW3 hE03 ⟨rfl, trivial⟩

/-- a `DATA_TYPE` token never denotes the type NONE -/
theorem typeOfTok_dataType {σ : St} {t : Tok} (hk : (t.k == .DATA_TYPE) = true) : typeOfTok σ t ≠ .none := by
  unfold typeOfTok
  rw [hk]
  simp only [if_true]
  repeat' split
  all_goals (intro h; cases h)

theorem step_execStmt_typeEnum (ih : AllTri f) (top : Bool) (t : Tok) (name : Tok) (vals : List Str)
    (hok : okStmt top (.typeEnum t name vals) = true) :
    Tri (TopCond top) (execStmt (f+1) (.typeEnum t name vals)) QV := by
  simp [okStmt] at hok
  obtain ⟨htop, hne⟩ := hok
  intro σ hW hT; have hE0 := Ext.refl σ; rw [execStmt.eq_def]; dsimp only
  refine Run.bind hE0 (run_tick hW _) fun _ σ1 hW1 hE1 hE01 _ => ?_
  obtain ⟨g, hσ1⟩ := TopCond.ext hE1 hT htop
  refine Run.ro hW1 hE01 (ro_isIdentifierType hW1 name) fun b hb => ?_
  split
  · exact Run.rtErr hW1 hE01 _ _
  · rename_i hbf
    have hbf' : b = false := by simpa using hbf
    obtain ⟨hnone, _⟩ := hb hbf'
    have hk : (name.k == .DATA_TYPE) = false := by
      cases hk' : (name.k == TK.DATA_TYPE) with
      | false => rfl
      | true => exact absurd hnone (typeOfTok_dataType hk')
    have hfresh := (typeOfTok_none hk hnone).1
    refine Run.bind hE01 (run_addEnum hW1 hσ1 name.val vals hne hfresh) fun _ σ2 hW2 hE2 hE02 _ => ?_
    exact Run.pure hW2 hE02 ⟨rfl, trivial⟩

theorem step_execStmt_typePtr (ih : AllTri f) (top : Bool) (t : Tok) (name : Tok) (target : Tok)
    (hok : okStmt top (.typePtr t name target) = true) :
    Tri (TopCond top) (execStmt (f+1) (.typePtr t name target)) QV := by
  have htop : top = true := by simpa [okStmt] using hok
  intro σ hW hT; have hE0 := Ext.refl σ; rw [execStmt.eq_def]; dsimp only
  refine Run.bind hE0 (run_tick hW _) fun _ σ1 hW1 hE1 hE01 _ => ?_
  obtain ⟨g, hσ1⟩ := TopCond.ext hE1 hT htop
  refine Run.ro hW1 hE01 (ro_getType hW1 target) fun ty hty => ?_
  subst hty
  split
  · exact Run.rtErr hW1 hE01 _ _
  · refine Run.ro hW1 hE01 (ro_isIdentifierType hW1 name) fun b hb => ?_
    split
    · exact Run.rtErr hW1 hE01 _ _
    · refine Run.bind hE01 (run_addPtr hW1 hσ1 name.val _ (typeOfTok_wf hW1 target)) fun _ σ2 hW2 hE2 hE02 _ => ?_
      exact Run.pure hW2 hE02 ⟨rfl, trivial⟩

theorem step_execStmt_typeRec (ih : AllTri f) (top : Bool) (t : Tok) (name : Tok) (body : List Stmt)
    (hok : okStmt top (.typeRec t name body) = true) :
    Tri (TopCond top) (execStmt (f+1) (.typeRec t name body)) QV := by
  simp [okStmt] at hok

theorem step_execStmt_ifs (ih : AllTri f) (top : Bool) (t : Tok) (brs : List (Expr × List Stmt)) (els : Option (List Stmt))
    (hok : okStmt top (.ifs t brs els) = true) :
    Tri (TopCond top) (execStmt (f+1) (.ifs t brs els)) QV := by
  simp [okStmt] at hok
  intro σ hW hT; have hE0 := Ext.refl σ; rw [execStmt.eq_def]; dsimp only
  refine Run.bind hE0 (run_tick hW _) fun _ σ1 hW1 hE1 hE01 _ => ?_
  refine Run.bind hE01 (ih.ifChain top t brs els hok.1 hok.2 σ1 hW1 (TopCond.ext hE1 hT)) fun _ σ2 hW2 hE2 hE02 _ => ?_
  exact Run.pure hW2 hE02 ⟨rfl, trivial⟩

theorem step_execStmt_case (ih : AllTri f) (top : Bool) (t : Tok) (sel : Tok) (cls : List Clause)
    (hok : okStmt top (.case t sel cls) = true) :
    Tri (TopCond top) (execStmt (f+1) (.case t sel cls)) QV := by
  simp [okStmt] at hok
  intro σ hW hT; have hE0 := Ext.refl σ; rw [execStmt.eq_def]; dsimp only
  refine Run.bind hE0 (run_tick hW _) fun _ σ1 hW1 hE1 hE01 _ => ?_
  refine Run.bind hE01 (ih.evalExpr (.access sel (.var sel)) σ1 hW1 trivial) fun v σ2 hW2 hE2 hE02 _ => ?_
  refine Run.bind hE02 (ih.caseClauses top v cls hok σ2 hW2 (TopCond.ext hE02 hT)) fun _ σ3 hW3 hE3 hE03 _ => ?_
  exact Run.pure hW3 hE03 ⟨rfl, trivial⟩

theorem step_execStmt_while (ih : AllTri f) (top : Bool) (t : Tok) (c : Expr) (b : Block)
    (hok : okStmt top (.while t c b) = true) :
    Tri (TopCond top) (execStmt (f+1) (.while t c b)) QV := by
  simp [okStmt] at hok
  intro σ hW hT; have hE0 := Ext.refl σ; rw [execStmt.eq_def]; dsimp only
  refine Run.bind hE0 (run_tick hW _) fun _ σ1 hW1 hE1 hE01 _ => ?_
  refine Run.bind hE01 (ih.whileLoop top t c b hok σ1 hW1 (TopCond.ext hE1 hT)) fun _ σ2 hW2 hE2 hE02 _ => ?_
  exact Run.pure hW2 hE02 ⟨rfl, trivial⟩

theorem step_execStmt_repeat (ih : AllTri f) (top : Bool) (t : Tok) (b : Block) (c : Expr)
    (hok : okStmt top (.repeat t b c) = true) :
    Tri (TopCond top) (execStmt (f+1) (.repeat t b c)) QV := by
  simp [okStmt] at hok
  intro σ hW hT; have hE0 := Ext.refl σ; rw [execStmt.eq_def]; dsimp only
  refine Run.bind hE0 (run_tick hW _) fun _ σ1 hW1 hE1 hE01 _ => ?_
  refine Run.bind hE01 (ih.repeatLoop top t b c hok σ1 hW1 (TopCond.ext hE1 hT)) fun _ σ2 hW2 hE2 hE02 _ => ?_
  exact Run.pure hW2 hE02 ⟨rfl, trivial⟩

theorem step_execStmt_call (ih : AllTri f) (top : Bool) (t : Tok) (name : Str) (args : List Expr)
    (hok : okStmt top (.call t name args) = true) :
    Tri (TopCond top) (execStmt (f+1) (.call t name args)) QV := by
  intro σ hW _; have hE0 := Ext.refl σ; rw [execStmt.eq_def]; dsimp only
  refine Run.bind hE0 (run_tick hW _) fun _ σ1 hW1 hE1 hE01 _ => ?_
  refine Run.bind hE01 (ih.callProc t name args σ1 hW1 trivial) fun _ σ2 hW2 hE2 hE02 _ => ?_
  exact Run.pure hW2 hE02 ⟨rfl, trivial⟩

theorem step_execStmt_ret (ih : AllTri f) (top : Bool) (t : Tok) (e : Expr) (hok : okStmt top (.ret t e) = true) :
    Tri (TopCond top) (execStmt (f+1) (.ret t e)) QV := by
  intro σ hW _; have hE0 := Ext.refl σ; rw [execStmt.eq_def]; dsimp only
  refine Run.bind hE0 (run_tick hW _) fun _ σ1 hW1 hE1 hE01 _ => ?_
  refine Run.ro hW1 hE01 (ro_curAct hW1) fun a ⟨rest, ha⟩ => ?_
  split
  · exact Run.rtErr hW1 hE01 _ _
  · rename_i hfn
    have hfn' : a.isFn = true := by simpa using hfn
    have hret1 : ErrOK σ1 .ret := ⟨fun _ h => (nomatch h), fun _ => ⟨a, rest, ha, hfn'⟩⟩
    refine Run.bind hE01 (ih.evalExpr e σ1 hW1 trivial) fun v σ2 hW2 hE2 hE02 hv => ?_
    refine Run.bind hE02 (run_setRetVal hW2 a.id _ (scal_implicitCast _ hv.1) (valOK_implicitCast _ hv.2))
      fun _ σ3 hW3 hE3 hE03 _ => ?_
    split
    · exact Run.rtErr hW3 hE03 _ _
    · exact Run.throw hW3 hE03 (ErrOK.ext (hE2.trans hE3) hret1)

theorem step_execStmt_brk (ih : AllTri f) (top : Bool) (t : Tok) (hok : okStmt top (.brk t) = true) :
    Tri (TopCond top) (execStmt (f+1) (.brk t)) QV := by
  intro σ hW _; have hE0 := Ext.refl σ; rw [execStmt.eq_def]; dsimp only
  refine Run.bind hE0 (run_tick hW _) fun _ σ1 hW1 hE1 hE01 _ => ?_
  exact Run.throw hW1 hE01 (errOK_brk _ _)

theorem step_execStmt_cont (ih : AllTri f) (top : Bool) (t : Tok) (hok : okStmt top (.cont t) = true) :
    Tri (TopCond top) (execStmt (f+1) (.cont t)) QV := by
  intro σ hW _; have hE0 := Ext.refl σ; rw [execStmt.eq_def]; dsimp only
  refine Run.bind hE0 (run_tick hW _) fun _ σ1 hW1 hE1 hE01 _ => ?_
  exact Run.throw hW1 hE01 (errOK_cont _ _)

theorem step_execStmt_output (ih : AllTri f) (top : Bool) (t : Tok) (es : List Expr)
    (hok : okStmt top (.output t es) = true) :
    Tri (TopCond top) (execStmt (f+1) (.output t es)) QV := by
  intro σ hW _; have hE0 := Ext.refl σ; rw [execStmt.eq_def]; dsimp only
  refine Run.bind hE0 (run_tick hW _) fun _ σ1 hW1 hE1 hE01 _ => ?_
  refine Run.bind hE01 (ih.outputAll es σ1 hW1 trivial) fun _ σ2 hW2 hE2 hE02 _ => ?_
  refine Run.bind hE02 (run_emit hW2 _) fun _ σ3 hW3 hE3 hE03 _ => ?_
  exact Run.pure hW3 hE03 ⟨rfl, trivial⟩

theorem step_execStmt_procDef (ih : AllTri f) (top : Bool) (t : Tok) (name : Str) (params : List Param) (body : List Stmt)
    (hok : okStmt top (.procDef t name params body) = true) :
    Tri (TopCond top) (execStmt (f+1) (.procDef t name params body)) QV := by
  have hbody : okBlock false body = true := by simpa [okStmt] using hok
  intro σ hW _; have hE0 := Ext.refl σ; rw [execStmt.eq_def]; dsimp only
  refine Run.bind hE0 (run_tick hW _) fun _ σ1 hW1 hE1 hE01 _ => ?_
  refine Run.get_bind ?_
  split
  · exact Run.rtErr hW1 hE01 _ _
  · refine Run.bind hE01 (ih.resolveParams params [] σ1 hW1 (by intro p hp; cases hp))
      fun ps σ2 hW2 hE2 hE02 hps => ?_
    refine Run.bind hE02 (run_addProc hW2 _ ⟨hps, hbody⟩) fun _ σ3 hW3 hE3 hE03 _ => ?_
    exact Run.pure hW3 hE03 ⟨rfl, trivial⟩

theorem step_execStmt_funDef (ih : AllTri f) (top : Bool) (t : Tok) (name : Str) (params : List Param) (ret : Tok)
    (body : List Stmt) (hok : okStmt top (.funDef t name params ret body) = true) :
    Tri (TopCond top) (execStmt (f+1) (.funDef t name params ret body)) QV := by
  have hbody : okBlock false body = true := by simpa [okStmt] using hok
  intro σ hW _; have hE0 := Ext.refl σ; rw [execStmt.eq_def]; dsimp only
  refine Run.bind hE0 (run_tick hW _) fun _ σ1 hW1 hE1 hE01 _ => ?_
  refine Run.get_bind ?_
  split
  · exact Run.rtErr hW1 hE01 _ _
  · refine Run.ro hW1 hE01 (ro_getType hW1 ret) fun rty _ => ?_
    split
    · exact Run.rtErr hW1 hE01 _ _
    · refine Run.bind hE01 (ih.resolveParams params [] σ1 hW1 (by intro p hp; cases hp))
        fun ps σ2 hW2 hE2 hE02 hps => ?_
      refine Run.bind hE02 (run_addFun hW2 _ ⟨hps, body, t, rfl, hbody⟩) fun _ σ3 hW3 hE3 hE03 _ => ?_
      exact Run.pure hW3 hE03 ⟨rfl, trivial⟩

end Pseudo.NT
