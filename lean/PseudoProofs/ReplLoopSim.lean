import PseudoProofs.FuelMono
import PseudoProofs.EvalStep
/-!
# A REPL entry and the same statements inside a file run: a two-run simulation of the evaluator

Between the turns of the REPL loop the components `out` (prompts), `steps`, `depth` (reset per entry) and `stdin`
(the entry text is consumed) of the state are changed; a file run has none of that. `Priv` collects these components
(with `stdinEof`), `τ.wth p` is the state with core `τ` and private part `p`.

`Alt mr mf τ p1 p2` relates the run of `mr` from `τ.wth p1` (the REPL side: fewer steps counted, shallower call depth,
another standard input) with the run of `mf` from `τ.wth p2` (the file side):
* `budget`: the file side ends in the budget diagnostic (step or call-depth limit) — the REPL side, which counts from 0
  in every entry, may go on;
* `reads`: the REPL side consumes standard input (a line, or the end-of-input mark) — what it reads are the following entries;
* `same`: both end with the same result in states with the same core, having appended the same output chunks, neither
  having read input; counters still ordered.
In all three cases the REPL side does not un-read input (`Alt.mono`), which is what makes `reads` stable under `>>=`.
`LSimAt` = `Rel p1 p2 → Alt …`; `lsim_all`: all 25 functions of the evaluator, by one induction on fuel.
-/
namespace Pseudo
namespace ReplSim

/-- the components of the state that the REPL loop touches between entries -/
structure Priv where
  out : List Str
  steps : Nat
  depth : Nat
  stdin : Str
  eof : Bool

def _root_.Pseudo.St.wth (τ : St) (p : Priv) : St :=
  { τ with out := p.out, steps := p.steps, depth := p.depth, stdin := p.stdin, stdinEof := p.eof }

def privOf (σ : St) : Priv := ⟨σ.out, σ.steps, σ.depth, σ.stdin, σ.stdinEof⟩

theorem wth_privOf (σ : St) : σ.wth (privOf σ) = σ := rfl
theorem privOf_wth (τ : St) (p : Priv) : privOf (τ.wth p) = p := rfl

/-- how much standard input is left (the end-of-input mark counts as one) -/
def mu (p : Priv) : Nat := if p.eof then 0 else p.stdin.length + 1
def muSt (σ : St) : Nat := mu (privOf σ)

/-- REPL side `p1`, file side `p2` -/
structure Rel (p1 p2 : Priv) : Prop where
  steps : p1.steps ≤ p2.steps
  depth : p1.depth ≤ p2.depth
  io : p1.eof = false ∨ (p1.stdin = p2.stdin ∧ p1.eof = p2.eof)

theorem Rel.refl (p : Priv) : Rel p p := ⟨Nat.le_refl _, Nat.le_refl _, .inr ⟨rfl, rfl⟩⟩

inductive Alt {α : Type} (mr mf : M α) (τ : St) (p1 p2 : Priv) : Prop
  | budget (d : Diag) (σ' : St) (hf : mf.run.run (τ.wth p2) = (.error (.diag d), σ')) (hd : d.msg = .budget)
      (hm : muSt (mr.run.run (τ.wth p1)).2 ≤ mu p1)
  | reads (hlt : muSt (mr.run.run (τ.wth p1)).2 < mu p1)
  | same (r : Except Stop α) (τ' : St) (a : List Str) (k1 k2 d1 d2 : Nat) (hk : k1 ≤ k2) (hd : d1 ≤ d2)
      (hr : mr.run.run (τ.wth p1) = (r, τ'.wth { p1 with out := a ++ p1.out, steps := k1, depth := d1 }))
      (hf : mf.run.run (τ.wth p2) = (r, τ'.wth { p2 with out := a ++ p2.out, steps := k2, depth := d2 }))

structure LSimAt {α : Type} (mr mf : M α) (τ : St) (p1 p2 : Priv) : Prop where
  alt : Rel p1 p2 → Alt mr mf τ p1 p2

structure LSim {α : Type} (m : M α) : Prop where
  run : ∀ τ p1 p2, LSimAt m m τ p1 p2

section combinators
variable {α β : Type} {τ : St} {p1 p2 : Priv}

theorem Alt.mono {mr mf : M α} (h : Alt mr mf τ p1 p2) : muSt (mr.run.run (τ.wth p1)).2 ≤ mu p1 := by
  cases h with
  | budget d σ' hf hd hm => exact hm
  | reads hlt => exact Nat.le_of_lt hlt
  | same r τ' a k1 k2 d1 d2 hk hd hr hf => rw [hr]; exact Nat.le_refl _

/-- continuations that are simulated never un-read input on the REPL side -/
theorem monoK {kr kf : α → M β} (hk : ∀ a τ p1 p2, LSimAt (kr a) (kf a) τ p1 p2) (a : α) (ρ : St) :
    muSt ((kr a).run.run ρ).2 ≤ muSt ρ :=
  ((hk a ρ (privOf ρ) (privOf ρ)).alt (Rel.refl _)).mono

theorem mono_bind {mr : M α} {kr kf : α → M β} (hk : ∀ a τ p1 p2, LSimAt (kr a) (kf a) τ p1 p2) (ρ : St) :
    muSt ((mr >>= kr).run.run ρ).2 ≤ muSt (mr.run.run ρ).2 := by
  rcases h : mr.run.run ρ with ⟨r, ρ'⟩
  cases r with
  | error e => rw [run_bind_err _ _ _ _ _ h]; exact Nat.le_refl _
  | ok a => rw [run_bind_ok _ _ _ _ _ h]; exact monoK hk a ρ'

theorem mono_tryCatch {mr : M α} {hr hf : Stop → M α} (hh : ∀ e τ p1 p2, LSimAt (hr e) (hf e) τ p1 p2) (ρ : St) :
    muSt ((tryCatch mr hr).run.run ρ).2 ≤ muSt (mr.run.run ρ).2 := by
  rcases h : mr.run.run ρ with ⟨r, ρ'⟩
  cases r with
  | ok a => rw [run_tryCatch_ok _ _ _ _ _ h]; exact Nat.le_refl _
  | error e => rw [run_tryCatch_err _ _ _ _ _ h]; exact monoK hh e ρ'

theorem LSimAt.pure (a : α) (τ : St) (p1 p2 : Priv) : LSimAt (pure a : M α) (pure a) τ p1 p2 :=
  ⟨fun hR => .same (.ok a) τ [] p1.steps p2.steps p1.depth p2.depth hR.steps hR.depth rfl rfl⟩

theorem LSimAt.throw (e : Stop) (τ : St) (p1 p2 : Priv) : LSimAt (throw e : M α) (throw e) τ p1 p2 :=
  ⟨fun hR => .same (.error e) τ [] p1.steps p2.steps p1.depth p2.depth hR.steps hR.depth rfl rfl⟩

theorem Rel.next {p1 p2 : Priv} (h : Rel p1 p2) {a : List Str} {k1 k2 d1 d2 : Nat} (hk : k1 ≤ k2) (hd : d1 ≤ d2) :
    Rel { p1 with out := a ++ p1.out, steps := k1, depth := d1 } { p2 with out := a ++ p2.out, steps := k2, depth := d2 } :=
  ⟨hk, hd, h.io⟩

theorem LSimAt.bind {mr mf : M α} {kr kf : α → M β} (hm : LSimAt mr mf τ p1 p2)
    (hk : ∀ a τ p1 p2, LSimAt (kr a) (kf a) τ p1 p2) : LSimAt (mr >>= kr) (mf >>= kf) τ p1 p2 := by
  refine ⟨fun hR => ?_⟩
  have hmono := mono_bind (mr := mr) hk (τ.wth p1)
  cases hm.alt hR with
  | budget d σ' hf hd hm => exact .budget d σ' (run_bind_err _ _ _ _ _ hf) hd (Nat.le_trans hmono hm)
  | reads hlt => exact .reads (Nat.lt_of_le_of_lt hmono hlt)
  | same r τ' a k1 k2 d1 d2 hk' hd' hr hf =>
    cases r with
    | error e => exact .same (.error e) τ' a k1 k2 d1 d2 hk' hd' (run_bind_err _ _ _ _ _ hr) (run_bind_err _ _ _ _ _ hf)
    | ok x =>
      cases (hk x τ' _ _).alt (hR.next hk' hd') with
      | budget d σ' hf2 hd2 hm2 =>
        exact .budget d σ' (by rw [run_bind_ok _ _ _ _ _ hf]; exact hf2) hd2 (by rw [run_bind_ok _ _ _ _ _ hr]; exact hm2)
      | reads hlt => exact .reads (by rw [run_bind_ok _ _ _ _ _ hr]; exact hlt)
      | same r' τ'' b k1' k2' d1' d2' hk2 hd2 hr2 hf2 =>
        refine .same r' τ'' (b ++ a) k1' k2' d1' d2' hk2 hd2 ?_ ?_
        · rw [run_bind_ok _ _ _ _ _ hr, hr2, List.append_assoc]
        · rw [run_bind_ok _ _ _ _ _ hf, hf2, List.append_assoc]

/-- the handler of the file run must pass the budget diagnostic on -/
theorem LSimAt.tryCatch {mr mf : M α} {hr hf : Stop → M α} (hm : LSimAt mr mf τ p1 p2)
    (hh : ∀ e τ p1 p2, LSimAt (hr e) (hf e) τ p1 p2)
    (hc : ∀ d : Diag, d.msg = .budget → hf (.diag d) = MonadExcept.throw (.diag d)) :
    LSimAt (tryCatch mr hr) (tryCatch mf hf) τ p1 p2 := by
  refine ⟨fun hR => ?_⟩
  have hmono := mono_tryCatch (mr := mr) hh (τ.wth p1)
  cases hm.alt hR with
  | budget d σ' hf' hd hm =>
    refine .budget d σ' ?_ hd (Nat.le_trans hmono hm)
    rw [run_tryCatch_err _ _ _ _ _ hf', hc d hd]
    rfl
  | reads hlt => exact .reads (Nat.lt_of_le_of_lt hmono hlt)
  | same r τ' a k1 k2 d1 d2 hk' hd' hr' hf' =>
    cases r with
    | ok x => exact .same (.ok x) τ' a k1 k2 d1 d2 hk' hd' (run_tryCatch_ok _ _ _ _ _ hr') (run_tryCatch_ok _ _ _ _ _ hf')
    | error e =>
      cases (hh e τ' _ _).alt (hR.next hk' hd') with
      | budget d σ' hf2 hd2 hm2 =>
        exact .budget d σ' (by rw [run_tryCatch_err _ _ _ _ _ hf']; exact hf2) hd2 (by rw [run_tryCatch_err _ _ _ _ _ hr']; exact hm2)
      | reads hlt => exact .reads (by rw [run_tryCatch_err _ _ _ _ _ hr']; exact hlt)
      | same r' τ'' b k1' k2' d1' d2' hk2 hd2 hr2 hf2 =>
        refine .same r' τ'' (b ++ a) k1' k2' d1' d2' hk2 hd2 ?_ ?_
        · rw [run_tryCatch_err _ _ _ _ _ hr', hr2, List.append_assoc]
        · rw [run_tryCatch_err _ _ _ _ _ hf', hf2, List.append_assoc]

/-- after `get`: the two continuations, on the two states read -/
theorem LSimAt.get_bind {fr ff : St → M α} (h : LSimAt (fr (τ.wth p1)) (ff (τ.wth p2)) τ p1 p2) :
    LSimAt ((MonadState.get : M St) >>= fr) ((MonadState.get : M St) >>= ff) τ p1 p2 := by
  refine ⟨fun hR => ?_⟩
  have e1 : ((MonadState.get : M St) >>= fr).run.run (τ.wth p1) = (fr (τ.wth p1)).run.run (τ.wth p1) :=
    run_bind_ok _ _ _ _ _ (run_get _)
  have e2 : ((MonadState.get : M St) >>= ff).run.run (τ.wth p2) = (ff (τ.wth p2)).run.run (τ.wth p2) :=
    run_bind_ok _ _ _ _ _ (run_get _)
  cases h.alt hR with
  | budget d σ' hf hd hm => exact .budget d σ' (by rw [e2]; exact hf) hd (by rw [e1]; exact hm)
  | reads hlt => exact .reads (by rw [e1]; exact hlt)
  | same r τ' a k1 k2 d1 d2 hk hd hr hf =>
    exact .same r τ' a k1 k2 d1 d2 hk hd (by rw [e1]; exact hr) (by rw [e2]; exact hf)

/-- a modification of the core -/
theorem LSimAt.modc (f : St → St) (τ : St) (p1 p2 : Priv) (h : ∀ p, f (τ.wth p) = (f τ).wth p) :
    LSimAt (modify f : M PUnit) (modify f) τ p1 p2 :=
  ⟨fun hR => .same (.ok ⟨⟩) (f τ) [] p1.steps p2.steps p1.depth p2.depth hR.steps hR.depth
    (by rw [run_modify, h]; rfl) (by rw [run_modify, h]; rfl)⟩

theorem LSimAt.emitc (x : Str) (τ : St) (p1 p2 : Priv) : LSimAt (emit x) (emit x) τ p1 p2 :=
  ⟨fun hR => .same (.ok ⟨⟩) τ [x] p1.steps p2.steps p1.depth p2.depth hR.steps hR.depth rfl rfl⟩

theorem LSimAt.depthInc (τ : St) (p1 p2 : Priv) :
    LSimAt (_root_.modify (fun s => { s with depth := s.depth + 1 }) : M PUnit) (_root_.modify fun s => { s with depth := s.depth + 1 }) τ p1 p2 :=
  ⟨fun hR => .same (.ok ⟨⟩) τ [] p1.steps p2.steps (p1.depth + 1) (p2.depth + 1) hR.steps (Nat.succ_le_succ hR.depth) rfl rfl⟩

theorem LSimAt.depthDec (τ : St) (p1 p2 : Priv) :
    LSimAt (_root_.modify (fun s => { s with depth := s.depth - 1 }) : M PUnit) (_root_.modify fun s => { s with depth := s.depth - 1 }) τ p1 p2 :=
  ⟨fun hR => .same (.ok ⟨⟩) τ [] p1.steps p2.steps (p1.depth - 1) (p2.depth - 1) hR.steps (Nat.sub_le_sub_right hR.depth 1) rfl rfl⟩

theorem LSimAt.withAct {mk : Nat → Act} {br bf : M α} (h : ∀ τ p1 p2, LSimAt br bf τ p1 p2) :
    LSimAt (withAct mk br) (withAct mk bf) τ p1 p2 := by
  refine ⟨fun hR => ?_⟩
  have e1 : pushSt mk (τ.wth p1) = (pushSt mk τ).wth p1 := rfl
  have e2 : pushSt mk (τ.wth p2) = (pushSt mk τ).wth p2 := rfl
  cases (h (pushSt mk τ) p1 p2).alt hR with
  | budget d σ' hf hd hm =>
    refine .budget d (popSt σ') ?_ hd ?_
    · rw [run_withAct, e2, hf]
    · rw [run_withAct, e1]; exact hm
  | reads hlt => exact .reads (by rw [run_withAct, e1]; exact hlt)
  | same r τ' a k1 k2 d1 d2 hk hd hr hf =>
    refine .same r (popSt τ') a k1 k2 d1 d2 hk hd ?_ ?_
    · rw [run_withAct, e1, hr]; rfl
    · rw [run_withAct, e2, hf]; rfl

theorem LSim.of_run {m : M α} (h : ∀ τ p1 p2, LSimAt m m τ p1 p2) : LSim m := ⟨h⟩

end combinators

/-! #### automation -/

syntax "lsim_lib" : tactic
macro_rules | `(tactic| lsim_lib) => `(tactic| fail "lsim_lib: no lemma")
syntax "lsim_ih" : tactic
macro_rules | `(tactic| lsim_ih) => `(tactic| fail "lsim_ih: no hypothesis")
syntax "lsim_step" : tactic

macro_rules | `(tactic| lsim_step) => `(tactic| first
  | cases ‹_ + 1 = Nat.succ _›
  | with_reducible exact LSimAt.pure _ _ _ _
  | with_reducible exact LSimAt.throw _ _ _ _
  | (with_reducible apply LSim.run; with_reducible first | lsim_lib | lsim_ih)
  | (with_reducible apply LSimAt.get_bind; dsimp only [St.wth])
  | with_reducible apply LSimAt.bind
  | with_reducible apply LSimAt.withAct
  | exact LSimAt.modc _ _ _ _ (fun _ => rfl)
  | exact LSimAt.depthInc _ _ _
  | exact LSimAt.depthDec _ _ _
  | intro _
  | split
  | dsimp only)

macro "lsim_auto" : tactic => `(tactic| repeat' lsim_step)

macro "lsim_def " id:ident : tactic => `(tactic| (apply LSim.of_run; intro τ p1 p2; unfold $id; lsim_auto))

/-! #### primitives -/

theorem LSim.l_emit (x : Str) : LSim (emit x) := ⟨fun τ p1 p2 => LSimAt.emitc x τ p1 p2⟩
macro_rules | `(tactic| lsim_lib) => `(tactic| exact LSim.l_emit _)
theorem LSim.l_curAct : LSim (curAct) := by lsim_def curAct
macro_rules | `(tactic| lsim_lib) => `(tactic| exact LSim.l_curAct )
theorem LSim.l_globalAct : LSim (globalAct) := by lsim_def globalAct
macro_rules | `(tactic| lsim_lib) => `(tactic| exact LSim.l_globalAct )
theorem LSim.l_findAct (id : Nat) : LSim (findAct id) := by lsim_def findAct
macro_rules | `(tactic| lsim_lib) => `(tactic| exact LSim.l_findAct _)
theorem LSim.l_mkRuntime (l c : Nat) (m : Msg) : LSim (mkRuntime l c m) := by lsim_def mkRuntime
macro_rules | `(tactic| lsim_lib) => `(tactic| exact LSim.l_mkRuntime _ _ _)
theorem LSim.l_rtErr {α : Type} (t : Tok) (m : Msg) : LSim ((rtErr t m : M α)) := by lsim_def rtErr
macro_rules | `(tactic| lsim_lib) => `(tactic| exact LSim.l_rtErr _ _)
theorem LSim.l_rtErr0 {α : Type} (m : Msg) : LSim ((rtErr0 m : M α)) := by lsim_def rtErr0
macro_rules | `(tactic| lsim_lib) => `(tactic| exact LSim.l_rtErr0 _)
theorem LSim.l_pedErr {α : Type} (t : Tok) (m : Msg) : LSim ((pedErr t m : M α)) := by lsim_def pedErr
macro_rules | `(tactic| lsim_lib) => `(tactic| exact LSim.l_pedErr _ _)
theorem LSim.l_lookupVar (n : Str) : LSim (lookupVar n) := by lsim_def lookupVar
macro_rules | `(tactic| lsim_lib) => `(tactic| exact LSim.l_lookupVar _)
theorem LSim.l_lookupArr (n : Str) : LSim (lookupArr n) := by lsim_def lookupArr
macro_rules | `(tactic| lsim_lib) => `(tactic| exact LSim.l_lookupArr _)
theorem LSim.l_scopeAct : LSim (scopeAct) := by lsim_def scopeAct
macro_rules | `(tactic| lsim_lib) => `(tactic| exact LSim.l_scopeAct )
theorem LSim.l_typeScopeAct : LSim (typeScopeAct) := by lsim_def typeScopeAct
macro_rules | `(tactic| lsim_lib) => `(tactic| exact LSim.l_typeScopeAct )
theorem LSim.l_lookupList {β : Type} (sel : Act → List (Str × β)) (n : Str) (g : Bool) : LSim (lookupList sel n g) := by lsim_def lookupList
macro_rules | `(tactic| lsim_lib) => `(tactic| exact LSim.l_lookupList _ _ _)
theorem LSim.l_enumDefOf (n : Str) (g : Bool) : LSim (enumDefOf n g) := by lsim_def enumDefOf
macro_rules | `(tactic| lsim_lib) => `(tactic| exact LSim.l_enumDefOf _ _)
theorem LSim.l_ptrDefOf (n : Str) (g : Bool) : LSim (ptrDefOf n g) := by lsim_def ptrDefOf
macro_rules | `(tactic| lsim_lib) => `(tactic| exact LSim.l_ptrDefOf _ _)
theorem LSim.l_compDefOf (n : Str) (g : Bool) : LSim (compDefOf n g) := by lsim_def compDefOf
macro_rules | `(tactic| lsim_lib) => `(tactic| exact LSim.l_compDefOf _ _)
theorem LSim.l_getType (t : Tok) (g : Bool) : LSim (getType t g) := by lsim_def getType
macro_rules | `(tactic| lsim_lib) => `(tactic| exact LSim.l_getType _ _)
theorem LSim.l_getEnumElement (v : Str) (g : Bool) : LSim (getEnumElement v g) := by lsim_def getEnumElement
macro_rules | `(tactic| lsim_lib) => `(tactic| exact LSim.l_getEnumElement _ _)
theorem LSim.l_isIdentifierType (t : Tok) (g : Bool) : LSim (isIdentifierType t g) := by lsim_def isIdentifierType
macro_rules | `(tactic| lsim_lib) => `(tactic| exact LSim.l_isIdentifierType _ _)
theorem LSim.l_readLoc (l : Loc) : LSim (readLoc l) := by lsim_def readLoc
macro_rules | `(tactic| lsim_lib) => `(tactic| exact LSim.l_readLoc _)
theorem LSim.l_locIsConst (l : Loc) : LSim (locIsConst l) := by lsim_def locIsConst
macro_rules | `(tactic| lsim_lib) => `(tactic| exact LSim.l_locIsConst _)
theorem LSim.l_isLive (id : Nat) : LSim (isLive id) := by lsim_def isLive
macro_rules | `(tactic| lsim_lib) => `(tactic| exact LSim.l_isLive _)
theorem LSim.l_liftMsg {α : Type} (t : Tok) (x : Except Msg α) : LSim (liftMsg t x) := by lsim_def liftMsg
macro_rules | `(tactic| lsim_lib) => `(tactic| exact LSim.l_liftMsg _ _)
theorem LSim.l_liftMsg0 {α : Type} (x : Except Msg α) : LSim (liftMsg0 x) := by lsim_def liftMsg0
macro_rules | `(tactic| lsim_lib) => `(tactic| exact LSim.l_liftMsg0 _)
theorem LSim.l_outputText (v : Val) : LSim (outputText v) := by lsim_def outputText
macro_rules | `(tactic| lsim_lib) => `(tactic| exact LSim.l_outputText _)
theorem LSim.l_replEcho (v : Val) : LSim (replEcho v) := by lsim_def replEcho
macro_rules | `(tactic| lsim_lib) => `(tactic| exact LSim.l_replEcho _)
theorem LSim.l_filePre (t : Tok) (op : FOp) : LSim (filePre t op) := by lsim_def filePre
macro_rules | `(tactic| lsim_lib) => `(tactic| exact LSim.l_filePre _ _)
theorem LSim.l_codecDefs : LSim (codecDefs) := by lsim_def codecDefs
macro_rules | `(tactic| lsim_lib) => `(tactic| exact LSim.l_codecDefs )
theorem LSim.l_writeText (t : Tok) (v : Val) : LSim (writeText t v) := by lsim_def writeText
macro_rules | `(tactic| lsim_lib) => `(tactic| exact LSim.l_writeText _ _)
theorem LSim.l_modifyAct (id : Nat) (f : Act → Act) : LSim (modifyAct id f) := by lsim_def modifyAct
macro_rules | `(tactic| lsim_lib) => `(tactic| exact LSim.l_modifyAct _ _)
theorem LSim.l_modifyCur (f : Act → Act) : LSim (modifyCur f) := by lsim_def modifyCur
macro_rules | `(tactic| lsim_lib) => `(tactic| exact LSim.l_modifyCur _)
theorem LSim.l_addVar (s : Slot) : LSim (addVar s) := by lsim_def addVar
macro_rules | `(tactic| lsim_lib) => `(tactic| exact LSim.l_addVar _)
theorem LSim.l_addArr (s : Slot) : LSim (addArr s) := by lsim_def addArr
macro_rules | `(tactic| lsim_lib) => `(tactic| exact LSim.l_addArr _)
theorem LSim.l_writeLoc (t : Tok) (l : Loc) (v : Val) : LSim (writeLoc t l v) := by lsim_def writeLoc
macro_rules | `(tactic| lsim_lib) => `(tactic| exact LSim.l_writeLoc _ _ _)

theorem LSimAt.setc (s1 s2 : St) (τ τ' : St) (p1 p2 : Priv) (h1 : s1 = τ'.wth p1) (h2 : s2 = τ'.wth p2) :
    LSimAt (set s1 : M PUnit) (set s2) τ p1 p2 :=
  ⟨fun hR => .same (.ok ⟨⟩) τ' [] p1.steps p2.steps p1.depth p2.depth hR.steps hR.depth
    (by rw [run_set, h1]; rfl) (by rw [run_set, h2]; rfl)⟩

/-- the file side has used up its budget, the REPL side (which leaves the input alone here) has not -/
theorem LSimAt.budget_right {α : Type} (t : Tok) (mr : M α) (τ : St) (p1 p2 : Priv)
    (hm : muSt (mr.run.run (τ.wth p1)).2 ≤ mu p1) : LSimAt mr (rtErr t .budget) τ p1 p2 :=
  ⟨fun _ => .budget _ _ (run_rtErr t .budget _) (rtDiag_msg _ _ _ _) hm⟩

theorem LSim.l_tick (t : Tok) : LSim (tick t) := by
  apply LSim.of_run; intro τ p1 p2; unfold tick
  apply LSimAt.get_bind
  dsimp only [St.wth]
  by_cases h1 : p1.steps + 1 > τ.stepLimit <;> by_cases h2 : p2.steps + 1 > τ.stepLimit
  · simp only [h1, h2, if_true]
    exact (LSim.l_rtErr t .budget).run τ p1 p2
  · refine ⟨fun hR => ?_⟩
    have := hR.steps
    omega
  · simp only [h1, h2, if_true, if_false]
    exact LSimAt.budget_right t _ τ p1 p2 (Nat.le_refl _)
  · simp only [h1, h2, if_false]
    exact ⟨fun hR => .same (.ok ⟨⟩) τ [] (p1.steps + 1) (p2.steps + 1) p1.depth p2.depth
      (Nat.succ_le_succ hR.steps) hR.depth rfl rfl⟩
macro_rules | `(tactic| lsim_lib) => `(tactic| exact LSim.l_tick _)

/-- the call-depth check of `callFun` / `callProc` -/
theorem LSimAt.depthCheck (t : Tok) (τ : St) (p1 p2 : Priv) :
    LSimAt (if p1.depth + 1 > τ.depthLimit then rtErr t .budget else (Pure.pure PUnit.unit : M PUnit))
      (if p2.depth + 1 > τ.depthLimit then rtErr t .budget else Pure.pure PUnit.unit) τ p1 p2 := by
  by_cases h1 : p1.depth + 1 > τ.depthLimit <;> by_cases h2 : p2.depth + 1 > τ.depthLimit
  · simp only [h1, h2, if_true]
    exact (LSim.l_rtErr t .budget).run τ p1 p2
  · refine ⟨fun hR => ?_⟩
    have := hR.depth
    omega
  · simp only [h1, h2, if_true, if_false]
    exact LSimAt.budget_right t _ τ p1 p2 (Nat.le_refl _)
  · simp only [h1, h2, if_false]
    exact LSimAt.pure _ τ p1 p2

theorem getLine_mu (σ : St) (h : σ.stdinEof = false) : muSt (getLine.run.run σ).2 < muSt σ := by
  unfold getLine
  rw [run_bind_ok _ _ _ _ _ (run_get σ)]
  simp only [h, Bool.false_eq_true, if_false]
  have hσ : muSt σ = σ.stdin.length + 1 := by unfold muSt mu privOf; simp [h]
  split
  · rename_i heq
    rw [run_bind_ok _ _ _ _ _ (run_set _ _)]
    rw [hσ]
    show muSt { σ with stdin := [], stdinEof := true } < _
    unfold muSt mu privOf
    simp
  · rename_i c rest' heq
    rw [run_bind_ok _ _ _ _ _ (run_set _ _)]
    rw [hσ]
    show muSt { σ with stdin := rest', stdinEof := false } < _
    have hl : (List.drop (List.takeWhile (fun x => x != '\n') σ.stdin).length σ.stdin).length = rest'.length + 1 := by
      rw [heq]; rfl
    rw [List.length_drop] at hl
    unfold muSt mu privOf
    simp only [Bool.false_eq_true, if_false]
    omega

theorem LSim.l_getLine : LSim getLine := by
  apply LSim.of_run; intro τ p1 p2
  refine ⟨fun hR => ?_⟩
  rcases hR.io with h | ⟨hi, he⟩
  · exact .reads (getLine_mu (τ.wth p1) h)
  · cases h1 : p1.eof with
    | false => exact .reads (getLine_mu (τ.wth p1) h1)
    | true =>
      have h2 : p2.eof = true := by rw [← he]; exact h1
      have e1 : getLine.run.run (τ.wth p1) = (.ok ([], false), τ.wth p1) := by
        unfold getLine
        rw [run_bind_ok _ _ _ _ _ (run_get _)]
        have : (τ.wth p1).stdinEof = true := h1
        simp only [this, if_true]
        rfl
      have e2 : getLine.run.run (τ.wth p2) = (.ok ([], false), τ.wth p2) := by
        unfold getLine
        rw [run_bind_ok _ _ _ _ _ (run_get _)]
        have : (τ.wth p2).stdinEof = true := h2
        simp only [this, if_true]
        rfl
      exact .same (.ok ([], false)) τ [] p1.steps p2.steps p1.depth p2.depth hR.steps hR.depth e1 e2
macro_rules | `(tactic| lsim_lib) => `(tactic| exact LSim.l_getLine)

theorem LSim.l_doFile (t : Tok) (op : FOp) : LSim (doFile t op) := by
  apply LSim.of_run; intro τ p1 p2; unfold doFile
  apply LSimAt.get_bind
  dsimp only [St.wth]
  split
  · rename_i f r _
    exact LSimAt.bind (LSimAt.setc _ _ τ { τ with fs := f.fs, handles := f.handles } p1 p2 rfl rfl) fun _ τ p1 p2 => LSimAt.pure _ τ p1 p2
  · exact (LSim.l_rtErr t _).run τ p1 p2
macro_rules | `(tactic| lsim_lib) => `(tactic| exact LSim.l_doFile _ _)

theorem LSim.l_doFile0 (op : FOp) : LSim (doFile0 op) := by
  apply LSim.of_run; intro τ p1 p2; unfold doFile0
  apply LSimAt.get_bind
  dsimp only [St.wth]
  split
  · rename_i f r _
    exact LSimAt.bind (LSimAt.setc _ _ τ { τ with fs := f.fs, handles := f.handles } p1 p2 rfl rfl) fun _ τ p1 p2 => LSimAt.pure _ τ p1 p2
  · exact (LSim.l_rtErr0 _).run τ p1 p2
macro_rules | `(tactic| lsim_lib) => `(tactic| exact LSim.l_doFile0 _)

theorem LSim.l_runBuiltin (id : Str) (args : List Val) : LSim (runBuiltin id args) := by lsim_def runBuiltin
macro_rules | `(tactic| lsim_lib) => `(tactic| exact LSim.l_runBuiltin _ _)

/-- `catchNotDefined` passes the budget diagnostic on -/
theorem LSimAt.catchNotDefined {α : Type} {mr mf : M α} {hr hf : Stop → M α} {τ : St} {p1 p2 : Priv}
    (hm : LSimAt mr mf τ p1 p2) (hh : ∀ e τ p1 p2, LSimAt (hr e) (hf e) τ p1 p2) :
    LSimAt (Pseudo.catchNotDefined mr hr) (Pseudo.catchNotDefined mf hf) τ p1 p2 := by
  unfold Pseudo.catchNotDefined
  apply LSimAt.tryCatch hm
  · intro e τ p1 p2
    lsim_auto
    exact hh _ _ _ _
  · intro d hd
    simp [hd]

end ReplSim
end Pseudo
