import PseudoProofs.NoCrashLDefs
/-!
# C01 with TYPE statements anywhere: scopes, monotonicity of the value predicate, the stack under updates, the Hoare layer
(the analogue of `NoCrashR.lean`)
-/
namespace Pseudo.NL
open Pseudo
open Pseudo.NC (ReadsIn ActRead ErrOK ErrNR NoCrash RO EOK readsIn_iff mem_updActs updActs_ne_nil errOK_diag errNR_diag errOK_fuel
  errNR_fuel errOK_brk errOK_cont getLast?_mem)
open Pseudo.NR (litDims declStmt declBody NArr Kind kind SameKind sigOf SigDefined Live genums gptrs gcomps kind_val_narr
  kind_of_narr kind_arr_inv)

/-! ### headers, the global id, scopes -/

theorem hdr_id {a b : Act} (h : hdr a = hdr b) : a.id = b.id := congrArg (·.1) h
theorem hdr_isFn {a b : Act} (h : hdr a = hdr b) : a.isFn = b.isFn := congrArg (·.2.1) h
theorem hdr_isComp {a b : Act} (h : hdr a = hdr b) : a.isComp = b.isComp := congrArg (·.2.2.1) h
theorem hdr_typeGlobal {a b : Act} (h : hdr a = hdr b) : a.typeGlobal = b.typeGlobal := congrArg (·.2.2.2.1) h
theorem hdr_retTy {a b : Act} (h : hdr a = hdr b) : a.retTy = b.retTy := congrArg (·.2.2.2.2) h

def gidL (acts : List Act) : Nat := match acts.getLast? with | some g => g.id | none => 0

theorem gid_eq (σ : St) : gid σ = gidL σ.acts := rfl

theorem gidL_of_hdr {acts acts' : List Act} (h : acts'.map hdr = acts.map hdr) : gidL acts' = gidL acts := by
  unfold gidL
  have := congrArg List.getLast? h
  rw [List.getLast?_map, List.getLast?_map] at this
  cases h1 : acts'.getLast? with
  | none => rw [h1] at this; cases h2 : acts.getLast? with
    | none => rfl
    | some b => rw [h2] at this; cases this
  | some a =>
    rw [h1] at this
    cases h2 : acts.getLast? with
    | none => rw [h2] at this; cases this
    | some b => rw [h2] at this; exact hdr_id (Option.some.inj this)

theorem scopeOfL_of_hdr (g : Nat) : ∀ {acts acts' : List Act}, acts'.map hdr = acts.map hdr → scopeOfL g acts' = scopeOfL g acts
  | [], [], _ => rfl
  | [], _ :: _, h => by cases h
  | _ :: _, [], h => by cases h
  | a :: r, a' :: r', h => by
    simp only [List.map_cons, List.cons.injEq] at h
    unfold scopeOfL
    rw [hdr_isComp h.1, hdr_typeGlobal h.1, hdr_id h.1, scopeOfL_of_hdr g h.2]

theorem scopeAtL_of_hdr (g : Nat) (id : Nat) :
    ∀ {acts acts' : List Act}, acts'.map hdr = acts.map hdr → scopeAtL g acts' id = scopeAtL g acts id
  | [], [], _ => rfl
  | [], _ :: _, h => by cases h
  | _ :: _, [], h => by cases h
  | a :: r, a' :: r', h => by
    have h' := h
    simp only [List.map_cons, List.cons.injEq] at h
    unfold scopeAtL
    rw [hdr_id h.1, scopeOfL_of_hdr g h', scopeAtL_of_hdr g id h.2]

/-- the scope of a suffix is the global one or a live activation of that suffix that is not a record context -/
theorem scopeOfL_cases (g : Nat) : ∀ acts : List Act,
    scopeOfL g acts = g ∨ ∃ a ∈ acts, a.id = scopeOfL g acts ∧ a.isComp = false
  | [] => Or.inl rfl
  | a :: r => by
    unfold scopeOfL
    by_cases hc : a.isComp = true
    · rw [if_pos hc]
      split
      · exact Or.inl rfl
      · rcases scopeOfL_cases g r with h | ⟨b, hb, h1, h2⟩
        · exact Or.inl h
        · exact Or.inr ⟨b, List.mem_cons_of_mem _ hb, h1, h2⟩
    · rw [if_neg hc]
      exact Or.inr ⟨a, List.mem_cons_self, rfl, by simpa using hc⟩

theorem scopeAtL_cases (g : Nat) (id : Nat) : ∀ acts : List Act,
    scopeAtL g acts id = g ∨ ∃ a ∈ acts, a.id = scopeAtL g acts id ∧ a.isComp = false
  | [] => Or.inl rfl
  | a :: r => by
    unfold scopeAtL
    split
    · exact scopeOfL_cases g (a :: r)
    · rcases scopeAtL_cases g id r with h | ⟨b, hb, h1, h2⟩
      · exact Or.inl h
      · exact Or.inr ⟨b, List.mem_cons_of_mem _ hb, h1, h2⟩

theorem tscope_sv (σ : St) : SV σ (tscope σ) := by
  rcases scopeOfL_cases (gid σ) σ.acts with h | h
  · exact Or.inl h
  · exact Or.inr h

theorem scopeAt_sv (σ : St) (id : Nat) : SV σ (scopeAt σ id) := by
  rcases scopeAtL_cases (gid σ) id σ.acts with h | h
  · exact Or.inl h
  · exact Or.inr h

theorem NTop.tscope {σ : St} {a : Act} {rest : List Act} (hσ : σ.acts = a :: rest) (hc : a.isComp = false) : tscope σ = a.id := by
  unfold NL.tscope; rw [hσ]; unfold scopeOfL; simp [hc]

theorem scopeAt_top {σ : St} {a : Act} {rest : List Act} (hσ : σ.acts = a :: rest) : scopeAt σ a.id = tscope σ := by
  unfold NL.scopeAt NL.tscope; rw [hσ]; unfold scopeAtL; simp

/-! ### lookups -/

theorem find_key {γ : Type} {l : List (Str × γ)} {n : Str} {x : Str × γ} (h : l.find? (·.1 == n) = some x) : x.1 = n := by
  have := List.find?_some h
  simpa using this

theorem lk_key {γ : Type} {loc glob : List (Str × γ)} {n : Str} {x : Str × γ} (h : lk loc glob n = some x) : x.1 = n := by
  unfold lk at h
  split at h
  · rename_i y hy; cases h; exact find_key hy
  · exact find_key h

theorem lk_mem {γ : Type} {loc glob : List (Str × γ)} {n : Str} {x : Str × γ} (h : lk loc glob n = some x) :
    x ∈ loc ∨ x ∈ glob := by
  unfold lk at h
  split at h
  · rename_i y hy; cases h; exact Or.inl (List.mem_of_find?_eq_some hy)
  · exact Or.inr (List.mem_of_find?_eq_some h)

/-! ### `Ext` -/

/-- how the definitions of `σ'` relate to those of `σ` -/
structure DefsExt (σ σ' : St) : Prop where
  enums : ∀ k n x, enumLk σ k n = some x → enumLk σ' k n = some x
  ptrs : ∀ k n x, ptrLk σ k n = some x → ptrLk σ' k n = some x
  comps : ∀ k n x, compLk σ k n = some x → compLk σ' k n = some x
  toks : ∀ k t, typeOfTok σ k t ≠ .none → typeOfTok σ' k t = typeOfTok σ k t

theorem DefsExt.refl (σ : St) : DefsExt σ σ := ⟨fun _ _ _ h => h, fun _ _ _ h => h, fun _ _ _ h => h, fun _ _ _ => rfl⟩
theorem DefsExt.trans {a b c : St} (h1 : DefsExt a b) (h2 : DefsExt b c) : DefsExt a c :=
  ⟨fun k n x h => h2.enums k n x (h1.enums k n x h), fun k n x h => h2.ptrs k n x (h1.ptrs k n x h),
   fun k n x h => h2.comps k n x (h1.comps k n x h),
   fun k t ht => by rw [h2.toks k t (by rw [h1.toks k t ht]; exact ht), h1.toks k t ht]⟩
theorem Ext.defs {σ σ' : St} (h : Ext σ σ') : DefsExt σ σ' := ⟨h.enums, h.ptrs, h.comps, h.toks⟩

theorem Ext.gid {σ σ' : St} (h : Ext σ σ') : gid σ' = gid σ := gidL_of_hdr h.ids
theorem Ext.tscope {σ σ' : St} (h : Ext σ σ') : tscope σ' = tscope σ := by
  unfold NL.tscope; rw [h.gid]; exact scopeOfL_of_hdr _ h.ids
theorem Ext.scopeAt {σ σ' : St} (h : Ext σ σ') (id : Nat) : scopeAt σ' id = scopeAt σ id := by
  unfold NL.scopeAt; rw [h.gid]; exact scopeAtL_of_hdr _ id h.ids

theorem Ext.length {σ σ' : St} (h : Ext σ σ') : σ'.acts.length = σ.acts.length := by
  have := congrArg List.length h.ids
  simpa using this

theorem Live.of_hdr {σ σ' : St} (h : σ'.acts.map hdr = σ.acts.map hdr) {id : Nat} (hl : Live σ' id) : Live σ id := by
  obtain ⟨a, ha, rfl⟩ := hl
  have : hdr a ∈ σ'.acts.map hdr := List.mem_map.2 ⟨a, ha, rfl⟩
  rw [h] at this
  obtain ⟨b, hb, hbe⟩ := List.mem_map.1 this
  exact ⟨b, hb, hdr_id hbe⟩

theorem NTop.ext {σ σ' : St} (hE : Ext σ σ') (h : NTop σ) : NTop σ' := by
  obtain ⟨a, rest, hσ, hc⟩ := h
  have hids := hE.ids
  rw [hσ] at hids
  cases hσ' : σ'.acts with
  | nil => rw [hσ'] at hids; simp at hids
  | cons a' rest' =>
    rw [hσ'] at hids
    simp only [List.map_cons, List.cons.injEq] at hids
    exact ⟨a', rest', hσ', (hdr_isComp hids.1).trans hc⟩

theorem TopCond.ext {σ σ' : St} {top : Bool} (hE : Ext σ σ') (h : TopCond top σ) : TopCond top σ' := by
  intro ht
  obtain ⟨g, hg⟩ := h ht
  have hl := hE.length
  rw [hg] at hl
  cases hσ' : σ'.acts with
  | nil => rw [hσ'] at hl; simp at hl
  | cons a r =>
    rw [hσ'] at hl
    cases r with
    | nil => exact ⟨a, rfl⟩
    | cons b r' => simp at hl

theorem TopCond.false (σ : St) : TopCond false σ := fun h => by cases h

theorem TyDef.ext {σ σ' : St} (hd : DefsExt σ σ') {k : Nat} {ty : Ty} (h : TyDef σ k ty) : TyDef σ' k ty := by
  cases ty <;> try exact h
  · obtain ⟨x, h1⟩ := h; exact ⟨x, hd.enums _ _ _ h1⟩
  · obtain ⟨x, h1⟩ := h; exact ⟨x, hd.ptrs _ _ _ h1⟩
  · obtain ⟨x, h1⟩ := h; exact ⟨x, hd.comps _ _ _ h1⟩

theorem TyG.ext {σ σ' : St} (hE : Ext σ σ') {ty : Ty} (h : TyG σ ty) : TyG σ' ty := by
  unfold TyG at *; rw [hE.gid]; exact h.ext hE.defs

theorem KG.ext {σ σ' : St} (hE : Ext σ σ') {kd : Kind} (h : KG σ kd) : KG σ' kd := by
  cases kd <;> exact TyG.ext hE h

/-- the member signature of a record body whose member types are all defined does not change -/
theorem scalSig_ext {σ σ' : St} (hd : DefsExt σ σ') (k : Nat) :
    ∀ body : List Stmt, SigDefined (scalSig σ k body) → scalSig σ' k body = scalSig σ k body
  | [], _ => rfl
  | s :: r, h => by
    cases s with
    | declare t ids tyTok =>
      simp only [scalSig] at h ⊢
      have hr : SigDefined (scalSig σ k r) := fun x hx => h x (List.mem_append_right _ hx)
      rw [scalSig_ext hd k r hr]
      cases ids with
      | nil => rfl
      | cons id rest =>
        have hne : typeOfTok σ k tyTok ≠ .none := by
          intro e
          have := (h (id.val, Kind.val (typeOfTok σ k tyTok)) (List.mem_append_left _ (by simp))).1
          rw [e] at this; exact this rfl
        rw [hd.toks k tyTok hne]
    | _ => simp only [scalSig] at h ⊢; exact scalSig_ext hd k r h

theorem arrSig_ext {σ σ' : St} (hd : DefsExt σ σ') (k : Nat) :
    ∀ body : List Stmt, SigDefined (arrSig σ k body) → arrSig σ' k body = arrSig σ k body
  | [], _ => rfl
  | s :: r, h => by
    cases s with
    | declareArr t ids tyTok bounds =>
      simp only [arrSig] at h ⊢
      have hr : SigDefined (arrSig σ k r) := fun x hx => h x (List.mem_append_right _ hx)
      rw [arrSig_ext hd k r hr]
      cases hb : litDims bounds with
      | none => rfl
      | some d =>
        rw [hb] at h
        cases ids with
        | nil => rfl
        | cons id rest =>
          have hne : typeOfTok σ k tyTok ≠ .none := by
            intro e
            have := (h (id.val, Kind.arr (typeOfTok σ k tyTok) d) (List.mem_append_left _ (by simp))).2 d
            rw [e] at this; exact this rfl
          rw [hd.toks k tyTok hne]
    | _ => simp only [arrSig] at h ⊢; exact arrSig_ext hd k r h

theorem memSig_ext {σ σ' : St} (hd : DefsExt σ σ') (k : Nat) (body : List Stmt) (h : SigDefined (memSig σ k body)) :
    memSig σ' k body = memSig σ k body := by
  unfold memSig at *
  rw [scalSig_ext hd k body (fun x hx => h x (List.mem_append_left _ hx)),
      arrSig_ext hd k body (fun x hx => h x (List.mem_append_right _ hx))]

theorem TgtOK.ext {σ σ' : St} (hE : Ext σ σ') {k : Nat} {l : Loc} {tg : Ty} (h : TgtOK σ k l tg) : TgtOK σ' k l tg := by
  refine ⟨Nat.lt_of_lt_of_le h.1 hE.nextId, fun hl => ?_⟩
  obtain ⟨⟨w, hr, hk⟩, hc⟩ := h.2 (Live.of_hdr hE.ids hl)
  obtain ⟨w', hr', kk⟩ := hE.reads _ _ hr
  refine ⟨⟨w', hr', Eq.trans kk hk⟩, ?_⟩
  rcases hc with hc | hc
  · exact Or.inl (TyG.ext hE hc)
  · exact Or.inr (by rw [hE.scopeAt]; exact hc)

theorem Local.ext {σ σ' : St} (hE : Ext σ σ') {k : Nat} {v : Val} (h : Local σ k v) : Local σ' k v := by
  cases v <;> try exact h
  · obtain ⟨vals, h1, h2⟩ := h; exact ⟨vals, hE.enums _ _ _ h1, h2⟩
  · obtain ⟨tg, h1, h2⟩ := h; exact ⟨tg, hE.ptrs _ _ _ h1, fun l hl => (h2 l hl).ext hE⟩
  · obtain ⟨body, k', h1, h2, h3⟩ := h
    have := memSig_ext hE.defs k' body h3
    exact ⟨body, k', hE.comps _ _ _ h1, by rw [this]; exact h2, by rw [this]; exact h3⟩

theorem Good.ext {σ σ' : St} (hE : Ext σ σ') {k : Nat} {v : Val} (h : Good σ k v) : Good σ' k v :=
  fun p w hp => (h p w hp).ext hE

theorem CellOK.ext {σ σ' : St} (hE : Ext σ σ') {k : Nat} {ty : Ty} {c : Val} (h : CellOK σ k ty c) : CellOK σ' k ty c :=
  ⟨h.1, h.2.ext hE⟩
theorem ArrOK.ext {σ σ' : St} (hE : Ext σ σ') {k : Nat} {ty : Ty} {v : Val} (h : ArrOK σ k ty v) : ArrOK σ' k ty v :=
  ⟨h.1, h.2.ext hE⟩

/-! ### monotone changes of the state -/

/-- what `StackOK` needs to survive a change of the state; `P` are the scopes for which the change is monotone -/
structure Mono (P : Nat → Prop) (σ σ' : St) : Prop where
  good : ∀ k, P k → ∀ v, Good σ k v → Good σ' k v
  tydef : ∀ k, P k → ∀ ty, TyDef σ k ty → TyDef σ' k ty
  gid : gid σ' = gid σ
  pg : P (NL.gid σ)
  /-- when there is a non-global activation the global definitions do not change -/
  fresh : (∃ a b r, σ.acts = a :: b :: r) → ∀ n, GFresh σ n → GFresh σ' n

theorem Mono.tyG {P : Nat → Prop} {σ σ' : St} (hm : Mono P σ σ') {ty : Ty} (h : TyG σ ty) : TyG σ' ty := by
  unfold TyG at *; rw [hm.gid]; exact hm.tydef _ hm.pg _ h

theorem Mono.of_ext {σ σ' : St} (hE : Ext σ σ') : Mono (fun _ => True) σ σ' :=
  ⟨fun _ _ _ h => h.ext hE, fun _ _ _ h => h.ext hE.defs, hE.gid, trivial, fun hh n hn => by
    obtain ⟨h1, h2, h3⟩ := hE.gsame hh
    unfold GFresh at *; rw [h1, h2, h3]; exact hn⟩

theorem SlotOK.mono {P : Nat → Prop} {σ σ' : St} (hm : Mono P σ σ') {k : Nat} (hk : P k) {d : List Act} {s : Slot}
    (h : SlotOK σ k d s) : SlotOK σ' k d s := by
  unfold SlotOK at *
  split
  · rename_i hr; rw [hr] at h; exact ⟨h.1, hm.good k hk _ h.2⟩
  · rename_i l hr; rw [hr] at h; exact ⟨h.1, h.2.1, hm.tyG h.2.2⟩

theorem ArrSlotOK.mono {P : Nat → Prop} {σ σ' : St} (hm : Mono P σ σ') {k : Nat} (hk : P k) {s : Slot}
    (h : ArrSlotOK σ k s) : ArrSlotOK σ' k s := ⟨⟨h.1.1, hm.good k hk _ h.1.2⟩, hm.tydef k hk _ h.2⟩

theorem ActOK.mono {P : Nat → Prop} {σ σ' : St} (hm : Mono P σ σ') {k : Nat} (hk : P k) {d : List Act} {a : Act}
    (hPa : a.isComp = false → P a.id) (h2 : ∃ x y r, σ.acts = x :: y :: r ∨ d = []) (h : ActOK σ k d a) : ActOK σ' k d a := by
  refine ⟨fun s hs => (h.vars s hs).mono hm hk, fun s hs => (h.arrs s hs).mono hm hk, ⟨h.defs.enums, ?_, h.defs.comps⟩, ?_,
    h.compDefs, h.compRef, h.glob, fun v hv => ⟨(h.retVal v hv).1, hm.good k hk _ (h.retVal v hv).2⟩⟩
  · intro p hp
    cases hc : a.isComp with
    | true => rw [(h.compDefs hc).2.1] at hp; cases hp
    | false => exact hm.tydef _ (hPa hc) _ (h.defs.ptrs p hp)
  · intro hne n hn
    obtain ⟨x, y, r, h2 | h2⟩ := h2
    · exact hm.fresh ⟨x, y, r, h2⟩ n (h.disj hne n hn)
    · exact absurd h2 hne

theorem StackOK.mono {P : Nat → Prop} {σ σ' : St} (hm : Mono P σ σ') {full : List Act}
    (hP : ∀ a ∈ full, a.isComp = false → P a.id) (h2 : ∀ x y r, full = x :: y :: r → ∃ a b r', σ.acts = a :: b :: r') :
    ∀ {pre acts : List Act}, full = pre ++ acts → StackOK σ acts → StackOK σ' acts
  | _, [], _, _ => trivial
  | pre, a :: rest, hσ, h => by
    have hmem : ∀ b ∈ a :: rest, b ∈ full := fun b hb => by rw [hσ]; exact List.mem_append_right _ hb
    refine ⟨?_, h.2.1, StackOK.mono hm hP h2 (pre := pre ++ [a]) (by rw [hσ]; simp) h.2.2⟩
    rw [hm.gid]
    refine h.1.mono hm ?_ (fun hc => hP a (hmem a List.mem_cons_self) hc) ?_
    · rcases scopeOfL_cases (gid σ) (a :: rest) with h1 | ⟨b, hb, h1, h2⟩
      · rw [h1]; exact hm.pg
      · rw [← h1]; exact hP b (hmem b hb) h2
    · cases rest with
      | nil => exact ⟨a, a, [], Or.inr rfl⟩
      | cons b r =>
        cases pre with
        | nil =>
          obtain ⟨x, y, r', hh⟩ := h2 a b r (by rw [hσ]; rfl)
          exact ⟨x, y, r', Or.inl hh⟩
        | cons p ps =>
          cases hps : ps ++ a :: b :: r with
          | nil => simp at hps
          | cons q qs =>
            obtain ⟨x, y, r', hh⟩ := h2 p q qs (by rw [hσ]; simp [hps])
            exact ⟨x, y, r', Or.inl hh⟩

theorem StackOK.mono' {P : Nat → Prop} {σ σ' : St} (hm : Mono P σ σ') (hP : ∀ a ∈ σ.acts, a.isComp = false → P a.id)
    (h : StackOK σ σ.acts) : StackOK σ' σ.acts :=
  StackOK.mono hm hP (fun x y r hh => ⟨x, y, r, hh⟩) (pre := []) rfl h

theorem ParamsOK.mono {P : Nat → Prop} {σ σ' : St} (hm : Mono P σ σ') {ps : List (Str × Ty × Bool)} (h : ParamsOK σ ps) :
    ParamsOK σ' ps := fun p hp => hm.tyG (h p hp)
theorem ProcOK.mono {P : Nat → Prop} {σ σ' : St} (hm : Mono P σ σ') {p : ProcDef} (h : ProcOK σ p) : ProcOK σ' p :=
  ⟨h.1.mono hm, h.2⟩
theorem FunOK.mono {P : Nat → Prop} {σ σ' : St} (hm : Mono P σ σ') {p : FunDef} (h : FunOK σ p) : FunOK σ' p :=
  ⟨h.1.mono hm, hm.tyG h.2.1, h.2.2⟩
theorem ParamsOK.ext {σ σ' : St} (hE : Ext σ σ') {ps : List (Str × Ty × Bool)} (h : ParamsOK σ ps) : ParamsOK σ' ps :=
  h.mono (Mono.of_ext hE)
theorem ProcOK.ext {σ σ' : St} (hE : Ext σ σ') {p : ProcDef} (h : ProcOK σ p) : ProcOK σ' p := h.mono (Mono.of_ext hE)
theorem FunOK.ext {σ σ' : St} (hE : Ext σ σ') {p : FunDef} (h : FunOK σ p) : FunOK σ' p := h.mono (Mono.of_ext hE)

/-! ### `Ext`, part 2 -/

theorem two_of_hdr {acts acts' : List Act} (h : acts'.map hdr = acts.map hdr) (h2 : ∃ a b r, acts = a :: b :: r) :
    ∃ a b r, acts' = a :: b :: r := by
  obtain ⟨a, b, r, rfl⟩ := h2
  match acts', h with
  | a' :: b' :: r', _ => exact ⟨a', b', r', rfl⟩
  | [_], h => simp at h
  | [], h => simp at h

theorem Ext.refl (σ : St) : Ext σ σ :=
  ⟨rfl, Nat.le_refl _, fun _ v h => ⟨v, h, NR.SameKind.refl v⟩, fun _ _ _ h => h, fun _ _ _ h => h, fun _ _ _ h => h,
   fun _ _ _ => rfl, fun _ => ⟨rfl, rfl, rfl⟩⟩

theorem Ext.trans {a b c : St} (h1 : Ext a b) (h2 : Ext b c) : Ext a c :=
  have hd := h1.defs.trans h2.defs
  ⟨h2.ids.trans h1.ids, Nat.le_trans h1.nextId h2.nextId, fun l v h => by
    obtain ⟨v1, hr1, k1⟩ := h1.reads l v h
    obtain ⟨v2, hr2, k2⟩ := h2.reads l v1 hr1
    exact ⟨v2, hr2, NR.SameKind.trans k1 k2⟩, hd.enums, hd.ptrs, hd.comps, hd.toks, fun hh => by
    obtain ⟨x1, x2, x3⟩ := h1.gsame hh
    obtain ⟨y1, y2, y3⟩ := h2.gsame (two_of_hdr h1.ids hh)
    exact ⟨y1.trans x1, y2.trans x2, y3.trans x3⟩⟩

/-- everything that is looked up in the definitions depends on the activation stack only -/
theorem lookups_of_acts {σ σ' : St} (ha : σ'.acts = σ.acts) :
    (∀ k n, enumLk σ' k n = enumLk σ k n) ∧ (∀ k n, ptrLk σ' k n = ptrLk σ k n) ∧ (∀ k n, compLk σ' k n = compLk σ k n) ∧
    (∀ k t, typeOfTok σ' k t = typeOfTok σ k t) ∧ gid σ' = gid σ ∧ genums σ' = genums σ ∧ gptrs σ' = gptrs σ ∧
    gcomps σ' = gcomps σ := by
  have h1 : ∀ k, lenums σ' k = lenums σ k := fun k => by unfold lenums actOf; rw [ha]
  have h2 : ∀ k, lptrs σ' k = lptrs σ k := fun k => by unfold lptrs actOf; rw [ha]
  have h3 : ∀ k, lcomps σ' k = lcomps σ k := fun k => by unfold lcomps actOf; rw [ha]
  have g1 : genums σ' = genums σ := by unfold NR.genums; rw [ha]
  have g2 : gptrs σ' = gptrs σ := by unfold NR.gptrs; rw [ha]
  have g3 : gcomps σ' = gcomps σ := by unfold NR.gcomps; rw [ha]
  have g0 : gid σ' = gid σ := by unfold NL.gid; rw [ha]
  refine ⟨fun k n => ?_, fun k n => ?_, fun k n => ?_, fun k t => ?_, g0, g1, g2, g3⟩
  · unfold enumLk enumDef; rw [h1, g1]
  · unfold ptrLk ptrDef; rw [h2, g2]
  · unfold compLk; rw [h3, g3, g0]
  · unfold typeOfTok enumDef ptrDef compDef; rw [h1, h2, h3, g1, g2, g3]

theorem DefsExt.of_acts_eq {σ σ' : St} (ha : σ'.acts = σ.acts) : DefsExt σ σ' := by
  obtain ⟨h1, h2, h3, h4, _⟩ := lookups_of_acts ha
  exact ⟨fun k n x h => by rw [h1]; exact h, fun k n x h => by rw [h2]; exact h, fun k n x h => by rw [h3]; exact h,
    fun k t _ => h4 k t⟩

/-- only the parts of the state outside the activation stack changed -/
theorem Ext.of_acts_eq {σ σ' : St} (ha : σ'.acts = σ.acts) (hn : σ'.nextId = σ.nextId) : Ext σ σ' :=
  have hd := DefsExt.of_acts_eq ha
  have hl := lookups_of_acts ha
  ⟨by rw [ha], by rw [hn]; exact Nat.le_refl _, fun _ v h => ⟨v, by rw [ha]; exact h, NR.SameKind.refl v⟩,
   hd.enums, hd.ptrs, hd.comps, hd.toks, fun _ => ⟨hl.2.2.2.2.2.1, hl.2.2.2.2.2.2.1, hl.2.2.2.2.2.2.2⟩⟩

theorem WF.of_acts_eq {σ σ' : St} (h : WF σ) (ha : σ'.acts = σ.acts) (hn : σ'.nextId = σ.nextId)
    (hp : σ'.procs = σ.procs) (hf : σ'.funs = σ.funs) : WF σ' := by
  have hE := Ext.of_acts_eq ha hn
  refine ⟨by rw [ha]; exact h.ne, ?_, by rw [ha, hn]; exact h.below, ?_, ?_⟩
  · rw [ha]; exact h.stack.mono' (Mono.of_ext hE) (fun _ _ _ => trivial)
  · rw [hp]; exact fun p hp => (h.procs p hp).ext hE
  · rw [hf]; exact fun p hp => (h.funs p hp).ext hE

theorem HolderOK.ext {σ σ' : St} {k : Nat} {h : Holder} (hE : Ext σ σ') (hh : HolderOK σ k h) : HolderOK σ' k h := by
  obtain ⟨⟨v, hr, hk⟩, hc⟩ := hh
  obtain ⟨v', hr', kk⟩ := hE.reads _ _ hr
  refine ⟨⟨v', hr', ?_⟩, ?_⟩
  · unfold NR.SameKind at kk
    rw [kk]; exact hk
  · rcases hc with hc | hc
    · exact Or.inl (TyG.ext hE hc)
    · exact Or.inr (by rw [hE.scopeAt]; exact hc)

/-- a readable location holding a non-array value of type `ty` -/
def TyLoc (σ : St) (l : Loc) (ty : Ty) : Prop := ∃ v, ReadsIn σ.acts l v ∧ kind v = .val ty

theorem TyLoc.ext {σ σ' : St} {l : Loc} {ty : Ty} (hE : Ext σ σ') (h : TyLoc σ l ty) : TyLoc σ' l ty := by
  obtain ⟨v, hr, hk⟩ := h
  obtain ⟨v', hr', k⟩ := hE.reads _ _ hr
  exact ⟨v', hr', Eq.trans k hk⟩

/-- a readable location holding an INTEGER (the FOR iterator) -/
abbrev IntLoc (σ : St) (l : Loc) : Prop := TyLoc σ l .int

theorem IntLoc.ext {σ σ' : St} {l : Loc} (hE : Ext σ σ') (h : IntLoc σ l) : IntLoc σ' l := TyLoc.ext hE h

/-! ### the stack under an update of one activation -/

/-- what an update of an activation must keep: its header, every readable cell with its kind -/
structure ActKeep (a a' : Act) : Prop where
  hdr : hdr a' = hdr a
  reads : ∀ isArr name path v, ActRead a isArr name path v → ∃ v', ActRead a' isArr name path v' ∧ SameKind v v'

theorem ActKeep.id {a a' : Act} (h : ActKeep a a') : a'.id = a.id := hdr_id h.hdr
theorem ActKeep.refl (a : Act) : ActKeep a a := ⟨rfl, fun _ _ _ v h => ⟨v, h, NR.SameKind.refl v⟩⟩

/-- reading in the updated stack -/
theorem reads_upd {acts : List Act} {id : Nat} {f : Act → Act} (hk : ∀ a ∈ acts, a.id = id → ActKeep a (f a))
    {l : Loc} {v : Val} (h : ReadsIn acts l v) : ∃ v', ReadsIn (updActs acts id f) l v' ∧ SameKind v v' := by
  induction acts with
  | nil => obtain ⟨a, _, h1, _⟩ := h; simp at h1
  | cons a rest ih =>
    unfold updActs
    by_cases hid : a.id = l.act
    · have hr := (NC.ReadsIn.cons_eq hid).1 h
      split
      · rename_i hupd
        have hk' := hk a List.mem_cons_self (by simpa using hupd)
        obtain ⟨v', hr', k⟩ := hk'.reads _ _ _ _ hr
        exact ⟨v', (NC.ReadsIn.cons_eq (hk'.id.trans hid)).2 hr', k⟩
      · exact ⟨v, (NC.ReadsIn.cons_eq hid).2 hr, NR.SameKind.refl v⟩
    · have hr := (NC.ReadsIn.cons_ne hid).1 h
      split
      · rename_i hupd
        have hk' := hk a List.mem_cons_self (by simpa using hupd)
        exact ⟨v, (NC.ReadsIn.cons_ne (by rw [hk'.id]; exact hid)).2 hr, NR.SameKind.refl v⟩
      · obtain ⟨v', hr', k⟩ := ih (fun b hb => hk b (List.mem_cons_of_mem _ hb)) hr
        exact ⟨v', (NC.ReadsIn.cons_ne hid).2 hr', k⟩

theorem SlotOK.upd {σ : St} {k : Nat} {acts : List Act} {id : Nat} {f : Act → Act}
    (hk : ∀ a ∈ acts, a.id = id → ActKeep a (f a)) {s : Slot} (h : SlotOK σ k acts s) : SlotOK σ k (updActs acts id f) s := by
  unfold SlotOK at *
  split
  · rename_i hr; rw [hr] at h; exact h
  · rename_i l hr
    rw [hr] at h
    obtain ⟨hsv, ⟨v, hv, hkd⟩, hg⟩ := h
    obtain ⟨v', hv', kk⟩ := reads_upd hk hv
    exact ⟨hsv, ⟨v', hv', Eq.trans kk hkd⟩, hg⟩

theorem updActs_eq_nil {acts : List Act} {id : Nat} {f : Act → Act} (h : updActs acts id f = []) : acts = [] := by
  cases acts with
  | nil => rfl
  | cons a r => exact absurd h (updActs_ne_nil (by simp))

theorem ActOK.upd_deeper {σ : St} {k : Nat} {acts : List Act} {id : Nat} {f : Act → Act}
    (hk : ∀ a ∈ acts, a.id = id → ActKeep a (f a)) {a : Act} (h : ActOK σ k acts a) : ActOK σ k (updActs acts id f) a :=
  ⟨fun s hs => (h.vars s hs).upd hk, h.arrs, h.defs, fun hne => h.disj (fun e => hne (by rw [e]; rfl)), h.compDefs, h.compRef,
   fun e => h.glob (updActs_eq_nil e), h.retVal⟩

theorem updActs_map_of_keep {acts : List Act} {id : Nat} {f : Act → Act}
    (hk : ∀ a ∈ acts, a.id = id → ActKeep a (f a)) : (updActs acts id f).map hdr = acts.map hdr := by
  induction acts with
  | nil => rfl
  | cons a rest ih =>
    unfold updActs
    split
    · rename_i hupd
      have hk' := hk a List.mem_cons_self (by simpa using hupd)
      simp [hk'.hdr]
    · simp [ih (fun b hb => hk b (List.mem_cons_of_mem _ hb))]

theorem scopeAtL_hit {g : Nat} {a : Act} {rest : List Act} {id : Nat} (h : (a.id == id) = true) :
    scopeAtL g (a :: rest) id = scopeOfL g (a :: rest) := by
  show (if (a.id == id) = true then _ else _) = _; rw [if_pos h]
theorem scopeAtL_miss {g : Nat} {a : Act} {rest : List Act} {id : Nat} (h : ¬ (a.id == id) = true) :
    scopeAtL g (a :: rest) id = scopeAtL g rest id := by
  show (if (a.id == id) = true then _ else _) = _; rw [if_neg h]

/-- the stack stays well-formed (for the same `σ`) when one activation is replaced by one that keeps its readable cells and is
    itself well-formed relative to the same callers, in the scope of its slots -/
theorem StackOK.upd {σ : St} {acts : List Act} {id : Nat} {f : Act → Act} (h : StackOK σ acts)
    (hk : ∀ a ∈ acts, a.id = id → ActKeep a (f a))
    (hok : ∀ deeper a, a ∈ acts → a.id = id → ActOK σ (scopeAtL (gid σ) acts id) deeper a →
      ActOK σ (scopeAtL (gid σ) acts id) deeper (f a)) :
    StackOK σ (updActs acts id f) := by
  induction acts with
  | nil => exact h
  | cons a rest ih =>
    obtain ⟨ha, hd, hrest⟩ := h
    have hsc : scopeOfL (gid σ) (updActs (a :: rest) id f) = scopeOfL (gid σ) (a :: rest) :=
      scopeOfL_of_hdr _ (updActs_map_of_keep hk)
    have hk' : ∀ b ∈ rest, b.id = id → ActKeep b (f b) := fun b hb => hk b (List.mem_cons_of_mem _ hb)
    unfold updActs at hsc ⊢
    split
    · rename_i hupd
      rw [if_pos hupd] at hsc
      have hid : a.id = id := by simpa using hupd
      refine ⟨?_, ?_, hrest⟩
      · rw [hsc]
        have := hok rest a List.mem_cons_self hid
        rw [scopeAtL_hit hupd] at this
        exact this ha
      · rw [(hk a List.mem_cons_self hid).id]; exact hd
    · rename_i hupd
      rw [if_neg hupd] at hsc
      refine ⟨?_, ?_, ih hrest hk' (fun d b hb hbid => ?_)⟩
      · rw [hsc]; exact ha.upd_deeper hk'
      · intro b hb
        rcases mem_updActs hb with hb | ⟨b', hb', _, rfl⟩
        · exact hd b hb
        · rw [(hk' b' hb' ‹_›).id]; exact hd b' hb'
      · have := hok d b (List.mem_cons_of_mem _ hb) hbid
        rw [scopeAtL_miss hupd] at this
        exact this

/-- `Ext` for an update of one activation, given how the definitions of the new state relate to the old ones -/
theorem Ext.updSt {σ : St} {id : Nat} {f : Act → Act}
    (hk : ∀ a ∈ σ.acts, a.id = id → ActKeep a (f a)) (hd : DefsExt σ (Pseudo.updSt σ id f))
    (hg : (∃ a b r, σ.acts = a :: b :: r) → genums (Pseudo.updSt σ id f) = genums σ ∧ gptrs (Pseudo.updSt σ id f) = gptrs σ ∧
      gcomps (Pseudo.updSt σ id f) = gcomps σ) : Ext σ (Pseudo.updSt σ id f) :=
  ⟨updActs_map_of_keep hk, Nat.le_refl _, fun _ _ h => reads_upd hk h, hd.enums, hd.ptrs, hd.comps, hd.toks, hg⟩

/-- `WF` for an update of one activation -/
theorem WF.updSt {σ : St} {id : Nat} {f : Act → Act} (h : WF σ)
    (hk : ∀ a ∈ σ.acts, a.id = id → ActKeep a (f a))
    (hok : ∀ deeper a, a ∈ σ.acts → a.id = id → ActOK σ (scopeAt σ id) deeper a → ActOK σ (scopeAt σ id) deeper (f a))
    (hE : Ext σ (Pseudo.updSt σ id f)) : WF (Pseudo.updSt σ id f) := by
  refine ⟨updActs_ne_nil h.ne, ?_, ?_, fun p hp => (h.procs p hp).ext hE, fun p hp => (h.funs p hp).ext hE⟩
  · refine StackOK.mono (Mono.of_ext hE) (full := updActs σ.acts id f) (fun _ _ _ => trivial) ?_ (pre := []) rfl
      (h.stack.upd hk hok)
    intro x y r hh
    have hl := congrArg List.length (updActs_map_of_keep hk)
    rw [hh] at hl
    simp only [List.length_map, List.length_cons] at hl
    match hσ : σ.acts, hl with
    | a :: b :: r', _ => exact ⟨a, b, r', rfl⟩
    | [_], hl => simp at hl
    | [], hl => simp at hl
  · intro b hb
    rcases mem_updActs hb with hb | ⟨b', hb', hid, rfl⟩
    · exact h.below b hb
    · rw [(hk b' hb' hid).id]; exact h.below b' hb'

/-! ### updates that leave the definitions alone -/

theorem find_updActs_sel {γ : Type} {id : Nat} {f : Act → Act} (sel : Act → γ) (hid : ∀ a, (f a).id = a.id)
    (hsel : ∀ a, sel (f a) = sel a) (k : Nat) :
    ∀ acts : List Act, ((updActs acts id f).find? (·.id == k)).map sel = (acts.find? (·.id == k)).map sel
  | [] => rfl
  | a :: rest => by
    unfold updActs
    by_cases hup : (a.id == id) = true
    · rw [if_pos hup]
      simp only [List.find?, hid]
      cases hk : a.id == k with
      | true => simp [hsel]
      | false => rfl
    · rw [if_neg hup]
      simp only [List.find?]
      cases hk : a.id == k with
      | true => rfl
      | false => exact find_updActs_sel sel hid hsel k rest

theorem lenums_eq (σ : St) (k : Nat) : lenums σ k = ((σ.acts.find? (·.id == k)).map (·.enums)).getD [] := by
  unfold lenums actOf; cases σ.acts.find? (·.id == k) <;> rfl
theorem lptrs_eq (σ : St) (k : Nat) : lptrs σ k = ((σ.acts.find? (·.id == k)).map (·.ptrs)).getD [] := by
  unfold lptrs actOf; cases σ.acts.find? (·.id == k) <;> rfl
theorem lcomps_eq (σ : St) (k : Nat) : lcomps σ k = ((σ.acts.find? (·.id == k)).map (·.comps)).getD [] := by
  unfold lcomps actOf; cases σ.acts.find? (·.id == k) <;> rfl

/-- all lookups agree when the local and the global definition lists and the global id agree -/
theorem lookups_of_lists {σ σ' : St} (h1 : ∀ k, lenums σ' k = lenums σ k) (h2 : ∀ k, lptrs σ' k = lptrs σ k)
    (h3 : ∀ k, lcomps σ' k = lcomps σ k) (g1 : genums σ' = genums σ) (g2 : gptrs σ' = gptrs σ) (g3 : gcomps σ' = gcomps σ)
    (g0 : gid σ' = gid σ) :
    (∀ k n, enumLk σ' k n = enumLk σ k n) ∧ (∀ k n, ptrLk σ' k n = ptrLk σ k n) ∧ (∀ k n, compLk σ' k n = compLk σ k n) ∧
    (∀ k t, typeOfTok σ' k t = typeOfTok σ k t) := by
  refine ⟨fun k n => ?_, fun k n => ?_, fun k n => ?_, fun k t => ?_⟩
  · unfold enumLk enumDef; rw [h1, g1]
  · unfold ptrLk ptrDef; rw [h2, g2]
  · unfold compLk; rw [h3, g3, g0]
  · unfold typeOfTok enumDef ptrDef compDef; rw [h1, h2, h3, g1, g2, g3]

theorem DefsExt.of_lookups {σ σ' : St}
    (h : (∀ k n, enumLk σ' k n = enumLk σ k n) ∧ (∀ k n, ptrLk σ' k n = ptrLk σ k n) ∧ (∀ k n, compLk σ' k n = compLk σ k n) ∧
    (∀ k t, typeOfTok σ' k t = typeOfTok σ k t)) : DefsExt σ σ' :=
  ⟨fun k n x hx => by rw [h.1]; exact hx, fun k n x hx => by rw [h.2.1]; exact hx, fun k n x hx => by rw [h.2.2.1]; exact hx,
   fun k t _ => h.2.2.2 k t⟩

theorem gid_updSt {σ : St} {id : Nat} {f : Act → Act} (hid : ∀ a, (f a).id = a.id) : gid (Pseudo.updSt σ id f) = gid σ := by
  have := NR.getLast_updActs (id := id) (f := f) (·.id) hid σ.acts
  unfold NL.gid
  show (match (updActs σ.acts id f).getLast? with | some g => g.id | none => 0) = _
  cases h1 : (updActs σ.acts id f).getLast? with
  | none => rw [h1] at this; cases h2 : σ.acts.getLast? with
    | none => rfl
    | some b => rw [h2] at this; cases this
  | some a =>
    rw [h1] at this
    cases h2 : σ.acts.getLast? with
    | none => rw [h2] at this; cases this
    | some b => rw [h2] at this; exact Option.some.inj this

/-- an update that leaves the definitions alone: all lookups are unchanged -/
theorem lookups_upd {σ : St} {id : Nat} {f : Act → Act} (hid : ∀ a, (f a).id = a.id)
    (hd : ∀ a, (f a).enums = a.enums ∧ (f a).ptrs = a.ptrs ∧ (f a).comps = a.comps) :
    ((∀ k n, enumLk (Pseudo.updSt σ id f) k n = enumLk σ k n) ∧ (∀ k n, ptrLk (Pseudo.updSt σ id f) k n = ptrLk σ k n) ∧
     (∀ k n, compLk (Pseudo.updSt σ id f) k n = compLk σ k n) ∧
     (∀ k t, typeOfTok (Pseudo.updSt σ id f) k t = typeOfTok σ k t)) ∧
    (genums (Pseudo.updSt σ id f) = genums σ ∧ gptrs (Pseudo.updSt σ id f) = gptrs σ ∧ gcomps (Pseudo.updSt σ id f) = gcomps σ) := by
  have hg := NR.defs_upd (σ := σ) (id := id) hd
  refine ⟨lookups_of_lists (fun k => ?_) (fun k => ?_) (fun k => ?_) hg.1 hg.2.1 hg.2.2 (gid_updSt hid), hg⟩
  · rw [lenums_eq, lenums_eq]
    show (((updActs σ.acts id f).find? (·.id == k)).map (·.enums)).getD [] = _
    rw [find_updActs_sel (·.enums) hid (fun a => (hd a).1)]
  · rw [lptrs_eq, lptrs_eq]
    show (((updActs σ.acts id f).find? (·.id == k)).map (·.ptrs)).getD [] = _
    rw [find_updActs_sel (·.ptrs) hid (fun a => (hd a).2.1)]
  · rw [lcomps_eq, lcomps_eq]
    show (((updActs σ.acts id f).find? (·.id == k)).map (·.comps)).getD [] = _
    rw [find_updActs_sel (·.comps) hid (fun a => (hd a).2.2)]

/-- `Ext` for an update of one activation that leaves the definitions alone -/
theorem Ext.upd_keep {σ : St} {id : Nat} {f : Act → Act} (hk : ∀ a ∈ σ.acts, a.id = id → ActKeep a (f a))
    (hid : ∀ a, (f a).id = a.id) (hd : ∀ a, (f a).enums = a.enums ∧ (f a).ptrs = a.ptrs ∧ (f a).comps = a.comps) :
    Ext σ (Pseudo.updSt σ id f) :=
  Ext.updSt hk (DefsExt.of_lookups (lookups_upd hid hd).1) (fun _ => (lookups_upd hid hd).2)

/-! ### outcomes -/

theorem ErrOK.ext {σ σ' : St} {e : Stop} (hE : Ext σ σ') (h : ErrOK σ e) : ErrOK σ' e := by
  refine ⟨h.1, fun he => ?_⟩
  obtain ⟨a, rest, hacts, hfn⟩ := h.2 he
  have hids := hE.ids
  rw [hacts] at hids
  cases hσ' : σ'.acts with
  | nil => rw [hσ'] at hids; simp at hids
  | cons a' rest' =>
    rw [hσ'] at hids
    simp only [List.map_cons, List.cons.injEq] at hids
    exact ⟨a', rest', rfl, (hdr_isFn hids.1).trans hfn⟩

/-- the outcome of `m` from `σ` satisfies `Φ` -/
def Run {α : Type} (m : M α) (σ : St) (Φ : Except Stop α → St → Prop) : Prop := Φ (m.run.run σ).1 (m.run.run σ).2

/-- the standard outcome predicate -/
def ResE {α : Type} (σ0 : St) (Q : α → St → Prop) (E : St → Stop → Prop) (r : Except Stop α) (σ' : St) : Prop :=
  WF σ' ∧ Ext σ0 σ' ∧ match r with | .ok a => Q a σ' | .error e => E σ' e

abbrev Res {α : Type} (σ0 : St) (Q : α → St → Prop) : Except Stop α → St → Prop := ResE σ0 Q ErrOK

/-- Hoare triple over the invariant -/
def Tri {α : Type} (P : St → Prop) (m : M α) (Q : St → α → St → Prop) : Prop :=
  ∀ σ, WF σ → P σ → Run m σ (Res σ (Q σ))

section combinators
variable {α β : Type} {σ0 σ : St} {E : St → Stop → Prop}

theorem Run.pure {a : α} {Q : α → St → Prop} (hW : WF σ) (hE : Ext σ0 σ) (h : Q a σ) :
    Run (Pure.pure a : M α) σ (ResE σ0 Q E) := ⟨hW, hE, h⟩

theorem Run.throw {e : Stop} {Q : α → St → Prop} (hW : WF σ) (hE : Ext σ0 σ) (h : E σ e) :
    Run (throw e : M α) σ (ResE σ0 Q E) := ⟨hW, hE, h⟩

theorem Run.mono {m : M α} {Φ Ψ : Except Stop α → St → Prop} (h : Run m σ Φ) (hi : ∀ r σ', Φ r σ' → Ψ r σ') :
    Run m σ Ψ := hi _ _ h

theorem ResE.weaken {Q Q' : α → St → Prop} {E' : St → Stop → Prop} {r : Except Stop α} {σ' : St}
    (h : ResE σ0 Q E r σ') (hQ : ∀ a, Q a σ' → Q' a σ') (hE : ∀ e, E σ' e → E' σ' e) : ResE σ0 Q' E' r σ' := by
  refine ⟨h.1, h.2.1, ?_⟩
  have := h.2.2
  cases r with
  | ok a => exact hQ a this
  | error e => exact hE e this

/-- sequencing after a state-changing step -/
theorem Run.bind {m : M α} {f : α → M β} {Qa : α → St → Prop} {Qb : β → St → Prop}
    (hE : Ext σ0 σ) (hm : Run m σ (ResE σ Qa E))
    (hk : ∀ a σ', WF σ' → Ext σ σ' → Ext σ0 σ' → Qa a σ' → Run (f a) σ' (ResE σ0 Qb E)) :
    Run (m >>= f) σ (ResE σ0 Qb E) := by
  unfold Run at *
  rcases h : m.run.run σ with ⟨e | a, σ'⟩
  · rw [run_bind_err m f σ σ' e h]
    rw [h] at hm
    exact ⟨hm.1, hE.trans hm.2.1, hm.2.2⟩
  · rw [run_bind_ok m f σ σ' a h]
    rw [h] at hm
    exact hk a σ' hm.1 hm.2.1 (hE.trans hm.2.1) hm.2.2

/-- sequencing after a read-only step -/
theorem Run.bind_ro {m : M α} {f : α → M β} {post : α → Prop} {Qb : β → St → Prop}
    (hW : WF σ) (hE : Ext σ0 σ) (hE' : ∀ e, ErrNR σ e → E σ e) (hm : RO m σ post)
    (hk : ∀ a, post a → Run (f a) σ (ResE σ0 Qb E)) : Run (m >>= f) σ (ResE σ0 Qb E) := by
  unfold Run RO at *
  rcases h : m.run.run σ with ⟨e | a, σ'⟩
  · rw [run_bind_err m f σ σ' e h]
    rw [h] at hm
    obtain ⟨rfl, hm⟩ := hm
    exact ⟨hW, hE, hE' e hm⟩
  · rw [run_bind_ok m f σ σ' a h]
    rw [h] at hm
    obtain ⟨rfl, hm⟩ := hm
    exact hk a hm

/-- a read-only step in tail position -/
theorem Run.of_ro {m : M α} {post : α → Prop} {Q : α → St → Prop}
    (hW : WF σ) (hE : Ext σ0 σ) (hE' : ∀ e, ErrNR σ e → E σ e) (hm : RO m σ post)
    (hk : ∀ a, post a → Q a σ) : Run m σ (ResE σ0 Q E) := by
  unfold Run RO at *
  rcases h : m.run.run σ with ⟨e | a, σ'⟩
  · rw [h] at hm; obtain ⟨rfl, hm⟩ := hm; exact ⟨hW, hE, hE' e hm⟩
  · rw [h] at hm; obtain ⟨rfl, hm⟩ := hm; exact ⟨hW, hE, hk a hm⟩

/-- a state-changing step in tail position -/
theorem Run.of_tri {m : M α} {Qa Q : α → St → Prop} (hE : Ext σ0 σ) (hm : Run m σ (ResE σ Qa E))
    (hk : ∀ a σ', WF σ' → Ext σ σ' → Qa a σ' → Q a σ') : Run m σ (ResE σ0 Q E) := by
  unfold Run at *
  obtain ⟨h1, h2, h3⟩ := hm
  refine ⟨h1, hE.trans h2, ?_⟩
  rcases h : (m.run.run σ).1 with e | a
  · rw [h] at h3; exact h3
  · rw [h] at h3; exact hk a _ h1 h2 h3

theorem Run.get_bind {f : St → M β} {Φ : Except Stop β → St → Prop} (h : Run (f σ) σ Φ) :
    Run ((MonadState.get : M St) >>= f) σ Φ := by
  unfold Run at *
  rw [run_bind_ok _ _ _ _ _ (run_get σ)]
  exact h

theorem Run.get_bind' {f : St → M β} {Φ : Except Stop β → St → Prop} (h : Run (f σ) σ Φ) :
    Run ((get : M St) >>= f) σ Φ := Run.get_bind h

/-- a handler: the body may raise anything in `E'`, the handler turns it into an outcome in `E` -/
theorem Run.tryCatch {m : M α} {hd : Stop → M α} {Q : α → St → Prop} {E' : St → Stop → Prop}
    (hE : Ext σ0 σ) (hm : Run m σ (ResE σ Q E'))
    (hh : ∀ e σ', WF σ' → Ext σ σ' → Ext σ0 σ' → E' σ' e → Run (hd e) σ' (ResE σ0 Q E)) :
    Run (tryCatch m hd) σ (ResE σ0 Q E) := by
  unfold Run at *
  rcases h : m.run.run σ with ⟨e | a, σ'⟩
  · rw [run_tryCatch_err m hd σ σ' e h]
    rw [h] at hm
    exact hh e σ' hm.1 hm.2.1 (hE.trans hm.2.1) hm.2.2
  · rw [run_tryCatch_ok m hd σ σ' a h]
    rw [h] at hm
    exact ⟨hm.1, hE.trans hm.2.1, hm.2.2⟩

theorem Run.ite {c : Prop} [Decidable c] {t e : M α} {Φ : Except Stop α → St → Prop}
    (ht : c → Run t σ Φ) (he : ¬ c → Run e σ Φ) : Run (if c then t else e) σ Φ := by
  split
  · exact ht ‹_›
  · exact he ‹_›

theorem Run.weakenE {m : M α} {Q : α → St → Prop} {E' : St → Stop → Prop} (h : Run m σ (ResE σ0 Q E))
    (hE : ∀ σ' e, E σ' e → E' σ' e) : Run m σ (ResE σ0 Q E') :=
  h.mono fun _ _ hr => hr.weaken (fun _ q => q) (hE _)

theorem Run.weakenQ {m : M α} {Q Q' : α → St → Prop} (h : Run m σ (ResE σ0 Q E))
    (hQ : ∀ a σ', WF σ' → Ext σ0 σ' → Q a σ' → Q' a σ') : Run m σ (ResE σ0 Q' E) := by
  unfold Run at *
  obtain ⟨h1, h2, h3⟩ := h
  refine ⟨h1, h2, ?_⟩
  rcases hr : (m.run.run σ).1 with e | a
  · rw [hr] at h3; exact h3
  · rw [hr] at h3; exact hQ a _ h1 h2 h3

end combinators

end Pseudo.NL
