import Properties.C14Multi
/-!
# Record files on the evaluator, without a record class for the file

`PseudoProofs/RandomFile.lean` runs SEEK / PUTRECORD / GETRECORD blocks under the invariant "every record of the file is the text
of a value of ONE class". C13 speaks about ONE record: the one that is written and read back; the other records of the file may be
anything. Here the statements are run on a RANDOM handle holding ANY record texts:

* `putAt rs i r` — the record list after PUTRECORD with the cursor at `i` (replace, or append when `i = length`);
* `step_put_any` — PUTRECORD of a plain variable on any RANDOM handle;
* `RawOpen s n h` — what CLOSEFILE / OPENFILE and the exit routine need of a handle (framed records, only handle of its
  name, name accepted by OPENFILE, disk as OPENFILE / PUTRECORD leave it), with no condition tying the records to values;
* `run_put_get` — the block `SEEK n, k ; PUTRECORD n, x ; SEEK n, k ; GETRECORD n, y`, final state given explicitly.
-/
namespace Pseudo.RecordFileRun
open Pseudo Pseudo.FileStmt Pseudo.ReadLoop Pseudo.RandomFile Pseudo.RandomFile2

/-! ## 1. the record list after a PUTRECORD at cursor `i` -/

/-- replace record `i` (0-based), or append when `i` is not an index -/
def putAt (rs : List Str) (i : Nat) (r : Str) : List Str :=
  if i < rs.length then rs.set i r else rs ++ [r]

theorem putAt_self (rs : List Str) (i : Nat) (r : Str) (hi : i ≤ rs.length) : (putAt rs i r)[i]? = some r := by
  unfold putAt
  split
  · rename_i h; simp [h]
  · have : i = rs.length := by omega
    subst this; simp

theorem putAt_other (rs : List Str) (i j : Nat) (r : Str) (hj : j ≠ i) (hjl : j < rs.length) :
    (putAt rs i r)[j]? = rs[j]? := by
  unfold putAt
  split
  · exact List.getElem?_set_ne (Ne.symm hj)
  · exact List.getElem?_append_left hjl

theorem putAt_length (rs : List Str) (i : Nat) (r : Str) (hi : i ≤ rs.length) :
    (putAt rs i r).length = max rs.length (i + 1) := by
  unfold putAt
  split
  · simp; omega
  · simp; omega

theorem putAt_mem (rs : List Str) (i : Nat) (r x : Str) (hx : x ∈ putAt rs i r) : x ∈ rs ∨ x = r := by
  unfold putAt at hx
  split at hx
  · exact List.mem_or_eq_of_mem_set hx
  · rcases List.mem_append.mp hx with h | h
    · exact Or.inl h
    · exact Or.inr (by simpa using h)

/-- the handle after `SEEK k ; PUTRECORD` of the text `r` (and after any further `SEEK k`) -/
def putSeekH (i : Nat) (r : Str) (h : Handle) : Handle :=
  { h with ptr := i, records := putAt h.records i r, modified := true }

theorem putH_seek (i : Nat) (r : Str) (h : Handle) : putH r { h with ptr := i } = putSeekH i r h := rfl

theorem updHandles_comp (hs : List Handle) (n : Str) (F G : Handle → Handle) (hF : ∀ x, (F x).name = x.name) :
    updHandles (updHandles hs n F) n G = updHandles hs n (fun x => G (F x)) := by
  unfold updHandles
  rw [List.map_map]
  apply List.map_congr_left
  intro x _
  by_cases hx : (x.name == n) = true
  · simp only [Function.comp, hx, if_true, hF]
  · simp only [Function.comp, hx, Bool.false_eq_true, if_false]

/-! ## 2. PUTRECORD on any RANDOM handle -/

section Steps
variable {defs : Codec.Defs} {σ : St} {n : Str} {a : Act} {rest : List Act}

/-- **PUTRECORD n, x** for a plain variable `x` (not of a pointer type) of the current activation holding `v`, `n` open FOR RANDOM
    with ANY records: accepted; the handles named `n` are mapped through `putH (dump v)` (record under the cursor replaced, or
    appended at `len + 1`; marked modified); nothing else but `steps + 1` changes -/
theorem step_put_any (hacts : σ.acts = a :: rest) (f : Nat) (t tn x : Tok) (ty : Ty) (v : Val) (h : Handle)
    (hb : σ.steps + 1 ≤ σ.stepLimit) (hx : HasVar a x.val ty v) (hp : isPtrTy ty = false)
    (hh : FState.handle (fileSt σ) n = some h) (hm : h.mode = .random) :
    (execStmt (f+3) (.putRecord t (.strLit tn n) x)).run.run σ =
      (.ok .none, { σ with steps := σ.steps + 1, handles := updHandles σ.handles n (putH (Codec.dump v)) }) ∧
    FState.handle { fs := σ.fs, handles := updHandles σ.handles n (putH (Codec.dump v)) } n = some (putH (Codec.dump v) h) := by
  have hpre : fpre (fileSt σ) (.put n (Codec.dump v)) = .ok () := by simp [fpre, hh, hm]
  have hstep : fstep (fileSt σ) (.put n (Codec.dump v)) =
      .ok ({ fileSt σ with handles := updHandles (fileSt σ).handles n (putH (Codec.dump v)) }, .unit) := by
    simp only [fstep, hpre]; rfl
  obtain ⟨s, hs, hty, _, href, hval⟩ := hx
  obtain ⟨hlv, hla, htgt⟩ := target_cur hacts x.val s hs href
  have hcur : readLocP σ (curLoc a x.val) = .ok v := by rw [readLocP_cur σ a rest x.val s hacts hs, hval]
  have hrun := (C16_exec_putRecord (f+1) t (.strLit tn n) x σ n _ _ (curLoc a x.val) s.ty v hb (evalsTo_strLit f tn n _)
    hlv hla (htgt _) (by rw [hty]; exact hp) hcur).1 _ .unit hstep
  refine ⟨hrun, ?_⟩
  have hu := handle_upd σ.handles n (putH (Codec.dump v)) (fun _ => rfl)
  unfold FState.handle at hh ⊢
  dsimp only [fileSt] at hh ⊢
  rw [hu, hh]
  rfl

/-- the state after `SEEK n, k ; PUTRECORD n, x ; SEEK n, k` (and, with `acts`, after a GETRECORD) -/
def putSt (σ : St) (n : Str) (i : Nat) (r : Str) (c : Nat) : St :=
  { σ with steps := σ.steps + c, handles := updHandles σ.handles n (putSeekH i r) }

theorem handle_putSt (n : Str) (i : Nat) (r : Str) (h : Handle) (hh : FState.handle (fileSt σ) n = some h) (c : Nat) :
    FState.handle (fileSt (putSt σ n i r c)) n = some (putSeekH i r h) := by
  have hu := handle_upd σ.handles n (putSeekH i r) (fun _ => rfl)
  unfold FState.handle at hh ⊢
  dsimp only [fileSt, putSt] at hh ⊢
  rw [hu, hh]
  rfl

theorem handle_putSt_other (n m : Str) (i : Nat) (r : Str) (c : Nat) (hne : m ≠ n) :
    FState.handle (fileSt (putSt σ n i r c)) m = FState.handle (fileSt σ) m :=
  handle_upd_other σ.handles n m (putSeekH i r) (fun _ => rfl) hne

/-- **`SEEK n, k ; PUTRECORD n, x`** (`1 ≤ k ≤ len + 1`) on a RANDOM handle with any records, three statements of fuel each:
    the three runs, with the states in between; the last state is `putSt σ n (k-1) (dump v) 2` -/
theorem run_seek_put (hacts : σ.acts = a :: rest) (f f' : Nat) (t1 tn1 tk1 t2 tn2 x : Tok) (k : Int)
    (tx : Ty) (v : Val) (h : Handle) (hb : σ.steps + 2 ≤ σ.stepLimit)
    (hx : HasVar a x.val tx v) (hpx : isPtrTy tx = false)
    (hh : FState.handle (fileSt σ) n = some h) (hm : h.mode = .random) (h1 : 1 ≤ k)
    (h2 : k ≤ (h.records.length : Int) + 1) :
    ∃ σ1, (execStmt (f+3) (.seek t1 (.strLit tn1 n) (.intLit tk1 k))).run.run σ = (.ok .none, σ1) ∧
      (execStmt (f'+3) (.putRecord t2 (.strLit tn2 n) x)).run.run σ1 =
        (.ok .none, putSt σ n (k.toNat - 1) (Codec.dump v) 2) := by
  obtain ⟨e1, hh1⟩ := step_seek_any (σ := σ) (n := n) f t1 tn1 tk1 k h (by omega) hh hm h1 h2
  let σ1 : St := { σ with steps := σ.steps + 1, handles := updHandles σ.handles n fun h => { h with ptr := k.toNat - 1 } }
  obtain ⟨e2, _⟩ := step_put_any (σ := σ1) (n := n) (a := a) (rest := rest) hacts f' t2 tn2 x tx v { h with ptr := k.toNat - 1 }
    (by show σ.steps + 1 + 1 ≤ σ.stepLimit; omega) hx hpx hh1 hm
  refine ⟨σ1, e1, ?_⟩
  rw [e2]
  show (_, ({ σ with steps := σ.steps + 1 + 1, handles := updHandles (updHandles σ.handles n _) n _ } : St)) = _
  rw [updHandles_comp σ.handles n (fun h => { h with ptr := k.toNat - 1 }) (putH (Codec.dump v)) (fun _ => rfl)]
  rfl

/-- … followed by **`SEEK n, k`** again: only the step counter moves (the cursor is already at `k`) -/
theorem run_seek_again (f : Nat) (t tn tk : Tok) (k : Int) (r : Str) (c : Nat) (h : Handle)
    (hb : σ.steps + c + 1 ≤ σ.stepLimit) (hh : FState.handle (fileSt σ) n = some h) (hm : h.mode = .random) (h1 : 1 ≤ k)
    (h2 : k ≤ (h.records.length : Int) + 1) :
    (execStmt (f+3) (.seek t (.strLit tn n) (.intLit tk k))).run.run (putSt σ n (k.toNat - 1) r c) =
      (.ok .none, putSt σ n (k.toNat - 1) r (c + 1)) := by
  have hh' := handle_putSt (σ := σ) n (k.toNat - 1) r h hh c
  have hlen : (putSeekH (k.toNat - 1) r h).records.length = max h.records.length (k.toNat - 1 + 1) :=
    putAt_length _ _ _ (by omega)
  obtain ⟨e, _⟩ := step_seek_any (σ := putSt σ n (k.toNat - 1) r c) (n := n) f t tn tk k (putSeekH (k.toNat - 1) r h) hb hh' hm h1
    (by rw [hlen]; omega)
  rw [e]
  show (_, ({ σ with steps := σ.steps + c + 1, handles := updHandles (updHandles σ.handles n _) n _ } : St)) = _
  rw [updHandles_comp σ.handles n (putSeekH (k.toNat - 1) r) (fun h => { h with ptr := k.toNat - 1 }) (fun _ => rfl)]
  rfl

/-- … followed by **`GETRECORD n, y`** into a plain variable `y` (current value `cur`): decided by `Codec.load defs cur r` alone
    (`r` the text just written): `none` → runtime error `recordRead`, only `steps` moves; `some (nv, _)` → `y := nv` -/
theorem run_get_after (hacts : σ.acts = a :: rest) (hdefs : codecDefsP σ = .ok defs) (f : Nat) (t tn y : Tok) (ty : Ty)
    (cur : Val) (i : Nat) (r : Str) (c : Nat) (h : Handle) (hb : σ.steps + c + 1 ≤ σ.stepLimit)
    (hy : HasVar a y.val ty cur) (hpy : isPtrTy ty = false)
    (hh : FState.handle (fileSt σ) n = some h) (hm : h.mode = .random) (hi : i ≤ h.records.length) :
    (Codec.load defs cur r = none →
      (execStmt (f+3) (.getRecord t (.strLit tn n) y)).run.run (putSt σ n i r c) =
        errAt (putSt σ n i r (c + 1)) t .recordRead) ∧
    (∀ nv r', Codec.load defs cur r = some (nv, r') → cur.isArr = nv.isArr →
      (execStmt (f+3) (.getRecord t (.strLit tn n) y)).run.run (putSt σ n i r c) =
        (.ok .none, { putSt σ n i r (c + 1) with acts := setVar a y.val nv :: rest })) := by
  have hh' := handle_putSt (σ := σ) n i r h hh c
  have hrec : (putSeekH i r h).records[(putSeekH i r h).ptr]? = some r := putAt_self _ _ _ hi
  have hg := step_get_any (σ := putSt σ n i r c) (n := n) (a := a) (rest := rest) (defs := defs) hacts hdefs f t tn y ty cur
    (putSeekH i r h) r hb hy hpy hh' hm hrec
  exact ⟨fun hl => hg.1 hl, fun nv r' hl hk => hg.2 nv r' hl hk⟩

/-- **the block `SEEK n, k ; PUTRECORD n, x ; SEEK n, k ; GETRECORD n, y`** on a RANDOM handle with any records
    (`1 ≤ k ≤ len + 1`; `x`, `y` plain variables of the current activation, not of pointer types, holding `v`, `cur`), fuel 7,
    four steps of budget. What happens is decided by `Codec.load defs cur (dump v)` alone:
    * `none`: the first three statements run, GETRECORD ends with the runtime error `recordRead` at its token; the final state
      is `putSt σ n (k-1) (dump v) 4` — the variables are untouched;
    * `some (nv, _)`: normal end, and additionally `y := nv`. -/
theorem run_put_get (hacts : σ.acts = a :: rest) (hdefs : codecDefsP σ = .ok defs)
    (t1 tn1 tk1 t2 tn2 x t3 tn3 tk3 t4 tn4 y : Tok) (k : Int) (tx ty : Ty) (v cur : Val) (h : Handle)
    (hb : σ.steps + 4 ≤ σ.stepLimit) (hx : HasVar a x.val tx v) (hpx : isPtrTy tx = false)
    (hy : HasVar a y.val ty cur) (hpy : isPtrTy ty = false)
    (hh : FState.handle (fileSt σ) n = some h) (hm : h.mode = .random) (h1 : 1 ≤ k)
    (h2 : k ≤ (h.records.length : Int) + 1) :
    (Codec.load defs cur (Codec.dump v) = none →
      (runBlock 7 [.seek t1 (.strLit tn1 n) (.intLit tk1 k), .putRecord t2 (.strLit tn2 n) x,
                   .seek t3 (.strLit tn3 n) (.intLit tk3 k), .getRecord t4 (.strLit tn4 n) y]).run.run σ =
        errAt (putSt σ n (k.toNat - 1) (Codec.dump v) 4) t4 .recordRead) ∧
    (∀ nv r', Codec.load defs cur (Codec.dump v) = some (nv, r') → cur.isArr = nv.isArr →
      (runBlock 7 [.seek t1 (.strLit tn1 n) (.intLit tk1 k), .putRecord t2 (.strLit tn2 n) x,
                   .seek t3 (.strLit tn3 n) (.intLit tk3 k), .getRecord t4 (.strLit tn4 n) y]).run.run σ =
        (.ok ⟨⟩, { putSt σ n (k.toNat - 1) (Codec.dump v) 4 with acts := setVar a y.val nv :: rest })) := by
  obtain ⟨σ1, e1, e2⟩ := run_seek_put (σ := σ) (n := n) hacts 3 2 t1 tn1 tk1 t2 tn2 x k tx v h (by omega) hx hpx hh hm h1 h2
  have e3 := run_seek_again (σ := σ) (n := n) 1 t3 tn3 tk3 k (Codec.dump v) 2 h (by omega) hh hm h1 h2
  have e4 := run_get_after (σ := σ) (n := n) (a := a) (rest := rest) (defs := defs) hacts hdefs 0 t4 tn4 y ty cur (k.toNat - 1)
    (Codec.dump v) 3 h (by omega) hy hpy hh hm (by omega)
  constructor
  · intro hl
    rw [run_runBlock_cons 6 _ _ σ σ1 e1, run_runBlock_cons 5 _ _ σ1 _ e2, run_runBlock_cons 4 _ _ _ _ e3]
    exact run_runBlock_cons_err 3 _ _ _ _ _ (e4.1 hl)
  · intro nv r' hl hk
    rw [run_runBlock_cons 6 _ _ σ σ1 e1, run_runBlock_cons 5 _ _ σ1 _ e2, run_runBlock_cons 4 _ _ _ _ e3,
      run_runBlock_cons 3 _ _ _ _ (e4.2 nv r' hl hk)]
    exact run_runBlock_nil 2 _

end Steps

/-! ## 3. what CLOSEFILE / OPENFILE and the exit routine need of a handle -/

/-- the file component `s` has `n` open FOR RANDOM with the handle `h`, whose records are framed (every text `Codec.dump`
    produces is, `C13_dump_framed`); `h` is the only handle of that name, the name was accepted by OPENFILE, and the disk is as
    OPENFILE / PUTRECORD leave it. No condition ties the records to values or types. -/
structure RawOpen (s : FState) (n : Str) (h : Handle) : Prop where
  handle : s.handle n = some h
  mode : h.mode = .random
  framed : ∀ r ∈ h.records, Codec.Framed r
  uniq : ∀ x ∈ s.handles, x.name = n → x = h
  long : nameTooLong n = false
  disk : DiskOK s n h

theorem RawOpen.of_openRandom {defs : Codec.Defs} {C : RecClass defs} {s : FState} {n : Str} {h : Handle} {q : VSeq}
    (inv : OpenRandom C s n h q) : RawOpen s n h :=
  ⟨inv.handle, inv.mode, inv.framed, inv.uniq, inv.long, inv.disk⟩

theorem RawOpen.seqAtExit {s : FState} {n : Str} {h : Handle} (inv : RawOpen s n h) : SeqAtExit s n h.records :=
  Or.inl ⟨h, inv.handle, inv.mode, rfl, inv.framed, inv.disk, inv.uniq⟩

/-- a step that maps the handles named `n` through `F` keeps `RawOpen` -/
theorem RawOpen.upd {s : FState} {n : Str} {h : Handle} (inv : RawOpen s n h) (F : Handle → Handle)
    (hn : ∀ x, (F x).name = x.name) (hm : (F h).mode = .random) (hfr : ∀ r ∈ (F h).records, Codec.Framed r)
    (hdisk : DiskOK s n (F h)) :
    RawOpen { s with handles := updHandles s.handles n F } n (F h) := by
  refine ⟨?_, hm, hfr, ?_, inv.long, hdisk⟩
  · have := handle_upd s.handles n F hn
    unfold FState.handle
    dsimp only
    rw [this]
    have hh := inv.handle
    unfold FState.handle at hh
    rw [hh]; rfl
  · intro x hx hxn
    unfold updHandles at hx
    obtain ⟨y, hy, rfl⟩ := List.mem_map.mp hx
    by_cases hyn : (y.name == n) = true
    · simp only [hyn, if_true]
      rw [inv.uniq y hy (by simpa using hyn)]
    · simp only [hyn, Bool.false_eq_true, if_false] at hxn
      exact absurd (by simpa using hxn) hyn

/-- `SEEK k ; PUTRECORD` of a framed text keeps `RawOpen` -/
theorem RawOpen.putSt {σ : St} {n : Str} {h : Handle} (inv : RawOpen (fileSt σ) n h) (i : Nat) (r : Str) (c : Nat)
    (hr : Codec.Framed r) : RawOpen (fileSt (putSt σ n i r c)) n (putSeekH i r h) := by
  refine inv.upd (putSeekH i r) (fun _ => rfl) inv.mode ?_ (diskOK_put inv.disk (putSeekH i r) rfl)
  intro x hx
  rcases putAt_mem _ _ _ _ hx with hx | rfl
  · exact inv.framed x hx
  · exact hr

/-- **CLOSEFILE n ; OPENFILE n FOR RANDOM** on a `RawOpen` handle (any framed records): both statements are accepted; the state
    in between has `n` closed and the records on disk; the final state differs from `σ` in `steps + 2` and the file component,
    in which `n` has the fresh handle `⟨n, RANDOM, same records, cursor 0, unmodified⟩`, again `RawOpen`; the file holds the
    records; handles of other names are untouched -/
theorem step_reopen_raw {σ : St} {n : Str} {h : Handle} (inv : RawOpen (fileSt σ) n h) (f f' : Nat) (t tn t' tn' : Tok)
    (hb : σ.steps + 2 ≤ σ.stepLimit) :
    ∃ (σ1 : St) (fs' : List (Str × FsNode)) (hs' : List Handle),
      (execStmt (f+3) (.closeFile t (.strLit tn n))).run.run σ = (.ok .none, σ1) ∧
      (execStmt (f'+3) (.openFile t' (.strLit tn' n) .random)).run.run σ1 =
        (.ok .none, { σ with steps := σ.steps + 2, fs := fs', handles := hs' }) ∧
      RawOpen { fs := fs', handles := hs' } n { name := n, mode := .random, records := h.records } ∧
      DiskHas fs' n h.records ∧
      (∀ m, m ≠ n → FState.handle { fs := fs', handles := hs' } m = FState.handle (fileSt σ) m) ∧
      σ1 = { σ with steps := σ.steps + 1, fs := σ1.fs, handles := σ1.handles } ∧
      FState.handle (fileSt σ1) n = none ∧ DiskHas σ1.fs n h.records := by
  obtain ⟨s1, s2, h1, h2, hcl, hd, hh2, hfs, hoth, huniq⟩ :=
    pure_reopen_raw (fileSt σ) n h inv.handle inv.mode inv.framed inv.long inv.disk
  have e1 := (C16_exec_closeFile_lit f t tn n σ (by omega)).1 s1 .unit h1
  let σ1 : St := { σ with steps := σ.steps + 1, fs := s1.fs, handles := s1.handles }
  have e2 := (C16_exec_openFile_lit f' t' tn' n .random σ1 (by show σ.steps + 1 + 1 ≤ σ.stepLimit; omega)).1 s2 .unit h2
  have hd2 : DiskHas s2.fs n h.records := by rw [hfs]; exact hd
  refine ⟨σ1, s2.fs, s2.handles, e1, e2, ⟨hh2, rfl, inv.framed, huniq, inv.long, ?_⟩, hd2, hoth, rfl, hcl, hd⟩
  unfold DiskOK
  simp only [Bool.false_eq_true, if_false]
  exact hd2

/-- CLOSEFILE alone on a `RawOpen` handle: the name is closed and the file holds the records -/
theorem step_close_raw {σ : St} {n : Str} {h : Handle} (inv : RawOpen (fileSt σ) n h) (f : Nat) (t tn : Tok)
    (hb : σ.steps + 1 ≤ σ.stepLimit) :
    ∃ σ1, (execStmt (f+3) (.closeFile t (.strLit tn n))).run.run σ = (.ok .none, σ1) ∧
      σ1 = { σ with steps := σ.steps + 1, fs := σ1.fs, handles := σ1.handles } ∧
      SeqAtExit (fileSt σ1) n h.records := by
  obtain ⟨s1, _, h1, _, hcl, hd, _⟩ :=
    pure_reopen_raw (fileSt σ) n h inv.handle inv.mode inv.framed inv.long inv.disk
  have e1 := (C16_exec_closeFile_lit f t tn n σ hb).1 s1 .unit h1
  exact ⟨_, e1, rfl, Or.inr ⟨hcl, hd⟩⟩

/-- C13 on the codec, in the form the run lemmas consume: the text of a storable value decodes, against a variable of the same
    shape, to exactly that value (what is left unread is irrelevant to GETRECORD) -/
theorem load_dump_some (Fin : Float → Prop) (L : Codec.ReaderLaws Fin) (defs : Codec.Defs) (v cur : Val)
    (hv : Codec.Storable Fin defs v) (hshape : Codec.SameShape v cur) :
    ∃ r, Codec.load defs cur (Codec.dump v) = some (v, r) := by
  have hl := Codec.C13_get_put Fin L defs v cur hv hshape
  cases hl' : Codec.load defs cur (Codec.dump v) with
  | none => rw [hl'] at hl; cases hl
  | some p =>
    obtain ⟨nv, r⟩ := p
    rw [hl'] at hl
    injection hl with hl
    have : nv = v := hl
    subst this
    exact ⟨r, rfl⟩

/-- escaping at most doubles the length (every line break gets one `#`) -/
theorem escNL_length_le : ∀ s : Str, (Codec.escNL s).length ≤ 2 * s.length
  | [] => by simp [Codec.escNL]
  | c :: r => by
    have := escNL_length_le r
    unfold Codec.escNL
    split <;> simp only [List.length_cons] <;> omega

/-- no handle of the list has the name `n` -/
theorem updHandles_fresh (hs : List Handle) (n : Str) (F : Handle → Handle) (x : Handle) (hx : x.name = n)
    (hcl : hs.find? (·.name == n) = none) : updHandles (hs ++ [x]) n F = hs ++ [F x] := by
  unfold updHandles
  rw [List.map_append]
  congr 1
  · have hne := List.find?_eq_none.mp hcl
    conv => rhs; rw [← List.map_id hs]
    apply List.map_congr_left
    intro y hy
    have := hne y hy
    simp only [this, Bool.false_eq_true, if_false, id]
  · simp [hx]

end Pseudo.RecordFileRun
