import PseudoProofs.NoCrashTDefs
/-!
# C01 with enum / pointer types: monotonicity of the value predicate, the stack under updates, the Hoare layer
(the analogue of `NoCrash.lean`; `RO`, `ErrOK`, `ErrNR`, `ReadsIn`, `ActRead` and the path / slot lemmas are reused from there)
-/
namespace Pseudo.NT
open Pseudo
open Pseudo.NC (ReadsIn ActRead ErrOK ErrNR NoCrash RO EOK readsIn_iff mem_updActs updActs_ne_nil errOK_diag errNR_diag errOK_fuel
  errNR_fuel errOK_brk errOK_cont getLast?_mem)

/-! ### kinds -/

theorem SameKind.refl (v : Val) : SameKind v v := Or.inl rfl

theorem SameKind.trans {a b c : Val} (h1 : SameKind a b) (h2 : SameKind b c) : SameKind a c := by
  rcases h1 with rfl | ⟨ha, hb, hty⟩ | ⟨ty, dims, cs, cs', rfl, rfl, hl, hc⟩
  · exact h2
  · rcases h2 with rfl | ⟨_, hc, hty2⟩ | ⟨ty, dims, cs, cs', rfl, _, _, _⟩
    · exact Or.inr (Or.inl ⟨ha, hb, hty⟩)
    · exact Or.inr (Or.inl ⟨ha, hc, hty2.trans hty⟩)
    · simp [Scal] at hb
  · rcases h2 with rfl | ⟨hb, _, _⟩ | ⟨ty2, dims2, cs2, cs2', heq, rfl, hl2, hc2⟩
    · exact Or.inr (Or.inr ⟨ty, dims, cs, cs', rfl, rfl, hl, hc⟩)
    · simp [Scal] at hb
    · cases heq
      exact Or.inr (Or.inr ⟨ty, dims, cs, cs2', rfl, rfl, hl2.trans hl, hc2⟩)

theorem SameKind.scal_ty {v v' : Val} (h : SameKind v v') (hv : Scal v = true) : Scal v' = true ∧ v'.ty = v.ty := by
  rcases h with rfl | ⟨_, hb, hty⟩ | ⟨ty, dims, cs, cs', rfl, _, _, _⟩
  · exact ⟨hv, rfl⟩
  · exact ⟨hb, hty⟩
  · simp [Scal] at hv

theorem SameKind.of_scal {v v' : Val} (hv : Scal v = true) (hv' : Scal v' = true) (h : v'.ty = v.ty) : SameKind v v' :=
  Or.inr (Or.inl ⟨hv, hv', h⟩)

theorem SameKind.of_arr {v v' : Val} {ty : Ty} {dims : List (Int × Int)} {cs cs' : List Val}
    (hv : v = .arr ty dims cs) (hv' : v' = .arr ty dims cs') (hl : cs'.length = cs.length)
    (hc : ∀ c ∈ cs', Scal c = true ∧ c.ty = ty) : SameKind v v' :=
  Or.inr (Or.inr ⟨ty, dims, cs, cs', hv, hv', hl, hc⟩)

/-- an array read back later: same element type and dimensions, same number of cells, scalar cells of the element type -/
theorem SameKind.arr_inv {ty : Ty} {dims : List (Int × Int)} {cs : List Val} {v' : Val}
    (k : SameKind (.arr ty dims cs) v') (hc : ∀ c ∈ cs, Scal c = true ∧ c.ty = ty) :
    ∃ cs', v' = .arr ty dims cs' ∧ cs'.length = cs.length ∧ ∀ c ∈ cs', Scal c = true ∧ c.ty = ty := by
  rcases k with rfl | ⟨ha, _, _⟩ | ⟨ty2, dims2, cs2, cs', heq, rfl, hl2, hc2⟩
  · exact ⟨cs, rfl, rfl, hc⟩
  · simp [Scal] at ha
  · cases heq
    exact ⟨cs', rfl, hl2, hc2⟩

/-! ### definitions only grow -/

theorem find_prefix {γ : Type} {l l' : List (Str × γ)} (h : l <+: l') {n : Str} {x : Str × γ}
    (hx : l.find? (·.1 == n) = some x) : l'.find? (·.1 == n) = some x := by
  obtain ⟨t, rfl⟩ := h
  rw [List.find?_append, hx]; rfl

theorem Live.of_ids {σ σ' : St} (h : σ'.acts.map (fun a => (a.id, a.isFn)) = σ.acts.map (fun a => (a.id, a.isFn)))
    {id : Nat} (hl : Live σ' id) : Live σ id := by
  obtain ⟨a, ha, rfl⟩ := hl
  have : (a.id, a.isFn) ∈ σ'.acts.map (fun a => (a.id, a.isFn)) := List.mem_map.2 ⟨a, ha, rfl⟩
  rw [h] at this
  obtain ⟨b, hb, hbe⟩ := List.mem_map.1 this
  exact ⟨b, hb, (Prod.mk.inj hbe).1⟩

theorem enumLk_ext {σ σ' : St} (h : genums σ <+: genums σ') {n : Str} {vals : List Str} (hl : enumLk σ n = some vals) :
    enumLk σ' n = some vals := by
  unfold enumLk at *
  cases hf : (genums σ).find? (·.1 == n) with
  | none => rw [hf] at hl; cases hl
  | some x => rw [hf] at hl; rw [find_prefix h hf]; exact hl

theorem ptrLk_ext {σ σ' : St} (h : gptrs σ <+: gptrs σ') {n : Str} {tg : Ty} (hl : ptrLk σ n = some tg) :
    ptrLk σ' n = some tg := by
  unfold ptrLk at *
  cases hf : (gptrs σ).find? (·.1 == n) with
  | none => rw [hf] at hl; cases hl
  | some x => rw [hf] at hl; rw [find_prefix h hf]; exact hl

theorem TyWF.ext {σ σ' : St} (he : genums σ <+: genums σ') (hp : gptrs σ <+: gptrs σ') {ty : Ty} (h : TyWF σ ty) : TyWF σ' ty := by
  cases ty <;> try exact h
  · obtain ⟨vals, h1, h2⟩ := h; exact ⟨vals, enumLk_ext he h1, h2⟩
  · obtain ⟨tg, h1⟩ := h; exact ⟨tg, ptrLk_ext hp h1⟩

theorem TgtOK.ext {σ σ' : St} (hE : Ext σ σ') {l : Loc} {tg : Ty} (h : TgtOK σ l tg) : TgtOK σ' l tg := by
  refine ⟨Nat.lt_of_lt_of_le h.1 hE.nextId, fun hl => ?_⟩
  obtain ⟨w, hr, hs, ht⟩ := h.2 (Live.of_ids hE.ids hl)
  obtain ⟨w', hr', k⟩ := hE.reads _ _ hr
  obtain ⟨h1, h2⟩ := k.scal_ty hs
  exact ⟨w', hr', h1, h2.trans ht⟩

theorem ValOK.ext {σ σ' : St} (hE : Ext σ σ') {v : Val} (h : ValOK σ v) : ValOK σ' v := by
  cases v <;> try exact h
  · obtain ⟨vals, h1, h2⟩ := h; exact ⟨vals, enumLk_ext hE.enums h1, h2⟩
  · obtain ⟨tg, h1, h2⟩ := h; exact ⟨tg, ptrLk_ext hE.ptrs h1, fun l hl => (h2 l hl).ext hE⟩

theorem CellOK.ext {σ σ' : St} (hE : Ext σ σ') {ty : Ty} {c : Val} (h : CellOK σ ty c) : CellOK σ' ty c :=
  ⟨h.1, h.2.1, h.2.2.ext hE⟩

theorem ArrOK.ext {σ σ' : St} (hE : Ext σ σ') {ty : Ty} {v : Val} (h : ArrOK σ ty v) : ArrOK σ' ty v := by
  obtain ⟨d, c, h1, h2, h3⟩ := h
  exact ⟨d, c, h1, h2, fun x hx => (h3 x hx).ext hE⟩

/-- values that are fine in `σ` are fine in `σ'` -/
def ValMono (σ σ' : St) : Prop := ∀ v, ValOK σ v → ValOK σ' v

theorem ValMono.of_ext {σ σ' : St} (hE : Ext σ σ') : ValMono σ σ' := fun _ h => h.ext hE

theorem SlotOK.mono {σ σ' : St} (hm : ValMono σ σ') {d : List Act} {s : Slot} (h : SlotOK σ d s) : SlotOK σ' d s := by
  unfold SlotOK at *
  split
  · rename_i hr; rw [hr] at h; exact ⟨h.1, h.2.1, hm _ h.2.2⟩
  · rename_i l hr; rw [hr] at h; exact h

theorem ArrSlotOK.mono {σ σ' : St} (hm : ValMono σ σ') {s : Slot} (h : ArrSlotOK σ s) : ArrSlotOK σ' s := by
  obtain ⟨d, c, h1, h2, h3⟩ := h
  exact ⟨d, c, h1, h2, fun x hx => ⟨(h3 x hx).1, (h3 x hx).2.1, hm _ (h3 x hx).2.2⟩⟩

theorem ActOK.mono {σ σ' : St} (hm : ValMono σ σ') {d : List Act} {a : Act} (h : ActOK σ d a) : ActOK σ' d a :=
  ⟨fun s hs => (h.vars s hs).mono hm, fun s hs => (h.arrs s hs).mono hm, h.enums, h.ptrs, h.comps, h.isComp,
   fun v hv => ⟨(h.retVal v hv).1, hm _ (h.retVal v hv).2⟩⟩

theorem StackOK.mono {σ σ' : St} (hm : ValMono σ σ') : ∀ {acts : List Act}, StackOK σ acts → StackOK σ' acts
  | [], _ => trivial
  | _ :: _, h => ⟨h.1.mono hm, h.2.1, StackOK.mono hm h.2.2⟩

/-! ### `Ext` -/

theorem Ext.refl (σ : St) : Ext σ σ :=
  ⟨rfl, Nat.le_refl _, fun _ v h => ⟨v, h, SameKind.refl v⟩, List.prefix_refl _, List.prefix_refl _⟩

theorem Ext.trans {a b c : St} (h1 : Ext a b) (h2 : Ext b c) : Ext a c :=
  ⟨h2.ids.trans h1.ids, Nat.le_trans h1.nextId h2.nextId, fun l v h => by
    obtain ⟨v1, hr1, k1⟩ := h1.reads l v h
    obtain ⟨v2, hr2, k2⟩ := h2.reads l v1 hr1
    exact ⟨v2, hr2, k1.trans k2⟩, List.IsPrefix.trans h1.enums h2.enums, List.IsPrefix.trans h1.ptrs h2.ptrs⟩

theorem genums_of_acts {σ σ' : St} (ha : σ'.acts = σ.acts) : genums σ' = genums σ := by unfold genums; rw [ha]
theorem gptrs_of_acts {σ σ' : St} (ha : σ'.acts = σ.acts) : gptrs σ' = gptrs σ := by unfold gptrs; rw [ha]

/-- only the parts of the state outside the activation stack changed -/
theorem Ext.of_acts_eq {σ σ' : St} (ha : σ'.acts = σ.acts) (hn : σ'.nextId = σ.nextId) : Ext σ σ' :=
  ⟨by rw [ha], by rw [hn]; exact Nat.le_refl _, fun _ v h => ⟨v, by rw [ha]; exact h, SameKind.refl v⟩,
   by rw [genums_of_acts ha]; exact List.prefix_refl _, by rw [gptrs_of_acts ha]; exact List.prefix_refl _⟩

theorem ValOK.of_acts_eq {σ σ' : St} (ha : σ'.acts = σ.acts) (hn : σ'.nextId = σ.nextId) {v : Val} (h : ValOK σ v) : ValOK σ' v :=
  h.ext (Ext.of_acts_eq ha hn)

theorem TyWF.of_acts_eq {σ σ' : St} (ha : σ'.acts = σ.acts) {ty : Ty} (h : TyWF σ ty) : TyWF σ' ty :=
  h.ext (by rw [genums_of_acts ha]; exact List.prefix_refl _) (by rw [gptrs_of_acts ha]; exact List.prefix_refl _)

theorem GlobOK.of_acts_eq {σ σ' : St} (ha : σ'.acts = σ.acts) (h : GlobOK σ) : GlobOK σ' := by
  refine ⟨?_, ?_⟩
  · rw [genums_of_acts ha]; exact h.enums
  · rw [gptrs_of_acts ha]; exact fun p hp => (h.ptrs p hp).of_acts_eq ha

theorem ParamsOK.ext {σ σ' : St} (hE : Ext σ σ') {ps : List (Str × Ty × Bool)} (h : ParamsOK σ ps) : ParamsOK σ' ps :=
  fun p hp => (h p hp).ext hE.enums hE.ptrs

theorem ProcOK.ext {σ σ' : St} (hE : Ext σ σ') {p : ProcDef} (h : ProcOK σ p) : ProcOK σ' p := ⟨h.1.ext hE, h.2⟩
theorem FunOK.ext {σ σ' : St} (hE : Ext σ σ') {p : FunDef} (h : FunOK σ p) : FunOK σ' p := ⟨h.1.ext hE, h.2⟩

theorem WF.of_acts_eq {σ σ' : St} (h : WF σ) (ha : σ'.acts = σ.acts) (hn : σ'.nextId = σ.nextId)
    (hp : σ'.procs = σ.procs) (hf : σ'.funs = σ.funs) : WF σ' := by
  have hE := Ext.of_acts_eq ha hn
  refine ⟨by rw [ha]; exact h.ne, ?_, by rw [ha, hn]; exact h.below, ?_, ?_, h.glob.of_acts_eq ha⟩
  · rw [ha]; exact h.stack.mono (ValMono.of_ext hE)
  · rw [hp]; exact fun p hp => (h.procs p hp).ext hE
  · rw [hf]; exact fun p hp => (h.funs p hp).ext hE

theorem Ext.length {σ σ' : St} (h : Ext σ σ') : σ'.acts.length = σ.acts.length := by
  have := congrArg List.length h.ids
  simpa using this


theorem SameKind.arrSh {v v' : Val} {ty : Ty} (h : SameKind v v') (hv : ArrSh ty v) : ArrSh ty v' := by
  obtain ⟨dims, cells, rfl, hlen, hc⟩ := hv
  obtain ⟨cs', rfl, hl, hc'⟩ := h.arr_inv hc
  exact ⟨dims, cs', rfl, hl.trans hlen, hc'⟩

theorem HolderOK.ext {σ σ' : St} {h : Holder} (hE : Ext σ σ') (hh : HolderOK σ h) : HolderOK σ' h := by
  obtain ⟨v, hr, hk⟩ := hh
  obtain ⟨v', hr', k⟩ := hE.reads _ _ hr
  refine ⟨v', hr', ?_⟩
  split
  · rename_i harr; rw [if_pos harr] at hk; exact k.arrSh hk
  · rename_i harr; rw [if_neg harr] at hk
    obtain ⟨h1, h2⟩ := k.scal_ty hk.1
    exact ⟨h1, h2.trans hk.2⟩

/-- a readable location holding a scalar of type `ty` -/
def TyLoc (σ : St) (l : Loc) (ty : Ty) : Prop := ∃ v, ReadsIn σ.acts l v ∧ Scal v = true ∧ v.ty = ty

theorem TyLoc.ext {σ σ' : St} {l : Loc} {ty : Ty} (hE : Ext σ σ') (h : TyLoc σ l ty) : TyLoc σ' l ty := by
  obtain ⟨v, hr, hs, ht⟩ := h
  obtain ⟨v', hr', k⟩ := hE.reads _ _ hr
  obtain ⟨h1, h2⟩ := k.scal_ty hs
  exact ⟨v', hr', h1, h2.trans ht⟩

/-- a readable location holding an INTEGER (the FOR iterator) -/
abbrev IntLoc (σ : St) (l : Loc) : Prop := TyLoc σ l .int

theorem IntLoc.ext {σ σ' : St} {l : Loc} (hE : Ext σ σ') (h : IntLoc σ l) : IntLoc σ' l := TyLoc.ext hE h

/-! ### the stack under an update of one activation -/

/-- what an update of an activation must keep: its id and flags, every readable cell with its kind; definitions may grow -/
structure ActKeep (a a' : Act) : Prop where
  id : a'.id = a.id
  isFn : a'.isFn = a.isFn
  reads : ∀ isArr name path v, ActRead a isArr name path v → ∃ v', ActRead a' isArr name path v' ∧ SameKind v v'
  enums : a.enums <+: a'.enums
  ptrs : a.ptrs <+: a'.ptrs

theorem ActKeep.refl (a : Act) : ActKeep a a :=
  ⟨rfl, rfl, fun _ _ _ v h => ⟨v, h, SameKind.refl v⟩, List.prefix_refl _, List.prefix_refl _⟩

/-- reading in the updated stack -/
theorem reads_upd {acts : List Act} {id : Nat} {f : Act → Act} (hk : ∀ a ∈ acts, a.id = id → ActKeep a (f a))
    {l : Loc} {v : Val} (h : ReadsIn acts l v) : ∃ v', ReadsIn (updActs acts id f) l v' ∧ SameKind v v' := by
  induction acts with
  | nil => obtain ⟨a, _, h1, _⟩ := h; simp at h1
  | cons a rest ih =>
    unfold updActs
    by_cases hid : a.id = l.act
    · have hr := (NC.ReadsIn.cons_eq hid).1 h
      split
      · rename_i hupd
        have hk' := hk a List.mem_cons_self (by simpa using hupd)
        obtain ⟨v', hr', k⟩ := hk'.reads _ _ _ _ hr
        exact ⟨v', (NC.ReadsIn.cons_eq (hk'.id.trans hid)).2 hr', k⟩
      · exact ⟨v, (NC.ReadsIn.cons_eq hid).2 hr, SameKind.refl v⟩
    · have hr := (NC.ReadsIn.cons_ne hid).1 h
      split
      · rename_i hupd
        have hk' := hk a List.mem_cons_self (by simpa using hupd)
        exact ⟨v, (NC.ReadsIn.cons_ne (by rw [hk'.id]; exact hid)).2 hr, SameKind.refl v⟩
      · obtain ⟨v', hr', k⟩ := ih (fun b hb => hk b (List.mem_cons_of_mem _ hb)) hr
        exact ⟨v', (NC.ReadsIn.cons_ne hid).2 hr', k⟩

theorem SlotOK.upd {σ : St} {acts : List Act} {id : Nat} {f : Act → Act} (hk : ∀ a ∈ acts, a.id = id → ActKeep a (f a))
    {s : Slot} (h : SlotOK σ acts s) : SlotOK σ (updActs acts id f) s := by
  unfold SlotOK at *
  split
  · rename_i hr; rw [hr] at h; exact h
  · rename_i l hr
    rw [hr] at h
    obtain ⟨hsv, v, hv, hs, ht⟩ := h
    obtain ⟨v', hv', k⟩ := reads_upd hk hv
    obtain ⟨h1, h2⟩ := k.scal_ty hs
    exact ⟨hsv, v', hv', h1, h2.trans ht⟩

theorem ActOK.upd_deeper {σ : St} {acts : List Act} {id : Nat} {f : Act → Act} (hk : ∀ a ∈ acts, a.id = id → ActKeep a (f a))
    {a : Act} (h : ActOK σ acts a) : ActOK σ (updActs acts id f) a :=
  ⟨fun s hs => (h.vars s hs).upd hk, h.arrs, fun hne => h.enums (fun e => hne (by rw [e]; rfl)),
   fun hne => h.ptrs (fun e => hne (by rw [e]; rfl)), h.comps, h.isComp, h.retVal⟩

/-- the stack stays well-formed (for the same `σ`) when one activation is replaced by one that keeps its readable cells and is
    itself well-formed relative to the same callers -/
theorem StackOK.upd {σ : St} {acts : List Act} {id : Nat} {f : Act → Act} (h : StackOK σ acts)
    (hk : ∀ a ∈ acts, a.id = id → ActKeep a (f a))
    (hok : ∀ deeper a, a ∈ acts → a.id = id → ActOK σ deeper a → ActOK σ deeper (f a)) : StackOK σ (updActs acts id f) := by
  induction acts with
  | nil => exact h
  | cons a rest ih =>
    obtain ⟨ha, hd, hrest⟩ := h
    unfold updActs
    split
    · rename_i hupd
      have hid : a.id = id := by simpa using hupd
      refine ⟨hok rest a List.mem_cons_self hid ha, ?_, hrest⟩
      rw [(hk a List.mem_cons_self hid).id]; exact hd
    · have hk' : ∀ b ∈ rest, b.id = id → ActKeep b (f b) := fun b hb => hk b (List.mem_cons_of_mem _ hb)
      refine ⟨ha.upd_deeper hk', ?_, ih hrest hk' (fun d b hb => hok d b (List.mem_cons_of_mem _ hb))⟩
      intro b hb
      rcases mem_updActs hb with hb | ⟨b', hb', _, rfl⟩
      · exact hd b hb
      · rw [(hk' b' hb' ‹_›).id]; exact hd b' hb'

theorem updActs_map_of_keep {acts : List Act} {id : Nat} {f : Act → Act}
    (hk : ∀ a ∈ acts, a.id = id → ActKeep a (f a)) :
    (updActs acts id f).map (fun a => (a.id, a.isFn)) = acts.map (fun a => (a.id, a.isFn)) := by
  induction acts with
  | nil => rfl
  | cons a rest ih =>
    unfold updActs
    split
    · rename_i hupd
      have hk' := hk a List.mem_cons_self (by simpa using hupd)
      simp [hk'.id, hk'.isFn]
    · simp [ih (fun b hb => hk b (List.mem_cons_of_mem _ hb))]

/-- the last activation of the updated stack keeps (a prefix of) its definitions -/
theorem updActs_getLast {acts : List Act} {id : Nat} {f : Act → Act} (hk : ∀ a ∈ acts, a.id = id → ActKeep a (f a)) :
    ∀ g, acts.getLast? = some g → ∃ g', (updActs acts id f).getLast? = some g' ∧ g.enums <+: g'.enums ∧ g.ptrs <+: g'.ptrs := by
  induction acts with
  | nil => intro g h; cases h
  | cons a rest ih =>
    intro g hg
    unfold updActs
    cases rest with
    | nil =>
      simp only [List.getLast?_singleton, Option.some.injEq] at hg
      subst hg
      split
      · rename_i hupd
        have hk' := hk a List.mem_cons_self (by simpa using hupd)
        exact ⟨f a, by simp, hk'.enums, hk'.ptrs⟩
      · exact ⟨a, by simp [updActs], List.prefix_refl _, List.prefix_refl _⟩
    | cons b rest' =>
      have hg' : (b :: rest').getLast? = some g := by simpa [List.getLast?_cons_cons] using hg
      split
      · exact ⟨g, by simpa [List.getLast?_cons_cons] using hg', List.prefix_refl _, List.prefix_refl _⟩
      · obtain ⟨g', h1, h2, h3⟩ := ih (fun c hc => hk c (List.mem_cons_of_mem _ hc)) g hg'
        refine ⟨g', ?_, h2, h3⟩
        have hne : updActs (b :: rest') id f ≠ [] := updActs_ne_nil (by simp)
        cases hu : updActs (b :: rest') id f with
        | nil => exact absurd hu hne
        | cons c cs => rw [hu] at h1; simpa [List.getLast?_cons_cons] using h1

theorem Ext.updSt {σ : St} {id : Nat} {f : Act → Act}
    (hk : ∀ a ∈ σ.acts, a.id = id → ActKeep a (f a)) : Ext σ (updSt σ id f) := by
  refine ⟨updActs_map_of_keep hk, Nat.le_refl _, fun _ _ h => reads_upd hk h, ?_, ?_⟩
  · unfold genums
    cases hg : σ.acts.getLast? with
    | none => exact List.nil_prefix
    | some g =>
      obtain ⟨g', h1, h2, _⟩ := updActs_getLast hk g hg
      show g.enums <+: (match (updActs σ.acts id f).getLast? with | some g => g.enums | none => [])
      rw [h1]; exact h2
  · unfold gptrs
    cases hg : σ.acts.getLast? with
    | none => exact List.nil_prefix
    | some g =>
      obtain ⟨g', h1, _, h3⟩ := updActs_getLast hk g hg
      show g.ptrs <+: (match (updActs σ.acts id f).getLast? with | some g => g.ptrs | none => [])
      rw [h1]; exact h3

/-- `WF` for an update of one activation; the global definitions of the new state are checked separately (`hglob`) -/
theorem WF.updSt {σ : St} {id : Nat} {f : Act → Act} (h : WF σ)
    (hk : ∀ a ∈ σ.acts, a.id = id → ActKeep a (f a))
    (hok : ∀ deeper a, a ∈ σ.acts → a.id = id → ActOK σ deeper a → ActOK σ deeper (f a))
    (hglob : GlobOK (updSt σ id f)) : WF (updSt σ id f) := by
  have hE := Ext.updSt hk
  refine ⟨updActs_ne_nil h.ne, (h.stack.upd hk hok).mono (ValMono.of_ext hE), ?_,
    fun p hp => (h.procs p hp).ext hE, fun p hp => (h.funs p hp).ext hE, hglob⟩
  intro b hb
  rcases mem_updActs hb with hb | ⟨b', hb', hid, rfl⟩
  · exact h.below b hb
  · rw [(hk b' hb' hid).id]; exact h.below b' hb'

theorem getLast_updActs {γ : Type} {id : Nat} {f : Act → Act} (sel : Act → γ) (hd : ∀ a, sel (f a) = sel a) :
    ∀ acts : List Act, (updActs acts id f).getLast?.map sel = acts.getLast?.map sel
  | [] => rfl
  | [a] => by
    unfold updActs
    by_cases h : (a.id == id) = true
    · simp [h, hd]
    · simp [h, updActs]
  | a :: b :: r => by
    have ih := getLast_updActs (id := id) sel hd (b :: r)
    unfold updActs
    by_cases h : (a.id == id) = true
    · simp [h, List.getLast?_cons_cons]
    · have hne : updActs (b :: r) id f ≠ [] := updActs_ne_nil (by simp)
      cases hu : updActs (b :: r) id f with
      | nil => exact absurd hu hne
      | cons c cs =>
        rw [hu] at ih
        simp only [h, Bool.false_eq_true, if_false, List.getLast?_cons_cons]
        exact ih

theorem genums_eq (σ : St) : genums σ = ((σ.acts.getLast?).map (·.enums)).getD [] := by
  unfold genums; cases σ.acts.getLast? <;> rfl
theorem gptrs_eq (σ : St) : gptrs σ = ((σ.acts.getLast?).map (·.ptrs)).getD [] := by
  unfold gptrs; cases σ.acts.getLast? <;> rfl

/-- an update that leaves the definitions alone keeps `GlobOK` -/
theorem GlobOK.upd {σ : St} {id : Nat} {f : Act → Act} (h : GlobOK σ)
    (hk : ∀ a ∈ σ.acts, a.id = id → ActKeep a (f a))
    (hd : ∀ a, (f a).enums = a.enums ∧ (f a).ptrs = a.ptrs) : GlobOK (Pseudo.updSt σ id f) := by
  have hE := Ext.updSt hk
  have hge : genums (Pseudo.updSt σ id f) = genums σ := by
    rw [genums_eq, genums_eq]
    show ((updActs σ.acts id f).getLast?.map (·.enums)).getD [] = _
    rw [getLast_updActs (·.enums) (fun a => (hd a).1)]
  have hgp : gptrs (Pseudo.updSt σ id f) = gptrs σ := by
    rw [gptrs_eq, gptrs_eq]
    show ((updActs σ.acts id f).getLast?.map (·.ptrs)).getD [] = _
    rw [getLast_updActs (·.ptrs) (fun a => (hd a).2)]
  refine ⟨?_, ?_⟩
  · rw [hge]; exact h.enums
  · rw [hgp]; exact fun p hp => (h.ptrs p hp).ext hE.enums hE.ptrs

/-! ### outcomes -/

theorem ErrOK.ext {σ σ' : St} {e : Stop} (hE : Ext σ σ') (h : ErrOK σ e) : ErrOK σ' e := by
  refine ⟨h.1, fun he => ?_⟩
  obtain ⟨a, rest, hacts, hfn⟩ := h.2 he
  have hids := hE.ids
  rw [hacts] at hids
  cases hσ' : σ'.acts with
  | nil => rw [hσ'] at hids; simp at hids
  | cons a' rest' =>
    rw [hσ'] at hids
    simp only [List.map_cons, List.cons.injEq, Prod.mk.injEq] at hids
    exact ⟨a', rest', rfl, hids.1.2.trans hfn⟩

/-- the outcome of `m` from `σ` satisfies `Φ` -/
def Run {α : Type} (m : M α) (σ : St) (Φ : Except Stop α → St → Prop) : Prop := Φ (m.run.run σ).1 (m.run.run σ).2

/-- the standard outcome predicate -/
def ResE {α : Type} (σ0 : St) (Q : α → St → Prop) (E : St → Stop → Prop) (r : Except Stop α) (σ' : St) : Prop :=
  WF σ' ∧ Ext σ0 σ' ∧ match r with | .ok a => Q a σ' | .error e => E σ' e

abbrev Res {α : Type} (σ0 : St) (Q : α → St → Prop) : Except Stop α → St → Prop := ResE σ0 Q ErrOK

/-- Hoare triple over the invariant -/
def Tri {α : Type} (P : St → Prop) (m : M α) (Q : St → α → St → Prop) : Prop :=
  ∀ σ, WF σ → P σ → Run m σ (Res σ (Q σ))

section combinators
variable {α β : Type} {σ0 σ : St} {E : St → Stop → Prop}

theorem Run.pure {a : α} {Q : α → St → Prop} (hW : WF σ) (hE : Ext σ0 σ) (h : Q a σ) :
    Run (Pure.pure a : M α) σ (ResE σ0 Q E) := ⟨hW, hE, h⟩

theorem Run.throw {e : Stop} {Q : α → St → Prop} (hW : WF σ) (hE : Ext σ0 σ) (h : E σ e) :
    Run (throw e : M α) σ (ResE σ0 Q E) := ⟨hW, hE, h⟩

theorem Run.mono {m : M α} {Φ Ψ : Except Stop α → St → Prop} (h : Run m σ Φ) (hi : ∀ r σ', Φ r σ' → Ψ r σ') :
    Run m σ Ψ := hi _ _ h

theorem ResE.weaken {Q Q' : α → St → Prop} {E' : St → Stop → Prop} {r : Except Stop α} {σ' : St}
    (h : ResE σ0 Q E r σ') (hQ : ∀ a, Q a σ' → Q' a σ') (hE : ∀ e, E σ' e → E' σ' e) : ResE σ0 Q' E' r σ' := by
  refine ⟨h.1, h.2.1, ?_⟩
  have := h.2.2
  cases r with
  | ok a => exact hQ a this
  | error e => exact hE e this

/-- sequencing after a state-changing step -/
theorem Run.bind {m : M α} {f : α → M β} {Qa : α → St → Prop} {Qb : β → St → Prop}
    (hE : Ext σ0 σ) (hm : Run m σ (ResE σ Qa E))
    (hk : ∀ a σ', WF σ' → Ext σ σ' → Ext σ0 σ' → Qa a σ' → Run (f a) σ' (ResE σ0 Qb E)) :
    Run (m >>= f) σ (ResE σ0 Qb E) := by
  unfold Run at *
  rcases h : m.run.run σ with ⟨e | a, σ'⟩
  · rw [run_bind_err m f σ σ' e h]
    rw [h] at hm
    exact ⟨hm.1, hE.trans hm.2.1, hm.2.2⟩
  · rw [run_bind_ok m f σ σ' a h]
    rw [h] at hm
    exact hk a σ' hm.1 hm.2.1 (hE.trans hm.2.1) hm.2.2

/-- sequencing after a read-only step -/
theorem Run.bind_ro {m : M α} {f : α → M β} {post : α → Prop} {Qb : β → St → Prop}
    (hW : WF σ) (hE : Ext σ0 σ) (hE' : ∀ e, ErrNR σ e → E σ e) (hm : RO m σ post)
    (hk : ∀ a, post a → Run (f a) σ (ResE σ0 Qb E)) : Run (m >>= f) σ (ResE σ0 Qb E) := by
  unfold Run RO at *
  rcases h : m.run.run σ with ⟨e | a, σ'⟩
  · rw [run_bind_err m f σ σ' e h]
    rw [h] at hm
    obtain ⟨rfl, hm⟩ := hm
    exact ⟨hW, hE, hE' e hm⟩
  · rw [run_bind_ok m f σ σ' a h]
    rw [h] at hm
    obtain ⟨rfl, hm⟩ := hm
    exact hk a hm

/-- a read-only step in tail position -/
theorem Run.of_ro {m : M α} {post : α → Prop} {Q : α → St → Prop}
    (hW : WF σ) (hE : Ext σ0 σ) (hE' : ∀ e, ErrNR σ e → E σ e) (hm : RO m σ post)
    (hk : ∀ a, post a → Q a σ) : Run m σ (ResE σ0 Q E) := by
  unfold Run RO at *
  rcases h : m.run.run σ with ⟨e | a, σ'⟩
  · rw [h] at hm; obtain ⟨rfl, hm⟩ := hm; exact ⟨hW, hE, hE' e hm⟩
  · rw [h] at hm; obtain ⟨rfl, hm⟩ := hm; exact ⟨hW, hE, hk a hm⟩

/-- a state-changing step in tail position -/
theorem Run.of_tri {m : M α} {Qa Q : α → St → Prop} (hE : Ext σ0 σ) (hm : Run m σ (ResE σ Qa E))
    (hk : ∀ a σ', WF σ' → Ext σ σ' → Qa a σ' → Q a σ') : Run m σ (ResE σ0 Q E) := by
  unfold Run at *
  obtain ⟨h1, h2, h3⟩ := hm
  refine ⟨h1, hE.trans h2, ?_⟩
  rcases h : (m.run.run σ).1 with e | a
  · rw [h] at h3; exact h3
  · rw [h] at h3; exact hk a _ h1 h2 h3

theorem Run.get_bind {f : St → M β} {Φ : Except Stop β → St → Prop} (h : Run (f σ) σ Φ) :
    Run ((MonadState.get : M St) >>= f) σ Φ := by
  unfold Run at *
  rw [run_bind_ok _ _ _ _ _ (run_get σ)]
  exact h

theorem Run.get_bind' {f : St → M β} {Φ : Except Stop β → St → Prop} (h : Run (f σ) σ Φ) :
    Run ((get : M St) >>= f) σ Φ := Run.get_bind h

/-- a handler: the body may raise anything in `E'`, the handler turns it into an outcome in `E` -/
theorem Run.tryCatch {m : M α} {hd : Stop → M α} {Q : α → St → Prop} {E' : St → Stop → Prop}
    (hE : Ext σ0 σ) (hm : Run m σ (ResE σ Q E'))
    (hh : ∀ e σ', WF σ' → Ext σ σ' → Ext σ0 σ' → E' σ' e → Run (hd e) σ' (ResE σ0 Q E)) :
    Run (tryCatch m hd) σ (ResE σ0 Q E) := by
  unfold Run at *
  rcases h : m.run.run σ with ⟨e | a, σ'⟩
  · rw [run_tryCatch_err m hd σ σ' e h]
    rw [h] at hm
    exact hh e σ' hm.1 hm.2.1 (hE.trans hm.2.1) hm.2.2
  · rw [run_tryCatch_ok m hd σ σ' a h]
    rw [h] at hm
    exact ⟨hm.1, hE.trans hm.2.1, hm.2.2⟩

theorem Run.ite {c : Prop} [Decidable c] {t e : M α} {Φ : Except Stop α → St → Prop}
    (ht : c → Run t σ Φ) (he : ¬ c → Run e σ Φ) : Run (if c then t else e) σ Φ := by
  split
  · exact ht ‹_›
  · exact he ‹_›

theorem Run.weakenE {m : M α} {Q : α → St → Prop} {E' : St → Stop → Prop} (h : Run m σ (ResE σ0 Q E))
    (hE : ∀ σ' e, E σ' e → E' σ' e) : Run m σ (ResE σ0 Q E') :=
  h.mono fun _ _ hr => hr.weaken (fun _ q => q) (hE _)

theorem Run.weakenQ {m : M α} {Q Q' : α → St → Prop} (h : Run m σ (ResE σ0 Q E))
    (hQ : ∀ a σ', WF σ' → Ext σ0 σ' → Q a σ' → Q' a σ') : Run m σ (ResE σ0 Q' E) := by
  unfold Run at *
  obtain ⟨h1, h2, h3⟩ := h
  refine ⟨h1, h2, ?_⟩
  rcases hr : (m.run.run σ).1 with e | a
  · rw [hr] at h3; exact h3
  · rw [hr] at h3; exact hQ a _ h1 h2 h3

end combinators

end Pseudo.NT
