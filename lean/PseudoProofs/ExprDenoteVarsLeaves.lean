import PseudoProofs.ExprDenoteVars
/-!
# ExprDenoteVarsLeaves — array element and record field leaves (helpers for `Properties/C02Vars.lean`)

* `ArrIs σ a e dims cells` — the name `a` denotes (no variable but) an array of the current, else the global
  activation, whose value is `arr e dims cells`; `run_access_elem` — the element access `a[ie]` on a one-dimensional
  array, `ie` any expression that evaluates (without changing the state) to an in-bounds INTEGER, reads the cell;
* `RecIs σ r ty fs` — the name `r` denotes a plain (not BYREF) variable holding the record `comp ty fs`;
  `run_access_field` — the field access `r.m` on a scalar member reads the member.
-/
set_option linter.unusedSimpArgs false
namespace Pseudo.ExprDenoteVars

open FloatFmt C02Eval ExprDenote

theorem resolveRef_field (f : Nat) (t : Tok) (r : Ref) (m : Tok) :
    resolveRef (f+1) (.field t r m) = (do
      let h ← resolveRef f r
      if h.isArr then rtErr t .typeMismatch
      else
        let v ← readLoc h.loc
        match v with
        | .comp _ fs =>
          match memberKind fs m.val with
          | none => rtErr t .noMember
          | some k =>
            match findField fs m.val k with
            | none => rtErr t .noMember
            | some fv =>
              let ety := match fv with | .arr e _ _ => e | x => x.ty
              pure { loc := { h.loc with path := h.loc.path ++ [.field m.val] }, isArr := k, ty := ety, name := m.val }
        | _ => rtErr t .typeMismatch) := by
  rw [resolveRef.eq_def]; rfl

theorem resolveRef_index (f : Nat) (t : Tok) (r : Ref) (idx : List Expr) :
    resolveRef (f+1) (.index t r idx) = (do
      let h ← resolveRef f r
      if !h.isArr then rtErr t .typeMismatch
      else
        let v ← readLoc h.loc
        match v with
        | .arr e dims _ =>
          if idx.length != dims.length then rtErr t .badIndex
          else
            let is ← evalIndices f idx dims []
            pure { loc := { h.loc with path := h.loc.path ++ [.idx (lin dims is)] }, isArr := false, ty := e, name := h.name }
        | _ => throw (.crash .other)) := by
  rw [resolveRef.eq_def]; rfl

theorem evalIndices_nil (f : Nat) (dims : List (Int × Int)) (acc : List Int) :
    evalIndices (f+1) [] dims acc = pure acc.reverse := by
  rw [evalIndices.eq_def]

theorem evalIndices_cons (f : Nat) (e : Expr) (rest : List Expr) (dims : List (Int × Int)) (acc : List Int) :
    evalIndices (f+1) (e :: rest) dims acc = (do
      let v ← evalExpr f e
      match v, dims with
      | .int i, d :: ds =>
        if !inBounds d i then rtErr e.tok .indexOOB
        else evalIndices f rest ds (i :: acc)
      | .int _, [] => throw (.crash .other)
      | _, _ => rtErr e.tok .badIndex) := by
  rw [evalIndices.eq_def]; rfl

/-- **the name `a` denotes an array** with value `arr e dims cells`: no variable of that name is visible (variables are
    looked up first), the arrays of the current activation, then (from another activation) those of the global one,
    have a slot named `a`, and that slot reads `arr e dims cells` -/
def ArrIs (σ : St) (a : Str) (e : Ty) (dims : List (Int × Int)) (cells : List Val) : Prop :=
  ∃ cur rest g b s, σ.acts = cur :: rest ∧ σ.acts.getLast? = some g ∧ lookupVarIn cur g a = none ∧
    lookupArrIn cur g a = some (b, s) ∧
    readLocV σ { act := b.id, isArr := true, name := s.name, path := [] } = .ok (.arr e dims cells)

/-- **the name `r` denotes a plain (not BYREF) variable holding a record** `comp ty fs` -/
def RecIs (σ : St) (r : Str) (ty : Str) (fs : List (Str × Val)) : Prop :=
  ∃ cur rest g b s, σ.acts = cur :: rest ∧ σ.acts.getLast? = some g ∧ lookupVarIn cur g r = some (b, s) ∧
    s.ref = none ∧ readLocV σ { act := b.id, isArr := false, name := s.name, path := [] } = .ok (.comp ty fs)

/-- reading one step below a root cell -/
theorem readLocV_step (σ : St) (id : Nat) (k : Bool) (n : Str) (v w : Val) (st : Step)
    (h : readLocV σ ⟨id, k, n, []⟩ = .ok v) (hw : getPath v [st] = some w) :
    readLocV σ ⟨id, k, n, [] ++ [st]⟩ = .ok w := by
  unfold readLocV at h ⊢
  cases hf : σ.acts.find? (·.id == id) with
  | none => simp only [hf] at h; cases h
  | some a =>
    simp only [hf] at h ⊢
    have h1 : slotOf a ⟨id, k, n, [] ++ [st]⟩ = slotOf a ⟨id, k, n, []⟩ := rfl
    rw [h1]
    cases hs : slotOf a ⟨id, k, n, []⟩ with
    | none => rw [hs] at h; cases h
    | some s =>
      rw [hs] at h
      simp only [getPath, Except.ok.injEq] at h
      subst h
      simp only [List.nil_append, hw]

/-- **an array element leaf** `a[ie]`: `a` a one-dimensional array, `ie` evaluates with fuel `f+1` to the INTEGER `i`
    without changing the state, `i` within the bounds: with fuel `f+4` the cell; the state is unchanged -/
theorem run_access_elem (σ : St) (t ti ta : Tok) (ie : Expr) (f : Nat) (e : Ty) (lo hi i : Int) (cells : List Val)
    (v : Val) (harr : ArrIs σ ta.val e [(lo, hi)] cells)
    (hie : (evalExpr (f+1) ie).run.run σ = (.ok (.int i), σ))
    (hb : inBounds (lo, hi) i = true) (hv : cells[(i - lo).toNat]? = some v) :
    (evalExpr (f+4) (.access t (.index ti (.var ta) [ie]))).run.run σ = (.ok v, σ) := by
  obtain ⟨cur, rest, g, b, s, hacts, hg, hl, hla, hr⟩ := harr
  have hroot : (resolveRef (f+2) (.var ta)).run.run σ =
      (.ok { loc := { act := b.id, isArr := true, name := s.name, path := [] }, isArr := true, ty := s.ty, name := s.name }, σ) := by
    rw [resolveRef_var, mrun_bind_ok _ _ _ _ _ (mrun_lookupVar σ cur g rest ta.val hacts hg), hl]
    dsimp only
    rw [mrun_bind_ok _ _ _ _ _ (mrun_lookupArr σ cur g rest ta.val hacts hg), hla]
    rfl
  have hidx : (evalIndices (f+2) [ie] [(lo, hi)] []).run.run σ = (.ok [i], σ) := by
    rw [evalIndices_cons, mrun_bind_ok _ _ _ _ _ hie]
    simp only [hb, Bool.not_true, Bool.false_eq_true, if_false]
    rw [evalIndices_nil]
    rfl
  have hrd : (readLoc { act := b.id, isArr := true, name := s.name, path := [] }).run.run σ =
      (.ok (.arr e [(lo, hi)] cells), σ) := by rw [mrun_readLoc, hr]
  let hd : Holder := ⟨⟨b.id, true, s.name, [] ++ [.idx (lin [(lo, hi)] [i])]⟩, false, e, s.name⟩
  have hres : (resolveRef (f+3) (.index ti (.var ta) [ie])).run.run σ = (.ok hd, σ) := by
    rw [resolveRef_index, mrun_bind_ok _ _ _ _ _ hroot]
    simp only [Bool.not_true, Bool.false_eq_true, if_false]
    rw [mrun_bind_ok _ _ _ _ _ hrd]
    simp only [List.length_singleton, bne_self_eq_false, Bool.false_eq_true, if_false]
    rw [mrun_bind_ok _ _ _ _ _ hidx]
    rfl
  have h2 : (resolveRef (f+3) (.index ti (.var ta) [ie]) >>= fun h => (pure (some h) : M (Option Holder))).run.run σ =
      (.ok (some hd), σ) := by
    rw [mrun_bind_ok _ _ _ _ _ hres]; rfl
  rw [evalExpr_access]
  unfold catchNotDefined
  rw [mrun_bind_ok _ _ _ _ _ (mrun_tryCatch_ok _ _ _ _ _ h2)]
  simp only [hd, Bool.false_eq_true, if_false]
  rw [mrun_readLoc]
  have hlin : lin [(lo, hi)] [i] = (i - lo).toNat := by simp [lin]
  rw [readLocV_step σ b.id true s.name _ v _ hr (by simp only [getPath, hlin, hv])]

/-- **a record field leaf** `r.m`: `r` a plain variable holding a record with the scalar member `m`: with fuel `f+3`
    the member's value; the state is unchanged -/
theorem run_access_field (σ : St) (t tf tr m : Tok) (f : Nat) (ty : Str) (fs : List (Str × Val)) (v : Val)
    (hrec : RecIs σ tr.val ty fs) (hk : memberKind fs m.val = some false) (hv : findField fs m.val false = some v) :
    (evalExpr (f+3) (.access t (.field tf (.var tr) m))).run.run σ = (.ok v, σ) := by
  obtain ⟨cur, rest, g, b, s, hacts, hg, hl, href, hr⟩ := hrec
  have hroot : (resolveRef (f+1) (.var tr)).run.run σ =
      (.ok { loc := { act := b.id, isArr := false, name := s.name, path := [] }, isArr := false, ty := s.ty, name := s.name }, σ) := by
    rw [resolveRef_var, mrun_bind_ok _ _ _ _ _ (mrun_lookupVar σ cur g rest tr.val hacts hg), hl]
    dsimp only
    rw [href]
    rfl
  have hrd : (readLoc { act := b.id, isArr := false, name := s.name, path := [] }).run.run σ =
      (.ok (.comp ty fs), σ) := by rw [mrun_readLoc, hr]
  have hres : ∃ hd : Holder, (resolveRef (f+2) (.field tf (.var tr) m)).run.run σ = (.ok hd, σ) ∧ hd.isArr = false ∧
      hd.loc = ⟨b.id, false, s.name, [] ++ [.field m.val]⟩ := by
    rw [resolveRef_field, mrun_bind_ok _ _ _ _ _ hroot]
    simp only [Bool.false_eq_true, if_false]
    rw [mrun_bind_ok _ _ _ _ _ hrd]
    simp only [hk, hv]
    exact ⟨_, rfl, rfl, rfl⟩
  obtain ⟨hd, hres, hdarr, hdloc⟩ := hres
  have h2 : (resolveRef (f+2) (.field tf (.var tr) m) >>= fun h => (pure (some h) : M (Option Holder))).run.run σ =
      (.ok (some hd), σ) := by
    rw [mrun_bind_ok _ _ _ _ _ hres]; rfl
  rw [evalExpr_access]
  unfold catchNotDefined
  rw [mrun_bind_ok _ _ _ _ _ (mrun_tryCatch_ok _ _ _ _ _ h2)]
  simp only [hdarr, Bool.false_eq_true, if_false]
  rw [mrun_readLoc, hdloc]
  rw [readLocV_step σ b.id false s.name _ v _ hr (by simp only [getPath, hk, hv])]

end Pseudo.ExprDenoteVars
