import PseudoProofs.NoCrashPrims
import PseudoProofs.NoCrashPure
/-!
# C01: the statement proved by induction on fuel — one Hoare triple per function of the evaluator's mutual block
-/
namespace Pseudo.NC
open Pseudo

def AllSimple (vs : List Val) : Prop := ∀ v ∈ vs, simple v = true
def CellsOK (ty : Ty) (vs : List Val) : Prop := ∀ c ∈ vs, simple c = true ∧ c.ty = ty
/-- slots that are fit to become the variables of a new activation on top of the stack of `σ` -/
def SlotsOK (σ : St) (ss : List Slot) : Prop := ∀ s ∈ ss, SlotOK σ.acts s

theorem SlotOK.ext {σ σ' : St} {s : Slot} (hE : Ext σ σ') (h : SlotOK σ.acts s) : SlotOK σ'.acts s := by
  unfold SlotOK at *
  split
  · rename_i hr; rw [hr] at h; exact h
  · rename_i l hr
    rw [hr] at h
    obtain ⟨hsv, v, hv, hs, ht⟩ := h
    obtain ⟨v', hv', k⟩ := hE.reads _ _ hv
    obtain ⟨h1, h2⟩ := k.simp_ty hs
    exact ⟨hsv, v', hv', h1, h2.trans ht⟩

theorem SlotsOK.ext {σ σ' : St} {ss : List Slot} (hE : Ext σ σ') (h : SlotsOK σ ss) : SlotsOK σ' ss :=
  fun s hs => (h s hs).ext hE

/-- the trivial precondition / postcondition -/
abbrev PT : St → Prop := fun _ => True
abbrev QT {α : Type} : St → α → St → Prop := fun _ _ _ => True

/-- one triple per function of the mutual block, at fuel `f` -/
structure AllTri (f : Nat) : Prop where
  defaultVal : ∀ t ty, ty.isPrimitive = true →
    Tri PT (defaultVal f t ty) (fun _ v _ => simple v = true ∧ v.ty = ty)
  defaultCells : ∀ t ty n acc, ty.isPrimitive = true → CellsOK ty acc →
    Tri PT (defaultCells f t ty n acc) (fun _ r _ => r.length = acc.length + n ∧ CellsOK ty r)
  evalArgs : ∀ es acc, AllSimple acc →
    Tri PT (evalArgs f es acc) (fun _ r _ => AllSimple r ∧ r.length = acc.length + es.length)
  evalIndices : ∀ es dims acc, es.length = dims.length →
    Tri PT (evalIndices f es dims acc) (fun _ r _ => ∃ is', r = acc.reverse ++ is' ∧ InBoundsAll dims is')
  resolveRef : ∀ r, Tri PT (resolveRef f r) (fun _ h σ' => HolderOK σ' h)
  callFun : ∀ t args, Tri PT (callFun f t args) (fun _ v _ => simple v = true)
  bindParams : ∀ t ps es vs acc, ParamsOK ps → AllSimple vs → es.length = ps.length → vs.length = ps.length →
    Tri (fun σ => SlotsOK σ acc) (bindParams f t ps es vs acc) (fun _ r σ' => SlotsOK σ' r ∧
      ∃ new, r = acc.reverse ++ new ∧
        ((∀ p ∈ ps, p.2.2 = false) → new.map (·.ty) = ps.map (·.2.1) ∧ ∀ s ∈ new, s.ref = none))
  evalExpr : ∀ e, Tri PT (evalExpr f e) (fun _ v _ => simple v = true)
  execAssign : ∀ t r rhs, Tri PT (execAssign f t r rhs) QT
  runBlock : ∀ b, okBlock b = true → Tri PT (runBlock f b) QT
  ifChain : ∀ t bs els, okBranches bs = true → okOpt els = true → Tri PT (ifChain f t bs els) QT
  caseMatch : ∀ v cl, okClause cl = true →
    Tri PT (caseMatch f v cl) (fun _ r _ => ∀ b, r = some b → okBlock b = true)
  caseClauses : ∀ v cls, okClauses cls = true → Tri PT (caseClauses f v cls) QT
  loopBody : ∀ b, okBlock b = true → Tri PT (loopBody f b) QT
  whileLoop : ∀ t c b, okBlock b = true → Tri PT (whileLoop f t c b) QT
  repeatLoop : ∀ t b c, okBlock b = true → Tri PT (repeatLoop f t b c) QT
  forLoop : ∀ t it stop step b, okBlock b = true → Tri (fun σ => IntLoc σ it) (forLoop f t it stop step b) QT
  callProc : ∀ t name args, Tri PT (callProc f t name args) QT
  resolveParams : ∀ ps acc, ParamsOK acc →
    Tri PT (resolveParams f ps acc) (fun _ r _ => ParamsOK r)
  evalBounds : ∀ bs acc, Tri PT (evalBounds f bs acc) QT
  declareVars : ∀ t ids ty, Tri PT (declareVars f t ids ty) QT
  declareArrs : ∀ t ids ty dims, Tri PT (declareArrs f t ids ty dims) QT
  outputAll : ∀ es, Tri PT (outputAll f es) QT
  fileName : ∀ t e, Tri PT (fileName f t e) QT
  execStmt : ∀ s, okStmt s = true → Tri PT (execStmt f s) (fun _ v _ => simple v = true)

/-- fuel exhausted: not a crash point -/
theorem tri_fuel {α : Type} {P : St → Prop} {Q : St → α → St → Prop} : Tri P (throw .outOfFuel : M α) Q :=
  fun σ hW _ => Run.throw hW (Ext.refl σ) (errOK_fuel σ)

theorem AllTri.zero : AllTri 0 where
  defaultVal _ _ _ := by rw [Pseudo.defaultVal.eq_def]; exact tri_fuel
  defaultCells _ _ _ _ _ _ := by rw [Pseudo.defaultCells.eq_def]; exact tri_fuel
  evalArgs _ _ _ := by rw [Pseudo.evalArgs.eq_def]; exact tri_fuel
  evalIndices _ _ _ _ := by rw [Pseudo.evalIndices.eq_def]; exact tri_fuel
  resolveRef _ := by rw [Pseudo.resolveRef.eq_def]; exact tri_fuel
  callFun _ _ := by rw [Pseudo.callFun.eq_def]; exact tri_fuel
  bindParams _ _ _ _ _ _ _ _ _ := by rw [Pseudo.bindParams.eq_def]; exact tri_fuel
  evalExpr _ := by rw [Pseudo.evalExpr.eq_def]; exact tri_fuel
  execAssign _ _ _ := by rw [Pseudo.execAssign.eq_def]; exact tri_fuel
  runBlock _ _ := by rw [Pseudo.runBlock.eq_def]; exact tri_fuel
  ifChain _ _ _ _ _ := by rw [Pseudo.ifChain.eq_def]; exact tri_fuel
  caseMatch _ _ _ := by rw [Pseudo.caseMatch.eq_def]; exact tri_fuel
  caseClauses _ _ _ := by rw [Pseudo.caseClauses.eq_def]; exact tri_fuel
  loopBody _ _ := by rw [Pseudo.loopBody.eq_def]; exact tri_fuel
  whileLoop _ _ _ _ := by rw [Pseudo.whileLoop.eq_def]; exact tri_fuel
  repeatLoop _ _ _ _ := by rw [Pseudo.repeatLoop.eq_def]; exact tri_fuel
  forLoop _ _ _ _ _ _ := by rw [Pseudo.forLoop.eq_def]; exact tri_fuel
  callProc _ _ _ := by rw [Pseudo.callProc.eq_def]; exact tri_fuel
  resolveParams _ _ _ := by rw [Pseudo.resolveParams.eq_def]; exact tri_fuel
  evalBounds _ _ := by rw [Pseudo.evalBounds.eq_def]; exact tri_fuel
  declareVars _ _ _ := by rw [Pseudo.declareVars.eq_def]; exact tri_fuel
  declareArrs _ _ _ _ := by rw [Pseudo.declareArrs.eq_def]; exact tri_fuel
  outputAll _ := by rw [Pseudo.outputAll.eq_def]; exact tri_fuel
  fileName _ _ := by rw [Pseudo.fileName.eq_def]; exact tri_fuel
  execStmt _ _ := by rw [Pseudo.execStmt.eq_def]; exact tri_fuel


/-! ### helpers for the step lemmas -/

set_option linter.unusedSectionVars false

section helpers
variable {α β : Type} {σ0 σ : St} {E : St → Stop → Prop} [EOK E]

/-- a read-only step followed by a continuation -/
theorem Run.ro {m : M α} {k : α → M β} {post : α → Prop} {Qb : β → St → Prop}
    (hW : WF σ) (hE : Ext σ0 σ) (hm : RO m σ post) (hk : ∀ a, post a → Run (k a) σ (ResE σ0 Qb E)) :
    Run (m >>= k) σ (ResE σ0 Qb E) := Run.bind_ro hW hE (EOK.of_nr σ) hm hk

/-- a read-only step in tail position -/
theorem Run.ro_tail {m : M α} {post : α → Prop} {Q : α → St → Prop}
    (hW : WF σ) (hE : Ext σ0 σ) (hm : RO m σ post) (hk : ∀ a, post a → Q a σ) : Run m σ (ResE σ0 Q E) :=
  Run.of_ro hW hE (EOK.of_nr σ) hm hk

theorem Run.rtErr {Q : α → St → Prop} (hW : WF σ) (hE : Ext σ0 σ) (t : Tok) (m : Msg) :
    Run (rtErr t m : M α) σ (ResE σ0 Q E) :=
  Run.ro_tail hW hE (ro_rtErr t m (fun _ => False)) (fun _ h => h.elim)

theorem Run.rtErr0 {Q : α → St → Prop} (hW : WF σ) (hE : Ext σ0 σ) (m : Msg) :
    Run (rtErr0 m : M α) σ (ResE σ0 Q E) :=
  Run.ro_tail hW hE (ro_rtErr0 m (fun _ => False)) (fun _ h => h.elim)

theorem Run.pedErr {Q : α → St → Prop} (hW : WF σ) (hE : Ext σ0 σ) (t : Tok) (m : Msg) :
    Run (pedErr t m : M α) σ (ResE σ0 Q E) :=
  Run.ro_tail hW hE (ro_pedErr t m (fun _ => False)) (fun _ h => h.elim)

theorem Run.throw_diag {Q : α → St → Prop} (hW : WF σ) (hE : Ext σ0 σ) (d : Diag) :
    Run (MonadExcept.throw (Stop.diag d) : M α) σ (ResE σ0 Q E) := Run.throw hW hE (EOK.of_nr _ _ (errNR_diag _ d))

/-- `catchNotDefined`: body and handler with the same postconditions -/
theorem Run.catchND {m : M α} {h : Stop → M α} {Q : α → St → Prop}
    (hE : Ext σ0 σ) (hm : Run m σ (ResE σ Q E))
    (hh : ∀ e σ', WF σ' → Ext σ σ' → Ext σ0 σ' → E σ' e → Run (h e) σ' (ResE σ0 Q E)) :
    Run (catchNotDefined m h) σ (ResE σ0 Q E) := by
  unfold catchNotDefined
  refine Run.tryCatch hE hm fun e σ' hW' hE' hE0' he => ?_
  cases e with
  | diag d =>
    dsimp only
    split
    · refine Run.get_bind ?_
      split
      · exact hh _ σ' hW' hE' hE0' he
      · exact Run.throw hW' hE0' he
    · exact Run.throw hW' hE0' he
  | _ => exact Run.throw hW' hE0' he

theorem run_replEcho (hW : WF σ) {v : Val} (hv : simple v = true) :
    Run (replEcho v) σ (ResE σ (fun _ _ => True) E) := by
  unfold replEcho
  cases v <;> try (simp [simple] at hv)
  all_goals first
    | exact Run.pure hW (Ext.refl σ) trivial
    | exact run_emit hW _
    | (dsimp only
       refine Run.ro hW (Ext.refl σ) (ro_outputText (by rfl)) fun o _ => ?_
       cases o with
       | none => exact Run.pure hW (Ext.refl σ) trivial
       | some s => exact run_emit hW _)

end helpers

/-! ### name lookup -/

theorem lookupVarIn_some {a g b : Act} {n : Str} {s : Slot} (h : lookupVarIn a g n = some (b, s)) :
    (b = a ∨ b = g) ∧ findSlot b.vars n = some s := by
  unfold lookupVarIn at h
  split at h
  · rename_i s' hs'; cases h; exact ⟨Or.inl rfl, hs'⟩
  · split at h
    · cases h
    · cases hg : findSlot g.vars n with
      | none => rw [hg] at h; cases h
      | some s' => rw [hg] at h; cases h; exact ⟨Or.inr rfl, hg⟩

theorem lookupArrIn_some {a g b : Act} {n : Str} {s : Slot} (h : lookupArrIn a g n = some (b, s)) :
    (b = a ∨ b = g) ∧ findSlot b.arrs n = some s := by
  unfold lookupArrIn at h
  split at h
  · rename_i s' hs'; cases h; exact ⟨Or.inl rfl, hs'⟩
  · split at h
    · cases h
    · cases hg : findSlot g.arrs n with
      | none => rw [hg] at h; cases h
      | some s' => rw [hg] at h; cases h; exact ⟨Or.inr rfl, hg⟩

theorem lookupVarIn_none {a g : Act} {n : Str} (h : lookupVarIn a g n = none) : findSlot a.vars n = none := by
  unfold lookupVarIn at h
  split at h
  · cases h
  · assumption

theorem StackOK.find_mem {acts : List Act} {b : Act} (h : StackOK acts) (hb : b ∈ acts) :
    acts.find? (·.id == b.id) = some b := by
  induction acts with
  | nil => cases hb
  | cons c rest ih =>
    rcases List.mem_cons.1 hb with rfl | hb
    · simp [List.find?]
    · have : (c.id == b.id) = false := by
        have := h.2.1 b hb
        simpa using fun e => this e.symm
      rw [List.find?, this]
      exact ih h.2.2 hb

/-- the target of an alias slot of any activation of a well-formed stack is readable in the whole stack -/
theorem StackOK.alias_reads {acts : List Act} {b : Act} {s : Slot} {l : Loc} (h : StackOK acts) (hb : b ∈ acts)
    (hs : s ∈ b.vars) (hr : s.ref = some l) : ∃ v, ReadsIn acts l v ∧ simple v = true ∧ v.ty = s.ty := by
  induction acts with
  | nil => cases hb
  | cons c rest ih =>
    rcases List.mem_cons.1 hb with rfl | hb
    · have := h.1.vars s hs
      unfold SlotOK at this; rw [hr] at this
      obtain ⟨_, v, hv, h1, h2⟩ := this
      exact ⟨v, hv.weaken h.2.1, h1, h2⟩
    · obtain ⟨v, hv, h1, h2⟩ := ih h.2.2 hb
      exact ⟨v, hv.weaken h.2.1, h1, h2⟩

/-- the location that a variable name denotes (`resolveRef (.var _)`, FOR, READFILE, GETRECORD, PUTRECORD):
    readable, and holds a scalar of the slot's declared type -/
theorem var_tyloc {σ : St} (hW : WF σ) {b : Act} (hb : b ∈ σ.acts) {n : Str} {s : Slot}
    (hs : findSlot b.vars n = some s) :
    TyLoc σ (match s.ref with | some l => l | none => { act := b.id, isArr := false, name := s.name, path := [] }) s.ty := by
  have hsm := findSlot_mem hs
  cases hr : s.ref with
  | some l => exact StackOK.alias_reads hW.stack hb hsm hr
  | none =>
    dsimp only
    obtain ⟨d, hd⟩ := hW.memOK hb
    have hso := hd.vars s hsm
    unfold SlotOK at hso; rw [hr] at hso
    refine ⟨s.val, ⟨b, s, hW.stack.find_mem hb, ?_, getPath_nil _⟩, hso.1, hso.2⟩
    unfold slotOf
    simp only [Bool.false_eq_true, if_false]
    rw [findSlot_name hs]; exact hs

/-- the location that an array name denotes: readable, holds a well-formed array of the slot's element type -/
theorem arr_holder {σ : St} (hW : WF σ) {b : Act} (hb : b ∈ σ.acts) {n : Str} {s : Slot}
    (hs : findSlot b.arrs n = some s) :
    ReadsIn σ.acts { act := b.id, isArr := true, name := s.name, path := [] } s.val ∧ ArrOK s.ty s.val := by
  have hsm := findSlot_mem hs
  obtain ⟨d, hd⟩ := hW.memOK hb
  refine ⟨⟨b, s, hW.stack.find_mem hb, ?_, getPath_nil _⟩, (hd.arrs s hsm).2⟩
  unfold slotOf
  simp only [if_true]
  rw [findSlot_name hs]; exact hs

theorem top_mem {σ : St} {a : Act} {rest : List Act} (h : σ.acts = a :: rest) : a ∈ σ.acts := by
  rw [h]; exact List.mem_cons_self

theorem simple_ty_not_ptr {v : Val} (h : simple v = true) (n : Str) : v.ty ≠ .ptr n := by
  cases v <;> simp [simple, Val.ty] at h ⊢

theorem simple_not_comp {v : Val} (h : simple v = true) (n : Str) (fs : List (Str × Val)) : v ≠ .comp n fs := by
  rintro rfl; simp [simple] at h

theorem simple_not_ptr {v : Val} (h : simple v = true) (n : Str) (t : Option Loc) : v ≠ .ptr n t := by
  rintro rfl; simp [simple] at h

/-- an array read back after some evaluation: same element type and dimensions, well-formed -/
theorem SameKind.arr_inv {ty : Ty} {dims : List (Int × Int)} {cs : List Val} {v' : Val}
    (k : SameKind (.arr ty dims cs) v') (hl : cs.length = totalCells dims) (hc : CellsOK ty cs) :
    ∃ cs', v' = .arr ty dims cs' ∧ cs'.length = totalCells dims ∧ CellsOK ty cs' := by
  rcases k with rfl | ⟨ha, _, _⟩ | ⟨ty2, dims2, cs2, cs', heq, rfl, hl2, hc2⟩
  · exact ⟨cs, rfl, hl, hc⟩
  · simp [simple] at ha
  · cases heq
    exact ⟨cs', rfl, hl2.trans hl, hc2⟩

theorem getPath_append {x y : Val} {p : List Step} (q : List Step) (h : getPath x p = some y) :
    getPath x (p ++ q) = getPath y q := by
  induction p generalizing x with
  | nil => rw [getPath_nil] at h; cases h; rfl
  | cons st p ih =>
    rw [getPath.eq_def] at h
    rw [List.cons_append, getPath.eq_def]
    split at h
    · rename_i heq; cases heq
    · rename_i ty fs n rest hx hp
      cases hp
      dsimp only
      split at h
      · split at h
        · exact ih h
        · cases h
      · cases h
    · rename_i e d cells i rest hx hp
      cases hp
      dsimp only
      split at h
      · exact ih h
      · cases h
    · cases h

end Pseudo.NC
