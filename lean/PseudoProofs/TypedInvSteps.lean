import PseudoProofs.TypedInvBase
/-!
# Typed store (C05): `AllW` and the step lemmas of the functions of the mutual block (all but `execStmt`)

`AllW f`: one field per function of the mutual block at fuel `f`. Value postconditions: `resolveRef` returns a
`HolderOK` holder, `defaultVal t ty` a value of type `ty`, `bindParams` a list of `SlotOK` slots (given such an
accumulator); everything else only needs `Inv` / `Ext`.
-/
namespace Pseudo
namespace TypedInv
open C05

/-! ### the induction -/

abbrev HolderPost : Holder → St → Prop := fun h σ' => HolderOK σ' h
abbrev SlotsPost : List Slot → St → Prop := fun ss σ' => SlotsOK σ' ss
abbrev TyPost (ty : Ty) : Val → St → Prop := fun v _ => v.ty = ty

structure AllW (f : Nat) : Prop where
  defaultVal : ∀ t ty σ, Inv σ → EnsAt σ (defaultVal f t ty) (TyPost ty)
  defaultCells : ∀ t ty n acc σ, Inv σ → EnsAt σ (defaultCells f t ty n acc) T
  evalArgs : ∀ es acc σ, Inv σ → EnsAt σ (evalArgs f es acc) T
  evalIndices : ∀ es dims acc σ, Inv σ → EnsAt σ (evalIndices f es dims acc) T
  resolveRef : ∀ r σ, Inv σ → EnsAt σ (resolveRef f r) HolderPost
  callFun : ∀ t args σ, Inv σ → EnsAt σ (callFun f t args) T
  bindParams : ∀ t ps es vs acc σ, Inv σ → SlotsOK σ acc → EnsAt σ (bindParams f t ps es vs acc) SlotsPost
  evalExpr : ∀ e σ, Inv σ → EnsAt σ (evalExpr f e) T
  execAssign : ∀ t r rhs σ, Inv σ → EnsAt σ (execAssign f t r rhs) T
  runBlock : ∀ b σ, Inv σ → EnsAt σ (runBlock f b) T
  ifChain : ∀ t bs els σ, Inv σ → EnsAt σ (ifChain f t bs els) T
  caseMatch : ∀ v cl σ, Inv σ → EnsAt σ (caseMatch f v cl) T
  caseClauses : ∀ v cls σ, Inv σ → EnsAt σ (caseClauses f v cls) T
  loopBody : ∀ b σ, Inv σ → EnsAt σ (loopBody f b) T
  whileLoop : ∀ t c b σ, Inv σ → EnsAt σ (whileLoop f t c b) T
  repeatLoop : ∀ t b c σ, Inv σ → EnsAt σ (repeatLoop f t b c) T
  forLoop : ∀ t it stop step b σ, Inv σ → EnsAt σ (forLoop f t it stop step b) T
  callProc : ∀ t name args σ, Inv σ → EnsAt σ (callProc f t name args) T
  resolveParams : ∀ ps acc σ, Inv σ → EnsAt σ (resolveParams f ps acc) T
  evalBounds : ∀ bs acc σ, Inv σ → EnsAt σ (evalBounds f bs acc) T
  declareVars : ∀ t ids ty σ, Inv σ → EnsAt σ (declareVars f t ids ty) T
  declareArrs : ∀ t ids ty dims σ, Inv σ → EnsAt σ (declareArrs f t ids ty dims) T
  outputAll : ∀ es σ, Inv σ → EnsAt σ (outputAll f es) T
  fileName : ∀ t e σ, Inv σ → EnsAt σ (fileName f t e) T
  execStmt : ∀ s σ, Inv σ → EnsAt σ (execStmt f s) T

set_option hygiene false in
macro_rules | `(tactic| wt_ih) => `(tactic| first
  | exact (ih.evalExpr _ _ (by assumption))
  | exact (ih.resolveRef _ _ (by assumption)).triv
  | exact (ih.evalArgs _ _ _ (by assumption))
  | exact (ih.evalIndices _ _ _ _ (by assumption))
  | exact (ih.callFun _ _ _ (by assumption))
  | exact (ih.execAssign _ _ _ _ (by assumption))
  | exact (ih.runBlock _ _ (by assumption))
  | exact (ih.ifChain _ _ _ _ (by assumption))
  | exact (ih.caseMatch _ _ _ (by assumption))
  | exact (ih.caseClauses _ _ _ (by assumption))
  | exact (ih.loopBody _ _ (by assumption))
  | exact (ih.whileLoop _ _ _ _ (by assumption))
  | exact (ih.repeatLoop _ _ _ _ (by assumption))
  | exact (ih.forLoop _ _ _ _ _ _ (by assumption))
  | exact (ih.callProc _ _ _ _ (by assumption))
  | exact (ih.resolveParams _ _ _ (by assumption))
  | exact (ih.evalBounds _ _ _ (by assumption))
  | exact (ih.declareVars _ _ _ _ (by assumption))
  | exact (ih.declareArrs _ _ _ _ _ (by assumption))
  | exact (ih.outputAll _ _ (by assumption))
  | exact (ih.fileName _ _ _ (by assumption))
  | exact (ih.execStmt _ _ (by assumption))
  | exact (ih.defaultVal _ _ _ (by assumption)).triv
  | exact (ih.defaultCells _ _ _ _ _ (by assumption)))

/-! ### holders -/

theorem HolderOK.of_nonroot {σ : St} {h : Holder} (hn : h.loc.isArr = true ∨ h.loc.path ≠ []) : HolderOK σ h :=
  ⟨fun _ => hn, fun h1 h2 => by
    rcases hn with hn | hn
    · rw [h1] at hn; cases hn
    · exact absurd h2 hn⟩

theorem holder_ref {σ : St} (hi : Inv σ) {n nm : Str} {a : Act} {s : Slot} {l : Loc}
    (hl : ((lookupVar n).run.run σ).1 = .ok (some (a, s))) (hr : s.ref = some l) :
    HolderOK σ { loc := l, isArr := false, ty := s.ty, name := nm } := by
  obtain ⟨ha, hs⟩ := lookupVar_some hl
  exact ⟨(fun h => by cases h), (hi.slots a ha s (List.mem_of_find?_eq_some hs)).2 l hr⟩

theorem holder_plain {σ : St} (hi : Inv σ) {n nm : Str} {a : Act} {s : Slot}
    (hl : ((lookupVar n).run.run σ).1 = .ok (some (a, s))) :
    HolderOK σ { loc := { act := a.id, isArr := false, name := s.name, path := [] }, isArr := false, ty := s.ty, name := nm } := by
  obtain ⟨ha, hs⟩ := lookupVar_some hl
  exact ⟨(fun h => by cases h), LocOK.of_slot hi ha hs⟩

theorem holder_read {σ : St} (hi : Inv σ) {l : Loc} {nm : Str} {v : Val}
    (hr : ((readLoc l).run.run σ).1 = .ok v) :
    HolderOK σ { loc := l, isArr := false, ty := v.ty, name := nm } :=
  ⟨(fun h => by cases h), LocOK.of_read hi (readLoc_run_ok hr)⟩

/-- close the goals `pure holder` left by the search -/
macro "wt_holder" : tactic => `(tactic| first
  | exact EnsAt.pure (by assumption) (holder_ref (by assumption) (by assumption) (by assumption))
  | exact EnsAt.pure (by assumption) (holder_plain (by assumption) (by assumption))
  | exact EnsAt.pure (by assumption) (holder_read (by assumption) (by assumption))
  | exact EnsAt.pure (by assumption) (HolderOK.of_nonroot (Or.inl rfl))
  | exact EnsAt.pure (by assumption) (HolderOK.of_nonroot (Or.inr (by simp))))

set_option hygiene false in
macro_rules | `(tactic| wt_ihb) => `(tactic| first
  | refine EnsAt.bind (ih.defaultVal _ _ _ (by assumption)) ?_
  | refine EnsAt.bind (ih.resolveRef _ _ (by assumption)) ?_
  | refine EnsAt.bind (EnsAt.target (ih.resolveRef _ _ (by assumption)) ?_) ?_
  | refine EnsAt.bind (ih.bindParams _ _ _ _ _ _ (by assumption) (SlotsOK.nil _)) ?_
  | exact EnsAt.pure (by assumption) rfl)

theorem EnsAt.pedErr {α : Type} {σ : St} {P : α → St → Prop} (t : Tok) (m : Msg) (hi : Inv σ) :
    EnsAt σ (Pseudo.pedErr t m : M α) P := by
  unfold Pseudo.pedErr; exact EnsAt.throw hi
macro_rules | `(tactic| wt_lib) => `(tactic| exact EnsAt.pedErr _ _ (by assumption))

theorem defaultPrim_ty (ty : Ty) (h : ∀ n, ty = Ty.comp n → False) : (defaultPrim ty).ty = ty := by
  cases ty <;> first | rfl | exact (h _ rfl).elim

theorem load_ty (defs : Codec.Defs) (cur nv : Val) (s rest : Str) (h : Codec.load defs cur s = some (nv, rest)) :
    nv.ty = cur.ty := by
  cases cur <;> simp only [Codec.load, bind, Option.bind, pure] at h
  all_goals (repeat' (first | split at h | dsimp only at h))
  all_goals first | (cases h; done) | (cases h; rfl) | skip

theorem run_addVar (s : Slot) (σ : St) (cur : Act) (rest : List Act) (hacts : σ.acts = cur :: rest) :
    (addVar s).run.run σ = (.ok ⟨⟩, { σ with acts := { cur with vars := cur.vars ++ [s] } :: rest }) := by
  unfold addVar modifyCur
  have h1 : curAct.run.run σ = (.ok cur, σ) := by rw [run_curAct, hacts]
  rw [run_bind_ok _ _ _ _ _ h1, run_modifyAct]
  unfold updSt
  rw [hacts]
  simp [updActs]

/-- create a variable that `lookupVar` did not find, then locate it through the current activation -/
theorem EnsAt.fresh {β : Type} {σ : St} {Q : β → St → Prop} (s : Slot) (hs : SlotOK σ s) (hi : Inv σ)
    (hnone : ((lookupVar s.name).run.run σ).1 = .ok none) (k : Act → M β)
    (hk : ∀ σ' a, Inv σ' → Ext σ σ' → a ∈ σ'.acts → findSlot a.vars s.name = some s → EnsAt σ' (k a) Q) :
    EnsAt σ (Pseudo.addVar s >>= fun _ => Pseudo.curAct >>= fun a => k a) Q := by
  cases hacts : σ.acts with
  | nil =>
    refine EnsAt.bind_triv (EnsAt.addVar s hi hs) fun _ σ1 h1 he => ?_
    refine EnsAt.bind_ro RO.curAct h1 fun a ha => ?_
    exfalso
    have hids := he.ids
    rw [hacts] at hids
    have : σ1.acts = [] := by simpa using hids
    rw [run_curAct, this] at ha
    cases ha
  | cons cur rest =>
    have hrun := run_addVar s σ cur rest hacts
    have hA := EnsAt.addVar s hi hs
    refine EnsAt.bind (P := fun _ σ1 => σ1 = { σ with acts := { cur with vars := cur.vars ++ [s] } :: rest })
      ⟨hA.inv, hA.ext, fun _ _ => by rw [hrun]⟩ fun _ σ1 h1 he hp => ?_
    subst hp
    refine EnsAt.bind_ro RO.curAct h1 fun a ha => ?_
    rw [run_curAct] at ha
    dsimp only at ha
    injection ha with ha
    subst ha
    refine hk _ _ h1 he (by simp) ?_
    have hn := lookupVar_none hnone cur rest hacts
    show findSlot (cur.vars ++ [s]) s.name = some s
    unfold findSlot at hn ⊢
    rw [List.find?_append, hn]
    simp

macro "wt_stmt" : tactic => `(tactic| (rw [execStmt.eq_def]; dsimp only; wt_auto))

theorem inputConvert_ty {ty : Ty} {line : Str} {v : Val} (h : inputConvert ty line = some v) : v.ty = ty := by
  cases ty <;> simp only [inputConvert] at h <;> first | (cases h; rfl) | cases h

theorem locOK_ref {σ : St} (hi : Inv σ) {n : Str} {a : Act} {s : Slot} {l : Loc}
    (hl : ((lookupVar n).run.run σ).1 = .ok (some (a, s))) (hr : s.ref = some l) : LocOK σ l s.ty :=
  (holder_ref (nm := []) hi hl hr).2

theorem locOK_plain {σ : St} (hi : Inv σ) {n : Str} {a : Act} {s : Slot}
    (hl : ((lookupVar n).run.run σ).1 = .ok (some (a, s))) :
    LocOK σ { act := a.id, isArr := false, name := s.name, path := [] } s.ty :=
  (holder_plain (nm := []) hi hl).2

theorem LocOK.of_slot' {σ : St} (hi : Inv σ) {a : Act} (ha : a ∈ σ.acts) {n : Str} {s : Slot}
    (hs : findSlot a.vars n = some s) : LocOK σ { act := a.id, isArr := false, name := n, path := [] } s.ty := by
  have := LocOK.of_slot hi ha hs
  rw [findSlot_name hs] at this
  exact this

theorem LocOK.cast {σ : St} {l : Loc} {ty ty' : Ty} (h : LocOK σ l ty) (e : ty = ty') : LocOK σ l ty' := e ▸ h

macro_rules | `(tactic| wt_bind) => `(tactic|
  refine EnsAt.fresh _ (SlotOK.plain rfl (by with_unfolding_all rfl)) (by assumption) (by assumption) _ ?_)

/-- equality of a declared type and the type of the value to be stored, from a check in the context -/
macro "wt_tyeq" : tactic => `(tactic| first
  | rfl
  | assumption
  | exact ty_of_not_bne (by assumption)
  | exact (ty_of_not_bne (by assumption)).symm
  | exact (inputConvert_ty (by assumption)).symm)

/-- the `LocOK` fact for the target of a store, from the facts in the context -/
syntax "wt_locok" : tactic
macro_rules | `(tactic| wt_locok) => `(tactic| first
  | exact LocOK.cast (by assumption) (by wt_tyeq)
  | exact LocOK.cast (locOK_ref (by assumption) (by assumption) (by assumption)) (by wt_tyeq)
  | exact LocOK.cast (locOK_plain (by assumption) (by assumption)) (by wt_tyeq)
  | exact LocOK.cast (LocOK.of_slot' (by assumption) (by assumption) (by assumption)) (by wt_tyeq)
  | exact LocOK.cast ((by assumption : TargetPost _ _) _ rfl).2 (by wt_tyeq)
  | exact LocOK.cast (by assumption : HolderPost _ _).2 (by wt_tyeq)
  | (refine LocOK.mono (by assumption) ?_; wt_locok))

/-- close a `writeLoc` goal left by the search -/
macro "wt_store" : tactic => `(tactic| exact EnsAt.writeLoc_of_locOK _ _ (by assumption) (by wt_locok) rfl)

section induction
variable {f : Nat}

theorem AllW.zero : AllW 0 where
  defaultVal _ _ _ _ := by rw [Pseudo.defaultVal.eq_def]; dsimp only; wt_auto
  defaultCells _ _ _ _ _ _ := by rw [Pseudo.defaultCells.eq_def]; dsimp only; wt_auto
  evalArgs _ _ _ _ := by rw [Pseudo.evalArgs.eq_def]; dsimp only; wt_auto
  evalIndices _ _ _ _ _ := by rw [Pseudo.evalIndices.eq_def]; dsimp only; wt_auto
  resolveRef _ _ _ := by rw [Pseudo.resolveRef.eq_def]; dsimp only; wt_auto
  callFun _ _ _ _ := by rw [Pseudo.callFun.eq_def]; dsimp only; wt_auto
  bindParams _ _ _ _ _ _ _ _ := by rw [Pseudo.bindParams.eq_def]; dsimp only; wt_auto
  evalExpr _ _ _ := by rw [Pseudo.evalExpr.eq_def]; dsimp only; wt_auto
  execAssign _ _ _ _ _ := by rw [Pseudo.execAssign.eq_def]; dsimp only; wt_auto
  runBlock _ _ _ := by rw [Pseudo.runBlock.eq_def]; dsimp only; wt_auto
  ifChain _ _ _ _ _ := by rw [Pseudo.ifChain.eq_def]; dsimp only; wt_auto
  caseMatch _ _ _ _ := by rw [Pseudo.caseMatch.eq_def]; dsimp only; wt_auto
  caseClauses _ _ _ _ := by rw [Pseudo.caseClauses.eq_def]; dsimp only; wt_auto
  loopBody _ _ _ := by rw [Pseudo.loopBody.eq_def]; dsimp only; wt_auto
  whileLoop _ _ _ _ _ := by rw [Pseudo.whileLoop.eq_def]; dsimp only; wt_auto
  repeatLoop _ _ _ _ _ := by rw [Pseudo.repeatLoop.eq_def]; dsimp only; wt_auto
  forLoop _ _ _ _ _ _ _ := by rw [Pseudo.forLoop.eq_def]; dsimp only; wt_auto
  callProc _ _ _ _ _ := by rw [Pseudo.callProc.eq_def]; dsimp only; wt_auto
  resolveParams _ _ _ _ := by rw [Pseudo.resolveParams.eq_def]; dsimp only; wt_auto
  evalBounds _ _ _ _ := by rw [Pseudo.evalBounds.eq_def]; dsimp only; wt_auto
  declareVars _ _ _ _ _ := by rw [Pseudo.declareVars.eq_def]; dsimp only; wt_auto
  declareArrs _ _ _ _ _ _ := by rw [Pseudo.declareArrs.eq_def]; dsimp only; wt_auto
  outputAll _ _ _ := by rw [Pseudo.outputAll.eq_def]; dsimp only; wt_auto
  fileName _ _ _ _ := by rw [Pseudo.fileName.eq_def]; dsimp only; wt_auto
  execStmt _ _ _ := by rw [Pseudo.execStmt.eq_def]; dsimp only; wt_auto

theorem wstep_evalArgs (ih : AllW f) : ∀ es acc σ, Inv σ → EnsAt σ (evalArgs (f+1) es acc) T := by
  intro es acc σ hi; wt_fn evalArgs

theorem wstep_evalIndices (ih : AllW f) : ∀ es dims acc σ, Inv σ → EnsAt σ (evalIndices (f+1) es dims acc) T := by
  intro es dims acc σ hi; wt_fn evalIndices

theorem wstep_caseMatch (ih : AllW f) : ∀ v cl σ, Inv σ → EnsAt σ (caseMatch (f+1) v cl) T := by
  intro v cl σ hi; wt_fn caseMatch

theorem wstep_resolveParams (ih : AllW f) : ∀ ps acc σ, Inv σ → EnsAt σ (resolveParams (f+1) ps acc) T := by
  intro ps acc σ hi; wt_fn resolveParams

theorem wstep_evalBounds (ih : AllW f) : ∀ bs acc σ, Inv σ → EnsAt σ (evalBounds (f+1) bs acc) T := by
  intro bs acc σ hi; wt_fn evalBounds

theorem wstep_outputAll (ih : AllW f) : ∀ es σ, Inv σ → EnsAt σ (outputAll (f+1) es) T := by
  intro es σ hi; wt_fn outputAll

theorem wstep_fileName (ih : AllW f) : ∀ t e σ, Inv σ → EnsAt σ (fileName (f+1) t e) T := by
  intro t e σ hi; wt_fn fileName

theorem wstep_whileLoop (ih : AllW f) : ∀ t c b σ, Inv σ → EnsAt σ (whileLoop (f+1) t c b) T := by
  intro t c b σ hi; wt_fn whileLoop

theorem wstep_repeatLoop (ih : AllW f) : ∀ t b c σ, Inv σ → EnsAt σ (repeatLoop (f+1) t b c) T := by
  intro t b c σ hi; wt_fn repeatLoop

theorem wstep_loopBody (ih : AllW f) : ∀ b σ, Inv σ → EnsAt σ (loopBody (f+1) b) T := by
  intro b σ hi; wt_fn loopBody

theorem wstep_runBlock (ih : AllW f) : ∀ b σ, Inv σ → EnsAt σ (runBlock (f+1) b) T := by
  intro b σ hi; wt_fn runBlock

theorem wstep_ifChain (ih : AllW f) : ∀ t bs els σ, Inv σ → EnsAt σ (ifChain (f+1) t bs els) T := by
  intro t bs els σ hi; wt_fn ifChain

theorem wstep_caseClauses (ih : AllW f) : ∀ v cls σ, Inv σ → EnsAt σ (caseClauses (f+1) v cls) T := by
  intro v cls σ hi; wt_fn caseClauses

theorem wstep_defaultCells (ih : AllW f) : ∀ t ty n acc σ, Inv σ → EnsAt σ (defaultCells (f+1) t ty n acc) T := by
  intro t ty n acc σ hi; wt_fn defaultCells

theorem wstep_declareArrs (ih : AllW f) : ∀ t ids ty dims σ, Inv σ → EnsAt σ (declareArrs (f+1) t ids ty dims) T := by
  intro t ids ty dims σ hi; wt_fn declareArrs

theorem wstep_resolveRef (ih : AllW f) : ∀ r σ, Inv σ → EnsAt σ (resolveRef (f+1) r) HolderPost := by
  intro r σ hi; wt_fn resolveRef
  all_goals wt_holder

theorem wstep_defaultVal (ih : AllW f) : ∀ t ty σ, Inv σ → EnsAt σ (defaultVal (f+1) t ty) (TyPost ty) := by
  intro t ty σ hi; wt_fn defaultVal
  · refine EnsAt.withAct (P0 := fun (v : Val) => v.ty = Ty.comp _) _ _ hi rfl (SlotsOK.nil _) fun hi' => ?_
    refine EnsAt.bind_triv (ih.runBlock _ _ hi') fun _ σ1 h1 _ => ?_
    refine EnsAt.bind_ro RO.curAct h1 fun a _ => ?_
    exact EnsAt.pure h1 rfl
  · exact EnsAt.pure hi (defaultPrim_ty _ (by assumption))

theorem wstep_declareVars (ih : AllW f) : ∀ t ids ty σ, Inv σ → EnsAt σ (declareVars (f+1) t ids ty) T := by
  intro t ids ty σ hi; wt_fn declareVars

theorem wstep_forLoop (ih : AllW f) : ∀ t it stop step b σ, Inv σ → EnsAt σ (forLoop (f+1) t it stop step b) T := by
  intro t it stop step b σ hi; wt_fn forLoop

theorem wstep_bindParams (ih : AllW f) : ∀ t ps es vs acc σ, Inv σ → SlotsOK σ acc →
    EnsAt σ (bindParams (f+1) t ps es vs acc) SlotsPost := by
  intro t ps es vs acc σ hi hacc; wt_fn bindParams
  · exact ih.bindParams _ _ _ _ _ _ (by assumption)
      (SlotsOK.cons ⟨(fun h => by cases h), fun l hl => by cases hl; exact (by assumption : HolderPost _ _).2⟩
        (SlotsOK.mono (by assumption) hacc))
  · exact ih.bindParams _ _ _ _ _ _ hi (SlotsOK.cons (SlotOK.plain rfl (ty_of_not_bne (by assumption))) hacc)
  · exact EnsAt.pure hi hacc.reverse

theorem wstep_execAssign (ih : AllW f) : ∀ t r rhs σ, Inv σ → EnsAt σ (execAssign (f+1) t r rhs) T := by
  intro t r rhs σ hi; wt_fn execAssign
  all_goals
    exact EnsAt.writeLoc_holder _ _ (by assumption) ((by assumption : TargetPost _ _) _ rfl) (ty_of_not_bne (by assumption))

/-- transport a `SlotsOK` fact along the chain of `Ext` hypotheses in the context -/
syntax "wt_slots" : tactic
macro_rules | `(tactic| wt_slots) => `(tactic| first
  | assumption
  | (refine SlotsOK.mono (by assumption) ?_; wt_slots))

theorem wstep_callProc (ih : AllW f) : ∀ t name args σ, Inv σ → EnsAt σ (callProc (f+1) t name args) T := by
  intro t name args σ hi; wt_fn callProc
  all_goals
    refine EnsAt.withAct_T _ _ (by assumption) rfl (by wt_slots) ?_
    wt_auto

set_option maxHeartbeats 400000 in
theorem wstep_callFun (ih : AllW f) : ∀ t args σ, Inv σ → EnsAt σ (callFun (f+1) t args) T := by
  intro t args σ hi; wt_fn callFun
  all_goals
    refine EnsAt.withAct_T _ _ (by assumption) rfl (by wt_slots) ?_
    wt_auto

theorem wstep_evalExpr (ih : AllW f) : ∀ e σ, Inv σ → EnsAt σ (evalExpr (f+1) e) T := by
  intro e σ hi; wt_fn evalExpr
  rename_i ph σ1 _ _ hph _ vh σ2 h2 he2 _ _ _ pn heq _ _ _ _ _
  exact EnsAt.writeLoc_holder _ _ h2 (HolderOK.mono he2 hph) (by rw [heq]; rfl)

theorem wstmt_getRecord (ih : AllW f) (t : Tok) (fn : Expr) (id : Tok) (σ : St) (hi : Inv σ) :
    EnsAt σ (execStmt (f+1) (.getRecord t fn id)) T := by
  wt_stmt
  all_goals exact EnsAt.writeLoc_of_read _ _ (by assumption) (by assumption) (load_ty _ _ _ _ _ (by assumption))

set_option maxHeartbeats 400000 in
theorem wstmt_for (ih : AllW f) (t it : Tok) (start stop : Expr) (step : Option Expr) (b : Block) (σ : St) (hi : Inv σ) :
    EnsAt σ (execStmt (f+1) (.for t it start stop step b)) T := by
  wt_stmt
  all_goals wt_store

end induction

end TypedInv
end Pseudo
