import PseudoProofs.RecordLemmas
/-!
# The BYREF aliases of the live activations are untouched by whatever the evaluator runs

A variant of `PseudoProofs/RecordReturnSkel.lean` (same proofs) in which the skeleton of a variable slot records the alias
TARGET of a BYREF formal (`s.ref : Option Loc`), not only whether it is an alias: whatever the evaluator runs, every name of
every live activation keeps its declared type, its alias target and its constness; only the innermost activation may get new
variables (`sk_all`, instance of `eval_all`).
-/
namespace Pseudo

namespace ByvalRefSk

open ArrayLemmas C07Copy CallLemmas RecordLemmas

/-- what is fixed about a declared variable: declared type, "is a BYREF alias", "is a constant" -/
def slotSk (s : Slot) : Ty × Option Loc × Bool := (s.ty, s.ref, s.isConst)

/-- same id, same variable declarations -/
structure ASim (a a' : Act) : Prop where
  id : a'.id = a.id
  vars : ∀ n, (findSlot a'.vars n).map slotSk = (findSlot a.vars n).map slotSk

/-- same id, every declared variable is still declared in the same way -/
structure AExt (a a' : Act) : Prop where
  id : a'.id = a.id
  vars : ∀ n s, findSlot a.vars n = some s → ∃ s', findSlot a'.vars n = some s' ∧ slotSk s' = slotSk s

theorem ASim.refl (a : Act) : ASim a a := ⟨rfl, fun _ => rfl⟩
theorem ASim.trans {a b c : Act} (h1 : ASim a b) (h2 : ASim b c) : ASim a c :=
  ⟨h2.id.trans h1.id, fun n => (h2.vars n).trans (h1.vars n)⟩

theorem AExt.refl (a : Act) : AExt a a := ⟨rfl, fun _ s h => ⟨s, h, rfl⟩⟩
theorem AExt.trans {a b c : Act} (h1 : AExt a b) (h2 : AExt b c) : AExt a c := by
  refine ⟨h2.id.trans h1.id, fun n s hs => ?_⟩
  obtain ⟨s1, hs1, e1⟩ := h1.vars n s hs
  obtain ⟨s2, hs2, e2⟩ := h2.vars n s1 hs1
  exact ⟨s2, hs2, e2.trans e1⟩

theorem ASim.toExt {a b : Act} (h : ASim a b) : AExt a b := by
  refine ⟨h.id, fun n s hs => ?_⟩
  have := h.vars n
  rw [hs] at this
  cases hb : findSlot b.vars n with
  | none => rw [hb] at this; cases this
  | some s' =>
    rw [hb] at this
    simp only [Option.map_some, Option.some.injEq] at this
    exact ⟨s', rfl, this⟩

/-- position by position `ASim` -/
def ActsSim : List Act → List Act → Prop
  | [], [] => True
  | a :: as, b :: bs => ASim a b ∧ ActsSim as bs
  | _, _ => False

/-- the innermost `AExt`, the others `ASim` -/
def ActsSk : List Act → List Act → Prop
  | [], [] => True
  | a :: as, b :: bs => AExt a b ∧ ActsSim as bs
  | _, _ => False

theorem ActsSim.refl : ∀ as : List Act, ActsSim as as
  | [] => trivial
  | a :: as => ⟨ASim.refl a, ActsSim.refl as⟩

theorem ActsSim.trans : ∀ {as bs cs : List Act}, ActsSim as bs → ActsSim bs cs → ActsSim as cs
  | [], [], [], _, _ => trivial
  | _ :: _, _ :: _, _ :: _, h1, h2 => ⟨h1.1.trans h2.1, ActsSim.trans h1.2 h2.2⟩
  | [], _ :: _, _, h1, _ => h1.elim
  | _ :: _, [], _, h1, _ => h1.elim
  | _ :: _, _ :: _, [], _, h2 => h2.elim
  | [], [], _ :: _, _, h2 => h2.elim

theorem ActsSim.toSk : ∀ {as bs : List Act}, ActsSim as bs → ActsSk as bs
  | [], [], _ => trivial
  | _ :: _, _ :: _, h => ⟨h.1.toExt, h.2⟩
  | [], _ :: _, h => h.elim
  | _ :: _, [], h => h.elim

theorem ActsSk.refl (as : List Act) : ActsSk as as := (ActsSim.refl as).toSk

theorem ActsSk.trans : ∀ {as bs cs : List Act}, ActsSk as bs → ActsSk bs cs → ActsSk as cs
  | [], [], [], _, _ => trivial
  | _ :: _, _ :: _, _ :: _, h1, h2 => ⟨h1.1.trans h2.1, ActsSim.trans h1.2 h2.2⟩
  | [], _ :: _, _, h1, _ => h1.elim
  | _ :: _, [], _, h1, _ => h1.elim
  | _ :: _, _ :: _, [], _, h2 => h2.elim
  | [], [], _ :: _, _, h2 => h2.elim

theorem ActsSim.ids : ∀ {as bs : List Act}, ActsSim as bs → bs.map (·.id) = as.map (·.id)
  | [], [], _ => rfl
  | a :: as, b :: bs, h => by
    have := ActsSim.ids h.2
    simp only [List.map_cons, this, h.1.id]
  | [], _ :: _, h => h.elim
  | _ :: _, [], h => h.elim

theorem ActsSim.find (i : Nat) : ∀ {as bs : List Act}, ActsSim as bs → ∀ a, as.find? (·.id == i) = some a →
    ∃ b, bs.find? (·.id == i) = some b ∧ ASim a b
  | [], [], _, a, ha => by cases ha
  | a' :: as, b' :: bs, h, a, ha => by
    simp only [List.find?_cons] at ha ⊢
    rw [h.1.id]
    cases hid : (a'.id == i) with
    | true =>
      rw [hid] at ha
      cases ha
      exact ⟨b', rfl, h.1⟩
    | false =>
      rw [hid] at ha
      exact ActsSim.find i h.2 a ha
  | [], _ :: _, h, _, _ => h.elim
  | _ :: _, [], h, _, _ => h.elim

theorem ActsSim.getLast : ∀ {as bs : List Act}, ActsSim as bs → ∀ g, as.getLast? = some g →
    ∃ g', bs.getLast? = some g' ∧ ASim g g'
  | [], [], _, g, hg => by cases hg
  | [a], [b], h, g, hg => by
    simp only [List.getLast?_singleton, Option.some.injEq] at hg ⊢
    subst hg
    exact ⟨b, rfl, h.1⟩
  | a :: a2 :: as, b :: b2 :: bs, h, g, hg => by
    rw [List.getLast?_cons_cons] at hg ⊢
    exact ActsSim.getLast h.2 g hg
  | [_], _ :: _ :: _, h, _, _ => h.2.elim
  | _ :: _ :: _, [_], h, _, _ => h.2.elim
  | [], _ :: _, h, _, _ => h.elim
  | _ :: _, [], h, _, _ => h.elim

/-- `RSk σ σ'`: the innermost activation extended, all others with the same declarations -/
def RSk (σ σ' : St) : Prop := ActsSk σ.acts σ'.acts

instance : RPre RSk := ⟨fun σ => ActsSk.refl σ.acts, fun h1 h2 => ActsSk.trans h1 h2⟩

theorem RSk_of_sameActs (σ σ' : St) (h : SameActs σ σ') : RSk σ σ' := by
  unfold RSk; rw [h.1]; exact ActsSk.refl _

/-! ### updates of one activation -/

theorem ActsSim.updActs (id : Nat) (F : Act → Act) (hF : ∀ a, ASim a (F a)) :
    ∀ acts : List Act, ActsSim acts (updActs acts id F)
  | [] => trivial
  | a :: rest => by
    unfold Pseudo.updActs
    split
    · exact ⟨hF a, ActsSim.refl rest⟩
    · exact ⟨ASim.refl a, ActsSim.updActs id F hF rest⟩

/-- an update that keeps the declarations of the activation it touches -/
theorem actsSim_updSt (σ : St) (id : Nat) (F : Act → Act) (hF : ∀ a, ASim a (F a)) : ActsSim σ.acts (updSt σ id F).acts :=
  ActsSim.updActs id F hF σ.acts

theorem RSk_updSt (σ : St) (id : Nat) (F : Act → Act) (hF : ∀ a, ASim a (F a)) : RSk σ (updSt σ id F) :=
  (actsSim_updSt σ id F hF).toSk

/-- an update of the innermost activation that extends it -/
theorem RSk_updHead (σ : St) (a : Act) (rest : List Act) (F : Act → Act) (h : σ.acts = a :: rest) (hF : AExt a (F a)) :
    RSk σ (updSt σ a.id F) := by
  have : (updSt σ a.id F).acts = F a :: rest := by
    simp only [updSt, h, updActs, beq_self_eq_true, if_true]
  unfold RSk
  rw [this, h]
  exact ⟨hF, ActsSim.refl rest⟩

theorem asim_meta (F : Act → Act) (hF : ∀ a, (F a).id = a.id ∧ (F a).vars = a.vars) (a : Act) : ASim a (F a) :=
  ⟨(hF a).1, fun n => by rw [(hF a).2]⟩

theorem findSlot_updSlot_sk (n m : Str) (nv : Val) (ss : List Slot) :
    (findSlot (updSlot ss n (fun s => { s with val := nv })) m).map slotSk = (findSlot ss m).map slotSk := by
  by_cases h : m = n
  · subst h
    rw [findSlot_updSlot m (fun s => { s with val := nv }) (fun _ => rfl)]
    cases findSlot ss m <;> rfl
  · rw [findSlot_updSlot_ne n m (fun s => { s with val := nv }) h (fun _ => rfl)]

/-- the update `writeLoc` makes -/
theorem asim_write (isArr : Bool) (name : Str) (nv : Val) (a : Act) :
    ASim a (if isArr then { a with arrs := updSlot a.arrs name (fun s => { s with val := nv }) }
            else { a with vars := updSlot a.vars name (fun s => { s with val := nv }) }) := by
  cases isArr
  · simp only [Bool.false_eq_true, if_false]
    exact ⟨rfl, fun n => findSlot_updSlot_sk name n nv a.vars⟩
  · simp only [if_true]
    exact ⟨rfl, fun _ => rfl⟩

theorem asim_writeF (l : Loc) (nv : Val) (a : Act) : ASim a (writeF l nv a) := asim_write l.isArr l.name nv a

theorem findSlot_append_some (ss : List Slot) (s s0 : Slot) (n : Str) (h : findSlot ss n = some s0) :
    findSlot (ss ++ [s]) n = some s0 := by
  unfold findSlot at h ⊢
  rw [List.find?_append, h]
  rfl

theorem aext_addVar (s : Slot) (a : Act) : AExt a { a with vars := a.vars ++ [s] } :=
  ⟨rfl, fun n s0 h => ⟨s0, findSlot_append_some a.vars s s0 n h, rfl⟩⟩

theorem aext_meta (F : Act → Act) (hF : ∀ a, (F a).id = a.id ∧ (F a).vars = a.vars) (a : Act) : AExt a (F a) :=
  (asim_meta F hF a).toExt

/-! ### the primitives -/

theorem sk_writeLoc (Q : Stop → Prop) [QBase Q] (t : Tok) (l : Loc) (v : Val) : Ens RSk Q (writeLoc t l v) := by
  unfold writeLoc
  ens_auto
  all_goals
    apply Ens.modifyAct_of
    intro σ
    apply RSk_updSt
    intro a
    first
      | exact asim_write true _ _ a
      | exact asim_write false _ _ a

theorem sk_modifyCur (Q : Stop → Prop) [QBase Q] (F : Act → Act) (hF : ∀ a, AExt a (F a)) : Ens RSk Q (modifyCur F) := by
  constructor
  intro σ
  unfold modifyCur
  cases h : σ.acts with
  | nil =>
    have : curAct.run.run σ = (.error (.crash .noActivation), σ) := by
      unfold curAct; rw [run_bind_ok _ _ _ _ _ (run_get σ), h]; rfl
    rw [run_bind_err _ _ _ _ _ this]
    exact ⟨RPre.refl σ, fun e he => by cases he; exact QBase.crash _⟩
  | cons a rest =>
    rw [run_bind_ok _ _ _ _ _ (run_curAct_cons σ a rest h), run_modifyAct]
    exact ⟨RSk_updHead σ a rest F h (hF a), fun e he => by cases he⟩

theorem RSk_bracket (mk : Nat → Act) (σ σ2 : St) (h : RSk (pushSt mk σ) σ2) : ActsSim σ.acts (popSt σ2).acts := by
  unfold RSk at h
  have hp : (pushSt mk σ).acts = mk σ.nextId :: σ.acts := rfl
  rw [hp] at h
  cases h2 : σ2.acts with
  | nil => rw [h2] at h; exact h.elim
  | cons b bs =>
    rw [h2] at h
    have : (popSt σ2).acts = bs := by simp only [popSt, h2, List.drop_succ_cons, List.drop_zero]
    rw [this]
    exact h.2

/-- the primitives respect `RSk` -/
instance skPrimOK (Q : Stop → Prop) [QBase Q] : PrimOK RSk Q where
  emit x := (frame_emit x).mono RSk_of_sameActs fun _ h => h
  tick t := (frame_tick t).mono RSk_of_sameActs fun _ h => h
  setSwitchTok id _ := Ens.modifyAct_of _ _ fun σ => RSk_updSt σ id _ (asim_meta _ fun _ => ⟨rfl, rfl⟩)
  setRetVal id _ := Ens.modifyAct_of _ _ fun σ => RSk_updSt σ id _ (asim_meta _ fun _ => ⟨rfl, rfl⟩)
  addVar s := sk_modifyCur Q _ (aext_addVar s)
  addArr _ := sk_modifyCur Q _ (aext_meta _ fun _ => ⟨rfl, rfl⟩)
  addEnum _ := sk_modifyCur Q _ (aext_meta _ fun _ => ⟨rfl, rfl⟩)
  addPtr _ := sk_modifyCur Q _ (aext_meta _ fun _ => ⟨rfl, rfl⟩)
  addComp _ := sk_modifyCur Q _ (aext_meta _ fun _ => ⟨rfl, rfl⟩)
  writeLoc := sk_writeLoc Q
  withAct mk body hmk hb := by
    refine Ens.withAct_of (R := RSk) ?_ mk body hmk hb
    intro mk σ σ2 _ h
    exact (RSk_bracket mk σ σ2 h).toSk
  getLine := frame_getLine.mono RSk_of_sameActs fun _ h => h
  doFile t op := (frame_doFile t op).mono RSk_of_sameActs fun _ h => h
  doFile0 op := (frame_doFile0 op).mono RSk_of_sameActs fun _ h => h
  depthInc := Ens.modify _ fun _ => RSk_of_sameActs _ _ ⟨rfl, rfl⟩
  depthDec := Ens.modify _ fun _ => RSk_of_sameActs _ _ ⟨rfl, rfl⟩
  addProc _ := Ens.modify _ fun _ => RSk_of_sameActs _ _ ⟨rfl, rfl⟩
  addFun _ := Ens.modify _ fun _ => RSk_of_sameActs _ _ ⟨rfl, rfl⟩

/-- all 25 functions of the evaluator respect `RSk`: whatever runs, the innermost activation is only extended and
    every other live activation keeps, name by name, its variable declarations -/
theorem sk_all (fuel : Nat) : AllEns RSk (fun _ => True) (fun _ => True) fuel := eval_all RSk _ _ fuel

/-- **a block run inside a new activation leaves the declarations of all older activations alone**, however it ends -/
theorem body_run_sim (f : Nat) (body : Block) (mk : Nat → Act) (σ : St) :
    ActsSim σ.acts (popSt ((runBlock f body).run.run (calleeSt mk σ)).2).acts := by
  have h := (((sk_all f).runBlock body).run (calleeSt mk σ)).1
  have := RSk_bracket mk (incDepth σ) _ h
  exact this

/-- a block run in the current activation extends it and leaves the declarations of all others alone -/
theorem block_run_sk (f : Nat) (body : Block) (σ : St) : ActsSk σ.acts ((runBlock f body).run.run σ).2.acts :=
  (((sk_all f).runBlock body).run σ).1

theorem stmt_run_sk (f : Nat) (s : Stmt) (σ : St) : ActsSk σ.acts ((execStmt f s).run.run σ).2.acts :=
  (((sk_all f).execStmt s).run σ).1

/-- a variable of the innermost activation that is an alias of `l` stays an alias of `l` -/
theorem alias_of_actsSk {σ σ' : St} (cur : Act) (rest : List Act) (n : Str) (s : Slot) (l : Loc)
    (hacts : σ.acts = cur :: rest) (h : ActsSk σ.acts σ'.acts) (hs : findSlot cur.vars n = some s) (href : s.ref = some l) :
    ∃ cur' rest' s', σ'.acts = cur' :: rest' ∧ cur'.id = cur.id ∧ findSlot cur'.vars n = some s' ∧ s'.ref = some l ∧
      s'.ty = s.ty ∧ s'.isConst = s.isConst := by
  rw [hacts] at h
  cases h2 : σ'.acts with
  | nil => rw [h2] at h; exact h.elim
  | cons b bs =>
    rw [h2] at h
    obtain ⟨s', hs', e⟩ := h.1.vars n s hs
    unfold slotSk at e
    simp only [Prod.mk.injEq] at e
    exact ⟨b, bs, s', rfl, h.1.id, hs', e.2.1.trans href, e.1, e.2.2⟩

end ByvalRefSk

end Pseudo
