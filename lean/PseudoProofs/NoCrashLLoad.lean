import PseudoProofs.NoCrashLPure
import PseudoProofs.NoCrashRLoad
/-!
# C01 with TYPE statements anywhere: GETRECORD (`Codec.load`) keeps good values good — the analogue of `NoCrashRLoad.lean`

Everything about `Codec.load` that does not mention the state (`Loaded`, `loaded_path`, `load_kind`, `load_paths`, …) is reused from
`Pseudo.NR`; here: loading into a node that is fine in scope `k` gives a node that is fine in scope `k` (`loaded_local`), when the
codec looks enum types up the way scope `k` does.
-/
namespace Pseudo.NL
open Pseudo
open Pseudo.NC (getPath_nil)
open Pseudo.NR (Kind kind NArr sigOf SigDefined Loaded FLoaded load_kind load_enum_inv loaded_comp loaded_arr floaded_sig
  loaded_length loaded_mem loaded_path)

variable {σ : St} {k : Nat}

/-- loading into a fine node gives a fine node -/
theorem loaded_local (defs : Codec.Defs) (hE : ∀ n, defs.enumDef n = enumDef σ k n) {cur nv : Val}
    (h : NR.Loaded defs cur nv) (hl : Local σ k cur) : Local σ k nv := by
  cases cur with
  | enum ty i =>
    obtain ⟨s, r, h⟩ := h
    obtain ⟨w, e, j, hfind, hty, hlt, rfl⟩ := load_enum_inv h
    refine ⟨e.2, ?_, hlt⟩
    rw [hE] at hfind
    have hk : e.1 = w := lk_key hfind
    unfold enumLk
    rw [← hty, hk, hfind]; rfl
  | comp ty fs =>
    obtain ⟨fs', rfl, hall⟩ := loaded_comp h
    obtain ⟨body, k', hb, hs, hd⟩ := hl
    exact ⟨body, k', hb, (floaded_sig hall).trans hs, hd⟩
  | arr e d cells =>
    obtain ⟨cs, rfl, hall⟩ := loaded_arr h
    refine ⟨(loaded_length hall).trans hl.1, ?_⟩
    intro c hc
    obtain ⟨x, hx, hxc⟩ := loaded_mem hall hc
    exact hxc.kind.trans (hl.2 x hx)
  | ptr ty t =>
    obtain ⟨s, r, h⟩ := h
    simp [Codec.load] at h
  | none =>
    obtain ⟨s, r, h⟩ := h
    simp [Codec.load] at h
  | _ =>
    have hk := h.kind
    cases nv <;> first | trivial | (simp [kind, Val.ty] at hk)

/-- GETRECORD: loading into a good value gives a good value of the same kind -/
theorem load_good (defs : Codec.Defs) (hE : ∀ n, defs.enumDef n = enumDef σ k n)
    (cur nv : Val) (s r : Str) (hc : Good σ k cur) (h : Codec.load defs cur s = some (nv, r)) :
    kind nv = kind cur ∧ Good σ k nv := by
  refine ⟨load_kind defs cur nv s r h, ?_⟩
  intro p w' hp
  obtain ⟨w, hw, hww⟩ := loaded_path p ⟨s, r, h⟩ hp
  exact loaded_local defs hE hww (hc p w hw)

#print axioms loaded_local
#print axioms load_good

end Pseudo.NL
