import PseudoProofs.NoCrashRPrims2
/-!
# C01 with enum / pointer / record types: value-level lemmas (`NArr`, `kind`, `Good`)
-/
namespace Pseudo.NR
open Pseudo
open Pseudo.NC (simple)

variable {σ : St}

/-- a primitive scalar (or NONE) is a non-array value that is fine in every state -/
theorem ok_of_simple {v : Val} (h : simple v = true) : NArr v = true ∧ Good σ v := by
  cases v <;> first | exact ⟨rfl, good_of_scalar trivial trivial⟩ | (simp [simple] at h)

theorem narr_implicitCast (ty : Ty) {v : Val} (h : NArr v = true) : NArr (implicitCast ty v) = true := by
  unfold implicitCast
  split <;> first | rfl | exact h

theorem good_implicitCast (ty : Ty) {v : Val} (h : Good σ v) : Good σ (implicitCast ty v) := by
  unfold implicitCast
  split <;> first | exact good_of_scalar trivial trivial | exact h

theorem enumShift_lt (n : Nat) (res : Int) (hn : n ≠ 0) : enumShift n res < n := by
  unfold enumShift
  have hpos : (0 : Int) < (n : Int) := by omega
  have h1 := Int.emod_nonneg res (Int.ne_of_gt hpos)
  have h2 := Int.emod_lt_of_pos res hpos
  omega

/-- arithmetic: the result is a primitive value, or an enum value whose index is below the size that `sz` reported -/
theorem ok_evalArith (sz : Str → Option Nat)
    (hsz : ∀ ty n, sz ty = some n → ∃ vals, enumLk σ ty = some vals ∧ vals.length = n)
    (op : ArOp) (l r v : Val) (h : evalArith sz op l r = .ok v) : NArr v = true ∧ Good σ v := by
  unfold evalArith at h
  dsimp only at h
  split at h
  · rename_i ty idx k heq1 heq2
    split at h
    · cases hs : sz ty with
      | none => rw [hs] at h; cases h
      | some n =>
        rw [hs] at h
        dsimp only at h
        split at h
        · cases h
        · rename_i hn0
          cases h
          obtain ⟨vals, hl, hlen⟩ := hsz ty n hs
          refine ⟨rfl, good_of_scalar trivial ⟨vals, hl, ?_⟩⟩
          rw [hlen]
          exact enumShift_lt n _ (by simpa using hn0)
    · cases h
  · split at h
    all_goals first
      | (split at h
         · cases h
         · cases h
           first
             | (unfold intArith; split <;> exact ⟨rfl, good_of_scalar trivial trivial⟩)
             | (unfold realArith; split <;> exact ⟨rfl, good_of_scalar trivial trivial⟩))
      | cases h

/-- the default value of a usable non-record type -/
theorem ok_defaultPrim {ty : Ty} (h : TyWF σ ty) (hc : ∀ n, ty ≠ .comp n) : CellOK σ ty (defaultPrim ty) := by
  cases ty with
  | enum n =>
    obtain ⟨vals, h1, h2⟩ := h
    exact ⟨rfl, good_of_scalar trivial ⟨vals, h1, List.length_pos_iff.2 h2⟩⟩
  | ptr n =>
    obtain ⟨tg, h1⟩ := h
    exact ⟨rfl, good_of_scalar trivial ⟨tg, h1, fun l hl => by cases hl⟩⟩
  | comp n => exact absurd rfl (hc n)
  | _ => exact ⟨rfl, good_of_scalar trivial trivial⟩

theorem kind_int {v : Val} (h : kind v = .val .int) : ∃ i, v = .int i := by
  cases v <;> simp_all [kind, Val.ty]
theorem kind_str {v : Val} (h : kind v = .val .str) : ∃ s, v = .str s := by
  cases v <;> simp_all [kind, Val.ty]
theorem kind_ptr {v : Val} {n : Str} (h : kind v = .val (.ptr n)) : ∃ tgt, v = .ptr n tgt := by
  cases v <;> simp_all [kind, Val.ty]
theorem kind_comp {v : Val} {n : Str} (h : kind v = .val (.comp n)) : ∃ fs, v = .comp n fs := by
  cases v <;> simp_all [kind, Val.ty]
theorem kind_prim_simple {v : Val} {ty : Ty} (h : kind v = .val ty) (hp : ty.isPrimitive = true) : simple v = true := by
  cases v <;> simp only [kind, Val.ty, Kind.val.injEq] at h <;> first | rfl | (subst h; simp [Ty.isPrimitive] at hp) | cases h

end Pseudo.NR
