import PseudoProofs.TablesBase
namespace Pseudo

/-- E2: `enum class TokenType` is the model's token vocabulary, in order -/
theorem tokenKinds_agree : Generated.tokenKindsAvailable = true → Generated.tokenKinds = allTK := by decide


end Pseudo
