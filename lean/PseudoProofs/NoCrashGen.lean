import PseudoProofs.EvalInv
/-!
# C01, crash point `noActivation`: unreachable for the full language

`noActivation` is raised only by `curAct`, `globalAct` and `scopeAct` (`State.lean`): by `curAct` on an empty
activation stack, by `globalAct` likewise, by `scopeAct` when every activation is a record's own context
(`isComp = true`).  `StackGood σ`: the stack is non-empty and its LAST (global) activation is not composite.  From
a `StackGood` state none of the three can fail.

This file is a precondition-guarded variant of `EvalInv.lean` (whose postcondition on exceptions cannot depend on
the start state), hard-wired to

* precondition / invariant `StackGood`,
* relation `shapeG σ' = shapeG σ` (the list of `(id, isComp)` of the activations is unchanged; needed for the
  `withAct` bracket: after push – body – pop the stack has its old shape; `StackGood` depends on the shape only),
* postcondition on exceptions `e ≠ .crash .noActivation`.

`EnsG m`: from every `StackGood` start state, `m` keeps the shape (however it ends) and does not raise
`.crash .noActivation`.  Combinators `EnsG.pure / throw / bind / tryCatch / get / modify / …`, library lemmas
`EnsG.l_*` for the functions outside the mutual block, proof search `gens_auto` / `gens_fn`, the 25-field structure
`AllG`, the induction `allG`, and then

* `C01_no_noActivation`, `C01_no_noActivation_block`, `C01_no_noActivation_expr` (statement, block, expression),
* `C01_no_noActivation_file` (a whole program, for ALL inputs),
* `C01_no_noActivation_repl` (a whole REPL session, for ALL inputs).
-/
namespace Pseudo.NC
open Pseudo

/-- the `(id, isComp)` of the live activations, innermost first -/
def shapeG (σ : St) : List (Nat × Bool) := σ.acts.map fun a => (a.id, a.isComp)

/-- a non-empty stack whose bottom activation is not a record's own context -/
def StackGood (σ : St) : Prop := ∃ g, σ.acts.getLast? = some g ∧ g.isComp = false

theorem StackGood.of_shape {σ σ' : St} (h : shapeG σ' = shapeG σ) (hg : StackGood σ) : StackGood σ' := by
  obtain ⟨a, ha, hc⟩ := hg
  have h1 : (shapeG σ').getLast? = some (a.id, false) := by
    rw [h]; unfold shapeG; rw [List.getLast?_map, ha, ← hc]; rfl
  unfold shapeG at h1
  rw [List.getLast?_map] at h1
  cases hb : σ'.acts.getLast? with
  | none => rw [hb] at h1; cases h1
  | some b =>
    rw [hb] at h1
    refine ⟨b, hb, ?_⟩
    have h2 : (b.id, b.isComp) = (a.id, false) := Option.some.inj h1
    exact congrArg Prod.snd h2

theorem StackGood.of_acts {σ σ' : St} (h : σ'.acts = σ.acts) (hg : StackGood σ) : StackGood σ' :=
  StackGood.of_shape (by unfold shapeG; rw [h]) hg

theorem StackGood.init (fs : List (Str × FsNode)) (stdin : Str) (p r : Bool) : StackGood (St.init fs stdin p r) :=
  ⟨mkGlobal, rfl, rfl⟩

theorem StackGood.ne_nil {σ : St} (hg : StackGood σ) : σ.acts ≠ [] := by
  obtain ⟨g, hg, _⟩ := hg
  intro h
  rw [h] at hg
  cases hg

/-- from every `StackGood` state: the shape of the stack is kept (however `m` ends) and `m` does not raise
    `.crash .noActivation` (one-field structure so that `intro` / `apply` cannot unfold it) -/
structure EnsG {α : Type} (m : M α) : Prop where
  run : ∀ σ, StackGood σ → shapeG (m.run.run σ).2 = shapeG σ ∧
    ∀ e, (m.run.run σ).1 = .error e → e ≠ .crash .noActivation

/-- `StackGood` is preserved -/
theorem EnsG.good {α : Type} {m : M α} (h : EnsG m) (σ : St) (hσ : StackGood σ) : StackGood (m.run.run σ).2 :=
  StackGood.of_shape (h.run σ hσ).1 hσ

section combinators
variable {α β : Type}

theorem EnsG.pure (a : α) : EnsG (pure a : M α) := ⟨fun _ _ => ⟨rfl, fun _ h => by cases h⟩⟩

theorem EnsG.throw {e : Stop} (h : e ≠ .crash .noActivation) : EnsG (throw e : M α) :=
  ⟨fun _ _ => ⟨rfl, fun e' h' => by cases h'; exact h⟩⟩

theorem throwG_diag (d : Diag) : EnsG (throw (.diag d) : M α) := EnsG.throw nofun
theorem throwG_brk (t : Tok) : EnsG (throw (.brk t) : M α) := EnsG.throw nofun
theorem throwG_cont (t : Tok) : EnsG (throw (.cont t) : M α) := EnsG.throw nofun
theorem throwG_ret : EnsG (throw .ret : M α) := EnsG.throw nofun
theorem throwG_fuel : EnsG (throw .outOfFuel : M α) := EnsG.throw nofun
theorem throwG_danglingLoc : EnsG (throw (.crash .danglingLoc) : M α) := EnsG.throw nofun
theorem throwG_localCompositeType : EnsG (throw (.crash .localCompositeType) : M α) := EnsG.throw nofun
theorem throwG_enumIndexOOB : EnsG (throw (.crash .enumIndexOOB) : M α) := EnsG.throw nofun
theorem throwG_badAlias : EnsG (throw (.crash .badAlias) : M α) := EnsG.throw nofun
theorem throwG_other : EnsG (throw (.crash .other) : M α) := EnsG.throw nofun

theorem EnsG.get : EnsG (get : M St) := ⟨fun _ _ => ⟨rfl, fun _ h => by cases h⟩⟩

/-- a raw `modify` that leaves the activation stack alone -/
theorem EnsG.modify (f : St → St) (h : ∀ σ, (f σ).acts = σ.acts) : EnsG (modify f : M PUnit) :=
  ⟨fun σ _ => ⟨by show shapeG (f σ) = shapeG σ; unfold shapeG; rw [h], fun _ h => by cases h⟩⟩

theorem EnsG.bind {m : M α} {f : α → M β} (hm : EnsG m) (hf : ∀ a, EnsG (f a)) : EnsG (m >>= f) := by
  constructor
  intro σ hσ
  have h1 := hm.run σ hσ
  rcases h : m.run.run σ with ⟨e | a, σ'⟩
  · rw [run_bind_err m f σ σ' e h]
    rw [h] at h1
    exact ⟨h1.1, fun e' he => by cases he; exact h1.2 _ rfl⟩
  · rw [run_bind_ok m f σ σ' a h]
    rw [h] at h1
    have h2 := (hf a).run σ' (StackGood.of_shape h1.1 hσ)
    exact ⟨h2.1.trans h1.1, h2.2⟩

/-- handler and body with the same postcondition (the handler may rethrow what it caught) -/
theorem EnsG.tryCatch {m : M α} {hd : Stop → M α} (hm : EnsG m)
    (hh : ∀ e, e ≠ .crash .noActivation → EnsG (hd e)) : EnsG (MonadExcept.tryCatch m hd) := by
  constructor
  intro σ hσ
  have h1 := hm.run σ hσ
  rcases h : m.run.run σ with ⟨e | a, σ'⟩
  · rw [run_tryCatch_err m hd σ σ' e h]
    rw [h] at h1
    have h2 := (hh e (h1.2 e rfl)).run σ' (StackGood.of_shape h1.1 hσ)
    exact ⟨h2.1.trans h1.1, h2.2⟩
  · rw [run_tryCatch_ok m hd σ σ' a h]
    rw [h] at h1
    exact ⟨h1.1, fun _ h => by cases h⟩

theorem EnsG.ite {c : Prop} [Decidable c] {t e : M α} (ht : c → EnsG t) (he : ¬ c → EnsG e) :
    EnsG (if c then t else e) := by
  split
  · exact ht ‹_›
  · exact he ‹_›

/-- start with `get`: the continuation may be analysed at the very state it reads -/
theorem EnsG.get_bind {f : St → M α}
    (h : ∀ σ, StackGood σ → shapeG ((f σ).run.run σ).2 = shapeG σ ∧
      ∀ e, ((f σ).run.run σ).1 = .error e → e ≠ .crash .noActivation) :
    EnsG ((MonadState.get : M St) >>= f) := by
  constructor
  intro σ hσ
  rw [run_bind_ok _ _ _ _ _ (run_get σ)]
  exact h σ hσ

/-- a computation that, from a `StackGood` state, returns a value and leaves the state alone -/
theorem EnsG.of_run {m : M α} (h : ∀ σ, StackGood σ → ∃ a, m.run.run σ = (.ok a, σ)) : EnsG m :=
  ⟨fun σ hσ => by
    obtain ⟨a, ha⟩ := h σ hσ
    rw [ha]
    exact ⟨rfl, fun _ h => by cases h⟩⟩

end combinators

/-! ### the three functions that raise `noActivation` -/

/-- `curAct` from a `StackGood` state returns the head of the stack -/
theorem run_curAct (σ : St) (hσ : StackGood σ) : ∃ a rest, σ.acts = a :: rest ∧ curAct.run.run σ = (.ok a, σ) := by
  unfold curAct
  rw [run_bind_ok _ _ _ _ _ (run_get σ)]
  have hne := hσ.ne_nil
  cases hacts : σ.acts with
  | nil => exact absurd hacts hne
  | cons a rest => exact ⟨a, rest, rfl, rfl⟩

/-- `globalAct` from a `StackGood` state returns the last activation, which is not composite -/
theorem run_globalAct (σ : St) (hσ : StackGood σ) :
    ∃ g, σ.acts.getLast? = some g ∧ g.isComp = false ∧ globalAct.run.run σ = (.ok g, σ) := by
  obtain ⟨g, hg, hc⟩ := hσ
  refine ⟨g, hg, hc, ?_⟩
  unfold globalAct
  rw [run_bind_ok _ _ _ _ _ (run_get σ)]
  rw [hg]
  rfl

/-- `scopeAct` from a `StackGood` state finds a non-composite activation (at the latest the last one) -/
theorem run_scopeAct (σ : St) (hσ : StackGood σ) :
    ∃ a, σ.acts.find? (fun a => !a.isComp) = some a ∧ scopeAct.run.run σ = (.ok a, σ) := by
  obtain ⟨g, hg, hc⟩ := hσ
  have hsome : (σ.acts.find? (fun a => !a.isComp)).isSome = true :=
    List.find?_isSome.2 ⟨g, List.mem_of_getLast? hg, by rw [hc]; rfl⟩
  cases hf : σ.acts.find? (fun a => !a.isComp) with
  | none => rw [hf] at hsome; cases hsome
  | some a =>
    refine ⟨a, rfl, ?_⟩
    unfold scopeAct
    rw [run_bind_ok _ _ _ _ _ (run_get σ)]
    rw [hf]
    rfl

theorem EnsG.l_curAct : EnsG curAct :=
  EnsG.of_run fun σ hσ => by obtain ⟨a, _, _, h⟩ := run_curAct σ hσ; exact ⟨a, h⟩
theorem EnsG.l_globalAct : EnsG globalAct :=
  EnsG.of_run fun σ hσ => by obtain ⟨a, _, _, h⟩ := run_globalAct σ hσ; exact ⟨a, h⟩
theorem EnsG.l_scopeAct : EnsG scopeAct :=
  EnsG.of_run fun σ hσ => by obtain ⟨a, _, h⟩ := run_scopeAct σ hσ; exact ⟨a, h⟩

/-! ### updates of one activation -/

theorem updActs_shape (acts : List Act) (id : Nat) (f : Act → Act)
    (hf : ∀ a, (f a).id = a.id ∧ (f a).isComp = a.isComp) :
    (updActs acts id f).map (fun a => (a.id, a.isComp)) = acts.map (fun a => (a.id, a.isComp)) := by
  induction acts with
  | nil => rfl
  | cons a rest ih =>
    unfold updActs
    split
    · simp [hf]
    · simp [ih]

/-- `modifyAct` with an update that keeps `id` and `isComp` -/
theorem EnsG.modifyAct (id : Nat) (f : Act → Act) (hf : ∀ a, (f a).id = a.id ∧ (f a).isComp = a.isComp) :
    EnsG (modifyAct id f) :=
  ⟨fun σ _ => ⟨updActs_shape σ.acts id f hf, fun _ h => by cases h⟩⟩

/-- `modifyCur` with an update that keeps `id` and `isComp` -/
theorem EnsG.modifyCur (f : Act → Act) (hf : ∀ a, (f a).id = a.id ∧ (f a).isComp = a.isComp) :
    EnsG (modifyCur f) := by
  unfold Pseudo.modifyCur
  exact EnsG.bind EnsG.l_curAct fun a => EnsG.modifyAct a.id f hf

theorem EnsG.addVar (s : Slot) : EnsG (addVar s) := EnsG.modifyCur _ fun _ => ⟨rfl, rfl⟩
theorem EnsG.addArr (s : Slot) : EnsG (addArr s) := EnsG.modifyCur _ fun _ => ⟨rfl, rfl⟩
theorem EnsG.emit (x : Str) : EnsG (emit x) := EnsG.modify _ fun _ => rfl

/-- the bracket rule: the new activation goes on TOP (the last one stays), and the pop restores the shape -/
theorem EnsG.withAct {α : Type} (mk : Nat → Act) (body : M α) (hb : EnsG body) : EnsG (withAct mk body) := by
  constructor
  intro σ hσ
  rw [run_withAct]
  have hg : StackGood (pushSt mk σ) := by
    obtain ⟨g, hg, hc⟩ := hσ
    refine ⟨g, ?_, hc⟩
    show (mk σ.nextId :: σ.acts).getLast? = some g
    rw [List.getLast?_cons, hg]
    rfl
  have h := hb.run _ hg
  refine ⟨?_, h.2⟩
  have h1 : shapeG (popSt (body.run.run (pushSt mk σ)).2) = (shapeG (body.run.run (pushSt mk σ)).2).drop 1 := by
    unfold shapeG popSt
    exact List.map_drop
  rw [h1, h.1]
  rfl

/-! ### automation -/

/-- one step of the syntax-directed proof search: the leaves -/
macro "gens_basic" : tactic => `(tactic| with_reducible first
  | exact EnsG.pure _
  | exact EnsG.get
  | exact throwG_diag _
  | exact throwG_fuel
  | exact throwG_brk _
  | exact throwG_cont _
  | exact throwG_ret
  | exact throwG_other
  | exact throwG_danglingLoc
  | exact throwG_localCompositeType
  | exact throwG_enumIndexOOB
  | exact throwG_badAlias
  | exact EnsG.throw (by assumption)
  | exact EnsG.emit _
  | exact EnsG.addVar _
  | exact EnsG.addArr _
  | exact EnsG.l_curAct
  | exact EnsG.l_globalAct
  | exact EnsG.l_scopeAct
  | exact EnsG.modifyAct _ _ (fun _ => ⟨rfl, rfl⟩)
  | exact EnsG.modifyCur _ (fun _ => ⟨rfl, rfl⟩)
  | exact EnsG.modify _ (fun _ => rfl))

/-- library lemmas about the functions defined outside the mutual block; extended by `macro_rules` -/
syntax "gens_lib" : tactic
macro_rules | `(tactic| gens_lib) => `(tactic| fail "gens_lib: no lemma")

/-- hypotheses of the induction -/
syntax "gens_ih" : tactic
macro_rules | `(tactic| gens_ih) => `(tactic| fail "gens_ih: no hypothesis")

macro "gens_step" : tactic => `(tactic| first
  | cases ‹_ + 1 = Nat.succ _›
  | gens_basic
  | with_reducible gens_lib
  | with_reducible gens_ih
  | with_reducible apply EnsG.bind
  | with_reducible apply EnsG.tryCatch
  | with_reducible apply EnsG.withAct
  | intro _
  | split
  | dsimp only)

/-- the proof search -/
macro "gens_auto" : tactic => `(tactic| repeat' gens_step)

open Lean in
/-- unfold the function by its `eq_def` lemma and run the proof search -/
macro "gens_fn " id:ident : tactic =>
  `(tactic| (rw [$(mkIdent (id.getId ++ `eq_def)):ident]; try dsimp only
             gens_auto))

/-! ### the functions outside the mutual block -/

section library
variable {α : Type}

theorem EnsG.l_findAct (id : Nat) : EnsG (findAct id) := by unfold findAct; gens_auto
macro_rules | `(tactic| gens_lib) => `(tactic| exact EnsG.l_findAct _)
theorem EnsG.l_mkRuntime (l c : Nat) (m : Msg) : EnsG (mkRuntime l c m) := by unfold mkRuntime; gens_auto
macro_rules | `(tactic| gens_lib) => `(tactic| exact EnsG.l_mkRuntime _ _ _)
theorem EnsG.l_rtErr (t : Tok) (m : Msg) : EnsG (rtErr t m : M α) := by unfold rtErr; gens_auto
macro_rules | `(tactic| gens_lib) => `(tactic| exact EnsG.l_rtErr _ _)
theorem EnsG.l_rtErr0 (m : Msg) : EnsG (rtErr0 m : M α) := by unfold rtErr0; gens_auto
macro_rules | `(tactic| gens_lib) => `(tactic| exact EnsG.l_rtErr0 _)
theorem EnsG.l_pedErr (t : Tok) (m : Msg) : EnsG (pedErr t m : M α) := by unfold pedErr; gens_auto
macro_rules | `(tactic| gens_lib) => `(tactic| exact EnsG.l_pedErr _ _)
theorem EnsG.l_lookupVar (n : Str) : EnsG (lookupVar n) := by unfold lookupVar; gens_auto
macro_rules | `(tactic| gens_lib) => `(tactic| exact EnsG.l_lookupVar _)
theorem EnsG.l_lookupArr (n : Str) : EnsG (lookupArr n) := by unfold lookupArr; gens_auto
macro_rules | `(tactic| gens_lib) => `(tactic| exact EnsG.l_lookupArr _)
theorem EnsG.l_typeScopeAct : EnsG typeScopeAct := by unfold typeScopeAct; gens_auto
macro_rules | `(tactic| gens_lib) => `(tactic| exact EnsG.l_typeScopeAct)
theorem EnsG.l_lookupList {β : Type} (sel : Act → List (Str × β)) (n : Str) (g : Bool) : EnsG (lookupList sel n g) := by
  unfold lookupList; gens_auto
macro_rules | `(tactic| gens_lib) => `(tactic| exact EnsG.l_lookupList _ _ _)
theorem EnsG.l_enumDefOf (n : Str) (g : Bool) : EnsG (enumDefOf n g) := by unfold enumDefOf; gens_auto
macro_rules | `(tactic| gens_lib) => `(tactic| exact EnsG.l_enumDefOf _ _)
theorem EnsG.l_ptrDefOf (n : Str) (g : Bool) : EnsG (ptrDefOf n g) := by unfold ptrDefOf; gens_auto
macro_rules | `(tactic| gens_lib) => `(tactic| exact EnsG.l_ptrDefOf _ _)
theorem EnsG.l_compDefOf (n : Str) (g : Bool) : EnsG (compDefOf n g) := by unfold compDefOf; gens_auto
macro_rules | `(tactic| gens_lib) => `(tactic| exact EnsG.l_compDefOf _ _)
theorem EnsG.l_getType (t : Tok) (g : Bool) : EnsG (getType t g) := by unfold getType; gens_auto
macro_rules | `(tactic| gens_lib) => `(tactic| exact EnsG.l_getType _ _)
theorem EnsG.l_getEnumElement (v : Str) (g : Bool) : EnsG (getEnumElement v g) := by unfold getEnumElement; gens_auto
macro_rules | `(tactic| gens_lib) => `(tactic| exact EnsG.l_getEnumElement _ _)
theorem EnsG.l_isIdentifierType (t : Tok) (g : Bool) : EnsG (isIdentifierType t g) := by unfold isIdentifierType; gens_auto
macro_rules | `(tactic| gens_lib) => `(tactic| exact EnsG.l_isIdentifierType _ _)
theorem EnsG.l_readLoc (l : Loc) : EnsG (readLoc l) := by unfold readLoc; gens_auto
macro_rules | `(tactic| gens_lib) => `(tactic| exact EnsG.l_readLoc _)
theorem EnsG.l_locIsConst (l : Loc) : EnsG (locIsConst l) := by unfold locIsConst; gens_auto
macro_rules | `(tactic| gens_lib) => `(tactic| exact EnsG.l_locIsConst _)
theorem EnsG.l_isLive (id : Nat) : EnsG (isLive id) := by unfold isLive; gens_auto
macro_rules | `(tactic| gens_lib) => `(tactic| exact EnsG.l_isLive _)
theorem EnsG.l_liftMsg (t : Tok) (x : Except Msg α) : EnsG (liftMsg t x) := by unfold liftMsg; gens_auto
macro_rules | `(tactic| gens_lib) => `(tactic| exact EnsG.l_liftMsg _ _)
theorem EnsG.l_liftMsg0 (x : Except Msg α) : EnsG (liftMsg0 x) := by unfold liftMsg0; gens_auto
macro_rules | `(tactic| gens_lib) => `(tactic| exact EnsG.l_liftMsg0 _)
theorem EnsG.l_outputText (v : Val) : EnsG (outputText v) := by unfold outputText; gens_auto
macro_rules | `(tactic| gens_lib) => `(tactic| exact EnsG.l_outputText _)
theorem EnsG.l_filePre (t : Tok) (op : FOp) : EnsG (filePre t op) := by unfold filePre; gens_auto
macro_rules | `(tactic| gens_lib) => `(tactic| exact EnsG.l_filePre _ _)
theorem EnsG.l_codecDefs : EnsG codecDefs := by unfold codecDefs; gens_auto
macro_rules | `(tactic| gens_lib) => `(tactic| exact EnsG.l_codecDefs)
theorem EnsG.l_writeText (t : Tok) (v : Val) : EnsG (writeText t v) := by unfold writeText; gens_auto
macro_rules | `(tactic| gens_lib) => `(tactic| exact EnsG.l_writeText _ _)

/-- `catchNotDefined`: the handler may rethrow what it caught -/
theorem EnsG.l_catchNotDefined {m : M α} {h : Stop → M α} (hm : EnsG m)
    (hh : ∀ e, e ≠ .crash .noActivation → EnsG (h e)) : EnsG (catchNotDefined m h) := by
  unfold catchNotDefined
  apply EnsG.tryCatch hm
  intro e he
  gens_auto
  exact hh _ he

/-! the state-changing primitives that read the state first -/

theorem EnsG.l_tick (t : Tok) : EnsG (tick t) := by
  unfold tick
  apply EnsG.get_bind
  intro σ hσ
  split
  · exact (EnsG.l_rtErr t .budget).run σ hσ
  · exact ⟨rfl, fun e h => by cases h⟩
macro_rules | `(tactic| gens_lib) => `(tactic| exact EnsG.l_tick _)

theorem EnsG.l_getLine : EnsG getLine := by
  unfold getLine
  apply EnsG.get_bind
  intro σ _
  split
  · exact ⟨rfl, fun e h => by cases h⟩
  · dsimp only
    split
    · exact ⟨rfl, fun e h => by cases h⟩
    · exact ⟨rfl, fun e h => by cases h⟩
macro_rules | `(tactic| gens_lib) => `(tactic| exact EnsG.l_getLine)

theorem EnsG.l_doFile (t : Tok) (op : FOp) : EnsG (doFile t op) := by
  unfold doFile
  apply EnsG.get_bind
  intro σ hσ
  split
  · exact ⟨rfl, fun e h => by cases h⟩
  · exact (EnsG.l_rtErr t _).run σ hσ
macro_rules | `(tactic| gens_lib) => `(tactic| exact EnsG.l_doFile _ _)

theorem EnsG.l_doFile0 (op : FOp) : EnsG (doFile0 op) := by
  unfold doFile0
  apply EnsG.get_bind
  intro σ hσ
  split
  · exact ⟨rfl, fun e h => by cases h⟩
  · exact (EnsG.l_rtErr0 _).run σ hσ
macro_rules | `(tactic| gens_lib) => `(tactic| exact EnsG.l_doFile0 _)

/-- `writeLoc`: all its crash points are `danglingLoc`; the update keeps `id` and `isComp` -/
theorem EnsG.l_writeLoc (t : Tok) (l : Loc) (v : Val) : EnsG (writeLoc t l v) := by
  unfold writeLoc
  gens_auto
  all_goals
    apply EnsG.modifyAct
    intro a
    split <;> exact ⟨rfl, rfl⟩
macro_rules | `(tactic| gens_lib) => `(tactic| exact EnsG.l_writeLoc _ _ _)

theorem EnsG.l_runBuiltin (id : Str) (args : List Val) : EnsG (runBuiltin id args) := by unfold runBuiltin; gens_auto
macro_rules | `(tactic| gens_lib) => `(tactic| exact EnsG.l_runBuiltin _ _)
theorem EnsG.l_replEcho (v : Val) : EnsG (replEcho v) := by unfold replEcho; gens_auto
macro_rules | `(tactic| gens_lib) => `(tactic| exact EnsG.l_replEcho _)

end library

macro_rules | `(tactic| gens_lib) => `(tactic| apply EnsG.l_catchNotDefined)

/-! ### the induction -/

/-- the statement proved by induction on fuel: one field per function of the mutual block -/
structure AllG (f : Nat) : Prop where
  defaultVal : ∀ t ty, EnsG (defaultVal f t ty)
  defaultCells : ∀ t ty n acc, EnsG (defaultCells f t ty n acc)
  evalArgs : ∀ es acc, EnsG (evalArgs f es acc)
  evalIndices : ∀ es dims acc, EnsG (evalIndices f es dims acc)
  resolveRef : ∀ r, EnsG (resolveRef f r)
  callFun : ∀ t args, EnsG (callFun f t args)
  bindParams : ∀ t ps es vs acc, EnsG (bindParams f t ps es vs acc)
  evalExpr : ∀ e, EnsG (evalExpr f e)
  execAssign : ∀ t r rhs, EnsG (execAssign f t r rhs)
  runBlock : ∀ b, EnsG (runBlock f b)
  ifChain : ∀ t bs els, EnsG (ifChain f t bs els)
  caseMatch : ∀ v cl, EnsG (caseMatch f v cl)
  caseClauses : ∀ v cls, EnsG (caseClauses f v cls)
  loopBody : ∀ b, EnsG (loopBody f b)
  whileLoop : ∀ t c b, EnsG (whileLoop f t c b)
  repeatLoop : ∀ t b c, EnsG (repeatLoop f t b c)
  forLoop : ∀ t it stop step b, EnsG (forLoop f t it stop step b)
  callProc : ∀ t name args, EnsG (callProc f t name args)
  resolveParams : ∀ ps acc, EnsG (resolveParams f ps acc)
  evalBounds : ∀ bs acc, EnsG (evalBounds f bs acc)
  declareVars : ∀ t ids ty, EnsG (declareVars f t ids ty)
  declareArrs : ∀ t ids ty dims, EnsG (declareArrs f t ids ty dims)
  outputAll : ∀ es, EnsG (outputAll f es)
  fileName : ∀ t e, EnsG (fileName f t e)
  execStmt : ∀ s, EnsG (execStmt f s)

set_option hygiene false in
macro_rules | `(tactic| gens_ih) => `(tactic| first
  | apply ih.evalExpr | apply ih.resolveRef | apply ih.evalArgs | apply ih.evalIndices | apply ih.callFun
  | apply ih.bindParams | apply ih.execAssign | apply ih.runBlock | apply ih.ifChain | apply ih.caseMatch
  | apply ih.caseClauses | apply ih.loopBody | apply ih.whileLoop | apply ih.repeatLoop | apply ih.forLoop
  | apply ih.callProc | apply ih.resolveParams | apply ih.evalBounds | apply ih.declareVars | apply ih.declareArrs
  | apply ih.outputAll | apply ih.fileName | apply ih.execStmt | apply ih.defaultVal | apply ih.defaultCells)

/-- fuel 0: every function raises `outOfFuel` -/
theorem AllG.zero : AllG 0 where
  defaultVal _ _ := by rw [Pseudo.defaultVal.eq_def]; dsimp only; gens_auto
  defaultCells _ _ _ _ := by rw [Pseudo.defaultCells.eq_def]; dsimp only; gens_auto
  evalArgs _ _ := by rw [Pseudo.evalArgs.eq_def]; dsimp only; gens_auto
  evalIndices _ _ _ := by rw [Pseudo.evalIndices.eq_def]; dsimp only; gens_auto
  resolveRef _ := by rw [Pseudo.resolveRef.eq_def]; dsimp only; gens_auto
  callFun _ _ := by rw [Pseudo.callFun.eq_def]; dsimp only; gens_auto
  bindParams _ _ _ _ _ := by rw [Pseudo.bindParams.eq_def]; dsimp only; gens_auto
  evalExpr _ := by rw [Pseudo.evalExpr.eq_def]; dsimp only; gens_auto
  execAssign _ _ _ := by rw [Pseudo.execAssign.eq_def]; dsimp only; gens_auto
  runBlock _ := by rw [Pseudo.runBlock.eq_def]; dsimp only; gens_auto
  ifChain _ _ _ := by rw [Pseudo.ifChain.eq_def]; dsimp only; gens_auto
  caseMatch _ _ := by rw [Pseudo.caseMatch.eq_def]; dsimp only; gens_auto
  caseClauses _ _ := by rw [Pseudo.caseClauses.eq_def]; dsimp only; gens_auto
  loopBody _ := by rw [Pseudo.loopBody.eq_def]; dsimp only; gens_auto
  whileLoop _ _ _ := by rw [Pseudo.whileLoop.eq_def]; dsimp only; gens_auto
  repeatLoop _ _ _ := by rw [Pseudo.repeatLoop.eq_def]; dsimp only; gens_auto
  forLoop _ _ _ _ _ := by rw [Pseudo.forLoop.eq_def]; dsimp only; gens_auto
  callProc _ _ _ := by rw [Pseudo.callProc.eq_def]; dsimp only; gens_auto
  resolveParams _ _ := by rw [Pseudo.resolveParams.eq_def]; dsimp only; gens_auto
  evalBounds _ _ := by rw [Pseudo.evalBounds.eq_def]; dsimp only; gens_auto
  declareVars _ _ _ := by rw [Pseudo.declareVars.eq_def]; dsimp only; gens_auto
  declareArrs _ _ _ _ := by rw [Pseudo.declareArrs.eq_def]; dsimp only; gens_auto
  outputAll _ := by rw [Pseudo.outputAll.eq_def]; dsimp only; gens_auto
  fileName _ _ := by rw [Pseudo.fileName.eq_def]; dsimp only; gens_auto
  execStmt _ := by rw [Pseudo.execStmt.eq_def]; dsimp only; gens_auto

section steps
variable {f : Nat}

theorem stepG_defaultVal (ih : AllG f) : ∀ t ty, EnsG (defaultVal (f+1) t ty) := by
  intro t ty; gens_fn defaultVal

theorem stepG_defaultCells (ih : AllG f) : ∀ t ty n acc, EnsG (defaultCells (f+1) t ty n acc) := by
  intro t ty n acc; gens_fn defaultCells

theorem stepG_evalArgs (ih : AllG f) : ∀ es acc, EnsG (evalArgs (f+1) es acc) := by
  intro es acc; gens_fn evalArgs

theorem stepG_evalIndices (ih : AllG f) : ∀ es dims acc, EnsG (evalIndices (f+1) es dims acc) := by
  intro es dims acc; gens_fn evalIndices

theorem stepG_resolveRef (ih : AllG f) : ∀ r, EnsG (resolveRef (f+1) r) := by
  intro r; gens_fn resolveRef

theorem stepG_callFun (ih : AllG f) : ∀ t args, EnsG (callFun (f+1) t args) := by
  intro t args; gens_fn callFun

theorem stepG_bindParams (ih : AllG f) : ∀ t ps es vs acc, EnsG (bindParams (f+1) t ps es vs acc) := by
  intro t ps es vs acc; gens_fn bindParams

theorem stepG_evalExpr (ih : AllG f) : ∀ e, EnsG (evalExpr (f+1) e) := by
  intro e; gens_fn evalExpr

theorem stepG_execAssign (ih : AllG f) : ∀ t r rhs, EnsG (execAssign (f+1) t r rhs) := by
  intro t r rhs; gens_fn execAssign

theorem stepG_runBlock (ih : AllG f) : ∀ b, EnsG (runBlock (f+1) b) := by
  intro b; gens_fn runBlock

theorem stepG_ifChain (ih : AllG f) : ∀ t bs els, EnsG (ifChain (f+1) t bs els) := by
  intro t bs els; gens_fn ifChain

theorem stepG_caseMatch (ih : AllG f) : ∀ v cl, EnsG (caseMatch (f+1) v cl) := by
  intro v cl; gens_fn caseMatch

theorem stepG_caseClauses (ih : AllG f) : ∀ v cls, EnsG (caseClauses (f+1) v cls) := by
  intro v cls; gens_fn caseClauses

theorem stepG_loopBody (ih : AllG f) : ∀ b, EnsG (loopBody (f+1) b) := by
  intro b; gens_fn loopBody

theorem stepG_whileLoop (ih : AllG f) : ∀ t c b, EnsG (whileLoop (f+1) t c b) := by
  intro t c b; gens_fn whileLoop

theorem stepG_repeatLoop (ih : AllG f) : ∀ t b c, EnsG (repeatLoop (f+1) t b c) := by
  intro t b c; gens_fn repeatLoop

theorem stepG_forLoop (ih : AllG f) : ∀ t it stop step b, EnsG (forLoop (f+1) t it stop step b) := by
  intro t it stop step b; gens_fn forLoop

theorem stepG_callProc (ih : AllG f) : ∀ t name args, EnsG (callProc (f+1) t name args) := by
  intro t name args; gens_fn callProc

theorem stepG_resolveParams (ih : AllG f) : ∀ ps acc, EnsG (resolveParams (f+1) ps acc) := by
  intro ps acc; gens_fn resolveParams

theorem stepG_evalBounds (ih : AllG f) : ∀ bs acc, EnsG (evalBounds (f+1) bs acc) := by
  intro bs acc; gens_fn evalBounds

theorem stepG_declareVars (ih : AllG f) : ∀ t ids ty, EnsG (declareVars (f+1) t ids ty) := by
  intro t ids ty; gens_fn declareVars

theorem stepG_declareArrs (ih : AllG f) : ∀ t ids ty dims, EnsG (declareArrs (f+1) t ids ty dims) := by
  intro t ids ty dims; gens_fn declareArrs

theorem stepG_outputAll (ih : AllG f) : ∀ es, EnsG (outputAll (f+1) es) := by
  intro es; gens_fn outputAll

theorem stepG_fileName (ih : AllG f) : ∀ t e, EnsG (fileName (f+1) t e) := by
  intro t e; gens_fn fileName

set_option maxHeartbeats 1000000 in
theorem stepG_execStmt (ih : AllG f) : ∀ s, EnsG (execStmt (f+1) s) := by
  intro s; gens_fn execStmt

/-- the induction step: every function at fuel `f+1` calls the others at fuel `f` only -/
theorem AllG.succ (ih : AllG f) : AllG (f + 1) where
  defaultVal := stepG_defaultVal ih
  defaultCells := stepG_defaultCells ih
  evalArgs := stepG_evalArgs ih
  evalIndices := stepG_evalIndices ih
  resolveRef := stepG_resolveRef ih
  callFun := stepG_callFun ih
  bindParams := stepG_bindParams ih
  evalExpr := stepG_evalExpr ih
  execAssign := stepG_execAssign ih
  runBlock := stepG_runBlock ih
  ifChain := stepG_ifChain ih
  caseMatch := stepG_caseMatch ih
  caseClauses := stepG_caseClauses ih
  loopBody := stepG_loopBody ih
  whileLoop := stepG_whileLoop ih
  repeatLoop := stepG_repeatLoop ih
  forLoop := stepG_forLoop ih
  callProc := stepG_callProc ih
  resolveParams := stepG_resolveParams ih
  evalBounds := stepG_evalBounds ih
  declareVars := stepG_declareVars ih
  declareArrs := stepG_declareArrs ih
  outputAll := stepG_outputAll ih
  fileName := stepG_fileName ih
  execStmt := stepG_execStmt ih

end steps

/-- **all 25 functions of the evaluator**, at every fuel: from a `StackGood` state the shape of the activation stack
    is kept and `.crash .noActivation` is not raised -/
theorem allG : ∀ fuel, AllG fuel
  | 0 => AllG.zero
  | f + 1 => (allG f).succ

/-! ### statements, blocks, expressions -/

/-- **C01 (`noActivation` unreachable), statements.** -/
theorem C01_no_noActivation (fuel : Nat) (s : Stmt) (σ : St) (h : StackGood σ) :
    StackGood ((execStmt fuel s).run.run σ).2 ∧
    ∀ e, ((execStmt fuel s).run.run σ).1 = .error e → e ≠ .crash .noActivation :=
  ⟨((allG fuel).execStmt s).good σ h, (((allG fuel).execStmt s).run σ h).2⟩

theorem C01_no_noActivation_block (fuel : Nat) (b : Block) (σ : St) (h : StackGood σ) :
    StackGood ((runBlock fuel b).run.run σ).2 ∧
    ∀ e, ((runBlock fuel b).run.run σ).1 = .error e → e ≠ .crash .noActivation :=
  ⟨((allG fuel).runBlock b).good σ h, (((allG fuel).runBlock b).run σ h).2⟩

theorem C01_no_noActivation_expr (fuel : Nat) (x : Expr) (σ : St) (h : StackGood σ) :
    StackGood ((evalExpr fuel x).run.run σ).2 ∧
    ∀ e, ((evalExpr fuel x).run.run σ).1 = .error e → e ≠ .crash .noActivation :=
  ⟨((allG fuel).evalExpr x).good σ h, (((allG fuel).evalExpr x).run σ h).2⟩

/-! ### whole programs -/

theorem ensG_runMain (fuel : Nat) (b : Block) : EnsG (runMain fuel b) := by
  unfold runMain
  apply EnsG.tryCatch ((allG fuel).runBlock b)
  intro e he
  gens_auto

theorem runOn_good (fuel : Nat) (b : Block) (σ : St) (hσ : StackGood σ) :
    StackGood (runOn fuel b σ).2 ∧ (runOn fuel b σ).1 ≠ .crash .noActivation := by
  have h := ((ensG_runMain fuel b).run σ hσ).2
  have hg := (ensG_runMain fuel b).good σ hσ
  unfold runOn
  revert h hg
  generalize (runMain fuel b).run.run σ = p
  intro h hg
  obtain ⟨r, s⟩ := p
  rcases r with (d | t | t | _ | p | _) | u
  case error.crash => exact ⟨hg, fun heq => by cases heq; exact h _ rfl rfl⟩
  all_goals exact ⟨hg, fun heq => by cases heq⟩

theorem runSource_good (cfg : Cfg) (src : Str) (σ : St) (hσ : StackGood σ) :
    StackGood (runSource cfg src σ).2 ∧ (runSource cfg src σ).1 ≠ .crash .noActivation := by
  unfold runSource
  split
  · exact ⟨StackGood.of_acts rfl hσ, nofun⟩
  · split
    · dsimp only
      split <;> exact ⟨StackGood.of_acts rfl hσ, nofun⟩
    · rename_i b warns _
      dsimp only
      have h1 := runOn_good cfg.fuel b { σ with out := (List.map warningText warns).reverse ++ σ.out }
        (StackGood.of_acts rfl hσ)
      rcases hr : runOn cfg.fuel b { σ with out := (List.map warningText warns).reverse ++ σ.out } with ⟨o, s⟩
      rw [hr] at h1
      cases o with
      | diag d => exact ⟨StackGood.of_acts rfl h1.1, nofun⟩
      | ok => exact h1
      | crash p => exact h1
      | fuel => exact h1

theorem runFileOn_good (cfg : Cfg) (content : Str) (fs : List (Str × FsNode)) (stdin : Str) (eof : Bool) :
    (runFileOn cfg content fs stdin eof).1 ≠ .crash .noActivation := by
  unfold runFileOn
  dsimp only
  refine (runSource_good cfg _ _ ?_).2
  exact StackGood.of_acts rfl (StackGood.init fs stdin cfg.pedantic false)

theorem resultOf_crash (o : Outcome) (s : St) (p : CrashPoint) (h : (resultOf o s).crash = some p) : o = .crash p := by
  unfold resultOf at h
  cases o with
  | ok => cases h
  | diag d => dsimp only at h; split at h <;> cases h
  | crash q => cases h; rfl
  | fuel => cases h

/-- **C01 (`noActivation` unreachable), whole programs**: for every configuration, program text, file system and
    standard input -/
theorem C01_no_noActivation_file (cfg : Cfg) (content : Str) (fs : List (Str × FsNode)) (stdin : Str) :
    (runFile cfg content fs stdin).crash ≠ some .noActivation := by
  intro h
  unfold runFile at h
  exact runFileOn_good cfg content fs stdin false (resultOf_crash _ _ _ h)

/-! ### the REPL -/

/-- the session state is `StackGood` and the session has not ended in `noActivation` -/
def ReplGood (r : ReplSt) : Prop := StackGood r.st ∧ r.crash ≠ some .noActivation

theorem getLine_good (σ : St) (hσ : StackGood σ) : StackGood ((ExceptT.run getLine).run σ).2 :=
  EnsG.l_getLine.good σ hσ

theorem collectLines_good : ∀ (n : Nat) (code : Str) (σ : St), StackGood σ → StackGood (collectLines n code σ).2
  | 0, _, _, hσ => hσ
  | n + 1, code, σ, hσ => by
    unfold collectLines
    dsimp only
    have h1 := getLine_good { σ with out := ". ".toList :: σ.out } (StackGood.of_acts rfl hσ)
    rcases hr : (ExceptT.run getLine).run { σ with out := ". ".toList :: σ.out } with ⟨o, s⟩
    rw [hr] at h1
    cases o with
    | error e => exact h1
    | ok p =>
      obtain ⟨line, ok⟩ := p
      dsimp only
      split
      · exact h1
      · split
        · exact h1
        · exact collectLines_good n _ s h1

set_option maxHeartbeats 1000000 in
/-- a whole REPL session keeps `ReplGood` -/
theorem replLoop_good (cfg : Cfg) : ∀ (n : Nat) (first : Bool) (r : ReplSt), ReplGood r → ReplGood (replLoop cfg n first r)
  | 0, _, r, h => h
  | n + 1, first, r, hr => by
    have step := replLoop_good cfg n
    obtain ⟨hst, hc⟩ := hr
    unfold replLoop
    split
    · exact ⟨hst, hc⟩
    · dsimp only
      generalize hst1 : ({ (if first = true then r.st else { r.st with out := marker :: r.st.out }) with
          out := "> ".toList :: (if first = true then r.st else { r.st with out := marker :: r.st.out }).out,
          steps := 0, depth := 0 } : St) = st1
      have h1 : StackGood st1 := by
        subst hst1
        cases first <;> exact StackGood.of_acts rfl hst
      have h2 := getLine_good st1 h1
      rcases hr : (ExceptT.run getLine).run st1 with ⟨o, st2⟩
      rw [hr] at h2
      dsimp only at h2
      clear hr hst1 h1
      split
      · rename_i code ok st2' heq
        cases heq
        split
        · exact ⟨h2, hc⟩
        split
        · exact step _ _ ⟨h2, hc⟩
        split
        · exact step _ _ ⟨StackGood.of_acts rfl h2, hc⟩
        split
        · exact ⟨h2, hc⟩
        split
        · -- RUNFILE
          split
          · exact step _ _ ⟨h2, hc⟩
          split
          · split
            · exact step _ _ ⟨StackGood.of_acts rfl h2, hc⟩
            · split <;> exact step _ _ ⟨StackGood.of_acts rfl h2, hc⟩
            · rename_i p heq
              exact ⟨StackGood.of_acts rfl h2, fun h => by cases h; exact runFileOn_good _ _ _ _ _ heq⟩
            · exact step _ _ ⟨StackGood.of_acts rfl h2, hc⟩
          · exact step _ _ ⟨StackGood.of_acts rfl h2, hc⟩
        · -- an entry: (possibly) more lines, then lex + parse + run
          have h23 : StackGood (if multilineStart code = true then collectLines (st2.stdin.length + 2) code st2
              else (some code, st2)).2 := by
            split
            · exact collectLines_good _ _ _ h2
            · exact h2
          generalize (if multilineStart code = true then collectLines (st2.stdin.length + 2) code st2
              else (some code, st2)) = p at h23 ⊢
          obtain ⟨full?, st3⟩ := p
          dsimp only at h23 ⊢
          split
          · exact ⟨h23, hc⟩
          · rename_i src
            have h34 := runSource_good cfg src st3 h23
            rcases hs : runSource cfg src st3 with ⟨o', s⟩
            rw [hs] at h34
            cases o' with
            | ok => exact step _ _ ⟨h34.1, hc⟩
            | diag d => dsimp only; split <;> exact step _ _ ⟨h34.1, hc⟩
            | crash p => exact ⟨h34.1, fun h => by cases h; exact h34.2 rfl⟩
            | fuel => exact step _ _ ⟨h34.1, hc⟩
      · rename_i st2' _ heq
        cases heq
        exact ⟨h2, hc⟩

/-- **C01 (`noActivation` unreachable), the REPL**: for every configuration, file system and standard input -/
theorem C01_no_noActivation_repl (cfg : Cfg) (fs : List (Str × FsNode)) (stdin : Str) :
    (repl cfg fs stdin).crash ≠ some .noActivation := by
  unfold repl
  dsimp only
  refine (replLoop_good cfg _ true _ ⟨?_, fun h => by cases h⟩).2
  exact StackGood.of_acts rfl (StackGood.init fs stdin cfg.pedantic true)

/-! ### non-vacuity -/

example : StackGood (St.init [] [] false false) := StackGood.init _ _ _ _
example (fuel : Nat) (s : Stmt) : StackGood ((execStmt fuel s).run.run (St.init [] [] false false)).2 :=
  (C01_no_noActivation fuel s _ (StackGood.init _ _ _ _)).1

/-- the precondition matters: on an empty stack, or on a stack of composite activations only, the crash point IS
    raised (so the theorems above are not true for trivial reasons) -/
example : (curAct.run.run { acts := [] }).1 = .error (.crash .noActivation) := rfl
example : (scopeAct.run.run { acts := [{ id := 0, name := [], isComp := true }] }).1 = .error (.crash .noActivation) := rfl
example : ¬ StackGood { acts := [] } := fun h => h.ne_nil rfl

namespace DemoG
def kw (k : TK) (v : String) : Tok := { k := k, line := 1, col := 1, val := v.toList }
/-- the global activation knows `TYPE R  DECLARE F : INTEGER  ENDTYPE` -/
def st : St :=
  { St.init [] [] false false with
    acts := [{ mkGlobal with comps := [("R".toList,
      [Stmt.declare (kw .DECLARE "DECLARE") [kw .IDENTIFIER "F"] (kw .DATA_TYPE "INTEGER")])] }] }
/-- `DECLARE X : R`: runs the TYPE body in a composite activation pushed on top of the global one -/
def stmt : Stmt := .declare (kw .DECLARE "DECLARE") [kw .IDENTIFIER "X"] (kw .IDENTIFIER "R")
def check : Except Stop Val × St → Bool
  | (.ok _, s) => s.acts.length == 1 && (s.acts.head?.map (·.vars.map (·.name))) == some ["X".toList]
  | _ => false
example : check ((execStmt 10 stmt).run.run st) = true := by decide
example : StackGood st := ⟨_, rfl, rfl⟩
example : StackGood ((execStmt 10 stmt).run.run st).2 := (C01_no_noActivation 10 stmt st ⟨_, rfl, rfl⟩).1
example : ∀ e, ((execStmt 10 stmt).run.run st).1 = .error e → e ≠ .crash .noActivation :=
  (C01_no_noActivation 10 stmt st ⟨_, rfl, rfl⟩).2
end DemoG

#print axioms C01_no_noActivation
#print axioms C01_no_noActivation_block
#print axioms C01_no_noActivation_file
#print axioms C01_no_noActivation_repl

end Pseudo.NC
