import PseudoProofs.TablesBase
namespace Pseudo

def levelOps (k : Nat) : List TK := ((Generated.exprLevels.find? (·.1 == k)).map (·.2.1)).getD []
def levelOperand (k : Nat) : String := ((Generated.exprLevels.find? (·.1 == k)).map (·.2.2)).getD ""

/-- E3: at each of the six binary levels the parser's loop condition accepts exactly the operators of the model's `levelOp` -/
theorem exprLevels_agree : Generated.exprLevelsAvailable = true →
    ∀ k ∈ [0, 1, 2, 3, 4, 5], ∀ t ∈ allTK, (levelOp k t).isSome = (levelOps k).contains t := by decide

/-- E3': each level parses its operands with the next level (the model's `parseLevel (k+1)`) -/
theorem exprLevels_chain : Generated.exprLevelsAvailable = true →
    [0, 1, 2, 3, 4, 5].map levelOperand =
      ["parseLogicalExpression", "parseComparisonExpression", "parseStringExpression", "parseArithmeticExpression", "parseTerm", "parseFactor"] := by decide


end Pseudo
