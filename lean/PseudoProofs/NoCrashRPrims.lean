import PseudoProofs.NoCrashR
/-!
# C01 with enum / pointer / record types: the primitives in the Hoare layer, part 1 (analogue of `NoCrashTPrims.lean`)
-/
namespace Pseudo.NR
open Pseudo
open Pseudo.NC (ReadsIn ActRead ErrOK ErrNR NoCrash RO EOK readsIn_iff mem_updActs updActs_ne_nil errOK_diag errNR_diag errOK_fuel
  errNR_fuel errOK_brk errOK_cont getLast?_mem ro_findAct ro_isLive ro_rtErr ro_rtErr0 ro_pedErr ro_liftMsg ro_liftMsg0 ro_readLoc
  ro_locIsConst ro_filePre ro_writeText ro_get getPath_nil setPath_nil getPath_arr_cons getPath_arr_field setPath_arr_cons
  findSlot_name findSlot_mem findSlot_cons findSlot_updSlot_eq findSlot_updSlot_ne mem_updSlot findSlot_append)

section ro
variable {α β : Type} {σ : St}

theorem WF.top (h : WF σ) : ∃ a rest, σ.acts = a :: rest := by
  cases hσ : σ.acts with
  | nil => exact absurd hσ h.ne
  | cons a rest => exact ⟨a, rest, rfl⟩

theorem WF.topOK (h : WF σ) {a : Act} {rest : List Act} (hσ : σ.acts = a :: rest) : ActOK σ rest a := by
  have := h.stack; rw [hσ] at this; exact this.1

theorem StackOK.mem {σ : St} : ∀ {acts : List Act} {a : Act}, StackOK σ acts → a ∈ acts → ∃ deeper, ActOK σ deeper a
  | b :: rest, a, h, hm => by
    rcases List.mem_cons.1 hm with rfl | hm
    · exact ⟨rest, h.1⟩
    · exact StackOK.mem h.2.2 hm

theorem WF.memOK (h : WF σ) {a : Act} (ha : a ∈ σ.acts) : ∃ deeper, ActOK σ deeper a := h.stack.mem ha

/-- an activation of a well-formed stack is the global one, or it has no type definitions and another id -/
theorem StackOK.mem_cases {σ : St} {acts : List Act} {a gl : Act} (h : StackOK σ acts) (hm : a ∈ acts)
    (hg : acts.getLast? = some gl) :
    a = gl ∨ (a.enums = [] ∧ a.ptrs = [] ∧ a.comps = [] ∧ (a.id == gl.id) = false) := by
  induction acts with
  | nil => cases hm
  | cons b rest ih =>
    cases rest with
    | nil =>
      simp at hm hg; subst hm; exact Or.inl hg
    | cons c r =>
      have hg' : (c :: r).getLast? = some gl := by simpa [List.getLast?_cons_cons] using hg
      rcases List.mem_cons.1 hm with rfl | hm
      · have hgl : gl ∈ c :: r := List.mem_of_getLast? hg'
        have hne : gl.id ≠ a.id := h.2.1 gl hgl
        exact Or.inr ⟨h.1.enums (by simp), h.1.ptrs (by simp), h.1.comps (by simp), by simpa using fun e => hne e.symm⟩
      · exact ih h.2.2 hm hg'

theorem WF.mem_cases (hW : WF σ) {a gl : Act} (ha : a ∈ σ.acts) (hg : σ.acts.getLast? = some gl) :
    a = gl ∨ (a.enums = [] ∧ a.ptrs = [] ∧ a.comps = [] ∧ (a.id == gl.id) = false) := hW.stack.mem_cases ha hg

/-- the global activation is not a record context -/
theorem StackOK.last_noncomp {σ : St} {acts : List Act} {gl : Act} (h : StackOK σ acts) (hg : acts.getLast? = some gl) :
    gl.isComp = false := by
  induction acts with
  | nil => cases hg
  | cons b rest ih =>
    cases rest with
    | nil => simp at hg; subst hg; exact h.1.glob rfl
    | cons c r => exact ih h.2.2 (by simpa [List.getLast?_cons_cons] using hg)

theorem ro_curAct (hW : WF σ) : RO curAct σ (fun a => ∃ rest, σ.acts = a :: rest) := by
  obtain ⟨a, rest, hσ⟩ := hW.top
  unfold curAct
  apply NC.RO.get_bind
  rw [hσ]
  exact ⟨rfl, ⟨rest, rfl⟩⟩

theorem ro_globalAct (hW : WF σ) : RO globalAct σ (fun g => σ.acts.getLast? = some g) := by
  unfold globalAct
  apply NC.RO.get_bind
  cases h : σ.acts.getLast? with
  | none => exact absurd (List.getLast?_eq_none_iff.1 h) hW.ne
  | some g => exact ⟨rfl, rfl⟩

/-- the scope activation: the first activation that is not a record context — it exists because the global one is none -/
theorem ro_scopeAct (hW : WF σ) : RO scopeAct σ (fun a => a ∈ σ.acts) := by
  unfold scopeAct
  apply NC.RO.get_bind
  cases hf : σ.acts.find? (fun a => !a.isComp) with
  | some a => exact ⟨rfl, List.mem_of_find?_eq_some hf⟩
  | none =>
    exfalso
    cases hg : σ.acts.getLast? with
    | none => exact hW.ne (List.getLast?_eq_none_iff.1 hg)
    | some gl =>
      have := List.find?_eq_none.1 hf gl (List.mem_of_getLast? hg)
      rw [hW.stack.last_noncomp hg] at this
      simp at this

theorem ro_typeScopeAct (hW : WF σ) : RO typeScopeAct σ (fun a => a ∈ σ.acts) := by
  unfold typeScopeAct
  apply NC.RO.get_bind
  split
  · exact (ro_globalAct hW).mono fun g hg => List.mem_of_getLast? hg
  · exact ro_scopeAct hW

theorem ro_lookupVar (hW : WF σ) (n : Str) :
    RO (lookupVar n) σ (fun r => ∃ a rest g, σ.acts = a :: rest ∧ σ.acts.getLast? = some g ∧ r = lookupVarIn a g n) := by
  unfold lookupVar
  refine NC.RO.bind (ro_curAct hW) fun a ⟨rest, ha⟩ => NC.RO.bind (ro_globalAct hW) fun g hg => ?_
  exact ⟨rfl, a, rest, g, ha, hg, rfl⟩

theorem ro_lookupArr (hW : WF σ) (n : Str) :
    RO (lookupArr n) σ (fun r => ∃ a rest g, σ.acts = a :: rest ∧ σ.acts.getLast? = some g ∧ r = lookupArrIn a g n) := by
  unfold lookupArr
  refine NC.RO.bind (ro_curAct hW) fun a ⟨rest, ha⟩ => NC.RO.bind (ro_globalAct hW) fun g hg => ?_
  exact ⟨rfl, a, rest, g, ha, hg, rfl⟩

/-- type names are looked up in the global definitions (`global := true`) -/
theorem ro_lookupList {γ : Type} (hW : WF σ) (sel : Act → List (Str × γ)) (gsel : List (Str × γ))
    (hgsel : ∀ gl, σ.acts.getLast? = some gl → sel gl = gsel)
    (hloc : ∀ a, a.enums = [] ∧ a.ptrs = [] ∧ a.comps = [] → sel a = []) (n : Str) :
    RO (lookupList sel n true) σ (· = gsel.find? (·.1 == n)) := by
  unfold lookupList
  refine NC.RO.bind (ro_typeScopeAct hW) fun a ha => NC.RO.bind (ro_globalAct hW) fun gl hg => ?_
  rcases hW.mem_cases ha hg with rfl | ⟨h1, h2, h3, hid⟩
  · rw [hgsel a hg]
    cases hf : gsel.find? (·.1 == n) with
    | some x => exact ⟨rfl, rfl⟩
    | none => simp only [beq_self_eq_true, Bool.or_true, if_true]; exact ⟨rfl, rfl⟩
  · rw [hloc a ⟨h1, h2, h3⟩, hgsel gl hg]
    simp only [List.find?, Bool.not_true, hid, Bool.or_self, Bool.false_eq_true, if_false]
    exact ⟨rfl, rfl⟩

/-- with any flag the lookup is read-only -/
theorem ro_lookupList_any {γ : Type} (hW : WF σ) (sel : Act → List (Str × γ)) (n : Str) (g : Bool) :
    RO (lookupList sel n g) σ (fun _ => True) := by
  unfold lookupList
  refine NC.RO.bind (ro_typeScopeAct hW) fun a _ => NC.RO.bind (ro_globalAct hW) fun gl _ => ?_
  split
  · exact ⟨rfl, trivial⟩
  · split <;> exact ⟨rfl, trivial⟩

theorem genums_last {gl : Act} (hg : σ.acts.getLast? = some gl) : genums σ = gl.enums := by unfold genums; rw [hg]
theorem gptrs_last {gl : Act} (hg : σ.acts.getLast? = some gl) : gptrs σ = gl.ptrs := by unfold gptrs; rw [hg]
theorem gcomps_last {gl : Act} (hg : σ.acts.getLast? = some gl) : gcomps σ = gl.comps := by unfold gcomps; rw [hg]

theorem ro_enumDefOf (hW : WF σ) (n : Str) : RO (enumDefOf n true) σ (· = (genums σ).find? (·.1 == n)) :=
  ro_lookupList hW _ _ (fun _ hg => (genums_last hg).symm) (fun _ h => h.1) n

theorem ro_ptrDefOf (hW : WF σ) (n : Str) : RO (ptrDefOf n true) σ (· = (gptrs σ).find? (·.1 == n)) :=
  ro_lookupList hW _ _ (fun _ hg => (gptrs_last hg).symm) (fun _ h => h.2.1) n

theorem ro_compDefOf (hW : WF σ) (n : Str) : RO (compDefOf n true) σ (· = (gcomps σ).find? (·.1 == n)) :=
  ro_lookupList hW _ _ (fun _ hg => (gcomps_last hg).symm) (fun _ h => h.2.2) n

theorem ro_compDefOf_any (hW : WF σ) (n : Str) (g : Bool) : RO (compDefOf n g) σ (fun _ => True) :=
  ro_lookupList_any hW _ n g

theorem find_key {γ : Type} {l : List (Str × γ)} {n : Str} {x : Str × γ} (h : l.find? (·.1 == n) = some x) : x.1 = n := by
  have := List.find?_some h
  simpa using this

theorem ro_getType (hW : WF σ) (t : Tok) : RO (getType t true) σ (· = typeOfTok σ t) := by
  unfold getType typeOfTok
  split
  · repeat' split
    all_goals exact ⟨rfl, rfl⟩
  · refine NC.RO.bind (ro_enumDefOf hW _) fun e he => ?_
    subst he
    cases (genums σ).find? (·.1 == t.val) with
    | some x => exact ⟨rfl, rfl⟩
    | none =>
      dsimp only
      refine NC.RO.bind (ro_ptrDefOf hW _) fun e he => ?_
      subst he
      cases (gptrs σ).find? (·.1 == t.val) with
      | some x => exact ⟨rfl, rfl⟩
      | none =>
        dsimp only
        refine NC.RO.bind (ro_compDefOf hW _) fun e he => ?_
        subst he
        cases (gcomps σ).find? (·.1 == t.val) with
        | some x => exact ⟨rfl, rfl⟩
        | none => exact ⟨rfl, rfl⟩

theorem typeOfTok_wf (hW : WF σ) (t : Tok) : TyWF σ (typeOfTok σ t) := by
  unfold typeOfTok
  split
  · repeat' split
    all_goals trivial
  · cases hf : (genums σ).find? (·.1 == t.val) with
    | some x =>
      obtain ⟨n, vals⟩ := x
      have hk : n = t.val := find_key hf
      subst hk
      exact ⟨vals, by unfold enumLk; rw [hf]; rfl, (hW.glob.enums _ (List.mem_of_find?_eq_some hf)).2⟩
    | none =>
      dsimp only
      cases hp : (gptrs σ).find? (·.1 == t.val) with
      | some x =>
        obtain ⟨n, tg⟩ := x
        have hk : n = t.val := find_key hp
        subst hk
        exact ⟨tg, by unfold ptrLk; rw [hp]; rfl⟩
      | none =>
        dsimp only
        cases hc : (gcomps σ).find? (·.1 == t.val) with
        | some x =>
          obtain ⟨n, b⟩ := x
          have hk : n = t.val := find_key hc
          subst hk
          exact ⟨b, by unfold compLk; rw [hc]; rfl⟩
        | none => trivial

theorem typeOfTok_none {t : Tok} (hk : (t.k == .DATA_TYPE) = false) (h : typeOfTok σ t = .none) :
    (genums σ).find? (·.1 == t.val) = none ∧ (gptrs σ).find? (·.1 == t.val) = none ∧
    (gcomps σ).find? (·.1 == t.val) = none := by
  unfold typeOfTok at h
  rw [hk] at h
  simp only [Bool.false_eq_true, if_false] at h
  cases hf : (genums σ).find? (·.1 == t.val) with
  | some x => rw [hf] at h; cases h
  | none =>
    rw [hf] at h
    cases hp : (gptrs σ).find? (·.1 == t.val) with
    | some x => rw [hp] at h; cases h
    | none =>
      rw [hp] at h
      cases hc : (gcomps σ).find? (·.1 == t.val) with
      | some x => rw [hc] at h; cases h
      | none => exact ⟨rfl, rfl, rfl⟩

theorem typeOfTok_dataType {t : Tok} (hk : (t.k == .DATA_TYPE) = true) : typeOfTok σ t ≠ .none := by
  unfold typeOfTok
  rw [hk]
  simp only [if_true]
  repeat' split
  all_goals (intro h; cases h)

/-- the enum element a name denotes, given the global definitions -/
def enumElemG (σ : St) (v : Str) : Option Val :=
  (genums σ).findSome? fun (n, vals) =>
    match vals.findIdx? (· == v) with
    | some i => some (.enum n i)
    | none => none

theorem ro_getEnumElement (hW : WF σ) (v : Str) : RO (getEnumElement v true) σ (· = enumElemG σ v) := by
  unfold getEnumElement
  refine NC.RO.bind (ro_typeScopeAct hW) fun a ha => NC.RO.bind (ro_globalAct hW) fun gl hg => ?_
  rcases hW.mem_cases ha hg with rfl | ⟨he, _, _, hid⟩
  · have : enumElemIn a v = enumElemG σ v := by unfold enumElemIn enumElemG; rw [genums_last hg]; rfl
    rw [this]
    cases enumElemG σ v with
    | some x => exact ⟨rfl, rfl⟩
    | none => simp only [beq_self_eq_true, Bool.or_true, if_true]; exact ⟨rfl, rfl⟩
  · have h1 : enumElemIn a v = none := by unfold enumElemIn; rw [he]; rfl
    have h2 : enumElemIn gl v = enumElemG σ v := by unfold enumElemIn enumElemG; rw [genums_last hg]; rfl
    rw [h1, h2]
    simp only [Bool.not_true, hid, Bool.or_self, Bool.false_eq_true, if_false]
    exact ⟨rfl, rfl⟩

theorem enumElemG_local (hW : WF σ) {v : Str} {x : Val} (h : enumElemG σ v = some x) :
    (∃ n i, x = .enum n i) ∧ Local σ x := by
  unfold enumElemG at h
  obtain ⟨⟨n, vals⟩, hmem, hx⟩ := List.exists_of_findSome?_eq_some h
  dsimp only at hx
  cases hi : vals.findIdx? (· == v) with
  | none => rw [hi] at hx; cases hx
  | some i =>
    rw [hi] at hx; cases hx
    refine ⟨⟨n, i, rfl⟩, vals, ?_, ?_⟩
    · unfold enumLk; rw [(hW.glob.enums _ hmem).1]; rfl
    · exact (List.findIdx?_eq_some_iff_findIdx_eq.1 hi).1

theorem ro_isIdentifierType (hW : WF σ) (t : Tok) :
    RO (isIdentifierType t true) σ (fun b => b = false → typeOfTok σ t = .none ∧ enumElemG σ t.val = none) := by
  unfold isIdentifierType
  refine NC.RO.bind (ro_getType hW t) fun ty hty => ?_
  subst hty
  split
  · exact ⟨rfl, fun h => by cases h⟩
  · rename_i hne
    have hn : typeOfTok σ t = .none := by simpa using hne
    refine NC.RO.bind (ro_getEnumElement hW _) fun r hr => ?_
    subst hr
    refine ⟨rfl, fun h => ⟨hn, ?_⟩⟩
    cases he : enumElemG σ t.val with
    | none => rfl
    | some x => rw [he] at h; simp at h

/-- OUTPUT text of a value whose root node is fine (an array has no text: `none`) -/
theorem ro_outputText (hW : WF σ) {v : Val} (hv : Local σ v) : RO (outputText v) σ (fun _ => True) := by
  unfold outputText
  cases v with
  | enum ty i =>
    dsimp only
    refine NC.RO.bind (ro_enumDefOf hW ty) fun r hr => ?_
    subst hr
    obtain ⟨vals, hl, hi⟩ := hv
    unfold enumLk at hl
    cases hf : (genums σ).find? (·.1 == ty) with
    | none => rw [hf] at hl; cases hl
    | some x =>
      rw [hf] at hl
      obtain ⟨n, vs⟩ := x
      simp only [Option.map_some, Option.some.injEq] at hl
      subst hl
      dsimp only
      rw [List.getElem?_eq_getElem hi]
      exact ⟨rfl, trivial⟩
  | _ => exact ⟨rfl, trivial⟩

/-- the enum definitions the record codec sees are the global ones -/
theorem ro_codecDefs (hW : WF σ) :
    RO codecDefs σ (fun d => ∀ n, d.enumDef n = (genums σ).find? (·.1 == n)) := by
  unfold codecDefs
  refine NC.RO.bind (ro_scopeAct hW) fun a ha => NC.RO.bind (ro_globalAct hW) fun gl hg => ?_
  refine ⟨rfl, fun n => ?_⟩
  dsimp only
  rcases hW.mem_cases ha hg with rfl | ⟨he, _, _, hid⟩
  · rw [genums_last hg]
    cases a.enums.find? (·.1 == n) with
    | some x => rfl
    | none => simp
  · rw [he, genums_last hg]
    simp [hid]

end ro

/-! ### state-changing steps -/

set_option linter.unusedSectionVars false

section changing
variable {α β : Type} {σ : St} {E : St → Stop → Prop} [EOK E]

/-- a step that leaves the stack, `nextId`, the procedures and the functions alone and raises only diagnostics -/
theorem run_frame {m : M α} {Q : α → St → Prop} (hW : WF σ)
    (h : (m.run.run σ).2.acts = σ.acts ∧ (m.run.run σ).2.nextId = σ.nextId ∧ (m.run.run σ).2.procs = σ.procs ∧
      (m.run.run σ).2.funs = σ.funs ∧
      match (m.run.run σ).1 with | .ok a => Q a (m.run.run σ).2 | .error e => ∃ d, e = .diag d) :
    Run m σ (ResE σ Q E) := by
  obtain ⟨h1, h2, h3, h4, h5⟩ := h
  refine ⟨hW.of_acts_eq h1 h2 h3 h4, Ext.of_acts_eq h1 h2, ?_⟩
  split <;> rename_i heq <;> rw [heq] at h5
  · exact h5
  · obtain ⟨d, rfl⟩ := h5; exact EOK.of_nr _ _ (errNR_diag _ d)

theorem run_modify_frame (hW : WF σ) (f : St → St) (h1 : (f σ).acts = σ.acts) (h2 : (f σ).nextId = σ.nextId)
    (h3 : (f σ).procs = σ.procs) (h4 : (f σ).funs = σ.funs) :
    Run (modify f : M PUnit) σ (ResE σ (fun _ _ => True) E) :=
  run_frame hW ⟨h1, h2, h3, h4, trivial⟩

theorem run_emit (hW : WF σ) (x : Str) : Run (emit x) σ (ResE σ (fun _ _ => True) E) :=
  run_modify_frame hW _ rfl rfl rfl rfl

theorem run_tick (hW : WF σ) (t : Tok) : Run (tick t) σ (ResE σ (fun _ _ => True) E) := by
  apply run_frame hW
  unfold tick
  rw [run_bind_ok _ _ _ _ _ (run_get σ)]
  split
  · obtain ⟨d, hd, _⟩ := rtErr_run (α := Unit) t .budget σ
    rw [hd]; exact ⟨rfl, rfl, rfl, rfl, d, rfl⟩
  · exact ⟨rfl, rfl, rfl, rfl, trivial⟩

theorem run_getLine (hW : WF σ) : Run getLine σ (ResE σ (fun _ _ => True) E) := by
  apply run_frame hW
  unfold getLine
  rw [run_bind_ok _ _ _ _ _ (run_get σ)]
  split
  · exact ⟨rfl, rfl, rfl, rfl, trivial⟩
  · dsimp only
    split <;> exact ⟨rfl, rfl, rfl, rfl, trivial⟩

theorem run_doFile (hW : WF σ) (t : Tok) (op : FOp) :
    Run (doFile t op) σ (ResE σ (fun r _ => ∃ s s', fstep s op = .ok (s', r)) E) := by
  apply run_frame hW
  unfold doFile
  rw [run_bind_ok _ _ _ _ _ (run_get σ)]
  split
  · rename_i f r heq
    exact ⟨rfl, rfl, rfl, rfl, _, _, heq⟩
  · rename_i m _
    obtain ⟨d, hd, _⟩ := rtErr_run (α := FRes) t m σ
    rw [hd]; exact ⟨rfl, rfl, rfl, rfl, d, rfl⟩

theorem run_doFile0 (hW : WF σ) (op : FOp) :
    Run (doFile0 op) σ (ResE σ (fun r _ => ∃ s s', fstep s op = .ok (s', r)) E) := by
  apply run_frame hW
  unfold doFile0
  rw [run_bind_ok _ _ _ _ _ (run_get σ)]
  split
  · rename_i f r heq
    exact ⟨rfl, rfl, rfl, rfl, _, _, heq⟩
  · rename_i m _
    obtain ⟨d, hd, _⟩ := rtErr0_run (α := FRes) m σ
    rw [hd]; exact ⟨rfl, rfl, rfl, rfl, d, rfl⟩

theorem run_addProc (hW : WF σ) (p : ProcDef) (hp : ProcOK σ p) :
    Run (modify fun st => { st with procs := st.procs ++ [p] } : M PUnit) σ (ResE σ (fun _ _ => True) E) := by
  have hE : Ext σ { σ with procs := σ.procs ++ [p] } := Ext.of_acts_eq rfl rfl
  refine ⟨⟨hW.ne, hW.stack.mono (ValMono.of_ext hE), hW.below, ?_, fun q hq => (hW.funs q hq).ext hE,
    GlobOK.of_acts_eq (σ := σ) rfl hW.glob⟩, hE, trivial⟩
  intro q hq
  rcases List.mem_append.1 hq with hq | hq
  · exact (hW.procs q hq).ext hE
  · rw [List.mem_singleton.1 hq]; exact hp.ext hE

theorem run_addFun (hW : WF σ) (p : FunDef) (hp : FunOK σ p) :
    Run (modify fun st => { st with funs := st.funs ++ [p] } : M PUnit) σ (ResE σ (fun _ _ => True) E) := by
  have hE : Ext σ { σ with funs := σ.funs ++ [p] } := Ext.of_acts_eq rfl rfl
  refine ⟨⟨hW.ne, hW.stack.mono (ValMono.of_ext hE), hW.below, fun q hq => (hW.procs q hq).ext hE, ?_,
    GlobOK.of_acts_eq (σ := σ) rfl hW.glob⟩, hE, trivial⟩
  intro q hq
  rcases List.mem_append.1 hq with hq | hq
  · exact (hW.funs q hq).ext hE
  · rw [List.mem_singleton.1 hq]; exact hp.ext hE

/-- `modifyAct` with an update that keeps the readable cells, the well-formedness of the activation and the definitions -/
theorem run_modifyAct (hW : WF σ) (id : Nat) (f : Act → Act)
    (hk : ∀ a ∈ σ.acts, a.id = id → ActKeep a (f a))
    (hok : ∀ deeper a, a ∈ σ.acts → a.id = id → ActOK σ deeper a → ActOK σ deeper (f a))
    (hd : ∀ a, (f a).enums = a.enums ∧ (f a).ptrs = a.ptrs ∧ (f a).comps = a.comps) :
    Run (modifyAct id f) σ (ResE σ (fun _ σ' => σ' = updSt σ id f) E) :=
  ⟨hW.updSt hk hok (DefsExt.upd hd) (hW.glob.upd hd), Ext.updSt hk (DefsExt.upd hd), rfl⟩

/-- updates of the bookkeeping fields -/
theorem ActKeep.of_eq {a a' : Act} (h1 : a'.id = a.id) (h2 : a'.isFn = a.isFn) (h3 : a'.vars = a.vars)
    (h4 : a'.arrs = a.arrs) : ActKeep a a' :=
  ⟨h1, h2, fun isArr name path v ⟨s, hs, hp⟩ => ⟨v, ⟨s, by rw [h3, h4]; exact hs, hp⟩, SameKind.refl v⟩⟩

theorem run_setSwitchTok (hW : WF σ) (id : Nat) (v : Option (Nat × Nat)) :
    Run (modifyAct id fun a => { a with switchTok := v }) σ (ResE σ (fun _ _ => True) E) := by
  refine (run_modifyAct (E := E) hW id (fun a => { a with switchTok := v }) (fun _ _ _ => ActKeep.of_eq rfl rfl rfl rfl)
    (fun _ _ _ _ h => ⟨h.vars, h.arrs, h.enums, h.ptrs, h.comps, h.compRef, h.glob, h.retVal⟩) (fun _ => ⟨rfl, rfl, rfl⟩)).mono ?_
  exact fun _ _ h => h.weaken (fun _ _ => trivial) (fun _ e => e)

theorem run_setRetVal (hW : WF σ) (id : Nat) (v : Val) (hs : NArr v = true) (hv : Good σ v) :
    Run (modifyAct id fun a => { a with retVal := some v }) σ (ResE σ (fun _ _ => True) E) := by
  refine (run_modifyAct (E := E) hW id (fun a => { a with retVal := some v }) (fun _ _ _ => ActKeep.of_eq rfl rfl rfl rfl)
    (fun _ _ _ _ h => ⟨h.vars, h.arrs, h.enums, h.ptrs, h.comps, h.compRef, h.glob, fun x hx => ?_⟩) (fun _ => ⟨rfl, rfl, rfl⟩)).mono ?_
  · simp only [Option.some.injEq] at hx; subst hx; exact ⟨hs, hv⟩
  · exact fun _ _ h => h.weaken (fun _ _ => trivial) (fun _ e => e)

theorem run_modifyCur (hW : WF σ) (f : Act → Act)
    (hk : ∀ a, ActKeep a (f a)) (hok : ∀ deeper a, ActOK σ deeper a → ActOK σ deeper (f a))
    (hd : ∀ a, (f a).enums = a.enums ∧ (f a).ptrs = a.ptrs ∧ (f a).comps = a.comps) :
    Run (modifyCur f) σ (ResE σ (fun _ σ' => ∀ a rest, σ.acts = a :: rest → σ'.acts = f a :: rest) E) := by
  obtain ⟨a, rest, hσ⟩ := hW.top
  have hrun : (modifyCur f).run.run σ = (.ok ⟨⟩, updSt σ a.id f) := by
    unfold modifyCur
    have hc : curAct.run.run σ = (.ok a, σ) := by
      unfold curAct
      rw [run_bind_ok _ _ _ _ _ (run_get σ), hσ]; rfl
    rw [run_bind_ok _ _ _ _ _ hc]
    rfl
  unfold Run
  rw [hrun]
  refine ⟨hW.updSt (fun b _ _ => hk b) (fun d b _ _ => hok d b) (DefsExt.upd hd) (hW.glob.upd hd),
    Ext.updSt (fun b _ _ => hk b) (DefsExt.upd hd), ?_⟩
  intro a' rest' h
  rw [hσ] at h; cases h
  show updActs σ.acts a.id f = _
  rw [hσ]; unfold updActs; simp

/-- appending a variable with an own cell -/
theorem run_addVar (hW : WF σ) (s : Slot) (h1 : s.ref = none) (h2 : CellOK σ s.ty s.val) :
    Run (addVar s) σ (ResE σ (fun _ σ' => ∀ a rest, σ.acts = a :: rest → findSlot a.vars s.name = none →
      ReadsIn σ'.acts ⟨a.id, false, s.name, []⟩ s.val) E) := by
  unfold addVar
  have hk : ∀ a : Act, ActKeep a { a with vars := a.vars ++ [s] } := by
    intro a
    refine ⟨rfl, rfl, fun isArr name path v ⟨s0, hs0, hp⟩ => ⟨v, ⟨s0, ?_, hp⟩, SameKind.refl v⟩⟩
    cases isArr
    · simp only [Bool.false_eq_true, if_false] at hs0 ⊢
      rw [findSlot_append, hs0]; rfl
    · exact hs0
  refine (run_modifyCur (E := E) hW _ hk ?_ ?_).mono fun r σ' h => ?_
  · intro d a h
    refine ⟨fun s' hs' => ?_, h.arrs, h.enums, h.ptrs, h.comps, fun hc s' hs' => ?_, h.glob, h.retVal⟩
    · rcases List.mem_append.1 hs' with hs' | hs'
      · exact h.vars s' hs'
      · rw [List.mem_singleton.1 hs']
        unfold SlotOK; rw [h1]; exact h2
    · rcases List.mem_append.1 hs' with hs' | hs'
      · exact h.compRef hc s' hs'
      · rw [List.mem_singleton.1 hs']; exact h1
  · exact fun _ => ⟨rfl, rfl, rfl⟩
  · refine h.weaken (fun _ hq a rest hσ hnone => ?_) (fun _ e => e)
    rw [hq a rest hσ]
    refine (NC.ReadsIn.cons_eq rfl).2 ⟨s, ?_, rfl⟩
    simp only [Bool.false_eq_true, if_false]
    rw [findSlot_append, hnone]
    simp

theorem run_addArr (hW : WF σ) (s : Slot) (hs : ArrSlotOK σ s) :
    Run (addArr s) σ (ResE σ (fun _ _ => True) E) := by
  unfold addArr
  have hk : ∀ a : Act, ActKeep a { a with arrs := a.arrs ++ [s] } := by
    intro a
    refine ⟨rfl, rfl, fun isArr name path v ⟨s0, hs0, hp⟩ => ⟨v, ⟨s0, ?_, hp⟩, SameKind.refl v⟩⟩
    cases isArr
    · exact hs0
    · simp only [if_true] at hs0 ⊢
      rw [findSlot_append, hs0]; rfl
  refine (run_modifyCur (E := E) hW _ hk ?_ ?_).mono fun r σ' h => h.weaken (fun _ _ => trivial) (fun _ e => e)
  · intro d a h
    refine ⟨h.vars, fun s' hs' => ?_, h.enums, h.ptrs, h.comps, h.compRef, h.glob, h.retVal⟩
    rcases List.mem_append.1 hs' with hs' | hs'
    · exact h.arrs s' hs'
    · rw [List.mem_singleton.1 hs']; exact hs
  · exact fun _ => ⟨rfl, rfl, rfl⟩



/-! ### TYPE statements at top level -/

theorem run_modifyCur_eq {g : Act} (hσ : σ.acts = [g]) (f : Act → Act) :
    (modifyCur f).run.run σ = (.ok ⟨⟩, { σ with acts := [f g] }) := by
  unfold modifyCur
  have hc : curAct.run.run σ = (.ok g, σ) := by
    unfold curAct
    rw [run_bind_ok _ _ _ _ _ (run_get σ), hσ]; rfl
  rw [run_bind_ok _ _ _ _ _ hc]
  show (Except.ok PUnit.unit, updSt σ g.id f) = _
  unfold updSt
  rw [hσ]
  simp [updActs]

/-- an update of the global activation when it is the only one -/
theorem run_modifyCur_top (hW : WF σ) {g : Act} (hσ : σ.acts = [g]) (f : Act → Act) (hk : ActKeep g (f g))
    (hvars : (f g).vars = g.vars) (harrs : (f g).arrs = g.arrs)
    (hisComp : (f g).isComp = g.isComp) (hret : (f g).retVal = g.retVal)
    (hd : DefsExt σ { σ with acts := [f g] }) (hglob : GlobOK { σ with acts := [f g] }) :
    Run (modifyCur f) σ (ResE σ (fun _ _ => True) E) := by
  have hE : Ext σ { σ with acts := [f g] } := by
    refine ⟨?_, Nat.le_refl _, ?_, hd.enums, hd.ptrs, hd.comps, hd.toks⟩
    · rw [hσ]; simp [hk.id, hk.isFn]
    · intro l v hr
      rw [hσ] at hr
      by_cases hid : g.id = l.act
      · obtain ⟨v', hr', k⟩ := hk.reads _ _ _ _ ((NC.ReadsIn.cons_eq hid).1 hr)
        exact ⟨v', (NC.ReadsIn.cons_eq (hk.id.trans hid)).2 hr', k⟩
      · have := (NC.ReadsIn.cons_ne hid).1 hr
        obtain ⟨a, _, h1, _⟩ := this
        simp at h1
  unfold Run
  rw [run_modifyCur_eq hσ f]
  have hok := hW.topOK hσ
  refine ⟨⟨by simp, ⟨?_, by simp, trivial⟩, ?_, fun p hp => (hW.procs p hp).ext hE, fun p hp => (hW.funs p hp).ext hE, hglob⟩,
    hE, trivial⟩
  · have hm := ValMono.of_ext hE
    exact ⟨fun s hs => ((hok.vars s (hvars ▸ hs))).mono hm, fun s hs => (hok.arrs s (harrs ▸ hs)).mono hm,
      fun h => absurd rfl h, fun h => absurd rfl h, fun h => absurd rfl h,
      fun hc s hs => hok.compRef (hisComp ▸ hc) s (hvars ▸ hs), fun _ => hisComp.trans (hok.glob rfl),
      fun v hv => ⟨(hok.retVal v (hret ▸ hv)).1, hm _ (hok.retVal v (hret ▸ hv)).2⟩⟩
  · intro b hb
    simp only [List.mem_singleton] at hb
    subst hb
    rw [hk.id]
    exact hW.below g (by rw [hσ]; simp)

theorem genums_single {g : Act} : genums { σ with acts := [g] } = g.enums := rfl
theorem gptrs_single {g : Act} : gptrs { σ with acts := [g] } = g.ptrs := rfl
theorem gcomps_single {g : Act} : gcomps { σ with acts := [g] } = g.comps := rfl

/-- appending a definition under a fresh name does not change what the old type tokens denote -/
theorem typeOfTok_fresh {σ' : St} (name : Str)
    (he : ∀ n, n ≠ name → (genums σ').find? (·.1 == n) = (genums σ).find? (·.1 == n))
    (hp : ∀ n, n ≠ name → (gptrs σ').find? (·.1 == n) = (gptrs σ).find? (·.1 == n))
    (hc : ∀ n, n ≠ name → (gcomps σ').find? (·.1 == n) = (gcomps σ).find? (·.1 == n))
    (hfresh : (genums σ).find? (·.1 == name) = none ∧ (gptrs σ).find? (·.1 == name) = none ∧
      (gcomps σ).find? (·.1 == name) = none) :
    ∀ t, typeOfTok σ t ≠ .none → typeOfTok σ' t = typeOfTok σ t := by
  intro t ht
  unfold typeOfTok at ht ⊢
  split
  · rfl
  · rename_i hk
    simp only [hk, Bool.false_eq_true, if_false] at ht
    by_cases hn : t.val = name
    · rw [hn] at ht
      rw [hfresh.1, hfresh.2.1, hfresh.2.2] at ht
      exact absurd rfl ht
    · rw [he _ hn, hp _ hn, hc _ hn]

theorem find_append_ne {γ : Type} (l : List (Str × γ)) (x : Str × γ) {n : Str} (h : n ≠ x.1) :
    (l ++ [x]).find? (·.1 == n) = l.find? (·.1 == n) := by
  rw [List.find?_append]
  have : (x.1 == n) = false := by simpa using fun e => h e.symm
  simp [List.find?, this]

/-- the three lookups for a fresh name all fail -/
def Fresh (σ : St) (name : Str) : Prop :=
  (genums σ).find? (·.1 == name) = none ∧ (gptrs σ).find? (·.1 == name) = none ∧ (gcomps σ).find? (·.1 == name) = none

/-- `TYPE name = (v1, …)` at top level with a fresh name -/
theorem run_addEnum (hW : WF σ) {g : Act} (hσ : σ.acts = [g]) (name : Str) (vals : List Str) (hne : vals ≠ [])
    (hfresh : Fresh σ name) :
    Run (modifyCur fun a => { a with enums := a.enums ++ [(name, vals)] }) σ (ResE σ (fun _ _ => True) E) := by
  have hge : genums σ = g.enums := by unfold genums; rw [hσ]; rfl
  have hgp : gptrs σ = g.ptrs := by unfold gptrs; rw [hσ]; rfl
  have hgc : gcomps σ = g.comps := by unfold gcomps; rw [hσ]; rfl
  have hd : DefsExt σ { σ with acts := [{ g with enums := g.enums ++ [(name, vals)] }] } := by
    refine ⟨by rw [genums_single, hge]; exact List.prefix_append _ _, by rw [gptrs_single, hgp]; exact List.prefix_refl _,
      by rw [gcomps_single, hgc]; exact List.prefix_refl _, ?_⟩
    refine typeOfTok_fresh name (fun n hn => ?_) (fun n _ => by rw [gptrs_single, hgp]) (fun n _ => by rw [gcomps_single, hgc]) hfresh
    rw [genums_single, hge]; exact find_append_ne _ _ hn
  refine run_modifyCur_top hW hσ _ ⟨rfl, rfl, fun _ _ _ v h => ⟨v, h, SameKind.refl v⟩⟩ rfl rfl rfl rfl hd ⟨?_, ?_, ?_⟩
  · rw [genums_single]
    intro e he
    rcases List.mem_append.1 he with he | he
    · have := hW.glob.enums e (hge ▸ he)
      rw [hge] at this
      exact ⟨find_prefix (List.prefix_append _ _) this.1, this.2⟩
    · rw [List.mem_singleton.1 he]
      have hf := hfresh.1
      rw [hge] at hf
      refine ⟨?_, hne⟩
      rw [List.find?_append, hf]
      simp [List.find?]
  · rw [gptrs_single]
    exact fun p hp => (hW.glob.ptrs p (hgp ▸ hp)).ext hd
  · rw [gcomps_single]
    exact fun c hc => hW.glob.comps c (hgc ▸ hc)

/-- `TYPE name = ^target` at top level with a fresh name -/
theorem run_addPtr (hW : WF σ) {g : Act} (hσ : σ.acts = [g]) (name : Str) (tg : Ty) (htg : TyWF σ tg) (hfresh : Fresh σ name) :
    Run (modifyCur fun a => { a with ptrs := a.ptrs ++ [(name, tg)] }) σ (ResE σ (fun _ _ => True) E) := by
  have hge : genums σ = g.enums := by unfold genums; rw [hσ]; rfl
  have hgp : gptrs σ = g.ptrs := by unfold gptrs; rw [hσ]; rfl
  have hgc : gcomps σ = g.comps := by unfold gcomps; rw [hσ]; rfl
  have hd : DefsExt σ { σ with acts := [{ g with ptrs := g.ptrs ++ [(name, tg)] }] } := by
    refine ⟨by rw [genums_single, hge]; exact List.prefix_refl _, by rw [gptrs_single, hgp]; exact List.prefix_append _ _,
      by rw [gcomps_single, hgc]; exact List.prefix_refl _, ?_⟩
    refine typeOfTok_fresh name (fun n _ => by rw [genums_single, hge]) (fun n hn => ?_) (fun n _ => by rw [gcomps_single, hgc]) hfresh
    rw [gptrs_single, hgp]; exact find_append_ne _ _ hn
  refine run_modifyCur_top hW hσ _ ⟨rfl, rfl, fun _ _ _ v h => ⟨v, h, SameKind.refl v⟩⟩ rfl rfl rfl rfl hd ⟨?_, ?_, ?_⟩
  · rw [genums_single]
    intro e he
    have := hW.glob.enums e (hge ▸ he)
    rw [hge] at this
    exact this
  · rw [gptrs_single]
    intro p hp
    rcases List.mem_append.1 hp with hp | hp
    · exact (hW.glob.ptrs p (hgp ▸ hp)).ext hd
    · rw [List.mem_singleton.1 hp]; exact htg.ext hd
  · rw [gcomps_single]
    exact fun c hc => hW.glob.comps c (hgc ▸ hc)

/-- `TYPE name … ENDTYPE` at top level with a fresh name and a body of DECLAREs -/
theorem run_addComp (hW : WF σ) {g : Act} (hσ : σ.acts = [g]) (name : Str) (body : Block) (hbody : declBody body = true)
    (hfresh : Fresh σ name) :
    Run (modifyCur fun a => { a with comps := a.comps ++ [(name, body)] }) σ (ResE σ (fun _ _ => True) E) := by
  have hge : genums σ = g.enums := by unfold genums; rw [hσ]; rfl
  have hgp : gptrs σ = g.ptrs := by unfold gptrs; rw [hσ]; rfl
  have hgc : gcomps σ = g.comps := by unfold gcomps; rw [hσ]; rfl
  have hd : DefsExt σ { σ with acts := [{ g with comps := g.comps ++ [(name, body)] }] } := by
    refine ⟨by rw [genums_single, hge]; exact List.prefix_refl _, by rw [gptrs_single, hgp]; exact List.prefix_refl _,
      by rw [gcomps_single, hgc]; exact List.prefix_append _ _, ?_⟩
    refine typeOfTok_fresh name (fun n _ => by rw [genums_single, hge]) (fun n _ => by rw [gptrs_single, hgp]) (fun n hn => ?_) hfresh
    rw [gcomps_single, hgc]; exact find_append_ne _ _ hn
  refine run_modifyCur_top hW hσ _ ⟨rfl, rfl, fun _ _ _ v h => ⟨v, h, SameKind.refl v⟩⟩ rfl rfl rfl rfl hd ⟨?_, ?_, ?_⟩
  · rw [genums_single]
    intro e he
    have := hW.glob.enums e (hge ▸ he)
    rw [hge] at this
    exact this
  · rw [gptrs_single]
    exact fun p hp => (hW.glob.ptrs p (hgp ▸ hp)).ext hd
  · rw [gcomps_single]
    intro c hc
    rcases List.mem_append.1 hc with hc | hc
    · exact hW.glob.comps c (hgc ▸ hc)
    · rw [List.mem_singleton.1 hc]; exact hbody

/-! ### the bracket `withAct` -/

/-- `Local` only depends on the definitions, the id counter, liveness and readability -/
theorem Local.transfer {σ σ' : St} (he : genums σ' = genums σ) (hp : gptrs σ' = gptrs σ) (hc : gcomps σ' = gcomps σ)
    (htgt : ∀ l tg, TgtOK σ l tg → TgtOK σ' l tg) {v : Val} (h : Local σ v) : Local σ' v := by
  have htok : ∀ t, typeOfTok σ' t = typeOfTok σ t := by intro t; unfold typeOfTok; rw [he, hp, hc]
  have hms : ∀ body, memSig σ' body = memSig σ body := by
    intro body
    have hs : ∀ b : List Stmt, scalSig σ' b = scalSig σ b := by
      intro b
      induction b with
      | nil => rfl
      | cons st r ih => cases st <;> simp only [scalSig, ih, htok]
    have ha : ∀ b : List Stmt, arrSig σ' b = arrSig σ b := by
      intro b
      induction b with
      | nil => rfl
      | cons st r ih => cases st <;> simp only [arrSig, ih, htok]
    unfold memSig; rw [hs, ha]
  cases v <;> try exact h
  · obtain ⟨vals, h1, h2⟩ := h
    exact ⟨vals, by unfold enumLk at *; rw [he]; exact h1, h2⟩
  · obtain ⟨tg, h1, h2⟩ := h
    exact ⟨tg, by unfold ptrLk at *; rw [hp]; exact h1, fun l hl => htgt l tg (h2 l hl)⟩
  · obtain ⟨body, h1, h2, h3⟩ := h
    exact ⟨body, by unfold compLk at *; rw [hc]; exact h1, by rw [hms]; exact h2, by rw [hms]; exact h3⟩

theorem genums_push (hne : σ.acts ≠ []) (mk : Nat → Act) : genums (pushSt mk σ) = genums σ := by
  unfold genums pushSt
  cases h : σ.acts with
  | nil => exact absurd h hne
  | cons a r => simp [List.getLast?_cons_cons]
theorem gptrs_push (hne : σ.acts ≠ []) (mk : Nat → Act) : gptrs (pushSt mk σ) = gptrs σ := by
  unfold gptrs pushSt
  cases h : σ.acts with
  | nil => exact absurd h hne
  | cons a r => simp [List.getLast?_cons_cons]
theorem gcomps_push (hne : σ.acts ≠ []) (mk : Nat → Act) : gcomps (pushSt mk σ) = gcomps σ := by
  unfold gcomps pushSt
  cases h : σ.acts with
  | nil => exact absurd h hne
  | cons a r => simp [List.getLast?_cons_cons]

/-- values stay fine when a fresh activation is pushed -/
theorem ValMono.push (hne : σ.acts ≠ []) {mk : Nat → Act} (hmk : ∀ i, (mk i).id = i) : ValMono σ (pushSt mk σ) := by
  intro v hv p w hp
  refine (hv p w hp).transfer (genums_push hne mk) (gptrs_push hne mk) (gcomps_push hne mk) fun l tg ht => ?_
  obtain ⟨hlt, hlive⟩ := ht
  refine ⟨Nat.lt_succ_of_lt hlt, fun hL => ?_⟩
  obtain ⟨b, hb, hbid⟩ := hL
  have hb' : b ∈ σ.acts := by
    rcases List.mem_cons.1 hb with rfl | hb
    · rw [hmk] at hbid; exact absurd hbid (Nat.ne_of_gt hlt)
    · exact hb
  obtain ⟨w', hr, hk⟩ := hlive ⟨b, hb', hbid⟩
  refine ⟨w', ?_, hk⟩
  show ReadsIn (mk σ.nextId :: σ.acts) l w'
  exact (NC.ReadsIn.cons_ne (by rw [hmk]; exact Nat.ne_of_gt hlt)).2 hr

theorem DefsExt.push (hne : σ.acts ≠ []) (mk : Nat → Act) : DefsExt σ (pushSt mk σ) :=
  DefsExt.of_eq (genums_push hne mk) (gptrs_push hne mk) (gcomps_push hne mk)

theorem WF.push (hW : WF σ) {mk : Nat → Act} (hmk : ∀ i, (mk i).id = i) (hnew : ActOK σ σ.acts (mk σ.nextId)) :
    WF (pushSt mk σ) := by
  have hm := ValMono.push (σ := σ) hW.ne hmk
  have hte : ∀ {ty : Ty}, TyWF σ ty → TyWF (pushSt mk σ) ty := fun h => h.ext (DefsExt.push hW.ne mk)
  refine ⟨by simp [pushSt], ⟨hnew.mono hm, fun b hb => ?_, hW.stack.mono hm⟩, fun b hb => ?_,
    fun p hp => ⟨fun q hq => hte ((hW.procs p hp).1 q hq), (hW.procs p hp).2⟩,
    fun p hp => ⟨fun q hq => hte ((hW.funs p hp).1 q hq), (hW.funs p hp).2⟩, ⟨?_, ?_, ?_⟩⟩
  · rw [hmk]; exact Nat.ne_of_lt (hW.below b hb)
  · rcases List.mem_cons.1 hb with rfl | hb
    · rw [hmk]; exact Nat.lt_succ_self _
    · exact Nat.lt_succ_of_lt (hW.below b hb)
  · rw [genums_push hW.ne]; exact hW.glob.enums
  · rw [gptrs_push hW.ne]; exact fun p hp => hte (hW.glob.ptrs p hp)
  · rw [gcomps_push hW.ne]; exact hW.glob.comps

/-- push, run, pop: the state after the pop is well-formed and extends the state before the push -/
theorem pop_ok (hW : WF σ) {mk : Nat → Act} (hmk : ∀ i, (mk i).id = i) {σ2 : St} (hW2 : WF σ2)
    (hE2 : Ext (pushSt mk σ) σ2) : WF (popSt σ2) ∧ Ext σ (popSt σ2) ∧ ValMono σ2 (popSt σ2) := by
  have hids := hE2.ids
  obtain ⟨top, rest, hσ2⟩ := hW2.top
  rw [hσ2] at hids
  simp only [pushSt, List.map_cons, List.cons.injEq, Prod.mk.injEq] at hids
  obtain ⟨⟨htid, _⟩, hrest⟩ := hids
  rw [hmk] at htid
  have hpop : (popSt σ2).acts = rest := by simp [popSt, hσ2]
  have hst := hW2.stack; rw [hσ2] at hst
  have hrne : rest ≠ [] := by
    intro h
    rw [h] at hrest
    exact hW.ne (List.map_eq_nil_iff.1 hrest.symm)
  have hge : genums (popSt σ2) = genums σ2 := by
    unfold genums; rw [hpop, hσ2]
    cases rest with
    | nil => exact absurd rfl hrne
    | cons b r => simp [List.getLast?_cons_cons]
  have hgp : gptrs (popSt σ2) = gptrs σ2 := by
    unfold gptrs; rw [hpop, hσ2]
    cases rest with
    | nil => exact absurd rfl hrne
    | cons b r => simp [List.getLast?_cons_cons]
  have hgc : gcomps (popSt σ2) = gcomps σ2 := by
    unfold gcomps; rw [hpop, hσ2]
    cases rest with
    | nil => exact absurd rfl hrne
    | cons b r => simp [List.getLast?_cons_cons]
  have hm : ValMono σ2 (popSt σ2) := by
    intro v hv p w hp
    refine (hv p w hp).transfer hge hgp hgc fun l tg ht => ?_
    obtain ⟨hlt, hlive⟩ := ht
    refine ⟨hlt, fun hL => ?_⟩
    obtain ⟨b, hb, hbid⟩ := hL
    rw [hpop] at hb
    have hne : top.id ≠ l.act := by rw [← hbid]; exact fun e => hst.2.1 b hb e.symm
    obtain ⟨w', hr, hk⟩ := hlive ⟨b, by rw [hσ2]; exact List.mem_cons_of_mem _ hb, hbid⟩
    rw [hσ2] at hr
    exact ⟨w', by rw [hpop]; exact (NC.ReadsIn.cons_ne hne).1 hr, hk⟩
  have hdp : DefsExt σ2 (popSt σ2) := DefsExt.of_eq hge hgp hgc
  have hte : ∀ {ty : Ty}, TyWF σ2 ty → TyWF (popSt σ2) ty := fun h => h.ext hdp
  have hdall : DefsExt σ (popSt σ2) := ((DefsExt.push hW.ne mk).trans hE2.defs).trans hdp
  refine ⟨⟨?_, ?_, ?_, fun p hp => ⟨fun q hq => hte ((hW2.procs p hp).1 q hq), (hW2.procs p hp).2⟩,
    fun p hp => ⟨fun q hq => hte ((hW2.funs p hp).1 q hq), (hW2.funs p hp).2⟩, ⟨?_, ?_, ?_⟩⟩,
    ⟨?_, ?_, ?_, hdall.enums, hdall.ptrs, hdall.comps, hdall.toks⟩, hm⟩
  · rw [hpop]; exact hrne
  · rw [hpop]; exact hst.2.2.mono hm
  · rw [hpop]; intro b hb
    exact hW2.below b (by rw [hσ2]; exact List.mem_cons_of_mem _ hb)
  · rw [hge]; exact hW2.glob.enums
  · rw [hgp]; exact fun p hp => hte (hW2.glob.ptrs p hp)
  · rw [hgc]; exact hW2.glob.comps
  · rw [hpop]; exact hrest
  · exact Nat.le_trans (Nat.le_succ _) hE2.nextId
  · intro l v hr
    obtain ⟨b, hb, hbid⟩ := hr.mem
    have hne : σ.nextId ≠ l.act := by
      rw [← hbid]; exact Nat.ne_of_gt (hW.below b hb)
    have hr1 : ReadsIn (pushSt mk σ).acts l v := by
      show ReadsIn (mk σ.nextId :: σ.acts) l v
      exact (NC.ReadsIn.cons_ne (by rw [hmk]; exact hne)).2 hr
    obtain ⟨v', hr2, k⟩ := hE2.reads l v hr1
    rw [hσ2] at hr2
    rw [hpop]
    exact ⟨v', (NC.ReadsIn.cons_ne (by rw [htid]; exact hne)).1 hr2, k⟩

theorem Run.withAct {σ0 : St} {mk : Nat → Act} {body : M α} {Q Qb : α → St → Prop}
    (hW : WF σ) (hE : Ext σ0 σ) (hmk : ∀ i, (mk i).id = i) (hnew : ActOK σ σ.acts (mk σ.nextId))
    (hbody : WF (pushSt mk σ) → Run body (pushSt mk σ) (ResE (pushSt mk σ) Qb ErrNR))
    (hpost : ∀ a σ2, WF σ2 → Ext (pushSt mk σ) σ2 → ValMono σ2 (popSt σ2) → Qb a σ2 → Q a (popSt σ2)) :
    Run (Pseudo.withAct mk body) σ (ResE σ0 Q E) := by
  have hb := hbody (hW.push hmk hnew)
  unfold Run at *
  rw [run_withAct]
  obtain ⟨hW2, hE2, hres⟩ := hb
  obtain ⟨hWp, hEp, hm⟩ := pop_ok hW hmk hW2 hE2
  refine ⟨hWp, hE.trans hEp, ?_⟩
  dsimp only
  rcases hr : (body.run.run (pushSt mk σ)).1 with e | a
  · rw [hr] at hres
    exact EOK.of_nr _ _ ⟨⟨hres.1.1, fun he => absurd he hres.2⟩, hres.2⟩
  · rw [hr] at hres
    exact hpost a _ hW2 hE2 hm hres

end changing

end Pseudo.NR
