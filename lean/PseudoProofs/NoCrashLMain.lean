import PseudoProofs.NoCrashLSpec
/-!
# C01 with TYPE statements anywhere: from the evaluator to whole programs (`Top.lean`), given the triples of every fuel
-/
namespace Pseudo.NL
open Pseudo
open Pseudo.NC (ReadsIn ErrOK ErrNR NoCrash RO EOK)

/-- the state between two top-level runs: exactly the global activation, which is not a function activation -/
def TopLevel (σ : St) : Prop := ∃ g, σ.acts = [g] ∧ g.isFn = false

theorem TopLevel.ext {σ σ' : St} (hE : Ext σ σ') (h : TopLevel σ) : TopLevel σ' := by
  obtain ⟨g, hg, hfn⟩ := h
  have hids := hE.ids
  rw [hg] at hids
  cases hσ' : σ'.acts with
  | nil => rw [hσ'] at hids; simp at hids
  | cons a rest =>
    rw [hσ'] at hids
    simp only [List.map_cons, List.map_nil, List.cons.injEq, List.map_eq_nil_iff] at hids
    obtain ⟨h1, h2⟩ := hids
    subst h2
    exact ⟨a, hσ', (hdr_isFn h1).trans hfn⟩

theorem TopLevel.of_acts_eq {σ σ' : St} (h : TopLevel σ) (ha : σ'.acts = σ.acts) : TopLevel σ' := by
  obtain ⟨g, hg, hfn⟩ := h; exact ⟨g, ha.trans hg, hfn⟩

theorem WF.init (fs : List (Str × FsNode)) (stdin : Str) (p r : Bool) : WF (St.init fs stdin p r) := by
  refine ⟨by simp [St.init], ⟨⟨?_, ?_, ⟨?_, ?_, ?_⟩, fun h => absurd rfl h, fun _ => ⟨rfl, rfl, rfl⟩, ?_, fun _ => rfl, ?_⟩, ?_, trivial⟩,
    ?_, ?_, ?_⟩
  · intro s hs; cases hs
  · intro s hs; cases hs
  · intro e he; cases he
  · intro e he; cases he
  · intro e he; cases he
  · intro _ s hs; cases hs
  · intro v hv; cases hv
  · intro b hb; cases hb
  · intro a ha
    simp only [St.init, List.mem_singleton] at ha
    subst ha; exact Nat.zero_lt_one
  · intro p hp; cases hp
  · intro f hf; cases hf

theorem TopLevel.ntop {σ : St} (hW : WF σ) (h : TopLevel σ) : NTop σ := by
  obtain ⟨g, hg, _⟩ := h
  exact ⟨g, [], hg, hW.last_noncomp (by rw [hg]; rfl)⟩

theorem TopLevel.init (fs : List (Str × FsNode)) (stdin : Str) (p r : Bool) : TopLevel (St.init fs stdin p r) :=
  ⟨mkGlobal, rfl, rfl⟩

/-- what can come out of `runMain`: a diagnostic or the fuel signal -/
def ETop (_ : St) (e : Stop) : Prop := (∃ d, e = .diag d) ∨ e = .outOfFuel

theorem run_rtErr_top {α : Type} {σ0 σ : St} {Q : α → St → Prop} (hW : WF σ) (hE : Ext σ0 σ) (t : Tok) (m : Msg) :
    Run (rtErr t m : M α) σ (ResE σ0 Q ETop) := by
  obtain ⟨d, hd, _⟩ := rtErr_run (α := α) t m σ
  unfold Run; rw [hd]
  exact ⟨hW, hE, Or.inl ⟨d, rfl⟩⟩

section main
variable (hall : ∀ f, AllTri f)
include hall

/-- `runMain` on a block of the sublanguage from a top-level state: it ends normally, with a diagnostic or out of fuel —
    no crash point (in particular the RETURN signal cannot reach the top); the state stays well-formed and top-level -/
theorem runMain_ok (fuel : Nat) (b : Block) (hb : okBlock true b = true) (σ : St) (hW : WF σ) (hT : TopLevel σ) :
    WF ((runMain fuel b).run.run σ).2 ∧ TopLevel ((runMain fuel b).run.run σ).2 ∧
    ∀ e, ((runMain fuel b).run.run σ).1 = .error e → (∃ d, e = .diag d) ∨ e = .outOfFuel := by
  have hrun : Run (runMain fuel b) σ (ResE σ (fun _ _ => True) ETop) := by
    unfold runMain
    refine Run.tryCatch (E' := ErrOK) (Ext.refl σ) (((hall fuel).runBlock true b hb σ hW ⟨fun _ => ⟨_, hT.choose_spec.1⟩, Or.inl (hT.ntop hW)⟩).weakenQ fun _ _ _ _ _ => trivial) fun e σ1 hW1 hE1 hE01 he => ?_
    cases e with
    | brk t => exact run_rtErr_top hW1 hE01 _ _
    | cont t => exact run_rtErr_top hW1 hE01 _ _
    | ret =>
      exfalso
      obtain ⟨a, rest, ha, hfn⟩ := he.2 rfl
      obtain ⟨g, hg, hgfn⟩ := hT.ext hE1
      rw [hg] at ha; cases ha
      rw [hgfn] at hfn; cases hfn
    | diag d => exact Run.throw hW1 hE01 (Or.inl ⟨d, rfl⟩)
    | crash p => exact absurd rfl (he.1 p)
    | outOfFuel => exact Run.throw hW1 hE01 (Or.inr rfl)
  obtain ⟨h1, h2, h3⟩ := hrun
  refine ⟨h1, hT.ext h2, fun e he => ?_⟩
  rw [he] at h3
  exact h3

theorem runOn_ok (fuel : Nat) (b : Block) (hb : okBlock true b = true) (σ : St) (hW : WF σ) (hT : TopLevel σ) :
    WF (runOn fuel b σ).2 ∧ TopLevel (runOn fuel b σ).2 ∧ ∀ p, (runOn fuel b σ).1 ≠ .crash p := by
  obtain ⟨h1, h2, h3⟩ := runMain_ok hall fuel b hb σ hW hT
  rw [runOn_state]
  refine ⟨h1, h2, ?_⟩
  intro p
  unfold runOn
  rcases hr : (ExceptT.run (runMain fuel b)).run σ with ⟨r, s⟩
  have hr1 : ((runMain fuel b).run.run σ).1 = r := by
    show ((ExceptT.run (runMain fuel b)).run σ).1 = r
    rw [hr]
  cases r with
  | ok u => intro h; cases h
  | error e =>
    rcases h3 e hr1 with ⟨d, rfl⟩ | rfl
    · intro h; cases h
    · intro h; cases h


/-- every program that the lexer and the parser make of `src` is in the sublanguage -/
def OkSrc (cfg : Cfg) (src : Str) : Prop :=
  ∀ toks b w, lex { pedantic := cfg.pedantic } src = .ok toks → parse { pedantic := cfg.pedantic } toks = .ok (b, w) →
    okBlock true b = true

/-- executable form of `OkSrc` -/
def okSrcB (cfg : Cfg) (src : Str) : Bool :=
  match lex { pedantic := cfg.pedantic } src with
  | .error _ => true
  | .ok toks =>
    match parse { pedantic := cfg.pedantic } toks with
    | .error _ => true
    | .ok (b, _) => okBlock true b

omit hall in
theorem okSrc_iff (cfg : Cfg) (src : Str) : OkSrc cfg src ↔ okSrcB cfg src = true := by
  unfold OkSrc okSrcB
  constructor
  · intro h
    cases hl : lex { pedantic := cfg.pedantic } src with
    | error d => rfl
    | ok toks =>
      dsimp only
      cases hp : parse { pedantic := cfg.pedantic } toks with
      | error e => rfl
      | ok r => obtain ⟨b, w⟩ := r; exact h toks b w hl hp
  · intro h toks b w hl hp
    rw [hl] at h; dsimp only at h; rw [hp] at h; exact h

instance (cfg : Cfg) (src : Str) : Decidable (OkSrc cfg src) := decidable_of_iff _ (okSrc_iff cfg src).symm

theorem runSource_ok (cfg : Cfg) (src : Str) (hsrc : OkSrc cfg src) (σ : St) (hW : WF σ) (hT : TopLevel σ) :
    WF (runSource cfg src σ).2 ∧ TopLevel (runSource cfg src σ).2 ∧ ∀ p, (runSource cfg src σ).1 ≠ .crash p := by
  unfold runSource
  cases hl : lex { pedantic := cfg.pedantic } src with
  | error d =>
    exact ⟨hW.of_acts_eq rfl rfl rfl rfl, hT.of_acts_eq rfl, fun p h => by cases h⟩
  | ok toks =>
    dsimp only
    cases hp : parse { pedantic := cfg.pedantic } toks with
    | error e =>
      obtain ⟨d, warns⟩ := e
      dsimp only
      split
      · exact ⟨hW.of_acts_eq rfl rfl rfl rfl, hT.of_acts_eq rfl, fun p h => by cases h⟩
      · exact ⟨hW.of_acts_eq rfl rfl rfl rfl, hT.of_acts_eq rfl, fun p h => by cases h⟩
    | ok r =>
      obtain ⟨b, warns⟩ := r
      dsimp only
      have hb := hsrc toks b warns hl hp
      have hW1 : WF { σ with out := (List.map warningText warns).reverse ++ σ.out } := hW.of_acts_eq rfl rfl rfl rfl
      have hT1 : TopLevel { σ with out := (List.map warningText warns).reverse ++ σ.out } := hT.of_acts_eq rfl
      obtain ⟨h1, h2, h3⟩ := runOn_ok hall cfg.fuel b hb _ hW1 hT1
      rcases hr : runOn cfg.fuel b { σ with out := (List.map warningText warns).reverse ++ σ.out } with ⟨o, s⟩
      rw [hr] at h1 h2 h3
      cases o with
      | diag d => exact ⟨h1.of_acts_eq rfl rfl rfl rfl, h2.of_acts_eq rfl, fun p h => by cases h⟩
      | ok => exact ⟨h1, h2, h3⟩
      | crash p => exact ⟨h1, h2, h3⟩
      | fuel => exact ⟨h1, h2, h3⟩

theorem runFileOn_ok (cfg : Cfg) (content : Str) (hsrc : OkSrc cfg (content ++ ['\n'])) (fs : List (Str × FsNode))
    (stdin : Str) (eof : Bool) : ∀ p, (runFileOn cfg content fs stdin eof).1 ≠ .crash p := by
  intro p
  unfold runFileOn
  dsimp only
  have hW0 : WF { St.init fs stdin cfg.pedantic false with stdinEof := eof, stepLimit := cfg.stepLimit, depthLimit := cfg.depthLimit } :=
    (WF.init fs stdin cfg.pedantic false).of_acts_eq rfl rfl rfl rfl
  have hT0 : TopLevel { St.init fs stdin cfg.pedantic false with stdinEof := eof, stepLimit := cfg.stepLimit, depthLimit := cfg.depthLimit } :=
    (TopLevel.init fs stdin cfg.pedantic false).of_acts_eq rfl
  exact (runSource_ok hall cfg _ hsrc _ hW0 hT0).2.2 p

/-- **file mode**: a program of the sublanguage never ends in a crash point -/
theorem runFile_ok (cfg : Cfg) (content : Str) (hsrc : OkSrc cfg (content ++ ['\n'])) (fs : List (Str × FsNode))
    (stdin : Str) : (runFile cfg content fs stdin).crash = none := by
  have h := runFileOn_ok hall cfg content hsrc fs stdin false
  unfold runFile
  rcases hr : runFileOn cfg content fs stdin false with ⟨o, s⟩
  rw [hr] at h
  dsimp only
  unfold resultOf
  cases o with
  | ok => rfl
  | diag d => dsimp only; split <;> rfl
  | crash p => exact absurd rfl (h p)
  | fuel => rfl

end main

end Pseudo.NL
