import PseudoModel.Eval
import PseudoModel.Top
/-!
# Generic "every statement preserves it" theorem for the evaluator

`Ens R Q m`: from every start state `σ`, the final state `σ'` of `m` satisfies `R σ σ'` — whether `m`
ends normally or with an exception (the state survives an exception in `M`) — and an exception `e`
raised by `m` satisfies `Q e`. (`Ens` is a one-field structure rather than a `def` so that `intro` / `apply`
in the proof search cannot unfold it.)

* combinators (`Ens.pure`, `Ens.bind`, `Ens.throw`, `Ens.tryCatch`, `Ens.get`, `Ens.modify`, `Ens.ite`, `Ens.mono`,
  `Ens.get_bind`, …) for a reflexive, transitive `R` (class `RPre`);
* classes for the postcondition on exceptions: `QBase Q` (diagnostics, crash points, fuel), `QSig Q` (the three
  control signals), `QPair Qe Qs` (`Qe ⊆ Qs`, and a handler of BREAK / CONTINUE may pass everything else on);
* `PrimOK R Q`: the hypotheses on the state-changing primitives, one field per primitive *as it is used* in
  `Eval.lean` (`modifyAct` / `modifyCur` / raw `modify` with the update functions that occur there), including
  the bracket rule for `withAct`; the read-only functions (`curAct`, `lookupVar`, `getType`, `readLoc`, `rtErr`, …)
  are handled once and for all (`Ens.l_*`);
* tactics `ens_auto` / `ens_fn f`: syntax-directed proof search with the combinators, the library lemmas
  (`ens_lib`, extensible by `macro_rules`) and the induction hypothesis (`ens_ih`);
* `AllEns R Qe Qs fuel`: one field per function of the mutual block (25 functions); `eval_all` proves it for every
  fuel by ONE induction (`AllEns.zero`, `AllEns.succ` = 25 step lemmas, each `ens_fn f` plus, for the three
  functions with a signal handler, two lines); `eval_ens` is the same as a conjunction.
  `Qe` is the postcondition of the "expression-like" functions (expressions, references, calls, loops), `Qs`
  that of the "statement-like" ones (`execStmt`, `runBlock`, `ifChain`, `caseClauses`, and the declaration
  functions, which run a TYPE body);
* `primOK_build`: `PrimOK` from five facts about states (`SameActs ⊆ R`, update of one activation, appending a
  variable / an array, `writeLoc`, push–pop bracket);
* `runMain_ens`, `runSource_rel`, `replLoop_rel`: the same for a whole program and a whole REPL session (`Top.lean`).

Instances: `Properties/C04.lean` (stack discipline), `Properties/C08.lean` (constants), `Properties/C03Signals.lean`.
-/
namespace Pseudo

/-- reflexive and transitive relation on states -/
class RPre (R : St → St → Prop) : Prop where
  refl : ∀ σ, R σ σ
  trans : ∀ {a b c}, R a b → R b c → R a c

/-- `m` relates start and final state by `R` (however it ends) and raises only exceptions in `Q` -/
structure Ens (R : St → St → Prop) (Q : Stop → Prop) {α : Type} (m : M α) : Prop where
  run : ∀ σ, R σ (m.run.run σ).2 ∧ ∀ e, (m.run.run σ).1 = .error e → Q e

section combinators
variable {R : St → St → Prop} {Q Q' : Stop → Prop} {α β : Type}

theorem run_pure (a : α) (σ : St) : (pure a : M α).run.run σ = (.ok a, σ) := rfl
theorem run_throw (e : Stop) (σ : St) : (throw e : M α).run.run σ = (.error e, σ) := rfl
theorem run_get (σ : St) : (get : M St).run.run σ = (.ok σ, σ) := rfl
theorem run_set (s σ : St) : (set s : M PUnit).run.run σ = (.ok ⟨⟩, s) := rfl
theorem run_modify (f : St → St) (σ : St) : (modify f : M PUnit).run.run σ = (.ok ⟨⟩, f σ) := rfl

theorem run_bind_ok (m : M α) (f : α → M β) (σ σ' : St) (a : α) (h : m.run.run σ = (.ok a, σ')) :
    (m >>= f).run.run σ = (f a).run.run σ' := by
  simp only [bind, ExceptT.bind, ExceptT.mk, ExceptT.run, StateT.bind, ExceptT.bindCont, StateT.run] at h ⊢
  rw [h]

theorem run_bind_err (m : M α) (f : α → M β) (σ σ' : St) (e : Stop) (h : m.run.run σ = (.error e, σ')) :
    (m >>= f).run.run σ = (.error e, σ') := by
  simp only [bind, ExceptT.bind, ExceptT.mk, ExceptT.run, StateT.bind, ExceptT.bindCont, StateT.run] at h ⊢
  rw [h]
  rfl

theorem run_tryCatch_ok (m : M α) (hd : Stop → M α) (σ σ' : St) (a : α) (h : m.run.run σ = (.ok a, σ')) :
    (tryCatch m hd).run.run σ = (.ok a, σ') := by
  simp only [tryCatch, tryCatchThe, MonadExceptOf.tryCatch, ExceptT.tryCatch, bind, ExceptT.mk, ExceptT.run,
    StateT.bind, StateT.run] at h ⊢
  rw [h]
  rfl

theorem run_tryCatch_err (m : M α) (hd : Stop → M α) (σ σ' : St) (e : Stop) (h : m.run.run σ = (.error e, σ')) :
    (tryCatch m hd).run.run σ = (hd e).run.run σ' := by
  simp only [tryCatch, tryCatchThe, MonadExceptOf.tryCatch, ExceptT.tryCatch, bind, ExceptT.mk, ExceptT.run,
    StateT.bind, StateT.run] at h ⊢
  rw [h]

theorem Ens.pure [RPre R] (a : α) : Ens R Q (pure a : M α) :=
  ⟨fun σ => ⟨RPre.refl σ, fun _ h => by cases h⟩⟩

theorem Ens.throw [RPre R] {e : Stop} (h : Q e) : Ens R Q (throw e : M α) :=
  ⟨fun σ => ⟨RPre.refl σ, fun e' h' => by cases h'; exact h⟩⟩

theorem Ens.get [RPre R] : Ens R Q (get : M St) :=
  ⟨fun σ => ⟨RPre.refl σ, fun _ h => by cases h⟩⟩

theorem Ens.modify (f : St → St) (h : ∀ σ, R σ (f σ)) : Ens R Q (modify f : M PUnit) :=
  ⟨fun σ => ⟨h σ, fun _ h => by cases h⟩⟩

theorem Ens.mono {R' : St → St → Prop} {m : M α} (h : Ens R Q m) (hR : ∀ σ σ', R σ σ' → R' σ σ')
    (hQ : ∀ e, Q e → Q' e) : Ens R' Q' m :=
  ⟨fun σ => ⟨hR _ _ (h.run σ).1, fun e he => hQ e ((h.run σ).2 e he)⟩⟩

theorem Ens.weaken {m : M α} (h : Ens R Q m) (hQ : ∀ e, Q e → Q' e) : Ens R Q' m :=
  h.mono (fun _ _ r => r) hQ

theorem Ens.bind [RPre R] {m : M α} {f : α → M β} (hm : Ens R Q m) (hf : ∀ a, Ens R Q (f a)) :
    Ens R Q (m >>= f) := by
  constructor
  intro σ
  rcases h : m.run.run σ with ⟨a | a, σ'⟩
  · rw [run_bind_err m f σ σ' a h]
    have := hm.run σ
    rw [h] at this
    exact ⟨this.1, fun e he => by cases he; exact this.2 _ rfl⟩
  · rw [run_bind_ok m f σ σ' a h]
    have h1 := hm.run σ
    rw [h] at h1
    have h2 := (hf a).run σ'
    exact ⟨RPre.trans h1.1 h2.1, h2.2⟩

theorem Ens.tryCatch [RPre R] {m : M α} {hd : Stop → M α} (hm : Ens R Q' m)
    (hh : ∀ e, Q' e → Ens R Q (hd e)) : Ens R Q (tryCatch m hd) := by
  constructor
  intro σ
  rcases h : m.run.run σ with ⟨e | a, σ'⟩
  · rw [run_tryCatch_err m hd σ σ' e h]
    have h1 := hm.run σ
    rw [h] at h1
    have h2 := (hh e (h1.2 e rfl)).run σ'
    exact ⟨RPre.trans h1.1 h2.1, h2.2⟩
  · rw [run_tryCatch_ok m hd σ σ' a h]
    have h1 := hm.run σ
    rw [h] at h1
    exact ⟨h1.1, fun _ h => by cases h⟩

/-- handler and body with the same postcondition (the handler may rethrow what it caught) -/
theorem Ens.tryCatch_same [RPre R] {m : M α} {hd : Stop → M α} (hm : Ens R Q m)
    (hh : ∀ e, Q e → Ens R Q (hd e)) : Ens R Q (MonadExcept.tryCatch m hd) := Ens.tryCatch hm hh

theorem Ens.ite {c : Prop} [Decidable c] {t e : M α} (ht : c → Ens R Q t) (he : ¬ c → Ens R Q e) :
    Ens R Q (if c then t else e) := by
  split
  · exact ht ‹_›
  · exact he ‹_›

end combinators

/-! ### postconditions on exceptions -/

/-- `Q` holds of the exceptions that any function may raise: diagnostics, crash points, fuel -/
class QBase (Q : Stop → Prop) : Prop where
  diag : ∀ d, Q (.diag d)
  crash : ∀ p, Q (.crash p)
  fuel : Q .outOfFuel

/-- `Q` admits the three control signals (the statement-like functions raise them) -/
class QSig (Q : Stop → Prop) : Prop where
  brk : ∀ t, Q (.brk t)
  cont : ∀ t, Q (.cont t)
  ret : Q .ret

/-- `Qe` for the expression-like functions, `Qs` for the statement-like ones:
    a handler that turns BREAK / CONTINUE into something else may pass any other exception of `Qs`
    on as a `Qe` exception -/
class QPair (Qe Qs : Stop → Prop) : Prop where
  le : ∀ e, Qe e → Qs e
  conv : ∀ e, Qs e → (∀ t, e ≠ .brk t) → (∀ t, e ≠ .cont t) → Qe e

instance : QBase (fun _ => True) := ⟨fun _ => trivial, fun _ => trivial, trivial⟩
instance : QSig (fun _ => True) := ⟨fun _ => trivial, fun _ => trivial, trivial⟩
instance : QPair (fun _ => True) (fun _ => True) := ⟨fun _ _ => trivial, fun _ _ _ _ => trivial⟩

/-- the exception is not one of the loop signals -/
def NoSignal (e : Stop) : Prop := (∀ t, e ≠ .brk t) ∧ (∀ t, e ≠ .cont t)

instance : QBase NoSignal where
  diag _ := ⟨(fun _ h => nomatch h), (fun _ h => nomatch h)⟩
  crash _ := ⟨(fun _ h => nomatch h), (fun _ h => nomatch h)⟩
  fuel := ⟨(fun _ h => nomatch h), (fun _ h => nomatch h)⟩
instance : QPair NoSignal (fun _ => True) := ⟨fun _ _ => trivial, fun _ _ h1 h2 => ⟨h1, h2⟩⟩

theorem QBase.of_le {Qe Qs : Stop → Prop} [QBase Qe] [QPair Qe Qs] : QBase Qs :=
  ⟨fun d => QPair.le (Qe := Qe) _ (QBase.diag d), fun p => QPair.le (Qe := Qe) _ (QBase.crash p),
   QPair.le (Qe := Qe) _ QBase.fuel⟩

/-! ### hypotheses on the state-changing primitives -/

/-- what the generic theorem assumes about the primitives through which the evaluator changes the state.
    `modifyAct` / `modifyCur` / raw `modify` appear with the update functions actually used in `Eval.lean`. -/
class PrimOK (R : St → St → Prop) (Q : Stop → Prop) : Prop where
  emit : ∀ x, Ens R Q (emit x)
  tick : ∀ t, Ens R Q (tick t)
  setSwitchTok : ∀ id v, Ens R Q (modifyAct id fun a => { a with switchTok := v })
  setRetVal : ∀ id v, Ens R Q (modifyAct id fun a => { a with retVal := v })
  addVar : ∀ s, Ens R Q (addVar s)
  addArr : ∀ s, Ens R Q (addArr s)
  addEnum : ∀ x, Ens R Q (modifyCur fun a => { a with enums := a.enums ++ [x] })
  addPtr : ∀ x, Ens R Q (modifyCur fun a => { a with ptrs := a.ptrs ++ [x] })
  addComp : ∀ x, Ens R Q (modifyCur fun a => { a with comps := a.comps ++ [x] })
  writeLoc : ∀ t l v, Ens R Q (writeLoc t l v)
  /-- the bracket rule: push a new activation (whose id is the fresh one), run, always pop -/
  withAct : ∀ {α : Type} (mk : Nat → Act) (body : M α), (∀ i, (mk i).id = i) → Ens R Q body → Ens R Q (withAct mk body)
  getLine : Ens R Q getLine
  doFile : ∀ t op, Ens R Q (doFile t op)
  doFile0 : ∀ op, Ens R Q (doFile0 op)
  depthInc : Ens R Q (modify fun s => { s with depth := s.depth + 1 })
  depthDec : Ens R Q (modify fun s => { s with depth := s.depth - 1 })
  addProc : ∀ p, Ens R Q (modify fun st => { st with procs := st.procs ++ [p] })
  addFun : ∀ p, Ens R Q (modify fun st => { st with funs := st.funs ++ [p] })

/-! ### automation -/

/-- one step of the syntax-directed proof search -/
macro "ens_basic" : tactic => `(tactic| with_reducible first
  | exact Ens.pure _
  | exact Ens.get
  | exact Ens.throw (QBase.diag _)
  | exact Ens.throw (QBase.crash _)
  | exact Ens.throw QBase.fuel
  | exact Ens.throw (QSig.brk _)
  | exact Ens.throw (QSig.cont _)
  | exact Ens.throw QSig.ret
  | exact Ens.throw (by assumption)
  | exact PrimOK.emit _
  | exact PrimOK.tick _
  | exact PrimOK.setSwitchTok _ _
  | exact PrimOK.setRetVal _ _
  | exact PrimOK.addVar _
  | exact PrimOK.addArr _
  | exact PrimOK.addEnum _
  | exact PrimOK.addPtr _
  | exact PrimOK.addComp _
  | exact PrimOK.writeLoc _ _ _
  | exact PrimOK.getLine
  | exact PrimOK.doFile _ _
  | exact PrimOK.doFile0 _
  | exact PrimOK.depthInc
  | exact PrimOK.depthDec
  | exact PrimOK.addProc _
  | exact PrimOK.addFun _)

/-- library lemmas about the functions defined outside the mutual block; extended by `macro_rules` -/
syntax "ens_lib" : tactic
macro_rules | `(tactic| ens_lib) => `(tactic| fail "ens_lib: no lemma")

/-- hypotheses of the induction; extended inside the step lemmas -/
syntax "ens_ih" : tactic
macro_rules | `(tactic| ens_ih) => `(tactic| fail "ens_ih: no hypothesis")

macro "ens_step" : tactic => `(tactic| first
  | cases ‹_ + 1 = Nat.succ _›
  | ens_basic
  | with_reducible ens_lib
  | with_reducible ens_ih
  | with_reducible apply Ens.bind
  | with_reducible apply PrimOK.withAct _ _ (fun _ => rfl)
  | intro _
  | split
  | dsimp only)

/-- proof search that leaves `tryCatch` alone (for handlers that change the postcondition) -/
macro "ens_auto_nt" : tactic => `(tactic| repeat' ens_step)

/-- full proof search: a `tryCatch` is handled with the same postcondition for body and handler -/
macro "ens_auto" : tactic => `(tactic| repeat' (first | with_reducible apply Ens.tryCatch_same | ens_step))

open Lean in
/-- unfold the function (by its `eq_def` lemma: the per-constructor equation lemmas of this mutual block are
    too expensive to generate) and run the proof search -/
macro "ens_fn " id:ident : tactic =>
  `(tactic| (rw [$(mkIdent (id.getId ++ `eq_def)):ident]; try dsimp only
             ens_auto))

open Lean in
macro "ens_fn_nt " id:ident : tactic =>
  `(tactic| (rw [$(mkIdent (id.getId ++ `eq_def)):ident]; try dsimp only
             ens_auto_nt))

set_option linter.unusedSectionVars false

section readonly
variable {R : St → St → Prop} {Q : Stop → Prop} [RPre R] [QBase Q] {α : Type}

theorem Ens.l_curAct : Ens R Q curAct := by unfold curAct; ens_auto
macro_rules | `(tactic| ens_lib) => `(tactic| exact Ens.l_curAct)
theorem Ens.l_globalAct : Ens R Q globalAct := by unfold globalAct; ens_auto
macro_rules | `(tactic| ens_lib) => `(tactic| exact Ens.l_globalAct)
theorem Ens.l_findAct (id : Nat) : Ens R Q (findAct id) := by unfold findAct; ens_auto
macro_rules | `(tactic| ens_lib) => `(tactic| exact Ens.l_findAct _)
theorem Ens.l_mkRuntime (l c : Nat) (m : Msg) : Ens R Q (mkRuntime l c m) := by unfold mkRuntime; ens_auto
macro_rules | `(tactic| ens_lib) => `(tactic| exact Ens.l_mkRuntime _ _ _)
theorem Ens.l_rtErr (t : Tok) (m : Msg) : Ens R Q (rtErr t m : M α) := by unfold rtErr; ens_auto
macro_rules | `(tactic| ens_lib) => `(tactic| exact Ens.l_rtErr _ _)
theorem Ens.l_rtErr0 (m : Msg) : Ens R Q (rtErr0 m : M α) := by unfold rtErr0; ens_auto
macro_rules | `(tactic| ens_lib) => `(tactic| exact Ens.l_rtErr0 _)
theorem Ens.l_pedErr (t : Tok) (m : Msg) : Ens R Q (pedErr t m : M α) := by unfold pedErr; ens_auto
macro_rules | `(tactic| ens_lib) => `(tactic| exact Ens.l_pedErr _ _)

theorem Ens.l_lookupVar (n : Str) : Ens R Q (lookupVar n) := by unfold lookupVar; ens_auto
macro_rules | `(tactic| ens_lib) => `(tactic| exact Ens.l_lookupVar _)
theorem Ens.l_lookupArr (n : Str) : Ens R Q (lookupArr n) := by unfold lookupArr; ens_auto
macro_rules | `(tactic| ens_lib) => `(tactic| exact Ens.l_lookupArr _)
theorem Ens.l_scopeAct : Ens R Q scopeAct := by unfold scopeAct; ens_auto
macro_rules | `(tactic| ens_lib) => `(tactic| exact Ens.l_scopeAct)
theorem Ens.l_typeScopeAct : Ens R Q typeScopeAct := by unfold typeScopeAct; ens_auto
macro_rules | `(tactic| ens_lib) => `(tactic| exact Ens.l_typeScopeAct)
theorem Ens.l_lookupList {β : Type} (sel : Act → List (Str × β)) (n : Str) (g : Bool) : Ens R Q (lookupList sel n g) := by
  unfold lookupList; ens_auto
macro_rules | `(tactic| ens_lib) => `(tactic| exact Ens.l_lookupList _ _ _)
theorem Ens.l_enumDefOf (n : Str) (g : Bool) : Ens R Q (enumDefOf n g) := by unfold enumDefOf; ens_auto
macro_rules | `(tactic| ens_lib) => `(tactic| exact Ens.l_enumDefOf _ _)
theorem Ens.l_ptrDefOf (n : Str) (g : Bool) : Ens R Q (ptrDefOf n g) := by unfold ptrDefOf; ens_auto
macro_rules | `(tactic| ens_lib) => `(tactic| exact Ens.l_ptrDefOf _ _)
theorem Ens.l_compDefOf (n : Str) (g : Bool) : Ens R Q (compDefOf n g) := by unfold compDefOf; ens_auto
macro_rules | `(tactic| ens_lib) => `(tactic| exact Ens.l_compDefOf _ _)
theorem Ens.l_getType (t : Tok) (g : Bool) : Ens R Q (getType t g) := by unfold getType; ens_auto
macro_rules | `(tactic| ens_lib) => `(tactic| exact Ens.l_getType _ _)
theorem Ens.l_getEnumElement (v : Str) (g : Bool) : Ens R Q (getEnumElement v g) := by unfold getEnumElement; ens_auto
macro_rules | `(tactic| ens_lib) => `(tactic| exact Ens.l_getEnumElement _ _)
theorem Ens.l_isIdentifierType (t : Tok) (g : Bool) : Ens R Q (isIdentifierType t g) := by unfold isIdentifierType; ens_auto
macro_rules | `(tactic| ens_lib) => `(tactic| exact Ens.l_isIdentifierType _ _)
theorem Ens.l_readLoc (l : Loc) : Ens R Q (readLoc l) := by unfold readLoc; ens_auto
macro_rules | `(tactic| ens_lib) => `(tactic| exact Ens.l_readLoc _)
theorem Ens.l_locIsConst (l : Loc) : Ens R Q (locIsConst l) := by unfold locIsConst; ens_auto
macro_rules | `(tactic| ens_lib) => `(tactic| exact Ens.l_locIsConst _)
theorem Ens.l_isLive (id : Nat) : Ens R Q (isLive id) := by unfold isLive; ens_auto
macro_rules | `(tactic| ens_lib) => `(tactic| exact Ens.l_isLive _)
theorem Ens.l_liftMsg (t : Tok) (x : Except Msg α) : Ens R Q (liftMsg t x) := by unfold liftMsg; ens_auto
macro_rules | `(tactic| ens_lib) => `(tactic| exact Ens.l_liftMsg _ _)
theorem Ens.l_liftMsg0 (x : Except Msg α) : Ens R Q (liftMsg0 x) := by unfold liftMsg0; ens_auto
macro_rules | `(tactic| ens_lib) => `(tactic| exact Ens.l_liftMsg0 _)
theorem Ens.l_outputText (v : Val) : Ens R Q (outputText v) := by unfold outputText; ens_auto
macro_rules | `(tactic| ens_lib) => `(tactic| exact Ens.l_outputText _)
theorem Ens.l_filePre (t : Tok) (op : FOp) : Ens R Q (filePre t op) := by unfold filePre; ens_auto
macro_rules | `(tactic| ens_lib) => `(tactic| exact Ens.l_filePre _ _)
theorem Ens.l_codecDefs : Ens R Q codecDefs := by unfold codecDefs; ens_auto
macro_rules | `(tactic| ens_lib) => `(tactic| exact Ens.l_codecDefs)
theorem Ens.l_writeText (t : Tok) (v : Val) : Ens R Q (writeText t v) := by unfold writeText; ens_auto
macro_rules | `(tactic| ens_lib) => `(tactic| exact Ens.l_writeText _ _)

/-- `catchNotDefined`: the handler may rethrow what it caught -/
theorem Ens.l_catchNotDefined {m : M α} {h : Stop → M α} (hm : Ens R Q m) (hh : ∀ e, Q e → Ens R Q (h e)) :
    Ens R Q (catchNotDefined m h) := by
  unfold catchNotDefined
  apply Ens.tryCatch hm
  intro e he
  ens_auto
  exact hh _ he

end readonly

section withprims
variable {R : St → St → Prop} {Q : Stop → Prop} [RPre R] [QBase Q] [PrimOK R Q] {α : Type}

theorem Ens.l_runBuiltin (id : Str) (args : List Val) : Ens R Q (runBuiltin id args) := by unfold runBuiltin; ens_auto
macro_rules | `(tactic| ens_lib) => `(tactic| exact Ens.l_runBuiltin _ _)
theorem Ens.l_replEcho (v : Val) : Ens R Q (replEcho v) := by unfold replEcho; ens_auto
macro_rules | `(tactic| ens_lib) => `(tactic| exact Ens.l_replEcho _)

end withprims

macro_rules | `(tactic| ens_lib) => `(tactic| apply Ens.l_catchNotDefined)

/-! ### the induction -/

/-- the statement proved by induction on fuel: one field per function of the mutual block.
    `Qe` for the expression-like functions, `Qs` for those that let the control signals through. -/
structure AllEns (R : St → St → Prop) (Qe Qs : Stop → Prop) (f : Nat) : Prop where
  defaultVal : ∀ t ty, Ens R Qs (defaultVal f t ty)
  defaultCells : ∀ t ty n acc, Ens R Qs (defaultCells f t ty n acc)
  evalArgs : ∀ es acc, Ens R Qe (evalArgs f es acc)
  evalIndices : ∀ es dims acc, Ens R Qe (evalIndices f es dims acc)
  resolveRef : ∀ r, Ens R Qe (resolveRef f r)
  callFun : ∀ t args, Ens R Qe (callFun f t args)
  bindParams : ∀ t ps es vs acc, Ens R Qe (bindParams f t ps es vs acc)
  evalExpr : ∀ e, Ens R Qe (evalExpr f e)
  execAssign : ∀ t r rhs, Ens R Qe (execAssign f t r rhs)
  runBlock : ∀ b, Ens R Qs (runBlock f b)
  ifChain : ∀ t bs els, Ens R Qs (ifChain f t bs els)
  caseMatch : ∀ v cl, Ens R Qe (caseMatch f v cl)
  caseClauses : ∀ v cls, Ens R Qs (caseClauses f v cls)
  loopBody : ∀ b, Ens R Qe (loopBody f b)
  whileLoop : ∀ t c b, Ens R Qe (whileLoop f t c b)
  repeatLoop : ∀ t b c, Ens R Qe (repeatLoop f t b c)
  forLoop : ∀ t it stop step b, Ens R Qe (forLoop f t it stop step b)
  callProc : ∀ t name args, Ens R Qe (callProc f t name args)
  resolveParams : ∀ ps acc, Ens R Qe (resolveParams f ps acc)
  evalBounds : ∀ bs acc, Ens R Qe (evalBounds f bs acc)
  declareVars : ∀ t ids ty, Ens R Qs (declareVars f t ids ty)
  declareArrs : ∀ t ids ty dims, Ens R Qs (declareArrs f t ids ty dims)
  outputAll : ∀ es, Ens R Qe (outputAll f es)
  fileName : ∀ t e, Ens R Qe (fileName f t e)
  execStmt : ∀ s, Ens R Qs (execStmt f s)

set_option hygiene false in
macro_rules | `(tactic| ens_ih) => `(tactic| first
  | apply ih.evalExpr | apply ih.resolveRef | apply ih.evalArgs | apply ih.evalIndices | apply ih.callFun
  | apply ih.bindParams | apply ih.execAssign | apply ih.runBlock | apply ih.ifChain | apply ih.caseMatch
  | apply ih.caseClauses | apply ih.loopBody | apply ih.whileLoop | apply ih.repeatLoop | apply ih.forLoop
  | apply ih.callProc | apply ih.resolveParams | apply ih.evalBounds | apply ih.declareVars | apply ih.declareArrs
  | apply ih.outputAll | apply ih.fileName | apply ih.execStmt | apply ih.defaultVal | apply ih.defaultCells)

section induction
variable {R : St → St → Prop} {Qe Qs : Stop → Prop} [RPre R] [QBase Qe] [QBase Qs] [QSig Qs] [QPair Qe Qs]
  [PrimOK R Qe] [PrimOK R Qs]

theorem AllEns.weak {f : Nat} (ih : AllEns R Qe Qs f) : AllEns R Qs Qs f where
  defaultVal := ih.defaultVal
  defaultCells := ih.defaultCells
  evalArgs es acc := (ih.evalArgs es acc).weaken QPair.le
  evalIndices es dims acc := (ih.evalIndices es dims acc).weaken QPair.le
  resolveRef r := (ih.resolveRef r).weaken QPair.le
  callFun t args := (ih.callFun t args).weaken QPair.le
  bindParams t ps es vs acc := (ih.bindParams t ps es vs acc).weaken QPair.le
  evalExpr e := (ih.evalExpr e).weaken QPair.le
  execAssign t r rhs := (ih.execAssign t r rhs).weaken QPair.le
  runBlock := ih.runBlock
  ifChain := ih.ifChain
  caseMatch v cl := (ih.caseMatch v cl).weaken QPair.le
  caseClauses := ih.caseClauses
  loopBody b := (ih.loopBody b).weaken QPair.le
  whileLoop t c b := (ih.whileLoop t c b).weaken QPair.le
  repeatLoop t b c := (ih.repeatLoop t b c).weaken QPair.le
  forLoop t it stop step b := (ih.forLoop t it stop step b).weaken QPair.le
  callProc t name args := (ih.callProc t name args).weaken QPair.le
  resolveParams ps acc := (ih.resolveParams ps acc).weaken QPair.le
  evalBounds bs acc := (ih.evalBounds bs acc).weaken QPair.le
  declareVars := ih.declareVars
  declareArrs := ih.declareArrs
  outputAll es := (ih.outputAll es).weaken QPair.le
  fileName t e := (ih.fileName t e).weaken QPair.le
  execStmt := ih.execStmt

theorem AllEns.zero : AllEns R Qe Qs 0 where
  defaultVal _ _ := by rw [Pseudo.defaultVal.eq_def]; dsimp only; ens_auto
  defaultCells _ _ _ _ := by rw [Pseudo.defaultCells.eq_def]; dsimp only; ens_auto
  evalArgs _ _ := by rw [Pseudo.evalArgs.eq_def]; dsimp only; ens_auto
  evalIndices _ _ _ := by rw [Pseudo.evalIndices.eq_def]; dsimp only; ens_auto
  resolveRef _ := by rw [Pseudo.resolveRef.eq_def]; dsimp only; ens_auto
  callFun _ _ := by rw [Pseudo.callFun.eq_def]; dsimp only; ens_auto
  bindParams _ _ _ _ _ := by rw [Pseudo.bindParams.eq_def]; dsimp only; ens_auto
  evalExpr _ := by rw [Pseudo.evalExpr.eq_def]; dsimp only; ens_auto
  execAssign _ _ _ := by rw [Pseudo.execAssign.eq_def]; dsimp only; ens_auto
  runBlock _ := by rw [Pseudo.runBlock.eq_def]; dsimp only; ens_auto
  ifChain _ _ _ := by rw [Pseudo.ifChain.eq_def]; dsimp only; ens_auto
  caseMatch _ _ := by rw [Pseudo.caseMatch.eq_def]; dsimp only; ens_auto
  caseClauses _ _ := by rw [Pseudo.caseClauses.eq_def]; dsimp only; ens_auto
  loopBody _ := by rw [Pseudo.loopBody.eq_def]; dsimp only; ens_auto
  whileLoop _ _ _ := by rw [Pseudo.whileLoop.eq_def]; dsimp only; ens_auto
  repeatLoop _ _ _ := by rw [Pseudo.repeatLoop.eq_def]; dsimp only; ens_auto
  forLoop _ _ _ _ _ := by rw [Pseudo.forLoop.eq_def]; dsimp only; ens_auto
  callProc _ _ _ := by rw [Pseudo.callProc.eq_def]; dsimp only; ens_auto
  resolveParams _ _ := by rw [Pseudo.resolveParams.eq_def]; dsimp only; ens_auto
  evalBounds _ _ := by rw [Pseudo.evalBounds.eq_def]; dsimp only; ens_auto
  declareVars _ _ _ := by rw [Pseudo.declareVars.eq_def]; dsimp only; ens_auto
  declareArrs _ _ _ _ := by rw [Pseudo.declareArrs.eq_def]; dsimp only; ens_auto
  outputAll _ := by rw [Pseudo.outputAll.eq_def]; dsimp only; ens_auto
  fileName _ _ := by rw [Pseudo.fileName.eq_def]; dsimp only; ens_auto
  execStmt _ := by rw [Pseudo.execStmt.eq_def]; dsimp only; ens_auto

variable {f : Nat}

theorem step_evalArgs (ih : AllEns R Qe Qs f) : ∀ es acc, Ens R Qe (evalArgs (f+1) es acc) := by
  intro es acc; ens_fn evalArgs

theorem step_evalIndices (ih : AllEns R Qe Qs f) : ∀ es dims acc, Ens R Qe (evalIndices (f+1) es dims acc) := by
  intro es dims acc; ens_fn evalIndices

theorem step_resolveRef (ih : AllEns R Qe Qs f) : ∀ r, Ens R Qe (resolveRef (f+1) r) := by
  intro r; ens_fn resolveRef

theorem step_evalExpr (ih : AllEns R Qe Qs f) : ∀ e, Ens R Qe (evalExpr (f+1) e) := by
  intro e; ens_fn evalExpr

theorem step_bindParams (ih : AllEns R Qe Qs f) : ∀ t ps es vs acc, Ens R Qe (bindParams (f+1) t ps es vs acc) := by
  intro t ps es vs acc; ens_fn bindParams

theorem step_caseMatch (ih : AllEns R Qe Qs f) : ∀ v cl, Ens R Qe (caseMatch (f+1) v cl) := by
  intro v cl; ens_fn caseMatch

theorem step_resolveParams (ih : AllEns R Qe Qs f) : ∀ ps acc, Ens R Qe (resolveParams (f+1) ps acc) := by
  intro ps acc; ens_fn resolveParams

theorem step_evalBounds (ih : AllEns R Qe Qs f) : ∀ bs acc, Ens R Qe (evalBounds (f+1) bs acc) := by
  intro bs acc; ens_fn evalBounds

theorem step_outputAll (ih : AllEns R Qe Qs f) : ∀ es, Ens R Qe (outputAll (f+1) es) := by
  intro es; ens_fn outputAll

theorem step_fileName (ih : AllEns R Qe Qs f) : ∀ t e, Ens R Qe (fileName (f+1) t e) := by
  intro t e; ens_fn fileName

theorem step_whileLoop (ih : AllEns R Qe Qs f) : ∀ t c b, Ens R Qe (whileLoop (f+1) t c b) := by
  intro t c b; ens_fn whileLoop

theorem step_repeatLoop (ih : AllEns R Qe Qs f) : ∀ t b c, Ens R Qe (repeatLoop (f+1) t b c) := by
  intro t b c; ens_fn repeatLoop

theorem step_forLoop (ih : AllEns R Qe Qs f) : ∀ t it stop step b, Ens R Qe (forLoop (f+1) t it stop step b) := by
  intro t it stop step b; ens_fn forLoop

theorem step_execAssign (ih : AllEns R Qe Qs f) : ∀ t r rhs, Ens R Qe (execAssign (f+1) t r rhs) := by
  intro t r rhs; ens_fn execAssign

/-- a handler that absorbs or converts BREAK / CONTINUE and passes everything else on -/
macro "ens_handler" : tactic => `(tactic| (
  intro e he
  split <;> first
    | exact Ens.throw (QPair.conv _ he (by assumption) (by assumption))
    | ens_auto))

theorem step_loopBody (ih : AllEns R Qe Qs f) : ∀ b, Ens R Qe (loopBody (f+1) b) := by
  intro b; ens_fn_nt loopBody
  all_goals refine Ens.tryCatch (Q' := Qs) (by ens_auto) ?_; ens_handler

theorem step_callProc (ih : AllEns R Qe Qs f) : ∀ t name args, Ens R Qe (callProc (f+1) t name args) := by
  intro t name args; ens_fn_nt callProc
  all_goals refine Ens.tryCatch (Q' := Qs) (by ens_auto) ?_; ens_handler

theorem step_callFun (ih : AllEns R Qe Qs f) : ∀ t args, Ens R Qe (callFun (f+1) t args) := by
  intro t args; ens_fn_nt callFun
  all_goals refine Ens.tryCatch (Q' := Qs) (by ens_auto) ?_; ens_handler

theorem step_defaultVal (ih : AllEns R Qe Qs f) : ∀ t ty, Ens R Qs (defaultVal (f+1) t ty) := by
  intro t ty; have ih := ih.weak; ens_fn defaultVal

theorem step_defaultCells (ih : AllEns R Qe Qs f) : ∀ t ty n acc, Ens R Qs (defaultCells (f+1) t ty n acc) := by
  intro t ty n acc; have ih := ih.weak; ens_fn defaultCells

theorem step_runBlock (ih : AllEns R Qe Qs f) : ∀ b, Ens R Qs (runBlock (f+1) b) := by
  intro b; have ih := ih.weak; ens_fn runBlock

theorem step_ifChain (ih : AllEns R Qe Qs f) : ∀ t bs els, Ens R Qs (ifChain (f+1) t bs els) := by
  intro t bs els; have ih := ih.weak; ens_fn ifChain

theorem step_caseClauses (ih : AllEns R Qe Qs f) : ∀ v cls, Ens R Qs (caseClauses (f+1) v cls) := by
  intro v cls; have ih := ih.weak; ens_fn caseClauses

theorem step_declareVars (ih : AllEns R Qe Qs f) : ∀ t ids ty, Ens R Qs (declareVars (f+1) t ids ty) := by
  intro t ids ty; have ih := ih.weak; ens_fn declareVars

theorem step_declareArrs (ih : AllEns R Qe Qs f) : ∀ t ids ty dims, Ens R Qs (declareArrs (f+1) t ids ty dims) := by
  intro t ids ty dims; have ih := ih.weak; ens_fn declareArrs

set_option maxHeartbeats 1000000 in
theorem step_execStmt (ih : AllEns R Qe Qs f) : ∀ s, Ens R Qs (execStmt (f+1) s) := by
  intro s; have ih := ih.weak; ens_fn execStmt


/-- the induction step: every function at fuel `f+1` calls the others at fuel `f` only -/
theorem AllEns.succ (ih : AllEns R Qe Qs f) : AllEns R Qe Qs (f + 1) where
  defaultVal := step_defaultVal ih
  defaultCells := step_defaultCells ih
  evalArgs := step_evalArgs ih
  evalIndices := step_evalIndices ih
  resolveRef := step_resolveRef ih
  callFun := step_callFun ih
  bindParams := step_bindParams ih
  evalExpr := step_evalExpr ih
  execAssign := step_execAssign ih
  runBlock := step_runBlock ih
  ifChain := step_ifChain ih
  caseMatch := step_caseMatch ih
  caseClauses := step_caseClauses ih
  loopBody := step_loopBody ih
  whileLoop := step_whileLoop ih
  repeatLoop := step_repeatLoop ih
  forLoop := step_forLoop ih
  callProc := step_callProc ih
  resolveParams := step_resolveParams ih
  evalBounds := step_evalBounds ih
  declareVars := step_declareVars ih
  declareArrs := step_declareArrs ih
  outputAll := step_outputAll ih
  fileName := step_fileName ih
  execStmt := step_execStmt ih

end induction

/-! ### the generic theorem -/

/-- **Generic preservation theorem.** For a reflexive, transitive `R`, postconditions `Qe ⊆ Qs` on exceptions and
    primitives that respect `R`, every function of the evaluator respects `R`, at every fuel. -/
theorem eval_all (R : St → St → Prop) (Qe Qs : Stop → Prop) [RPre R] [QBase Qe] [QBase Qs] [QSig Qs] [QPair Qe Qs]
    [PrimOK R Qe] [PrimOK R Qs] : ∀ fuel, AllEns R Qe Qs fuel
  | 0 => AllEns.zero
  | f + 1 => (eval_all R Qe Qs f).succ

/-- the same as one conjunction (one conjunct per function of the mutual block) -/
theorem eval_ens (R : St → St → Prop) (Qe Qs : Stop → Prop) [RPre R] [QBase Qe] [QBase Qs] [QSig Qs] [QPair Qe Qs]
    [PrimOK R Qe] [PrimOK R Qs] (fuel : Nat) :
    (∀ e, Ens R Qe (evalExpr fuel e)) ∧ (∀ s, Ens R Qs (execStmt fuel s)) ∧ (∀ b, Ens R Qs (runBlock fuel b)) ∧
    (∀ t ty, Ens R Qs (defaultVal fuel t ty)) ∧ (∀ t ty n acc, Ens R Qs (defaultCells fuel t ty n acc)) ∧
    (∀ es acc, Ens R Qe (evalArgs fuel es acc)) ∧ (∀ es dims acc, Ens R Qe (evalIndices fuel es dims acc)) ∧
    (∀ r, Ens R Qe (resolveRef fuel r)) ∧ (∀ t args, Ens R Qe (callFun fuel t args)) ∧
    (∀ t ps es vs acc, Ens R Qe (bindParams fuel t ps es vs acc)) ∧ (∀ t r rhs, Ens R Qe (execAssign fuel t r rhs)) ∧
    (∀ t bs els, Ens R Qs (ifChain fuel t bs els)) ∧ (∀ v cl, Ens R Qe (caseMatch fuel v cl)) ∧
    (∀ v cls, Ens R Qs (caseClauses fuel v cls)) ∧ (∀ b, Ens R Qe (loopBody fuel b)) ∧
    (∀ t c b, Ens R Qe (whileLoop fuel t c b)) ∧ (∀ t b c, Ens R Qe (repeatLoop fuel t b c)) ∧
    (∀ t it stop step b, Ens R Qe (forLoop fuel t it stop step b)) ∧ (∀ t name args, Ens R Qe (callProc fuel t name args)) ∧
    (∀ ps acc, Ens R Qe (resolveParams fuel ps acc)) ∧ (∀ bs acc, Ens R Qe (evalBounds fuel bs acc)) ∧
    (∀ t ids ty, Ens R Qs (declareVars fuel t ids ty)) ∧ (∀ t ids ty dims, Ens R Qs (declareArrs fuel t ids ty dims)) ∧
    (∀ es, Ens R Qe (outputAll fuel es)) ∧ (∀ t e, Ens R Qe (fileName fuel t e)) :=
  have h := eval_all R Qe Qs fuel
  ⟨h.evalExpr, h.execStmt, h.runBlock, h.defaultVal, h.defaultCells, h.evalArgs, h.evalIndices, h.resolveRef, h.callFun,
   h.bindParams, h.execAssign, h.ifChain, h.caseMatch, h.caseClauses, h.loopBody, h.whileLoop, h.repeatLoop, h.forLoop,
   h.callProc, h.resolveParams, h.evalBounds, h.declareVars, h.declareArrs, h.outputAll, h.fileName⟩

/-- `QPair Q Q` for a single postcondition -/
theorem QPair.same (Q : Stop → Prop) : QPair Q Q := ⟨fun _ h => h, fun _ h _ _ => h⟩

/-! ### helpers for the instances -/

/-- the state after `pushAct mk` -/
def pushSt (mk : Nat → Act) (σ : St) : St := { σ with acts := mk σ.nextId :: σ.acts, nextId := σ.nextId + 1 }
/-- the state after `popAct` -/
def popSt (σ : St) : St := { σ with acts := σ.acts.drop 1 }
/-- the state after `modifyAct id f` -/
def updSt (σ : St) (id : Nat) (f : Act → Act) : St := { σ with acts := updActs σ.acts id f }

theorem run_pushAct (mk : Nat → Act) (σ : St) : (pushAct mk).run.run σ = (.ok σ.nextId, pushSt mk σ) := rfl
theorem run_popAct (σ : St) : popAct.run.run σ = (.ok ⟨⟩, popSt σ) := rfl
theorem run_modifyAct (id : Nat) (f : Act → Act) (σ : St) : (modifyAct id f).run.run σ = (.ok ⟨⟩, updSt σ id f) := rfl
theorem run_liftRun {α : Type} (body : M α) (σ : St) :
    (liftM (m := StateM St) (ExceptT.run body) : M (Except Stop α)).run.run σ
      = (.ok (body.run.run σ).1, (body.run.run σ).2) := rfl

/-- `withAct` = push, run the body, pop — whatever the body's result -/
theorem run_withAct {α : Type} (mk : Nat → Act) (body : M α) (σ : St) :
    (withAct mk body).run.run σ = ((body.run.run (pushSt mk σ)).1, popSt (body.run.run (pushSt mk σ)).2) := by
  unfold withAct
  rw [run_bind_ok _ _ _ _ _ (run_pushAct mk σ)]
  rw [run_bind_ok _ _ _ _ _ (run_liftRun body _)]
  rw [run_bind_ok _ _ _ _ _ (run_popAct _)]
  rcases (body.run.run (pushSt mk σ)).1 with e | a <;> rfl

section builders
variable {R : St → St → Prop} {Q : Stop → Prop} {α : Type}

/-- bracket rule from a statement about states -/
theorem Ens.withAct_of (hbr : ∀ mk σ σ2, (∀ i, (mk i).id = i) → R (pushSt mk σ) σ2 → R σ (popSt σ2))
    (mk : Nat → Act) (body : M α) (hmk : ∀ i, (mk i).id = i) (hb : Ens R Q body) : Ens R Q (withAct mk body) := by
  constructor
  intro σ
  rw [run_withAct]
  exact ⟨hbr mk σ _ hmk (hb.run _).1, (hb.run _).2⟩

theorem Ens.modifyAct_of (id : Nat) (f : Act → Act) (h : ∀ σ, R σ (updSt σ id f)) : Ens R Q (modifyAct id f) :=
  Ens.modify _ h

theorem Ens.modifyCur_of [RPre R] [QBase Q] (f : Act → Act) (h : ∀ σ id, R σ (updSt σ id f)) : Ens R Q (modifyCur f) := by
  unfold modifyCur
  ens_auto
  exact Ens.modifyAct_of _ _ (fun σ => h σ _)

/-- start with `get`: the continuation may be analysed at the very state it reads -/
theorem Ens.get_bind {f : St → M α}
    (h : ∀ σ, R σ ((f σ).run.run σ).2 ∧ ∀ e, ((f σ).run.run σ).1 = .error e → Q e) : Ens R Q ((MonadState.get : M St) >>= f) := by
  constructor
  intro σ
  rw [run_bind_ok _ _ _ _ _ (run_get σ)]
  exact h σ

/-- nothing but the parts of the state outside `acts` / `nextId` changes -/
def SameActs (σ σ' : St) : Prop := σ'.acts = σ.acts ∧ σ'.nextId = σ.nextId

instance : RPre SameActs := ⟨fun _ => ⟨rfl, rfl⟩, fun h1 h2 => ⟨h2.1.trans h1.1, h2.2.trans h1.2⟩⟩

theorem frame_emit [QBase Q] (x : Str) : Ens SameActs Q (emit x) := Ens.modify _ fun _ => ⟨rfl, rfl⟩

theorem frame_tick [QBase Q] (t : Tok) : Ens SameActs Q (tick t) := by
  unfold tick
  apply Ens.get_bind
  intro σ
  split
  · exact (Ens.l_rtErr t .budget).run σ
  · exact ⟨⟨rfl, rfl⟩, fun e h => by cases h⟩

theorem frame_getLine [QBase Q] : Ens SameActs Q getLine := by
  unfold getLine
  apply Ens.get_bind
  intro σ
  split
  · exact ⟨⟨rfl, rfl⟩, fun e h => by cases h⟩
  · dsimp only
    split
    · exact ⟨⟨rfl, rfl⟩, fun e h => by cases h⟩
    · exact ⟨⟨rfl, rfl⟩, fun e h => by cases h⟩

theorem frame_doFile [QBase Q] (t : Tok) (op : FOp) : Ens SameActs Q (doFile t op) := by
  unfold doFile
  apply Ens.get_bind
  intro σ
  split
  · exact ⟨⟨rfl, rfl⟩, fun e h => by cases h⟩
  · exact (Ens.l_rtErr t _).run σ

theorem frame_doFile0 [QBase Q] (op : FOp) : Ens SameActs Q (doFile0 op) := by
  unfold doFile0
  apply Ens.get_bind
  intro σ
  split
  · exact ⟨⟨rfl, rfl⟩, fun e h => by cases h⟩
  · exact (Ens.l_rtErr0 _).run σ

/-- build `PrimOK` from statements about states: `R` contains `SameActs`; updates of one activation that keep
    its id / variables / arrays; appending a variable / an array; `writeLoc`; the push–pop bracket -/
theorem primOK_build [RPre R] [QBase Q] (hF : ∀ σ σ', SameActs σ σ' → R σ σ')
    (hmeta : ∀ σ id (f : Act → Act), (∀ a, (f a).id = a.id ∧ (f a).vars = a.vars ∧ (f a).arrs = a.arrs) → R σ (updSt σ id f))
    (haddVar : ∀ σ id s, R σ (updSt σ id fun a => { a with vars := a.vars ++ [s] }))
    (haddArr : ∀ σ id s, R σ (updSt σ id fun a => { a with arrs := a.arrs ++ [s] }))
    (hwrite : ∀ t l v, Ens R Q (writeLoc t l v))
    (hbr : ∀ mk σ σ2, (∀ i, (mk i).id = i) → R (pushSt mk σ) σ2 → R σ (popSt σ2)) : PrimOK R Q where
  emit x := (frame_emit x).mono hF fun _ h => h
  tick t := (frame_tick t).mono hF fun _ h => h
  setSwitchTok id _ := Ens.modifyAct_of _ _ fun σ => hmeta σ id _ fun _ => ⟨rfl, rfl, rfl⟩
  setRetVal id _ := Ens.modifyAct_of _ _ fun σ => hmeta σ id _ fun _ => ⟨rfl, rfl, rfl⟩
  addVar s := Ens.modifyCur_of _ fun σ id => haddVar σ id s
  addArr s := Ens.modifyCur_of _ fun σ id => haddArr σ id s
  addEnum _ := Ens.modifyCur_of _ fun σ id => hmeta σ id _ fun _ => ⟨rfl, rfl, rfl⟩
  addPtr _ := Ens.modifyCur_of _ fun σ id => hmeta σ id _ fun _ => ⟨rfl, rfl, rfl⟩
  addComp _ := Ens.modifyCur_of _ fun σ id => hmeta σ id _ fun _ => ⟨rfl, rfl, rfl⟩
  writeLoc := hwrite
  withAct mk body hmk hb := Ens.withAct_of hbr mk body hmk hb
  getLine := frame_getLine.mono hF fun _ h => h
  doFile t op := (frame_doFile t op).mono hF fun _ h => h
  doFile0 op := (frame_doFile0 op).mono hF fun _ h => h
  depthInc := Ens.modify _ fun _ => hF _ _ ⟨rfl, rfl⟩
  depthDec := Ens.modify _ fun _ => hF _ _ ⟨rfl, rfl⟩
  addProc _ := Ens.modify _ fun _ => hF _ _ ⟨rfl, rfl⟩
  addFun _ := Ens.modify _ fun _ => hF _ _ ⟨rfl, rfl⟩

end builders

/-! ### whole programs and the REPL (`Top.lean`) -/

theorem runOn_state (fuel : Nat) (b : Block) (σ : St) : (runOn fuel b σ).2 = ((runMain fuel b).run.run σ).2 := by
  unfold runOn
  split <;> simp_all

/-- `runMain` (a whole program / one REPL entry): a stray signal becomes an error, everything else passes -/
theorem runMain_ens {R : St → St → Prop} [RPre R] (fuel : Nat) (b : Block)
    (h : Ens R (fun _ => True) (runBlock fuel b)) : Ens R (fun _ => True) (runMain fuel b) := by
  unfold runMain
  apply Ens.tryCatch_same h
  intro e _
  ens_auto

section repl
variable {R : St → St → Prop} [RPre R] (hF : ∀ σ σ', SameActs σ σ' → R σ σ')
  (hmain : ∀ fuel b, Ens R (fun _ => True) (runMain fuel b))
include hF hmain

theorem getLine_rel (σ : St) : R σ ((ExceptT.run getLine).run σ).2 :=
  ((frame_getLine (Q := fun _ => True)).mono hF (fun _ h => h)).run σ |>.1

theorem runOn_rel (fuel : Nat) (b : Block) (σ : St) : R σ (runOn fuel b σ).2 := by
  rw [runOn_state]
  exact ((hmain fuel b).run σ).1

theorem runSource_rel (cfg : Cfg) (src : Str) (σ : St) : R σ (runSource cfg src σ).2 := by
  unfold runSource
  split
  · exact hF _ _ ⟨rfl, rfl⟩
  · split
    · dsimp only
      split <;> exact hF _ _ ⟨rfl, rfl⟩
    · rename_i b warns _
      dsimp only
      have h0 : R σ { σ with out := (List.map warningText warns).reverse ++ σ.out } := hF _ _ ⟨rfl, rfl⟩
      have h1 := runOn_rel hF hmain cfg.fuel b { σ with out := (List.map warningText warns).reverse ++ σ.out }
      rcases hr : runOn cfg.fuel b { σ with out := (List.map warningText warns).reverse ++ σ.out } with ⟨o, s⟩
      rw [hr] at h1
      cases o with
      | diag d => exact RPre.trans h0 (RPre.trans h1 (hF _ _ ⟨rfl, rfl⟩))
      | ok => exact RPre.trans h0 h1
      | crash p => exact RPre.trans h0 h1
      | fuel => exact RPre.trans h0 h1

theorem collectLines_rel : ∀ (n : Nat) (code : Str) (σ : St), R σ (collectLines n code σ).2
  | 0, _, σ => RPre.refl σ
  | n + 1, code, σ => by
    unfold collectLines
    dsimp only
    have h0 : R σ { σ with out := ". ".toList :: σ.out } := hF _ _ ⟨rfl, rfl⟩
    have h1 := getLine_rel hF hmain { σ with out := ". ".toList :: σ.out }
    rcases hr : (ExceptT.run getLine).run { σ with out := ". ".toList :: σ.out } with ⟨o, s⟩
    rw [hr] at h1
    have h01 := RPre.trans h0 h1
    cases o with
    | error e => exact h01
    | ok p =>
      obtain ⟨line, ok⟩ := p
      dsimp only
      split
      · exact h01
      · split
        · exact h01
        · exact RPre.trans h01 (collectLines_rel n _ s)


set_option maxHeartbeats 1000000 in
/-- **a whole REPL session respects `R`**: from the session state before to the session state after any number of
    entries (one-line and multi-line entries, `?`, RUNFILE, entries that fail to lex / parse / run) -/
theorem replLoop_rel (cfg : Cfg) : ∀ (n : Nat) (first : Bool) (r : ReplSt), R r.st (replLoop cfg n first r).st
  | 0, _, r => RPre.refl _
  | n + 1, first, r => by
    have ih := replLoop_rel cfg n
    unfold replLoop
    split
    · exact RPre.refl _
    · dsimp only
      generalize hst1 : ({ (if first = true then r.st else { r.st with out := marker :: r.st.out }) with
          out := "> ".toList :: (if first = true then r.st else { r.st with out := marker :: r.st.out }).out,
          steps := 0, depth := 0 } : St) = st1
      have h01 : R r.st st1 := by
        subst hst1
        cases first <;> exact hF _ _ ⟨rfl, rfl⟩
      have h12 := getLine_rel hF hmain st1
      rcases hr : (ExceptT.run getLine).run st1 with ⟨o, st2⟩
      rw [hr] at h12
      have h02 := RPre.trans h01 h12
      dsimp only at h02
      clear h12 h01 hr hst1
      have step : ∀ (first' : Bool) (r' : ReplSt), R r.st r'.st → R r.st (replLoop cfg n first' r').st :=
        fun f r' h => RPre.trans h (ih f r')
      split
      · rename_i code ok st2' heq
        cases heq
        split
        · exact h02
        split
        · exact step _ _ h02
        split
        · exact step _ _ (RPre.trans h02 (hF _ _ ⟨rfl, rfl⟩))
        split
        · exact h02
        split
        · -- RUNFILE
          split
          · exact step _ _ h02
          split
          · split
            · exact step _ _ (RPre.trans h02 (hF _ _ ⟨rfl, rfl⟩))
            · split <;> exact step _ _ (RPre.trans h02 (hF _ _ ⟨rfl, rfl⟩))
            · exact RPre.trans h02 (hF _ _ ⟨rfl, rfl⟩)
            · exact step _ _ (RPre.trans h02 (hF _ _ ⟨rfl, rfl⟩))
          · exact step _ _ (RPre.trans h02 (hF _ _ ⟨rfl, rfl⟩))
        · -- an entry: (possibly) more lines, then lex + parse + run
          have h23 : R st2 (if multilineStart code = true then collectLines (st2.stdin.length + 2) code st2
              else (some code, st2)).2 := by
            split
            · exact collectLines_rel hF hmain _ _ _
            · exact RPre.refl _
          generalize (if multilineStart code = true then collectLines (st2.stdin.length + 2) code st2
              else (some code, st2)) = p at h23 ⊢
          obtain ⟨full?, st3⟩ := p
          have h03 : R r.st st3 := RPre.trans h02 h23
          dsimp only
          split
          · exact h03
          · rename_i src
            have h34 := runSource_rel hF hmain cfg src st3
            rcases hs : runSource cfg src st3 with ⟨o', s⟩
            rw [hs] at h34
            have h04 : R r.st s := RPre.trans h03 h34
            cases o' with
            | ok => exact step _ _ h04
            | diag d => dsimp only; split <;> exact step _ _ h04
            | crash p => exact h04
            | fuel => exact step _ _ h04
      · rename_i st2' _ heq
        cases heq
        exact h02

end repl

end Pseudo
