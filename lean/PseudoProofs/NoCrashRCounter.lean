import PseudoProofs.NoCrashRMain
/-!
# C01 with enum / pointer / record types: a concrete program, evaluated by the kernel
-/
namespace Pseudo

/-- an enum, a pointer and two record types (one nested in the other, with an array member of records), BYREF of a record and of a
    field, a pointer to a field of a record inside an array member, RETURN of a record, record copies -/
def C01.progRecords : String :=
  "TYPE Colour = (Red, Green, Blue)\nTYPE PI = ^INTEGER\nTYPE Point\nDECLARE x : INTEGER\nDECLARE c : Colour\nENDTYPE\nTYPE Shape\nDECLARE o : Point\nDECLARE pts : ARRAY[1:2] OF Point\nENDTYPE\nDECLARE s : Shape\nDECLARE t : Shape\nDECLARE gp : PI\nPROCEDURE Move(BYREF q : Point, BYREF n : INTEGER)\nq.x <- q.x + n\nq.c <- q.c + 1\nENDPROCEDURE\nFUNCTION Mk(a : INTEGER) RETURNS Point\nDECLARE r : Point\nr.x <- a\nRETURN r\nENDFUNCTION\ns.o <- Mk(3)\ns.pts[2] <- s.o\ngp <- ^s.pts[2].x\nCALL Move(s.pts[2], s.o.x)\nt <- s\nOUTPUT t.pts[2].x, t.pts[2].c, gp^"

namespace NR

theorem progRecords_ok : OkSrc {} (C01.progRecords.toList ++ ['\n']) := by decide +kernel
theorem progRecords_runs : (runFile {} C01.progRecords.toList [] []).out = "6Green6\n".toList := by decide +kernel

end NR
end Pseudo
