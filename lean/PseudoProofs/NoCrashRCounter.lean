import PseudoProofs.NoCrashRMain
/-!
# C01 with enum / pointer / record types: a concrete program, evaluated by the kernel
-/
namespace Pseudo

/-- nested records, an array member with literal bounds, an array of records, BYREF of a record and of a field, a pointer to a field
    of a record inside an array member, RETURN of a record, record copies -/
def C01.progRecords : String :=
  "TYPE Colour = (Red, Green, Blue)\nTYPE PI = ^INTEGER\nTYPE Point\nDECLARE x : INTEGER\nDECLARE y : INTEGER\nDECLARE c : Colour\nENDTYPE\nTYPE Shape\nDECLARE origin : Point\nDECLARE pts : ARRAY[1:2] OF Point\nDECLARE w : ARRAY[0:1, 1:2] OF REAL\nDECLARE p : PI\nENDTYPE\nDECLARE s : Shape\nDECLARE t : Shape\nDECLARE all : ARRAY[1:3] OF Shape\nDECLARE gp : PI\nPROCEDURE Move(BYREF q : Point, BYREF n : INTEGER)\nq.x <- q.x + n\nq.c <- q.c + 1\nn <- n * 2\nENDPROCEDURE\nFUNCTION Mk(a : INTEGER) RETURNS Point\nDECLARE r : Point\nr.x <- a\nr.y <- a + 1\nRETURN r\nENDFUNCTION\ns.origin <- Mk(3)\ns.pts[2] <- s.origin\ngp <- ^s.pts[2].y\nCALL Move(s.pts[2], s.origin.x)\nall[2] <- s\nt <- all[2]\nt.p <- gp\nOUTPUT t.pts[2].x, \" \", t.pts[2].c, \" \", s.origin.x, \" \", gp^, \" \", t.p^\ns <- all[1]\nOUTPUT gp^"

namespace NR

theorem progRecords_ok : OkSrc {} (C01.progRecords.toList ++ ['\n']) := by decide +kernel
theorem progRecords_runs : (runFile {} C01.progRecords.toList [] []).out = "6 Green 6 4 4\n0\n".toList := by decide +kernel

end NR
end Pseudo
