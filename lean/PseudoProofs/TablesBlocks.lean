import PseudoProofs.TablesBase
namespace Pseudo

/-- E4: the token kinds that end `parseBlock` are the model's `isBlockEnd` -/
theorem blockTerminators_agree : Generated.blockTerminatorsAvailable = true →
    ∀ t ∈ allTK, isBlockEnd t = Generated.blockTerminators.contains t := by decide


end Pseudo
