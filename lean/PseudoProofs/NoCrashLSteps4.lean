import PseudoProofs.NoCrashLSpec
/-!
# C01 with TYPE statements anywhere: the step lemmas of `execStmt` (one per constructor, part 1)
(the analogue of `NoCrashRSteps4.lean`)

`declare` and `declareArr` (the statements with a non-trivial `Frame` part) are proved elsewhere.
-/
namespace Pseudo.NL
open Pseudo
open Pseudo.NC (ReadsIn ActRead ErrOK ErrNR NoCrash RO EOK errOK_diag errNR_diag errOK_fuel errNR_fuel errOK_brk errOK_cont
  getLast?_mem ro_findAct ro_isLive ro_rtErr ro_rtErr0 ro_pedErr ro_liftMsg ro_liftMsg0 ro_readLoc ro_locIsConst ro_filePre
  ro_writeText ro_get getPath_nil findSlot_name findSlot_mem lookupVarIn_some lookupArrIn_some lookupVarIn_none top_mem
  getPath_append)
open Pseudo.NR (litDims declStmt declBody NArr Kind kind SameKind sigOf SigDefined Live genums gptrs gcomps kind_val_narr
  kind_of_narr kind_arr_inv kind_int kind_str kind_ptr kind_comp kind_prim_simple narr_implicitCast)
variable {f : Nat}

set_option linter.unusedVariables false

/-- the result `NONE` of a statement -/
theorem none_ok {σ : St} {k : Nat} : NArr Val.none = true ∧ Good σ k Val.none := ⟨rfl, good_none⟩

/-- with only the global activation on the stack the current scope is the global one -/
theorem tscope_single' {σ : St} (hW : WF σ) {g : Act} (hσ : σ.acts = [g]) : tscope σ = gid σ := by
  have hc : g.isComp = false := hW.last_noncomp (by rw [hσ]; rfl)
  rw [NTop.tscope hσ hc]
  unfold gid
  rw [hσ]
  rfl

theorem step_execStmt_expr (ih : AllTri f) (top : Bool) (e : Expr) (hok : okStmt top (.expr e) = true) :
    Tri (fun σ => TopCond top σ ∧ (NTop σ ∨ declStmt (.expr e) = true)) (execStmt (f+1) (.expr e))
      (fun σ v σ' => (NArr v = true ∧ Good σ' (tscope σ') v) ∧
        (declStmt (.expr e) = true → Frame σ σ' (scalSig σ (tscope σ) [.expr e]) (arrSig σ (tscope σ) [.expr e]))) := by
  intro σ hW hP; have hE0 := Ext.refl σ; rw [execStmt.eq_def]; dsimp only
  have hN : NTop σ := hP.2.resolve_right (by simp [declStmt])
  refine Run.bind hE0 (run_tick hW _) fun _ σ1 hW1 hE1 hE01 _ => ?_
  exact Run.of_tri hE01 (ih.evalExpr e σ1 hW1 (hN.ext hE1)) fun _ _ _ _ h => ⟨h, fun h => by simp [declStmt] at h⟩

theorem step_execStmt_const (ih : AllTri f) (top : Bool) (t : Tok) (name : Tok) (e : Expr)
    (hok : okStmt top (.const t name e) = true) :
    Tri (fun σ => TopCond top σ ∧ (NTop σ ∨ declStmt (.const t name e) = true)) (execStmt (f+1) (.const t name e))
      (fun σ v σ' => (NArr v = true ∧ Good σ' (tscope σ') v) ∧
        (declStmt (.const t name e) = true →
          Frame σ σ' (scalSig σ (tscope σ) [.const t name e]) (arrSig σ (tscope σ) [.const t name e]))) := by
  intro σ hW hP; have hE0 := Ext.refl σ; rw [execStmt.eq_def]; dsimp only
  have hN : NTop σ := hP.2.resolve_right (by simp [declStmt])
  refine Run.bind hE0 (run_tick hW _) fun _ σ1 hW1 hE1 hE01 _ => ?_
  refine Run.bind hE01 (ih.evalExpr e σ1 hW1 (hN.ext hE1)) fun v σ2 hW2 hE2 hE02 hv => ?_
  refine Run.ro hW2 hE02 (ro_curAct hW2) fun a ⟨rest, ha⟩ => ?_
  split
  · exact Run.rtErr hW2 hE02 _ _
  · refine Run.bind hE02
      (run_addVar hW2 { name := name.val, ty := v.ty, isConst := true, val := v } rfl ⟨kind_of_narr hv.1, hv.2⟩)
      fun _ σ3 hW3 hE3 hE03 _ => ?_
    exact Run.pure hW3 hE03 ⟨none_ok, fun h => by simp [declStmt] at h⟩

/-- a name that is no identifier of a type is fresh -/
theorem fresh_of_notType {σ : St} {k : Nat} {name : Tok} (hnone : typeOfTok σ k name = .none) : Fresh σ k name.val := by
  have hk : (name.k == .DATA_TYPE) = false := by
    cases hk' : (name.k == TK.DATA_TYPE) with
    | false => rfl
    | true => exact absurd hnone (typeOfTok_dataType hk')
  exact fresh_of_tok hk hnone

theorem step_execStmt_typeEnum (ih : AllTri f) (top : Bool) (t : Tok) (name : Tok) (vals : List Str)
    (hok : okStmt top (.typeEnum t name vals) = true) :
    Tri (fun σ => TopCond top σ ∧ (NTop σ ∨ declStmt (.typeEnum t name vals) = true)) (execStmt (f+1) (.typeEnum t name vals))
      (fun σ v σ' => (NArr v = true ∧ Good σ' (tscope σ') v) ∧
        (declStmt (.typeEnum t name vals) = true →
          Frame σ σ' (scalSig σ (tscope σ) [.typeEnum t name vals]) (arrSig σ (tscope σ) [.typeEnum t name vals]))) := by
  have hne : vals ≠ [] := by simpa [okStmt] using hok
  intro σ hW hP; have hE0 := Ext.refl σ; rw [execStmt.eq_def]; dsimp only
  have hN : NTop σ := hP.2.resolve_right (by simp [declStmt])
  refine Run.bind hE0 (run_tick hW _) fun _ σ1 hW1 hE1 hE01 _ => ?_
  have hN1 : NTop σ1 := hN.ext hE1
  refine Run.ro hW1 hE01 (ro_isIdentifierType hW1 name) fun b hb => ?_
  split
  · exact Run.rtErr hW1 hE01 _ _
  · rename_i hbf
    have hbf' : b = false := by simpa using hbf
    obtain ⟨hnone, _⟩ := hb hbf'
    have hfresh := fresh_of_notType hnone
    refine Run.bind hE01 (run_addEnum hW1 hN1 name.val vals hne hfresh) fun _ σ2 hW2 hE2 hE02 _ => ?_
    exact Run.pure hW2 hE02 ⟨none_ok, fun h => by simp [declStmt] at h⟩

theorem step_execStmt_typePtr (ih : AllTri f) (top : Bool) (t : Tok) (name : Tok) (target : Tok)
    (hok : okStmt top (.typePtr t name target) = true) :
    Tri (fun σ => TopCond top σ ∧ (NTop σ ∨ declStmt (.typePtr t name target) = true)) (execStmt (f+1) (.typePtr t name target))
      (fun σ v σ' => (NArr v = true ∧ Good σ' (tscope σ') v) ∧
        (declStmt (.typePtr t name target) = true →
          Frame σ σ' (scalSig σ (tscope σ) [.typePtr t name target]) (arrSig σ (tscope σ) [.typePtr t name target]))) := by
  intro σ hW hP; have hE0 := Ext.refl σ; rw [execStmt.eq_def]; dsimp only
  have hN : NTop σ := hP.2.resolve_right (by simp [declStmt])
  refine Run.bind hE0 (run_tick hW _) fun _ σ1 hW1 hE1 hE01 _ => ?_
  have hN1 : NTop σ1 := hN.ext hE1
  refine Run.ro hW1 hE01 (ro_getType hW1 target) fun ty hty => ?_
  subst hty
  split
  · exact Run.rtErr hW1 hE01 _ _
  · refine Run.ro hW1 hE01 (ro_isIdentifierType hW1 name) fun b hb => ?_
    split
    · exact Run.rtErr hW1 hE01 _ _
    · rename_i hbf
      have hbf' : b = false := by simpa using hbf
      obtain ⟨hnone, _⟩ := hb hbf'
      have hfresh := fresh_of_notType hnone
      refine Run.bind hE01 (run_addPtr hW1 hN1 name.val _ (typeOfTok_def (tscope σ1) target) hfresh)
        fun _ σ2 hW2 hE2 hE02 _ => ?_
      exact Run.pure hW2 hE02 ⟨none_ok, fun h => by simp [declStmt] at h⟩

theorem step_execStmt_typeRec (ih : AllTri f) (top : Bool) (t : Tok) (name : Tok) (body : List Stmt)
    (hok : okStmt top (.typeRec t name body) = true) :
    Tri (fun σ => TopCond top σ ∧ (NTop σ ∨ declStmt (.typeRec t name body) = true)) (execStmt (f+1) (.typeRec t name body))
      (fun σ v σ' => (NArr v = true ∧ Good σ' (tscope σ') v) ∧
        (declStmt (.typeRec t name body) = true →
          Frame σ σ' (scalSig σ (tscope σ) [.typeRec t name body]) (arrSig σ (tscope σ) [.typeRec t name body]))) := by
  have hdecl : declBody body = true := by simpa only [okStmt] using hok
  intro σ hW hP; have hE0 := Ext.refl σ; rw [execStmt.eq_def]; dsimp only
  have hN : NTop σ := hP.2.resolve_right (by simp [declStmt])
  refine Run.bind hE0 (run_tick hW _) fun _ σ1 hW1 hE1 hE01 _ => ?_
  have hN1 : NTop σ1 := hN.ext hE1
  refine Run.ro hW1 hE01 (ro_isIdentifierType hW1 name) fun b hb => ?_
  split
  · exact Run.rtErr hW1 hE01 _ _
  · rename_i hbf
    have hbf' : b = false := by simpa using hbf
    obtain ⟨hnone, _⟩ := hb hbf'
    have hfresh := fresh_of_notType hnone
    refine Run.bind hE01 (run_addComp hW1 hN1 name.val body hdecl hfresh) fun _ σ2 hW2 hE2 hE02 _ => ?_
    exact Run.pure hW2 hE02 ⟨none_ok, fun h => by simp [declStmt] at h⟩

theorem step_execStmt_ifs (ih : AllTri f) (top : Bool) (t : Tok) (brs : List (Expr × List Stmt)) (els : Option (List Stmt))
    (hok : okStmt top (.ifs t brs els) = true) :
    Tri (fun σ => TopCond top σ ∧ (NTop σ ∨ declStmt (.ifs t brs els) = true)) (execStmt (f+1) (.ifs t brs els))
      (fun σ v σ' => (NArr v = true ∧ Good σ' (tscope σ') v) ∧
        (declStmt (.ifs t brs els) = true →
          Frame σ σ' (scalSig σ (tscope σ) [.ifs t brs els]) (arrSig σ (tscope σ) [.ifs t brs els]))) := by
  simp [okStmt] at hok
  intro σ hW hP; have hE0 := Ext.refl σ; rw [execStmt.eq_def]; dsimp only
  have hN : NTop σ := hP.2.resolve_right (by simp [declStmt])
  have hT := hP.1
  refine Run.bind hE0 (run_tick hW _) fun _ σ1 hW1 hE1 hE01 _ => ?_
  refine Run.bind hE01 (ih.ifChain top t brs els hok.1 hok.2 σ1 hW1 ⟨TopCond.ext hE1 hT, hN.ext hE1⟩)
    fun _ σ2 hW2 hE2 hE02 _ => ?_
  exact Run.pure hW2 hE02 ⟨none_ok, fun h => by simp [declStmt] at h⟩

theorem step_execStmt_case (ih : AllTri f) (top : Bool) (t : Tok) (sel : Tok) (cls : List Clause)
    (hok : okStmt top (.case t sel cls) = true) :
    Tri (fun σ => TopCond top σ ∧ (NTop σ ∨ declStmt (.case t sel cls) = true)) (execStmt (f+1) (.case t sel cls))
      (fun σ v σ' => (NArr v = true ∧ Good σ' (tscope σ') v) ∧
        (declStmt (.case t sel cls) = true →
          Frame σ σ' (scalSig σ (tscope σ) [.case t sel cls]) (arrSig σ (tscope σ) [.case t sel cls]))) := by
  simp [okStmt] at hok
  intro σ hW hP; have hE0 := Ext.refl σ; rw [execStmt.eq_def]; dsimp only
  have hN : NTop σ := hP.2.resolve_right (by simp [declStmt])
  have hT := hP.1
  refine Run.bind hE0 (run_tick hW _) fun _ σ1 hW1 hE1 hE01 _ => ?_
  refine Run.bind hE01 (ih.evalExpr (.access sel (.var sel)) σ1 hW1 (hN.ext hE1)) fun v σ2 hW2 hE2 hE02 _ => ?_
  refine Run.bind hE02 (ih.caseClauses top v cls hok σ2 hW2 ⟨TopCond.ext hE02 hT, hN.ext hE02⟩)
    fun _ σ3 hW3 hE3 hE03 _ => ?_
  exact Run.pure hW3 hE03 ⟨none_ok, fun h => by simp [declStmt] at h⟩

theorem step_execStmt_while (ih : AllTri f) (top : Bool) (t : Tok) (c : Expr) (b : Block)
    (hok : okStmt top (.while t c b) = true) :
    Tri (fun σ => TopCond top σ ∧ (NTop σ ∨ declStmt (.while t c b) = true)) (execStmt (f+1) (.while t c b))
      (fun σ v σ' => (NArr v = true ∧ Good σ' (tscope σ') v) ∧
        (declStmt (.while t c b) = true →
          Frame σ σ' (scalSig σ (tscope σ) [.while t c b]) (arrSig σ (tscope σ) [.while t c b]))) := by
  simp [okStmt] at hok
  intro σ hW hP; have hE0 := Ext.refl σ; rw [execStmt.eq_def]; dsimp only
  have hN : NTop σ := hP.2.resolve_right (by simp [declStmt])
  have hT := hP.1
  refine Run.bind hE0 (run_tick hW _) fun _ σ1 hW1 hE1 hE01 _ => ?_
  refine Run.bind hE01 (ih.whileLoop top t c b hok σ1 hW1 ⟨TopCond.ext hE1 hT, hN.ext hE1⟩) fun _ σ2 hW2 hE2 hE02 _ => ?_
  exact Run.pure hW2 hE02 ⟨none_ok, fun h => by simp [declStmt] at h⟩

theorem step_execStmt_repeat (ih : AllTri f) (top : Bool) (t : Tok) (b : Block) (c : Expr)
    (hok : okStmt top (.repeat t b c) = true) :
    Tri (fun σ => TopCond top σ ∧ (NTop σ ∨ declStmt (.repeat t b c) = true)) (execStmt (f+1) (.repeat t b c))
      (fun σ v σ' => (NArr v = true ∧ Good σ' (tscope σ') v) ∧
        (declStmt (.repeat t b c) = true →
          Frame σ σ' (scalSig σ (tscope σ) [.repeat t b c]) (arrSig σ (tscope σ) [.repeat t b c]))) := by
  simp [okStmt] at hok
  intro σ hW hP; have hE0 := Ext.refl σ; rw [execStmt.eq_def]; dsimp only
  have hN : NTop σ := hP.2.resolve_right (by simp [declStmt])
  have hT := hP.1
  refine Run.bind hE0 (run_tick hW _) fun _ σ1 hW1 hE1 hE01 _ => ?_
  refine Run.bind hE01 (ih.repeatLoop top t b c hok σ1 hW1 ⟨TopCond.ext hE1 hT, hN.ext hE1⟩) fun _ σ2 hW2 hE2 hE02 _ => ?_
  exact Run.pure hW2 hE02 ⟨none_ok, fun h => by simp [declStmt] at h⟩

theorem step_execStmt_call (ih : AllTri f) (top : Bool) (t : Tok) (name : Str) (args : List Expr)
    (hok : okStmt top (.call t name args) = true) :
    Tri (fun σ => TopCond top σ ∧ (NTop σ ∨ declStmt (.call t name args) = true)) (execStmt (f+1) (.call t name args))
      (fun σ v σ' => (NArr v = true ∧ Good σ' (tscope σ') v) ∧
        (declStmt (.call t name args) = true →
          Frame σ σ' (scalSig σ (tscope σ) [.call t name args]) (arrSig σ (tscope σ) [.call t name args]))) := by
  intro σ hW hP; have hE0 := Ext.refl σ; rw [execStmt.eq_def]; dsimp only
  have hN : NTop σ := hP.2.resolve_right (by simp [declStmt])
  refine Run.bind hE0 (run_tick hW _) fun _ σ1 hW1 hE1 hE01 _ => ?_
  refine Run.bind hE01 (ih.callProc t name args σ1 hW1 (hN.ext hE1)) fun _ σ2 hW2 hE2 hE02 _ => ?_
  exact Run.pure hW2 hE02 ⟨none_ok, fun h => by simp [declStmt] at h⟩

theorem step_execStmt_ret (ih : AllTri f) (top : Bool) (t : Tok) (e : Expr) (hok : okStmt top (.ret t e) = true) :
    Tri (fun σ => TopCond top σ ∧ (NTop σ ∨ declStmt (.ret t e) = true)) (execStmt (f+1) (.ret t e))
      (fun σ v σ' => (NArr v = true ∧ Good σ' (tscope σ') v) ∧
        (declStmt (.ret t e) = true → Frame σ σ' (scalSig σ (tscope σ) [.ret t e]) (arrSig σ (tscope σ) [.ret t e]))) := by
  intro σ hW hP; have hE0 := Ext.refl σ; rw [execStmt.eq_def]; dsimp only
  have hN : NTop σ := hP.2.resolve_right (by simp [declStmt])
  refine Run.bind hE0 (run_tick hW _) fun _ σ1 hW1 hE1 hE01 _ => ?_
  refine Run.ro hW1 hE01 (ro_curAct hW1) fun a ⟨rest, ha⟩ => ?_
  split
  · exact Run.rtErr hW1 hE01 _ _
  · rename_i hfn
    have hfn' : a.isFn = true := by simpa using hfn
    have hret1 : ErrOK σ1 .ret := ⟨fun _ h => (nomatch h), fun _ => ⟨a, rest, ha, hfn'⟩⟩
    refine Run.bind hE01 (ih.evalExpr e σ1 hW1 (hN.ext hE1)) fun v σ2 hW2 hE2 hE02 hv => ?_
    have hgood : Good σ2 (scopeAt σ2 a.id) (implicitCast a.retTy v) := by
      rw [hE2.scopeAt, scopeAt_top ha, ← hE2.tscope]
      exact good_implicitCast _ hv.2
    refine Run.bind hE02 (run_setRetVal hW2 a.id _ (narr_implicitCast _ hv.1) hgood)
      fun _ σ3 hW3 hE3 hE03 _ => ?_
    split
    · exact Run.rtErr hW3 hE03 _ _
    · exact Run.throw hW3 hE03 (ErrOK.ext (hE2.trans hE3) hret1)

theorem step_execStmt_brk (ih : AllTri f) (top : Bool) (t : Tok) (hok : okStmt top (.brk t) = true) :
    Tri (fun σ => TopCond top σ ∧ (NTop σ ∨ declStmt (.brk t) = true)) (execStmt (f+1) (.brk t))
      (fun σ v σ' => (NArr v = true ∧ Good σ' (tscope σ') v) ∧
        (declStmt (.brk t) = true → Frame σ σ' (scalSig σ (tscope σ) [.brk t]) (arrSig σ (tscope σ) [.brk t]))) := by
  intro σ hW _; have hE0 := Ext.refl σ; rw [execStmt.eq_def]; dsimp only
  refine Run.bind hE0 (run_tick hW _) fun _ σ1 hW1 hE1 hE01 _ => ?_
  exact Run.throw hW1 hE01 (errOK_brk _ _)

theorem step_execStmt_cont (ih : AllTri f) (top : Bool) (t : Tok) (hok : okStmt top (.cont t) = true) :
    Tri (fun σ => TopCond top σ ∧ (NTop σ ∨ declStmt (.cont t) = true)) (execStmt (f+1) (.cont t))
      (fun σ v σ' => (NArr v = true ∧ Good σ' (tscope σ') v) ∧
        (declStmt (.cont t) = true → Frame σ σ' (scalSig σ (tscope σ) [.cont t]) (arrSig σ (tscope σ) [.cont t]))) := by
  intro σ hW _; have hE0 := Ext.refl σ; rw [execStmt.eq_def]; dsimp only
  refine Run.bind hE0 (run_tick hW _) fun _ σ1 hW1 hE1 hE01 _ => ?_
  exact Run.throw hW1 hE01 (errOK_cont _ _)

theorem step_execStmt_output (ih : AllTri f) (top : Bool) (t : Tok) (es : List Expr)
    (hok : okStmt top (.output t es) = true) :
    Tri (fun σ => TopCond top σ ∧ (NTop σ ∨ declStmt (.output t es) = true)) (execStmt (f+1) (.output t es))
      (fun σ v σ' => (NArr v = true ∧ Good σ' (tscope σ') v) ∧
        (declStmt (.output t es) = true →
          Frame σ σ' (scalSig σ (tscope σ) [.output t es]) (arrSig σ (tscope σ) [.output t es]))) := by
  intro σ hW hP; have hE0 := Ext.refl σ; rw [execStmt.eq_def]; dsimp only
  have hN : NTop σ := hP.2.resolve_right (by simp [declStmt])
  refine Run.bind hE0 (run_tick hW _) fun _ σ1 hW1 hE1 hE01 _ => ?_
  refine Run.bind hE01 (ih.outputAll es σ1 hW1 (hN.ext hE1)) fun _ σ2 hW2 hE2 hE02 _ => ?_
  refine Run.bind hE02 (run_emit hW2 _) fun _ σ3 hW3 hE3 hE03 _ => ?_
  exact Run.pure hW3 hE03 ⟨none_ok, fun h => by simp [declStmt] at h⟩

theorem step_execStmt_procDef (ih : AllTri f) (top : Bool) (t : Tok) (name : Str) (params : List Param) (body : List Stmt)
    (hok : okStmt top (.procDef t name params body) = true) :
    Tri (fun σ => TopCond top σ ∧ (NTop σ ∨ declStmt (.procDef t name params body) = true))
      (execStmt (f+1) (.procDef t name params body))
      (fun σ v σ' => (NArr v = true ∧ Good σ' (tscope σ') v) ∧
        (declStmt (.procDef t name params body) = true →
          Frame σ σ' (scalSig σ (tscope σ) [.procDef t name params body]) (arrSig σ (tscope σ) [.procDef t name params body]))) := by
  simp only [okStmt, Bool.and_eq_true] at hok
  obtain ⟨htop, hbody⟩ := hok
  subst htop
  intro σ hW hP; have hE0 := Ext.refl σ; rw [execStmt.eq_def]; dsimp only
  have hT : TopCond true σ := hP.1
  refine Run.bind hE0 (run_tick hW _) fun _ σ1 hW1 hE1 hE01 _ => ?_
  refine Run.get_bind ?_
  split
  · exact Run.rtErr hW1 hE01 _ _
  · refine Run.bind hE01 (ih.resolveParams params [] σ1 hW1 ⟨TopCond.ext hE1 hT, fun _ h => by cases h⟩)
      fun ps σ2 hW2 hE2 hE02 hps => ?_
    refine Run.bind hE02 (run_addProc hW2 _ ⟨hps, hbody⟩) fun _ σ3 hW3 hE3 hE03 _ => ?_
    exact Run.pure hW3 hE03 ⟨none_ok, fun h => by simp [declStmt] at h⟩

theorem step_execStmt_funDef (ih : AllTri f) (top : Bool) (t : Tok) (name : Str) (params : List Param) (ret : Tok)
    (body : List Stmt) (hok : okStmt top (.funDef t name params ret body) = true) :
    Tri (fun σ => TopCond top σ ∧ (NTop σ ∨ declStmt (.funDef t name params ret body) = true))
      (execStmt (f+1) (.funDef t name params ret body))
      (fun σ v σ' => (NArr v = true ∧ Good σ' (tscope σ') v) ∧
        (declStmt (.funDef t name params ret body) = true →
          Frame σ σ' (scalSig σ (tscope σ) [.funDef t name params ret body])
            (arrSig σ (tscope σ) [.funDef t name params ret body]))) := by
  simp only [okStmt, Bool.and_eq_true] at hok
  obtain ⟨htop, hbody⟩ := hok
  subst htop
  intro σ hW hP; have hE0 := Ext.refl σ; rw [execStmt.eq_def]; dsimp only
  have hT : TopCond true σ := hP.1
  refine Run.bind hE0 (run_tick hW _) fun _ σ1 hW1 hE1 hE01 _ => ?_
  have hT1 : TopCond true σ1 := TopCond.ext hE1 hT
  obtain ⟨g, hσ1⟩ := hT1 rfl
  refine Run.get_bind ?_
  split
  · exact Run.rtErr hW1 hE01 _ _
  · refine Run.ro hW1 hE01 (ro_getType hW1 ret) fun rty hrty => ?_
    split
    · exact Run.rtErr hW1 hE01 _ _
    · have hrt : TyG σ1 rty := by
        subst hrty
        show TyDef σ1 (gid σ1) _
        rw [← tscope_single' hW1 hσ1]
        exact typeOfTok_def _ ret
      refine Run.bind hE01 (ih.resolveParams params [] σ1 hW1 ⟨hT1, fun _ h => by cases h⟩)
        fun ps σ2 hW2 hE2 hE02 hps => ?_
      refine Run.bind hE02 (run_addFun hW2 _ ⟨hps, TyG.ext hE2 hrt, body, t, rfl, hbody⟩) fun _ σ3 hW3 hE3 hE03 _ => ?_
      exact Run.pure hW3 hE03 ⟨none_ok, fun h => by simp [declStmt] at h⟩

end Pseudo.NL
