import PseudoProofs.ByvalWritesDefs
/-!
# BYVAL parameter writes: INPUT, READFILE, GETRECORD

Each of the three statements, when its target is a reference rooted at a name whose root location is `root` (INPUT) or the plain
variable `id` of activation `N` (READFILE / GETRECORD: their target is a name), leaves every location outside that root
variable as it is (`Keeps root σ σ₂`) — however the statement ends: step budget, resolution error, constant, type error, file
error, end of input, or normally after ONE `writeLoc` at a location under the root.
-/
namespace Pseudo
namespace ByvalWrites
open ArrayLemmas C07Copy CallLemmas RecordLemmas RecordReturn RejectLemmas

theorem catch_nonvar_result {σ σ' σ₂ : St} {r : Ref} {x : Stop} {f : Nat} {hd : Stop → M (Option Holder)}
    {res : Except Stop (Option Holder)}
    (hc : (catchNotDefined (resolveRef f r >>= fun h => pure (some h)) hd).run.run σ = (res, σ₂))
    (hhd : ∀ e σ', (hd e).run.run σ' = (.error e, σ'))
    (hr : (resolveRef f r).run.run σ = (.error x, σ')) : res = .error x ∧ σ₂ = σ' := by
  have h2 : (resolveRef f r >>= fun h => (pure (some h) : M (Option Holder))).run.run σ = (.error x, σ') :=
    run_bind_err _ _ _ _ _ hr
  unfold catchNotDefined at hc
  rw [run_tryCatch_err _ _ _ _ _ h2] at hc
  have : ∀ y : Except Stop (Option Holder) × St, y = (.error x, σ') → y = (res, σ₂) → res = .error x ∧ σ₂ = σ' := by
    intro y h1 h2
    rw [h1] at h2
    injection h2 with h3 h4
    exact ⟨h3.symm, h4.symm⟩
  refine this _ ?_ hc
  cases x with
  | diag d =>
    simp only
    split
    · rw [run_bind_ok _ _ _ _ _ (run_get σ')]
      split
      · exact hhd _ _
      · rfl
    · rfl
  | _ => rfl

/-- **INPUT into a reference rooted at `bt`** (`bt` resolves, state unchanged, to a holder at `root`; index expressions pure) -/
theorem input_rooted_keeps (σ σ₂ : St) (t bt : Tok) (r : Ref) (root : Loc) (f₀ n f : Nat) (res : Except Stop Val)
    (hbase : ∀ f, 1 ≤ f → ∃ h0, (resolveRef f (.var bt)).run.run (tickSt σ) = (.ok h0, tickSt σ) ∧ h0.loc = root)
    (hroot : Rooted (tickSt σ) f₀ bt r n) (hf : n + 1 ≤ f)
    (hrun : (execStmt f (.input t r)).run.run σ = (res, σ₂)) : Keeps root σ σ₂ := by
  obtain ⟨f', rfl⟩ : ∃ f', f = f' + 1 := ⟨f - 1, by omega⟩
  rw [execStmt_input] at hrun
  rcases tick_cases _ _ _ _ _ hrun with rfl | hrun
  · exact Keeps.refl _ _
  refine (tickSt_keeps root σ).trans ?_
  obtain ⟨res0, h1, h2⟩ := resolve_rooted (tickSt σ) f₀ bt root hbase hroot f' (by omega)
  cases res0 with
  | error x =>
    rcases hroot.var_or_nonvar with rfl | hnv
    · obtain ⟨h0, h3, _⟩ := hbase f' (by have := hroot.pos; omega)
      rw [h3] at h1
      cases h1
    · have hhd : ∀ (e : Stop) (σ' : St), ((match r with
          | Ref.var vt => (do
            if ← isIdentifierType vt then throw e
            else if (← get).pedantic then pedErr vt .pedInput
            else pure none : M (Option Holder))
          | _ => throw e)).run.run σ' = (.error e, σ') := by
        intro e σ'
        cases r with
        | var vt => exact absurd rfl (hnv vt)
        | _ => rfl
      rcases bind_cases _ _ _ _ _ hrun with ⟨e, hc, _⟩ | ⟨a, σ1, hc, _⟩
      · obtain ⟨_, rfl⟩ := catch_nonvar_result hc hhd h1
        exact Keeps.refl _ _
      · have := (catch_nonvar_result hc hhd h1).1
        cases this
  | ok h =>
    have hsr := h2 h rfl
    have h2' : (resolveRef f' r >>= fun h => (pure (some h) : M (Option Holder))).run.run (tickSt σ) = (.ok (some h), tickSt σ) := by
      rw [run_bind_ok _ _ _ _ _ h1]; rfl
    unfold catchNotDefined at hrun
    rw [run_bind_ok _ _ _ _ _ (run_tryCatch_ok _ _ _ _ _ h2')] at hrun
    cases harr : h.isArr with
    | true =>
      simp only [harr, if_true] at hrun
      rw [run_bind_err _ _ _ _ _ (run_rtErr t .arrayDirect _)] at hrun
      injection hrun with _ h2
      subst h2
      exact Keeps.refl _ _
    | false =>
      simp only [harr, Bool.false_eq_true, if_false] at hrun
      rw [run_bind_ok _ _ _ _ _ (run_pure h (tickSt σ)), run_bind_ok _ _ _ _ _ (run_locIsConst h.loc (tickSt σ))] at hrun
      cases hc : locConstP (tickSt σ) h.loc with
      | true =>
        simp only [hc, if_true] at hrun
        rw [run_bind_err _ _ _ _ _ (run_rtErr t .constAssign _)] at hrun
        injection hrun with _ h2
        subst h2
        exact Keeps.refl _ _
      | false =>
        simp only [hc, Bool.false_eq_true, if_false] at hrun
        obtain ⟨b, hb⟩ := run_getLine (tickSt σ)
        rw [run_bind_ok _ _ _ _ _ hb] at hrun
        refine (afterLine_keeps root (tickSt σ)).trans ?_
        cases hcv : inputConvert h.ty (lineOf (tickSt σ)) with
        | none =>
          simp only [hcv] at hrun
          rw [run_rtErr] at hrun
          injection hrun with _ h2
          subst h2
          exact Keeps.refl _ _
        | some v =>
          simp only [hcv] at hrun
          rcases bind_cases _ _ _ _ _ hrun with ⟨e, hw, _⟩ | ⟨a, σ1, hw, hrest⟩
          · exact keeps_writeLoc root t h.loc v _ _ _ hsr hw
          · have : σ₂ = σ1 := by
              injection hrest with _ h2
              exact h2.symm
            subst this
            exact keeps_writeLoc root t h.loc v _ _ _ hsr hw

/-- what `lookupVar` finds for a `HasVar` name: the plain slot of that name in the activation `id` -/
theorem hasVar_lookup {σ : St} {n : Str} {id : Nat} {ty : Ty} {v : Val} (h : HasVar σ n id ty v) :
    ∃ a s, FileStmt.lookupVarP σ n = .ok (some (a, s)) ∧ a.id = id ∧ s.ref = none ∧ s.name = n ∧ s.ty = ty := by
  have h := h.resolves
  unfold varOwner at h
  cases hacts : σ.acts with
  | nil => rw [hacts] at h; cases h
  | cons cur rest =>
    cases hg : σ.acts.getLast? with
    | none => rw [hacts] at hg; simp at hg
    | some g =>
      rw [hg, hacts] at h
      simp only at h
      unfold varInfo at h
      cases hl : lookupVarIn cur g n with
      | none => rw [hl] at h; cases h
      | some p =>
        obtain ⟨a, s⟩ := p
        rw [hl] at h
        simp only [Option.map_some] at h
        cases href : s.ref with
        | some l => rw [href] at h; cases h
        | none =>
          rw [href] at h
          simp only [Option.isSome_none, Option.some.injEq, Prod.mk.injEq] at h
          obtain ⟨rfl, rfl⟩ := h
          have hname : s.name = n := findSlot_name _ _ _ (lookupVarIn_slot _ _ _ _ _ hl)
          refine ⟨a, s, ?_, rfl, href, hname, rfl⟩
          unfold FileStmt.lookupVarP FileStmt.curActP FileStmt.globalActP
          rw [hg, hacts]
          simp only [hl]

theorem thenWrite_keeps (root : Loc) (t : Tok) (loc : Loc) (v : Val) (σ' σ₂ : St) (res : Except Stop Val)
    (hs : SameRoot root loc) (h : FileStmt.thenWrite t loc v σ' = (res, σ₂)) : Keeps root σ' σ₂ := by
  unfold FileStmt.thenWrite at h
  rcases hw : (writeLoc t loc v).run.run σ' with ⟨e | u, σ''⟩
  · rw [hw] at h
    injection h with _ h2
    subst h2
    exact keeps_writeLoc root t loc v _ _ _ hs hw
  · rw [hw] at h
    injection h with _ h2
    subst h2
    exact keeps_writeLoc root t loc v _ _ _ hs hw

theorem errAt_keeps {α : Type} (root : Loc) (σ' σ'' σ₂ : St) (t : Tok) (m : Msg) (res : Except Stop α)
    (h : FileStmt.errAt σ' t m = (res, σ₂)) (hk : Keeps root σ'' σ') : Keeps root σ'' σ₂ := by
  unfold FileStmt.errAt at h
  injection h with _ h2
  subst h2
  exact hk

theorem readInto_keeps (root : Loc) (t : Tok) (loc : Loc) (name : Str) (σ' σ₂ : St) (res : Except Stop Val)
    (hs : SameRoot root loc) (h : FileStmt.readInto t loc name σ' = (res, σ₂)) : Keeps root σ' σ₂ := by
  unfold FileStmt.readInto at h
  split at h
  · exact errAt_keeps root _ _ _ _ _ _ h (Keeps.refl _ _)
  · split at h
    · exact errAt_keeps root _ _ _ _ _ _ h (Keeps.refl _ _)
    · exact (keeps_of_acts root σ' (FileStmt.setFile σ' _) rfl).trans (thenWrite_keeps root t loc _ _ _ _ hs h)
    · injection h with _ h2
      subst h2
      exact keeps_of_acts root σ' _ rfl

theorem loadInto_keeps (root : Loc) (t : Tok) (loc : Loc) (rec : Str) (σ' σ₂ : St) (res : Except Stop Val)
    (hs : SameRoot root loc) (h : FileStmt.loadInto t loc rec σ' = (res, σ₂)) : Keeps root σ' σ₂ := by
  unfold FileStmt.loadInto at h
  split at h
  · injection h with _ h2; subst h2; exact Keeps.refl _ _
  · split at h
    · injection h with _ h2; subst h2; exact Keeps.refl _ _
    · split at h
      · exact thenWrite_keeps root t loc _ _ _ _ hs h
      · exact errAt_keeps root _ _ _ _ _ _ h (Keeps.refl _ _)

/-- READFILE into the plain variable `id` of activation `N`, file-name expression pure -/
theorem readFile_var_keeps (σ σ₂ : St) (t : Tok) (fn : Expr) (id : Tok) (N : Nat) (ty : Ty) (v fv : Val) (f₀ f : Nat)
    (res : Except Stop Val)
    (hv : HasVar σ id.val N ty v) (hfn : PureAt (tickSt σ) f₀ fn fv) (hf : f₀ + 2 ≤ f)
    (hrun : (execStmt f (.readFile t fn id)).run.run σ = (res, σ₂)) : Keeps (varLoc N id.val) σ σ₂ := by
  obtain ⟨f', rfl⟩ : ∃ f', f = f' + 2 := ⟨f - 2, by omega⟩
  by_cases hsteps : σ.steps + 1 ≤ σ.stepLimit
  · refine (tickSt_keeps _ σ).trans ?_
    have hev : FileStmt.EvalsTo f' fn (tickSt σ) fv := hfn f' (by omega)
    by_cases hstr : ∃ name, fv = .str name
    · obtain ⟨name, rfl⟩ := hstr
      obtain ⟨a, s, hl, ha, href, hname, _⟩ := hasVar_lookup hv
      rw [FileStmt.exec_readFile_var f' t fn id σ name a s hsteps hev hl] at hrun
      have hloc : FileStmt.varLoc a s = varLoc N id.val := by
        unfold FileStmt.varLoc
        rw [href, ha, hname]
      rw [hloc] at hrun
      split at hrun
      · exact errAt_keeps _ _ _ _ _ _ _ hrun (Keeps.refl _ _)
      · split at hrun
        · exact errAt_keeps _ _ _ _ _ _ _ hrun (Keeps.refl _ _)
        · exact readInto_keeps _ t _ name _ _ _ (SameRoot.refl _) hrun
    · rw [FileStmt.execStmt_readFile, run_bind_ok _ _ _ _ _ (run_tick_ok t σ hsteps),
        run_bind_err _ _ _ _ _ (FileStmt.run_fileName_bad f' t fn _ fv hev (fun s hs => hstr ⟨s, hs⟩))] at hrun
      injection hrun with _ h2
      subst h2
      exact Keeps.refl _ _
  · rw [FileStmt.execStmt_readFile, run_bind_err _ _ _ _ _ (run_tick_budget t σ (by omega))] at hrun
    injection hrun with _ h2
    subst h2
    exact Keeps.refl _ _

/-- GETRECORD into the plain variable `id` of activation `N`, file-name expression pure -/
theorem getRecord_var_keeps (σ σ₂ : St) (t : Tok) (fn : Expr) (id : Tok) (N : Nat) (ty : Ty) (v fv : Val) (f₀ f : Nat)
    (res : Except Stop Val)
    (hv : HasVar σ id.val N ty v) (hfn : PureAt (tickSt σ) f₀ fn fv) (hf : f₀ + 2 ≤ f)
    (hrun : (execStmt f (.getRecord t fn id)).run.run σ = (res, σ₂)) : Keeps (varLoc N id.val) σ σ₂ := by
  obtain ⟨f', rfl⟩ : ∃ f', f = f' + 2 := ⟨f - 2, by omega⟩
  by_cases hsteps : σ.steps + 1 ≤ σ.stepLimit
  · refine (tickSt_keeps _ σ).trans ?_
    have hev : FileStmt.EvalsTo f' fn (tickSt σ) fv := hfn f' (by omega)
    by_cases hstr : ∃ name, fv = .str name
    · obtain ⟨name, rfl⟩ := hstr
      obtain ⟨a, s, hl, ha, href, hname, _⟩ := hasVar_lookup hv
      obtain ⟨a?, hla⟩ : ∃ a?, FileStmt.lookupArrP σ id.val = .ok a? := by
        unfold FileStmt.lookupArrP
        unfold FileStmt.lookupVarP at hl
        cases hc : FileStmt.curActP σ with
        | error e => rw [hc] at hl; cases hl
        | ok ca =>
          cases hg : FileStmt.globalActP σ with
          | error e => rw [hc, hg] at hl; cases hl
          | ok g => exact ⟨_, rfl⟩
      rw [FileStmt.exec_getRecord f' t fn id σ name _ a? hsteps hev hl hla] at hrun
      have htgt : FileStmt.recTarget (some (a, s)) a? = some (varLoc N id.val, s.ty) := by
        unfold FileStmt.recTarget
        simp only [href, ha, hname]
      rw [htgt] at hrun
      split at hrun
      · exact errAt_keeps _ _ _ _ _ _ _ hrun (Keeps.refl _ _)
      · dsimp only at hrun
        split at hrun
        · exact errAt_keeps _ _ _ _ _ _ _ hrun (Keeps.refl _ _)
        · split at hrun
          · exact errAt_keeps _ _ _ _ _ _ _ hrun (Keeps.refl _ _)
          · split at hrun
            · exact errAt_keeps _ _ _ _ _ _ _ hrun (Keeps.refl _ _)
            · exact (keeps_of_acts _ (tickSt σ) (FileStmt.setFile (tickSt σ) _) rfl).trans (loadInto_keeps _ t _ _ _ _ _ (SameRoot.refl _) hrun)
            · injection hrun with _ h2
              subst h2
              exact keeps_of_acts _ (tickSt σ) _ rfl
    · rw [FileStmt.execStmt_getRecord, run_bind_ok _ _ _ _ _ (run_tick_ok t σ hsteps),
        run_bind_err _ _ _ _ _ (FileStmt.run_fileName_bad f' t fn _ fv hev (fun s hs => hstr ⟨s, hs⟩))] at hrun
      injection hrun with _ h2
      subst h2
      exact Keeps.refl _ _
  · rw [FileStmt.execStmt_getRecord, run_bind_err _ _ _ _ _ (run_tick_budget t σ (by omega))] at hrun
    injection hrun with _ h2
    subst h2
    exact Keeps.refl _ _

end ByvalWrites
end Pseudo
