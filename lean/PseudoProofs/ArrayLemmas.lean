import PseudoProofs.EvalStep
import Properties.C06
import Properties.C07Copy
/-!
# Helper lemmas for C06 at the level of the evaluator (`Properties/C06Exec.lean`)

* `PureAt σ f₀ e v` / `PureAll σ f₀ es vs`: the hypothesis under which the index expressions and right-hand sides are
  treated — "with every fuel `≥ f₀` the expression evaluates to `v` and leaves `σ` as it is".  (This is the form of the
  conclusion of `C02_eval_denote` in `Properties/C02Eval.lean`; that module cannot be imported here, because it
  imports `PseudoProofs.ParseLemmas`, which declares `Pseudo.run_bind` / `Pseudo.run_pure` for the parser monad, and
  `PseudoProofs.EvalInv` declares the same names for `M`.  Integer literals are covered here: `pureAt_intLit`,
  `pureAll_intLits`.)
* one-round unfolding equations (`resolveRef_var`, `resolveRef_index`, `evalIndices_*`, `execAssign_succ`,
  `defaultCells_*`, `declareArrs_*`, `evalBounds_*`, `execStmt_declareArr`, `execStmt_expr`, `evalExpr_assign`);
* `idxOutcome` / `run_evalIndices`: what `evalIndices` does on pure index expressions, and the pure facts
  `idxOutcome_ok` / `_oob` / `_nonint` / `_some_nonint`;
* `arrOwner σ n`: the activation owning the array the name `n` denotes (variables are looked up first and hide arrays);
  `HasArray σ n id e dims cells`: the name `n` denotes, in state `σ`, the array slot `n` of activation `id`, holding
  `.arr e dims cells` (`cells.length = totalCells dims`, not a constant); constructors `HasArray.of_current`,
  `HasArray.of_global`, `hasArray_declSt`; preservation `HasArray.write_same`, `HasArray.write_other`,
  `HasArray.declSt_other`, `HasArray.tick`; reading `HasArray.read_cell`;
* run lemmas: `run_resolveRef_arrVar`, `run_resolveRef_elem` (`_start`, `_arity`), `run_writeLoc_arr`,
  `run_execAssign_resolved`, `run_execAssign_resolve_error`, `run_execAssign_arrays`, `run_execStmt_assign`,
  `run_evalExpr_access_resolved`, `run_evalExpr_access_arr`, `run_defaultCells_prim`, `run_evalBounds`
  (`PureBounds`, `LitBounds`, `pureBounds_of_lit`), `run_getType_data` (`dataTy`), `run_addArr` (`declSt`).
-/
namespace Pseudo

namespace ArrayLemmas

/-! ## pure expressions -/

/-- with every fuel `≥ f₀`, `e` evaluates in `σ` to `v` and leaves `σ` unchanged -/
def PureAt (σ : St) (f₀ : Nat) (e : Expr) (v : Val) : Prop :=
  ∀ f, f₀ ≤ f → (evalExpr f e).run.run σ = (.ok v, σ)

/-- the same for a list of expressions and the list of their values -/
def PureAll (σ : St) (f₀ : Nat) : List Expr → List Val → Prop
  | [], [] => True
  | e :: es, v :: vs => PureAt σ f₀ e v ∧ PureAll σ f₀ es vs
  | _, _ => False

theorem PureAll.length_eq {σ : St} {f₀ : Nat} : ∀ {es : List Expr} {vs : List Val}, PureAll σ f₀ es vs → es.length = vs.length
  | [], [], _ => rfl
  | [], _ :: _, h => by cases h
  | _ :: _, [], h => by cases h
  | _ :: es, _ :: vs, h => by
    simp only [List.length_cons]
    rw [PureAll.length_eq (es := es) (vs := vs) h.2]

theorem evalExpr_intLit (f : Nat) (t : Tok) (v : Int) : evalExpr (f+1) (.intLit t v) = pure (.int v) := by
  rw [evalExpr.eq_def]

/-- an integer literal is pure in every state, with fuel `≥ 1` -/
theorem pureAt_intLit (σ : St) (t : Tok) (k : Int) : PureAt σ 1 (.intLit t k) (.int k) := by
  intro f hf
  obtain ⟨f', rfl⟩ : ∃ f', f = f' + 1 := ⟨f - 1, by omega⟩
  rw [evalExpr_intLit]; rfl

theorem pureAll_intLits (σ : St) : ∀ (ts : List Tok) (ks : List Int), ts.length = ks.length →
    PureAll σ 1 (List.zipWith Expr.intLit ts ks) (ks.map .int)
  | [], [], _ => trivial
  | [], _ :: _, h => by cases h
  | _ :: _, [], h => by cases h
  | t :: ts, k :: ks, h => ⟨pureAt_intLit σ t k, pureAll_intLits σ ts ks (by simpa using h)⟩

theorem PureAt.mono {σ : St} {f₀ f₁ : Nat} {e : Expr} {v : Val} (h : PureAt σ f₀ e v) (hle : f₀ ≤ f₁) : PureAt σ f₁ e v :=
  fun f hf => h f (Nat.le_trans hle hf)

/-! ## unfolding equations -/

theorem evalIndices_nil (f : Nat) (dims : List (Int × Int)) (acc : List Int) :
    evalIndices (f+1) [] dims acc = pure acc.reverse := by
  rw [evalIndices.eq_def]

theorem evalIndices_cons (f : Nat) (e : Expr) (rest : List Expr) (dims : List (Int × Int)) (acc : List Int) :
    evalIndices (f+1) (e :: rest) dims acc = (do
      let v ← evalExpr f e
      match v, dims with
      | .int i, d :: ds =>
        if !inBounds d i then rtErr e.tok .indexOOB
        else evalIndices f rest ds (i :: acc)
      | .int _, [] => throw (.crash .other)
      | _, _ => rtErr e.tok .badIndex) := by
  rw [evalIndices.eq_def]; rfl

theorem resolveRef_var (f : Nat) (t : Tok) :
    resolveRef (f+1) (.var t) = (do
      match ← lookupVar t.val with
      | some (a, s) =>
        match s.ref with
        | some l => pure { loc := l, isArr := false, ty := s.ty, name := l.name }
        | none => pure { loc := { act := a.id, isArr := false, name := s.name, path := [] }, isArr := false, ty := s.ty, name := s.name }
      | none =>
        match ← lookupArr t.val with
        | some (a, s) => pure { loc := { act := a.id, isArr := true, name := s.name, path := [] }, isArr := true, ty := s.ty, name := s.name }
        | none => rtErr t .notDefined) := by
  rw [resolveRef.eq_def]; rfl

theorem resolveRef_index (f : Nat) (t : Tok) (r : Ref) (idx : List Expr) :
    resolveRef (f+1) (.index t r idx) = (do
      let h ← resolveRef f r
      if !h.isArr then rtErr t .typeMismatch
      else
        let v ← readLoc h.loc
        match v with
        | .arr e dims _ =>
          if idx.length != dims.length then rtErr t .badIndex
          else
            let is ← evalIndices f idx dims []
            pure { loc := { h.loc with path := h.loc.path ++ [.idx (lin dims is)] }, isArr := false, ty := e, name := h.name }
        | _ => throw (.crash .other)) := by
  rw [resolveRef.eq_def]; rfl

/-! ## `evalIndices` on pure index expressions -/

/-- What the index checks do on the evaluated index values: the integers, or the token and the message of the first
    offending index.  (The two cases with message `other` are not reached when the three lists have the same length,
    which `resolveRef` checks before it evaluates any index.) -/
def idxOutcome : List (Int × Int) → List Expr → List Val → Except (Tok × Msg) (List Int)
  | _, [], _ => .ok []
  | d :: ds, e :: es, .int i :: vs =>
    if inBounds d i then
      match idxOutcome ds es vs with
      | .ok ks => .ok (i :: ks)
      | .error x => .error x
    else .error (e.tok, .indexOOB)
  | [], e :: _, .int _ :: _ => .error (e.tok, .other)
  | _, e :: _, [] => .error (e.tok, .other)
  | _, e :: _, _ :: _ => .error (e.tok, .badIndex)

/-- the result of `evalIndices` as a function of `idxOutcome` -/
def idxResult (σ : St) (acc : List Int) : Except (Tok × Msg) (List Int) → Except Stop (List Int)
  | .ok ks => .ok (acc.reverse ++ ks)
  | .error (t, m) => .error (.diag (rtDiag σ t.line t.col m))

theorem run_evalIndices (σ : St) (f₀ : Nat) : ∀ (es : List Expr) (vs : List Val) (dims : List (Int × Int)) (acc : List Int) (f : Nat),
    PureAll σ f₀ es vs → es.length = dims.length → f₀ + es.length + 1 ≤ f →
    (evalIndices f es dims acc).run.run σ = (idxResult σ acc (idxOutcome dims es vs), σ) := by
  intro es
  induction es with
  | nil =>
    intro vs dims acc f _ _ hf
    obtain ⟨f', rfl⟩ : ∃ f', f = f' + 1 := ⟨f - 1, by omega⟩
    rw [evalIndices_nil]
    simp only [idxOutcome, idxResult, List.append_nil]
    rfl
  | cons e es ih =>
    intro vs dims acc f hp hlen hf
    obtain ⟨f', rfl⟩ : ∃ f', f = f' + 1 := ⟨f - 1, by omega⟩
    simp only [List.length_cons] at hlen hf
    cases vs with
    | nil => cases hp
    | cons v vs =>
      obtain ⟨hv, hrest⟩ := hp
      cases dims with
      | nil => cases hlen
      | cons d ds =>
        simp only [List.length_cons, Nat.add_right_cancel_iff] at hlen
        rw [evalIndices_cons, run_bind_ok _ _ _ _ _ (hv f' (by omega))]
        cases v with
        | int i =>
          simp only [idxOutcome]
          cases hb : inBounds d i with
          | false =>
            simp only [Bool.not_false, if_true, Bool.false_eq_true, if_false, idxResult]
            exact run_rtErr _ _ σ
          | true =>
            simp only [Bool.not_true, Bool.false_eq_true, if_false, if_true]
            rw [ih vs ds (i :: acc) f' hrest hlen (by omega)]
            cases idxOutcome ds es vs with
            | ok ks => simp only [idxResult, List.reverse_cons, List.append_assoc, List.singleton_append]
            | error x => rfl
        | _ =>
          simp only [idxOutcome, idxResult]
          exact run_rtErr _ _ σ

/-- all indices are integers inside the bounds: the integers -/
theorem idxOutcome_ok : ∀ (dims : List (Int × Int)) (es : List Expr) (ks : List Int), es.length = ks.length →
    InBoundsAll dims ks → idxOutcome dims es (ks.map .int) = .ok ks
  | _, [], [], _, _ => by simp [idxOutcome]
  | _, [], _ :: _, h, _ => by cases h
  | _, _ :: _, [], h, _ => by cases h
  | [], _ :: _, _ :: _, _, h => by cases h
  | d :: ds, e :: es, k :: ks, hl, hb => by
    obtain ⟨hk, hrest⟩ := hb
    have : inBounds d k = true := (C06_inBounds_iff d k).mpr hk
    simp only [List.map_cons, idxOutcome, this, if_true]
    rw [idxOutcome_ok ds es ks (by simpa using hl) hrest]

/-- all indices are integers, as many as there are dimensions, and not all inside the bounds: `indexOOB`, reported at
    the token of one of the index expressions -/
theorem idxOutcome_oob : ∀ (dims : List (Int × Int)) (es : List Expr) (ks : List Int), es.length = ks.length →
    ks.length = dims.length → ¬ InBoundsAll dims ks →
    ∃ e ∈ es, idxOutcome dims es (ks.map .int) = .error (e.tok, .indexOOB)
  | [], [], [], _, _, h => absurd trivial h
  | _, [], _ :: _, h, _, _ => by cases h
  | _, _ :: _, [], h, _, _ => by cases h
  | [], _, _ :: _, _, h, _ => by cases h
  | _ :: _, _, [], _, h, _ => by cases h
  | d :: ds, e :: es, k :: ks, hl, hd, hb => by
    cases hk : inBounds d k with
    | false =>
      refine ⟨e, List.mem_cons_self, ?_⟩
      simp only [List.map_cons, idxOutcome, hk, Bool.false_eq_true, if_false]
    | true =>
      have hk' := (C06_inBounds_iff d k).mp hk
      have hrest : ¬ InBoundsAll ds ks := fun h => hb ⟨hk', h⟩
      obtain ⟨e', he', h'⟩ := idxOutcome_oob ds es ks (by simpa using hl) (by simpa using hd) hrest
      refine ⟨e', List.mem_cons_of_mem _ he', ?_⟩
      simp only [List.map_cons, idxOutcome, hk, if_true, h']

/-- the indices before position `ks₁.length` are integers inside their bounds, the next one is not an integer:
    `badIndex` at the token of that index expression -/
theorem idxOutcome_nonint : ∀ (dims : List (Int × Int)) (es₁ : List Expr) (e : Expr) (es₂ : List Expr) (ks₁ : List Int)
    (v : Val) (vs₂ : List Val), es₁.length = ks₁.length → (∀ k, v ≠ .int k) →
    InBoundsAll (dims.take ks₁.length) ks₁ →
    idxOutcome dims (es₁ ++ e :: es₂) (ks₁.map .int ++ v :: vs₂) = .error (e.tok, .badIndex)
  | dims, [], e, es₂, [], v, vs₂, _, hv, _ => by
    simp only [List.nil_append, List.map_nil]
    cases v with
    | int k => exact absurd rfl (hv k)
    | _ => cases dims <;> rfl
  | _, [], _, _, _ :: _, _, _, h, _, _ => by cases h
  | _, _ :: _, _, _, [], _, _, h, _, _ => by cases h
  | [], _ :: _, _, _, _ :: _, _, _, _, _, hb => by simp [InBoundsAll] at hb
  | d :: ds, e₁ :: es₁, e, es₂, k :: ks₁, v, vs₂, hl, hv, hb => by
    simp only [List.length_cons, List.take_succ_cons] at hb
    obtain ⟨hk, hrest⟩ := hb
    have : inBounds d k = true := (C06_inBounds_iff d k).mpr hk
    simp only [List.cons_append, List.map_cons, idxOutcome, this, if_true]
    rw [idxOutcome_nonint ds es₁ e es₂ ks₁ v vs₂ (by simpa using hl) hv hrest]

/-- as many index values as dimensions, one of them not an integer: an error, `badIndex` or (an earlier integer
    index is outside its bounds) `indexOOB` -/
theorem idxOutcome_some_nonint : ∀ (dims : List (Int × Int)) (es : List Expr) (vs : List Val), es.length = vs.length →
    vs.length = dims.length → (∃ v ∈ vs, ∀ k, v ≠ .int k) →
    ∃ e ∈ es, ∃ m, idxOutcome dims es vs = .error (e.tok, m) ∧ (m = .badIndex ∨ m = .indexOOB)
  | _, _, [], _, _, h => by obtain ⟨v, hv, _⟩ := h; cases hv
  | _, [], _ :: _, h, _, _ => by cases h
  | [], _, _ :: _, _, h, _ => by cases h
  | d :: ds, e :: es, v :: vs, hl, hd, hx => by
    by_cases hv : ∃ k, v = .int k
    · obtain ⟨k, rfl⟩ := hv
      cases hk : inBounds d k with
      | false =>
        refine ⟨e, List.mem_cons_self, .indexOOB, ?_, .inr rfl⟩
        simp only [idxOutcome, hk, Bool.false_eq_true, if_false]
      | true =>
        have hx' : ∃ v ∈ vs, ∀ k, v ≠ .int k := by
          obtain ⟨w, hw, hnw⟩ := hx
          rcases List.mem_cons.mp hw with rfl | hw
          · exact absurd rfl (hnw k)
          · exact ⟨w, hw, hnw⟩
        obtain ⟨e', he', m, h', hm⟩ := idxOutcome_some_nonint ds es vs (by simpa using hl) (by simpa using hd) hx'
        refine ⟨e', List.mem_cons_of_mem _ he', m, ?_, hm⟩
        simp only [idxOutcome, hk, if_true, h']
    · refine ⟨e, List.mem_cons_self, .badIndex, ?_, .inl rfl⟩
      cases v with
      | int k => exact absurd ⟨k, rfl⟩ hv
      | _ => rfl

/-! ## name lookup as a function of the state -/

theorem run_curAct_cons (σ : St) (cur : Act) (rest : List Act) (h : σ.acts = cur :: rest) :
    curAct.run.run σ = (.ok cur, σ) := by
  unfold curAct
  rw [run_bind_ok _ _ _ _ _ (run_get σ), h]
  rfl

theorem run_globalAct_some (σ : St) (g : Act) (h : σ.acts.getLast? = some g) :
    globalAct.run.run σ = (.ok g, σ) := by
  unfold globalAct
  rw [run_bind_ok _ _ _ _ _ (run_get σ), h]
  rfl

theorem run_lookupVar (σ : St) (cur g : Act) (rest : List Act) (n : Str) (h : σ.acts = cur :: rest)
    (hg : σ.acts.getLast? = some g) : (lookupVar n).run.run σ = (.ok (lookupVarIn cur g n), σ) := by
  unfold lookupVar
  rw [run_bind_ok _ _ _ _ _ (run_curAct_cons σ cur rest h), run_bind_ok _ _ _ _ _ (run_globalAct_some σ g hg)]
  rfl

theorem run_lookupArr (σ : St) (cur g : Act) (rest : List Act) (n : Str) (h : σ.acts = cur :: rest)
    (hg : σ.acts.getLast? = some g) : (lookupArr n).run.run σ = (.ok (lookupArrIn cur g n), σ) := by
  unfold lookupArr
  rw [run_bind_ok _ _ _ _ _ (run_curAct_cons σ cur rest h), run_bind_ok _ _ _ _ _ (run_globalAct_some σ g hg)]
  rfl

theorem findSlot_name (ss : List Slot) (n : Str) (s : Slot) (h : findSlot ss n = some s) : s.name = n := by
  unfold findSlot at h
  have := List.find?_some h
  simpa using this

/-- is the name `n` a variable visible from activation `a` (global activation `g`) -/
def varHit (a g : Act) (n : Str) : Bool :=
  (findSlot a.vars n).isSome || (!(a.id == g.id) && (findSlot g.vars n).isSome)

/-- id of the activation in which the array name `n` is found from activation `a` (global activation `g`) -/
def arrHitId (a g : Act) (n : Str) : Option Nat :=
  if (findSlot a.arrs n).isSome then some a.id
  else if a.id == g.id then none
  else if (findSlot g.arrs n).isSome then some g.id else none

theorem lookupVarIn_isSome (a g : Act) (n : Str) : (lookupVarIn a g n).isSome = varHit a g n := by
  unfold lookupVarIn varHit
  cases findSlot a.vars n with
  | some s => rfl
  | none =>
    cases a.id == g.id with
    | true => rfl
    | false => cases findSlot g.vars n <;> rfl

theorem lookupArrIn_id (a g : Act) (n : Str) : (lookupArrIn a g n).map (·.1.id) = arrHitId a g n := by
  unfold lookupArrIn arrHitId
  cases findSlot a.arrs n with
  | some s => rfl
  | none =>
    cases a.id == g.id with
    | true => rfl
    | false => cases findSlot g.arrs n <;> rfl

/-- the slot `lookupArrIn` returns is the slot of that name among the arrays of the activation it returns -/
theorem lookupArrIn_slot (a g b : Act) (n : Str) (s : Slot) (h : lookupArrIn a g n = some (b, s)) :
    findSlot b.arrs n = some s := by
  unfold lookupArrIn at h
  cases ha : findSlot a.arrs n with
  | some s' =>
    rw [ha] at h
    simp only [Option.some.injEq, Prod.mk.injEq] at h
    obtain ⟨rfl, rfl⟩ := h
    exact ha
  | none =>
    rw [ha] at h
    simp only at h
    cases hid : a.id == g.id with
    | true => rw [hid] at h; cases h
    | false =>
      rw [hid] at h
      simp only [Bool.false_eq_true, if_false] at h
      cases hg : findSlot g.arrs n with
      | none => rw [hg] at h; cases h
      | some s' =>
        rw [hg] at h
        simp only [Option.map_some, Option.some.injEq, Prod.mk.injEq] at h
        obtain ⟨rfl, rfl⟩ := h
        exact hg

/-- The activation that owns the array the name `n` denotes in state `σ`: the name is looked up among the variables
    first (current activation, then the global one) — a variable of that name hides the array —, then among the
    arrays of the current activation, then among those of the global one (`resolveRef` on `Ref.var`). -/
def arrOwner (σ : St) (n : Str) : Option Nat :=
  match σ.acts, σ.acts.getLast? with
  | cur :: _, some g => if varHit cur g n then none else arrHitId cur g n
  | _, _ => none

/-- **`n` denotes an array.**  In state `σ` the name `n` resolves to the array slot `n` of the activation with id
    `id` (the current one or the global one; no variable of that name hides it), that slot holds the array value
    `.arr e dims cells`, and it is not a constant (no statement creates a constant array slot). -/
structure HasArray (σ : St) (n : Str) (id : Nat) (e : Ty) (dims : List (Int × Int)) (cells : List Val) : Prop where
  resolves : arrOwner σ n = some id
  reads : readLocP σ ⟨id, true, n, []⟩ = .ok (.arr e dims cells)
  notConst : locConstP σ ⟨id, true, n, []⟩ = false
  wf : cells.length = totalCells dims

/-- the root location of the array `n` of activation `id` -/
abbrev arrLoc (id : Nat) (n : Str) : Loc := ⟨id, true, n, []⟩
/-- the location of cell `i` of the array `n` of activation `id` -/
abbrev cellLoc (id : Nat) (n : Str) (i : Nat) : Loc := ⟨id, true, n, [.idx i]⟩

/-- `a` resolves to the holder of the whole array -/
theorem run_resolveRef_arrVar (σ : St) (t : Tok) (id : Nat) (f : Nat) (h : arrOwner σ t.val = some id) :
    ∃ ty, (resolveRef (f+1) (.var t)).run.run σ =
      (.ok { loc := arrLoc id t.val, isArr := true, ty := ty, name := t.val }, σ) := by
  unfold arrOwner at h
  cases hacts : σ.acts with
  | nil => rw [hacts] at h; cases h
  | cons cur rest =>
    cases hg : σ.acts.getLast? with
    | none => rw [hacts] at h hg; simp at hg
    | some g =>
      rw [hg, hacts] at h
      simp only at h
      cases hv : varHit cur g t.val with
      | true => rw [hv] at h; cases h
      | false =>
        rw [hv] at h
        simp only [Bool.false_eq_true, if_false] at h
        have hvar : lookupVarIn cur g t.val = none := by
          have := lookupVarIn_isSome cur g t.val
          rw [hv] at this
          cases hl : lookupVarIn cur g t.val with
          | none => rfl
          | some x => rw [hl] at this; cases this
        rw [← lookupArrIn_id] at h
        cases harr : lookupArrIn cur g t.val with
        | none => rw [harr] at h; cases h
        | some p =>
          obtain ⟨a, s⟩ := p
          rw [harr] at h
          simp only [Option.map_some, Option.some.injEq] at h
          have hname : s.name = t.val := findSlot_name _ _ _ (lookupArrIn_slot _ _ _ _ _ harr)
          refine ⟨s.ty, ?_⟩
          rw [resolveRef_var, run_bind_ok _ _ _ _ _ (run_lookupVar σ cur g rest t.val hacts hg), hvar]
          simp only
          rw [run_bind_ok _ _ _ _ _ (run_lookupArr σ cur g rest t.val hacts hg), harr]
          simp only [hname, h]
          rfl

/-- the common prefix of every resolution of `a[…]`: the holder of `a`, the array value read -/
theorem run_resolveRef_elem_start (σ : St) (t at' : Tok) (es : List Expr) (id : Nat) (e : Ty) (dims : List (Int × Int))
    (cells : List Val) (f : Nat) (ha : HasArray σ at'.val id e dims cells) :
    (resolveRef (f+2) (.index t (.var at') es)).run.run σ =
      ((if es.length != dims.length then (rtErr t .badIndex : M Holder)
        else do
          let is ← evalIndices (f+1) es dims []
          pure { loc := cellLoc id at'.val (lin dims is), isArr := false, ty := e, name := at'.val }).run.run σ) := by
  obtain ⟨ty, hr⟩ := run_resolveRef_arrVar σ at' id f ha.resolves
  have hread : (readLoc (arrLoc id at'.val)).run.run σ = (.ok (.arr e dims cells), σ) := by
    rw [run_readLoc, ha.reads]
  rw [resolveRef_index, run_bind_ok _ _ _ _ _ hr]
  simp only [Bool.not_true, Bool.false_eq_true, if_false]
  rw [run_bind_ok _ _ _ _ _ hread]
  rfl

/-- wrong number of indices: `badIndex` at the token of the element reference, no index is evaluated -/
theorem run_resolveRef_elem_arity (σ : St) (t at' : Tok) (es : List Expr) (id : Nat) (e : Ty) (dims : List (Int × Int))
    (cells : List Val) (f : Nat) (ha : HasArray σ at'.val id e dims cells) (hne : es.length ≠ dims.length) :
    (resolveRef (f+2) (.index t (.var at') es)).run.run σ = (.error (.diag (rtDiag σ t.line t.col .badIndex)), σ) := by
  rw [run_resolveRef_elem_start σ t at' es id e dims cells f ha]
  have : (es.length != dims.length) = true := by simpa using hne
  simp only [this, if_true]
  exact run_rtErr t .badIndex σ

/-- the holder of `a[…]`, or the diagnostic of the first offending index -/
def elemResult (σ : St) (id : Nat) (n : Str) (e : Ty) (dims : List (Int × Int)) :
    Except (Tok × Msg) (List Int) → Except Stop Holder
  | .ok ks => .ok { loc := cellLoc id n (lin dims ks), isArr := false, ty := e, name := n }
  | .error (t, m) => .error (.diag (rtDiag σ t.line t.col m))

/-- right number of pure index expressions: the outcome of the index checks decides -/
theorem run_resolveRef_elem (σ : St) (t at' : Tok) (es : List Expr) (vs : List Val) (id : Nat) (e : Ty)
    (dims : List (Int × Int)) (cells : List Val) (f₀ f : Nat) (ha : HasArray σ at'.val id e dims cells)
    (hp : PureAll σ f₀ es vs) (hlen : es.length = dims.length) (hf : f₀ + es.length ≤ f) :
    (resolveRef (f+2) (.index t (.var at') es)).run.run σ = (elemResult σ id at'.val e dims (idxOutcome dims es vs), σ) := by
  rw [run_resolveRef_elem_start σ t at' es id e dims cells f ha]
  have : (es.length != dims.length) = false := by simpa using hlen
  simp only [this, Bool.false_eq_true, if_false]
  have hi := run_evalIndices σ f₀ es vs dims [] (f+1) hp hlen (by omega)
  cases ho : idxOutcome dims es vs with
  | ok ks =>
    rw [ho] at hi
    rw [run_bind_ok _ _ _ _ _ hi]
    simp only [List.reverse_nil, List.nil_append, elemResult]
    rfl
  | error x =>
    obtain ⟨tk, m⟩ := x
    rw [ho] at hi
    rw [run_bind_err _ _ _ _ _ hi]
    rfl

/-! ## writes into an array slot -/

open C07Copy

theorem slotOf_writeF_same_map (l : Loc) (nv : Val) (a : Act) :
    slotOf (writeF l nv a) l = (slotOf a l).map (fun s => { s with val := nv }) := by
  unfold slotOf writeF
  cases hl : l.isArr
  · simp only [Bool.false_eq_true, if_false]
    exact findSlot_updSlot l.name (fun s => { s with val := nv }) (fun _ => rfl) _
  · simp only [if_true]
    exact findSlot_updSlot l.name (fun s => { s with val := nv }) (fun _ => rfl) _

/-- `writeF` keeps which names are declared -/
theorem findSlot_updSlot_isSome (n m : Str) (f : Slot → Slot) (hf : ∀ s, (f s).name = s.name) (ss : List Slot) :
    (findSlot (updSlot ss n f) m).isSome = (findSlot ss m).isSome := by
  by_cases h : m = n
  · subst h
    rw [findSlot_updSlot m f hf]
    cases findSlot ss m <;> rfl
  · rw [findSlot_updSlot_ne n m f h hf]

/-- two activations with the same id and the same declared names -/
structure Sim (a a' : Act) : Prop where
  id : a'.id = a.id
  vars : ∀ n, (findSlot a'.vars n).isSome = (findSlot a.vars n).isSome
  arrs : ∀ n, (findSlot a'.arrs n).isSome = (findSlot a.arrs n).isSome

theorem Sim.refl (a : Act) : Sim a a := ⟨rfl, fun _ => rfl, fun _ => rfl⟩

theorem sim_writeF (l : Loc) (nv : Val) (a : Act) : Sim a (writeF l nv a) := by
  unfold writeF
  cases l.isArr
  · simp only [Bool.false_eq_true, if_false]
    exact ⟨rfl, fun n => findSlot_updSlot_isSome l.name n (fun s => { s with val := nv }) (fun _ => rfl) a.vars, fun _ => rfl⟩
  · simp only [if_true]
    exact ⟨rfl, fun _ => rfl, fun n => findSlot_updSlot_isSome l.name n (fun s => { s with val := nv }) (fun _ => rfl) a.arrs⟩

theorem varHit_sim {a a' g g' : Act} (ha : Sim a a') (hg : Sim g g') (n : Str) : varHit a' g' n = varHit a g n := by
  unfold varHit; rw [ha.id, hg.id, ha.vars, hg.vars]

theorem arrHitId_sim {a a' g g' : Act} (ha : Sim a a') (hg : Sim g g') (n : Str) : arrHitId a' g' n = arrHitId a g n := by
  unfold arrHitId; rw [ha.id, hg.id, ha.arrs, hg.arrs]

theorem getLast?_updActs (id : Nat) (F : Act → Act) : ∀ (acts : List Act) (g : Act), acts.getLast? = some g →
    ∃ g', (updActs acts id F).getLast? = some g' ∧ (g' = g ∨ g' = F g)
  | [], _, h => by cases h
  | [a], g, h => by
    simp only [List.getLast?_singleton, Option.some.injEq] at h
    subst h
    unfold updActs
    by_cases ha : (a.id == id) = true
    · simp only [ha, if_true]; exact ⟨F a, rfl, .inr rfl⟩
    · simp only [ha, Bool.false_eq_true, if_false]; exact ⟨a, rfl, .inl rfl⟩
  | a :: b :: rest, g, h => by
    rw [List.getLast?_cons_cons] at h
    unfold updActs
    by_cases ha : (a.id == id) = true
    · simp only [ha, if_true]
      rw [List.getLast?_cons_cons]
      exact ⟨g, h, .inl rfl⟩
    · simp only [ha, Bool.false_eq_true, if_false]
      obtain ⟨g', hg', hor⟩ := getLast?_updActs id F (b :: rest) g h
      refine ⟨g', ?_, hor⟩
      cases hu : updActs (b :: rest) id F with
      | nil => rw [hu] at hg'; cases hg'
      | cons x xs => rw [List.getLast?_cons_cons, ← hu]; exact hg'

/-- a write does not change which array a name denotes -/
theorem arrOwner_updSt_writeF (σ : St) (l : Loc) (nv : Val) (m : Str) :
    arrOwner (updSt σ l.act (writeF l nv)) m = arrOwner σ m := by
  unfold arrOwner
  simp only [updSt]
  cases hacts : σ.acts with
  | nil => rfl
  | cons cur rest =>
    cases hg : (cur :: rest).getLast? with
    | none => simp at hg
    | some g =>
      obtain ⟨g', hg', hor⟩ := getLast?_updActs l.act (writeF l nv) (cur :: rest) g hg
      have hgs : Sim g g' := by
        rcases hor with rfl | rfl
        · exact Sim.refl _
        · exact sim_writeF l nv g
      rw [hg']
      unfold updActs
      by_cases hc : (cur.id == l.act) = true
      · simp only [hc, if_true]
        rw [varHit_sim (sim_writeF l nv cur) hgs, arrHitId_sim (sim_writeF l nv cur) hgs]
      · simp only [hc, Bool.false_eq_true, if_false]
        rw [varHit_sim (Sim.refl cur) hgs, arrHitId_sim (Sim.refl cur) hgs]

/-- a write does not change which cells are constants -/
theorem locConstP_updSt_writeF (σ : St) (l l' : Loc) (nv : Val) :
    locConstP (updSt σ l.act (writeF l nv)) l' = locConstP σ l' := by
  unfold locConstP
  simp only [updSt]
  by_cases hact : l'.act = l.act
  · rw [hact, find_updActs _ _ (writeF_id l nv)]
    cases σ.acts.find? (·.id == l.act) with
    | none => rfl
    | some a =>
      simp only [Option.map_some]
      by_cases hroot : l'.isArr = l.isArr ∧ l'.name = l.name
      · have h1 : ∀ b : Act, slotOf b l' = slotOf b l := by
          intro b; unfold slotOf; rw [hroot.1, hroot.2]
        rw [h1, h1, slotOf_writeF_same_map]
        cases slotOf a l <;> rfl
      · have : l'.isArr ≠ l.isArr ∨ l'.name ≠ l.name := by
          by_cases h : l'.isArr = l.isArr
          · exact .inr fun h2 => hroot ⟨h, h2⟩
          · exact .inl h
        rw [slotOf_writeF_other l l' nv a this]
  · rw [find_updActs_ne _ _ _ hact (writeF_id l nv)]

/-- after the root cell of `l` got the value `nv`, a location in the same root reads `getPath nv` -/
theorem readLocP_updSt_writeF_same (σ : St) (l : Loc) (nv old : Val) (p : List Step)
    (h : readLocP σ { l with path := [] } = .ok old) :
    readLocP (updSt σ l.act (writeF l nv)) { l with path := p } =
      (match getPath nv p with | some v => .ok v | none => .error (.crash .danglingLoc)) := by
  unfold readLocP at h ⊢
  simp only [updSt] at h ⊢
  rw [find_updActs _ _ (writeF_id l nv)]
  cases ha : σ.acts.find? (·.id == l.act) with
  | none => rw [ha] at h; cases h
  | some a =>
    rw [ha] at h
    simp only [Option.map_some] at h ⊢
    have h1 : ∀ (b : Act) (q : List Step), slotOf b { l with path := q } = slotOf b l := fun _ _ => rfl
    rw [h1] at h ⊢
    rw [slotOf_writeF_same_map]
    cases hs : slotOf a l with
    | none => rw [hs] at h; cases h
    | some s => rfl

/-- a successful write at path `p` below the root cell of an array slot -/
theorem run_writeLoc_arr (σ : St) (t : Tok) (id : Nat) (n : Str) (p : List Step) (old v nv : Val)
    (hr : readLocP σ (arrLoc id n) = .ok old) (hc : locConstP σ (arrLoc id n) = false)
    (hset : setPath old p v = some nv) :
    (writeLoc t ⟨id, true, n, p⟩ v).run.run σ = (.ok ⟨⟩, updSt σ id (writeF (arrLoc id n) nv)) := by
  unfold readLocP at hr
  unfold locConstP at hc
  cases ha : σ.acts.find? (·.id == id) with
  | none => simp only [ha] at hr; cases hr
  | some a =>
    simp only [ha] at hr hc
    have haid : a.id = id := by simpa using List.find?_some ha
    have h1 : slotOf a ⟨id, true, n, p⟩ = slotOf a (arrLoc id n) := rfl
    cases hs : slotOf a (arrLoc id n) with
    | none => rw [hs] at hr; cases hr
    | some s =>
      rw [hs] at hr hc
      simp only [Option.map_some, Option.getD_some, getPath] at hr hc
      injection hr with hr
      subst hr
      unfold writeLoc
      rw [run_bind_ok _ _ _ _ _ (run_findAct _ σ)]
      simp only [ha, h1, hs, hc, Bool.false_eq_true, if_false, hset]
      rw [haid]
      rfl

theorem HasArray.write_same {σ : St} {n : Str} {id : Nat} {e : Ty} {dims : List (Int × Int)} {cells : List Val}
    (ha : HasArray σ n id e dims cells) (e' : Ty) (dims' : List (Int × Int)) (cells' : List Val)
    (hwf : cells'.length = totalCells dims') :
    HasArray (updSt σ id (writeF (arrLoc id n) (.arr e' dims' cells'))) n id e' dims' cells' where
  wf := hwf
  resolves := by rw [arrOwner_updSt_writeF σ (arrLoc id n)]; exact ha.resolves
  reads := by
    have := readLocP_updSt_writeF_same σ (arrLoc id n) (.arr e' dims' cells') _ [] ha.reads
    simpa [getPath] using this
  notConst := by rw [locConstP_updSt_writeF σ (arrLoc id n)]; exact ha.notConst

/-- a write to another root cell leaves every location as it was -/
theorem readLocP_updSt_writeF_other (σ : St) (l l' : Loc) (nv : Val) (hd : DiffRoot l l') :
    readLocP (updSt σ l.act (writeF l nv)) l' = readLocP σ l' := by
  unfold readLocP
  simp only [updSt]
  by_cases hact : l'.act = l.act
  · rw [hact, find_updActs _ _ (writeF_id l nv)]
    cases σ.acts.find? (·.id == l.act) with
    | none => rfl
    | some a =>
      simp only [Option.map_some]
      have hd' : l'.isArr ≠ l.isArr ∨ l'.name ≠ l.name := by
        rcases hd with hd | hd
        · exact absurd hact hd
        · exact hd
      rw [slotOf_writeF_other l l' nv a hd']
  · rw [find_updActs_ne _ _ _ hact (writeF_id l nv)]

theorem HasArray.write_other {σ : St} {m : Str} {id' : Nat} {e' : Ty} {dims' : List (Int × Int)} {cells' : List Val}
    (ha : HasArray σ m id' e' dims' cells') (l : Loc) (nv : Val) (hd : DiffRoot l (arrLoc id' m)) :
    HasArray (updSt σ l.act (writeF l nv)) m id' e' dims' cells' where
  resolves := by rw [arrOwner_updSt_writeF]; exact ha.resolves
  reads := by rw [readLocP_updSt_writeF_other σ l _ nv hd]; exact ha.reads
  notConst := by rw [locConstP_updSt_writeF]; exact ha.notConst
  wf := ha.wf

/-- the cells of a declared array, read through `readLoc` -/
theorem HasArray.read_cell {σ : St} {n : Str} {id : Nat} {e : Ty} {dims : List (Int × Int)} {cells : List Val}
    (ha : HasArray σ n id e dims cells) (i : Nat) :
    readLocP σ (cellLoc id n i) = (match cells[i]? with | some v => .ok v | none => .error (.crash .danglingLoc)) := by
  have h := ha.reads
  unfold readLocP at h ⊢
  cases hf : σ.acts.find? (·.id == id) with
  | none => simp only [hf] at h; cases h
  | some a =>
    simp only [hf] at h ⊢
    have h1 : slotOf a (cellLoc id n i) = slotOf a (arrLoc id n) := rfl
    rw [h1]
    cases hs : slotOf a (arrLoc id n) with
    | none => rw [hs] at h; cases h
    | some s =>
      rw [hs] at h
      simp only [getPath] at h ⊢
      injection h with h
      rw [h]
      simp only [getPath]
      cases cells[i]? <;> rfl

theorem inBoundsAll_length : ∀ (dims : List (Int × Int)) (ks : List Int), InBoundsAll dims ks → ks.length = dims.length
  | [], [], _ => rfl
  | [], _ :: _, h => by cases h
  | _ :: _, [], h => by cases h
  | _ :: ds, _ :: ks, h => by simp only [List.length_cons]; rw [inBoundsAll_length ds ks h.2]

/-- an in-bounds cell of a declared array exists -/
theorem HasArray.lin_lt {σ : St} {n : Str} {id : Nat} {e : Ty} {dims : List (Int × Int)} {cells : List Val}
    (ha : HasArray σ n id e dims cells) (ks : List Int) (hb : InBoundsAll dims ks) : lin dims ks < cells.length := by
  rw [ha.wf]; exact C06_lin_bound dims ks hb

/-! ## assignment -/

theorem execAssign_succ (f : Nat) (t : Tok) (r : Ref) (rhs : Expr) :
    execAssign (f+1) t r rhs = (do
      let cur ← curAct
      let nActs := (← get).acts.length
      let rv? ← tryCatch (evalExpr f rhs >>= fun v => pure (some v)) fun e =>
        match e with
        | .diag d =>
          if d.kind == .runtime && d.msg == .arrayDirect && (d.trace.head?.map (·.name)) == some cur.name
             && d.trace.length == nActs then
            match rhs with
            | .access _ _ => pure none
            | _ => throw e
          else throw e
        | _ => throw e
      match rv? with
      | none =>
        match rhs with
        | .access at' sr =>
          let sh ← resolveRef f sr
          if !sh.isArr then rtErr at' .arrayDirect
          else
            let th ← resolveRef f r
            if !th.isArr then rtErr at' .arrayDirect
            else
              let sv ← readLoc sh.loc
              let tv ← readLoc th.loc
              match sv, tv with
              | .arr se sd _, .arr te td _ =>
                if se != te then rtErr t .typeMismatch
                else if sd != td then rtErr t .typeMismatch
                else writeLoc t th.loc sv
              | _, _ => throw (.crash .other)
        | _ => throw (.crash .other)
      | some rv =>
        let target ← catchNotDefined (resolveRef f r >>= fun h => pure (some h)) fun e => do
          match r with
          | .var vt =>
            if ← isIdentifierType vt then throw e
            else if (← get).pedantic then pedErr t .pedAssign
            else pure none
          | _ => throw e
        match target with
        | some h =>
          if h.isArr then rtErr t .arrayDirect
          else
            if ← locIsConst h.loc then rtErr t .constAssign
            let v' := implicitCast h.ty rv
            if v'.ty != h.ty then rtErr t .typeMismatch
            else writeLoc t h.loc v'
        | none =>
          match r with
          | .var vt =>
            if rv.ty == .none then rtErr t .noValue
            else addVar { name := vt.val, ty := rv.ty, val := rv }
          | _ => throw (.crash .other)) := by
  rw [execAssign.eq_def]; rfl

/-- the assignment `r <- rhs` when `rhs` is pure with value `rv` and `r` resolves, without changing the state, to a
    non-array holder `h` whose root is not a constant: the type check, then exactly one `writeLoc` -/
theorem run_execAssign_resolved (σ : St) (t : Tok) (r : Ref) (rhs : Expr) (rv : Val) (h : Holder) (f : Nat)
    (hacts : σ.acts ≠ [])
    (hrhs : (evalExpr f rhs).run.run σ = (.ok rv, σ))
    (hr : (resolveRef f r).run.run σ = (.ok h, σ)) (harr : h.isArr = false)
    (hconst : locConstP σ h.loc = false) :
    (execAssign (f+1) t r rhs).run.run σ =
      ((if (implicitCast h.ty rv).ty != h.ty then (rtErr t .typeMismatch : M Unit)
        else writeLoc t h.loc (implicitCast h.ty rv)).run.run σ) := by
  cases hσ : σ.acts with
  | nil => exact absurd hσ hacts
  | cons cur rest =>
    rw [execAssign_succ, run_bind_ok _ _ _ _ _ (run_curAct_cons σ cur rest hσ), run_bind_ok _ _ _ _ _ (run_get σ)]
    have h1 : (evalExpr f rhs >>= fun v => (pure (some v) : M (Option Val))).run.run σ = (.ok (some rv), σ) := by
      rw [run_bind_ok _ _ _ _ _ hrhs]; rfl
    rw [run_bind_ok _ _ _ _ _ (run_tryCatch_ok _ _ _ _ _ h1)]
    simp only
    have h2 : (resolveRef f r >>= fun h => (pure (some h) : M (Option Holder))).run.run σ = (.ok (some h), σ) := by
      rw [run_bind_ok _ _ _ _ _ hr]; rfl
    unfold catchNotDefined
    rw [run_bind_ok _ _ _ _ _ (run_tryCatch_ok _ _ _ _ _ h2)]
    simp only [harr, Bool.false_eq_true, if_false]
    rw [run_bind_ok _ _ _ _ _ (run_locIsConst h.loc σ)]
    simp only [hconst, Bool.false_eq_true, if_false]

/-- a value of the target type is stored as it is -/
theorem implicitCast_of_ty (ty : Ty) (v : Val) (h : v.ty = ty) : implicitCast ty v = v := by
  subst h
  cases v <;> rfl

theorem evalExpr_assign (f : Nat) (t : Tok) (r : Ref) (rhs : Expr) :
    evalExpr (f+1) (.assign t r rhs) = (do execAssign f t r rhs; pure .none) := by
  rw [evalExpr.eq_def]

theorem execStmt_expr (f : Nat) (e : Expr) : execStmt (f+1) (.expr e) = (do tick e.tok; evalExpr f e) := by
  rw [execStmt.eq_def]

/-- the statement `r <- rhs`: one tick, then `execAssign` -/
theorem run_execStmt_assign (σ : St) (t : Tok) (r : Ref) (rhs : Expr) (f : Nat) (hsteps : σ.steps + 1 ≤ σ.stepLimit) :
    (execStmt (f+2) (.expr (.assign t r rhs))).run.run σ =
      (match (execAssign f t r rhs).run.run (tickSt σ) with
       | (.ok _, σ') => (.ok .none, σ')
       | (.error e, σ') => (.error e, σ')) := by
  rw [execStmt_expr, run_bind_ok _ _ _ _ _ (run_tick_ok _ σ hsteps), evalExpr_assign, run_bind]
  rcases (execAssign f t r rhs).run.run (tickSt σ) with ⟨e | u, σ'⟩ <;> rfl

theorem HasArray.tick {σ : St} {n : Str} {id : Nat} {e : Ty} {dims : List (Int × Int)} {cells : List Val}
    (ha : HasArray σ n id e dims cells) : HasArray (tickSt σ) n id e dims cells :=
  ⟨ha.resolves, ha.reads, ha.notConst, ha.wf⟩

theorem HasArray.acts_ne {σ : St} {n : Str} {id : Nat} {e : Ty} {dims : List (Int × Int)} {cells : List Val}
    (ha : HasArray σ n id e dims cells) : σ.acts ≠ [] := by
  intro h
  have := ha.resolves
  unfold arrOwner at this
  rw [h] at this
  cases this

/-- writing one cell of an array value -/
theorem setPath_cell (e : Ty) (dims : List (Int × Int)) (cells : List Val) (i : Nat) (v : Val) (hi : i < cells.length) :
    setPath (.arr e dims cells) [.idx i] v = some (.arr e dims (cells.set i v)) := by
  simp [setPath, List.getElem?_eq_getElem hi]

/-- the assignment `r <- rhs` when `rhs` is pure and the resolution of `r` ends in a diagnostic other than
    `notDefined`: that diagnostic, nothing written -/
theorem run_execAssign_resolve_error (σ : St) (t : Tok) (r : Ref) (rhs : Expr) (rv : Val) (d : Diag) (f : Nat)
    (hacts : σ.acts ≠ [])
    (hrhs : (evalExpr f rhs).run.run σ = (.ok rv, σ))
    (hr : (resolveRef f r).run.run σ = (.error (.diag d), σ)) (hmsg : (d.msg == .notDefined) = false) :
    (execAssign (f+1) t r rhs).run.run σ = (.error (.diag d), σ) := by
  cases hσ : σ.acts with
  | nil => exact absurd hσ hacts
  | cons cur rest =>
    rw [execAssign_succ, run_bind_ok _ _ _ _ _ (run_curAct_cons σ cur rest hσ), run_bind_ok _ _ _ _ _ (run_get σ)]
    have h1 : (evalExpr f rhs >>= fun v => (pure (some v) : M (Option Val))).run.run σ = (.ok (some rv), σ) := by
      rw [run_bind_ok _ _ _ _ _ hrhs]; rfl
    rw [run_bind_ok _ _ _ _ _ (run_tryCatch_ok _ _ _ _ _ h1)]
    simp only
    have h2 : (resolveRef f r >>= fun h => (pure (some h) : M (Option Holder))).run.run σ = (.error (.diag d), σ) :=
      run_bind_err _ _ _ _ _ hr
    unfold catchNotDefined
    apply run_bind_err
    rw [run_tryCatch_err _ _ _ _ _ h2]
    simp only [hmsg, Bool.and_false, Bool.false_eq_true, if_false]
    rfl

/-! ## reading an element through the evaluator -/

/-- `r` resolves, without changing the state, to a non-array holder: the value of the expression `r` is what
    `readLoc` yields at the holder's location -/
theorem run_evalExpr_access_resolved (σ : St) (t : Tok) (r : Ref) (h : Holder) (f : Nat)
    (hr : (resolveRef f r).run.run σ = (.ok h, σ)) (harr : h.isArr = false) :
    (evalExpr (f+1) (.access t r)).run.run σ = (readLocP σ h.loc, σ) := by
  have h2 : (resolveRef f r >>= fun h => (pure (some h) : M (Option Holder))).run.run σ = (.ok (some h), σ) := by
    rw [run_bind_ok _ _ _ _ _ hr]; rfl
  rw [evalExpr_access]
  unfold catchNotDefined
  rw [run_bind_ok _ _ _ _ _ (run_tryCatch_ok _ _ _ _ _ h2)]
  simp only [harr, Bool.false_eq_true, if_false]
  exact run_readLoc h.loc σ

/-! ## `DECLARE a : ARRAY[l₁:u₁, …] OF T` -/

theorem execStmt_declareArr (f : Nat) (t : Tok) (ids : List Tok) (ty : Tok) (bounds : List (Expr × Expr)) :
    execStmt (f+1) (.declareArr t ids ty bounds) = (do
      tick t
      let a ← curAct
      if ids.any (fun id => (findSlot a.arrs id.val).isSome) then rtErr t .redeclared
      else
        let dims ← evalBounds f bounds []
        declareArrs f t ids ty dims
        pure .none) := by
  rw [execStmt.eq_def]

theorem evalBounds_nil (f : Nat) (acc : List (Int × Int)) : evalBounds (f+1) [] acc = pure acc.reverse := by
  rw [evalBounds.eq_def]

theorem evalBounds_cons (f : Nat) (lo hi : Expr) (rest : List (Expr × Expr)) (acc : List (Int × Int)) :
    evalBounds (f+1) ((lo, hi) :: rest) acc = (do
      let l ← evalExpr f lo
      match l with
      | .int a =>
        let h ← evalExpr f hi
        match h with
        | .int b =>
          if b < a then rtErr hi.tok .badIndex
          else evalBounds f rest ((a, b) :: acc)
        | _ => rtErr hi.tok .badIndex
      | _ => rtErr lo.tok .badIndex) := by
  rw [evalBounds.eq_def]; rfl

theorem declareArrs_nil (f : Nat) (t tyTok : Tok) (dims : List (Int × Int)) :
    declareArrs (f+1) t [] tyTok dims = pure () := by
  rw [declareArrs.eq_def]

theorem declareArrs_cons (f : Nat) (t id : Tok) (rest : List Tok) (tyTok : Tok) (dims : List (Int × Int)) :
    declareArrs (f+1) t (id :: rest) tyTok dims = (do
      let ty ← getType tyTok
      if ty == .none then rtErr t .notDefined
      else
        let n := totalCells dims
        if n > 1000000 then rtErr t .budget
        else
          let cells ← defaultCells f t ty n []
          addArr { name := id.val, ty := ty, val := .arr ty dims cells }
          declareArrs f t rest tyTok dims) := by
  rw [declareArrs.eq_def]

theorem defaultCells_zero (f : Nat) (t : Tok) (ty : Ty) (acc : List Val) :
    defaultCells (f+1) t ty 0 acc = pure acc.reverse := by
  rw [defaultCells.eq_def]

theorem defaultCells_succ (f : Nat) (t : Tok) (ty : Ty) (n : Nat) (acc : List Val) :
    defaultCells (f+1) t ty (n+1) acc = (do
      let v ← defaultVal f t ty
      defaultCells f t ty n (v :: acc)) := by
  rw [defaultCells.eq_def]

/-- the default value of a type that is not a record type is `defaultPrim` -/
theorem defaultVal_noncomp (f : Nat) (t : Tok) (ty : Ty) (h : ∀ n, ty ≠ .comp n) :
    defaultVal (f+1) t ty = pure (defaultPrim ty) := by
  rw [defaultVal.eq_def]
  cases ty with
  | comp n => exact absurd rfl (h n)
  | _ => rfl

/-- the cells of a new array of a non-record element type: `n` copies of the default value; no effect on the state -/
theorem run_defaultCells_prim (σ : St) (t : Tok) (ty : Ty) (h : ∀ n, ty ≠ .comp n) :
    ∀ (n : Nat) (acc : List Val) (f : Nat), n + 1 ≤ f →
      (defaultCells f t ty n acc).run.run σ = (.ok (acc.reverse ++ List.replicate n (defaultPrim ty)), σ) := by
  intro n
  induction n with
  | zero =>
    intro acc f hf
    obtain ⟨f', rfl⟩ : ∃ f', f = f' + 1 := ⟨f - 1, by omega⟩
    rw [defaultCells_zero]
    simp only [List.replicate_zero, List.append_nil]
    rfl
  | succ n ih =>
    intro acc f hf
    obtain ⟨f', rfl⟩ : ∃ f', f = f' + 2 := ⟨f - 2, by omega⟩
    have hv : (defaultVal (f'+1) t ty).run.run σ = (.ok (defaultPrim ty), σ) := by
      rw [defaultVal_noncomp f' t ty h]; rfl
    rw [defaultCells_succ, run_bind_ok _ _ _ _ _ hv, ih _ _ (by omega)]
    simp only [List.reverse_cons, List.append_assoc, List.singleton_append, List.replicate_succ]

/-- the bound expressions evaluate purely to the integer pairs `dims`, each with lower ≤ upper -/
def PureBounds (σ : St) (f₀ : Nat) : List (Expr × Expr) → List (Int × Int) → Prop
  | [], [] => True
  | (lo, hi) :: rest, (a, b) :: ds => PureAt σ f₀ lo (.int a) ∧ PureAt σ f₀ hi (.int b) ∧ a ≤ b ∧ PureBounds σ f₀ rest ds
  | _, _ => False

/-- bounds written as integer literals `l:u` with `l ≤ u` -/
def LitBounds : List (Expr × Expr) → List (Int × Int) → Prop
  | [], [] => True
  | (.intLit _ a, .intLit _ b) :: rest, (a', b') :: ds => a = a' ∧ b = b' ∧ a ≤ b ∧ LitBounds rest ds
  | _, _ => False

theorem pureBounds_of_lit (σ : St) : ∀ (bounds : List (Expr × Expr)) (dims : List (Int × Int)), LitBounds bounds dims →
    PureBounds σ 1 bounds dims := by
  intro bounds
  induction bounds with
  | nil =>
    intro dims h
    cases dims with
    | nil => trivial
    | cons _ _ => cases h
  | cons p rest ih =>
    intro dims h
    obtain ⟨lo, hi⟩ := p
    cases dims with
    | nil => cases lo <;> cases hi <;> cases h
    | cons d ds =>
      obtain ⟨a', b'⟩ := d
      cases lo with
      | intLit t1 a =>
        cases hi with
        | intLit t2 b =>
          obtain ⟨rfl, rfl, hle, hrest⟩ := h
          exact ⟨pureAt_intLit σ t1 a, pureAt_intLit σ t2 b, hle, ih ds hrest⟩
        | _ => cases h
      | _ => cases hi <;> cases h

theorem PureBounds.length_eq {σ : St} {f₀ : Nat} : ∀ {bounds : List (Expr × Expr)} {dims : List (Int × Int)},
    PureBounds σ f₀ bounds dims → bounds.length = dims.length
  | [], [], _ => rfl
  | [], _ :: _, h => by cases h
  | (_, _) :: _, [], h => by cases h
  | (_, _) :: rest, (_, _) :: ds, h => by
    simp only [List.length_cons]
    rw [PureBounds.length_eq (bounds := rest) (dims := ds) h.2.2.2]

theorem run_evalBounds (σ : St) (f₀ : Nat) : ∀ (bounds : List (Expr × Expr)) (dims acc : List (Int × Int)) (f : Nat),
    PureBounds σ f₀ bounds dims → f₀ + bounds.length + 1 ≤ f →
    (evalBounds f bounds acc).run.run σ = (.ok (acc.reverse ++ dims), σ) := by
  intro bounds
  induction bounds with
  | nil =>
    intro dims acc f hp hf
    obtain ⟨f', rfl⟩ : ∃ f', f = f' + 1 := ⟨f - 1, by omega⟩
    cases dims with
    | nil => rw [evalBounds_nil, List.append_nil]; rfl
    | cons d ds => cases hp
  | cons p rest ih =>
    intro dims acc f hp hf
    obtain ⟨lo, hi⟩ := p
    obtain ⟨f', rfl⟩ : ∃ f', f = f' + 1 := ⟨f - 1, by omega⟩
    simp only [List.length_cons] at hf
    cases dims with
    | nil => cases hp
    | cons d ds =>
      obtain ⟨a, b⟩ := d
      obtain ⟨hlo, hhi, hle, hrest⟩ := hp
      rw [evalBounds_cons, run_bind_ok _ _ _ _ _ (hlo f' (by omega))]
      simp only
      rw [run_bind_ok _ _ _ _ _ (hhi f' (by omega))]
      have : ¬ (b < a) := by omega
      simp only [this, if_false]
      rw [ih ds ((a, b) :: acc) f' hrest (by omega)]
      simp only [List.reverse_cons, List.append_assoc, List.singleton_append]

/-- the type a `DATA_TYPE` token names (`Context::getType` on the six primitive type keywords) -/
def dataTy (v : Str) : Ty :=
  if v == "INTEGER".toList then .int
  else if v == "REAL".toList then .real
  else if v == "BOOLEAN".toList then .bool
  else if v == "CHAR".toList then .chr
  else if v == "STRING".toList then .str
  else .date

theorem run_getType_data (σ : St) (t : Tok) (g : Bool) (h : t.k = .DATA_TYPE) :
    (getType t g).run.run σ = (.ok (dataTy t.val), σ) := by
  unfold getType dataTy
  simp only [h, beq_self_eq_true, if_true]
  repeat' split
  all_goals rfl

theorem dataTy_isPrimitive (v : Str) : (dataTy v).isPrimitive = true := by
  unfold dataTy; repeat' split
  all_goals rfl

theorem dataTy_ne_comp (v : Str) (n : Str) : dataTy v ≠ .comp n := by
  intro h
  have := dataTy_isPrimitive v
  rw [h] at this
  cases this

theorem dataTy_ne_none (v : Str) : (dataTy v == .none) = false := by
  have := dataTy_isPrimitive v
  cases h : dataTy v <;> first | rfl | (rw [h] at this; cases this)

/-- the state after `addArr slot` when the activation stack is `cur :: rest` -/
def declSt (σ : St) (cur : Act) (rest : List Act) (slot : Slot) : St :=
  { σ with acts := { cur with arrs := cur.arrs ++ [slot] } :: rest }

theorem run_addArr (σ : St) (cur : Act) (rest : List Act) (slot : Slot) (h : σ.acts = cur :: rest) :
    (addArr slot).run.run σ = (.ok ⟨⟩, declSt σ cur rest slot) := by
  unfold addArr modifyCur
  rw [run_bind_ok _ _ _ _ _ (run_curAct_cons σ cur rest h), run_modifyAct]
  simp only [updSt, declSt, h, updActs, beq_self_eq_true, if_true]

theorem findSlot_append_fresh (ss : List Slot) (slot : Slot) (h : findSlot ss slot.name = none) :
    findSlot (ss ++ [slot]) slot.name = some slot := by
  unfold findSlot at h ⊢
  rw [List.find?_append, h]
  simp

theorem findSlot_append_ne (ss : List Slot) (slot : Slot) (m : Str) (h : m ≠ slot.name) :
    findSlot (ss ++ [slot]) m = findSlot ss m := by
  unfold findSlot
  rw [List.find?_append]
  have : (slot.name == m) = false := by
    cases hb : slot.name == m with
    | false => rfl
    | true => exact absurd (by simpa using hb : slot.name = m).symm h
  cases List.find? (fun x => x.name == m) ss with
  | some x => rfl
  | none => simp [this]

/-- **`DECLARE` establishes `HasArray`**: after the array slot `n` (not declared before in `cur`, no variable `n`
    visible) has been appended to the arrays of the current activation, the name `n` denotes it -/
theorem hasArray_declSt (σ : St) (cur g : Act) (rest : List Act) (n : Str) (e : Ty) (dims : List (Int × Int))
    (cells : List Val) (h : σ.acts = cur :: rest) (hg : σ.acts.getLast? = some g)
    (hfresh : findSlot cur.arrs n = none) (hnovar : lookupVarIn cur g n = none)
    (hwf : cells.length = totalCells dims) :
    HasArray (declSt σ cur rest { name := n, ty := e, val := .arr e dims cells }) n cur.id e dims cells := by
  have hslot : findSlot (cur.arrs ++ [({ name := n, ty := e, val := .arr e dims cells } : Slot)]) n =
      some { name := n, ty := e, val := .arr e dims cells } :=
    findSlot_append_fresh cur.arrs { name := n, ty := e, val := .arr e dims cells } hfresh
  have hvh : varHit cur g n = false := by
    rw [← lookupVarIn_isSome, hnovar]; rfl
  refine ⟨?_, ?_, ?_, hwf⟩
  · unfold arrOwner declSt
    simp only
    rw [h] at hg
    cases rest with
    | nil =>
      simp only [List.getLast?_singleton, Option.some.injEq] at hg
      subst hg
      simp only [List.getLast?_singleton]
      have : varHit { cur with arrs := cur.arrs ++ [({ name := n, ty := e, val := .arr e dims cells } : Slot)] }
          { cur with arrs := cur.arrs ++ [({ name := n, ty := e, val := .arr e dims cells } : Slot)] } n = varHit cur cur n := rfl
      rw [this, hvh]
      simp only [Bool.false_eq_true, if_false, arrHitId, hslot, Option.isSome_some, if_true]
    | cons b r =>
      rw [List.getLast?_cons_cons] at hg ⊢
      rw [hg]
      simp only
      have : varHit { cur with arrs := cur.arrs ++ [({ name := n, ty := e, val := .arr e dims cells } : Slot)] } g n =
          varHit cur g n := rfl
      rw [this, hvh]
      simp only [Bool.false_eq_true, if_false, arrHitId, hslot, Option.isSome_some, if_true]
  · unfold readLocP declSt
    simp only [List.find?_cons, beq_self_eq_true, slotOf, if_true, hslot, getPath]
  · unfold locConstP declSt
    simp only [List.find?_cons, beq_self_eq_true, slotOf, if_true, hslot, Option.map_some, Option.getD_some]

/-- appending the array slot `n` to the current activation leaves every location with another root as it was -/
theorem readLocP_declSt_other (σ : St) (cur : Act) (rest : List Act) (slot : Slot) (l' : Loc) (h : σ.acts = cur :: rest)
    (hd : DiffRoot (arrLoc cur.id slot.name) l') :
    readLocP (declSt σ cur rest slot) l' = readLocP σ l' := by
  unfold readLocP declSt
  simp only [h, List.find?_cons]
  cases hc : cur.id == l'.act with
  | false => rfl
  | true =>
    simp only
    have hact : l'.act = cur.id := (by simpa using hc : cur.id = l'.act).symm
    have : slotOf { cur with arrs := cur.arrs ++ [slot] } l' = slotOf cur l' := by
      unfold slotOf
      cases hl : l'.isArr with
      | false => rfl
      | true =>
        simp only [if_true]
        rcases hd with hd | hd | hd
        · exact absurd hact hd
        · exact absurd hl hd
        · exact findSlot_append_ne cur.arrs slot l'.name hd
    rw [this]

/-! ## whole-array assignment `b <- a` -/

theorem rtDiag_trace (σ : St) (cur : Act) (rest : List Act) (l c : Nat) (m : Msg) (h : σ.acts = cur :: rest) :
    (rtDiag σ l c m).trace.head?.map (·.name) = some cur.name ∧ (rtDiag σ l c m).trace.length = σ.acts.length := by
  unfold rtDiag
  rw [h]
  simp

/-- a whole array used as a value: the diagnostic `arrayDirect`, raised in the current activation -/
theorem run_evalExpr_access_arr (σ : St) (at' t : Tok) (id : Nat) (f : Nat) (h : arrOwner σ t.val = some id) :
    (evalExpr (f+2) (.access at' (.var t))).run.run σ =
      (.error (.diag (rtDiag σ at'.line at'.col .arrayDirect)), σ) := by
  obtain ⟨ty, hr⟩ := run_resolveRef_arrVar σ t id f h
  have h2 : (resolveRef (f+1) (.var t) >>= fun h => (pure (some h) : M (Option Holder))).run.run σ =
      (.ok (some { loc := arrLoc id t.val, isArr := true, ty := ty, name := t.val }), σ) := by
    rw [run_bind_ok _ _ _ _ _ hr]; rfl
  rw [evalExpr_access]
  unfold catchNotDefined
  rw [run_bind_ok _ _ _ _ _ (run_tryCatch_ok _ _ _ _ _ h2)]
  simp only [if_true]
  exact run_rtErr at' .arrayDirect σ

/-- `b <- a` for two declared arrays: the element types and the bounds are compared, then the whole value of `a` is
    written into the slot of `b` -/
theorem run_execAssign_arrays (σ : St) (t bt at' at'' : Tok) (ida idb : Nat) (ea eb : Ty) (da db : List (Int × Int))
    (ca cb : List Val) (f : Nat)
    (ha : HasArray σ at''.val ida ea da ca) (hb : HasArray σ bt.val idb eb db cb) :
    (execAssign (f+3) t (.var bt) (.access at' (.var at''))).run.run σ =
      ((if ea != eb then (rtErr t .typeMismatch : M Unit)
        else if da != db then rtErr t .typeMismatch
        else writeLoc t (arrLoc idb bt.val) (.arr ea da ca)).run.run σ) := by
  cases hσ : σ.acts with
  | nil => exact absurd hσ ha.acts_ne
  | cons cur rest =>
    obtain ⟨htr1, htr2⟩ := rtDiag_trace σ cur rest at'.line at'.col .arrayDirect hσ
    obtain ⟨tya, hra⟩ := run_resolveRef_arrVar σ at'' ida (f+1) ha.resolves
    obtain ⟨tyb, hrb⟩ := run_resolveRef_arrVar σ bt idb (f+1) hb.resolves
    have hreada : (readLoc (arrLoc ida at''.val)).run.run σ = (.ok (.arr ea da ca), σ) := by
      rw [run_readLoc, ha.reads]
    have hreadb : (readLoc (arrLoc idb bt.val)).run.run σ = (.ok (.arr eb db cb), σ) := by
      rw [run_readLoc, hb.reads]
    rw [execAssign_succ, run_bind_ok _ _ _ _ _ (run_curAct_cons σ cur rest hσ), run_bind_ok _ _ _ _ _ (run_get σ)]
    have h1 : (evalExpr (f+2) (.access at' (.var at'')) >>= fun v => (pure (some v) : M (Option Val))).run.run σ =
        (.error (.diag (rtDiag σ at'.line at'.col .arrayDirect)), σ) :=
      run_bind_err _ _ _ _ _ (run_evalExpr_access_arr σ at' at'' ida f ha.resolves)
    have h3 : (tryCatch (evalExpr (f+2) (.access at' (.var at'')) >>= fun v => (pure (some v) : M (Option Val))) fun e =>
        match e with
        | .diag d =>
          if d.kind == .runtime && d.msg == .arrayDirect && (d.trace.head?.map (·.name)) == some cur.name
             && d.trace.length == σ.acts.length then
            match (Expr.access at' (.var at'')) with
            | .access _ _ => pure none
            | _ => throw e
          else throw e
        | _ => throw e).run.run σ = (.ok none, σ) := by
      rw [run_tryCatch_err _ _ _ _ _ h1]
      simp only [rtDiag_kind, rtDiag_msg, htr1, htr2, beq_self_eq_true, Bool.and_self, if_true]
      rfl
    rw [run_bind_ok _ _ _ _ _ h3]
    simp only
    rw [run_bind_ok _ _ _ _ _ hra]
    simp only [Bool.not_true, Bool.false_eq_true, if_false]
    rw [run_bind_ok _ _ _ _ _ hrb]
    simp only [Bool.not_true, Bool.false_eq_true, if_false]
    rw [run_bind_ok _ _ _ _ _ hreada, run_bind_ok _ _ _ _ _ hreadb]

/-! ## `HasArray` from the shape of the state -/

/-- an array slot of the current activation, with no variable of that name visible -/
theorem HasArray.of_current (σ : St) (cur g : Act) (rest : List Act) (n : Str) (s : Slot) (e : Ty)
    (dims : List (Int × Int)) (cells : List Val)
    (h : σ.acts = cur :: rest) (hg : σ.acts.getLast? = some g) (hnovar : lookupVarIn cur g n = none)
    (hs : findSlot cur.arrs n = some s) (hv : s.val = .arr e dims cells) (hc : s.isConst = false)
    (hwf : cells.length = totalCells dims) : HasArray σ n cur.id e dims cells := by
  have hvh : varHit cur g n = false := by rw [← lookupVarIn_isSome, hnovar]; rfl
  refine ⟨?_, ?_, ?_, hwf⟩
  · unfold arrOwner
    rw [hg, h]
    simp only [hvh, Bool.false_eq_true, if_false, arrHitId, hs, Option.isSome_some, if_true]
  · unfold readLocP
    simp only [h, List.find?_cons, beq_self_eq_true, slotOf, if_true, hs, getPath, hv]
  · unfold locConstP
    simp only [h, List.find?_cons, beq_self_eq_true, slotOf, if_true, hs, Option.map_some, Option.getD_some, hc]

/-- an array slot of the global activation seen from another activation (no array of that name in the current
    activation, no variable of that name visible; the global activation is the first one with its id) -/
theorem HasArray.of_global (σ : St) (cur g : Act) (rest : List Act) (n : Str) (s : Slot) (e : Ty)
    (dims : List (Int × Int)) (cells : List Val)
    (h : σ.acts = cur :: rest) (hg : σ.acts.getLast? = some g) (hnovar : lookupVarIn cur g n = none)
    (hcur : findSlot cur.arrs n = none) (hid : (cur.id == g.id) = false)
    (hfind : σ.acts.find? (·.id == g.id) = some g)
    (hs : findSlot g.arrs n = some s) (hv : s.val = .arr e dims cells) (hc : s.isConst = false)
    (hwf : cells.length = totalCells dims) : HasArray σ n g.id e dims cells := by
  have hvh : varHit cur g n = false := by rw [← lookupVarIn_isSome, hnovar]; rfl
  refine ⟨?_, ?_, ?_, hwf⟩
  · unfold arrOwner
    rw [hg, h]
    simp only [hvh, Bool.false_eq_true, if_false, arrHitId, hcur, Option.isSome_none, hid, hs, Option.isSome_some, if_true]
  · unfold readLocP
    simp only [hfind, slotOf, if_true, hs, getPath, hv]
  · unfold locConstP
    simp only [hfind, slotOf, if_true, hs, Option.map_some, Option.getD_some, hc]

/-- declaring the array `n` in the current activation does not disturb the arrays of other names -/
theorem HasArray.declSt_other {σ : St} {m : Str} {id' : Nat} {e' : Ty} {dims' : List (Int × Int)} {cells' : List Val}
    (ha : HasArray σ m id' e' dims' cells') (cur : Act) (rest : List Act) (slot : Slot)
    (h : σ.acts = cur :: rest) (hne : m ≠ slot.name) :
    HasArray (declSt σ cur rest slot) m id' e' dims' cells' := by
  have hd : DiffRoot (arrLoc cur.id slot.name) (arrLoc id' m) := .inr (.inr hne)
  refine ⟨?_, ?_, ?_, ha.wf⟩
  · have hres := ha.resolves
    unfold arrOwner at hres ⊢
    unfold declSt
    simp only
    rw [h] at hres
    have harrs : findSlot (cur.arrs ++ [slot]) m = findSlot cur.arrs m := findSlot_append_ne cur.arrs slot m hne
    cases rest with
    | nil =>
      simp only [List.getLast?_singleton] at hres ⊢
      have h1 : varHit { cur with arrs := cur.arrs ++ [slot] } { cur with arrs := cur.arrs ++ [slot] } m = varHit cur cur m := rfl
      have h2 : arrHitId { cur with arrs := cur.arrs ++ [slot] } { cur with arrs := cur.arrs ++ [slot] } m = arrHitId cur cur m := by
        unfold arrHitId; simp only [harrs]
      rw [h1, h2]; exact hres
    | cons b r =>
      rw [List.getLast?_cons_cons] at hres ⊢
      cases hg : (b :: r).getLast? with
      | none => rw [hg] at hres; cases hres
      | some g =>
        rw [hg] at hres
        simp only at hres ⊢
        have h1 : varHit { cur with arrs := cur.arrs ++ [slot] } g m = varHit cur g m := rfl
        have h2 : arrHitId { cur with arrs := cur.arrs ++ [slot] } g m = arrHitId cur g m := by
          unfold arrHitId; simp only [harrs]
        rw [h1, h2]; exact hres
  · rw [readLocP_declSt_other σ cur rest slot _ h hd]; exact ha.reads
  · have hc := ha.notConst
    unfold locConstP at hc ⊢
    unfold declSt
    simp only [h, List.find?_cons] at hc ⊢
    cases hcid : cur.id == id' with
    | false => simp only [hcid] at hc ⊢; exact hc
    | true =>
      simp only [hcid] at hc ⊢
      have : slotOf { cur with arrs := cur.arrs ++ [slot] } (arrLoc id' m) = slotOf cur (arrLoc id' m) := by
        unfold slotOf; simp only [if_true]; exact findSlot_append_ne cur.arrs slot m hne
      rw [this]; exact hc

/-! ## several names in one `DECLARE` -/

/-- the state after the array slots `slots` have been appended to the current activation -/
def declManySt (σ : St) (cur : Act) (rest : List Act) (slots : List Slot) : St :=
  { σ with acts := { cur with arrs := cur.arrs ++ slots } :: rest }

/-- the slot `DECLARE` creates for the name `n` -/
def newArrSlot (ty : Ty) (dims : List (Int × Int)) (n : Str) : Slot :=
  { name := n, ty := ty, val := .arr ty dims (List.replicate (totalCells dims) (defaultPrim ty)) }

theorem run_declareArrs_prim (t tyTok : Tok) (dims : List (Int × Int)) (hty : tyTok.k = .DATA_TYPE)
    (hsize : totalCells dims ≤ 1000000) :
    ∀ (ids : List Tok) (σ : St) (cur : Act) (rest : List Act) (f : Nat), σ.acts = cur :: rest →
      ids.length + totalCells dims + 2 ≤ f →
      (declareArrs f t ids tyTok dims).run.run σ =
        (.ok ⟨⟩, declManySt σ cur rest (ids.map fun id => newArrSlot (dataTy tyTok.val) dims id.val)) := by
  intro ids
  induction ids with
  | nil =>
    intro σ cur rest f h hf
    obtain ⟨f', rfl⟩ : ∃ f', f = f' + 1 := ⟨f - 1, by omega⟩
    rw [declareArrs_nil]
    have : declManySt σ cur rest [] = σ := by
      cases σ; simp only at h; subst h; simp only [declManySt, List.append_nil]
    simp only [List.map_nil, this]
    rfl
  | cons id ids ih =>
    intro σ cur rest f h hf
    obtain ⟨f', rfl⟩ : ∃ f', f = f' + 1 := ⟨f - 1, by omega⟩
    simp only [List.length_cons] at hf
    rw [declareArrs_cons, run_bind_ok _ _ _ _ _ (run_getType_data σ tyTok true hty)]
    have hsz : ¬ (totalCells dims > 1000000) := by omega
    simp only [dataTy_ne_none, Bool.false_eq_true, if_false, hsz]
    rw [run_bind_ok _ _ _ _ _ (run_defaultCells_prim σ t (dataTy tyTok.val) (dataTy_ne_comp tyTok.val)
      (totalCells dims) [] f' (by omega))]
    simp only [List.reverse_nil, List.nil_append]
    rw [run_bind_ok _ _ _ _ _ (run_addArr σ cur rest _ h)]
    rw [ih (declSt σ cur rest _) _ rest f' rfl (by omega)]
    simp only [declManySt, declSt, List.map_cons, List.append_assoc, List.singleton_append, newArrSlot]

theorem find?_map_newArrSlot (ty : Ty) (dims : List (Int × Int)) (n : Str) :
    ∀ (ids : List Tok), (∃ id ∈ ids, id.val = n) →
      findSlot (ids.map fun id => newArrSlot ty dims id.val) n = some (newArrSlot ty dims n) := by
  intro ids
  induction ids with
  | nil => rintro ⟨_, h, _⟩; cases h
  | cons id ids ih =>
    intro h
    unfold findSlot
    simp only [List.map_cons, List.find?_cons]
    by_cases hid : id.val = n
    · subst hid
      have : ((newArrSlot ty dims id.val).name == id.val) = true := by simp [newArrSlot]
      simp only [this]
    · have : ((newArrSlot ty dims id.val).name == n) = false := by simp [newArrSlot, hid]
      simp only [this]
      obtain ⟨id', hmem, hval⟩ := h
      rcases List.mem_cons.mp hmem with rfl | hmem
      · exact absurd hval hid
      · exact ih ⟨id', hmem, hval⟩

theorem find?_map_newArrSlot_none (ty : Ty) (dims : List (Int × Int)) (m : Str) :
    ∀ (ids : List Tok), (∀ id ∈ ids, id.val ≠ m) →
      findSlot (ids.map fun id => newArrSlot ty dims id.val) m = none := by
  intro ids
  induction ids with
  | nil => intro _; rfl
  | cons id ids ih =>
    intro h
    unfold findSlot
    simp only [List.map_cons, List.find?_cons]
    have : ((newArrSlot ty dims id.val).name == m) = false := by
      simp [newArrSlot, h id List.mem_cons_self]
    simp only [this]
    exact ih fun id' h' => h id' (List.mem_cons_of_mem _ h')

theorem findSlot_append (ss ts : List Slot) (n : Str) :
    findSlot (ss ++ ts) n = (findSlot ss n).or (findSlot ts n) := by
  unfold findSlot; rw [List.find?_append]

theorem lookupVarIn_none_iff (a g : Act) (n : Str) : lookupVarIn a g n = none ↔ varHit a g n = false := by
  rw [← lookupVarIn_isSome]
  cases lookupVarIn a g n <;> simp

/-- every name of the `DECLARE` denotes its new array afterwards -/
theorem hasArray_declManySt (σ : St) (cur g : Act) (rest : List Act) (ids : List Tok) (ty : Ty) (dims : List (Int × Int))
    (n : Str) (h : σ.acts = cur :: rest) (hg : σ.acts.getLast? = some g) (hn : ∃ id ∈ ids, id.val = n)
    (hfresh : findSlot cur.arrs n = none) (hnovar : lookupVarIn cur g n = none) :
    HasArray (declManySt σ cur rest (ids.map fun id => newArrSlot ty dims id.val)) n cur.id ty dims
      (List.replicate (totalCells dims) (defaultPrim ty)) := by
  have hslot : findSlot (cur.arrs ++ ids.map fun id => newArrSlot ty dims id.val) n = some (newArrSlot ty dims n) := by
    rw [findSlot_append, hfresh, find?_map_newArrSlot ty dims n ids hn]; rfl
  have hvh : varHit cur g n = false := by rw [← lookupVarIn_isSome, hnovar]; rfl
  rw [h] at hg
  cases rest with
  | nil =>
    simp only [List.getLast?_singleton, Option.some.injEq] at hg
    subst hg
    refine HasArray.of_current _ { cur with arrs := cur.arrs ++ ids.map fun id => newArrSlot ty dims id.val }
      { cur with arrs := cur.arrs ++ ids.map fun id => newArrSlot ty dims id.val } [] n _ ty dims _ rfl rfl ?_ hslot rfl rfl
      (List.length_replicate ..)
    exact (lookupVarIn_none_iff _ _ _).mpr hvh
  | cons b r =>
    rw [List.getLast?_cons_cons] at hg
    refine HasArray.of_current _ { cur with arrs := cur.arrs ++ ids.map fun id => newArrSlot ty dims id.val }
      g (b :: r) n _ ty dims _ rfl (by simp only [declManySt]; rw [List.getLast?_cons_cons]; exact hg) ?_ hslot rfl rfl
      (List.length_replicate ..)
    exact (lookupVarIn_none_iff _ _ _).mpr hvh

/-- appending array slots leaves the locations with other roots as they were -/
theorem readLocP_declManySt_other (σ : St) (cur : Act) (rest : List Act) (slots : List Slot) (l' : Loc)
    (h : σ.acts = cur :: rest)
    (hd : l'.act ≠ cur.id ∨ l'.isArr = false ∨ findSlot slots l'.name = none) :
    readLocP (declManySt σ cur rest slots) l' = readLocP σ l' := by
  unfold readLocP declManySt
  simp only [h, List.find?_cons]
  cases hc : cur.id == l'.act with
  | false => rfl
  | true =>
    simp only
    have hact : l'.act = cur.id := (by simpa using hc : cur.id = l'.act).symm
    have : slotOf { cur with arrs := cur.arrs ++ slots } l' = slotOf cur l' := by
      unfold slotOf
      cases hl : l'.isArr with
      | false => rfl
      | true =>
        simp only [if_true]
        rcases hd with hd | hd | hd
        · exact absurd hact hd
        · rw [hl] at hd; cases hd
        · rw [findSlot_append, hd]; cases findSlot cur.arrs l'.name <;> rfl
    rw [this]

end ArrayLemmas

end Pseudo
