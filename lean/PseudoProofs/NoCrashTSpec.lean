import PseudoProofs.NoCrashTPure
/-!
# C01 with enum / pointer types: the triples proved by induction on the fuel, and helpers for the step lemmas
-/
namespace Pseudo.NT
open Pseudo
open Pseudo.NC (ReadsIn ActRead ErrOK ErrNR NoCrash RO EOK errOK_diag errNR_diag errOK_fuel errNR_fuel errOK_brk errOK_cont
  getLast?_mem ro_findAct ro_isLive ro_rtErr ro_rtErr0 ro_pedErr ro_liftMsg ro_liftMsg0 ro_readLoc ro_locIsConst ro_filePre
  ro_writeText ro_get getPath_nil findSlot_name findSlot_mem lookupVarIn_some lookupArrIn_some lookupVarIn_none top_mem
  getPath_append)

/-- scalars that are fine in `σ` -/
def AllOK (σ : St) (vs : List Val) : Prop := ∀ v ∈ vs, Scal v = true ∧ ValOK σ v
def CellsOK (σ : St) (ty : Ty) (vs : List Val) : Prop := ∀ c ∈ vs, CellOK σ ty c
/-- slots that are fit to become the variables of a new activation on top of the stack of `σ` -/
def SlotsOK (σ : St) (ss : List Slot) : Prop := ∀ s ∈ ss, SlotOK σ σ.acts s

theorem AllOK.ext {σ σ' : St} {vs : List Val} (hE : Ext σ σ') (h : AllOK σ vs) : AllOK σ' vs :=
  fun v hv => ⟨(h v hv).1, (h v hv).2.ext hE⟩
theorem CellsOK.ext {σ σ' : St} {ty : Ty} {vs : List Val} (hE : Ext σ σ') (h : CellsOK σ ty vs) : CellsOK σ' ty vs :=
  fun v hv => (h v hv).ext hE

theorem SlotOK.ext {σ σ' : St} {s : Slot} (hE : Ext σ σ') (h : SlotOK σ σ.acts s) : SlotOK σ' σ'.acts s := by
  unfold SlotOK at *
  split
  · rename_i hr; rw [hr] at h; exact h.ext hE
  · rename_i l hr
    rw [hr] at h
    obtain ⟨hsv, v, hv, hs, ht⟩ := h
    obtain ⟨v', hv', k⟩ := hE.reads _ _ hv
    obtain ⟨h1, h2⟩ := k.scal_ty hs
    exact ⟨hsv, v', hv', h1, h2.trans ht⟩

theorem SlotsOK.ext {σ σ' : St} {ss : List Slot} (hE : Ext σ σ') (h : SlotsOK σ ss) : SlotsOK σ' ss :=
  fun s hs => (h s hs).ext hE

theorem TopCond.ext {σ σ' : St} {top : Bool} (hE : Ext σ σ') (h : TopCond top σ) : TopCond top σ' := by
  intro ht
  obtain ⟨g, hg⟩ := h ht
  have hl := hE.length
  rw [hg] at hl
  cases hσ' : σ'.acts with
  | nil => rw [hσ'] at hl; simp at hl
  | cons a r =>
    rw [hσ'] at hl
    cases r with
    | nil => exact ⟨a, rfl⟩
    | cons b r' => simp at hl

theorem TopCond.false (σ : St) : TopCond false σ := fun h => by cases h

/-- the trivial precondition / postcondition -/
abbrev PT : St → Prop := fun _ => True
abbrev QT {α : Type} : St → α → St → Prop := fun _ _ _ => True
/-- the postcondition of the functions that return a value -/
abbrev QV : St → Val → St → Prop := fun _ v σ' => Scal v = true ∧ ValOK σ' v

/-- one triple per function of the mutual block, at fuel `f` -/
structure AllTri (f : Nat) : Prop where
  defaultVal : ∀ t ty, Tri (fun σ => TyWF σ ty) (defaultVal f t ty) (fun _ v σ' => CellOK σ' ty v)
  defaultCells : ∀ t ty n acc, Tri (fun σ => TyWF σ ty ∧ CellsOK σ ty acc) (defaultCells f t ty n acc)
    (fun _ r σ' => r.length = acc.length + n ∧ CellsOK σ' ty r)
  evalArgs : ∀ es acc, Tri (fun σ => AllOK σ acc) (evalArgs f es acc)
    (fun _ r σ' => AllOK σ' r ∧ r.length = acc.length + es.length)
  evalIndices : ∀ es dims acc, es.length = dims.length →
    Tri PT (evalIndices f es dims acc) (fun _ r _ => ∃ is', r = acc.reverse ++ is' ∧ InBoundsAll dims is')
  resolveRef : ∀ r, Tri PT (resolveRef f r) (fun _ h σ' => HolderOK σ' h)
  callFun : ∀ t args, Tri PT (callFun f t args) QV
  bindParams : ∀ t ps es vs acc, es.length = ps.length → vs.length = ps.length →
    Tri (fun σ => ParamsOK σ ps ∧ AllOK σ vs ∧ SlotsOK σ acc) (bindParams f t ps es vs acc) (fun _ r σ' => SlotsOK σ' r ∧
      ∃ new, r = acc.reverse ++ new ∧
        ((∀ p ∈ ps, p.2.2 = false) → new.map (·.ty) = ps.map (·.2.1) ∧ ∀ s ∈ new, s.ref = none))
  evalExpr : ∀ e, Tri PT (evalExpr f e) QV
  execAssign : ∀ t r rhs, Tri PT (execAssign f t r rhs) QT
  runBlock : ∀ top b, okBlock top b = true → Tri (TopCond top) (runBlock f b) QT
  ifChain : ∀ top t bs els, okBranches top bs = true → okOpt top els = true → Tri (TopCond top) (ifChain f t bs els) QT
  caseMatch : ∀ top v cl, okClause top cl = true →
    Tri PT (caseMatch f v cl) (fun _ r _ => ∀ b, r = some b → okBlock top b = true)
  caseClauses : ∀ top v cls, okClauses top cls = true → Tri (TopCond top) (caseClauses f v cls) QT
  loopBody : ∀ top b, okBlock top b = true → Tri (TopCond top) (loopBody f b) QT
  whileLoop : ∀ top t c b, okBlock top b = true → Tri (TopCond top) (whileLoop f t c b) QT
  repeatLoop : ∀ top t b c, okBlock top b = true → Tri (TopCond top) (repeatLoop f t b c) QT
  forLoop : ∀ top t it stop step b, okBlock top b = true →
    Tri (fun σ => TopCond top σ ∧ IntLoc σ it) (forLoop f t it stop step b) QT
  callProc : ∀ t name args, Tri PT (callProc f t name args) QT
  resolveParams : ∀ ps acc, Tri (fun σ => ParamsOK σ acc) (resolveParams f ps acc) (fun _ r σ' => ParamsOK σ' r)
  evalBounds : ∀ bs acc, Tri PT (evalBounds f bs acc) QT
  declareVars : ∀ t ids ty, Tri PT (declareVars f t ids ty) QT
  declareArrs : ∀ t ids ty dims, Tri PT (declareArrs f t ids ty dims) QT
  outputAll : ∀ es, Tri PT (outputAll f es) QT
  fileName : ∀ t e, Tri PT (fileName f t e) QT
  execStmt : ∀ top s, okStmt top s = true → Tri (TopCond top) (execStmt f s) QV

/-- fuel exhausted: not a crash point -/
theorem tri_fuel {α : Type} {P : St → Prop} {Q : St → α → St → Prop} : Tri P (throw .outOfFuel : M α) Q :=
  fun σ hW _ => Run.throw hW (Ext.refl σ) (errOK_fuel σ)

theorem AllTri.zero : AllTri 0 where
  defaultVal _ _ := by rw [Pseudo.defaultVal.eq_def]; exact tri_fuel
  defaultCells _ _ _ _ := by rw [Pseudo.defaultCells.eq_def]; exact tri_fuel
  evalArgs _ _ := by rw [Pseudo.evalArgs.eq_def]; exact tri_fuel
  evalIndices _ _ _ _ := by rw [Pseudo.evalIndices.eq_def]; exact tri_fuel
  resolveRef _ := by rw [Pseudo.resolveRef.eq_def]; exact tri_fuel
  callFun _ _ := by rw [Pseudo.callFun.eq_def]; exact tri_fuel
  bindParams _ _ _ _ _ _ _ := by rw [Pseudo.bindParams.eq_def]; exact tri_fuel
  evalExpr _ := by rw [Pseudo.evalExpr.eq_def]; exact tri_fuel
  execAssign _ _ _ := by rw [Pseudo.execAssign.eq_def]; exact tri_fuel
  runBlock _ _ _ := by rw [Pseudo.runBlock.eq_def]; exact tri_fuel
  ifChain _ _ _ _ _ _ := by rw [Pseudo.ifChain.eq_def]; exact tri_fuel
  caseMatch _ _ _ _ := by rw [Pseudo.caseMatch.eq_def]; exact tri_fuel
  caseClauses _ _ _ _ := by rw [Pseudo.caseClauses.eq_def]; exact tri_fuel
  loopBody _ _ _ := by rw [Pseudo.loopBody.eq_def]; exact tri_fuel
  whileLoop _ _ _ _ _ := by rw [Pseudo.whileLoop.eq_def]; exact tri_fuel
  repeatLoop _ _ _ _ _ := by rw [Pseudo.repeatLoop.eq_def]; exact tri_fuel
  forLoop _ _ _ _ _ _ _ := by rw [Pseudo.forLoop.eq_def]; exact tri_fuel
  callProc _ _ _ := by rw [Pseudo.callProc.eq_def]; exact tri_fuel
  resolveParams _ _ := by rw [Pseudo.resolveParams.eq_def]; exact tri_fuel
  evalBounds _ _ := by rw [Pseudo.evalBounds.eq_def]; exact tri_fuel
  declareVars _ _ _ := by rw [Pseudo.declareVars.eq_def]; exact tri_fuel
  declareArrs _ _ _ _ := by rw [Pseudo.declareArrs.eq_def]; exact tri_fuel
  outputAll _ := by rw [Pseudo.outputAll.eq_def]; exact tri_fuel
  fileName _ _ := by rw [Pseudo.fileName.eq_def]; exact tri_fuel
  execStmt _ _ _ := by rw [Pseudo.execStmt.eq_def]; exact tri_fuel

/-! ### helpers for the step lemmas -/

set_option linter.unusedSectionVars false

section helpers
variable {α β : Type} {σ0 σ : St} {E : St → Stop → Prop} [EOK E]

/-- a read-only step followed by a continuation -/
theorem Run.ro {m : M α} {k : α → M β} {post : α → Prop} {Qb : β → St → Prop}
    (hW : WF σ) (hE : Ext σ0 σ) (hm : RO m σ post) (hk : ∀ a, post a → Run (k a) σ (ResE σ0 Qb E)) :
    Run (m >>= k) σ (ResE σ0 Qb E) := Run.bind_ro hW hE (EOK.of_nr σ) hm hk

/-- a read-only step in tail position -/
theorem Run.ro_tail {m : M α} {post : α → Prop} {Q : α → St → Prop}
    (hW : WF σ) (hE : Ext σ0 σ) (hm : RO m σ post) (hk : ∀ a, post a → Q a σ) : Run m σ (ResE σ0 Q E) :=
  Run.of_ro hW hE (EOK.of_nr σ) hm hk

theorem Run.rtErr {Q : α → St → Prop} (hW : WF σ) (hE : Ext σ0 σ) (t : Tok) (m : Msg) :
    Run (Pseudo.rtErr t m : M α) σ (ResE σ0 Q E) :=
  Run.ro_tail hW hE (ro_rtErr t m (fun _ => False)) (fun _ h => h.elim)

theorem Run.rtErr0 {Q : α → St → Prop} (hW : WF σ) (hE : Ext σ0 σ) (m : Msg) :
    Run (Pseudo.rtErr0 m : M α) σ (ResE σ0 Q E) :=
  Run.ro_tail hW hE (ro_rtErr0 m (fun _ => False)) (fun _ h => h.elim)

theorem Run.pedErr {Q : α → St → Prop} (hW : WF σ) (hE : Ext σ0 σ) (t : Tok) (m : Msg) :
    Run (Pseudo.pedErr t m : M α) σ (ResE σ0 Q E) :=
  Run.ro_tail hW hE (ro_pedErr t m (fun _ => False)) (fun _ h => h.elim)

/-- `catchNotDefined`: body and handler with the same postconditions -/
theorem Run.catchND {m : M α} {h : Stop → M α} {Q : α → St → Prop}
    (hE : Ext σ0 σ) (hm : Run m σ (ResE σ Q E))
    (hh : ∀ e σ', WF σ' → Ext σ σ' → Ext σ0 σ' → E σ' e → Run (h e) σ' (ResE σ0 Q E)) :
    Run (catchNotDefined m h) σ (ResE σ0 Q E) := by
  unfold catchNotDefined
  refine Run.tryCatch hE hm fun e σ' hW' hE' hE0' he => ?_
  cases e with
  | diag d =>
    dsimp only
    split
    · refine Run.get_bind ?_
      split
      · exact hh _ σ' hW' hE' hE0' he
      · exact Run.throw hW' hE0' he
    · exact Run.throw hW' hE0' he
  | _ => exact Run.throw hW' hE0' he

theorem run_replEcho (hW : WF σ) {v : Val} (hs : Scal v = true) (hv : ValOK σ v) :
    Run (replEcho v) σ (ResE σ (fun _ _ => True) E) := by
  unfold replEcho
  cases v with
  | none => exact Run.pure hW (Ext.refl σ) trivial
  | chr c => exact run_emit hW _
  | str s => exact run_emit hW _
  | comp _ _ => simp [Scal] at hs
  | arr _ _ _ => simp [Scal] at hs
  | enum ty i =>
    dsimp only
    refine Run.ro hW (Ext.refl σ) (ro_outputText hW rfl hv) fun o _ => ?_
    cases o with
    | none => exact Run.pure hW (Ext.refl σ) trivial
    | some s => exact run_emit hW _
  | ptr ty tgt =>
    dsimp only
    cases tgt with
    | none => exact run_emit hW _
    | some l =>
      dsimp only
      refine Run.ro hW (Ext.refl σ) (ro_isLive l.act) fun b _ => ?_
      split <;> exact run_emit hW _
  | _ =>
    dsimp only
    refine Run.ro hW (Ext.refl σ) (ro_outputText hW rfl trivial) fun o _ => ?_
    cases o with
    | none => exact Run.pure hW (Ext.refl σ) trivial
    | some s => exact run_emit hW _

end helpers

/-! ### name lookup -/

theorem StackOK.find_mem {σ : St} {acts : List Act} {b : Act} (h : StackOK σ acts) (hb : b ∈ acts) :
    acts.find? (·.id == b.id) = some b := by
  induction acts with
  | nil => cases hb
  | cons c rest ih =>
    rcases List.mem_cons.1 hb with rfl | hb
    · simp [List.find?]
    · have : (c.id == b.id) = false := by
        have := h.2.1 b hb
        simpa using fun e => this e.symm
      rw [List.find?, this]
      exact ih h.2.2 hb

/-- the target of an alias slot of any activation of a well-formed stack is readable in the whole stack -/
theorem StackOK.alias_reads {σ : St} {acts : List Act} {b : Act} {s : Slot} {l : Loc} (h : StackOK σ acts) (hb : b ∈ acts)
    (hs : s ∈ b.vars) (hr : s.ref = some l) : ∃ v, ReadsIn acts l v ∧ Scal v = true ∧ v.ty = s.ty := by
  induction acts with
  | nil => cases hb
  | cons c rest ih =>
    rcases List.mem_cons.1 hb with rfl | hb
    · have := h.1.vars s hs
      unfold SlotOK at this; rw [hr] at this
      obtain ⟨_, v, hv, h1, h2⟩ := this
      exact ⟨v, hv.weaken h.2.1, h1, h2⟩
    · obtain ⟨v, hv, h1, h2⟩ := ih h.2.2 hb
      exact ⟨v, hv.weaken h.2.1, h1, h2⟩

/-- the location that a variable name denotes: readable, and holds a scalar of the slot's declared type -/
theorem var_tyloc {σ : St} (hW : WF σ) {b : Act} (hb : b ∈ σ.acts) {n : Str} {s : Slot}
    (hs : findSlot b.vars n = some s) :
    TyLoc σ (match s.ref with | some l => l | none => { act := b.id, isArr := false, name := s.name, path := [] }) s.ty := by
  have hsm := findSlot_mem hs
  cases hr : s.ref with
  | some l => exact StackOK.alias_reads hW.stack hb hsm hr
  | none =>
    dsimp only
    obtain ⟨d, hd⟩ := hW.memOK hb
    have hso := hd.vars s hsm
    unfold SlotOK at hso; rw [hr] at hso
    refine ⟨s.val, ⟨b, s, hW.stack.find_mem hb, ?_, getPath_nil _⟩, hso.1, hso.2.1⟩
    unfold slotOf
    simp only [Bool.false_eq_true, if_false]
    rw [findSlot_name hs]; exact hs

/-- the location that an array name denotes: readable, holds a well-formed array of the slot's element type -/
theorem arr_holder {σ : St} (hW : WF σ) {b : Act} (hb : b ∈ σ.acts) {n : Str} {s : Slot}
    (hs : findSlot b.arrs n = some s) :
    ReadsIn σ.acts { act := b.id, isArr := true, name := s.name, path := [] } s.val ∧ ArrOK σ s.ty s.val := by
  have hsm := findSlot_mem hs
  obtain ⟨d, hd⟩ := hW.memOK hb
  refine ⟨⟨b, s, hW.stack.find_mem hb, ?_, getPath_nil _⟩, hd.arrs s hsm⟩
  unfold slotOf
  simp only [if_true]
  rw [findSlot_name hs]; exact hs

/-- what the invariant says about the value a scalar holder points to -/
theorem HolderOK.cell {σ : St} (hW : WF σ) {h : Holder} (hh : HolderOK σ h) (harr : ¬ h.isArr = true) :
    ∃ v, ReadsIn σ.acts h.loc v ∧ CellOK σ h.ty v := by
  obtain ⟨v, hr, hk⟩ := hh
  rw [if_neg harr] at hk
  exact ⟨v, hr, hk.1, hk.2, hW.reads_ok hr hk.1⟩

theorem HolderOK.arr {σ : St} (hW : WF σ) {h : Holder} (hh : HolderOK σ h) (harr : h.isArr = true) :
    ∃ v, ReadsIn σ.acts h.loc v ∧ ArrOK σ h.ty v := by
  obtain ⟨v, hr, hk⟩ := hh
  rw [if_pos harr] at hk
  exact ⟨v, hr, hW.reads_arr hr hk⟩

theorem TyLoc.holder {σ : St} {l : Loc} {ty : Ty} {nm : Str} (h : TyLoc σ l ty) :
    HolderOK σ { loc := l, isArr := false, ty := ty, name := nm } := by
  obtain ⟨v, hr, hs, ht⟩ := h
  exact ⟨v, hr, by simp [hs, ht]⟩

end Pseudo.NT
