import PseudoProofs.ReplLoopFile
import Properties.C12Survive
/-!
# Definitions and helper lemmas for `Properties/C12Loop.lean`
`replStart` / `finish` (what `repl` computes around the loop), `parsesOK` / `blockOf` (computable parsing of an entry),
`ParsesFile`, `SameProgramState`, facts on `fileOut` / `replOut` / `inputKept`.
-/
namespace Pseudo
open ReplLoop ReplSim C12Echo

/-- the start of a session -/
def replStart (cfg : Cfg) (fs : List (Str × FsNode)) (stdin : Str) : ReplSt :=
  { st := { St.init fs stdin cfg.pedantic true with stepLimit := cfg.stepLimit, depthLimit := cfg.depthLimit } }

/-- what `repl` reports for the final record `R` and the final state `s` (the files are closed: `closeAllSt`) -/
def finish (R : ReplSt) (s : St) : RunResult :=
  { out := (closeAllSt s).output, diags := R.diags.reverse, errLines := R.errLines.reverse,
    exitCode := if R.crash.isSome then 134 else 0, fs := (closeAllSt s).fs, stdinLeft := (closeAllSt s).stdin,
    inconclusive := R.inconclusive, crash := R.crash }

theorem repl_eq_finish (cfg : Cfg) (fs : List (Str × FsNode)) (stdin : Str) :
    repl cfg fs stdin = finish (replLoop cfg (stdin.length + 2) true (replStart cfg fs stdin))
      (replLoop cfg (stdin.length + 2) true (replStart cfg fs stdin)).st := rfl

theorem text_length_pos (e : Entry) : 1 ≤ e.text.length := by
  unfold Entry.text
  simp only [List.length_append, List.length_cons]
  omega

theorem texts_length : ∀ es : List Entry, es.length ≤ ((es.map Entry.text).flatten).length
  | [] => Nat.le_refl _
  | e :: es => by
    have h1 := text_length_pos e
    have h2 := texts_length es
    simp only [List.map_cons, List.flatten_cons, List.length_append, List.length_cons]
    omega

theorem inputOK_stdin_length (cfg : Cfg) : ∀ (es : List Entry) (first : Bool) (r : ReplSt), r.crash = none →
    inputOK cfg es first r = true → 1 ≤ es.length → 1 ≤ r.st.stdin.length
  | [], _, _, _, _, h => by cases h
  | e :: es, first, r, hc, hok, _ => by
    unfold inputOK at hok
    simp only [hc, Option.isSome_none, Bool.false_or, Bool.and_eq_true] at hok
    have := eq_append_drop_of_isPrefixOf hok.1.2
    have h1 := text_length_pos e
    rw [this, List.length_append]
    omega

theorem established_entry (cfg : Cfg) (first : Bool) (e : Entry) (st : St) (rest : Str) :
    C12.R st (runSource cfg e.src (entrySt first e st rest)).2 :=
  RPre.trans (C12.R_of_eq (σ := st) (σ' := entrySt first e st rest) rfl rfl rfl rfl)
    (runSource_rel2 C12.R_of_replFrame C12.runMain_ok cfg e.src _)

def Outcome.isOk : Outcome → Bool
  | .ok => true
  | _ => false

theorem Outcome.eq_ok_of_isOk {o : Outcome} (h : o.isOk = true) : o = .ok := by
  cases o <;> first | rfl | cases h

/-- a computable form of `Parses`: the entry lexes and parses without warnings -/
def parsesOK (cfg : Cfg) (e : Entry) : Bool :=
  match lex { pedantic := cfg.pedantic } e.src with
  | .ok toks => match parse { pedantic := cfg.pedantic } toks with
    | .ok (_, []) => true
    | _ => false
  | _ => false

/-- the block of the entry -/
def blockOf (cfg : Cfg) (e : Entry) : Block :=
  match lex { pedantic := cfg.pedantic } e.src with
  | .ok toks => match parse { pedantic := cfg.pedantic } toks with
    | .ok (b, _) => b
    | _ => []
  | _ => []

theorem parses_of_ok (cfg : Cfg) (e : Entry) (h : parsesOK cfg e = true) : Parses cfg e (blockOf cfg e) := by
  unfold parsesOK at h
  unfold blockOf Parses
  split at h
  · rename_i toks hl
    split at h
    · rename_i b hp
      exact ⟨toks, hl, by simp only [hp]⟩
    · cases h
  · cases h

theorem fileOut_append : ∀ (as : List (List Str)) (o : List Str), fileOut as o = fileOut as [] ++ o
  | [], o => rfl
  | a :: as, o => by
    unfold fileOut
    rw [fileOut_append as (a ++ o), fileOut_append as (a ++ []), List.append_nil, List.append_assoc]

/-- what a REPL session state and a file-mode state can agree on -/
structure SameProgramState (σ ψ : St) : Prop where
  acts : σ.acts = ψ.acts
  nextId : σ.nextId = ψ.nextId
  procs : σ.procs = ψ.procs
  funs : σ.funs = ψ.funs
  fs : σ.fs = ψ.fs
  handles : σ.handles = ψ.handles

/-- the chunks of the file run are among the chunks of the session (which has the prompts in addition) -/
theorem fileOut_sublist_replOut : ∀ (es : List Entry) (as : List (List Str)) (first : Bool) (o' o : List Str),
    as.length = es.length → o'.Sublist o → (fileOut as o').Sublist (replOut (es.zip as) first o)
  | [], [], _, _, _, _, h => h
  | [], _ :: _, _, _, _, hl, _ => by cases hl
  | _ :: _, [], _, _, _, hl, _ => by cases hl
  | e :: es, a :: as, first, o', o, hl, h => by
    simp only [List.zip_cons_cons, replOut, fileOut]
    refine fileOut_sublist_replOut es as false _ _ (by simpa using hl) ?_
    refine List.Sublist.append (List.Sublist.refl a) ?_
    refine List.Sublist.trans ?_ (List.sublist_append_right _ _)
    refine List.Sublist.cons _ ?_
    split
    · exact h
    · exact List.Sublist.cons _ h

theorem inputKept_end (cfg : Cfg) : ∀ (es : List Entry) (first : Bool) (r : ReplSt), r.st.stdinEof = false →
    inputKept cfg es first r = true → (session cfg es first r).st.stdinEof = false
  | [], _, _, h0, _ => h0
  | e :: es, first, r, h0, hk => by
    unfold inputKept at hk
    simp only [Bool.and_eq_true, Bool.not_eq_true', beq_iff_eq] at hk
    unfold session
    split
    · exact h0
    · exact inputKept_end cfg es false _ hk.1.2 hk.2

/-- the program text of a file lexes and parses (without warnings) to the block `b` -/
def ParsesFile (cfg : Cfg) (content : Str) (b : Block) : Prop :=
  ∃ toks, lex { pedantic := cfg.pedantic } (content ++ ['\n']) = .ok toks ∧ parse { pedantic := cfg.pedantic } toks = .ok (b, [])

theorem runFileOn_parses {cfg : Cfg} {content : Str} {b : Block} (h : ParsesFile cfg content b)
    (fs : List (Str × FsNode)) (stdin : Str) (eof : Bool) :
    runFileOn cfg content fs stdin eof =
      ((post (runOn cfg.fuel b { St.init fs stdin cfg.pedantic false with stdinEof := eof, stepLimit := cfg.stepLimit, depthLimit := cfg.depthLimit })).1,
       closeAllSt (post (runOn cfg.fuel b { St.init fs stdin cfg.pedantic false with stdinEof := eof, stepLimit := cfg.stepLimit, depthLimit := cfg.depthLimit })).2) := by
  obtain ⟨toks, hl, hp⟩ := h
  unfold runFileOn runSource
  simp only [hl, hp]
  rfl

end Pseudo
