import PseudoProofs.NoCrashDefs
import PseudoProofs.EvalInv2
/-!
# C01: the Hoare layer

`Run m σ Φ`: the outcome (result, final state) of `m` from `σ` satisfies `Φ`.
`ResE σ0 Q E`: the standard outcome predicate — the final state is well-formed and extends `σ0`; a value satisfies `Q`,
an exception satisfies `E` (`ErrOK`: not a crash point; `ErrNR`: moreover not the RETURN signal).
`RO m σ post`: `m` does not change the state and returns a value in `post` or raises a harmless exception.
`Tri P m Q`: from every well-formed state satisfying `P`, `Run m σ (Res σ (Q σ))`.
-/
namespace Pseudo.NC
open Pseudo

/-! ### kinds -/

theorem simple_arr_false (e : Ty) (d : List (Int × Int)) (c : List Val) : simple (.arr e d c) = false := rfl

theorem SameKind.refl (v : Val) : SameKind v v := Or.inl rfl

theorem SameKind.trans {a b c : Val} (h1 : SameKind a b) (h2 : SameKind b c) : SameKind a c := by
  rcases h1 with rfl | ⟨ha, hb, hty⟩ | ⟨ty, dims, cs, cs', rfl, rfl, hl, hc⟩
  · exact h2
  · rcases h2 with rfl | ⟨_, hc, hty2⟩ | ⟨ty, dims, cs, cs', rfl, _, _, _⟩
    · exact Or.inr (Or.inl ⟨ha, hb, hty⟩)
    · exact Or.inr (Or.inl ⟨ha, hc, hty2.trans hty⟩)
    · simp [simple] at hb
  · rcases h2 with rfl | ⟨hb, _, _⟩ | ⟨ty2, dims2, cs2, cs2', heq, rfl, hl2, hc2⟩
    · exact Or.inr (Or.inr ⟨ty, dims, cs, cs', rfl, rfl, hl, hc⟩)
    · simp [simple] at hb
    · cases heq
      exact Or.inr (Or.inr ⟨ty, dims, cs, cs2', rfl, rfl, hl2.trans hl, hc2⟩)

theorem SameKind.simp_ty {v v' : Val} (h : SameKind v v') (hv : simple v = true) : simple v' = true ∧ v'.ty = v.ty := by
  rcases h with rfl | ⟨_, hb, hty⟩ | ⟨ty, dims, cs, cs', rfl, _, _, _⟩
  · exact ⟨hv, rfl⟩
  · exact ⟨hb, hty⟩
  · simp [NC.simple] at hv

theorem SameKind.arrOK {v v' : Val} {ty : Ty} (h : SameKind v v') (hv : ArrOK ty v) : ArrOK ty v' := by
  obtain ⟨dims, cells, rfl, hlen, hc⟩ := hv
  rcases h with rfl | ⟨ha, _, _⟩ | ⟨ty2, dims2, cs, cs', heq, rfl, hl, hc2⟩
  · exact ⟨dims, cells, rfl, hlen, hc⟩
  · simp [NC.simple] at ha
  · cases heq
    exact ⟨dims, cs', rfl, hl.trans hlen, hc2⟩

theorem SameKind.of_simple {v v' : Val} (hv : simple v = true) (hv' : simple v' = true) (h : v'.ty = v.ty) : SameKind v v' :=
  Or.inr (Or.inl ⟨hv, hv', h⟩)

theorem SameKind.of_arrOK {v v' : Val} {ty : Ty} {dims : List (Int × Int)} {cs cs' : List Val}
    (hv : v = .arr ty dims cs) (hv' : v' = .arr ty dims cs') (hl : cs'.length = cs.length)
    (hc : ∀ c ∈ cs', simple c = true ∧ c.ty = ty) : SameKind v v' :=
  Or.inr (Or.inr ⟨ty, dims, cs, cs', hv, hv', hl, hc⟩)

/-! ### reading -/

/-- reading inside one activation -/
def ActRead (a : Act) (isArr : Bool) (name : Str) (path : List Step) (v : Val) : Prop :=
  ∃ s, findSlot (if isArr then a.arrs else a.vars) name = some s ∧ getPath s.val path = some v

theorem readsIn_iff {acts : List Act} {l : Loc} {v : Val} :
    ReadsIn acts l v ↔ ∃ a, acts.find? (·.id == l.act) = some a ∧ ActRead a l.isArr l.name l.path v := by
  unfold ReadsIn ActRead slotOf
  constructor
  · rintro ⟨a, s, h1, h2, h3⟩; exact ⟨a, h1, s, h2, h3⟩
  · rintro ⟨a, h1, s, h2, h3⟩; exact ⟨a, s, h1, h2, h3⟩

theorem ReadsIn.cons_ne {a : Act} {rest : List Act} {l : Loc} {v : Val} (h : a.id ≠ l.act) :
    ReadsIn (a :: rest) l v ↔ ReadsIn rest l v := by
  unfold ReadsIn
  have : (a.id == l.act) = false := by simpa using h
  simp [List.find?, this]

theorem ReadsIn.cons_eq {a : Act} {rest : List Act} {l : Loc} {v : Val} (h : a.id = l.act) :
    ReadsIn (a :: rest) l v ↔ ActRead a l.isArr l.name l.path v := by
  rw [readsIn_iff]
  have : (a.id == l.act) = true := by simpa using h
  simp [List.find?, this]

theorem ReadsIn.mem {acts : List Act} {l : Loc} {v : Val} (h : ReadsIn acts l v) : ∃ a ∈ acts, a.id = l.act := by
  obtain ⟨a, s, h1, _, _⟩ := h
  exact ⟨a, List.mem_of_find?_eq_some h1, by simpa using List.find?_some h1⟩

/-- a location of the callers is a location of the whole stack -/
theorem ReadsIn.weaken {a : Act} {rest : List Act} {l : Loc} {v : Val} (hd : ∀ b ∈ rest, b.id ≠ a.id)
    (h : ReadsIn rest l v) : ReadsIn (a :: rest) l v := by
  obtain ⟨b, hb, hid⟩ := h.mem
  have : a.id ≠ l.act := fun e => hd b hb (hid.trans e.symm)
  exact (ReadsIn.cons_ne this).2 h

/-! ### `Ext` -/

theorem Ext.refl (σ : St) : Ext σ σ := ⟨rfl, Nat.le_refl _, fun _ v h => ⟨v, h, SameKind.refl v⟩⟩

theorem Ext.trans {a b c : St} (h1 : Ext a b) (h2 : Ext b c) : Ext a c :=
  ⟨h2.ids.trans h1.ids, Nat.le_trans h1.nextId h2.nextId, fun l v h => by
    obtain ⟨v1, hr1, k1⟩ := h1.reads l v h
    obtain ⟨v2, hr2, k2⟩ := h2.reads l v1 hr1
    exact ⟨v2, hr2, k1.trans k2⟩⟩

/-- only the parts of the state outside the activation stack changed -/
theorem Ext.of_acts_eq {σ σ' : St} (ha : σ'.acts = σ.acts) (hn : σ'.nextId = σ.nextId) : Ext σ σ' :=
  ⟨by rw [ha], by rw [hn]; exact Nat.le_refl _, fun _ v h => ⟨v, by rw [ha]; exact h, SameKind.refl v⟩⟩

theorem WF.of_acts_eq {σ σ' : St} (h : WF σ) (ha : σ'.acts = σ.acts) (hn : σ'.nextId = σ.nextId)
    (hp : σ'.procs = σ.procs) (hf : σ'.funs = σ.funs) : WF σ' :=
  ⟨by rw [ha]; exact h.ne, by rw [ha]; exact h.stack, by rw [ha, hn]; exact h.below, by rw [hp]; exact h.procs,
   by rw [hf]; exact h.funs⟩

theorem Ext.length {σ σ' : St} (h : Ext σ σ') : σ'.acts.length = σ.acts.length := by
  have := congrArg List.length h.ids
  simpa using this

theorem HolderOK.ext {σ σ' : St} {h : Holder} (hE : Ext σ σ') (hh : HolderOK σ h) : HolderOK σ' h := by
  obtain ⟨v, hr, hk⟩ := hh
  obtain ⟨v', hr', k⟩ := hE.reads _ _ hr
  refine ⟨v', hr', ?_⟩
  split
  · rename_i harr; rw [if_pos harr] at hk; exact k.arrOK hk
  · rename_i harr; rw [if_neg harr] at hk
    obtain ⟨h1, h2⟩ := k.simp_ty hk.1
    exact ⟨h1, h2.trans hk.2⟩

/-- a readable location holding an INTEGER (the FOR iterator) -/
def IntLoc (σ : St) (l : Loc) : Prop := ∃ v, ReadsIn σ.acts l v ∧ simple v = true ∧ v.ty = .int

theorem IntLoc.ext {σ σ' : St} {l : Loc} (hE : Ext σ σ') (h : IntLoc σ l) : IntLoc σ' l := by
  obtain ⟨v, hr, hs, ht⟩ := h
  obtain ⟨v', hr', k⟩ := hE.reads _ _ hr
  obtain ⟨h1, h2⟩ := k.simp_ty hs
  exact ⟨v', hr', h1, h2.trans ht⟩

/-- a readable location holding a scalar of type `ty` -/
def TyLoc (σ : St) (l : Loc) (ty : Ty) : Prop := ∃ v, ReadsIn σ.acts l v ∧ simple v = true ∧ v.ty = ty

theorem TyLoc.ext {σ σ' : St} {l : Loc} {ty : Ty} (hE : Ext σ σ') (h : TyLoc σ l ty) : TyLoc σ' l ty := by
  obtain ⟨v, hr, hs, ht⟩ := h
  obtain ⟨v', hr', k⟩ := hE.reads _ _ hr
  obtain ⟨h1, h2⟩ := k.simp_ty hs
  exact ⟨v', hr', h1, h2.trans ht⟩

/-! ### the stack under an update of one activation -/

/-- what an update of an activation must keep: its id and flags, and every readable cell with its kind -/
structure ActKeep (a a' : Act) : Prop where
  id : a'.id = a.id
  isFn : a'.isFn = a.isFn
  reads : ∀ isArr name path v, ActRead a isArr name path v → ∃ v', ActRead a' isArr name path v' ∧ SameKind v v'

theorem ActKeep.refl (a : Act) : ActKeep a a := ⟨rfl, rfl, fun _ _ _ v h => ⟨v, h, SameKind.refl v⟩⟩

theorem updActs_map_id (acts : List Act) (id : Nat) (f : Act → Act) (hf : ∀ a, (f a).id = a.id ∧ (f a).isFn = a.isFn) :
    (updActs acts id f).map (fun a => (a.id, a.isFn)) = acts.map (fun a => (a.id, a.isFn)) := by
  induction acts with
  | nil => rfl
  | cons a rest ih =>
    unfold updActs
    split
    · simp [(hf a).1, (hf a).2]
    · simp [ih]

theorem mem_updActs {acts : List Act} {id : Nat} {f : Act → Act} {b : Act} (h : b ∈ updActs acts id f) :
    b ∈ acts ∨ ∃ a ∈ acts, a.id = id ∧ b = f a := by
  induction acts with
  | nil => simp [updActs] at h
  | cons a rest ih =>
    unfold updActs at h
    split at h
    · rename_i hid
      rcases List.mem_cons.1 h with rfl | h
      · exact Or.inr ⟨a, List.mem_cons_self, by simpa using hid, rfl⟩
      · exact Or.inl (List.mem_cons_of_mem _ h)
    · rcases List.mem_cons.1 h with rfl | h
      · exact Or.inl List.mem_cons_self
      · rcases ih h with h | ⟨a', ha', h1, h2⟩
        · exact Or.inl (List.mem_cons_of_mem _ h)
        · exact Or.inr ⟨a', List.mem_cons_of_mem _ ha', h1, h2⟩

/-- reading in the updated stack -/
theorem ReadsIn.upd {acts : List Act} {id : Nat} {f : Act → Act} (hk : ∀ a ∈ acts, a.id = id → ActKeep a (f a))
    {l : Loc} {v : Val} (h : ReadsIn acts l v) : ∃ v', ReadsIn (updActs acts id f) l v' ∧ SameKind v v' := by
  induction acts with
  | nil => obtain ⟨a, _, h1, _⟩ := h; simp at h1
  | cons a rest ih =>
    unfold updActs
    by_cases hid : a.id = l.act
    · have hr := (ReadsIn.cons_eq hid).1 h
      split
      · rename_i hupd
        have hk' := hk a List.mem_cons_self (by simpa using hupd)
        obtain ⟨v', hr', k⟩ := hk'.reads _ _ _ _ hr
        exact ⟨v', (ReadsIn.cons_eq (hk'.id.trans hid)).2 hr', k⟩
      · exact ⟨v, (ReadsIn.cons_eq hid).2 hr, SameKind.refl v⟩
    · have hr := (ReadsIn.cons_ne hid).1 h
      split
      · rename_i hupd
        have hk' := hk a List.mem_cons_self (by simpa using hupd)
        exact ⟨v, (ReadsIn.cons_ne (by rw [hk'.id]; exact hid)).2 hr, SameKind.refl v⟩
      · obtain ⟨v', hr', k⟩ := ih (fun b hb => hk b (List.mem_cons_of_mem _ hb)) hr
        exact ⟨v', (ReadsIn.cons_ne hid).2 hr', k⟩

theorem SlotOK.upd {acts : List Act} {id : Nat} {f : Act → Act} (hk : ∀ a ∈ acts, a.id = id → ActKeep a (f a))
    {s : Slot} (h : SlotOK acts s) : SlotOK (updActs acts id f) s := by
  unfold SlotOK at *
  split
  · rename_i hr; rw [hr] at h; exact h
  · rename_i l hr
    rw [hr] at h
    obtain ⟨hsv, v, hv, hs, ht⟩ := h
    obtain ⟨v', hv', k⟩ := ReadsIn.upd hk hv
    obtain ⟨h1, h2⟩ := k.simp_ty hs
    exact ⟨hsv, v', hv', h1, h2.trans ht⟩

theorem ActOK.upd_deeper {acts : List Act} {id : Nat} {f : Act → Act} (hk : ∀ a ∈ acts, a.id = id → ActKeep a (f a))
    {a : Act} (h : ActOK acts a) : ActOK (updActs acts id f) a :=
  ⟨fun s hs => (h.vars s hs).upd hk, h.arrs, h.enums, h.ptrs, h.comps, h.isComp, h.retVal⟩

/-- the stack stays well-formed when one activation is replaced by one that keeps its readable cells and is
    itself well-formed (relative to the same callers) -/
theorem StackOK.upd {acts : List Act} {id : Nat} {f : Act → Act} (h : StackOK acts)
    (hk : ∀ a ∈ acts, a.id = id → ActKeep a (f a))
    (hok : ∀ deeper a, a ∈ acts → a.id = id → ActOK deeper a → ActOK deeper (f a)) : StackOK (updActs acts id f) := by
  induction acts with
  | nil => exact h
  | cons a rest ih =>
    obtain ⟨ha, hd, hrest⟩ := h
    unfold updActs
    split
    · rename_i hupd
      have hid : a.id = id := by simpa using hupd
      refine ⟨hok rest a List.mem_cons_self hid ha, ?_, hrest⟩
      rw [(hk a List.mem_cons_self hid).id]; exact hd
    · have hk' : ∀ b ∈ rest, b.id = id → ActKeep b (f b) := fun b hb => hk b (List.mem_cons_of_mem _ hb)
      refine ⟨ha.upd_deeper hk', ?_, ih hrest hk' (fun d b hb => hok d b (List.mem_cons_of_mem _ hb))⟩
      intro b hb
      rcases mem_updActs hb with hb | ⟨b', hb', _, rfl⟩
      · exact hd b hb
      · rw [(hk' b' hb' ‹_›).id]; exact hd b' hb'

theorem updActs_ne_nil {acts : List Act} {id : Nat} {f : Act → Act} (h : acts ≠ []) : updActs acts id f ≠ [] := by
  cases acts with
  | nil => exact absurd rfl h
  | cons a rest => unfold updActs; split <;> simp

/-- `WF` and `Ext` for an update of one activation -/
theorem WF.updSt {σ : St} {id : Nat} {f : Act → Act} (h : WF σ)
    (hk : ∀ a ∈ σ.acts, a.id = id → ActKeep a (f a))
    (hok : ∀ deeper a, a ∈ σ.acts → a.id = id → ActOK deeper a → ActOK deeper (f a)) : WF (updSt σ id f) := by
  refine ⟨updActs_ne_nil h.ne, h.stack.upd hk hok, ?_, h.procs, h.funs⟩
  intro b hb
  rcases mem_updActs hb with hb | ⟨b', hb', hid, rfl⟩
  · exact h.below b hb
  · rw [(hk b' hb' hid).id]; exact h.below b' hb'

theorem updActs_map_of_keep {acts : List Act} {id : Nat} {f : Act → Act}
    (hk : ∀ a ∈ acts, a.id = id → ActKeep a (f a)) :
    (updActs acts id f).map (fun a => (a.id, a.isFn)) = acts.map (fun a => (a.id, a.isFn)) := by
  induction acts with
  | nil => rfl
  | cons a rest ih =>
    unfold updActs
    split
    · rename_i hupd
      have hk' := hk a List.mem_cons_self (by simpa using hupd)
      simp [hk'.id, hk'.isFn]
    · simp [ih (fun b hb => hk b (List.mem_cons_of_mem _ hb))]

theorem Ext.updSt {σ : St} {id : Nat} {f : Act → Act}
    (hk : ∀ a ∈ σ.acts, a.id = id → ActKeep a (f a)) : Ext σ (updSt σ id f) :=
  ⟨updActs_map_of_keep hk, Nat.le_refl _, fun _ _ h => ReadsIn.upd hk h⟩

/-! ### outcomes -/

/-- not a crash point and not the RETURN signal -/
def ErrNR (σ : St) (e : Stop) : Prop := ErrOK σ e ∧ e ≠ .ret

theorem ErrNR.ok {σ : St} {e : Stop} (h : ErrNR σ e) : ErrOK σ e := h.1

theorem errOK_diag (σ : St) (d : Diag) : ErrOK σ (.diag d) := ⟨fun _ h => (nomatch h), fun h => (nomatch h)⟩
theorem errNR_diag (σ : St) (d : Diag) : ErrNR σ (.diag d) := ⟨errOK_diag σ d, fun h => (nomatch h)⟩
theorem errOK_fuel (σ : St) : ErrOK σ .outOfFuel := ⟨fun _ h => (nomatch h), fun h => (nomatch h)⟩
theorem errNR_fuel (σ : St) : ErrNR σ .outOfFuel := ⟨errOK_fuel σ, fun h => (nomatch h)⟩
theorem errOK_brk (σ : St) (t : Tok) : ErrOK σ (.brk t) := ⟨fun _ h => (nomatch h), fun h => (nomatch h)⟩
theorem errOK_cont (σ : St) (t : Tok) : ErrOK σ (.cont t) := ⟨fun _ h => (nomatch h), fun h => (nomatch h)⟩

/-- `ErrOK` only looks at the top of the stack (its function flag) -/
theorem ErrOK.ext {σ σ' : St} {e : Stop} (hE : Ext σ σ') (h : ErrOK σ e) : ErrOK σ' e := by
  refine ⟨h.1, fun he => ?_⟩
  obtain ⟨a, rest, hacts, hfn⟩ := h.2 he
  have hids := hE.ids
  rw [hacts] at hids
  cases hσ' : σ'.acts with
  | nil => rw [hσ'] at hids; simp at hids
  | cons a' rest' =>
    rw [hσ'] at hids
    simp only [List.map_cons, List.cons.injEq, Prod.mk.injEq] at hids
    exact ⟨a', rest', rfl, hids.1.2.trans hfn⟩

/-- the outcome of `m` from `σ` satisfies `Φ` -/
def Run {α : Type} (m : M α) (σ : St) (Φ : Except Stop α → St → Prop) : Prop := Φ (m.run.run σ).1 (m.run.run σ).2

/-- the standard outcome predicate -/
def ResE {α : Type} (σ0 : St) (Q : α → St → Prop) (E : St → Stop → Prop) (r : Except Stop α) (σ' : St) : Prop :=
  WF σ' ∧ Ext σ0 σ' ∧ match r with | .ok a => Q a σ' | .error e => E σ' e

abbrev Res {α : Type} (σ0 : St) (Q : α → St → Prop) : Except Stop α → St → Prop := ResE σ0 Q ErrOK

/-- `m` leaves the state alone; it returns a value in `post` or raises a diagnostic-like exception -/
def RO {α : Type} (m : M α) (σ : St) (post : α → Prop) : Prop :=
  (m.run.run σ).2 = σ ∧ match (m.run.run σ).1 with | .ok a => post a | .error e => ErrNR σ e

/-- Hoare triple over the invariant -/
def Tri {α : Type} (P : St → Prop) (m : M α) (Q : St → α → St → Prop) : Prop :=
  ∀ σ, WF σ → P σ → Run m σ (Res σ (Q σ))

section combinators
variable {α β : Type} {σ0 σ : St} {E : St → Stop → Prop}

theorem Run.pure {a : α} {Q : α → St → Prop} (hW : WF σ) (hE : Ext σ0 σ) (h : Q a σ) :
    Run (Pure.pure a : M α) σ (ResE σ0 Q E) := ⟨hW, hE, h⟩

theorem Run.throw {e : Stop} {Q : α → St → Prop} (hW : WF σ) (hE : Ext σ0 σ) (h : E σ e) :
    Run (throw e : M α) σ (ResE σ0 Q E) := ⟨hW, hE, h⟩

theorem Run.mono {m : M α} {Φ Ψ : Except Stop α → St → Prop} (h : Run m σ Φ) (hi : ∀ r σ', Φ r σ' → Ψ r σ') :
    Run m σ Ψ := hi _ _ h

theorem ResE.weaken {Q Q' : α → St → Prop} {E' : St → Stop → Prop} {r : Except Stop α} {σ' : St}
    (h : ResE σ0 Q E r σ') (hQ : ∀ a, Q a σ' → Q' a σ') (hE : ∀ e, E σ' e → E' σ' e) : ResE σ0 Q' E' r σ' := by
  refine ⟨h.1, h.2.1, ?_⟩
  have := h.2.2
  cases r with
  | ok a => exact hQ a this
  | error e => exact hE e this

/-- sequencing after a state-changing step -/
theorem Run.bind {m : M α} {f : α → M β} {Qa : α → St → Prop} {Qb : β → St → Prop}
    (hE : Ext σ0 σ) (hm : Run m σ (ResE σ Qa E))
    (hk : ∀ a σ', WF σ' → Ext σ σ' → Ext σ0 σ' → Qa a σ' → Run (f a) σ' (ResE σ0 Qb E)) :
    Run (m >>= f) σ (ResE σ0 Qb E) := by
  unfold Run at *
  rcases h : m.run.run σ with ⟨e | a, σ'⟩
  · rw [run_bind_err m f σ σ' e h]
    rw [h] at hm
    exact ⟨hm.1, hE.trans hm.2.1, hm.2.2⟩
  · rw [run_bind_ok m f σ σ' a h]
    rw [h] at hm
    exact hk a σ' hm.1 hm.2.1 (hE.trans hm.2.1) hm.2.2

/-- sequencing after a read-only step -/
theorem Run.bind_ro {m : M α} {f : α → M β} {post : α → Prop} {Qb : β → St → Prop}
    (hW : WF σ) (hE : Ext σ0 σ) (hE' : ∀ e, ErrNR σ e → E σ e) (hm : RO m σ post)
    (hk : ∀ a, post a → Run (f a) σ (ResE σ0 Qb E)) : Run (m >>= f) σ (ResE σ0 Qb E) := by
  unfold Run RO at *
  rcases h : m.run.run σ with ⟨e | a, σ'⟩
  · rw [run_bind_err m f σ σ' e h]
    rw [h] at hm
    obtain ⟨rfl, hm⟩ := hm
    exact ⟨hW, hE, hE' e hm⟩
  · rw [run_bind_ok m f σ σ' a h]
    rw [h] at hm
    obtain ⟨rfl, hm⟩ := hm
    exact hk a hm

/-- a read-only step in tail position -/
theorem Run.of_ro {m : M α} {post : α → Prop} {Q : α → St → Prop}
    (hW : WF σ) (hE : Ext σ0 σ) (hE' : ∀ e, ErrNR σ e → E σ e) (hm : RO m σ post)
    (hk : ∀ a, post a → Q a σ) : Run m σ (ResE σ0 Q E) := by
  unfold Run RO at *
  rcases h : m.run.run σ with ⟨e | a, σ'⟩
  · rw [h] at hm; obtain ⟨rfl, hm⟩ := hm; exact ⟨hW, hE, hE' e hm⟩
  · rw [h] at hm; obtain ⟨rfl, hm⟩ := hm; exact ⟨hW, hE, hk a hm⟩

/-- a state-changing step in tail position -/
theorem Run.of_tri {m : M α} {Qa Q : α → St → Prop} (hE : Ext σ0 σ) (hm : Run m σ (ResE σ Qa E))
    (hk : ∀ a σ', WF σ' → Ext σ σ' → Qa a σ' → Q a σ') : Run m σ (ResE σ0 Q E) := by
  unfold Run at *
  obtain ⟨h1, h2, h3⟩ := hm
  refine ⟨h1, hE.trans h2, ?_⟩
  rcases h : (m.run.run σ).1 with e | a
  · rw [h] at h3; exact h3
  · rw [h] at h3; exact hk a _ h1 h2 h3

theorem Run.get_bind {f : St → M β} {Φ : Except Stop β → St → Prop} (h : Run (f σ) σ Φ) :
    Run ((MonadState.get : M St) >>= f) σ Φ := by
  unfold Run at *
  rw [run_bind_ok _ _ _ _ _ (run_get σ)]
  exact h

theorem Run.get_bind' {f : St → M β} {Φ : Except Stop β → St → Prop} (h : Run (f σ) σ Φ) :
    Run ((get : M St) >>= f) σ Φ := Run.get_bind h

/-- a handler: the body may raise anything in `E'`, the handler turns it into an outcome in `E` -/
theorem Run.tryCatch {m : M α} {hd : Stop → M α} {Q : α → St → Prop} {E' : St → Stop → Prop}
    (hE : Ext σ0 σ) (hm : Run m σ (ResE σ Q E'))
    (hh : ∀ e σ', WF σ' → Ext σ σ' → Ext σ0 σ' → E' σ' e → Run (hd e) σ' (ResE σ0 Q E)) :
    Run (tryCatch m hd) σ (ResE σ0 Q E) := by
  unfold Run at *
  rcases h : m.run.run σ with ⟨e | a, σ'⟩
  · rw [run_tryCatch_err m hd σ σ' e h]
    rw [h] at hm
    exact hh e σ' hm.1 hm.2.1 (hE.trans hm.2.1) hm.2.2
  · rw [run_tryCatch_ok m hd σ σ' a h]
    rw [h] at hm
    exact ⟨hm.1, hE.trans hm.2.1, hm.2.2⟩

theorem Run.ite {c : Prop} [Decidable c] {t e : M α} {Φ : Except Stop α → St → Prop}
    (ht : c → Run t σ Φ) (he : ¬ c → Run e σ Φ) : Run (if c then t else e) σ Φ := by
  split
  · exact ht ‹_›
  · exact he ‹_›

theorem Run.weakenE {m : M α} {Q : α → St → Prop} {E' : St → Stop → Prop} (h : Run m σ (ResE σ0 Q E))
    (hE : ∀ σ' e, E σ' e → E' σ' e) : Run m σ (ResE σ0 Q E') :=
  h.mono fun _ _ hr => hr.weaken (fun _ q => q) (hE _)

theorem Run.weakenQ {m : M α} {Q Q' : α → St → Prop} (h : Run m σ (ResE σ0 Q E))
    (hQ : ∀ a σ', WF σ' → Ext σ0 σ' → Q a σ' → Q' a σ') : Run m σ (ResE σ0 Q' E) := by
  unfold Run at *
  obtain ⟨h1, h2, h3⟩ := h
  refine ⟨h1, h2, ?_⟩
  rcases hr : (m.run.run σ).1 with e | a
  · rw [hr] at h3; exact h3
  · rw [hr] at h3; exact hQ a _ h1 h2 h3

end combinators

end Pseudo.NC
