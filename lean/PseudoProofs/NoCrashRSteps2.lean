import PseudoProofs.NoCrashRSpec
import PseudoProofs.NoCrashSteps2
/-!
# C01 with enum / pointer / record types, step lemmas, part 2: `evalIndices`, `resolveRef`, `evalExpr`, `execAssign`
(the port of `NoCrashTSteps2.lean` to the namespace `Pseudo.NR`)
-/
namespace Pseudo.NR
open Pseudo
open Pseudo.NC (ReadsIn ActRead ErrOK ErrNR NoCrash RO EOK errOK_diag errNR_diag errOK_fuel errNR_fuel errOK_brk errOK_cont
  getLast?_mem ro_findAct ro_isLive ro_rtErr ro_rtErr0 ro_pedErr ro_liftMsg ro_liftMsg0 ro_readLoc ro_locIsConst ro_filePre
  ro_writeText ro_get getPath_nil findSlot_name findSlot_mem lookupVarIn_some lookupArrIn_some lookupVarIn_none top_mem
  getPath_append)
variable {f : Nat}

theorem step_evalIndices (ih : AllTri f) : ∀ es dims acc, es.length = dims.length →
    Tri PT (evalIndices (f+1) es dims acc) (fun _ r _ => ∃ is', r = acc.reverse ++ is' ∧ InBoundsAll dims is') := by
  intro es dims acc hlen σ hW _
  cases es with
  | nil =>
    cases dims with
    | cons d ds => simp at hlen
    | nil =>
      rw [evalIndices.eq_def]
      exact Run.pure hW (Ext.refl σ) ⟨[], by simp, trivial⟩
  | cons e rest =>
    cases dims with
    | nil => simp at hlen
    | cons d ds =>
      rw [evalIndices.eq_def]
      dsimp only
      refine Run.bind (Ext.refl σ) (ih.evalExpr e σ hW trivial) fun v σ1 hW1 hE1 hE01 hv => ?_
      split
      · rename_i i d' ds' heq
        cases heq
        split
        · exact Run.rtErr hW1 hE01 _ _
        · rename_i hb
          have hb' : inBounds d i = true := by simpa using hb
          refine Run.of_tri hE01 (ih.evalIndices rest ds (i :: acc) (by simpa using hlen) σ1 hW1 trivial) ?_
          rintro r σ2 _ _ ⟨is', rfl, hin⟩
          exact ⟨i :: is', by simp, (NC.inBounds_iff d i).1 hb', hin⟩
      · rename_i heq; cases heq
      · exact Run.rtErr hW1 hE01 _ _

/-- `isLive` is read-only and returns whether an activation with that id is on the stack -/
theorem ro_isLive' {σ : St} (id : Nat) : RO (isLive id) σ (fun b => b = σ.acts.any (·.id == id)) := ⟨rfl, rfl⟩

theorem live_of_any {σ : St} {id : Nat} (h : σ.acts.any (·.id == id) = true) : Live σ id := by
  obtain ⟨a, ha, hid⟩ := List.any_eq_true.1 h
  exact ⟨a, ha, by simpa using hid⟩

/-- a member found with the flag `k` is an array iff `k` -/
theorem findField_isArr {fs : List (Str × Val)} {n : Str} {k : Bool} {fv : Val} (h : findField fs n k = some fv) :
    fv.isArr = k := by
  unfold findField at h
  obtain ⟨x, hx, rfl⟩ := Option.map_eq_some_iff.1 h
  have := List.find?_some hx
  simp only [Bool.and_eq_true, beq_iff_eq] at this
  exact this.2

/-- the kind of a record member, in the form that `HolderOK` wants -/
theorem member_kind (fv : Val) :
    if fv.isArr = true then ∃ d, kind fv = .arr (match fv with | .arr e _ _ => e | x => x.ty) d
    else kind fv = .val (match fv with | .arr e _ _ => e | x => x.ty) := by
  cases fv <;> simp [Val.isArr, kind]

theorem step_resolveRef (ih : AllTri f) : ∀ r, Tri PT (resolveRef (f+1) r) (fun _ h σ' => HolderOK σ' h) := by
  intro r σ hW _
  have hE0 := Ext.refl σ
  cases r with
  | var t =>
    rw [resolveRef.eq_def]; dsimp only
    refine Run.ro hW hE0 (ro_lookupVar hW t.val) fun res ⟨a, rest, g, ha, hg, hres⟩ => ?_
    have hamem : a ∈ σ.acts := top_mem ha
    have hgmem : g ∈ σ.acts := getLast?_mem hg
    cases res with
    | some p =>
      obtain ⟨b, s⟩ := p
      dsimp only
      obtain ⟨hb, hs⟩ := lookupVarIn_some hres.symm
      have hbmem : b ∈ σ.acts := by rcases hb with rfl | rfl <;> assumption
      have hty := var_tyloc hW hbmem hs
      cases hr : s.ref with
      | some l =>
        rw [hr] at hty
        obtain ⟨v, hv, h1⟩ := hty
        exact Run.pure hW hE0 ⟨v, hv, by simpa using h1⟩
      | none =>
        rw [hr] at hty
        obtain ⟨v, hv, h1⟩ := hty
        exact Run.pure hW hE0 ⟨v, hv, by simpa using h1⟩
    | none =>
      dsimp only
      refine Run.ro hW hE0 (ro_lookupArr hW t.val) fun res ⟨a', rest', g', ha', hg', hres'⟩ => ?_
      cases res with
      | some p =>
        obtain ⟨b, s⟩ := p
        dsimp only
        obtain ⟨hb, hs⟩ := lookupArrIn_some hres'.symm
        have hbmem : b ∈ σ.acts := by
          rcases hb with rfl | rfl
          · exact top_mem ha'
          · exact getLast?_mem hg'
        obtain ⟨hrd, hok⟩ := arr_holder hW hbmem hs
        exact Run.pure hW hE0 ⟨s.val, hrd, by simpa using hok.1⟩
      | none => exact Run.rtErr hW hE0 _ _
  | field t r m =>
    rw [resolveRef.eq_def]; dsimp only
    refine Run.bind hE0 (ih.resolveRef r σ hW trivial) fun h σ1 hW1 hE1 hE01 hh => ?_
    split
    · exact Run.rtErr hW1 hE01 _ _
    · rename_i harr
      obtain ⟨v, hv, hk⟩ := hh
      rw [if_neg harr] at hk
      refine Run.ro hW1 hE01 (ro_readLoc hv) fun v' hv' => ?_
      subst hv'
      split
      · rename_i n fs
        split
        · exact Run.rtErr hW1 hE01 _ _
        · rename_i k hmk
          split
          · exact Run.rtErr hW1 hE01 _ _
          · rename_i fv hfv
            obtain ⟨a, s, h1, h2, h3⟩ := hv
            refine Run.pure hW1 hE01 ⟨fv, ⟨a, s, h1, h2, ?_⟩, ?_⟩
            · show getPath s.val (h.loc.path ++ [Step.field m.val]) = some fv
              rw [getPath_append _ h3]
              exact getPath_cons_some.2 ⟨fv, by simp only [stepVal, hmk, hfv], getPath_nil _⟩
            · have := member_kind fv
              rw [findField_isArr hfv] at this
              exact this
      · exact Run.rtErr hW1 hE01 _ _
  | deref t r =>
    rw [resolveRef.eq_def]; dsimp only
    refine Run.bind hE0 (ih.resolveRef r σ hW trivial) fun h σ1 hW1 hE1 hE01 hh => ?_
    split
    · exact Run.rtErr hW1 hE01 _ _
    · rename_i harr
      obtain ⟨v, hv, hc⟩ := hh.cell hW1 harr
      refine Run.ro hW1 hE01 (ro_readLoc hv) fun v' hv' => ?_
      subst hv'
      split
      · rename_i pn tgt
        obtain ⟨tg, hlk, htgt⟩ := hc.2.root
        split
        · exact Run.rtErr hW1 hE01 _ _
        · rename_i l
          refine Run.ro hW1 hE01 (ro_isLive' l.act) fun b hb => ?_
          split
          · exact Run.rtErr hW1 hE01 _ _
          · rename_i hlive
            have hb' : σ1.acts.any (·.id == l.act) = true := by
              rw [← hb]; simpa using hlive
            obtain ⟨w, hr, hkw⟩ := (htgt l rfl).2 (live_of_any hb')
            refine Run.ro hW1 hE01 (ro_readLoc hr) fun tv htv => ?_
            subst htv
            have := kind_val_narr hkw
            exact Run.pure hW1 hE01 ⟨tv, hr, by simpa using kind_of_narr this.1⟩
      · exact Run.rtErr hW1 hE01 _ _
  | index t r idx =>
    rw [resolveRef.eq_def]; dsimp only
    refine Run.bind hE0 (ih.resolveRef r σ hW trivial) fun h σ1 hW1 hE1 hE01 hh => ?_
    split
    · exact Run.rtErr hW1 hE01 _ _
    · rename_i harr
      have harr' : h.isArr = true := by simpa using harr
      obtain ⟨v, hv, hk⟩ := hh.arr hW1 harr'
      obtain ⟨dims, cells, rfl, hlen, hcells⟩ := hk.cells
      refine Run.ro hW1 hE01 (ro_readLoc hv) fun v' hv' => ?_
      subst hv'
      dsimp only
      split
      · exact Run.rtErr hW1 hE01 _ _
      · rename_i hl
        have hl' : idx.length = dims.length := by simpa using hl
        refine Run.bind hE01 (ih.evalIndices idx dims [] hl' σ1 hW1 trivial) fun is σ2 hW2 hE2 hE02 his => ?_
        obtain ⟨is', his', hin⟩ := his
        have hisEq : is = is' := by simpa using his'
        subst hisEq
        obtain ⟨v2, hv2, k2⟩ := hE2.reads _ _ hv
        have hk2 : kind v2 = .arr h.ty dims := k2
        have harr2 : ArrOK σ2 h.ty v2 := ⟨⟨dims, hk2⟩, hW2.reads_good hv2⟩
        obtain ⟨dims', cs', rfl, hlen', hcells'⟩ := harr2.cells
        have hdd : dims' = dims := by simpa [kind] using hk2
        subst hdd
        have hlt : lin dims' is < cs'.length := by
          rw [hlen']; exact NC.lin_bound dims' is hin
        obtain ⟨a, s, h1, h2, h3⟩ := hv2
        have hc := hcells' _ (List.getElem_mem hlt)
        refine Run.pure hW2 hE02 ⟨cs'[lin dims' is], ⟨a, s, h1, h2, ?_⟩, by simpa using hc.1⟩
        show getPath s.val (h.loc.path ++ [Step.idx (lin dims' is)]) = _
        rw [getPath_append _ h3, NC.getPath_arr_cons, List.getElem?_eq_getElem hlt]
        exact getPath_nil _

end Pseudo.NR
