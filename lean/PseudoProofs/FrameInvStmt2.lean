import PseudoProofs.FrameInvSteps
import PseudoProofs.FrameInvLoad
/-!
# C04 frame theorem: `execStmt`, one lemma per statement form (part 2 of 3)
-/
namespace Pseudo.Frame
open Pseudo
variable {k f : Nat}
set_option linter.unusedVariables false

macro_rules | `(tactic| fr_safe) => `(tactic| exact noPtr_load (by assumption))

set_option maxHeartbeats 2000000 in
theorem step_execStmt_call (ih : AllF k f) (t name args : _) : EnsF k (NoPtr k) (execStmt (f+1) (.call t name args)) := by
  fr_fn execStmt

set_option maxHeartbeats 2000000 in
theorem step_execStmt_ret (ih : AllF k f) (t e : _) : EnsF k (NoPtr k) (execStmt (f+1) (.ret t e)) := by
  fr_fn execStmt

set_option maxHeartbeats 2000000 in
theorem step_execStmt_brk (ih : AllF k f) (t : _) : EnsF k (NoPtr k) (execStmt (f+1) (.brk t)) := by
  fr_fn execStmt

set_option maxHeartbeats 2000000 in
theorem step_execStmt_cont (ih : AllF k f) (t : _) : EnsF k (NoPtr k) (execStmt (f+1) (.cont t)) := by
  fr_fn execStmt

set_option maxHeartbeats 2000000 in
theorem step_execStmt_output (ih : AllF k f) (t es : _) : EnsF k (NoPtr k) (execStmt (f+1) (.output t es)) := by
  fr_fn execStmt

set_option maxHeartbeats 2000000 in
theorem step_execStmt_input (ih : AllF k f) (t r : _) : EnsF k (NoPtr k) (execStmt (f+1) (.input t r)) := by
  fr_fn execStmt

set_option maxHeartbeats 2000000 in
theorem step_execStmt_openFile (ih : AllF k f) (t fn mode : _) : EnsF k (NoPtr k) (execStmt (f+1) (.openFile t fn mode)) := by
  fr_fn execStmt

set_option maxHeartbeats 2000000 in
theorem step_execStmt_readFile (ih : AllF k f) (t fn id : _) : EnsF k (NoPtr k) (execStmt (f+1) (.readFile t fn id)) := by
  fr_fn execStmt

set_option maxHeartbeats 2000000 in
theorem step_execStmt_writeFile (ih : AllF k f) (t fn e : _) : EnsF k (NoPtr k) (execStmt (f+1) (.writeFile t fn e)) := by
  fr_fn execStmt

end Pseudo.Frame
