import PseudoProofs.ReplLoop
import PseudoProofs.ReplLoopSimAll
import Properties.C12ReplFile
/-!
# A REPL session against the same blocks run one after the other with one budget (`runEntries`)

`SameCore σ φ`: the states agree on everything but output chunks, `steps`, `depth`, the standard input.
`entry_vs_file`: one turn; `session_vs_entries`: a whole session.
-/
namespace Pseudo
namespace ReplLoop
open ReplSim

/-- agreement on activations (variables, types), procedures, functions, files, handles, flags and limits -/
def SameCore (σ φ : St) : Prop := ∀ p : Priv, σ.wth p = φ.wth p

theorem SameCore.refl (σ : St) : SameCore σ σ := fun _ => rfl
theorem SameCore.symm {σ φ : St} (h : SameCore σ φ) : SameCore φ σ := fun p => (h p).symm
theorem SameCore.trans {σ φ ψ : St} (h1 : SameCore σ φ) (h2 : SameCore φ ψ) : SameCore σ ψ := fun p => (h1 p).trans (h2 p)
theorem SameCore.wth (τ : St) (p q : Priv) : SameCore (τ.wth p) (τ.wth q) := fun _ => rfl
theorem SameCore.eq_wth {σ φ : St} (h : SameCore σ φ) : σ = φ.wth (privOf σ) := h (privOf σ)

def zeroPriv : Priv := ⟨[], 0, 0, [], false⟩
theorem SameCore.acts {σ φ : St} (h : SameCore σ φ) : σ.acts = φ.acts := by have := congrArg St.acts (h zeroPriv); exact this
theorem SameCore.nextId {σ φ : St} (h : SameCore σ φ) : σ.nextId = φ.nextId := by have := congrArg St.nextId (h zeroPriv); exact this
theorem SameCore.procs {σ φ : St} (h : SameCore σ φ) : σ.procs = φ.procs := by have := congrArg St.procs (h zeroPriv); exact this
theorem SameCore.funs {σ φ : St} (h : SameCore σ φ) : σ.funs = φ.funs := by have := congrArg St.funs (h zeroPriv); exact this
theorem SameCore.fs {σ φ : St} (h : SameCore σ φ) : σ.fs = φ.fs := by have := congrArg St.fs (h zeroPriv); exact this
theorem SameCore.handles {σ φ : St} (h : SameCore σ φ) : σ.handles = φ.handles := by have := congrArg St.handles (h zeroPriv); exact this
theorem SameCore.repl {σ φ : St} (h : SameCore σ φ) : σ.repl = φ.repl := by have := congrArg St.repl (h zeroPriv); exact this
theorem SameCore.pedantic {σ φ : St} (h : SameCore σ φ) : σ.pedantic = φ.pedantic := by have := congrArg St.pedantic (h zeroPriv); exact this
theorem SameCore.stepLimit {σ φ : St} (h : SameCore σ φ) : σ.stepLimit = φ.stepLimit := by have := congrArg St.stepLimit (h zeroPriv); exact this
theorem SameCore.depthLimit {σ φ : St} (h : SameCore σ φ) : σ.depthLimit = φ.depthLimit := by have := congrArg St.depthLimit (h zeroPriv); exact this

theorem SameCore.entrySt (first : Bool) (e : Entry) (st : St) (rest : Str) : SameCore (entrySt first e st rest) st :=
  fun _ => rfl

/-- the entry text lexes and parses (without warnings) to the block `b` -/
def Parses (cfg : Cfg) (e : Entry) (b : Block) : Prop :=
  ∃ toks, lex { pedantic := cfg.pedantic } e.src = .ok toks ∧ parse { pedantic := cfg.pedantic } toks = .ok (b, [])

/-- what `runSource` does to the result of `runOn` -/
def post : Outcome × St → Outcome × St
  | (.diag d, s) => (.diag d, { s with out := ['\n'] :: s.out })
  | r => r

theorem runSource_parses {cfg : Cfg} {e : Entry} {b : Block} (h : Parses cfg e b) (st : St) :
    runSource cfg e.src st = post (runOn cfg.fuel b st) := by
  obtain ⟨toks, hl, hp⟩ := h
  unfold runSource
  rw [hl]
  simp only [hp]
  show (match runOn cfg.fuel b st with | (.diag d, s) => _ | r => r) = _
  unfold post
  rfl

theorem post_stdin (x : Outcome × St) : (post x).2.stdin = x.2.stdin ∧ (post x).2.stdinEof = x.2.stdinEof := by
  rcases x with ⟨o, s⟩
  cases o <;> exact ⟨rfl, rfl⟩

theorem outcomeOf_ok {r : Except Stop Unit} (h : outcomeOf r = .ok) : r = .ok () := by
  rcases r with e | ⟨⟨⟩⟩
  · cases e <;> cases h
  · rfl

theorem outcomeOf_budget {r : Except Stop Unit} {d : Diag} (h : r = .error (.diag d)) : outcomeOf r = .diag d := by
  subst h; rfl

/-- **one turn against the file run.** The block `b` of the entry is run in the REPL from `ρ` (counters just reset,
    input not at its end) and in the file run from `φ` (same core, at least as many steps counted and calls open). If
    the file side ends with outcome `o` — normally, or with a diagnostic other than the budget one, or at a crash point —
    and the REPL side ends with the standard input as it was, the REPL side ends with the same outcome, in a state with
    the same core, and both have appended the same output chunks `a`. -/
theorem block_vs_file (f : Nat) (b : Block) (ρ φ φ1 : St) (o : Outcome) (hcore : SameCore ρ φ) (heof : ρ.stdinEof = false)
    (hs : ρ.steps ≤ φ.steps) (hd : ρ.depth ≤ φ.depth)
    (hfile : runOn f b φ = (o, φ1)) (hnb : ∀ d, o = .diag d → isBudget d = false)
    (hkept : (runOn f b ρ).2.stdin = ρ.stdin ∧ (runOn f b ρ).2.stdinEof = false) :
    ∃ (a : List Str) (s : St), runOn f b ρ = (o, s) ∧ SameCore s φ1 ∧ s.out = a ++ ρ.out ∧ φ1.out = a ++ φ.out ∧
      s.steps ≤ φ1.steps ∧ s.stdin = ρ.stdin ∧ s.stdinEof = false ∧ φ1.stdin = φ.stdin ∧ φ1.stdinEof = φ.stdinEof := by
  rw [runOn_eq] at hfile hkept ⊢
  dsimp only at hkept
  have hρ : ρ = φ.wth (privOf ρ) := hcore.eq_wth
  have hφ : φ = φ.wth (privOf φ) := rfl
  have hR : Rel (privOf ρ) (privOf φ) := ⟨hs, hd, .inl heof⟩
  have halt := ((lsim_runMain f b).run φ (privOf ρ) (privOf φ)).alt hR
  cases halt with
  | budget d σ' hf hdm _ =>
    exfalso
    rw [← hφ] at hf
    rw [hf] at hfile
    have ho : o = .diag d := (congrArg Prod.fst hfile).symm
    have := hnb d ho
    unfold isBudget at this
    rw [hdm] at this
    exact absurd this (by decide)
  | reads hlt =>
    exfalso
    rw [← hρ] at hlt
    have h1 : muSt ((runMain f b).run.run ρ).2 = ρ.stdin.length + 1 := by
      unfold muSt mu privOf
      simp only [hkept.1, hkept.2, Bool.false_eq_true, if_false]
    have h2 : mu (privOf ρ) = ρ.stdin.length + 1 := by
      unfold mu privOf
      simp only [heof, Bool.false_eq_true, if_false]
    omega
  | same r τ' a k1 k2 d1 d2 hk hd' hr hf =>
    rw [← hφ] at hf
    rw [← hρ] at hr
    rw [hf] at hfile
    have hro : outcomeOf r = o := congrArg Prod.fst hfile
    have hφ1 : φ1 = τ'.wth { privOf φ with out := a ++ (privOf φ).out, steps := k2, depth := d2 } := (congrArg Prod.snd hfile).symm
    refine ⟨a, τ'.wth { privOf ρ with out := a ++ (privOf ρ).out, steps := k1, depth := d1 }, by rw [hr, ← hro], ?_, rfl, ?_, ?_,
      rfl, heof, ?_, ?_⟩
    · rw [hφ1]; exact SameCore.wth _ _ _
    · rw [hφ1]; rfl
    · rw [hφ1]; exact hk
    · rw [hφ1]; rfl
    · rw [hφ1]; rfl

/-- the output chunks of the REPL session: per entry the prompt (with the record separator after the first turn), the
    continuation prompts, the chunks `a` of the entry (newest first) -/
def replOut : List (Entry × List Str) → Bool → List Str → List Str
  | [], _, o => o
  | (e, a) :: rest, first, o => replOut rest false (a ++ (e.dots ++ "> ".toList :: (if first then o else marker :: o)))

/-- the output chunks of the file run: the chunks of the entries, nothing in between -/
def fileOut : List (List Str) → List Str → List Str
  | [], o => o
  | a :: rest, o => fileOut rest (a ++ o)

/-- every turn leaves the standard input as the loop expects it: not at its end, the text of the next entry in front,
    and after the entry has run exactly the rest (the entry has not read from the standard input) -/
def inputKept (cfg : Cfg) : List Entry → Bool → ReplSt → Bool
  | [], _, _ => true
  | e :: es, first, r =>
    !r.st.stdinEof && e.text.isPrefixOf r.st.stdin &&
      ((step cfg first e r (r.st.stdin.drop e.text.length)).st.stdin == r.st.stdin.drop e.text.length) &&
      !(step cfg first e r (r.st.stdin.drop e.text.length)).st.stdinEof &&
      inputKept cfg es false (step cfg first e r (r.st.stdin.drop e.text.length))

theorem inputOK_of_kept (cfg : Cfg) : ∀ (es : List Entry) (first : Bool) (r : ReplSt), inputKept cfg es first r = true →
    inputOK cfg es first r = true
  | [], _, _, _ => rfl
  | e :: es, first, r, h => by
    unfold inputKept at h
    unfold inputOK
    simp only [Bool.and_eq_true, Bool.not_eq_true', beq_iff_eq] at h
    obtain ⟨⟨⟨⟨h1, h2⟩, _⟩, _⟩, h5⟩ := h
    simp [h1, h2, inputOK_of_kept cfg es false _ h5]

/-- **a whole session against `runEntries`.** -/
theorem session_vs_entries (cfg : Cfg) : ∀ (ebs : List (Entry × Block)) (first : Bool) (r : ReplSt) (φ φ' : St),
    (∀ eb ∈ ebs, Parses cfg eb.1 eb.2) → r.crash = none → SameCore r.st φ →
    inputKept cfg (ebs.map (·.1)) first r = true →
    runEntries cfg.fuel (ebs.map (·.2)) φ = (.ok, φ') →
    ∃ as : List (List Str), as.length = ebs.length ∧
      (session cfg (ebs.map (·.1)) first r) = { r with st := (session cfg (ebs.map (·.1)) first r).st } ∧
      SameCore (session cfg (ebs.map (·.1)) first r).st φ' ∧
      (session cfg (ebs.map (·.1)) first r).st.out = replOut ((ebs.map (·.1)).zip as) first r.st.out ∧
      φ'.out = fileOut as φ.out ∧ φ'.stdin = φ.stdin ∧ φ'.stdinEof = φ.stdinEof
  | [], first, r, φ, φ', _, _, hcore, _, hfile => by
    simp only [List.map_nil, runEntries] at hfile
    cases hfile
    exact ⟨[], rfl, rfl, hcore, rfl, rfl, rfl, rfl⟩
  | (e, b) :: ebs, first, r, φ, φ', hp, hc, hcore, hk, hfile => by
    simp only [List.map_cons] at hk hfile ⊢
    unfold inputKept at hk
    simp only [Bool.and_eq_true, Bool.not_eq_true', beq_iff_eq] at hk
    obtain ⟨⟨⟨⟨heof, _⟩, hst⟩, heof'⟩, hrest⟩ := hk
    unfold runEntries at hfile
    rcases hf1 : runOn cfg.fuel b φ with ⟨o1, φ1⟩
    rw [hf1] at hfile
    have ho1 : o1 = .ok := by
      cases o1 <;> first | rfl | (simp only at hfile; cases hfile)
    subst ho1
    simp only at hfile
    have hpe : Parses cfg e b := hp (e, b) List.mem_cons_self
    generalize hrest' : r.st.stdin.drop e.text.length = rest at hst heof' hrest
    -- the REPL turn
    have hstep : step cfg first e r rest = record r (post (runOn cfg.fuel b (entrySt first e r.st rest))) := by
      unfold step; rw [runSource_parses hpe]
    have hkept : (runOn cfg.fuel b (entrySt first e r.st rest)).2.stdin = (entrySt first e r.st rest).stdin ∧
        (runOn cfg.fuel b (entrySt first e r.st rest)).2.stdinEof = false := by
      have h1 := post_stdin (runOn cfg.fuel b (entrySt first e r.st rest))
      rw [hstep, record_st] at hst heof'
      exact ⟨h1.1 ▸ hst, h1.2 ▸ heof'⟩
    obtain ⟨a, s, hrun, hcore1, hout, hfout, _, _, _, hfin, hfeof⟩ :=
      block_vs_file cfg.fuel b (entrySt first e r.st rest) φ φ1 .ok
        ((SameCore.entrySt first e r.st rest).trans hcore) heof (Nat.zero_le _) (Nat.zero_le _) hf1 (fun _ h => nomatch h) hkept
    have hstep' : step cfg first e r rest = { r with st := s } := by
      rw [hstep, hrun]; rfl
    have hcr : r.crash.isSome = false := by rw [hc]; rfl
    unfold session
    simp only [hcr, Bool.false_eq_true, if_false, hrest']
    rw [hstep'] at hrest ⊢
    obtain ⟨as, hlen, hrec, hcoreN, houtN, hfoutN, hfinN, hfeofN⟩ :=
      session_vs_entries cfg ebs false { r with st := s } φ1 φ'
        (fun eb h => hp eb (List.mem_cons_of_mem _ h)) hc hcore1 hrest hfile
    refine ⟨a :: as, by simp [hlen], ?_, hcoreN, ?_, ?_, hfinN.trans hfin, hfeofN.trans hfeof⟩
    · rw [hrec]
    · rw [houtN, hout]
      simp only [List.zip_cons_cons, replOut]
      rfl
    · rw [hfoutN, hfout]; rfl

end ReplLoop
end Pseudo
