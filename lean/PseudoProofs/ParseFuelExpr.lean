import PseudoProofs.ParseFuelCalc
/-!
# PseudoProofs.ParseFuelExpr — fuel bounds of the nine mutually recursive expression parsers
-/
namespace Pseudo.ParseFuel
open Pseudo

/-- success leaves a shorter input -/
@[reducible] def PostLt {α} (s : PState) : α → PState → Prop :=
  fun _ s' => EndsEOF s'.toks ∧ s'.toks.length < s.toks.length
/-- success does not leave a longer input -/
@[reducible] def PostLe {α} (s : PState) : α → PState → Prop :=
  fun _ s' => EndsEOF s'.toks ∧ s'.toks.length ≤ s.toks.length
/-- success does not leave a longer input, and a shorter one if it started at a token other than the end marker -/
@[reducible] def PostRef {α} (s : PState) : α → PState → Prop :=
  fun _ s' => EndsEOF s'.toks ∧ s'.toks.length ≤ s.toks.length ∧
    ((curT s).k ≠ .EXPRESSION_END → s'.toks.length < s.toks.length)

/-- the constant of `parseLevel k` -/
def bLevel (k : Nat) : Nat := 5 + (6 - k)

structure ExprFuel (cfg : PCfg) (f : Nat) : Prop where
  level : ∀ {k s}, EndsEOF s.toks → 12 * s.toks.length + bLevel k ≤ f → Safe (parseLevel cfg f k) s (PostLt s)
  loop : ∀ {k l s}, EndsEOF s.toks → 12 * s.toks.length + bLevel k ≤ f + 1 → Safe (loopLevel cfg f k l) s (PostLe s)
  factor : ∀ {s}, EndsEOF s.toks → 12 * s.toks.length + 4 ≤ f → Safe (parseFactor cfg f) s (PostLt s)
  args : ∀ {acc s}, EndsEOF s.toks → 12 * s.toks.length + 12 ≤ f → Safe (parseArgs cfg f acc) s (PostLt s)
  callArgs : ∀ {s}, EndsEOF s.toks → 12 * s.toks.length + 13 ≤ f → Safe (parseCallArgs cfg f) s (PostLt s)
  atom : ∀ {s}, EndsEOF s.toks → 12 * s.toks.length + 3 ≤ f → Safe (parseAtom cfg f) s (PostLt s)
  indices : ∀ {acc s}, EndsEOF s.toks → 12 * s.toks.length + 8 ≤ f → Safe (parseIndices cfg f acc) s (PostLt s)
  ref : ∀ {s}, EndsEOF s.toks → 12 * s.toks.length + 2 ≤ f → Safe (parseRef cfg f) s (PostRef s)
  refLoop : ∀ {r s}, EndsEOF s.toks → 12 * s.toks.length + 1 ≤ f → Safe (refLoop cfg f r) s (PostLe s)

/-- use a fuel bound of a callee: the side condition on the fuel by `omega` -/
syntax "pcall" term : tactic
macro_rules
  | `(tactic| pcall $h) => `(tactic|
      (refine Safe.mono ($h (by assumption) (by (try simp only [bLevel] at *); omega)) ?_
       rintro _ _ ⟨_, _⟩))

/-- the same for `parseRef` -/
syntax "pcallRef" term : tactic
macro_rules
  | `(tactic| pcallRef $h) => `(tactic|
      (refine Safe.mono ($h (by assumption) (by (try simp only [bLevel] at *); omega)) ?_
       rintro _ _ ⟨_, _, himp⟩
       first | (have := himp (by kindfact); clear himp) | clear himp))

/-- all steps -/
syntax "pauto" "[" term,* "]" "[" term,* "]" : tactic
macro_rules
  | `(tactic| pauto [$hs,*] [$rs,*]) => do
    let alts ← hs.getElems.mapM fun h => `(tactic| pcall $h)
    let ralts ← rs.getElems.mapM fun h => `(tactic| pcallRef $h)
    `(tactic| repeat' (first
      | pstep
      | (first $[| $alts:tactic]*)
      | (first $[| $ralts:tactic]* | fail)
      | ((with_reducible refine Safe.throw ?_); exact parseLiteral?_err (by assumption))
      | split))

theorem exprFuel (cfg : PCfg) : ∀ f, ExprFuel cfg f
  | 0 => by
    constructor <;> intros <;> (try simp only [bLevel] at *) <;> omega
  | f + 1 => by
    obtain ⟨h1, h2, h3, h4, h5, h6, h7, h8, h9⟩ := exprFuel cfg f
    constructor
    · intro k s he hf
      rw [parseLevel]
      pauto [h1, h2, h3] []
    · intro k l s he hf
      rw [loopLevel]
      pauto [h1, h2] []
    · intro s he hf
      rw [parseFactor]
      pauto [h6] []
    · intro acc s he hf
      rw [parseArgs]
      pauto [h1, h4] []
    · intro s he hf
      rw [parseCallArgs]
      pauto [h4] []
    · intro s he hf
      rw [parseAtom]
      pauto [h1, h5] [h8]
    · intro acc s he hf
      rw [parseIndices]
      pauto [h1, h7] []
    · intro s he hf
      rw [parseRef]
      by_cases hc : (curT s).k = .EXPRESSION_END
      · pauto [h9] []
        exact ⟨by assumption, by omega, fun h => absurd hc h⟩
      · pauto [h9] []
    · intro r s he hf
      rw [refLoop]
      pauto [h7, h9] []

end Pseudo.ParseFuel
