import PseudoProofs.ArrayFieldLemmas
/-!
# `DECLARE r : T` for a record type whose members are arrays (helper lemmas for `Properties/C06Fields.lean`, part 5)

* `ArrBody pre body slots n`: the block `body` consists of statements `DECLARE a₁, … : ARRAY[l:u, …] OF <primitive type>`
  with integer literals as bounds, none of the names already among the array slots declared before (`pre`, then the
  earlier statements); `slots` are the array slots the block creates, in order; `n` is a fuel that suffices;
* `run_runBlock_arrBody`: running such a block in an activation appends exactly these slots;
* type lookups on a top-level state (`σ.acts = [g]`, `g` not a record context): `run_lookupList_top`,
  `run_getType_comp_top`;
* `run_defaultVal_arrBody`: the default value of a record type with such a body; `run_declare_record`: the statement
  `DECLARE r : T`;
* member lookup in a record value made of array slots: `memberKind_slots`, `findField_slots`.
-/
namespace Pseudo

namespace ArrayFieldLemmas

open ArrayLemmas C07Copy CallLemmas RecordLemmas

/-- the block declares array members only (see the module comment) -/
inductive ArrBody : List Slot → Block → List Slot → Nat → Prop
  | nil (pre : List Slot) : ArrBody pre [] [] 1
  | cons (pre : List Slot) (t tyTok : Tok) (ids : List Tok) (bounds : List (Expr × Expr)) (dims : List (Int × Int))
      (rest : Block) (slots : List Slot) (n : Nat) :
      tyTok.k = .DATA_TYPE → LitBounds bounds dims → totalCells dims ≤ 1000000 →
      (∀ id ∈ ids, findSlot pre id.val = none) →
      ArrBody (pre ++ ids.map fun id => newArrSlot (dataTy tyTok.val) dims id.val) rest slots n →
      ArrBody pre (.declareArr t ids tyTok bounds :: rest)
        ((ids.map fun id => newArrSlot (dataTy tyTok.val) dims id.val) ++ slots)
        (max n (bounds.length + ids.length + totalCells dims + 5) + 1)

/-- every slot such a block creates holds a well-formed array of default values -/
theorem ArrBody.slots_spec {pre : List Slot} {body : Block} {slots : List Slot} {n : Nat} (h : ArrBody pre body slots n) :
    ∀ s ∈ slots, ∃ ty dims, s = newArrSlot ty dims s.name := by
  induction h with
  | nil => intro s hs; cases hs
  | cons pre t tyTok ids bounds dims rest slots n _ _ _ _ _ ih =>
    intro s hs
    rcases List.mem_append.mp hs with hs | hs
    · obtain ⟨id, _, rfl⟩ := List.mem_map.mp hs
      exact ⟨_, _, rfl⟩
    · exact ih s hs

theorem ArrBody.length_le {pre : List Slot} {body : Block} {slots : List Slot} {n : Nat} (h : ArrBody pre body slots n) :
    body.length + 1 ≤ n := by
  induction h with
  | nil => simp
  | cons pre t tyTok ids bounds dims rest slots n _ _ _ _ _ ih =>
    simp only [List.length_cons]
    omega

/-- the statement `DECLARE a₁,… : ARRAY[…] OF T` (primitive `T`, pure bounds) as a state transformer -/
theorem run_execStmt_declareArr (σ : St) (t tyTok : Tok) (ids : List Tok) (bounds : List (Expr × Expr))
    (dims : List (Int × Int)) (cur : Act) (rest : List Act) (f₀ f : Nat)
    (hacts : σ.acts = cur :: rest) (hsteps : σ.steps + 1 ≤ σ.stepLimit)
    (hfresh : ∀ id ∈ ids, findSlot cur.arrs id.val = none)
    (hty : tyTok.k = .DATA_TYPE) (hbounds : PureBounds (tickSt σ) f₀ bounds dims)
    (hsize : totalCells dims ≤ 1000000) (hf : f₀ + bounds.length + ids.length + totalCells dims + 4 ≤ f) :
    (execStmt f (.declareArr t ids tyTok bounds)).run.run σ =
      (.ok .none, declManySt (tickSt σ) cur rest (ids.map fun id => newArrSlot (dataTy tyTok.val) dims id.val)) := by
  obtain ⟨f', rfl⟩ : ∃ f', f = f' + 2 := ⟨f - 2, by omega⟩
  have hacts' : (tickSt σ).acts = cur :: rest := hacts
  have hdecl := run_declareArrs_prim t tyTok dims hty hsize ids (tickSt σ) cur rest (f'+1) hacts' (by omega)
  have hany : ids.any (fun id => (findSlot cur.arrs id.val).isSome) = false := by
    rw [List.any_eq_false]
    intro id hid
    rw [hfresh id hid]
    simp
  rw [execStmt_declareArr, run_bind_ok _ _ _ _ _ (run_tick_ok t σ hsteps),
    run_bind_ok _ _ _ _ _ (run_curAct_cons _ cur rest hacts')]
  simp only [hany, Bool.false_eq_true, if_false]
  rw [run_bind_ok _ _ _ _ _ (run_evalBounds (tickSt σ) f₀ bounds dims [] (f'+1) hbounds (by omega))]
  simp only [List.reverse_nil, List.nil_append]
  rw [run_bind_ok _ _ _ _ _ hdecl]
  rfl

/-- the state after a block of array declarations: the step counter advanced by the number of statements, the slots
    appended to the arrays of the current activation -/
def bodySt (σ : St) (cur : Act) (rest : List Act) (k : Nat) (slots : List Slot) : St :=
  { σ with steps := σ.steps + k, acts := { cur with arrs := cur.arrs ++ slots } :: rest }

/-- **running a block of array declarations** -/
theorem run_runBlock_arrBody {pre : List Slot} {body : Block} {slots : List Slot} {n : Nat} (h : ArrBody pre body slots n) :
    ∀ (σ : St) (cur : Act) (rest : List Act) (f : Nat), σ.acts = cur :: rest → cur.arrs = pre →
      σ.steps + body.length ≤ σ.stepLimit → n ≤ f →
      (runBlock f body).run.run σ = (.ok ⟨⟩, bodySt σ cur rest body.length slots) := by
  induction h with
  | nil pre =>
    intro σ cur rest f hacts _ _ hf
    obtain ⟨f', rfl⟩ : ∃ f', f = f' + 1 := ⟨f - 1, by omega⟩
    rw [runBlock_nil]
    have : bodySt σ cur rest ([] : Block).length [] = σ := by
      cases σ
      simp only at hacts
      subst hacts
      simp only [bodySt, List.length_nil, Nat.add_zero, List.append_nil]
    rw [this]
    rfl
  | cons pre t tyTok ids bounds dims rest' slots n hty hlit hsize hfresh _ ih =>
    intro σ cur rest f hacts hpre hsteps hf
    obtain ⟨f', rfl⟩ : ∃ f', f = f' + 1 := ⟨f - 1, by omega⟩
    simp only [List.length_cons] at hsteps
    have hst := run_execStmt_declareArr σ t tyTok ids bounds dims cur rest 1 f' hacts (by omega)
      (by rw [hpre]; exact hfresh) hty (pureBounds_of_lit _ _ _ hlit) hsize (by omega)
    rw [run_runBlock_cons_ok f' _ rest' .none σ _ hst (.inl rfl)]
    rw [ih (declManySt (tickSt σ) cur rest _) _ rest f' rfl (by simp only [hpre]) (by
      show σ.steps + 1 + rest'.length ≤ σ.stepLimit
      omega) (by omega)]
    simp only [bodySt, declManySt, tickSt, List.length_cons, List.append_assoc]
    congr 2
    omega

/-! ### type lookups on a top-level state -/

theorem run_scopeAct_top (σ : St) (g : Act) (hacts : σ.acts = [g]) (hcomp : g.isComp = false) :
    scopeAct.run.run σ = (.ok g, σ) := by
  unfold scopeAct
  rw [run_bind_ok _ _ _ _ _ (run_get σ)]
  simp only [hacts, List.find?_cons, hcomp, Bool.not_false]
  rfl

theorem run_globalAct_top (σ : St) (g : Act) (hacts : σ.acts = [g]) : globalAct.run.run σ = (.ok g, σ) :=
  run_globalAct_some σ g (by rw [hacts]; rfl)

theorem run_typeScopeAct_top (σ : St) (g : Act) (hacts : σ.acts = [g]) (hcomp : g.isComp = false) :
    typeScopeAct.run.run σ = (.ok g, σ) := by
  unfold typeScopeAct
  rw [run_bind_ok _ _ _ _ _ (run_get σ)]
  simp only [hacts, List.takeWhile_cons, hcomp, Bool.false_eq_true, if_false, List.any_nil]
  exact run_scopeAct_top σ g hacts hcomp

theorem run_lookupList_top {β : Type} (σ : St) (g : Act) (hacts : σ.acts = [g]) (hcomp : g.isComp = false)
    (sel : Act → List (Str × β)) (n : Str) (gl : Bool) :
    (lookupList sel n gl).run.run σ = (.ok ((sel g).find? (·.1 == n)), σ) := by
  unfold lookupList
  rw [run_bind_ok _ _ _ _ _ (run_typeScopeAct_top σ g hacts hcomp), run_bind_ok _ _ _ _ _ (run_globalAct_top σ g hacts)]
  cases (sel g).find? (·.1 == n) with
  | some x => rfl
  | none =>
    simp only [beq_self_eq_true, Bool.or_true, if_true]
    rfl

/-- on a top-level state a type name that is not a primitive type keyword, not an enumerated type and not a pointer
    type denotes the record type of that name -/
theorem run_getType_comp_top (σ : St) (g : Act) (hacts : σ.acts = [g]) (hcomp : g.isComp = false) (tyTok : Tok)
    (gl : Bool) (T : Str) (body : Block) (hk : (tyTok.k == .DATA_TYPE) = false)
    (he : g.enums.find? (·.1 == tyTok.val) = none) (hp : g.ptrs.find? (·.1 == tyTok.val) = none)
    (hc : g.comps.find? (·.1 == tyTok.val) = some (T, body)) :
    (getType tyTok gl).run.run σ = (.ok (.comp T), σ) := by
  unfold getType
  simp only [hk, Bool.false_eq_true, if_false]
  unfold enumDefOf ptrDefOf compDefOf
  rw [run_bind_ok _ _ _ _ _ (run_lookupList_top σ g hacts hcomp _ _ _), he]
  simp only
  rw [run_bind_ok _ _ _ _ _ (run_lookupList_top σ g hacts hcomp _ _ _), hp]
  simp only
  rw [run_bind_ok _ _ _ _ _ (run_lookupList_top σ g hacts hcomp _ _ _), hc]
  rfl


/-! ### the default value of a record type, and `DECLARE r : T` -/

theorem defaultVal_comp (f : Nat) (t : Tok) (n : Str) :
    defaultVal (f+1) t (.comp n) = (do
      match ← compDefOf n with
      | none => throw (.crash .localCompositeType)
      | some (_, body) =>
        let loc ← compDefOf n false
        withAct (fun id => { id := id, name := n, isComp := true, typeGlobal := loc.isNone }) do
          runBlock f body
          let a ← curAct
          pure (.comp n ((a.vars.map fun s => (s.name, s.val)) ++ (a.arrs.map fun s => (s.name, s.val))))) := by
  rw [defaultVal.eq_def]; rfl

/-- the state after the default value of a record type with `k` member declarations has been built: `k` steps
    counted, one activation id used -/
def afterDefaultSt (σ : St) (k : Nat) : St := { σ with steps := σ.steps + k, nextId := σ.nextId + 1 }

/-- the record value made of the array slots `slots` -/
def recOfSlots (T : Str) (slots : List Slot) : Val := .comp T (slots.map fun s => (s.name, s.val))

/-- **the default value of a record type whose body declares arrays only** (top-level state) -/
theorem run_defaultVal_arrBody (σ : St) (g : Act) (t : Tok) (T T' : Str) (body : Block) (slots : List Slot) (n f : Nat)
    (hacts : σ.acts = [g]) (hcomp : g.isComp = false)
    (hc : g.comps.find? (·.1 == T) = some (T', body)) (hbody : ArrBody [] body slots n)
    (hsteps : σ.steps + body.length ≤ σ.stepLimit) (hf : n + 1 ≤ f) :
    (defaultVal f t (.comp T)).run.run σ = (.ok (recOfSlots T slots), afterDefaultSt σ body.length) := by
  obtain ⟨f', rfl⟩ : ∃ f', f = f' + 1 := ⟨f - 1, by omega⟩
  rw [defaultVal_comp]
  unfold compDefOf
  rw [run_bind_ok _ _ _ _ _ (run_lookupList_top σ g hacts hcomp _ _ _), hc]
  simp only
  rw [run_bind_ok _ _ _ _ _ (run_lookupList_top σ g hacts hcomp _ _ _), hc]
  rw [run_withAct]
  have hpush : ∀ mk : Nat → Act, (pushSt mk σ).acts = mk σ.nextId :: [g] := by
    intro mk
    simp only [pushSt, hacts]
  have hst : ∀ mk : Nat → Act, popSt (bodySt (pushSt mk σ) (mk σ.nextId) [g] body.length slots) =
      afterDefaultSt σ body.length := by
    intro mk
    cases σ
    simp only at hacts
    subst hacts
    simp only [popSt, bodySt, pushSt, afterDefaultSt, List.drop_succ_cons, List.drop_zero]
  have hb := run_runBlock_arrBody hbody _ _ [g] f' (hpush (fun id => ({ id := id, name := T, isComp := true, typeGlobal := (some (T', body)).isNone } : Act))) rfl (by exact hsteps) (by omega)
  rw [run_bind_ok _ _ _ _ _ hb]
  rw [run_bind_ok _ _ _ _ _ (run_curAct_cons _ _ _ rfl)]
  simp only [run_pure]
  rw [hst]
  rfl

theorem declareVars_nil (f : Nat) (t tyTok : Tok) : declareVars (f+1) t [] tyTok = pure () := by
  rw [declareVars.eq_def]

theorem declareVars_cons (f : Nat) (t id : Tok) (rest : List Tok) (tyTok : Tok) :
    declareVars (f+1) t (id :: rest) tyTok = (do
      let a ← curAct
      if (findSlot a.vars id.val).isSome then rtErr t .redeclared
      else if ← isIdentifierType id then rtErr t .redeclared
      else
        let ty ← getType tyTok
        if ty == .none then rtErr t .notDefined
        else
          let v ← defaultVal f t ty
          addVar { name := id.val, ty := ty, val := v }
          declareVars f t rest tyTok) := by
  rw [declareVars.eq_def]

/-- the state after `addVar slot` when the activation stack is `cur :: rest` -/
def declVarSt (σ : St) (cur : Act) (rest : List Act) (slot : Slot) : St :=
  { σ with acts := { cur with vars := cur.vars ++ [slot] } :: rest }

theorem run_addVar_cons (σ : St) (cur : Act) (rest : List Act) (slot : Slot) (h : σ.acts = cur :: rest) :
    (addVar slot).run.run σ = (.ok ⟨⟩, declVarSt σ cur rest slot) := by
  unfold addVar modifyCur
  rw [run_bind_ok _ _ _ _ _ (run_curAct_cons σ cur rest h), run_modifyAct]
  simp only [updSt, declVarSt, h, updActs, beq_self_eq_true, if_true]

/-- **`DECLARE r : T`** on a top-level state, `T` a record type whose body declares arrays only: one step for the
    statement and one per member declaration are counted, one activation id is used, and the variable `r` is added to
    the global activation holding the record made of the default arrays. -/
theorem run_declare_record (σ : St) (g : Act) (t rt tyTok : Tok) (T : Str) (body : Block) (slots : List Slot) (n f : Nat)
    (hacts : σ.acts = [g]) (hcomp : g.isComp = false)
    (hsteps : σ.steps + 1 + body.length ≤ σ.stepLimit)
    (hfresh : findSlot g.vars rt.val = none)
    (hrt : (isIdentifierType rt).run.run (tickSt σ) = (.ok false, tickSt σ))
    (hk : (tyTok.k == .DATA_TYPE) = false)
    (he : g.enums.find? (·.1 == tyTok.val) = none) (hp : g.ptrs.find? (·.1 == tyTok.val) = none)
    (hc : g.comps.find? (·.1 == tyTok.val) = some (T, body))
    (hbody : ArrBody [] body slots n) (hf : n + 4 ≤ f) :
    (execStmt f (.declare t [rt] tyTok)).run.run σ =
      (.ok .none, declVarSt (afterDefaultSt (tickSt σ) body.length) g []
        { name := rt.val, ty := .comp T, val := recOfSlots T slots }) := by
  obtain ⟨f', rfl⟩ : ∃ f', f = f' + 3 := ⟨f - 3, by omega⟩
  have hacts' : (tickSt σ).acts = [g] := hacts
  have hT : T = tyTok.val := by
    have := List.find?_some hc
    simpa using this
  subst hT
  have hdv : (declareVars (f'+2) t [rt] tyTok).run.run (tickSt σ) =
      (.ok ⟨⟩, declVarSt (afterDefaultSt (tickSt σ) body.length) g []
        { name := rt.val, ty := .comp tyTok.val, val := recOfSlots tyTok.val slots }) := by
    rw [declareVars_cons, run_bind_ok _ _ _ _ _ (run_curAct_cons _ g [] hacts')]
    simp only [hfresh, Option.isSome_none, Bool.false_eq_true, if_false]
    rw [run_bind_ok _ _ _ _ _ hrt]
    simp only [Bool.false_eq_true, if_false]
    rw [run_bind_ok _ _ _ _ _ (run_getType_comp_top (tickSt σ) g hacts' hcomp tyTok true tyTok.val body hk he hp hc)]
    have hne : ((Ty.comp tyTok.val) == Ty.none) = false := by simp
    simp only [hne, Bool.false_eq_true, if_false]
    rw [run_bind_ok _ _ _ _ _ (run_defaultVal_arrBody (tickSt σ) g t tyTok.val tyTok.val body slots n (f'+1) hacts' hcomp hc hbody
      (by show σ.steps + 1 + body.length ≤ σ.stepLimit; omega) (by omega))]
    rw [run_bind_ok _ _ _ _ _ (run_addVar_cons _ g [] _ (by exact hacts'))]
    rw [declareVars_nil]
    rfl
  rw [execStmt_declare, run_bind_ok _ _ _ _ _ (run_tick_ok t σ (by omega)), run_bind_ok _ _ _ _ _ hdv]
  rfl

/-! ### member lookup in a record made of array slots -/

theorem findField_slots_false (slots : List Slot) (hall : ∀ s ∈ slots, s.val.isArr = true) (m : Str) :
    findField (slots.map fun s => (s.name, s.val)) m false = none := by
  unfold findField
  induction slots with
  | nil => rfl
  | cons s rest ih =>
    have hs : s.val.isArr = true := hall s List.mem_cons_self
    have h0 : (s.name == m && s.val.isArr == false) = false := by rw [hs]; simp
    simp only [List.map_cons, List.find?_cons, h0]
    exact ih (fun x hx => hall x (List.mem_cons_of_mem _ hx))

theorem findField_slots_true (slots : List Slot) (hall : ∀ s ∈ slots, s.val.isArr = true) (m : Str) :
    findField (slots.map fun s => (s.name, s.val)) m true = (findSlot slots m).map (·.val) := by
  unfold findField findSlot
  induction slots with
  | nil => rfl
  | cons s rest ih =>
    have hs : s.val.isArr = true := hall s List.mem_cons_self
    have h0 : (s.name == m && s.val.isArr == true) = (s.name == m) := by rw [hs]; simp
    simp only [List.map_cons, List.find?_cons, h0]
    cases s.name == m with
    | true => rfl
    | false => exact ih (fun x hx => hall x (List.mem_cons_of_mem _ hx))

theorem memberKind_slots (slots : List Slot) (hall : ∀ s ∈ slots, s.val.isArr = true) (m : Str) (s : Slot)
    (h : findSlot slots m = some s) : memberKind (slots.map fun s => (s.name, s.val)) m = some true := by
  unfold memberKind
  rw [findField_slots_false slots hall m, findField_slots_true slots hall m, h]
  rfl

theorem ArrBody.all_arr {pre : List Slot} {body : Block} {slots : List Slot} {n : Nat} (h : ArrBody pre body slots n) :
    ∀ s ∈ slots, s.val.isArr = true := by
  intro s hs
  obtain ⟨ty, dims, heq⟩ := h.slots_spec s hs
  rw [heq]
  rfl

end ArrayFieldLemmas

end Pseudo
