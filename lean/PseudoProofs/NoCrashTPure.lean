import PseudoProofs.NoCrashTPrims
/-!
# C01 with enum / pointer types: value-level lemmas (`Scal`, `ValOK`)
-/
namespace Pseudo.NT
open Pseudo
open Pseudo.NC (simple)

variable {σ : St}

/-- a primitive scalar (or NONE) is a scalar that is fine in every state -/
theorem ok_of_simple {v : Val} (h : simple v = true) : Scal v = true ∧ ValOK σ v := by
  cases v <;> first | exact ⟨rfl, trivial⟩ | (simp [simple] at h)

theorem scal_implicitCast (ty : Ty) {v : Val} (h : Scal v = true) : Scal (implicitCast ty v) = true := by
  unfold implicitCast
  split <;> first | rfl | exact h

theorem valOK_implicitCast (ty : Ty) {v : Val} (h : ValOK σ v) : ValOK σ (implicitCast ty v) := by
  unfold implicitCast
  split <;> first | trivial | exact h

theorem enumShift_lt (n : Nat) (res : Int) (hn : n ≠ 0) : enumShift n res < n := by
  unfold enumShift
  have hpos : (0 : Int) < (n : Int) := by omega
  have h1 := Int.emod_nonneg res (Int.ne_of_gt hpos)
  have h2 := Int.emod_lt_of_pos res hpos
  omega

/-- arithmetic: the result is a primitive value, or an enum value whose index is below the size that `sz` reported -/
theorem ok_evalArith (sz : Str → Option Nat)
    (hsz : ∀ ty n, sz ty = some n → ∃ vals, enumLk σ ty = some vals ∧ vals.length = n)
    (op : ArOp) (l r v : Val) (h : evalArith sz op l r = .ok v) : Scal v = true ∧ ValOK σ v := by
  unfold evalArith at h
  dsimp only at h
  split at h
  · rename_i ty idx k heq1 heq2
    split at h
    · cases hs : sz ty with
      | none => rw [hs] at h; cases h
      | some n =>
        rw [hs] at h
        dsimp only at h
        split at h
        · cases h
        · rename_i hn0
          cases h
          obtain ⟨vals, hl, hlen⟩ := hsz ty n hs
          refine ⟨rfl, vals, hl, ?_⟩
          rw [hlen]
          exact enumShift_lt n _ (by simpa using hn0)
    · cases h
  · split at h
    all_goals first
      | (split at h
         · cases h
         · cases h
           first
             | (unfold intArith; split <;> exact ⟨rfl, trivial⟩)
             | (unfold realArith; split <;> exact ⟨rfl, trivial⟩))
      | cases h

theorem ok_defaultPrim {ty : Ty} (h : TyWF σ ty) : CellOK σ ty (defaultPrim ty) := by
  cases ty with
  | enum n =>
    obtain ⟨vals, h1, h2⟩ := h
    exact ⟨rfl, rfl, vals, h1, List.length_pos_iff.2 h2⟩
  | ptr n =>
    obtain ⟨tg, h1⟩ := h
    exact ⟨rfl, rfl, tg, h1, fun l hl => by cases hl⟩
  | comp n => exact h.elim
  | _ => exact ⟨rfl, rfl, trivial⟩

/-! ### random-file load -/

theorem load_cell (defs : Codec.Defs) (hdefs : ∀ n, defs.enumDef n = (genums σ).find? (·.1 == n))
    (cur nv : Val) (s r : Str) (hc : Scal cur = true) (h : Codec.load defs cur s = some (nv, r)) :
    Scal nv = true ∧ nv.ty = cur.ty ∧ ValOK σ nv := by
  cases cur with
  | enum ty i =>
    simp only [Codec.load, bind, Option.bind, pure] at h
    repeat' (first | split at h | (dsimp only at h; split at h))
    all_goals first
      | (cases h; done)
      | skip
    all_goals
      cases h
      rename_i w _ _ e hfind hne _ _ q _ hlt
      refine ⟨rfl, rfl, e.2, ?_, by omega⟩
      rw [hdefs] at hfind
      have hk := find_key hfind
      have hty : e.1 = ty := by simpa using hne
      unfold enumLk
      rw [← hty, hk, hfind]; rfl
  | ptr ty t => simp [Codec.load] at h
  | comp _ _ => simp [Scal] at hc
  | arr _ _ _ => simp [Scal] at hc
  | _ =>
    have := NC.load_simple defs _ nv s r rfl h
    exact ⟨(ok_of_simple (σ := σ) this.1).1, this.2, (ok_of_simple this.1).2⟩


theorem loadList_cells (defs : Codec.Defs) (hdefs : ∀ n, defs.enumDef n = (genums σ).find? (·.1 == n)) (ty : Ty) :
    ∀ (cells cs : List Val) (s r : Str),
    (∀ c ∈ cells, Scal c = true ∧ c.ty = ty) → Codec.loadList defs cells s = some (cs, r) →
    cs.length = cells.length ∧ ∀ c ∈ cs, CellOK σ ty c := by
  intro cells
  induction cells with
  | nil =>
    intro cs s r _ h
    simp only [Codec.loadList] at h
    cases h
    exact ⟨rfl, fun c hc => by cases hc⟩
  | cons v rest ih =>
    intro cs s r hall h
    simp only [Codec.loadList, bind, Option.bind, pure] at h
    split at h
    · cases h
    · rename_i p hp
      dsimp only at h
      split at h
      · cases h
      · rename_i q hq
        cases h
        obtain ⟨v', s1⟩ := p
        obtain ⟨rest', s2⟩ := q
        have hv := load_cell defs hdefs v v' s s1 (hall v (List.mem_cons_self ..)).1 hp
        have hr := ih rest' s1 s2 (fun c hc => hall c (List.mem_cons_of_mem _ hc)) hq
        refine ⟨by simp [hr.1], ?_⟩
        intro c hc
        rcases List.mem_cons.1 hc with rfl | hc
        · exact ⟨hv.1, hv.2.1.trans (hall v (List.mem_cons_self ..)).2, hv.2.2⟩
        · exact hr.2 c hc

/-- GETRECORD: the loaded value has the kind of the current one and fine contents -/
theorem load_ok (defs : Codec.Defs) (hdefs : ∀ n, defs.enumDef n = (genums σ).find? (·.1 == n))
    (cur nv : Val) (s r : Str) (hc : Scal cur = true ∨ ∃ ty, ArrSh ty cur)
    (h : Codec.load defs cur s = some (nv, r)) : SameKind cur nv ∧ SubOK σ nv := by
  rcases hc with hc | ⟨ty, dims, cells, rfl, hlen, hall⟩
  · have := load_cell defs hdefs cur nv s r hc h
    exact ⟨SameKind.of_scal hc this.1 this.2.1, SubOK.of_scal this.1 this.2.2⟩
  · simp only [Codec.load, bind, Option.bind, pure] at h
    split at h
    · cases h
    · dsimp only at h
      split at h
      · cases h
      · dsimp only at h
        split at h
        · cases h
        · split at h
          · cases h
          · rename_i q hq
            dsimp only at h
            cases h
            have hr := loadList_cells defs hdefs ty cells q.1 _ q.2 hall hq
            refine ⟨SameKind.of_arr rfl rfl hr.1 (fun c hc => ⟨(hr.2 c hc).1, (hr.2 c hc).2.1⟩), ?_⟩
            exact SubOK.of_arrOK (ty := ty) ⟨dims, q.1, rfl, hr.1.trans hlen, hr.2⟩

end Pseudo.NT
