import PseudoProofs.AtomicLemmasStmt
/-!
# C12 (atomic entries): declarations of record types

A record type whose body consists of declarations with call-free array bounds (`declBody`; nested record types included, as
long as every record type defined in the state has such a body: `CompsOK`) is instantiated without any effect but on the
step counter, the id counter and (REPL echo) the output stream — whether the instantiation succeeds or fails.

* `SKIO σ σ'`: same state up to `steps`, `nextId` (which only grows) and `out`;
* `TopR σ σ'`: additionally the variables / arrays of the innermost activation may differ (what a record body does to the
  composite activation it runs in);
* `recDecl_all`: one induction on fuel over `defaultVal`, `defaultCells` (relation `SKIO`), `declareVars`, `declareArrs`,
  `execStmt` on declarations, `runBlock` on declaration bodies (relation `TopR`), under the invariant `CompsOK`.
-/
namespace Pseudo
open FileStmt

/-! ### where type definitions come from -/

theorem mem_of_globalAct {σ σ' : St} {a : Act} (h : globalAct.run.run σ = (.ok a, σ')) : a ∈ σ.acts := by
  rw [run_globalAct] at h
  unfold globalActP at h
  cases hg : σ.acts.getLast? with
  | none => rw [hg] at h; cases h
  | some g =>
    rw [hg] at h
    cases h
    exact List.mem_of_getLast? hg

theorem mem_of_scopeAct {σ σ' : St} {a : Act} (h : scopeAct.run.run σ = (.ok a, σ')) : a ∈ σ.acts := by
  rw [run_scopeAct] at h
  unfold scopeActP at h
  cases hg : σ.acts.find? (fun a => !a.isComp) with
  | none => rw [hg] at h; cases h
  | some g =>
    rw [hg] at h
    cases h
    exact List.mem_of_find?_eq_some hg

theorem mem_of_typeScopeAct {σ σ' : St} {a : Act} (h : typeScopeAct.run.run σ = (.ok a, σ')) : a ∈ σ.acts := by
  unfold typeScopeAct at h
  rw [run_bind_ok _ _ _ _ _ (run_get σ)] at h
  split at h
  · exact mem_of_globalAct h
  · exact mem_of_scopeAct h

theorem mem_of_lookupList {β : Type} (sel : Act → List (Str × β)) (n : Str) (g : Bool) {σ σ' : St} {p : Str × β}
    (h : (lookupList sel n g).run.run σ = (.ok (some p), σ')) : ∃ a ∈ σ.acts, p ∈ sel a := by
  unfold lookupList at h
  rw [run_bind] at h
  have e1 := ((Ens.l_typeScopeAct (R := Eq) (Q := QAny)).run σ).1
  rcases h1 : typeScopeAct.run.run σ with ⟨e | a, σ1⟩
  · rw [h1] at h; cases h
  · rw [h1] at h e1
    dsimp only at h e1
    subst e1
    have ha := mem_of_typeScopeAct h1
    rw [run_bind] at h
    have e2 := ((Ens.l_globalAct (R := Eq) (Q := QAny)).run σ).1
    rcases h2 : globalAct.run.run σ with ⟨e | ga, σ2⟩
    · rw [h2] at h; cases h
    · rw [h2] at h e2
      dsimp only at h e2
      subst e2
      have hg := mem_of_globalAct h2
      split at h
      · rename_i x hx
        cases h
        exact ⟨a, ha, List.mem_of_find?_eq_some hx⟩
      · split at h
        · cases h
        · rename_i hx _
          have : (sel ga).find? (·.1 == n) = some p := by
            cases hf : (sel ga).find? (·.1 == n) with
            | none => rw [hf] at h; cases h
            | some q => rw [hf] at h; cases h; rfl
          exact ⟨ga, hg, List.mem_of_find?_eq_some this⟩

/-! ### record bodies made of call-free declarations -/

/-- a declaration with call-free array bounds -/
def declStmt : Stmt → Bool
  | .declare _ _ _ => true
  | .declareArr _ _ _ bounds => boundsCallFree bounds
  | _ => false

/-- a record body that consists of such declarations -/
def declBody : Block → Bool
  | [] => true
  | s :: rest => declStmt s && declBody rest

/-- every record type defined anywhere in the state has such a body -/
def CompsOK (σ : St) : Prop := ∀ a ∈ σ.acts, ∀ p ∈ a.comps, declBody p.2 = true

/-! ### the two relations -/

/-- same state up to `steps`, `nextId` (grows) and `out` -/
def SKIO (σ σ' : St) : Prop := ∃ n k o, σ' = { σ with steps := n, nextId := σ.nextId + k, out := o }

/-- the stacks differ at most in the variables / arrays of the innermost activation -/
def TopExt : List Act → List Act → Prop
  | [], [] => True
  | a :: rest, a' :: rest' => rest' = rest ∧ ∃ vs as, a' = { a with vars := vs, arrs := as }
  | _, _ => False

theorem TopExt.refl : ∀ acts, TopExt acts acts
  | [] => trivial
  | a :: _ => ⟨rfl, a.vars, a.arrs, rfl⟩

theorem TopExt.trans : ∀ {a b c : List Act}, TopExt a b → TopExt b c → TopExt a c
  | [], [], [], _, _ => trivial
  | _ :: _, _ :: _, _ :: _, ⟨h1, _, _, h2⟩, ⟨h3, vs, as, h4⟩ => ⟨h3.trans h1, vs, as, by rw [h4, h2]⟩
  | [], [], _ :: _, _, h => h.elim
  | [], _ :: _, _, h, _ => h.elim
  | _ :: _, [], _, h, _ => h.elim
  | _ :: _, _ :: _, [], _, h => h.elim

theorem TopExt.comps {P : List (Str × Block) → Prop} : ∀ {a b : List Act}, TopExt a b → (∀ x ∈ a, P x.comps) → ∀ x ∈ b, P x.comps
  | [], [], _, _ => fun _ h => nomatch h
  | a :: rest, _ :: _, ⟨h1, vs, as, h2⟩, hP => by
    subst h1 h2
    intro x hx
    rcases List.mem_cons.mp hx with rfl | hx
    · exact hP a (List.mem_cons_self ..)
    · exact hP x (List.mem_cons_of_mem _ hx)
  | [], _ :: _, h, _ => h.elim
  | _ :: _, [], h, _ => h.elim

/-- `SKIO` and additionally the variables / arrays of the innermost activation -/
def TopR (σ σ' : St) : Prop :=
  ∃ n k o acts', σ' = { σ with steps := n, nextId := σ.nextId + k, out := o, acts := acts' } ∧ TopExt σ.acts acts'

theorem TopR.refl (σ : St) : TopR σ σ := ⟨σ.steps, 0, σ.out, σ.acts, rfl, TopExt.refl _⟩

theorem TopR.trans {a b c : St} : TopR a b → TopR b c → TopR a c
  | ⟨_, k1, _, _, h1, e1⟩, ⟨n, k2, o, acts, h2, e2⟩ => by
    subst h1
    exact ⟨n, k1 + k2, o, acts, by rw [h2]; simp only [Nat.add_assoc], e1.trans e2⟩

theorem TopR.compsOK {σ σ' : St} (h : TopR σ σ') (hc : CompsOK σ) : CompsOK σ' := by
  obtain ⟨_, _, _, acts, rfl, e⟩ := h
  exact e.comps (P := fun cs => ∀ p ∈ cs, declBody p.2 = true) hc

theorem SKIO.topR {σ σ' : St} : SKIO σ σ' → TopR σ σ'
  | ⟨n, k, o, h⟩ => ⟨n, k, o, σ.acts, h, TopExt.refl _⟩

/-- under the invariant: `SKIO` -/
def RS (σ σ' : St) : Prop := CompsOK σ → SKIO σ σ'
/-- under the invariant: `TopR` -/
def RT (σ σ' : St) : Prop := CompsOK σ → TopR σ σ'

instance : RPre RT where
  refl σ := fun _ => TopR.refl σ
  trans h1 h2 := fun hc => (h1 hc).trans (h2 ((h1 hc).compsOK hc))

theorem RT.of_RS {σ σ' : St} (h : RS σ σ') : RT σ σ' := fun hc => (h hc).topR

instance : RPre RS where
  refl σ := fun _ => ⟨σ.steps, 0, σ.out, rfl⟩
  trans {a b c} h1 h2 := fun hc => by
    obtain ⟨n1, k1, o1, e1⟩ := h1 hc
    have hb : CompsOK b := by rw [e1]; exact hc
    obtain ⟨n2, k2, o2, e2⟩ := h2 hb
    exact ⟨n2, k1 + k2, o2, by rw [e2, e1]; simp only [Nat.add_assoc]⟩

section prims
variable {Q : Stop → Prop} [QBase Q]

theorem ensRT_tick (t : Tok) : Ens RT Q (tick t) := by
  unfold tick
  apply Ens.get_bind
  intro σ
  split
  · exact (Ens.l_rtErr t .budget).run σ
  · exact ⟨fun _ => ⟨_, 0, σ.out, σ.acts, rfl, TopExt.refl _⟩, fun e h => by cases h⟩

theorem ensRT_emit (x : Str) : Ens RT Q (emit x) :=
  Ens.modify _ fun σ _ => ⟨σ.steps, 0, _, σ.acts, rfl, TopExt.refl _⟩

theorem topExt_updActs_head (acts : List Act) (f : Act → Act) (hf : ∀ a, ∃ vs as, f a = { a with vars := vs, arrs := as }) :
    ∀ a ∈ acts.head?, TopExt acts (updActs acts a.id f) := by
  intro a ha
  cases acts with
  | nil => cases ha
  | cons b rest =>
    have : a = b := by simpa using ha.symm
    subst this
    unfold updActs
    simp only [beq_self_eq_true, if_true]
    exact ⟨rfl, hf a⟩

theorem ensRT_modifyCur (f : Act → Act) (hf : ∀ a, ∃ vs as, f a = { a with vars := vs, arrs := as }) : Ens RT Q (modifyCur f) := by
  constructor
  intro σ
  unfold modifyCur
  rw [run_bind, run_curAct]
  unfold curActP
  cases hacts : σ.acts with
  | nil => exact ⟨RPre.refl σ, fun e h => by cases h; exact QBase.crash _⟩
  | cons a rest =>
    dsimp only
    rw [run_modifyAct]
    refine ⟨fun _ => ⟨σ.steps, 0, σ.out, _, rfl, ?_⟩, fun e h => by cases h⟩
    have := topExt_updActs_head σ.acts f hf a (by rw [hacts]; rfl)
    exact this

theorem ensRT_addVar (s : Slot) : Ens RT Q (addVar s) :=
  ensRT_modifyCur _ fun a => ⟨_, _, rfl⟩

theorem ensRT_addArr (s : Slot) : Ens RT Q (addArr s) :=
  ensRT_modifyCur _ fun a => ⟨_, _, rfl⟩

end prims

/-! ### the induction -/

macro_rules | `(tactic| ens_lib) => `(tactic| exact ensRT_tick _)
macro_rules | `(tactic| ens_lib) => `(tactic| exact ensRT_emit _)
macro_rules | `(tactic| ens_lib) => `(tactic| exact ensRT_addVar _)
macro_rules | `(tactic| ens_lib) => `(tactic| exact ensRT_addArr _)
macro_rules | `(tactic| ens_lib) => `(tactic| exact ens_evalBounds _ _ _ (by first | assumption | with_unfolding_all assumption))

theorem ensRT_replEcho {Q : Stop → Prop} [QBase Q] (v : Val) : Ens RT Q (replEcho v) := by unfold replEcho; ens_auto
macro_rules | `(tactic| ens_lib) => `(tactic| exact ensRT_replEcho _)

/-- a read-only prefix: the continuation is analysed in the state the prefix ran in, knowing what it returned -/
theorem Ens.bind_ro {R : St → St → Prop} {Q : Stop → Prop} {α β : Type} {m : M α} {f : α → M β} (hm : Ens Eq Q m)
    (hR : ∀ σ, R σ σ)
    (hf : ∀ σ a, m.run.run σ = (.ok a, σ) → R σ ((f a).run.run σ).2 ∧ ∀ e, ((f a).run.run σ).1 = .error e → Q e) :
    Ens R Q (m >>= f) := by
  constructor
  intro σ
  have h1 := hm.run σ
  rcases h : m.run.run σ with ⟨e | a, σ1⟩
  · rw [h] at h1
    rw [run_bind_err _ _ _ _ _ h]
    obtain ⟨h2, h3⟩ := h1
    dsimp only at h2
    subst h2
    exact ⟨hR _, fun e' he' => by cases he'; exact h3 _ rfl⟩
  · rw [h] at h1
    rw [run_bind_ok _ _ _ _ _ h]
    obtain ⟨h2, _⟩ := h1
    dsimp only at h2
    subst h2
    exact hf σ a h

/-- the statement proved by induction on fuel -/
structure RecDeclAll (f : Nat) : Prop where
  dVal : ∀ t ty, Ens RS QAny (defaultVal f t ty)
  dCells : ∀ t ty n acc, Ens RS QAny (defaultCells f t ty n acc)
  dVars : ∀ t ids ty, Ens RT QAny (declareVars f t ids ty)
  dArrs : ∀ t ids ty dims, Ens RT QAny (declareArrs f t ids ty dims)
  dStmt : ∀ s, declStmt s = true → Ens RT QAny (execStmt f s)
  dBlock : ∀ b, declBody b = true → Ens RT QAny (runBlock f b)

set_option hygiene false in
macro_rules | `(tactic| ens_ih) => `(tactic| first
  | exact ih.dVars _ _ _
  | exact ih.dArrs _ _ _ _
  | exact ih.dVal _ _
  | exact ih.dCells _ _ _ _
  | exact (ih.dVal _ _).mono (fun _ _ => RT.of_RS) (fun _ h => h)
  | exact (ih.dCells _ _ _ _).mono (fun _ _ => RT.of_RS) (fun _ h => h)
  | exact ih.dStmt _ (by assumption)
  | exact ih.dBlock _ (by assumption))

theorem RecDeclAll.zero : RecDeclAll 0 where
  dVal _ _ := by rw [defaultVal.eq_def]; dsimp only; ens_auto
  dCells _ _ _ _ := by rw [defaultCells.eq_def]; dsimp only; ens_auto
  dVars _ _ _ := by rw [declareVars.eq_def]; dsimp only; ens_auto
  dArrs _ _ _ _ := by rw [declareArrs.eq_def]; dsimp only; ens_auto
  dStmt _ _ := by rw [execStmt.eq_def]; dsimp only; ens_auto
  dBlock _ _ := by rw [runBlock.eq_def]; dsimp only; ens_auto

/-- the bracket: what a record body did to its composite activation disappears with it -/
theorem SKIO.of_bracket (mk : Nat → Act) (σ σ2 : St) (h : TopR (pushSt mk σ) σ2) : SKIO σ (popSt σ2) := by
  obtain ⟨n, k, o, acts', rfl, e⟩ := h
  cases acts' with
  | nil => exact e.elim
  | cons a' rest' =>
    have hrest : rest' = σ.acts := e.1
    subst hrest
    exact ⟨n, 1 + k, o, by simp [popSt, pushSt, Nat.add_assoc]⟩

theorem compsOK_push (mk : Nat → Act) (σ : St) (hmk : (mk σ.nextId).comps = []) (hc : CompsOK σ) : CompsOK (pushSt mk σ) := by
  intro a ha p hp
  rcases List.mem_cons.mp ha with rfl | ha
  · rw [hmk] at hp; cases hp
  · exact hc a ha p hp

variable {f : Nat}

theorem rstep_dVal (ih : RecDeclAll f) (t : Tok) (ty : Ty) : Ens RS QAny (defaultVal (f+1) t ty) := by
  rw [defaultVal.eq_def]; dsimp only
  split
  · rename_i n
    refine Ens.bind_ro (Ens.l_compDefOf n true) (fun σ => RPre.refl σ) fun σ r hr => ?_
    split
    · exact (Ens.throw (QBase.crash _)).run σ
    · rename_i nm body
      refine ⟨fun hc => ?_, fun _ _ => trivial⟩
      have hbody : declBody body = true := by
        obtain ⟨a, ha, hp⟩ := mem_of_lookupList (·.comps) n true hr
        exact hc a ha _ hp
      rw [run_bind]
      have e2 := ((Ens.l_compDefOf (R := Eq) (Q := QAny) n false).run σ).1
      rcases h2 : (compDefOf n false).run.run σ with ⟨e | loc, σ2⟩
      · rw [h2] at e2; dsimp only at e2 ⊢; subst e2; exact RPre.refl (R := RS) σ hc
      · rw [h2] at e2
        dsimp only at e2 ⊢
        subst e2
        rw [run_withAct]
        dsimp only
        have hb' : Ens RT QAny (do
            runBlock f body
            let a ← curAct
            pure (Val.comp n ((a.vars.map fun s => (s.name, s.val)) ++ (a.arrs.map fun s => (s.name, s.val))))) :=
          Ens.bind (ih.dBlock body hbody) fun _ => Ens.bind Ens.l_curAct fun _ => Ens.pure _
        exact SKIO.of_bracket _ σ _ ((hb'.run _).1 (compsOK_push _ σ rfl hc))
  · ens_auto

theorem rstep_dCells (ih : RecDeclAll f) (t : Tok) (ty : Ty) (n : Nat) (acc : List Val) :
    Ens RS QAny (defaultCells (f+1) t ty n acc) := by
  rw [defaultCells.eq_def]; ens_auto

theorem rstep_dVars (ih : RecDeclAll f) (t : Tok) (ids : List Tok) (ty : Tok) : Ens RT QAny (declareVars (f+1) t ids ty) := by
  rw [declareVars.eq_def]; ens_auto

theorem rstep_dArrs (ih : RecDeclAll f) (t : Tok) (ids : List Tok) (ty : Tok) (dims : List (Int × Int)) :
    Ens RT QAny (declareArrs (f+1) t ids ty dims) := by
  rw [declareArrs.eq_def]; ens_auto

theorem rstep_dStmt (ih : RecDeclAll f) (s : Stmt) (hs : declStmt s = true) : Ens RT QAny (execStmt (f+1) s) := by
  cases s with
  | declare t ids ty => rw [execStmt_declare]; ens_auto
  | declareArr t ids ty bounds =>
    have hb : boundsCallFree bounds = true := hs
    rw [execStmt_declareArr]; ens_auto
  | _ => cases hs

theorem rstep_dBlock (ih : RecDeclAll f) (b : Block) (hb : declBody b = true) : Ens RT QAny (runBlock (f+1) b) := by
  cases b with
  | nil => rw [runBlock_nil]; ens_auto
  | cons s rest =>
    have ⟨hs, hrest⟩ : declStmt s = true ∧ declBody rest = true := by simpa [declBody] using hb
    rw [runBlock_cons]; ens_auto

theorem recDecl_all : ∀ f, RecDeclAll f
  | 0 => RecDeclAll.zero
  | f + 1 =>
    have ih := recDecl_all f
    ⟨rstep_dVal ih, rstep_dCells ih, rstep_dVars ih, rstep_dArrs ih, rstep_dStmt ih, rstep_dBlock ih⟩

/-! ### the declaration statements with a record type -/

instance : RPre SKIO where
  refl σ := ⟨σ.steps, 0, σ.out, rfl⟩
  trans := fun ⟨_, k1, _, h1⟩ ⟨n, k2, o, h2⟩ => ⟨n, k1 + k2, o, by rw [h2, h1]; simp only [Nat.add_assoc]⟩

theorem SKIO.compsOK {σ σ' : St} (h : SKIO σ σ') (hc : CompsOK σ) : CompsOK σ' := by
  obtain ⟨_, _, _, rfl⟩ := h
  exact hc

/-- started in `σ`: when `m` ends with an exception in `P`, the final state is `R`-related to `σ` -/
structure FailRel {α : Type} (R : St → St → Prop) (P : Stop → Prop) (m : M α) (σ : St) : Prop where
  run : ∀ e σ', P e → m.run.run σ = (.error e, σ') → R σ σ'

section failrel
variable {α β : Type} {R : St → St → Prop} [RPre R] {P Q : Stop → Prop} {σ : St}

theorem FailRel.of_failAt {m : M α} (h : FailAt P m σ) : FailRel R P m σ :=
  ⟨fun e σ' hP hr => by rw [h.run e σ' hP hr]; exact RPre.refl σ⟩

theorem FailRel.of_ens {m : M α} (h : Ens Eq Q m) : FailRel R P m σ := .of_failAt (.of_ens h)

theorem FailRel.bind {m : M α} {f : α → M β} (hm : Ens Eq Q m) (hf : ∀ a, m.run.run σ = (.ok a, σ) → FailRel R P (f a) σ) :
    FailRel R P (m >>= f) σ := by
  constructor
  intro e σ' hP hr
  have h1 := (hm.run σ).1
  rcases h : m.run.run σ with ⟨e1 | a, σ1⟩
  · rw [run_bind_err _ _ _ _ _ h] at hr
    rw [h] at h1
    cases hr
    dsimp only at h1
    subst h1
    exact RPre.refl σ
  · rw [run_bind_ok _ _ _ _ _ h] at hr
    rw [h] at h1
    dsimp only at h1
    subst h1
    exact (hf a h).run e σ' hP hr

/-- a prefix that respects `R` however it ends -/
theorem FailRel.bind_rel {m : M α} {f : α → M β} (hm : R σ (m.run.run σ).2)
    (hf : ∀ a σ1, m.run.run σ = (.ok a, σ1) → FailRel R P (f a) σ1) : FailRel R P (m >>= f) σ := by
  constructor
  intro e σ' hP hr
  rcases h : m.run.run σ with ⟨e1 | a, σ1⟩
  · rw [run_bind_err _ _ _ _ _ h] at hr
    rw [h] at hm
    cases hr
    exact hm
  · rw [run_bind_ok _ _ _ _ _ h] at hr
    rw [h] at hm
    exact RPre.trans hm ((hf a σ1 h).run e σ' hP hr)

end failrel

macro "frel_step" : tactic => `(tactic| first
  | (with_reducible apply FailRel.bind (Q := QAny); focus (ens_auto; done))
  | intro _
  | split
  | (with_reducible apply FailRel.of_ens (Q := QAny); focus (ens_auto; done))
  | dsimp only)

macro "frel_auto" : tactic => `(tactic| repeat' frel_step)

theorem failRel_declareVars_rec (f : Nat) (t id tyTok : Tok) (σ : St) (hc : CompsOK σ) :
    FailRel SKIO Soft (declareVars f t [id] tyTok) σ := by
  cases f with
  | zero => rw [declareVars.eq_def]; dsimp only; frel_auto
  | succ f =>
    rw [declareVars.eq_def]; dsimp only
    frel_auto
    rename_i ty _ _
    refine FailRel.bind_rel (((recDecl_all f).dVal t ty).run σ |>.1 hc) fun v σ1 _ => ?_
    exact .of_failAt (FailAt.tail (FailAt.addVar _) fun _ σ2 e σ' h => declareVars_nil_err f t tyTok σ2 e σ' h)

theorem failRel_declareArrs_rec (f : Nat) (t id tyTok : Tok) (dims : List (Int × Int)) (σ : St) (hc : CompsOK σ) :
    FailRel SKIO Soft (declareArrs f t [id] tyTok dims) σ := by
  cases f with
  | zero => rw [declareArrs.eq_def]; dsimp only; frel_auto
  | succ f =>
    rw [declareArrs.eq_def]; dsimp only
    frel_auto
    rename_i ty _ _ _
    refine FailRel.bind_rel (((recDecl_all f).dCells t ty _ _).run σ |>.1 hc) fun v σ1 _ => ?_
    exact .of_failAt (FailAt.tail (FailAt.addArr _) fun _ σ2 e σ' h => declareArrs_nil_err f t tyTok dims σ2 e σ' h)

theorem skio_tick {σ : St} : SKIO σ (tickSt σ) := ⟨_, 0, σ.out, rfl⟩

/-- a statement `tick t; k` -/
theorem SKIO.of_tick {α : Type} {P : Stop → Prop} {σ : St} {k : M α} (t : Tok) (hk : FailRel SKIO P k (tickSt σ)) (e : Stop) (σ' : St)
    (hP : P e) (hr : (tick t >>= fun _ => k).run.run σ = (.error e, σ')) : SKIO σ σ' := by
  by_cases hb : σ.steps + 1 > σ.stepLimit
  · rw [run_bind_err _ _ _ _ _ (run_tick_budget t σ hb)] at hr
    cases hr; exact RPre.refl _
  · rw [run_bind_ok _ _ _ _ _ (run_tick_ok t σ (by omega))] at hr
    exact RPre.trans skio_tick (hk.run e σ' hP hr)

/-- `DECLARE id : T`, any type `T` (record types included), in a state whose record types have declaration-only bodies -/
theorem skio_declare (f : Nat) (t id tyTok : Tok) (σ : St) (hc : CompsOK σ) (e : Stop) (σ' : St) (hS : Soft e)
    (hr : (execStmt f (.declare t [id] tyTok)).run.run σ = (.error e, σ')) : SKIO σ σ' := by
  cases f with
  | zero => rw [execStmt.eq_def] at hr; cases hr; exact RPre.refl _
  | succ f =>
    rw [execStmt_declare] at hr
    refine SKIO.of_tick t ?_ e σ' hS hr
    have h := failRel_declareVars_rec f t id tyTok (tickSt σ) hc
    exact ⟨fun e σ' hP hr => by
      rcases hx : (declareVars f t [id] tyTok).run.run (tickSt σ) with ⟨e1 | u, σ1⟩
      · rw [run_bind_err _ _ _ _ _ hx] at hr; cases hr; exact h.run _ _ hP hx
      · rw [run_bind_ok _ _ _ _ _ hx] at hr; cases hr⟩

/-- `DECLARE id : ARRAY[bounds] OF T`, any element type `T`, call-free bounds -/
theorem skio_declareArr (f : Nat) (t id tyTok : Tok) (bounds : List (Expr × Expr)) (hb : boundsCallFree bounds = true)
    (σ : St) (hc : CompsOK σ) (e : Stop) (σ' : St) (hS : Soft e)
    (hr : (execStmt f (.declareArr t [id] tyTok bounds)).run.run σ = (.error e, σ')) : SKIO σ σ' := by
  cases f with
  | zero => rw [execStmt.eq_def] at hr; cases hr; exact RPre.refl _
  | succ f =>
    rw [execStmt_declareArr] at hr
    refine SKIO.of_tick t ?_ e σ' hS hr
    have hc' : CompsOK (tickSt σ) := hc
    generalize tickSt σ = σ1 at hc'
    refine FailRel.bind (Q := QAny) Ens.l_curAct fun a _ => ?_
    split
    · exact .of_ens (Q := QAny) (Ens.l_rtErr _ _)
    · refine FailRel.bind (Q := QAny) (ens_evalBounds f bounds [] hb) fun dims _ => ?_
      have h := failRel_declareArrs_rec f t id tyTok dims σ1 hc'
      exact ⟨fun e σ' hP hr => by
        rcases hx : (declareArrs f t [id] tyTok dims).run.run σ1 with ⟨e1 | u, σ2⟩
        · rw [run_bind_err _ _ _ _ _ hx] at hr; cases hr; exact h.run _ _ hP hx
        · rw [run_bind_ok _ _ _ _ _ hx] at hr; cases hr⟩

end Pseudo
