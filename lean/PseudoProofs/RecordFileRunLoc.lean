import PseudoProofs.RecordFileRun
/-!
# Record files on the evaluator: PUTRECORD / GETRECORD with ANY target

`RecordFileRun.lean` treats plain variables of the current activation. Here the target of PUTRECORD / GETRECORD is whatever the
interpreter's look-ups deliver (`lookupVarP`, `lookupArrP`, `recTarget`): a plain variable, an ARRAY variable (the whole array is
one record), a BYREF formal (the caller's location), a global variable seen from a procedure. The price: the final state is given
through `writeLocSt` (the root cell of the location receives `root`) and `readLocP` instead of `setVar`.
-/
namespace Pseudo.RecordFileRun
open Pseudo Pseudo.FileStmt Pseudo.ReadLoop Pseudo.RandomFile Pseudo.RandomFile2

section Loc
variable {defs : Codec.Defs} {σ : St} {n : Str}

/-- **PUTRECORD n, x**, target `loc` (current value `v`, type `ty` not a pointer type) found by the look-ups -/
theorem step_put_loc (f : Nat) (t tn x : Tok) (v? a? : Option (Act × Slot)) (loc : Loc) (ty : Ty) (v : Val) (h : Handle)
    (hb : σ.steps + 1 ≤ σ.stepLimit) (hlv : lookupVarP σ x.val = .ok v?) (hla : lookupArrP σ x.val = .ok a?)
    (htgt : recTarget v? a? = some (loc, ty)) (hp : isPtrTy ty = false) (hcur : readLocP σ loc = .ok v)
    (hh : FState.handle (fileSt σ) n = some h) (hm : h.mode = .random) :
    (execStmt (f+3) (.putRecord t (.strLit tn n) x)).run.run σ =
      (.ok .none, { σ with steps := σ.steps + 1, handles := updHandles σ.handles n (putH (Codec.dump v)) }) := by
  have hpre : fpre (fileSt σ) (.put n (Codec.dump v)) = .ok () := by simp [fpre, hh, hm]
  have hstep : fstep (fileSt σ) (.put n (Codec.dump v)) =
      .ok ({ fileSt σ with handles := updHandles (fileSt σ).handles n (putH (Codec.dump v)) }, .unit) := by
    simp only [fstep, hpre]; rfl
  exact (C16_exec_putRecord (f+1) t (.strLit tn n) x σ n v? a? loc ty v hb (evalsTo_strLit f tn n _)
    hlv hla htgt hp hcur).1 _ .unit hstep

/-- **GETRECORD n, y**, target `loc` (assignable, current value `cur`) found by the look-ups; the cursor is on the text `rec` -/
theorem step_get_loc (hdefs : codecDefsP σ = .ok defs) (f : Nat) (t tn y : Tok) (v? a? : Option (Act × Slot)) (loc : Loc)
    (ty : Ty) (cur : Val) (h : Handle) (rec : Str) (hb : σ.steps + 1 ≤ σ.stepLimit)
    (hlv : lookupVarP σ y.val = .ok v?) (hla : lookupArrP σ y.val = .ok a?) (htgt : recTarget v? a? = some (loc, ty))
    (hp : isPtrTy ty = false) (hc : locConstP σ loc = false) (hcur : readLocP σ loc = .ok cur)
    (hh : FState.handle (fileSt σ) n = some h) (hm : h.mode = .random) (hrec : h.records[h.ptr]? = some rec) :
    (Codec.load defs cur rec = none →
      (execStmt (f+3) (.getRecord t (.strLit tn n) y)).run.run σ = errAt (tickSt σ) t .recordRead) ∧
    (∀ nv r, Codec.load defs cur rec = some (nv, r) → cur.isArr = nv.isArr →
      ∃ root, (execStmt (f+3) (.getRecord t (.strLit tn n) y)).run.run σ =
          (.ok .none, writeLocSt { σ with steps := σ.steps + 1 } loc root) ∧
        readLocP (writeLocSt { σ with steps := σ.steps + 1 } loc root) loc = .ok nv ∧ (loc.path = [] → root = nv)) := by
  have hget : fstep (fileSt σ) (.get n) = .ok (fileSt σ, .record rec) := (C14_get (fileSt σ) n h hh hm).1 rec hrec
  constructor
  · intro hl
    have hpre : fpre (fileSt σ) (.get n) = .ok () := by simp [fpre, hh, hm]
    rw [exec_getRecord (f+1) t (.strLit tn n) y σ n _ _ hb (evalsTo_strLit f tn n _) hlv hla, hpre, htgt]
    simp only [hp, hc, Bool.false_eq_true, if_false, hget]
    unfold loadInto
    have e1 : readLocP (setFile (tickSt σ) (fileSt σ)) loc = .ok cur := hcur
    have e2 : codecDefsP (setFile (tickSt σ) (fileSt σ)) = .ok defs := hdefs
    rw [e1, e2]
    dsimp only
    rw [hl]
    rfl
  · intro nv r hl hk
    obtain ⟨_, rec', hr, hok, _⟩ :=
      (C16_exec_getRecord (f+1) t (.strLit tn n) y σ n v? a? loc ty cur defs hb (evalsTo_strLit f tn n _)
        hlv hla htgt hp hc hcur hdefs).1 _ _ hget
    injection hr with hr
    subst hr
    exact hok nv r hl hk

/-- **the block `SEEK n, k ; PUTRECORD n, x ; SEEK n, k ; GETRECORD n, y` with any targets** (`locx` holding `v`, `locy` holding
    `cur`, found by the look-ups in `σ` — the look-ups depend on the activations only, which the first three statements do not
    touch). Decided by `Codec.load defs cur (dump v)`:
    * `none`: runtime error `recordRead` at the GETRECORD, final state `putSt σ n (k-1) (dump v) 4`;
    * `some (nv, _)`: normal end; the final state is `putSt σ n (k-1) (dump v) 4` with the root cell of `locy` set to some `root`
      such that `locy` now reads `nv` (and `root = nv` when `locy` is a whole variable / array). -/
theorem run_put_get_loc (hdefs : codecDefsP σ = .ok defs)
    (t1 tn1 tk1 t2 tn2 x t3 tn3 tk3 t4 tn4 y : Tok) (k : Int) (vx? ax? vy? ay? : Option (Act × Slot)) (locx locy : Loc)
    (tx ty : Ty) (v cur : Val) (h : Handle) (hb : σ.steps + 4 ≤ σ.stepLimit)
    (hlvx : lookupVarP σ x.val = .ok vx?) (hlax : lookupArrP σ x.val = .ok ax?) (htgtx : recTarget vx? ax? = some (locx, tx))
    (hpx : isPtrTy tx = false) (hcurx : readLocP σ locx = .ok v)
    (hlvy : lookupVarP σ y.val = .ok vy?) (hlay : lookupArrP σ y.val = .ok ay?) (htgty : recTarget vy? ay? = some (locy, ty))
    (hpy : isPtrTy ty = false) (hcy : locConstP σ locy = false) (hcury : readLocP σ locy = .ok cur)
    (hh : FState.handle (fileSt σ) n = some h) (hm : h.mode = .random) (h1 : 1 ≤ k)
    (h2 : k ≤ (h.records.length : Int) + 1) :
    (Codec.load defs cur (Codec.dump v) = none →
      (runBlock 7 [.seek t1 (.strLit tn1 n) (.intLit tk1 k), .putRecord t2 (.strLit tn2 n) x,
                   .seek t3 (.strLit tn3 n) (.intLit tk3 k), .getRecord t4 (.strLit tn4 n) y]).run.run σ =
        errAt (putSt σ n (k.toNat - 1) (Codec.dump v) 4) t4 .recordRead) ∧
    (∀ nv r', Codec.load defs cur (Codec.dump v) = some (nv, r') → cur.isArr = nv.isArr →
      ∃ root,
        (runBlock 7 [.seek t1 (.strLit tn1 n) (.intLit tk1 k), .putRecord t2 (.strLit tn2 n) x,
                     .seek t3 (.strLit tn3 n) (.intLit tk3 k), .getRecord t4 (.strLit tn4 n) y]).run.run σ =
          (.ok ⟨⟩, writeLocSt (putSt σ n (k.toNat - 1) (Codec.dump v) 4) locy root) ∧
        readLocP (writeLocSt (putSt σ n (k.toNat - 1) (Codec.dump v) 4) locy root) locy = .ok nv ∧
        (locy.path = [] → root = nv)) := by
  obtain ⟨e1, hh1⟩ := step_seek_any (σ := σ) (n := n) 3 t1 tn1 tk1 k h (by omega) hh hm h1 h2
  let σ1 : St := { σ with steps := σ.steps + 1, handles := updHandles σ.handles n fun h => { h with ptr := k.toNat - 1 } }
  have e2 := step_put_loc (σ := σ1) (n := n) 2 t2 tn2 x vx? ax? locx tx v { h with ptr := k.toNat - 1 }
    (by show σ.steps + 1 + 1 ≤ σ.stepLimit; omega) hlvx hlax htgtx hpx hcurx hh1 hm
  have e2' : (execStmt (2+3) (.putRecord t2 (.strLit tn2 n) x)).run.run σ1 =
      (.ok .none, putSt σ n (k.toNat - 1) (Codec.dump v) 2) := by
    rw [e2]
    show (_, ({ σ with steps := σ.steps + 1 + 1, handles := updHandles (updHandles σ.handles n _) n _ } : St)) = _
    rw [updHandles_comp σ.handles n (fun h => { h with ptr := k.toNat - 1 }) (putH (Codec.dump v)) (fun _ => rfl)]
    rfl
  have e3 := run_seek_again (σ := σ) (n := n) 1 t3 tn3 tk3 k (Codec.dump v) 2 h (by omega) hh hm h1 h2
  have hh3 := handle_putSt (σ := σ) n (k.toNat - 1) (Codec.dump v) h hh 3
  have hrec : (putSeekH (k.toNat - 1) (Codec.dump v) h).records[(putSeekH (k.toNat - 1) (Codec.dump v) h).ptr]? =
      some (Codec.dump v) := putAt_self _ _ _ (by omega)
  have e4 := step_get_loc (σ := putSt σ n (k.toNat - 1) (Codec.dump v) 3) (n := n) (defs := defs) hdefs 0 t4 tn4 y vy? ay?
    locy ty cur (putSeekH (k.toNat - 1) (Codec.dump v) h) (Codec.dump v) (by show σ.steps + 3 + 1 ≤ σ.stepLimit; omega)
    hlvy hlay htgty hpy hcy hcury hh3 hm hrec
  constructor
  · intro hl
    rw [run_runBlock_cons 6 _ _ σ σ1 e1, run_runBlock_cons 5 _ _ σ1 _ e2', run_runBlock_cons 4 _ _ _ _ e3]
    exact run_runBlock_cons_err 3 _ _ _ _ _ (e4.1 hl)
  · intro nv r' hl hk
    obtain ⟨root, hrun, hread, hroot⟩ := e4.2 nv r' hl hk
    refine ⟨root, ?_, hread, hroot⟩
    rw [run_runBlock_cons 6 _ _ σ σ1 e1, run_runBlock_cons 5 _ _ σ1 _ e2', run_runBlock_cons 4 _ _ _ _ e3,
      run_runBlock_cons 3 _ _ _ _ hrun]
    exact run_runBlock_nil 2 _

end Loc

end Pseudo.RecordFileRun
