import PseudoProofs.FrameInvSteps
import PseudoProofs.CallLemmas
/-!
# C04 frame theorem applied to a call with BYVAL parameters only

`callProc_byval_frame`: after the arguments are evaluated (state `σ1`, caller `cur` on top, not the global activation, no alias /
pointer into `cur` outside `cur`, argument values without pointers into `cur`), the rest of the call — arity and depth checks,
binding, the body in its own activation (any body), the return — leaves `cur` unchanged except for its call-position note.
The frame theorem is used with `k := cur.id` on the callee's start state, where `cur` is the second activation.
-/
namespace Pseudo.Frame
open Pseudo Pseudo.CallLemmas Pseudo.ArrayLemmas
variable {k : Nat}

theorem bindParams_short (f : Nat) (t : Tok) (ps : List (Str × Ty × Bool)) (es : List Expr) (vs : List Val) (acc : List Slot)
    (h : ps = [] ∨ es = [] ∨ vs = []) : bindParams (f+1) t ps es vs acc = pure acc.reverse := by
  rw [bindParams.eq_def]
  rcases h with rfl | rfl | rfl
  · rfl
  · cases ps <;> rfl
  · cases ps <;> cases es <;> rfl

/-- binding BYVAL parameters only: nothing is evaluated, the state is unchanged, the new cells hold casts of the argument values -/
theorem run_bindParams_allByval (t : Tok) : ∀ (f : Nat) (ps : List (Str × Ty × Bool)) (es : List Expr) (vs : List Val)
    (acc : List Slot) (σ : St), (∀ p ∈ ps, p.2.2 = false) → ListNoPtr k vs → SlotsClosed k acc →
    ((bindParams f t ps es vs acc).run.run σ).2 = σ ∧
    ∀ slots, ((bindParams f t ps es vs acc).run.run σ).1 = .ok slots → SlotsClosed k slots
  | 0, ps, es, vs, acc, σ, _, _, _ => by
    rw [bindParams.eq_def]
    exact ⟨rfl, fun _ h => by cases h⟩
  | f + 1, [], es, vs, acc, σ, _, _, hacc => by
    rw [bindParams_short f t [] es vs acc (.inl rfl)]
    exact ⟨rfl, fun _ h => by cases h; exact slotsClosed_reverse hacc⟩
  | f + 1, p :: ps, [], vs, acc, σ, _, _, hacc => by
    rw [bindParams_short f t _ [] vs acc (.inr (.inl rfl))]
    exact ⟨rfl, fun _ h => by cases h; exact slotsClosed_reverse hacc⟩
  | f + 1, p :: ps, e :: es, [], acc, σ, _, _, hacc => by
    rw [bindParams_short f t _ _ [] acc (.inr (.inr rfl))]
    exact ⟨rfl, fun _ h => by cases h; exact slotsClosed_reverse hacc⟩
  | f + 1, (pn, pty, byRef) :: ps, e :: es, v :: vs, acc, σ, hps, hvs, hacc => by
    have hb : byRef = false := hps _ (List.mem_cons_self ..)
    subst hb
    rw [run_bindParams_byval]
    split
    · exact run_bindParams_allByval t f ps es vs _ σ (fun p hp => hps p (List.mem_cons_of_mem _ hp))
        (listNoPtr_tail hvs) (slotsClosed_cons (slotClosed_plain (noPtr_implicitCast _ (listNoPtr_head hvs))) hacc)
    · exact ⟨rfl, fun _ h => by cases h⟩


theorem second_same {a b : Act} {l l' : List Act}
    (hids : l'.map (·.id) = (a :: b :: l).map (·.id)) (hfil : l'.filter (·.id == k) = (a :: b :: l).filter (·.id == k))
    (ha : a.id ≠ k) (hb : b.id = k) : ∃ a' r', l' = a' :: b :: r' := by
  cases l' with
  | nil => simp at hids
  | cons a' t =>
    cases t with
    | nil => simp at hids
    | cons b' r' =>
      simp only [List.map_cons, List.cons.injEq] at hids
      have e1 : (a.id == k) = false := by simp [ha]
      have e2 : (b.id == k) = true := by simp [hb]
      have e3 : (a'.id == k) = false := by rw [hids.1]; exact e1
      have e4 : (b'.id == k) = true := by rw [hids.2.1]; exact e2
      simp only [List.filter_cons, e1, e2, e3, e4, if_true, Bool.false_eq_true, if_false, List.cons.injEq] at hfil
      exact ⟨a', r', by rw [hfil.1]⟩

theorem EnsF.of_procBody {f : Nat} (hall : AllF k f) (body : Block) : EnsF k (fun _ => True) (procBody f body) := by
  unfold procBody
  refine EnsF.tryCatch (hall.runBlock body) fun e => ?_
  split
  · exact EnsF.l_rtErr _ _
  · exact EnsF.l_rtErr _ _
  · exact EnsF.throw _

theorem callProc_byval_frame (f : Nat) (t : Tok) (name : Str) (args : List Expr) (σ σ1 : St) (pd : ProcDef)
    (vals : List Val) (cur : Act) (rest : List Act)
    (hall : AllF cur.id f)
    (hpd : σ.procs.find? (·.name == name) = some pd)
    (hbyval : ∀ p ∈ pd.params, p.2.2 = false)
    (hargs : (evalArgs f args []).run.run σ = (.ok vals, σ1))
    (hcur : σ1.acts = cur :: rest)
    (hne : rest ≠ [])
    (hglob : ∀ g, rest.getLast? = some g → g.id ≠ cur.id)
    (hbelow : cur.id < σ1.nextId)
    (hvals : ListNoPtr cur.id vals)
    (hclosed : ∀ a ∈ rest, a.id ≠ cur.id → ActClosed cur.id a) :
    ∃ c' rest', ((callProc (f+1) t name args).run.run σ).2.acts = c' :: rest' ∧
      { c' with switchTok := cur.switchTok } = cur := by
  have hsame : ∀ x : Option (Nat × Nat), { ({ cur with switchTok := x } : Act) with switchTok := cur.switchTok } = cur := by
    intro x; cases cur; rfl
  rw [callProc_succ, run_bind_ok _ _ _ _ _ (run_get σ), hpd]
  dsimp only
  rw [run_bind_ok _ _ _ _ _ hargs]
  by_cases hlen : (vals.length != pd.params.length) = true
  · simp only [hlen, if_true]
    rw [run_rtErr]
    exact ⟨cur, rest, hcur, hsame _⟩
  · have hl : (vals.length != pd.params.length) = false := by simpa using hlen
    simp only [hl, Bool.false_eq_true, if_false]
    rw [run_bind_ok _ _ _ _ _ (run_get σ1), run_bind_ok _ _ _ _ _ (run_get σ1)]
    by_cases hd : σ1.depth + 1 > σ1.depthLimit
    · simp only [hd, if_true]
      rw [run_bind_err _ _ _ _ _ (run_rtErr t .budget σ1)]
      exact ⟨cur, rest, hcur, hsame _⟩
    · simp only [hd, if_false]
      rw [run_bind_ok _ _ _ _ _ (run_curAct_cons σ1 cur rest hcur)]
      have hA := run_bindParams_allByval (k := cur.id) t f pd.params args vals [] σ1 hbyval hvals slotsClosed_nil
      rcases hb : (bindParams f t pd.params args vals []).run.run σ1 with ⟨e | slots, σ2⟩
      · rw [hb] at hA
        rw [run_bind_err _ _ _ _ _ hb]
        have : σ2 = σ1 := hA.1
        subst this
        exact ⟨cur, rest, hcur, hsame _⟩
      · rw [hb] at hA
        have : σ2 = σ1 := hA.1
        subst this
        have hslots : SlotsClosed cur.id slots := hA.2 slots rfl
        rw [run_bind_ok _ _ _ _ _ hb, run_bind_ok _ _ _ _ _ (run_modifyAct _ _ σ2), run_bind_ok _ _ _ _ _ (run_modify _ _)]
        rw [run_bind, run_withAct]
        generalize hσm : ({ (updSt σ2 cur.id fun a => { a with switchTok := some (t.line, t.col) }) with
          depth := (updSt σ2 cur.id fun a => { a with switchTok := some (t.line, t.col) }).depth + 1 } : St) = σm
        have hmacts : σm.acts = { cur with switchTok := some (t.line, t.col) } :: rest := by
          rw [← hσm]
          simp only [updSt, hcur, updActs, beq_self_eq_true, if_true]
        have hmnext : σm.nextId = σ2.nextId := by rw [← hσm]; rfl
        generalize hmk : (fun id => ({ id := id, name := pd.name, vars := slots } : Act)) = mk
        have hmkid : ∀ i, (mk i).id = i := by intro i; rw [← hmk]
        have hne' : σ2.nextId ≠ cur.id := Nat.ne_of_gt hbelow
        have hinv : Inv cur.id (pushSt mk σm) := by
          refine ⟨?_, ?_, ?_, ?_⟩
          · intro i hi
            simp only [idsOf, pushSt, List.map_cons, List.head?_cons, Option.some.injEq, hmkid, hmnext] at hi
            rw [← hi]; exact hne'
          · intro i hi
            simp only [idsOf, pushSt, hmacts, List.map_cons] at hi
            cases rest with
            | nil => exact absurd rfl hne
            | cons r0 rs =>
              rw [List.map_cons, List.getLast?_cons_cons, List.getLast?_cons_cons, ← List.map_cons, List.getLast?_map] at hi
              cases hg : (r0 :: rs).getLast? with
              | none => rw [hg] at hi; cases hi
              | some g =>
                rw [hg] at hi
                cases hi
                exact hglob g hg
          · show cur.id < σm.nextId + 1
            rw [hmnext]; omega
          · intro a ha hak
            simp only [pushSt, hmacts, List.mem_cons] at ha
            rcases ha with rfl | rfl | ha
            · rw [← hmk]; exact actClosed_of rfl rfl hslots
            · exact absurd rfl hak
            · exact hclosed a ha hak
        have hrun := (EnsF.of_procBody hall pd.body).run _ hinv
        rcases hr : (procBody f pd.body).run.run (pushSt mk σm) with ⟨o, σ4⟩
        rw [hr] at hrun
        obtain ⟨_, hfr, _⟩ := hrun
        obtain ⟨a4, r4, h4⟩ := second_same (k := cur.id)
          (a := mk σm.nextId) (b := { cur with switchTok := some (t.line, t.col) }) (l := rest) (l' := σ4.acts)
          (by have := hfr.ids; simpa only [idsOf, pushSt, hmacts] using this)
          (by have := hfr.same; simpa only [actsOf, pushSt, hmacts] using this)
          (by rw [hmkid, hmnext]; exact hne') rfl
        have hpop : (popSt σ4).acts = { cur with switchTok := some (t.line, t.col) } :: r4 := by
          simp only [popSt, h4, List.drop_succ_cons, List.drop_zero]
        cases o with
        | error e => exact ⟨_, r4, hpop, hsame _⟩
        | ok u =>
          dsimp only
          rw [run_bind_ok _ _ _ _ _ (run_modify _ _), run_modifyAct]
          refine ⟨{ cur with switchTok := none }, r4, ?_, hsame _⟩
          simp only [updSt, hpop, updActs, beq_self_eq_true, if_true]

/-! ### the same for a function call -/

theorem EnsF.of_funBody {f : Nat} (ih : AllF k f) (fd : FunDef) :
    EnsF k (Safe.safe k) (funBody f fd) := by
  unfold funBody funBlock
  fr_auto

theorem callFun_byval_frame (f : Nat) (t : Tok) (args : List Expr) (σ σ1 : St) (fd : FunDef)
    (vals : List Val) (cur : Act) (rest : List Act)
    (hall : AllF cur.id f)
    (hfd : funLookup σ t.val = some fd)
    (hbyval : ∀ p ∈ fd.params, p.2.2 = false)
    (hargs : (evalArgs f args []).run.run σ = (.ok vals, σ1))
    (hcur : σ1.acts = cur :: rest)
    (hne : rest ≠ [])
    (hglob : ∀ g, rest.getLast? = some g → g.id ≠ cur.id)
    (hbelow : cur.id < σ1.nextId)
    (hvals : ListNoPtr cur.id vals)
    (hclosed : ∀ a ∈ rest, a.id ≠ cur.id → ActClosed cur.id a) :
    ∃ c' rest', ((callFun (f+1) t args).run.run σ).2.acts = c' :: rest' ∧
      { c' with switchTok := cur.switchTok } = cur := by
  have hsame : ∀ x : Option (Nat × Nat), { ({ cur with switchTok := x } : Act) with switchTok := cur.switchTok } = cur := by
    intro x; cases cur; rfl
  rw [callFun_succ, run_bind_ok _ _ _ _ _ (run_get σ), hfd]
  dsimp only
  rw [run_bind_ok _ _ _ _ _ hargs]
  by_cases hlen : (vals.length != fd.params.length) = true
  · simp only [hlen, if_true]
    rw [run_rtErr]
    exact ⟨cur, rest, hcur, hsame _⟩
  · have hl : (vals.length != fd.params.length) = false := by simpa using hlen
    simp only [hl, Bool.false_eq_true, if_false]
    rw [run_bind_ok _ _ _ _ _ (run_get σ1), run_bind_ok _ _ _ _ _ (run_get σ1)]
    by_cases hd : σ1.depth + 1 > σ1.depthLimit
    · simp only [hd, if_true]
      rw [run_bind_err _ _ _ _ _ (run_rtErr t .budget σ1)]
      exact ⟨cur, rest, hcur, hsame _⟩
    · simp only [hd, if_false]
      rw [run_bind_ok _ _ _ _ _ (run_curAct_cons σ1 cur rest hcur)]
      have hA := run_bindParams_allByval (k := cur.id) t f fd.params args vals [] σ1 hbyval hvals slotsClosed_nil
      rcases hb : (bindParams f t fd.params args vals []).run.run σ1 with ⟨e | slots, σ2⟩
      · rw [hb] at hA
        rw [run_bind_err _ _ _ _ _ hb]
        have : σ2 = σ1 := hA.1
        subst this
        exact ⟨cur, rest, hcur, hsame _⟩
      · rw [hb] at hA
        have : σ2 = σ1 := hA.1
        subst this
        have hslots : SlotsClosed cur.id slots := hA.2 slots rfl
        rw [run_bind_ok _ _ _ _ _ hb, run_bind_ok _ _ _ _ _ (run_modifyAct _ _ σ2), run_bind_ok _ _ _ _ _ (run_modify _ _)]
        rw [run_bind, run_withAct]
        generalize hσm : ({ (updSt σ2 cur.id fun a => { a with switchTok := some (t.line, t.col) }) with
          depth := (updSt σ2 cur.id fun a => { a with switchTok := some (t.line, t.col) }).depth + 1 } : St) = σm
        have hmacts : σm.acts = { cur with switchTok := some (t.line, t.col) } :: rest := by
          rw [← hσm]
          simp only [updSt, hcur, updActs, beq_self_eq_true, if_true]
        have hmnext : σm.nextId = σ2.nextId := by rw [← hσm]; rfl
        generalize hmk : (fun id => ({ id := id, name := fd.name, isFn := true, retTy := fd.ret, vars := slots } : Act)) = mk
        have hmkid : ∀ i, (mk i).id = i := by intro i; rw [← hmk]
        have hne' : σ2.nextId ≠ cur.id := Nat.ne_of_gt hbelow
        have hinv : Inv cur.id (pushSt mk σm) := by
          refine ⟨?_, ?_, ?_, ?_⟩
          · intro i hi
            simp only [idsOf, pushSt, List.map_cons, List.head?_cons, Option.some.injEq, hmkid, hmnext] at hi
            rw [← hi]; exact hne'
          · intro i hi
            simp only [idsOf, pushSt, hmacts, List.map_cons] at hi
            cases rest with
            | nil => exact absurd rfl hne
            | cons r0 rs =>
              rw [List.map_cons, List.getLast?_cons_cons, List.getLast?_cons_cons, ← List.map_cons, List.getLast?_map] at hi
              cases hg : (r0 :: rs).getLast? with
              | none => rw [hg] at hi; cases hi
              | some g =>
                rw [hg] at hi
                cases hi
                exact hglob g hg
          · show cur.id < σm.nextId + 1
            rw [hmnext]; omega
          · intro a ha hak
            simp only [pushSt, hmacts, List.mem_cons] at ha
            rcases ha with rfl | rfl | ha
            · rw [← hmk]; exact actClosed_of rfl rfl hslots
            · exact absurd rfl hak
            · exact hclosed a ha hak
        have hrun := (EnsF.of_funBody hall fd).run _ hinv
        rcases hr : (funBody f fd).run.run (pushSt mk σm) with ⟨o, σ4⟩
        rw [hr] at hrun
        obtain ⟨_, hfr, _⟩ := hrun
        obtain ⟨a4, r4, h4⟩ := second_same (k := cur.id)
          (a := mk σm.nextId) (b := { cur with switchTok := some (t.line, t.col) }) (l := rest) (l' := σ4.acts)
          (by have := hfr.ids; simpa only [idsOf, pushSt, hmacts] using this)
          (by have := hfr.same; simpa only [actsOf, pushSt, hmacts] using this)
          (by rw [hmkid, hmnext]; exact hne') rfl
        have hpop : (popSt σ4).acts = { cur with switchTok := some (t.line, t.col) } :: r4 := by
          simp only [popSt, h4, List.drop_succ_cons, List.drop_zero]
        cases o with
        | error e => exact ⟨_, r4, hpop, hsame _⟩
        | ok u =>
          dsimp only
          rw [run_bind_ok _ _ _ _ _ (run_modify _ _), run_bind_ok _ _ _ _ _ (run_modifyAct _ _ _)]
          refine ⟨{ cur with switchTok := none }, r4, ?_, hsame _⟩
          cases u <;> simp only [updSt, hpop, updActs, beq_self_eq_true, if_true] <;> rfl

end Pseudo.Frame
