import PseudoProofs.FrameInvTac
/-!
# C04 frame theorem: the 24 step lemmas other than `execStmt`
-/
namespace Pseudo.Frame
open Pseudo
variable {k f : Nat}

theorem step_evalArgs (ih : AllF k f) : ∀ es acc, Leaf (ListNoPtr k acc) → EnsF k (ListNoPtr k) (evalArgs (f+1) es acc) := by
  intro es acc hacc; fr_fn evalArgs

theorem step_evalIndices (ih : AllF k f) : ∀ es dims acc, EnsF k (fun _ => True) (evalIndices (f+1) es dims acc) := by
  intro es dims acc; fr_fn evalIndices

theorem step_resolveRef (ih : AllF k f) : ∀ r, EnsF k (HolderSafe k) (resolveRef (f+1) r) := by
  intro r; fr_fn resolveRef

set_option maxHeartbeats 1000000 in
theorem step_evalExpr (ih : AllF k f) : ∀ e, EnsF k (NoPtr k) (evalExpr (f+1) e) := by
  intro e; fr_fn evalExpr

theorem step_bindParams (ih : AllF k f) : ∀ t ps es vs acc, Leaf (ListNoPtr k vs) → Leaf (SlotsClosed k acc) →
    EnsF k (SlotsClosed k) (bindParams (f+1) t ps es vs acc) := by
  intro t ps es vs acc hvs hacc; fr_fn bindParams

theorem step_defaultVal (ih : AllF k f) : ∀ t ty, EnsF k (NoPtr k) (defaultVal (f+1) t ty) := by
  intro t ty; fr_fn defaultVal

theorem step_defaultCells (ih : AllF k f) : ∀ t ty n acc, Leaf (ListNoPtr k acc) →
    EnsF k (ListNoPtr k) (defaultCells (f+1) t ty n acc) := by
  intro t ty n acc hacc; fr_fn defaultCells

set_option maxHeartbeats 1000000 in
theorem step_execAssign (ih : AllF k f) : ∀ t r rhs, EnsF k (fun _ => True) (execAssign (f+1) t r rhs) := by
  intro t r rhs; fr_fn execAssign

set_option maxHeartbeats 2000000 in
theorem step_callFun (ih : AllF k f) : ∀ t args, EnsF k (NoPtr k) (callFun (f+1) t args) := by
  intro t args; fr_fn callFun

set_option maxHeartbeats 2000000 in
theorem step_callProc (ih : AllF k f) : ∀ t name args, EnsF k (fun _ => True) (callProc (f+1) t name args) := by
  intro t name args; fr_fn callProc

theorem step_forLoop (ih : AllF k f) : ∀ t it stop step b, it.act ≠ k → EnsF k (fun _ => True) (forLoop (f+1) t it stop step b) := by
  intro t it stop step b hit; fr_fn forLoop

theorem step_declareVars (ih : AllF k f) : ∀ t ids ty, EnsF k (fun _ => True) (declareVars (f+1) t ids ty) := by
  intro t ids ty; fr_fn declareVars

theorem step_declareArrs (ih : AllF k f) : ∀ t ids ty dims, EnsF k (fun _ => True) (declareArrs (f+1) t ids ty dims) := by
  intro t ids ty dims; fr_fn declareArrs

theorem step_runBlock (ih : AllF k f) : ∀ b, EnsF k (fun _ => True) (runBlock (f+1) b) := by
  intro b; fr_fn runBlock

theorem step_ifChain (ih : AllF k f) : ∀ t bs els, EnsF k (fun _ => True) (ifChain (f+1) t bs els) := by
  intro t bs els; fr_fn ifChain

theorem step_caseMatch (ih : AllF k f) : ∀ v cl, EnsF k (fun _ => True) (caseMatch (f+1) v cl) := by
  intro v cl; fr_fn caseMatch

theorem step_caseClauses (ih : AllF k f) : ∀ v cls, EnsF k (fun _ => True) (caseClauses (f+1) v cls) := by
  intro v cls; fr_fn caseClauses

theorem step_loopBody (ih : AllF k f) : ∀ b, EnsF k (fun _ => True) (loopBody (f+1) b) := by
  intro b; fr_fn loopBody

theorem step_whileLoop (ih : AllF k f) : ∀ t c b, EnsF k (fun _ => True) (whileLoop (f+1) t c b) := by
  intro t c b; fr_fn whileLoop

theorem step_repeatLoop (ih : AllF k f) : ∀ t b c, EnsF k (fun _ => True) (repeatLoop (f+1) t b c) := by
  intro t b c; fr_fn repeatLoop

theorem step_resolveParams (ih : AllF k f) : ∀ ps acc, EnsF k (fun _ => True) (resolveParams (f+1) ps acc) := by
  intro ps acc; fr_fn resolveParams

theorem step_evalBounds (ih : AllF k f) : ∀ bs acc, EnsF k (fun _ => True) (evalBounds (f+1) bs acc) := by
  intro bs acc; fr_fn evalBounds

theorem step_outputAll (ih : AllF k f) : ∀ es, EnsF k (fun _ => True) (outputAll (f+1) es) := by
  intro es; fr_fn outputAll

theorem step_fileName (ih : AllF k f) : ∀ t e, EnsF k (fun _ => True) (fileName (f+1) t e) := by
  intro t e; fr_fn fileName

end Pseudo.Frame
