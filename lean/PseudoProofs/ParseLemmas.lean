import PseudoModel.Parser
import PseudoModel.Printer
/-!
# PseudoProofs.ParseLemmas — big-step lemmas about the fuelled expression parser (support of C02Parse)
-/
namespace Pseudo

/-! ## running `P` on a concrete state -/

theorem run_bind {α β} (x : P α) (g : α → P β) (s : PState) :
    (x >>= g).run.run s = match x.run.run s with
      | (.ok a, s') => (g a).run.run s'
      | (.error d, s') => (.error d, s') := by
  simp only [ExceptT.run_bind, StateT.run_bind]
  rcases h : x.run.run s with ⟨r, s'⟩
  cases r <;> rfl

theorem run_pure {α} (a : α) (s : PState) : (pure a : P α).run.run s = (.ok a, s) := rfl

def headK (l : List Tok) : TK := (l.headD eofTok).k

@[simp] theorem headK_cons (t : Tok) (ts : List Tok) : headK (t :: ts) = t.k := rfl

theorem cur_run (inp : List Tok) (w) :
    (P.cur).run.run ⟨inp, w⟩ = (.ok (inp.headD eofTok), ⟨inp, w⟩) := rfl

theorem adv_run (t t' : Tok) (ts w) :
    (P.adv).run.run ⟨t :: t' :: ts, w⟩ = (.ok (), ⟨t' :: ts, w⟩) := rfl

theorem peekIs1_run (t t' : Tok) (ts w) (k : TK) :
    (P.peekIs 1 k).run.run ⟨t :: t' :: ts, w⟩ = (.ok (t'.k == k), ⟨t :: t' :: ts, w⟩) := rfl

theorem expect_run (t t' : Tok) (ts w) (k : TK) (h : t.k = k) :
    (P.expect k).run.run ⟨t :: t' :: ts, w⟩ = (.ok t, ⟨t' :: ts, w⟩) := by
  unfold P.expect
  simp only [run_bind, cur_run, List.headD_cons, h, beq_self_eq_true, if_true, adv_run, run_pure]

/-! ## big-step view of the fuelled parser -/

/-- `p` run with enough fuel on `inp` returns `r` and leaves `out` (warnings untouched) -/
def Parses {α} (p : Nat → P α) (inp : List Tok) (r : α) (out : List Tok) : Prop :=
  ∃ f₀, ∀ f, f₀ ≤ f → ∀ w, (p f).run.run ⟨inp, w⟩ = (.ok r, ⟨out, w⟩)

theorem loop_stop (cfg : PCfg) {L : Nat} {lhs : Expr} {out : List Tok}
    (h : levelOp L (headK out) = none) : Parses (fun f => loopLevel cfg f L lhs) out lhs out := by
  dsimp only [Parses] at *
  refine ⟨1, fun f hf w => ?_⟩
  obtain ⟨g, rfl⟩ : ∃ g, f = g + 1 := ⟨f - 1, by omega⟩
  rw [loopLevel]
  unfold headK at h
  simp only [run_bind, cur_run, h, run_pure]

theorem loop_step (cfg : PCfg) {L : Nat} {lhs rhs r : Expr} {t : Tok} {ts mid out : List Tok} {mk}
    (hop : levelOp L t.k = some mk) (hts : ts ≠ [])
    (h1 : Parses (fun f => parseLevel cfg f (L + 1)) ts rhs mid)
    (h2 : Parses (fun f => loopLevel cfg f L (mk t lhs rhs)) mid r out) :
    Parses (fun f => loopLevel cfg f L lhs) (t :: ts) r out := by
  dsimp only [Parses] at *
  obtain ⟨f1, h1⟩ := h1
  obtain ⟨f2, h2⟩ := h2
  obtain ⟨t', ts', rfl⟩ := List.exists_cons_of_ne_nil hts
  refine ⟨max f1 f2 + 1, fun f hf w => ?_⟩
  obtain ⟨g, rfl⟩ : ∃ g, f = g + 1 := ⟨f - 1, by omega⟩
  rw [loopLevel]
  simp only [run_bind, cur_run, List.headD_cons, hop, adv_run]
  rw [h1 g (by omega)]
  exact h2 g (by omega) w

theorem level_of_succ (cfg : PCfg) {L : Nat} {inp mid out : List Tok} {lhs r : Expr}
    (hL : L < 6) (hnot : L = 2 → headK inp ≠ .NOT)
    (h1 : Parses (fun f => parseLevel cfg f (L + 1)) inp lhs mid)
    (h2 : Parses (fun f => loopLevel cfg f L lhs) mid r out) :
    Parses (fun f => parseLevel cfg f L) inp r out := by
  dsimp only [Parses] at *
  obtain ⟨f1, h1⟩ := h1
  obtain ⟨f2, h2⟩ := h2
  refine ⟨max f1 f2 + 1, fun f hf w => ?_⟩
  obtain ⟨g, rfl⟩ : ∃ g, f = g + 1 := ⟨f - 1, by omega⟩
  rw [parseLevel]
  have hc : (L == 2 && (inp.headD eofTok).k == .NOT) = false := by
    by_cases h : L = 2
    · have h' : ((inp.headD eofTok).k == TK.NOT) = false := beq_eq_false_iff_ne.mpr (hnot h)
      rw [h', Bool.and_false]
    · have h' : (L == 2) = false := beq_eq_false_iff_ne.mpr h
      rw [h', Bool.false_and]
  simp only [ge_iff_le, show ¬ (6 ≤ L) by omega, if_false, run_bind, cur_run, hc, Bool.false_eq_true]
  rw [h1 g (by omega)]
  exact h2 g (by omega) w

theorem level_not (cfg : PCfg) {inp out : List Tok} {e : Expr}
    (h1 : Parses (fun f => parseLevel cfg f 2) inp e out) (hne : inp ≠ []) :
    Parses (fun f => parseLevel cfg f 2) (notT :: inp) (.not notT e) out := by
  dsimp only [Parses] at *
  obtain ⟨f1, h1⟩ := h1
  obtain ⟨t', ts', rfl⟩ := List.exists_cons_of_ne_nil hne
  refine ⟨f1 + 1, fun f hf w => ?_⟩
  obtain ⟨g, rfl⟩ : ∃ g, f = g + 1 := ⟨f - 1, by omega⟩
  rw [parseLevel]
  have hc : ((2 : Nat) == 2 && notT.k == .NOT) = true := by decide
  simp only [ge_iff_le, show ¬ (6 ≤ 2) by omega, if_false, run_bind, cur_run, List.headD_cons, hc,
    if_true, adv_run]
  rw [h1 g (by omega)]
  rfl

theorem level_ge6 (cfg : PCfg) {j : Nat} {inp out : List Tok} {e : Expr} (hj : 6 ≤ j)
    (h : Parses (fun f => parseFactor cfg f) inp e out) :
    Parses (fun f => parseLevel cfg f j) inp e out := by
  dsimp only [Parses] at *
  obtain ⟨f1, h1⟩ := h
  refine ⟨f1 + 1, fun f hf w => ?_⟩
  obtain ⟨g, rfl⟩ : ∃ g, f = g + 1 := ⟨f - 1, by omega⟩
  rw [parseLevel]
  simp only [ge_iff_le, hj, if_true]
  exact h1 g (by omega) w

theorem factor_of_atom (cfg : PCfg) {inp out : List Tok} {e : Expr} (hm : headK inp ≠ .MINUS)
    (h : Parses (fun f => parseAtom cfg f) inp e out) :
    Parses (fun f => parseFactor cfg f) inp e out := by
  dsimp only [Parses] at *
  obtain ⟨f1, h1⟩ := h
  refine ⟨f1 + 1, fun f hf w => ?_⟩
  obtain ⟨g, rfl⟩ : ∃ g, f = g + 1 := ⟨f - 1, by omega⟩
  rw [parseFactor]
  have hc : ((inp.headD eofTok).k == .MINUS) = false := beq_eq_false_iff_ne.mpr hm
  simp only [run_bind, cur_run, hc, Bool.false_eq_true, if_false]
  exact h1 g (by omega) w

theorem factor_neg (cfg : PCfg) {inp out : List Tok} {e : Expr} (hne : inp ≠ [])
    (h : Parses (fun f => parseAtom cfg f) inp e out) :
    Parses (fun f => parseFactor cfg f) (minusT :: inp) (.neg minusT e) out := by
  dsimp only [Parses] at *
  obtain ⟨f1, h1⟩ := h
  obtain ⟨t', ts', rfl⟩ := List.exists_cons_of_ne_nil hne
  refine ⟨f1 + 1, fun f hf w => ?_⟩
  obtain ⟨g, rfl⟩ : ∃ g, f = g + 1 := ⟨f - 1, by omega⟩
  rw [parseFactor]
  have hc : (minusT.k == .MINUS) = true := by decide
  simp only [run_bind, cur_run, List.headD_cons, hc, if_true, adv_run]
  rw [h1 g (by omega)]
  rfl

theorem atom_lit (cfg : PCfg) {t : Tok} {ts : List Tok} {e : Expr}
    (hl : parseLiteral? t = some (.ok e)) (hts : ts ≠ []) :
    Parses (fun f => parseAtom cfg f) (t :: ts) e ts := by
  dsimp only [Parses] at *
  obtain ⟨t', ts', rfl⟩ := List.exists_cons_of_ne_nil hts
  refine ⟨1, fun f hf w => ?_⟩
  obtain ⟨g, rfl⟩ : ∃ g, f = g + 1 := ⟨f - 1, by omega⟩
  rw [parseAtom]
  simp only [run_bind, cur_run, List.headD_cons, hl, adv_run, run_pure]

theorem atom_paren (cfg : PCfg) {inp out : List Tok} {e : Expr} (hne : inp ≠ []) (hout : out ≠ [])
    (h : Parses (fun f => parseLevel cfg f 0) inp e (rparenT :: out)) :
    Parses (fun f => parseAtom cfg f) (lparenT :: inp) e out := by
  dsimp only [Parses] at *
  obtain ⟨f1, h1⟩ := h
  obtain ⟨t', ts', rfl⟩ := List.exists_cons_of_ne_nil hne
  obtain ⟨o', os', rfl⟩ := List.exists_cons_of_ne_nil hout
  refine ⟨f1 + 1, fun f hf w => ?_⟩
  obtain ⟨g, rfl⟩ : ∃ g, f = g + 1 := ⟨f - 1, by omega⟩
  rw [parseAtom]
  have hl : parseLiteral? lparenT = none := rfl
  have hk : lparenT.k = .LPAREN := rfl
  simp only [run_bind, cur_run, List.headD_cons, hl, hk, adv_run]
  have e1 := h1 g (by omega) w
  simp only [e1, expect_run rparenT o' os' w TK.RPAREN rfl, run_pure]

/-- token kinds that would continue an identifier expression (call, member, dereference, index,
    assignment) -/
def refStop (k : TK) : Bool :=
  k != .LPAREN && k != .PERIOD && k != .CARET && k != .LSQRBRACKET && k != .ASSIGNMENT

theorem atom_var (cfg : PCfg) {x : Str} {t' : Tok} {ts : List Tok} (hs : refStop t'.k = true) :
    Parses (fun f => parseAtom cfg f) (varT x :: t' :: ts)
      (.access (varT x) (.var (varT x))) (t' :: ts) := by
  dsimp only [Parses] at *
  refine ⟨3, fun f hf w => ?_⟩
  obtain ⟨g, rfl⟩ : ∃ g, f = g + 3 := ⟨f - 3, by omega⟩
  rw [parseAtom]
  have hl : parseLiteral? (varT x) = none := rfl
  have hk : (varT x).k = .IDENTIFIER := rfl
  simp only [refStop, Bool.and_eq_true, bne_iff_ne, ne_eq] at hs
  obtain ⟨⟨⟨⟨h1, h2⟩, h3⟩, h4⟩, h5⟩ := hs
  have hp : (t'.k == TK.LPAREN) = false := beq_eq_false_iff_ne.mpr h1
  have ha : (t'.k == TK.ASSIGNMENT) = false := beq_eq_false_iff_ne.mpr h5
  have hr : (refLoop cfg (g + 1) (.var (varT x))).run.run ⟨t' :: ts, w⟩
      = (.ok (.var (varT x)), ⟨t' :: ts, w⟩) := by
    rw [refLoop]
    simp only [run_bind, cur_run, List.headD_cons]
    rfl
  simp only [run_bind, cur_run, List.headD_cons, hl, hk, peekIs1_run, hp, Bool.false_eq_true, if_false]
  rw [parseRef]
  simp only [run_bind, cur_run, List.headD_cons, adv_run, hr, ha, Bool.false_eq_true, if_false, run_pure]

/-! ## stopping condition on the rest of the input -/

/-- the input after the expression is non-empty (there is always a final EXPRESSION_END), its first
    token is no operator of a level ≥ `k` (the operator loops stop) and does not continue an
    identifier expression -/
def StopsAt (k : Nat) (rest : List Tok) : Prop :=
  ∃ t ts, rest = t :: ts ∧ (∀ j, k ≤ j → levelOp j t.k = none) ∧ refStop t.k = true

theorem StopsAt.mono {k k' : Nat} {rest : List Tok} (h : StopsAt k rest) (hk : k ≤ k') :
    StopsAt k' rest := by
  obtain ⟨t, ts, rfl, h1, h2⟩ := h
  exact ⟨t, ts, rfl, fun j hj => h1 j (by omega), h2⟩

theorem StopsAt.ne_nil {k : Nat} {rest : List Tok} (h : StopsAt k rest) : rest ≠ [] := by
  obtain ⟨t, ts, rfl, _, _⟩ := h
  exact List.cons_ne_nil _ _

theorem StopsAt.head {k j : Nat} {rest : List Tok} (h : StopsAt k rest) (hj : k ≤ j) :
    levelOp j (headK rest) = none := by
  obtain ⟨t, ts, rfl, h1, _⟩ := h
  exact h1 j hj

theorem StopsAt.of_tok {k : Nat} {t : Tok} {ts : List Tok} (h1 : ∀ j, levelOp j t.k = none)
    (h2 : refStop t.k = true) : StopsAt k (t :: ts) :=
  ⟨t, ts, rfl, fun j _ => h1 j, h2⟩

theorem levelOp_RPAREN (j : Nat) : levelOp j TK.RPAREN = none := by
  rcases j with _|_|_|_|_|_|j <;> rfl

theorem levelOp_EXPRESSION_END (j : Nat) : levelOp j TK.EXPRESSION_END = none := by
  rcases j with _|_|_|_|_|_|j <;> rfl

theorem StopsAt.rparen (k : Nat) (ts : List Tok) : StopsAt k (rparenT :: ts) :=
  StopsAt.of_tok levelOp_RPAREN rfl

theorem StopsAt.eof (k : Nat) (ts : List Tok) : StopsAt k (eofTok :: ts) :=
  StopsAt.of_tok levelOp_EXPRESSION_END rfl

/-! ## derived descent lemmas -/

theorem level_up (cfg : PCfg) {L : Nat} {inp out : List Tok} {e : Expr}
    (hL : L < 6) (hnot : L = 2 → headK inp ≠ .NOT) (hstop : levelOp L (headK out) = none)
    (h : Parses (fun f => parseLevel cfg f (L + 1)) inp e out) :
    Parses (fun f => parseLevel cfg f L) inp e out :=
  level_of_succ cfg hL hnot h (loop_stop cfg hstop)

theorem level_from_aux (cfg : PCfg) {inp out : List Tok} {e : Expr} (d : Nat) :
    ∀ j, j + d ≤ 6 → (j ≤ 2 → 2 < j + d → headK inp ≠ .NOT) → StopsAt j out →
      Parses (fun f => parseLevel cfg f (j + d)) inp e out →
      Parses (fun f => parseLevel cfg f j) inp e out := by
  induction d with
  | zero => intro j _ _ _ h; exact h
  | succ d ih =>
    intro j hj hnot hstop h
    have h' : Parses (fun f => parseLevel cfg f (j + 1)) inp e out := by
      apply ih (j + 1) (by omega) (fun h1 h2 => hnot (by omega) (by omega)) (hstop.mono (by omega))
      rw [show j + 1 + d = j + (d + 1) by omega]; exact h
    exact level_up cfg (by omega) (fun h1 => hnot (by omega) (by omega)) (hstop.head (Nat.le_refl _)) h'

theorem level_from (cfg : PCfg) {j j' : Nat} {inp out : List Tok} {e : Expr}
    (hjj : j ≤ j') (hj' : j' ≤ 6) (hnot : j ≤ 2 → 2 < j' → headK inp ≠ .NOT) (hstop : StopsAt j out)
    (h : Parses (fun f => parseLevel cfg f j') inp e out) :
    Parses (fun f => parseLevel cfg f j) inp e out := by
  obtain ⟨d, rfl⟩ : ∃ d, j' = j + d := ⟨j' - j, by omega⟩
  exact level_from_aux cfg d j hj' hnot hstop h

theorem level_of_atom (cfg : PCfg) (j : Nat) {inp out : List Tok} {e : Expr}
    (hstop : StopsAt j out) (h1 : headK inp ≠ .NOT) (h2 : headK inp ≠ .MINUS)
    (h : Parses (fun f => parseAtom cfg f) inp e out) :
    Parses (fun f => parseLevel cfg f j) inp e out := by
  by_cases hj : 6 ≤ j
  · exact level_ge6 cfg hj (factor_of_atom cfg h2 h)
  · exact level_from cfg (by omega) (Nat.le_refl 6) (fun _ _ => h1) hstop
      (level_ge6 cfg (Nat.le_refl 6) (factor_of_atom cfg h2 h))

/-- inversion: at a level ≥ 6 without a leading minus the atom parser ran -/
theorem atom_of_level_ge6 (cfg : PCfg) {j : Nat} {inp out : List Tok} {e : Expr} (hj : 6 ≤ j)
    (hm : headK inp ≠ .MINUS) (h : Parses (fun f => parseLevel cfg f j) inp e out) :
    Parses (fun f => parseAtom cfg f) inp e out := by
  dsimp only [Parses] at *
  obtain ⟨f1, h1⟩ := h
  refine ⟨f1, fun f hf w => ?_⟩
  have := h1 (f + 2) (by omega) w
  rw [parseLevel] at this
  simp only [ge_iff_le, hj, if_true] at this
  rw [parseFactor] at this
  have hc : ((inp.headD eofTok).k == .MINUS) = false := beq_eq_false_iff_ne.mpr hm
  simp only [run_bind, cur_run, hc, Bool.false_eq_true, if_false] at this
  exact this

/-! ## the operator table agrees with the documented levels -/

theorem op_levelOp (op : BinOpTok) : levelOp op.level op.tk = some op.mk := by
  cases op <;> rfl

theorem op_level_le (op : BinOpTok) : 1 ≤ op.level ∧ op.level ≤ 5 := by
  cases op <;> decide

theorem op_above (op : BinOpTok) (j : Nat) (h : op.level < j) : levelOp j op.tk = none := by
  rcases j with _|_|_|_|_|_|j <;> cases op <;> first | rfl | (exfalso; revert h; decide)

theorem op_refStop (op : BinOpTok) : refStop op.tk = true := by
  cases op <;> rfl

theorem op_StopsAt (op : BinOpTok) (ts : List Tok) : StopsAt (op.level + 1) (op.tok :: ts) :=
  ⟨op.tok, ts, rfl, fun j hj => op_above op j (by omega), op_refStop op⟩

/-! ## literals -/

theorem digitChar_val (d : Nat) (h : d < 10) : (digitChar d).toNat - '0'.toNat = d := by
  have : ∀ d : Fin 10, (digitChar d.val).toNat - '0'.toNat = d.val := by decide
  exact this ⟨d, h⟩

theorem digitsVal_snoc (s : Str) (c : Char) :
    digitsVal (s ++ [c]) = digitsVal s * 10 + (c.toNat - '0'.toNat) := by
  simp [digitsVal, List.foldl_append]

theorem digitsVal_natDigitsAux (f n : Nat) (h : n < f) : digitsVal (natDigitsAux f n) = n := by
  induction f generalizing n with
  | zero => omega
  | succ f ih =>
    rw [natDigitsAux]
    by_cases hn : n < 10
    · simp only [hn, if_true]
      have := digitsVal_snoc [] (digitChar n)
      simp only [List.nil_append] at this
      rw [this, digitChar_val n hn]; simp [digitsVal]
    · simp only [hn, if_false]
      rw [digitsVal_snoc, ih (n / 10) (by omega), digitChar_val _ (by omega)]
      omega

theorem digitsVal_natDigits (n : Nat) : digitsVal (natDigits n) = n :=
  digitsVal_natDigitsAux (n + 1) n (by omega)

theorem parseLiteral_int (n : Nat) (h : (n : Int) < two63) :
    parseLiteral? (intT n) = some (.ok (.intLit (intT n) n)) := by
  simp only [parseLiteral?, intT, mkT, digitsVal_natDigits, h, if_true]

theorem parseLiteral_bool (b : Bool) : parseLiteral? (boolT b) = some (.ok (.boolLit (boolT b) b)) := by
  cases b <;> rfl

theorem parseLiteral_str (s : Str) : parseLiteral? (strT s) = some (.ok (.strLit (strT s) s)) := rfl

end Pseudo

