import PseudoProofs.NoCrashLScope
import PseudoProofs.NoCrashLPure
/-!
# C01 with TYPE statements anywhere: the primitives in the Hoare layer, part 1 (analogue of `NoCrashRPrims.lean`)
-/
namespace Pseudo.NL
open Pseudo
open Pseudo.NC (ReadsIn ActRead ErrOK ErrNR NoCrash RO EOK readsIn_iff mem_updActs updActs_ne_nil errOK_diag errNR_diag errOK_fuel
  errNR_fuel errOK_brk errOK_cont getLast?_mem ro_findAct ro_isLive ro_rtErr ro_rtErr0 ro_pedErr ro_liftMsg ro_liftMsg0 ro_readLoc
  ro_locIsConst ro_filePre ro_writeText ro_get getPath_nil setPath_nil getPath_arr_cons getPath_arr_field setPath_arr_cons
  findSlot_name findSlot_mem findSlot_cons findSlot_updSlot_eq findSlot_updSlot_ne mem_updSlot findSlot_append)
open Pseudo.NR (litDims declStmt declBody NArr Kind kind SameKind sigOf SigDefined Live genums gptrs gcomps kind_val_narr
  kind_of_narr kind_arr_inv)

section ro
variable {α β : Type} {σ : St}

theorem WF.top (h : WF σ) : ∃ a rest, σ.acts = a :: rest := by
  cases hσ : σ.acts with
  | nil => exact absurd hσ h.ne
  | cons a rest => exact ⟨a, rest, rfl⟩

/-- the invariant of the top activation, in the scope of its slots -/
theorem WF.topOK (h : WF σ) {a : Act} {rest : List Act} (hσ : σ.acts = a :: rest) : ActOK σ (tscope σ) rest a := by
  have := h.stack; rw [hσ] at this
  unfold tscope; rw [hσ]; exact this.1

theorem scopeAtL_split {g : Nat} {pre deeper : List Act} {a : Act} (hd : ∀ b ∈ pre, b.id ≠ a.id) :
    scopeAtL g (pre ++ a :: deeper) a.id = scopeOfL g (a :: deeper) := by
  induction pre with
  | nil => exact scopeAtL_hit (by simp)
  | cons c r ih =>
    have hc : ¬ (c.id == a.id) = true := by simpa using hd c List.mem_cons_self
    show scopeAtL g (c :: (r ++ a :: deeper)) a.id = _
    rw [scopeAtL_miss hc]
    exact ih fun b hb => hd b (List.mem_cons_of_mem _ hb)

theorem StackOK.pre_ne {σ : St} : ∀ {pre deeper : List Act} {a : Act}, StackOK σ (pre ++ a :: deeper) → ∀ b ∈ pre, b.id ≠ a.id
  | [], _, _, _, _, hb => by cases hb
  | c :: r, deeper, a, h, b, hb => by
    rcases List.mem_cons.1 hb with rfl | hb
    · exact fun e => h.2.1 a (List.mem_append_right _ List.mem_cons_self) e.symm
    · exact StackOK.pre_ne h.2.2 b hb

/-- the invariant of any live activation, in the scope of its slots -/
theorem WF.memOK (hW : WF σ) {a : Act} (ha : a ∈ σ.acts) : ∃ deeper, ActOK σ (scopeAt σ a.id) deeper a := by
  obtain ⟨pre, deeper, h1, h2⟩ := hW.stack.split ha
  refine ⟨deeper, ?_⟩
  unfold scopeAt
  rw [h1, scopeAtL_split (StackOK.pre_ne (by rw [← h1]; exact hW.stack))]
  exact h2

/-- the global activation is not a record context -/
theorem WF.last_noncomp (hW : WF σ) {gl : Act} (hg : σ.acts.getLast? = some gl) : gl.isComp = false := by
  obtain ⟨g, hl, _, _, hok⟩ := hW.globOK
  rw [hl] at hg; cases hg
  exact hok.glob rfl

theorem ro_curAct (hW : WF σ) : RO curAct σ (fun a => ∃ rest, σ.acts = a :: rest) := by
  obtain ⟨a, rest, hσ⟩ := hW.top
  unfold curAct
  apply NC.RO.get_bind
  rw [hσ]
  exact ⟨rfl, ⟨rest, rfl⟩⟩

theorem ro_globalAct (hW : WF σ) : RO globalAct σ (fun g => σ.acts.getLast? = some g) := by
  unfold globalAct
  apply NC.RO.get_bind
  cases h : σ.acts.getLast? with
  | none => exact absurd (List.getLast?_eq_none_iff.1 h) hW.ne
  | some g => exact ⟨rfl, rfl⟩

/-- the scope activation: the first activation that is not a record context — it exists because the global one is none -/
theorem ro_scopeAct (hW : WF σ) : RO scopeAct σ (fun a => σ.acts.find? (fun a => !a.isComp) = some a) := by
  unfold scopeAct
  apply NC.RO.get_bind
  cases hf : σ.acts.find? (fun a => !a.isComp) with
  | some a => exact ⟨rfl, rfl⟩
  | none =>
    exfalso
    cases hg : σ.acts.getLast? with
    | none => exact hW.ne (List.getLast?_eq_none_iff.1 hg)
    | some gl =>
      have := List.find?_eq_none.1 hf gl (List.mem_of_getLast? hg)
      rw [hW.last_noncomp hg] at this
      simp at this

/-- under `NTop` the scope activation is the top one -/
theorem ro_scopeAct_top (hW : WF σ) {a : Act} {rest : List Act} (hσ : σ.acts = a :: rest) (hc : a.isComp = false) :
    RO scopeAct σ (· = a) := (ro_scopeAct hW).mono fun b hb => by
  rw [hσ] at hb; simp [List.find?, hc] at hb; exact hb.symm

/-- what `typeScopeAct` computes is `scopeOfL` -/
theorem scope_char (g : Nat) : ∀ acts : List Act,
    (((acts.takeWhile (·.isComp)).any (·.typeGlobal)) = true → scopeOfL g acts = g) ∧
    (((acts.takeWhile (·.isComp)).any (·.typeGlobal)) = false → ∀ a, acts.find? (fun a => !a.isComp) = some a →
      scopeOfL g acts = a.id)
  | [] => ⟨fun _ => rfl, fun _ a h => by cases h⟩
  | c :: r => by
    have ih := scope_char g r
    unfold scopeOfL
    cases hc : c.isComp with
    | false => simp [List.takeWhile, hc, List.find?]
    | true =>
      cases ht : c.typeGlobal with
      | true => simp [List.takeWhile, hc, ht]
      | false =>
        simp only [List.takeWhile, hc, List.any_cons, ht, Bool.false_or, if_true, Bool.false_eq_true, if_false, List.find?,
          Bool.not_true]
        exact ih

theorem ro_typeScopeAct (hW : WF σ) : RO typeScopeAct σ (fun a => a ∈ σ.acts ∧ a.id = tscope σ) := by
  unfold typeScopeAct
  apply NC.RO.get_bind
  split
  · rename_i h
    refine (ro_globalAct hW).mono fun g hg => ⟨List.mem_of_getLast? hg, ?_⟩
    unfold tscope
    rw [(scope_char (gid σ) σ.acts).1 h]
    unfold gid; rw [hg]
  · rename_i h
    refine (ro_scopeAct hW).mono fun a ha => ⟨List.mem_of_find?_eq_some ha, ?_⟩
    unfold tscope
    rw [(scope_char (gid σ) σ.acts).2 (by simpa using h) a ha]

theorem ro_lookupVar (hW : WF σ) (n : Str) :
    RO (lookupVar n) σ (fun r => ∃ a rest g, σ.acts = a :: rest ∧ σ.acts.getLast? = some g ∧ r = lookupVarIn a g n) := by
  unfold lookupVar
  refine NC.RO.bind (ro_curAct hW) fun a ⟨rest, ha⟩ => NC.RO.bind (ro_globalAct hW) fun g hg => ?_
  exact ⟨rfl, a, rest, g, ha, hg, rfl⟩

theorem ro_lookupArr (hW : WF σ) (n : Str) :
    RO (lookupArr n) σ (fun r => ∃ a rest g, σ.acts = a :: rest ∧ σ.acts.getLast? = some g ∧ r = lookupArrIn a g n) := by
  unfold lookupArr
  refine NC.RO.bind (ro_curAct hW) fun a ⟨rest, ha⟩ => NC.RO.bind (ro_globalAct hW) fun g hg => ?_
  exact ⟨rfl, a, rest, g, ha, hg, rfl⟩

/-- two live activations with the same id are the same -/
theorem WF.act_unique (hW : WF σ) {a b : Act} (ha : a ∈ σ.acts) (hb : b ∈ σ.acts) (h : a.id = b.id) : a = b := by
  have h1 := hW.actOf_mem ha
  have h2 := hW.actOf_mem hb
  rw [h] at h1; rw [h1] at h2; exact Option.some.inj h2

/-- type names are looked up in the definitions of the scope, then in the global ones -/
theorem ro_lookupList {γ : Type} (hW : WF σ) (sel : Act → List (Str × γ)) (n : Str) :
    RO (lookupList sel n true) σ (fun r => ∃ a g, a ∈ σ.acts ∧ a.id = tscope σ ∧ σ.acts.getLast? = some g ∧
      r = lk (sel a) (sel g) n) := by
  unfold lookupList
  refine NC.RO.bind (ro_typeScopeAct hW) fun a ha => NC.RO.bind (ro_globalAct hW) fun gl hg => ?_
  unfold lk
  cases hf : (sel a).find? (·.1 == n) with
  | some x => exact ⟨rfl, a, gl, ha.1, ha.2, hg, by rw [hf]⟩
  | none =>
    dsimp only
    by_cases hid : (a.id == gl.id) = true
    · have : a = gl := hW.act_unique ha.1 (List.mem_of_getLast? hg) (by simpa using hid)
      subst this
      simp only [hid, Bool.not_true, Bool.or_true, if_true]
      exact ⟨rfl, a, a, ha.1, ha.2, hg, by rw [hf]⟩
    · simp only [hid, Bool.not_true, Bool.or_self, Bool.false_eq_true, if_false]
      exact ⟨rfl, a, gl, ha.1, ha.2, hg, by rw [hf]⟩

theorem ro_lookupList_local {γ : Type} (hW : WF σ) (sel : Act → List (Str × γ)) (n : Str) :
    RO (lookupList sel n false) σ (fun r => ∃ a, a ∈ σ.acts ∧ a.id = tscope σ ∧ r = (sel a).find? (·.1 == n)) := by
  unfold lookupList
  refine NC.RO.bind (ro_typeScopeAct hW) fun a ha => NC.RO.bind (ro_globalAct hW) fun gl hg => ?_
  cases hf : (sel a).find? (·.1 == n) with
  | some x => exact ⟨rfl, a, ha.1, ha.2, hf.symm⟩
  | none =>
    simp only [Bool.not_false, Bool.true_or, if_true]
    exact ⟨rfl, a, ha.1, ha.2, hf.symm⟩

theorem ro_enumDefOf (hW : WF σ) (n : Str) : RO (enumDefOf n true) σ (· = enumDef σ (tscope σ) n) :=
  (ro_lookupList hW _ n).mono fun r ⟨a, g, ha, hid, hg, hr⟩ => by
    rw [hr]; unfold enumDef; rw [← hid, hW.lenums_of ha]; unfold NR.genums; rw [hg]

theorem ro_ptrDefOf (hW : WF σ) (n : Str) : RO (ptrDefOf n true) σ (· = ptrDef σ (tscope σ) n) :=
  (ro_lookupList hW _ n).mono fun r ⟨a, g, ha, hid, hg, hr⟩ => by
    rw [hr]; unfold ptrDef; rw [← hid, hW.lptrs_of ha]; unfold NR.gptrs; rw [hg]

theorem ro_compDefOf (hW : WF σ) (n : Str) : RO (compDefOf n true) σ (· = compDef σ (tscope σ) n) :=
  (ro_lookupList hW _ n).mono fun r ⟨a, g, ha, hid, hg, hr⟩ => by
    rw [hr]; unfold compDef; rw [← hid, hW.lcomps_of ha]; unfold NR.gcomps; rw [hg]

theorem ro_compDefOf_local (hW : WF σ) (n : Str) :
    RO (compDefOf n false) σ (· = (lcomps σ (tscope σ)).find? (·.1 == n)) :=
  (ro_lookupList_local hW _ n).mono fun r ⟨a, ha, hid, hr⟩ => by rw [hr, ← hid, hW.lcomps_of ha]

theorem ro_getType (hW : WF σ) (t : Tok) : RO (getType t true) σ (· = typeOfTok σ (tscope σ) t) := by
  unfold getType typeOfTok
  split
  · repeat' split
    all_goals exact ⟨rfl, rfl⟩
  · refine NC.RO.bind (ro_enumDefOf hW _) fun e he => ?_
    subst he
    cases enumDef σ (tscope σ) t.val with
    | some x => exact ⟨rfl, rfl⟩
    | none =>
      dsimp only
      refine NC.RO.bind (ro_ptrDefOf hW _) fun e he => ?_
      subst he
      cases ptrDef σ (tscope σ) t.val with
      | some x => exact ⟨rfl, rfl⟩
      | none =>
        dsimp only
        refine NC.RO.bind (ro_compDefOf hW _) fun e he => ?_
        subst he
        cases compDef σ (tscope σ) t.val with
        | some x => exact ⟨rfl, rfl⟩
        | none => exact ⟨rfl, rfl⟩

theorem typeOfTok_none {k : Nat} {t : Tok} (hk : (t.k == .DATA_TYPE) = false) (h : typeOfTok σ k t = .none) :
    enumDef σ k t.val = none ∧ ptrDef σ k t.val = none ∧ compDef σ k t.val = none := by
  unfold typeOfTok at h
  rw [hk] at h
  simp only [Bool.false_eq_true, if_false] at h
  cases hf : enumDef σ k t.val with
  | some x => rw [hf] at h; cases h
  | none =>
    rw [hf] at h
    cases hp : ptrDef σ k t.val with
    | some x => rw [hp] at h; cases h
    | none =>
      rw [hp] at h
      cases hc : compDef σ k t.val with
      | some x => rw [hc] at h; cases h
      | none => exact ⟨rfl, rfl, rfl⟩

theorem typeOfTok_dataType {k : Nat} {t : Tok} (hk : (t.k == .DATA_TYPE) = true) : typeOfTok σ k t ≠ .none := by
  unfold typeOfTok
  rw [hk]
  simp only [if_true]
  repeat' split
  all_goals (intro h; cases h)

/-- the definitions of a scope are well-formed -/
theorem WF.lenums_ok (hW : WF σ) {k : Nat} (hk : SV σ k) :
    ∀ e ∈ lenums σ k, (lenums σ k).find? (·.1 == e.1) = some e ∧ e.2 ≠ [] := by
  rcases hk with rfl | ⟨a, ha, rfl, _⟩
  · obtain ⟨g, _, hg, hid, _⟩ := hW.glast
    rw [← hid, hW.lenums_of hg]; exact (hW.defsOK hg).enums
  · rw [hW.lenums_of ha]; exact (hW.defsOK ha).enums

theorem WF.genums_ok (hW : WF σ) : ∀ e ∈ genums σ, (genums σ).find? (·.1 == e.1) = some e ∧ e.2 ≠ [] := by
  rw [← hW.lenums_gid]; exact hW.lenums_ok (Or.inl rfl)

/-- enum types are not empty -/
theorem WF.enum_nonempty (hW : WF σ) {k : Nat} (hk : SV σ k) {n : Str} {vals : List Str} (h : enumLk σ k n = some vals) :
    vals ≠ [] := by
  unfold enumLk at h
  cases hd : enumDef σ k n with
  | none => rw [hd] at h; cases h
  | some x =>
    rw [hd] at h
    simp only [Option.map_some, Option.some.injEq] at h
    subst h
    rcases lk_mem hd with hm | hm
    · exact (hW.lenums_ok hk x hm).2
    · exact (hW.genums_ok x hm).2

def enumElemL (l : List (Str × List Str)) (v : Str) : Option Val :=
  l.findSome? fun (n, vals) =>
    match vals.findIdx? (· == v) with
    | some i => some (.enum n i)
    | none => none

/-- the enum element a name denotes in scope `k` -/
def enumElemS (σ : St) (k : Nat) (v : Str) : Option Val :=
  match enumElemL (lenums σ k) v with
  | some x => some x
  | none => enumElemL (genums σ) v

theorem ro_getEnumElement (hW : WF σ) (v : Str) : RO (getEnumElement v true) σ (· = enumElemS σ (tscope σ) v) := by
  unfold getEnumElement
  refine NC.RO.bind (ro_typeScopeAct hW) fun a ha => NC.RO.bind (ro_globalAct hW) fun gl hg => ?_
  have h1 : enumElemIn a v = enumElemL (lenums σ (tscope σ)) v := by
    rw [← ha.2, hW.lenums_of ha.1]; rfl
  have h2 : enumElemIn gl v = enumElemL (genums σ) v := by
    unfold NR.genums; rw [hg]; rfl
  unfold enumElemS
  rw [← h1, ← h2]
  cases hf : enumElemIn a v with
  | some x => exact ⟨rfl, rfl⟩
  | none =>
    dsimp only
    by_cases hid : (a.id == gl.id) = true
    · have : a = gl := hW.act_unique ha.1 (List.mem_of_getLast? hg) (by simpa using hid)
      subst this
      simp only [hid, Bool.not_true, Bool.or_true, if_true]
      exact ⟨rfl, hf.symm⟩
    · simp only [hid, Bool.not_true, Bool.or_self, Bool.false_eq_true, if_false]
      exact ⟨rfl, rfl⟩

theorem enumElemL_inv {l : List (Str × List Str)} {v : Str} {x : Val} (h : enumElemL l v = some x) :
    ∃ n vals i, (n, vals) ∈ l ∧ x = .enum n i ∧ i < vals.length := by
  unfold enumElemL at h
  obtain ⟨⟨n, vals⟩, hmem, hx⟩ := List.exists_of_findSome?_eq_some h
  dsimp only at hx
  cases hi : vals.findIdx? (· == v) with
  | none => rw [hi] at hx; cases hx
  | some i =>
    rw [hi] at hx; cases hx
    exact ⟨n, vals, i, hmem, rfl, (List.findIdx?_eq_some_iff_findIdx_eq.1 hi).1⟩

theorem enumElemS_local (hW : WF σ) {k : Nat} (hk : SV σ k) {v : Str} {x : Val} (h : enumElemS σ k v = some x) :
    (∃ n i, x = .enum n i) ∧ Local σ k x := by
  unfold enumElemS at h
  cases hl : enumElemL (lenums σ k) v with
  | some y =>
    rw [hl] at h; cases h
    obtain ⟨n, vals, i, hmem, rfl, hi⟩ := enumElemL_inv hl
    refine ⟨⟨n, i, rfl⟩, vals, ?_, hi⟩
    unfold enumLk enumDef lk
    rw [(hW.lenums_ok hk _ hmem).1]; rfl
  | none =>
    rw [hl] at h
    dsimp only at h
    obtain ⟨n, vals, i, hmem, rfl, hi⟩ := enumElemL_inv h
    refine ⟨⟨n, i, rfl⟩, vals, ?_, hi⟩
    unfold enumLk
    rw [hW.enumDef_global hk (hW.genums_ok _ hmem).1]; rfl

theorem ro_isIdentifierType (hW : WF σ) (t : Tok) :
    RO (isIdentifierType t true) σ
      (fun b => b = false → typeOfTok σ (tscope σ) t = .none ∧ enumElemS σ (tscope σ) t.val = none) := by
  unfold isIdentifierType
  refine NC.RO.bind (ro_getType hW t) fun ty hty => ?_
  subst hty
  split
  · exact ⟨rfl, fun h => by cases h⟩
  · rename_i hne
    have hn : typeOfTok σ (tscope σ) t = .none := by simpa using hne
    refine NC.RO.bind (ro_getEnumElement hW _) fun r hr => ?_
    subst hr
    refine ⟨rfl, fun h => ⟨hn, ?_⟩⟩
    cases he : enumElemS σ (tscope σ) t.val with
    | none => rfl
    | some x => rw [he] at h; simp at h

/-- OUTPUT text of a value whose root node is fine in the current scope (an array has no text: `none`) -/
theorem ro_outputText (hW : WF σ) {v : Val} (hv : Local σ (tscope σ) v) : RO (outputText v) σ (fun _ => True) := by
  unfold outputText
  cases v with
  | enum ty i =>
    dsimp only
    refine NC.RO.bind (ro_enumDefOf hW ty) fun r hr => ?_
    subst hr
    obtain ⟨vals, hl, hi⟩ := hv
    unfold enumLk at hl
    cases hf : enumDef σ (tscope σ) ty with
    | none => rw [hf] at hl; cases hl
    | some x =>
      rw [hf] at hl
      obtain ⟨n, vs⟩ := x
      simp only [Option.map_some, Option.some.injEq] at hl
      subst hl
      dsimp only
      rw [List.getElem?_eq_getElem hi]
      exact ⟨rfl, trivial⟩
  | _ => exact ⟨rfl, trivial⟩

/-- the definitions the record codec and enum arithmetic see (`scopeAct`, then the global activation), when the top activation is
    not a record context -/
theorem scope_find (hW : WF σ) {a gl : Act} {rest : List Act} (hσ : σ.acts = a :: rest) (hg : σ.acts.getLast? = some gl) (n : Str) :
    (match a.enums.find? (·.1 == n) with
     | some x => some x
     | none => if (a.id == gl.id) = true then none else gl.enums.find? (·.1 == n)) = enumDef σ a.id n := by
  have ha : a ∈ σ.acts := by rw [hσ]; exact List.mem_cons_self
  unfold enumDef lk
  rw [hW.lenums_of ha]
  cases hf : a.enums.find? (·.1 == n) with
  | some x => rfl
  | none =>
    dsimp only
    have hge : genums σ = gl.enums := by unfold NR.genums; rw [hg]
    rw [hge]
    by_cases hid : (a.id == gl.id) = true
    · have : a = gl := hW.act_unique ha (List.mem_of_getLast? hg) (by simpa using hid)
      subst this
      simp [hf]
    · simp [hid]

theorem ro_codecDefs (hW : WF σ) (hN : NTop σ) :
    RO codecDefs σ (fun d => ∀ n, d.enumDef n = enumDef σ (tscope σ) n) := by
  obtain ⟨a, rest, hσ, hc⟩ := hN
  unfold codecDefs
  refine NC.RO.bind (ro_scopeAct_top hW hσ hc) fun a' ha' => NC.RO.bind (ro_globalAct hW) fun gl hg => ?_
  subst ha'
  refine ⟨rfl, fun n => ?_⟩
  dsimp only
  rw [NTop.tscope hσ hc, ← scope_find hW hσ hg n]
  cases a'.enums.find? (·.1 == n) <;> rfl

end ro

/-! ### state-changing steps -/

set_option linter.unusedSectionVars false

section changing
variable {α β : Type} {σ : St} {E : St → Stop → Prop} [EOK E]

/-- a step that leaves the stack, `nextId`, the procedures and the functions alone and raises only diagnostics -/
theorem run_frame {m : M α} {Q : α → St → Prop} (hW : WF σ)
    (h : (m.run.run σ).2.acts = σ.acts ∧ (m.run.run σ).2.nextId = σ.nextId ∧ (m.run.run σ).2.procs = σ.procs ∧
      (m.run.run σ).2.funs = σ.funs ∧
      match (m.run.run σ).1 with | .ok a => Q a (m.run.run σ).2 | .error e => ∃ d, e = .diag d) :
    Run m σ (ResE σ Q E) := by
  obtain ⟨h1, h2, h3, h4, h5⟩ := h
  refine ⟨hW.of_acts_eq h1 h2 h3 h4, Ext.of_acts_eq h1 h2, ?_⟩
  split <;> rename_i heq <;> rw [heq] at h5
  · exact h5
  · obtain ⟨d, rfl⟩ := h5; exact EOK.of_nr _ _ (errNR_diag _ d)

theorem run_modify_frame (hW : WF σ) (f : St → St) (h1 : (f σ).acts = σ.acts) (h2 : (f σ).nextId = σ.nextId)
    (h3 : (f σ).procs = σ.procs) (h4 : (f σ).funs = σ.funs) :
    Run (modify f : M PUnit) σ (ResE σ (fun _ σ' => σ'.acts = σ.acts) E) :=
  run_frame hW ⟨h1, h2, h3, h4, h1⟩

theorem run_emit (hW : WF σ) (x : Str) : Run (emit x) σ (ResE σ (fun _ σ' => σ'.acts = σ.acts) E) :=
  run_modify_frame hW _ rfl rfl rfl rfl

theorem run_tick (hW : WF σ) (t : Tok) : Run (tick t) σ (ResE σ (fun _ σ' => σ'.acts = σ.acts) E) := by
  apply run_frame hW
  unfold tick
  rw [run_bind_ok _ _ _ _ _ (run_get σ)]
  split
  · obtain ⟨d, hd, _⟩ := rtErr_run (α := Unit) t .budget σ
    rw [hd]; exact ⟨rfl, rfl, rfl, rfl, d, rfl⟩
  · exact ⟨rfl, rfl, rfl, rfl, rfl⟩

theorem run_getLine (hW : WF σ) : Run getLine σ (ResE σ (fun _ _ => True) E) := by
  apply run_frame hW
  unfold getLine
  rw [run_bind_ok _ _ _ _ _ (run_get σ)]
  split
  · exact ⟨rfl, rfl, rfl, rfl, trivial⟩
  · dsimp only
    split <;> exact ⟨rfl, rfl, rfl, rfl, trivial⟩

theorem run_doFile (hW : WF σ) (t : Tok) (op : FOp) :
    Run (doFile t op) σ (ResE σ (fun r _ => ∃ s s', fstep s op = .ok (s', r)) E) := by
  apply run_frame hW
  unfold doFile
  rw [run_bind_ok _ _ _ _ _ (run_get σ)]
  split
  · rename_i f r heq
    exact ⟨rfl, rfl, rfl, rfl, _, _, heq⟩
  · rename_i m _
    obtain ⟨d, hd, _⟩ := rtErr_run (α := FRes) t m σ
    rw [hd]; exact ⟨rfl, rfl, rfl, rfl, d, rfl⟩

theorem run_doFile0 (hW : WF σ) (op : FOp) :
    Run (doFile0 op) σ (ResE σ (fun r _ => ∃ s s', fstep s op = .ok (s', r)) E) := by
  apply run_frame hW
  unfold doFile0
  rw [run_bind_ok _ _ _ _ _ (run_get σ)]
  split
  · rename_i f r heq
    exact ⟨rfl, rfl, rfl, rfl, _, _, heq⟩
  · rename_i m _
    obtain ⟨d, hd, _⟩ := rtErr0_run (α := FRes) m σ
    rw [hd]; exact ⟨rfl, rfl, rfl, rfl, d, rfl⟩

theorem run_addProc (hW : WF σ) (p : ProcDef) (hp : ProcOK σ p) :
    Run (modify fun st => { st with procs := st.procs ++ [p] } : M PUnit) σ (ResE σ (fun _ _ => True) E) := by
  have hE : Ext σ { σ with procs := σ.procs ++ [p] } := Ext.of_acts_eq rfl rfl
  refine ⟨⟨hW.ne, StackOK.mono' (σ := σ) (Mono.of_ext hE) (fun _ _ _ => trivial) hW.stack, hW.below, ?_, fun q hq => (hW.funs q hq).ext hE⟩,
    hE, trivial⟩
  intro q hq
  rcases List.mem_append.1 hq with hq | hq
  · exact (hW.procs q hq).ext hE
  · rw [List.mem_singleton.1 hq]; exact hp.ext hE

theorem run_addFun (hW : WF σ) (p : FunDef) (hp : FunOK σ p) :
    Run (modify fun st => { st with funs := st.funs ++ [p] } : M PUnit) σ (ResE σ (fun _ _ => True) E) := by
  have hE : Ext σ { σ with funs := σ.funs ++ [p] } := Ext.of_acts_eq rfl rfl
  refine ⟨⟨hW.ne, StackOK.mono' (σ := σ) (Mono.of_ext hE) (fun _ _ _ => trivial) hW.stack, hW.below, fun q hq => (hW.procs q hq).ext hE, ?_⟩,
    hE, trivial⟩
  intro q hq
  rcases List.mem_append.1 hq with hq | hq
  · exact (hW.funs q hq).ext hE
  · rw [List.mem_singleton.1 hq]; exact hp.ext hE

/-- `modifyAct` with an update that keeps the readable cells, the well-formedness of the activation and the definitions -/
theorem run_modifyAct (hW : WF σ) (id : Nat) (f : Act → Act)
    (hk : ∀ a ∈ σ.acts, a.id = id → ActKeep a (f a))
    (hok : ∀ deeper a, a ∈ σ.acts → a.id = id → ActOK σ (scopeAt σ id) deeper a → ActOK σ (scopeAt σ id) deeper (f a))
    (hid : ∀ a, (f a).id = a.id) (hd : ∀ a, (f a).enums = a.enums ∧ (f a).ptrs = a.ptrs ∧ (f a).comps = a.comps) :
    Run (modifyAct id f) σ (ResE σ (fun _ σ' => σ' = updSt σ id f) E) :=
  ⟨hW.updSt hk hok (Ext.upd_keep hk hid hd), Ext.upd_keep hk hid hd, rfl⟩

/-- updates of the bookkeeping fields -/
theorem ActKeep.of_eq {a a' : Act} (h1 : NL.hdr a' = NL.hdr a) (h3 : a'.vars = a.vars) (h4 : a'.arrs = a.arrs) : ActKeep a a' :=
  ⟨h1, fun isArr name path v ⟨s, hs, hp⟩ => ⟨v, ⟨s, by rw [h3, h4]; exact hs, hp⟩, NR.SameKind.refl v⟩⟩

theorem run_setSwitchTok (hW : WF σ) (id : Nat) (v : Option (Nat × Nat)) :
    Run (modifyAct id fun a => { a with switchTok := v }) σ (ResE σ (fun _ _ => True) E) := by
  refine (run_modifyAct (E := E) hW id (fun a => { a with switchTok := v }) (fun _ _ _ => ActKeep.of_eq rfl rfl rfl)
    (fun _ _ _ _ h => ⟨h.vars, h.arrs, ⟨h.defs.enums, h.defs.ptrs, h.defs.comps⟩, h.disj, h.compDefs, h.compRef, h.glob, h.retVal⟩)
    (fun _ => rfl) (fun _ => ⟨rfl, rfl, rfl⟩)).mono ?_
  exact fun _ _ h => h.weaken (fun _ _ => trivial) (fun _ e => e)

theorem run_setRetVal (hW : WF σ) (id : Nat) (v : Val) (hs : NArr v = true) (hv : Good σ (scopeAt σ id) v) :
    Run (modifyAct id fun a => { a with retVal := some v }) σ (ResE σ (fun _ _ => True) E) := by
  refine (run_modifyAct (E := E) hW id (fun a => { a with retVal := some v }) (fun _ _ _ => ActKeep.of_eq rfl rfl rfl)
    (fun _ _ _ _ h => ⟨h.vars, h.arrs, ⟨h.defs.enums, h.defs.ptrs, h.defs.comps⟩, h.disj, h.compDefs, h.compRef, h.glob,
      fun x hx => ?_⟩) (fun _ => rfl) (fun _ => ⟨rfl, rfl, rfl⟩)).mono ?_
  · simp only [Option.some.injEq] at hx; subst hx; exact ⟨hs, hv⟩
  · exact fun _ _ h => h.weaken (fun _ _ => trivial) (fun _ e => e)

theorem run_modifyCur_eq {a : Act} {rest : List Act} (hσ : σ.acts = a :: rest) (f : Act → Act) :
    (modifyCur f).run.run σ = (.ok ⟨⟩, updSt σ a.id f) ∧ (updSt σ a.id f).acts = f a :: rest := by
  constructor
  · unfold modifyCur
    have hc : curAct.run.run σ = (.ok a, σ) := by
      unfold curAct
      rw [run_bind_ok _ _ _ _ _ (run_get σ), hσ]; rfl
    rw [run_bind_ok _ _ _ _ _ hc]
    rfl
  · show updActs σ.acts a.id f = _
    rw [hσ]; unfold updActs; simp

theorem run_modifyCur (hW : WF σ) (f : Act → Act)
    (hk : ∀ a, ActKeep a (f a)) (hok : ∀ deeper a, ActOK σ (tscope σ) deeper a → ActOK σ (tscope σ) deeper (f a))
    (hid : ∀ a, (f a).id = a.id) (hd : ∀ a, (f a).enums = a.enums ∧ (f a).ptrs = a.ptrs ∧ (f a).comps = a.comps) :
    Run (modifyCur f) σ (ResE σ (fun _ σ' => ∀ a rest, σ.acts = a :: rest → σ'.acts = f a :: rest) E) := by
  obtain ⟨a, rest, hσ⟩ := hW.top
  obtain ⟨hrun, hacts⟩ := run_modifyCur_eq hσ f
  unfold Run
  rw [hrun]
  have hE := Ext.upd_keep (σ := σ) (id := a.id) (fun b _ _ => hk b) hid hd
  refine ⟨hW.updSt (fun b _ _ => hk b) (fun d b _ _ => by rw [scopeAt_top hσ]; exact hok d b) hE, hE, ?_⟩
  intro a' rest' h
  rw [hσ] at h; cases h
  exact hacts

/-- appending a variable with an own cell -/
theorem run_addVar (hW : WF σ) (s : Slot) (h1 : s.ref = none) (h2 : CellOK σ (tscope σ) s.ty s.val) :
    Run (addVar s) σ (ResE σ (fun _ σ' => ∀ a rest, σ.acts = a :: rest →
      σ'.acts = { a with vars := a.vars ++ [s] } :: rest ∧
      (findSlot a.vars s.name = none → ReadsIn σ'.acts ⟨a.id, false, s.name, []⟩ s.val)) E) := by
  unfold addVar
  have hk : ∀ a : Act, ActKeep a { a with vars := a.vars ++ [s] } := by
    intro a
    refine ⟨rfl, fun isArr name path v ⟨s0, hs0, hp⟩ => ⟨v, ⟨s0, ?_, hp⟩, NR.SameKind.refl v⟩⟩
    cases isArr
    · simp only [Bool.false_eq_true, if_false] at hs0 ⊢
      rw [findSlot_append, hs0]; rfl
    · exact hs0
  refine (run_modifyCur (E := E) hW _ hk ?_ (fun _ => rfl) (fun _ => ⟨rfl, rfl, rfl⟩)).mono fun r σ' h => ?_
  · intro d a h
    refine ⟨fun s' hs' => ?_, h.arrs, ⟨h.defs.enums, h.defs.ptrs, h.defs.comps⟩, h.disj, h.compDefs, fun hc s' hs' => ?_,
      h.glob, h.retVal⟩
    · rcases List.mem_append.1 hs' with hs' | hs'
      · exact h.vars s' hs'
      · rw [List.mem_singleton.1 hs']
        unfold SlotOK; rw [h1]; exact h2
    · rcases List.mem_append.1 hs' with hs' | hs'
      · exact h.compRef hc s' hs'
      · rw [List.mem_singleton.1 hs']; exact h1
  · refine h.weaken (fun _ hq a rest hσ => ⟨hq a rest hσ, fun hnone => ?_⟩) (fun _ e => e)
    rw [hq a rest hσ]
    refine (NC.ReadsIn.cons_eq rfl).2 ⟨s, ?_, rfl⟩
    simp only [Bool.false_eq_true, if_false]
    rw [findSlot_append, hnone]
    simp

theorem run_addArr (hW : WF σ) (s : Slot) (hs : ArrSlotOK σ (tscope σ) s) :
    Run (addArr s) σ (ResE σ (fun _ σ' => ∀ a rest, σ.acts = a :: rest → σ'.acts = { a with arrs := a.arrs ++ [s] } :: rest) E) := by
  unfold addArr
  have hk : ∀ a : Act, ActKeep a { a with arrs := a.arrs ++ [s] } := by
    intro a
    refine ⟨rfl, fun isArr name path v ⟨s0, hs0, hp⟩ => ⟨v, ⟨s0, ?_, hp⟩, NR.SameKind.refl v⟩⟩
    cases isArr
    · exact hs0
    · simp only [if_true] at hs0 ⊢
      rw [findSlot_append, hs0]; rfl
  refine (run_modifyCur (E := E) hW _ hk ?_ (fun _ => rfl) (fun _ => ⟨rfl, rfl, rfl⟩)).mono
    fun r σ' h => h.weaken (fun _ hq => hq) (fun _ e => e)
  intro d a h
  refine ⟨h.vars, fun s' hs' => ?_, ⟨h.defs.enums, h.defs.ptrs, h.defs.comps⟩, h.disj, h.compDefs, h.compRef, h.glob, h.retVal⟩
  rcases List.mem_append.1 hs' with hs' | hs'
  · exact h.arrs s' hs'
  · rw [List.mem_singleton.1 hs']; exact hs

/-! ### TYPE statements: a new definition under a fresh name in the top activation -/

/-- the three lookups for a fresh name all fail in scope `k` -/
def Fresh (σ : St) (k : Nat) (name : Str) : Prop :=
  enumDef σ k name = none ∧ ptrDef σ k name = none ∧ compDef σ k name = none

theorem lk_none {γ : Type} {loc glob : List (Str × γ)} {n : Str} (h : lk loc glob n = none) :
    loc.find? (·.1 == n) = none ∧ glob.find? (·.1 == n) = none := by
  unfold lk at h
  cases hl : loc.find? (·.1 == n) with
  | some x => rw [hl] at h; cases h
  | none => rw [hl] at h; exact ⟨rfl, h⟩

theorem find_append_other {γ : Type} (l e : List (Str × γ)) {name n : Str} (he : ∀ x ∈ e, x.1 = name) (hn : n ≠ name) :
    (l ++ e).find? (·.1 == n) = l.find? (·.1 == n) := by
  rw [List.find?_append]
  have : e.find? (·.1 == n) = none := by
    apply List.find?_eq_none.2
    intro x hx
    rw [he x hx]
    simpa using fun h => hn h.symm
  rw [this]; simp

theorem lk_app {γ : Type} (loc glob e1 e2 : List (Str × γ)) {name n : Str} (h1 : ∀ x ∈ e1, x.1 = name)
    (h2 : ∀ x ∈ e2, x.1 = name) (hn : n ≠ name) : lk (loc ++ e1) (glob ++ e2) n = lk loc glob n := by
  unfold lk; rw [find_append_other loc e1 h1 hn, find_append_other glob e2 h2 hn]

theorem compLk_none {k : Nat} {n : Str} (h : compDef σ k n = none) : compLk σ k n = none := by
  obtain ⟨h1, h2⟩ := lk_none h
  unfold compLk; rw [h1, h2]; rfl

/-- how the definition lists of `σ'` arise from those of `σ` when names `name` are appended -/
structure Appended (σ σ' : St) (name : Str) (k : Nat) : Prop where
  enums : ∃ e1 e2, lenums σ' k = lenums σ k ++ e1 ∧ genums σ' = genums σ ++ e2 ∧ (∀ x ∈ e1, x.1 = name) ∧ (∀ x ∈ e2, x.1 = name)
  ptrs : ∃ e1 e2, lptrs σ' k = lptrs σ k ++ e1 ∧ gptrs σ' = gptrs σ ++ e2 ∧ (∀ x ∈ e1, x.1 = name) ∧ (∀ x ∈ e2, x.1 = name)
  comps : ∃ e1 e2, lcomps σ' k = lcomps σ k ++ e1 ∧ gcomps σ' = gcomps σ ++ e2 ∧ (∀ x ∈ e1, x.1 = name) ∧ (∀ x ∈ e2, x.1 = name)

/-- the lookups of `σ'` in scope `k` for `n` are those of `σ`, or `n` was not defined at all -/
def Stable (σ σ' : St) (k : Nat) (n : Str) : Prop :=
  (enumDef σ' k n = enumDef σ k n ∧ ptrDef σ' k n = ptrDef σ k n ∧ compDef σ' k n = compDef σ k n ∧
    compLk σ' k n = compLk σ k n) ∨
  (enumDef σ k n = none ∧ ptrDef σ k n = none ∧ compDef σ k n = none)

theorem Appended.stable {σ' : St} {name : Str} {k : Nat} (h : Appended σ σ' name k) (hg : gid σ' = gid σ) {n : Str}
    (hn : n ≠ name) : Stable σ σ' k n := by
  obtain ⟨e1, e2, h1, h2, h3, h4⟩ := h.enums
  obtain ⟨p1, p2, q1, q2, q3, q4⟩ := h.ptrs
  obtain ⟨c1, c2, r1, r2, r3, r4⟩ := h.comps
  refine Or.inl ⟨?_, ?_, ?_, ?_⟩
  · unfold enumDef; rw [h1, h2]; exact lk_app _ _ _ _ h3 h4 hn
  · unfold ptrDef; rw [q1, q2]; exact lk_app _ _ _ _ q3 q4 hn
  · unfold compDef; rw [r1, r2]; exact lk_app _ _ _ _ r3 r4 hn
  · unfold compLk; rw [r1, r2, hg, find_append_other _ c1 r3 hn, find_append_other _ c2 r4 hn]

theorem stable_of_eq {σ' : St} {k : Nat} (h1 : lenums σ' k = lenums σ k) (h2 : lptrs σ' k = lptrs σ k)
    (h3 : lcomps σ' k = lcomps σ k) (g1 : genums σ' = genums σ) (g2 : gptrs σ' = gptrs σ) (g3 : gcomps σ' = gcomps σ)
    (g0 : gid σ' = gid σ) (n : Str) : Stable σ σ' k n := by
  refine Or.inl ⟨?_, ?_, ?_, ?_⟩
  · unfold enumDef; rw [h1, g1]
  · unfold ptrDef; rw [h2, g2]
  · unfold compDef; rw [h3, g3]
  · unfold compLk; rw [h3, g3, g0]

/-- stable lookups give `DefsExt` -/
theorem DefsExt.of_stable {σ' : St} (h : ∀ k n, Stable σ σ' k n) : DefsExt σ σ' := by
  refine ⟨fun k n x hx => ?_, fun k n x hx => ?_, fun k n x hx => ?_, fun k t ht => ?_⟩
  · rcases h k n with h | h
    · unfold enumLk at *; rw [h.1]; exact hx
    · unfold enumLk at hx; rw [h.1] at hx; cases hx
  · rcases h k n with h | h
    · unfold ptrLk at *; rw [h.2.1]; exact hx
    · unfold ptrLk at hx; rw [h.2.1] at hx; cases hx
  · rcases h k n with h | h
    · rw [h.2.2.2]; exact hx
    · rw [compLk_none h.2.2] at hx; cases hx
  · unfold typeOfTok
    split
    · rfl
    · rename_i hk
      rcases h k t.val with h | h
      · rw [h.1, h.2.1, h.2.2.1]
      · exfalso; apply ht; unfold typeOfTok; rw [if_neg hk, h.1, h.2.1, h.2.2]

theorem actOf_cons (a : Act) (rest : List Act) (k : Nat) (σ' : St) (h : σ'.acts = a :: rest) :
    actOf σ' k = if (a.id == k) = true then some a else rest.find? (·.id == k) := by
  unfold actOf; rw [h, List.find?]; cases a.id == k <;> rfl

/-- **a new definition in the top activation** (`a'` is the top activation `a` with more definitions under the fresh name `name`) -/
theorem addDef_core (hW : WF σ) {a a' : Act} {rest : List Act} (hσ : σ.acts = a :: rest) (hc : a.isComp = false) {name : Str}
    (hfr : Fresh σ a.id name) (hhdr : hdr a' = hdr a) (hvars : a'.vars = a.vars) (harrs : a'.arrs = a.arrs)
    (hret : a'.retVal = a.retVal)
    {e : List (Str × List Str)} {p : List (Str × Ty)} {c : List (Str × Block)}
    (he : a'.enums = a.enums ++ e) (hp : a'.ptrs = a.ptrs ++ p) (hcq : a'.comps = a.comps ++ c)
    (hen : ∀ x ∈ e, x.1 = name) (hpn : ∀ x ∈ p, x.1 = name) (hcn : ∀ x ∈ c, x.1 = name)
    (hedef : ∀ x ∈ e, e = [x] ∧ x.2 ≠ []) (hpdef : ∀ x ∈ p, TyDef σ a.id x.2) (hcdef : ∀ x ∈ c, declBody x.2 = true) :
    WF { σ with acts := a' :: rest } ∧ Ext σ { σ with acts := a' :: rest } := by
  have ha : a ∈ σ.acts := by rw [hσ]; exact List.mem_cons_self
  have hid : a'.id = a.id := hdr_id hhdr
  have hupd : Pseudo.updSt σ a.id (fun _ => a') = { σ with acts := a' :: rest } := by
    unfold Pseudo.updSt; rw [hσ]; unfold updActs; simp
  have hkeep : ActKeep a a' :=
    ⟨hhdr, fun isArr name path v ⟨s, hs, hp⟩ => ⟨v, ⟨s, by rw [hvars, harrs]; exact hs, hp⟩, NR.SameKind.refl v⟩⟩
  have hk : ∀ b ∈ σ.acts, b.id = a.id → ActKeep b ((fun _ => a') b) := fun b hb hbid => by
    rw [hW.act_unique hb ha hbid]; exact hkeep
  -- the local lists
  have hloc : ∀ k, k ≠ a.id → lenums { σ with acts := a' :: rest } k = lenums σ k ∧
      lptrs { σ with acts := a' :: rest } k = lptrs σ k ∧ lcomps { σ with acts := a' :: rest } k = lcomps σ k := by
    intro k hk
    have h1 : actOf { σ with acts := a' :: rest } k = actOf σ k := by
      have hf : (a.id == k) = false := by simpa using fun h => hk h.symm
      rw [actOf_cons a' rest k _ rfl, actOf_cons a rest k σ hσ, hid]
      simp [hf]
    unfold lenums lptrs lcomps; rw [h1]; exact ⟨rfl, rfl, rfl⟩
  have hself : lenums { σ with acts := a' :: rest } a.id = lenums σ a.id ++ e ∧
      lptrs { σ with acts := a' :: rest } a.id = lptrs σ a.id ++ p ∧
      lcomps { σ with acts := a' :: rest } a.id = lcomps σ a.id ++ c := by
    have h1 : actOf { σ with acts := a' :: rest } a.id = some a' := by
      rw [actOf_cons a' rest a.id _ rfl, hid]; simp
    unfold lenums lptrs lcomps
    rw [h1, hW.actOf_mem ha]
    exact ⟨he, hp, hcq⟩
  have hg0 : gid { σ with acts := a' :: rest } = gid σ := by
    unfold gid
    show (match (a' :: rest).getLast? with | some g => g.id | none => 0) = _
    rw [hσ]
    cases rest with
    | nil => simp [hid]
    | cons b r => simp only [List.getLast?_cons_cons]; rfl
  -- the global lists
  have hglob : (rest ≠ [] → genums { σ with acts := a' :: rest } = genums σ ∧ gptrs { σ with acts := a' :: rest } = gptrs σ ∧
      gcomps { σ with acts := a' :: rest } = gcomps σ) ∧
      (rest = [] → genums { σ with acts := a' :: rest } = genums σ ++ e ∧ gptrs { σ with acts := a' :: rest } = gptrs σ ++ p ∧
        gcomps { σ with acts := a' :: rest } = gcomps σ ++ c ∧ a.id = gid σ ∧ genums σ = a.enums ∧ gptrs σ = a.ptrs ∧
        gcomps σ = a.comps) := by
    constructor
    · intro hne
      cases rest with
      | nil => exact absurd rfl hne
      | cons b r =>
        unfold NR.genums NR.gptrs NR.gcomps
        show _ = _ ∧ _ = _ ∧ _ = _
        rw [hσ]
        simp [List.getLast?_cons_cons]
    · intro hnil
      subst hnil
      unfold NR.genums NR.gptrs NR.gcomps gid
      rw [hσ]
      exact ⟨he, hp, hcq, rfl, rfl, rfl, rfl⟩
  -- the lookups
  have hst : ∀ k n, Stable σ { σ with acts := a' :: rest } k n := by
    intro k n
    by_cases hr : rest = []
    · obtain ⟨g1, g2, g3, hag, ge, gp, gc⟩ := hglob.2 hr
      by_cases hn : n = name
      · subst hn
        by_cases hk : k = a.id
        · subst hk; exact Or.inr hfr
        · -- a dead scope: only the global lists are searched, and `a` is the global activation
          have hdead : actOf σ k = none := by
            rw [actOf_cons a rest k σ hσ, hr]
            have : (a.id == k) = false := by simpa using fun h => hk h.symm
            simp [this]
          have hl : lenums σ k = [] ∧ lptrs σ k = [] ∧ lcomps σ k = [] := by
            unfold lenums lptrs lcomps; rw [hdead]; exact ⟨rfl, rfl, rfl⟩
          obtain ⟨f1, f2, f3⟩ := hfr
          have e1 := (lk_none f1).2
          have e2 := (lk_none f2).2
          have e3 := (lk_none f3).2
          refine Or.inr ⟨?_, ?_, ?_⟩
          · unfold enumDef lk; rw [hl.1]; exact e1
          · unfold ptrDef lk; rw [hl.2.1]; exact e2
          · unfold compDef lk; rw [hl.2.2]; exact e3
      · refine Appended.stable ?_ hg0 hn
        by_cases hk : k = a.id
        · subst hk
          exact ⟨⟨e, e, hself.1, g1, hen, hen⟩, ⟨p, p, hself.2.1, g2, hpn, hpn⟩, ⟨c, c, hself.2.2, g3, hcn, hcn⟩⟩
        · obtain ⟨l1, l2, l3⟩ := hloc k hk
          exact ⟨⟨[], e, by rw [l1, List.append_nil], g1, fun _ h => (by cases h), hen⟩,
            ⟨[], p, by rw [l2, List.append_nil], g2, fun _ h => (by cases h), hpn⟩,
            ⟨[], c, by rw [l3, List.append_nil], g3, fun _ h => (by cases h), hcn⟩⟩
    · obtain ⟨g1, g2, g3⟩ := hglob.1 hr
      by_cases hk : k = a.id
      · subst hk
        by_cases hn : n = name
        · subst hn; exact Or.inr hfr
        · refine Appended.stable ?_ hg0 hn
          exact ⟨⟨e, [], hself.1, by rw [g1, List.append_nil], hen, fun _ h => (by cases h)⟩,
            ⟨p, [], hself.2.1, by rw [g2, List.append_nil], hpn, fun _ h => (by cases h)⟩,
            ⟨c, [], hself.2.2, by rw [g3, List.append_nil], hcn, fun _ h => (by cases h)⟩⟩
      · obtain ⟨l1, l2, l3⟩ := hloc k hk
        exact stable_of_eq l1 l2 l3 g1 g2 g3 hg0 n
  have hE : Ext σ (Pseudo.updSt σ a.id (fun _ => a')) := by
    refine Ext.updSt hk ?_ ?_
    · rw [hupd]; exact DefsExt.of_stable hst
    · rw [hupd]
      rintro ⟨x, y, r, hxy⟩
      rw [hσ] at hxy
      exact hglob.1 (by cases hxy; simp)
  have hWF : WF (Pseudo.updSt σ a.id (fun _ => a')) := by
    refine hW.updSt hk (fun deeper b hb hbid hok => ?_) hE
    have hba : b = a := hW.act_unique hb ha hbid
    subst hba
    have hfe : b.enums.find? (·.1 == name) = none := by
      have := (lk_none hfr.1).1; rw [hW.lenums_of ha] at this; exact this
    refine ⟨fun s hs => hok.vars s (hvars ▸ hs), fun s hs => hok.arrs s (harrs ▸ hs), ⟨?_, ?_, ?_⟩, ?_, ?_, ?_, ?_, ?_⟩
    · intro x hx
      rw [he] at hx ⊢
      rcases List.mem_append.1 hx with hx | hx
      · have := hok.defs.enums x hx
        exact ⟨by rw [List.find?_append, this.1]; rfl, this.2⟩
      · obtain ⟨hee, hne⟩ := hedef x hx
        refine ⟨?_, hne⟩
        rw [List.find?_append, hen x hx, hfe, hee]
        simp [List.find?, hen x hx]
    · intro x hx
      rw [hp] at hx
      rw [hid]
      rcases List.mem_append.1 hx with hx | hx
      · exact hok.defs.ptrs x hx
      · exact hpdef x hx
    · intro x hx
      rw [hcq] at hx
      rcases List.mem_append.1 hx with hx | hx
      · exact hok.defs.comps x hx
      · exact hcdef x hx
    · intro hne n hn
      by_cases hnn : n = name
      · subst hnn
        exact ⟨(lk_none hfr.1).2, (lk_none hfr.2.1).2, (lk_none hfr.2.2).2⟩
      · refine hok.disj hne n ?_
        unfold Defines at hn ⊢
        rw [he, hp, hcq, find_append_other _ e hen hnn, find_append_other _ p hpn hnn, find_append_other _ c hcn hnn] at hn
        exact hn
    · intro h; rw [hdr_isComp hhdr, hc] at h; cases h
    · intro h; rw [hdr_isComp hhdr, hc] at h; cases h
    · intro h; rw [hdr_isComp hhdr]; exact hok.glob h
    · intro v hv; exact hok.retVal v (hret ▸ hv)
  rw [hupd] at hE hWF
  exact ⟨hWF, hE⟩

theorem updSt_top {a : Act} {rest : List Act} (hσ : σ.acts = a :: rest) (f : Act → Act) :
    Pseudo.updSt σ a.id f = { σ with acts := f a :: rest } := by
  unfold Pseudo.updSt; rw [hσ]; unfold updActs; simp

theorem fresh_top_id {a : Act} {rest : List Act} (hσ : σ.acts = a :: rest) (hc : a.isComp = false) {name : Str}
    (h : Fresh σ (tscope σ) name) : Fresh σ a.id name := by rw [← NTop.tscope hσ hc]; exact h

/-- `TYPE name = (v1, …)` with a fresh name, in an activation that is not a record context -/
theorem run_addEnum (hW : WF σ) (hN : NTop σ) (name : Str) (vals : List Str) (hne : vals ≠ [])
    (hfresh : Fresh σ (tscope σ) name) :
    Run (modifyCur fun a => { a with enums := a.enums ++ [(name, vals)] }) σ (ResE σ (fun _ _ => True) E) := by
  obtain ⟨a, rest, hσ, hc⟩ := hN
  obtain ⟨hrun, _⟩ := run_modifyCur_eq hσ (fun a => { a with enums := a.enums ++ [(name, vals)] })
  unfold Run; rw [hrun, updSt_top hσ]
  obtain ⟨h1, h2⟩ := addDef_core hW hσ hc (fresh_top_id hσ hc hfresh) (a' := { a with enums := a.enums ++ [(name, vals)] })
    rfl rfl rfl rfl (e := [(name, vals)]) (p := []) (c := []) rfl (List.append_nil _).symm (List.append_nil _).symm
    (fun x hx => by rw [List.mem_singleton.1 hx]) (fun _ h => (by cases h)) (fun _ h => (by cases h))
    (fun x hx => by rw [List.mem_singleton.1 hx]; exact ⟨rfl, hne⟩) (fun _ h => (by cases h)) (fun _ h => (by cases h))
  exact ⟨h1, h2, trivial⟩

/-- `TYPE name = ^target` with a fresh name -/
theorem run_addPtr (hW : WF σ) (hN : NTop σ) (name : Str) (tg : Ty) (htg : TyDef σ (tscope σ) tg)
    (hfresh : Fresh σ (tscope σ) name) :
    Run (modifyCur fun a => { a with ptrs := a.ptrs ++ [(name, tg)] }) σ (ResE σ (fun _ _ => True) E) := by
  obtain ⟨a, rest, hσ, hc⟩ := hN
  obtain ⟨hrun, _⟩ := run_modifyCur_eq hσ (fun a => { a with ptrs := a.ptrs ++ [(name, tg)] })
  unfold Run; rw [hrun, updSt_top hσ]
  obtain ⟨h1, h2⟩ := addDef_core hW hσ hc (fresh_top_id hσ hc hfresh) (a' := { a with ptrs := a.ptrs ++ [(name, tg)] })
    rfl rfl rfl rfl (e := []) (p := [(name, tg)]) (c := []) (List.append_nil _).symm rfl (List.append_nil _).symm
    (fun _ h => (by cases h)) (fun x hx => by rw [List.mem_singleton.1 hx]) (fun _ h => (by cases h))
    (fun _ h => (by cases h)) (fun x hx => by rw [List.mem_singleton.1 hx, ← NTop.tscope hσ hc]; exact htg)
    (fun _ h => (by cases h))
  exact ⟨h1, h2, trivial⟩

/-- `TYPE name … ENDTYPE` with a fresh name and a body of DECLAREs -/
theorem run_addComp (hW : WF σ) (hN : NTop σ) (name : Str) (body : Block) (hbody : declBody body = true)
    (hfresh : Fresh σ (tscope σ) name) :
    Run (modifyCur fun a => { a with comps := a.comps ++ [(name, body)] }) σ (ResE σ (fun _ _ => True) E) := by
  obtain ⟨a, rest, hσ, hc⟩ := hN
  obtain ⟨hrun, _⟩ := run_modifyCur_eq hσ (fun a => { a with comps := a.comps ++ [(name, body)] })
  unfold Run; rw [hrun, updSt_top hσ]
  obtain ⟨h1, h2⟩ := addDef_core hW hσ hc (fresh_top_id hσ hc hfresh) (a' := { a with comps := a.comps ++ [(name, body)] })
    rfl rfl rfl rfl (e := []) (p := []) (c := [(name, body)]) (List.append_nil _).symm (List.append_nil _).symm rfl
    (fun _ h => (by cases h)) (fun _ h => (by cases h)) (fun x hx => by rw [List.mem_singleton.1 hx])
    (fun _ h => (by cases h)) (fun _ h => (by cases h)) (fun x hx => by rw [List.mem_singleton.1 hx]; exact hbody)
  exact ⟨h1, h2, trivial⟩

/-- what `isIdentifierType` = false says: the name is fresh in the current scope -/
theorem fresh_of_tok {k : Nat} {t : Tok} (hk : (t.k == .DATA_TYPE) = false) (h : typeOfTok σ k t = .none) : Fresh σ k t.val :=
  typeOfTok_none hk h

/-! ### the bracket `withAct` -/

/-- the activations that `withAct` pushes: the given id, no type definitions -/
def MkOK (mk : Nat → Act) : Prop := ∀ i, (mk i).id = i ∧ (mk i).enums = [] ∧ (mk i).ptrs = [] ∧ (mk i).comps = []

/-- the lookups in one scope agree when the lists agree -/
theorem lookups_at {σ' : St} {k : Nat} (h1 : lenums σ' k = lenums σ k) (h2 : lptrs σ' k = lptrs σ k)
    (h3 : lcomps σ' k = lcomps σ k) (g1 : genums σ' = genums σ) (g2 : gptrs σ' = gptrs σ) (g3 : gcomps σ' = gcomps σ)
    (g0 : gid σ' = gid σ) :
    (∀ n, enumLk σ' k n = enumLk σ k n) ∧ (∀ n, ptrLk σ' k n = ptrLk σ k n) ∧ (∀ n, compLk σ' k n = compLk σ k n) ∧
    (∀ t, typeOfTok σ' k t = typeOfTok σ k t) := by
  refine ⟨fun n => ?_, fun n => ?_, fun n => ?_, fun t => ?_⟩
  · unfold enumLk enumDef; rw [h1, g1]
  · unfold ptrLk ptrDef; rw [h2, g2]
  · unfold compLk; rw [h3, g3, g0]
  · unfold typeOfTok enumDef ptrDef compDef; rw [h1, h2, h3, g1, g2, g3]

theorem memSig_of_toks {σ' : St} {k : Nat} (h : ∀ t, typeOfTok σ' k t = typeOfTok σ k t) (body : List Stmt) :
    memSig σ' k body = memSig σ k body := by
  have hs : ∀ b : List Stmt, scalSig σ' k b = scalSig σ k b := by
    intro b
    induction b with
    | nil => rfl
    | cons st r ih => cases st <;> simp only [scalSig, ih, h]
  have ha : ∀ b : List Stmt, arrSig σ' k b = arrSig σ k b := by
    intro b
    induction b with
    | nil => rfl
    | cons st r ih => cases st <;> simp only [arrSig, ih, h]
  unfold memSig; rw [hs, ha]

theorem compLk_scope {k : Nat} {n : Str} {b : Block} {k' : Nat} (h : compLk σ k n = some (b, k')) : k' = k ∨ k' = gid σ := by
  unfold compLk at h
  split at h
  · cases h; exact Or.inl rfl
  · cases hf : (gcomps σ).find? (·.1 == n) with
    | none => rw [hf] at h; cases h
    | some x => rw [hf] at h; cases h; exact Or.inr rfl

/-- `Local` only depends on the lookups, the id counter, liveness and readability -/
theorem Local.transfer {σ' : St} {k : Nat} (he : ∀ n, enumLk σ' k n = enumLk σ k n) (hp : ∀ n, ptrLk σ' k n = ptrLk σ k n)
    (hc : ∀ n, compLk σ' k n = compLk σ k n)
    (htok : ∀ k', (k' = k ∨ k' = gid σ) → ∀ t, typeOfTok σ' k' t = typeOfTok σ k' t)
    (htgt : ∀ l tg, TgtOK σ k l tg → TgtOK σ' k l tg) {v : Val} (h : Local σ k v) : Local σ' k v := by
  cases v <;> try exact h
  · obtain ⟨vals, h1, h2⟩ := h; exact ⟨vals, by rw [he]; exact h1, h2⟩
  · obtain ⟨tg, h1, h2⟩ := h; exact ⟨tg, by rw [hp]; exact h1, fun l hl => htgt l tg (h2 l hl)⟩
  · obtain ⟨body, k', h1, h2, h3⟩ := h
    have hms := memSig_of_toks (htok k' (compLk_scope h1)) body
    exact ⟨body, k', by rw [hc]; exact h1, by rw [hms]; exact h2, by rw [hms]; exact h3⟩

theorem TyDef.transfer {σ' : St} {k : Nat} (he : ∀ n, enumLk σ' k n = enumLk σ k n) (hp : ∀ n, ptrLk σ' k n = ptrLk σ k n)
    (hc : ∀ n, compLk σ' k n = compLk σ k n) {ty : Ty} (h : TyDef σ k ty) : TyDef σ' k ty := by
  cases ty <;> try exact h
  · obtain ⟨x, h1⟩ := h; exact ⟨x, by rw [he]; exact h1⟩
  · obtain ⟨x, h1⟩ := h; exact ⟨x, by rw [hp]; exact h1⟩
  · obtain ⟨x, h1⟩ := h; exact ⟨x, by rw [hc]; exact h1⟩

theorem actOf_none_of_ne {k : Nat} (h : ∀ a ∈ σ.acts, a.id ≠ k) : actOf σ k = none := by
  unfold actOf
  apply List.find?_eq_none.2
  intro a ha
  simpa using h a ha

/-- pushing an activation without definitions changes no lookup -/
theorem lists_push (hW : WF σ) {mk : Nat → Act} (hmk : MkOK mk) :
    (∀ k, lenums (pushSt mk σ) k = lenums σ k ∧ lptrs (pushSt mk σ) k = lptrs σ k ∧ lcomps (pushSt mk σ) k = lcomps σ k) ∧
    genums (pushSt mk σ) = genums σ ∧ gptrs (pushSt mk σ) = gptrs σ ∧ gcomps (pushSt mk σ) = gcomps σ ∧
    gid (pushSt mk σ) = gid σ := by
  obtain ⟨a, rest, hσ⟩ := hW.top
  have hlast : (pushSt mk σ).acts.getLast? = σ.acts.getLast? := by
    show (mk σ.nextId :: σ.acts).getLast? = _
    rw [hσ, List.getLast?_cons_cons]
  refine ⟨fun k => ?_, ?_, ?_, ?_, ?_⟩
  · have hact : actOf (pushSt mk σ) k = if ((mk σ.nextId).id == k) = true then some (mk σ.nextId) else actOf σ k :=
      actOf_cons _ _ _ _ rfl
    by_cases hk : ((mk σ.nextId).id == k) = true
    · have hkk : k = σ.nextId := by rw [(hmk _).1] at hk; simpa using Eq.symm (by simpa using hk)
      have hdead : actOf σ k = none := actOf_none_of_ne fun b hb => by
        rw [hkk]; exact Nat.ne_of_lt (hW.below b hb)
      unfold lenums lptrs lcomps
      rw [hact, if_pos hk, hdead]
      exact ⟨(hmk _).2.1, (hmk _).2.2.1, (hmk _).2.2.2⟩
    · unfold lenums lptrs lcomps
      rw [hact, if_neg hk]
      exact ⟨rfl, rfl, rfl⟩
  · unfold NR.genums; rw [hlast]
  · unfold NR.gptrs; rw [hlast]
  · unfold NR.gcomps; rw [hlast]
  · unfold gid; rw [hlast]

theorem scopeAt_push (hW : WF σ) {mk : Nat → Act} (hmk : MkOK mk) {id : Nat} (h : id ≠ σ.nextId) :
    scopeAt (pushSt mk σ) id = scopeAt σ id := by
  unfold scopeAt
  rw [(lists_push hW hmk).2.2.2.2]
  show scopeAtL _ (mk σ.nextId :: σ.acts) id = _
  exact scopeAtL_miss (by rw [(hmk _).1]; simpa using fun e => h e.symm)

/-- values stay fine when a fresh activation is pushed -/
theorem Mono.push (hW : WF σ) {mk : Nat → Act} (hmk : MkOK mk) : Mono (fun _ => True) σ (pushSt mk σ) := by
  obtain ⟨hl, g1, g2, g3, g0⟩ := lists_push hW hmk
  have hat : ∀ k, _ := fun k => lookups_at (hl k).1 (hl k).2.1 (hl k).2.2 g1 g2 g3 g0
  have htyG : ∀ ty, TyG σ ty → TyG (pushSt mk σ) ty := fun ty h => by
    unfold TyG at *; rw [g0]; exact h.transfer (hat _).1 (hat _).2.1 (hat _).2.2.1
  refine ⟨fun k _ v hv p w hp => ?_, fun k _ ty h => h.transfer (hat k).1 (hat k).2.1 (hat k).2.2.1, g0, trivial,
    fun _ n hn => by unfold GFresh at *; rw [g1, g2, g3]; exact hn⟩
  refine (hv p w hp).transfer (hat k).1 (hat k).2.1 (hat k).2.2.1 (fun k' _ => (hat k').2.2.2) fun l tg ht => ?_
  obtain ⟨hlt, hlive⟩ := ht
  refine ⟨Nat.lt_succ_of_lt hlt, fun hL => ?_⟩
  obtain ⟨b, hb, hbid⟩ := hL
  have hb' : b ∈ σ.acts := by
    rcases List.mem_cons.1 hb with rfl | hb
    · rw [(hmk _).1] at hbid; exact absurd hbid (Nat.ne_of_gt hlt)
    · exact hb
  obtain ⟨⟨w', hr, hk⟩, hcross⟩ := hlive ⟨b, hb', hbid⟩
  refine ⟨⟨w', ?_, hk⟩, ?_⟩
  · show ReadsIn (mk σ.nextId :: σ.acts) l w'
    exact (NC.ReadsIn.cons_ne (by rw [(hmk _).1]; exact Nat.ne_of_gt hlt)).2 hr
  · rcases hcross with h | h
    · exact Or.inl (htyG _ h)
    · exact Or.inr (by rw [scopeAt_push hW hmk (Nat.ne_of_lt hlt)]; exact h)

/-- the scope of the slots of the pushed activation -/
def pushScope (mk : Nat → Act) (σ : St) : Nat := scopeOfL (gid σ) (mk σ.nextId :: σ.acts)

theorem WF.push (hW : WF σ) {mk : Nat → Act} (hmk : MkOK mk) (hnew : ActOK σ (pushScope mk σ) σ.acts (mk σ.nextId)) :
    WF (pushSt mk σ) := by
  have hm := Mono.push hW hmk
  refine ⟨by simp [pushSt], ⟨?_, fun b hb => ?_, ?_⟩, fun b hb => ?_,
    fun p hp => (hW.procs p hp).mono hm, fun p hp => (hW.funs p hp).mono hm⟩
  · show ActOK (pushSt mk σ) (scopeOfL (gid (pushSt mk σ)) (mk σ.nextId :: σ.acts)) σ.acts (mk σ.nextId)
    rw [hm.gid]
    refine ⟨fun s hs => (hnew.vars s hs).mono hm trivial, fun s hs => (hnew.arrs s hs).mono hm trivial,
      ⟨fun e he => ?_, fun e he => ?_, fun e he => ?_⟩, fun _ n hn => ?_, hnew.compDefs, hnew.compRef, hnew.glob,
      fun v hv => ⟨(hnew.retVal v hv).1, hm.good _ trivial _ (hnew.retVal v hv).2⟩⟩
    · rw [(hmk _).2.1] at he; cases he
    · rw [(hmk _).2.2.1] at he; cases he
    · rw [(hmk _).2.2.2] at he; cases he
    · unfold Defines at hn
      rw [(hmk _).2.1, (hmk _).2.2.1, (hmk _).2.2.2] at hn
      simp at hn
  · rw [(hmk _).1]; exact Nat.ne_of_lt (hW.below b hb)
  · exact StackOK.mono hm (full := σ.acts) (fun _ _ _ => trivial) (fun x y r h => ⟨x, y, r, h⟩) (pre := []) rfl hW.stack
  · rcases List.mem_cons.1 hb with rfl | hb
    · rw [(hmk _).1]; exact Nat.lt_succ_self _
    · exact Nat.lt_succ_of_lt (hW.below b hb)

/-- popping the top activation changes no lookup in the scopes of the others -/
theorem lists_pop {σ2 : St} (hW2 : WF σ2) {top : Act} {rest : List Act} (hσ2 : σ2.acts = top :: rest) (hrne : rest ≠ []) :
    (∀ k, k ≠ top.id → lenums (popSt σ2) k = lenums σ2 k ∧ lptrs (popSt σ2) k = lptrs σ2 k ∧
      lcomps (popSt σ2) k = lcomps σ2 k) ∧
    genums (popSt σ2) = genums σ2 ∧ gptrs (popSt σ2) = gptrs σ2 ∧ gcomps (popSt σ2) = gcomps σ2 ∧ gid (popSt σ2) = gid σ2 := by
  have hpop : (popSt σ2).acts = rest := by simp [popSt, hσ2]
  have hlast : (popSt σ2).acts.getLast? = σ2.acts.getLast? := by
    rw [hpop, hσ2]
    cases rest with
    | nil => exact absurd rfl hrne
    | cons b r => rw [List.getLast?_cons_cons]
  refine ⟨fun k hk => ?_, ?_, ?_, ?_, ?_⟩
  · have hact : actOf (popSt σ2) k = actOf σ2 k := by
      have hf : (top.id == k) = false := by simpa using fun h => hk h.symm
      rw [actOf_cons top rest k σ2 hσ2]
      unfold actOf; rw [hpop]; simp [hf]
    unfold lenums lptrs lcomps; rw [hact]; exact ⟨rfl, rfl, rfl⟩
  · unfold NR.genums; rw [hlast]
  · unfold NR.gptrs; rw [hlast]
  · unfold NR.gcomps; rw [hlast]
  · unfold gid; rw [hlast]

/-- a dead scope sees the global definitions only -/
theorem lookups_dead (hW : WF σ) {k : Nat} (hd : ∀ a ∈ σ.acts, a.id ≠ k) :
    (∀ n, enumLk σ k n = enumLk σ (gid σ) n) ∧ (∀ n, ptrLk σ k n = ptrLk σ (gid σ) n) ∧
    (∀ n, compLk σ k n = compLk σ (gid σ) n) ∧ (∀ t, typeOfTok σ k t = typeOfTok σ (gid σ) t) := by
  have hdead := actOf_none_of_ne hd
  have h1 : lenums σ k = [] := by unfold lenums; rw [hdead]
  have h2 : lptrs σ k = [] := by unfold lptrs; rw [hdead]
  have h3 : lcomps σ k = [] := by unfold lcomps; rw [hdead]
  have e1 : ∀ n, enumDef σ k n = enumDef σ (gid σ) n := fun n => by rw [hW.enumDef_gid]; unfold enumDef lk; rw [h1]; rfl
  have e2 : ∀ n, ptrDef σ k n = ptrDef σ (gid σ) n := fun n => by rw [hW.ptrDef_gid]; unfold ptrDef lk; rw [h2]; rfl
  have e3 : ∀ n, compDef σ k n = compDef σ (gid σ) n := fun n => by rw [hW.compDef_gid]; unfold compDef lk; rw [h3]; rfl
  refine ⟨fun n => by unfold enumLk; rw [e1], fun n => by unfold ptrLk; rw [e2], fun n => ?_, fun t => ?_⟩
  · rw [hW.compLk_gid]; unfold compLk; rw [h3]; rfl
  · unfold typeOfTok; rw [e1, e2, e3]

/-- push, run, pop: the state after the pop is well-formed, extends the state before the push, and values in the scopes of the
    remaining activations stay fine -/
theorem pop_ok (hW : WF σ) {mk : Nat → Act} (hmk : MkOK mk) {σ2 : St} (hW2 : WF σ2)
    (hE2 : Ext (pushSt mk σ) σ2) : WF (popSt σ2) ∧ Ext σ (popSt σ2) ∧ Mono (· ≠ σ.nextId) σ2 (popSt σ2) := by
  have hids := hE2.ids
  obtain ⟨top, rest, hσ2⟩ := hW2.top
  rw [hσ2] at hids
  simp only [pushSt, List.map_cons, List.cons.injEq] at hids
  obtain ⟨htop, hrest⟩ := hids
  have htid : top.id = σ.nextId := by rw [hdr_id htop]; exact (hmk _).1
  have hpop : (popSt σ2).acts = rest := by simp [popSt, hσ2]
  have hst := hW2.stack; rw [hσ2] at hst
  have hrne : rest ≠ [] := by
    intro h
    rw [h] at hrest
    exact hW.ne (List.map_eq_nil_iff.1 hrest.symm)
  obtain ⟨hl, g1, g2, g3, g0⟩ := lists_pop hW2 hσ2 hrne
  have hat : ∀ k, k ≠ top.id → _ := fun k hk => lookups_at (hl k hk).1 (hl k hk).2.1 (hl k hk).2.2 g1 g2 g3 g0
  have hgne : gid σ2 ≠ top.id := by
    obtain ⟨g, hlast, _, hid, _⟩ := hW2.glast
    rw [← hid]
    have : g ∈ rest := by
      rw [hσ2] at hlast
      cases rest with
      | nil => exact absurd rfl hrne
      | cons b r => rw [List.getLast?_cons_cons] at hlast; exact List.mem_of_getLast? hlast
    exact hst.2.1 g this
  have htyG : ∀ ty, TyG σ2 ty → TyG (popSt σ2) ty := fun ty h => by
    unfold TyG at *; rw [g0]; exact h.transfer (hat _ hgne).1 (hat _ hgne).2.1 (hat _ hgne).2.2.1
  have hm : Mono (· ≠ σ.nextId) σ2 (popSt σ2) := by
    refine ⟨fun k hk v hv p w hp => ?_, fun k hk ty h => ?_, g0, by rw [← htid]; exact hgne,
      fun _ n hn => by unfold GFresh at *; rw [g1, g2, g3]; exact hn⟩
    · have hk' : k ≠ top.id := by rw [htid]; exact hk
      refine (hv p w hp).transfer (hat k hk').1 (hat k hk').2.1 (hat k hk').2.2.1 (fun k' hk'' => ?_) fun l tg ht => ?_
      · rcases hk'' with rfl | rfl
        · exact (hat _ hk').2.2.2
        · exact (hat _ hgne).2.2.2
      · obtain ⟨hlt, hlive⟩ := ht
        refine ⟨hlt, fun hL => ?_⟩
        obtain ⟨b, hb, hbid⟩ := hL
        rw [hpop] at hb
        have hne : top.id ≠ l.act := by rw [← hbid]; exact fun e => hst.2.1 b hb e.symm
        obtain ⟨⟨w', hr, hkd⟩, hcross⟩ := hlive ⟨b, by rw [hσ2]; exact List.mem_cons_of_mem _ hb, hbid⟩
        rw [hσ2] at hr
        refine ⟨⟨w', by rw [hpop]; exact (NC.ReadsIn.cons_ne hne).1 hr, hkd⟩, ?_⟩
        rcases hcross with h | h
        · exact Or.inl (htyG _ h)
        · refine Or.inr ?_
          rw [← h]
          unfold scopeAt
          rw [g0, hpop, hσ2]
          exact (scopeAtL_miss (by simpa using hne)).symm
    · have hk' : k ≠ top.id := by rw [htid]; exact hk
      exact h.transfer (hat k hk').1 (hat k hk').2.1 (hat k hk').2.2.1
  have hPrest : ∀ a ∈ rest, a.isComp = false → a.id ≠ σ.nextId := fun a ha _ => by
    rw [← htid]; exact hst.2.1 a ha
  have hWp : WF (popSt σ2) := by
    refine ⟨by rw [hpop]; exact hrne, ?_, ?_, fun p hp => (hW2.procs p hp).mono hm, fun p hp => (hW2.funs p hp).mono hm⟩
    · rw [hpop]
      refine StackOK.mono hm (full := rest) hPrest (fun x y r h => ?_) (pre := []) rfl hst.2.2
      exact ⟨top, x, y :: r, by rw [hσ2, h]⟩
    · rw [hpop]; intro b hb
      exact hW2.below b (by rw [hσ2]; exact List.mem_cons_of_mem _ hb)
  refine ⟨hWp, ⟨?_, ?_, ?_, ?_, ?_, ?_, ?_, ?_⟩, hm⟩
  · rw [hpop]; exact hrest
  · exact Nat.le_trans (Nat.le_succ _) hE2.nextId
  · intro l v hr
    obtain ⟨b, hb, hbid⟩ := hr.mem
    have hne : σ.nextId ≠ l.act := by
      rw [← hbid]; exact Nat.ne_of_gt (hW.below b hb)
    have hr1 : ReadsIn (pushSt mk σ).acts l v := by
      show ReadsIn (mk σ.nextId :: σ.acts) l v
      exact (NC.ReadsIn.cons_ne (by rw [(hmk _).1]; exact hne)).2 hr
    obtain ⟨v', hr2, k⟩ := hE2.reads l v hr1
    rw [hσ2] at hr2
    rw [hpop]
    exact ⟨v', (NC.ReadsIn.cons_ne (by rw [htid]; exact hne)).1 hr2, k⟩
  all_goals
    have hpl := lists_push hW hmk
    have hpat : ∀ k, _ := fun k => lookups_at (hpl.1 k).1 (hpl.1 k).2.1 (hpl.1 k).2.2 hpl.2.1 hpl.2.2.1 hpl.2.2.2.1 hpl.2.2.2.2
    have hdeadσ : ∀ a ∈ σ.acts, a.id ≠ σ.nextId := fun a ha => Nat.ne_of_lt (hW.below a ha)
    have hdeadp : ∀ a ∈ (popSt σ2).acts, a.id ≠ σ.nextId := fun a ha => by
      rw [hpop] at ha; rw [← htid]; exact hst.2.1 a ha
    have hgσ : gid σ ≠ σ.nextId := by
      obtain ⟨g, _, hg, hid, _⟩ := hW.glast
      rw [← hid]; exact hdeadσ g hg
    have hgid : gid (popSt σ2) = gid σ := by rw [g0, hE2.gid, hpl.2.2.2.2]
  · -- enums
    intro k n x hx
    by_cases hk : k = σ.nextId
    · subst hk
      rw [(lookups_dead hW hdeadσ).1] at hx
      rw [(lookups_dead hWp hdeadp).1, hgid]
      have h1 := hE2.enums (gid σ) n x (by rw [(hpat _).1]; exact hx)
      rw [(hat (gid σ) (by rw [htid]; exact hgσ)).1]; exact h1
    · have h1 := hE2.enums k n x (by rw [(hpat _).1]; exact hx)
      rw [(hat k (by rw [htid]; exact hk)).1]; exact h1
  · intro k n x hx
    by_cases hk : k = σ.nextId
    · subst hk
      rw [(lookups_dead hW hdeadσ).2.1] at hx
      rw [(lookups_dead hWp hdeadp).2.1, hgid]
      have h1 := hE2.ptrs (gid σ) n x (by rw [(hpat _).2.1]; exact hx)
      rw [(hat (gid σ) (by rw [htid]; exact hgσ)).2.1]; exact h1
    · have h1 := hE2.ptrs k n x (by rw [(hpat _).2.1]; exact hx)
      rw [(hat k (by rw [htid]; exact hk)).2.1]; exact h1
  · intro k n x hx
    by_cases hk : k = σ.nextId
    · subst hk
      rw [(lookups_dead hW hdeadσ).2.2.1] at hx
      rw [(lookups_dead hWp hdeadp).2.2.1, hgid]
      have h1 := hE2.comps (gid σ) n x (by rw [(hpat _).2.2.1]; exact hx)
      rw [(hat (gid σ) (by rw [htid]; exact hgσ)).2.2.1]; exact h1
    · have h1 := hE2.comps k n x (by rw [(hpat _).2.2.1]; exact hx)
      rw [(hat k (by rw [htid]; exact hk)).2.2.1]; exact h1
  · intro k t ht
    by_cases hk : k = σ.nextId
    · subst hk
      rw [(lookups_dead hW hdeadσ).2.2.2] at ht ⊢
      rw [(lookups_dead hWp hdeadp).2.2.2, hgid]
      have h1 := hE2.toks (gid σ) t (by rw [(hpat _).2.2.2]; exact ht)
      rw [(hat (gid σ) (by rw [htid]; exact hgσ)).2.2.2, h1, (hpat _).2.2.2]
    · have h1 := hE2.toks k t (by rw [(hpat _).2.2.2]; exact ht)
      rw [(hat k (by rw [htid]; exact hk)).2.2.2, h1, (hpat _).2.2.2]
  · intro hh
    have h2 : ∃ a b r, (pushSt mk σ).acts = a :: b :: r := by
      obtain ⟨a, b, r, h⟩ := hh
      exact ⟨mk σ.nextId, a, b :: r, by show mk σ.nextId :: σ.acts = _; rw [h]⟩
    obtain ⟨x1, x2, x3⟩ := hE2.gsame h2
    exact ⟨by rw [g1, x1, hpl.2.1], by rw [g2, x2, hpl.2.2.1], by rw [g3, x3, hpl.2.2.2.1]⟩

theorem Run.withAct {σ0 : St} {mk : Nat → Act} {body : M α} {Q Qb : α → St → Prop}
    (hW : WF σ) (hE : Ext σ0 σ) (hmk : MkOK mk) (hnew : ActOK σ (pushScope mk σ) σ.acts (mk σ.nextId))
    (hbody : WF (pushSt mk σ) → Run body (pushSt mk σ) (ResE (pushSt mk σ) Qb ErrNR))
    (hpost : ∀ a σ2, WF σ2 → Ext (pushSt mk σ) σ2 → Mono (· ≠ σ.nextId) σ2 (popSt σ2) → WF (popSt σ2) → Qb a σ2 →
      Q a (popSt σ2)) :
    Run (Pseudo.withAct mk body) σ (ResE σ0 Q E) := by
  have hb := hbody (hW.push hmk hnew)
  unfold Run at *
  rw [run_withAct]
  obtain ⟨hW2, hE2, hres⟩ := hb
  obtain ⟨hWp, hEp, hm⟩ := pop_ok hW hmk hW2 hE2
  refine ⟨hWp, hE.trans hEp, ?_⟩
  dsimp only
  rcases hr : (body.run.run (pushSt mk σ)).1 with e | a
  · rw [hr] at hres
    exact EOK.of_nr _ _ ⟨⟨hres.1.1, fun he => absurd he hres.2⟩, hres.2⟩
  · rw [hr] at hres
    exact hpost a _ hW2 hE2 hm hWp hres

/-- the same bracket; the postcondition may also use that the state after the pop extends the state before the push -/
theorem Run.withAct' {σ0 : St} {mk : Nat → Act} {body : M α} {Q Qb : α → St → Prop}
    (hW : WF σ) (hE : Ext σ0 σ) (hmk : MkOK mk) (hnew : ActOK σ (pushScope mk σ) σ.acts (mk σ.nextId))
    (hbody : WF (pushSt mk σ) → Run body (pushSt mk σ) (ResE (pushSt mk σ) Qb ErrNR))
    (hpost : ∀ a σ2, WF σ2 → Ext (pushSt mk σ) σ2 → Mono (· ≠ σ.nextId) σ2 (popSt σ2) → WF (popSt σ2) → Ext σ (popSt σ2) →
      Qb a σ2 → Q a (popSt σ2)) :
    Run (Pseudo.withAct mk body) σ (ResE σ0 Q E) := by
  have hb := hbody (hW.push hmk hnew)
  unfold Run at *
  rw [run_withAct]
  obtain ⟨hW2, hE2, hres⟩ := hb
  obtain ⟨hWp, hEp, hm⟩ := pop_ok hW hmk hW2 hE2
  refine ⟨hWp, hE.trans hEp, ?_⟩
  dsimp only
  rcases hr : (body.run.run (pushSt mk σ)).1 with e | a
  · rw [hr] at hres
    exact EOK.of_nr _ _ ⟨⟨hres.1.1, fun he => absurd he hres.2⟩, hres.2⟩
  · rw [hr] at hres
    exact hpost a _ hW2 hE2 hm hWp hEp hres

/-- scopes survive steps that keep the headers, and a push -/
theorem SV.of_hdr {σ' : St} (h : σ'.acts.map hdr = σ.acts.map hdr) {k : Nat} (hk : SV σ k) : SV σ' k := by
  have hg : gid σ' = gid σ := gidL_of_hdr h
  rcases hk with hk | ⟨a, ha, hid, hc⟩
  · exact Or.inl (by rw [hg]; exact hk)
  · have : hdr a ∈ σ.acts.map hdr := List.mem_map.2 ⟨a, ha, rfl⟩
    rw [← h] at this
    obtain ⟨b, hb, hbe⟩ := List.mem_map.1 this
    exact Or.inr ⟨b, hb, (hdr_id hbe).trans hid, (hdr_isComp hbe).trans hc⟩

theorem SV.ext {σ' : St} (hE : Ext σ σ') {k : Nat} (hk : SV σ k) : SV σ' k := SV.of_hdr hE.ids hk

theorem SV.push (hW : WF σ) {mk : Nat → Act} (hmk : MkOK mk) {k : Nat} (hk : SV σ k) : SV (pushSt mk σ) k := by
  rcases hk with hk | ⟨a, ha, hid, hc⟩
  · exact Or.inl (by rw [(lists_push hW hmk).2.2.2.2]; exact hk)
  · exact Or.inr ⟨a, List.mem_cons_of_mem _ ha, hid, hc⟩

/-- a scope of `σ` is not the id of the next activation -/
theorem SV.ne_next (hW : WF σ) {k : Nat} (hk : SV σ k) : k ≠ σ.nextId := by
  rcases hk with hk | ⟨a, ha, hid, _⟩
  · obtain ⟨g, _, hg, hgid, _⟩ := hW.glast
    rw [hk, ← hgid]; exact Nat.ne_of_lt (hW.below g hg)
  · rw [← hid]; exact Nat.ne_of_lt (hW.below a ha)

end changing

end Pseudo.NL
