import PseudoProofs.EvalInv
/-!
# C01 (evaluator never reaches a crash point): definitions

The sublanguage `okStmt` / `okBlock` (no TYPE statement anywhere: no user-defined enum / pointer / record types),
the shape of the values that occur then (`simple`, `ArrOK`), the well-formedness invariant `WF` of a state, the
relation `Ext` between the state before and after any piece of evaluation, and the postcondition on exceptions.
-/
namespace Pseudo.NC
open Pseudo

/-! ### the sublanguage -/

mutual
  /-- no TYPE statement (enum / pointer / record definition) anywhere in the statement -/
  def okStmt : Stmt → Bool
    | .typeEnum _ _ _ | .typePtr _ _ _ | .typeRec _ _ _ => false
    | .ifs _ brs els => okBranches brs && okOpt els
    | .case _ _ cls => okClauses cls
    | .while _ _ b => okBlock b
    | .repeat _ b _ => okBlock b
    | .for _ _ _ _ _ b => okBlock b
    | .procDef _ _ _ b => okBlock b
    | .funDef _ _ _ _ b => okBlock b
    | _ => true
  def okBlock : List Stmt → Bool
    | [] => true
    | s :: r => okStmt s && okBlock r
  def okBranches : List (Expr × List Stmt) → Bool
    | [] => true
    | (_, b) :: r => okBlock b && okBranches r
  def okOpt : Option (List Stmt) → Bool
    | none => true
    | some b => okBlock b
  def okClause : Clause → Bool
    | .eq _ b => okBlock b
    | .range _ _ b => okBlock b
    | .otherwise b => okBlock b
  def okClauses : List Clause → Bool
    | [] => true
    | c :: r => okClause c && okClauses r
end

/-! ### values -/

/-- a primitive scalar or NONE: the only values an expression can have when there are no user-defined types -/
def simple : Val → Bool
  | .none | .int _ | .real _ | .bool _ | .chr _ | .str _ | .date _ => true
  | _ => false

/-- a well-formed array of element type `ty`: as many cells as the dimensions say, every cell a scalar of type `ty` -/
def ArrOK (ty : Ty) (v : Val) : Prop :=
  ∃ dims cells, v = .arr ty dims cells ∧ cells.length = totalCells dims ∧ ∀ c ∈ cells, simple c = true ∧ c.ty = ty

/-- what a store may replace a value by: a scalar by a scalar of the same type, an array by an array of the same
    element type and dimensions -/
def SameKind (v v' : Val) : Prop :=
  v' = v ∨ (simple v = true ∧ simple v' = true ∧ v'.ty = v.ty) ∨
  (∃ ty dims cs cs', v = .arr ty dims cs ∧ v' = .arr ty dims cs' ∧ cs'.length = cs.length ∧
      ∀ c ∈ cs', simple c = true ∧ c.ty = ty)

/-! ### states -/

/-- location `l` can be read in the stack `acts`, and holds `v` (`ValidLoc` with the value exposed) -/
def ReadsIn (acts : List Act) (l : Loc) (v : Val) : Prop :=
  ∃ a s, acts.find? (·.id == l.act) = some a ∧ slotOf a l = some s ∧ getPath s.val l.path = some v

/-- a variable of an activation whose callers are `deeper`: an own cell holds a scalar of the declared type;
    a BYREF alias points to a readable location of a caller that holds a scalar of the declared type -/
def SlotOK (deeper : List Act) (s : Slot) : Prop :=
  match s.ref with
  | none => simple s.val = true ∧ s.val.ty = s.ty
  | some l => simple s.val = true ∧ ∃ v, ReadsIn deeper l v ∧ simple v = true ∧ v.ty = s.ty

def ArrSlotOK (s : Slot) : Prop := s.ty.isPrimitive = true ∧ ArrOK s.ty s.val

structure ActOK (deeper : List Act) (a : Act) : Prop where
  vars : ∀ s ∈ a.vars, SlotOK deeper s
  arrs : ∀ s ∈ a.arrs, ArrSlotOK s
  enums : a.enums = []
  ptrs : a.ptrs = []
  comps : a.comps = []
  isComp : a.isComp = false
  retVal : ∀ v, a.retVal = some v → simple v = true

def StackOK : List Act → Prop
  | [] => True
  | a :: rest => ActOK rest a ∧ (∀ b ∈ rest, b.id ≠ a.id) ∧ StackOK rest

/-- resolved parameters: primitive types -/
def ParamsOK (ps : List (Str × Ty × Bool)) : Prop := ∀ p ∈ ps, p.2.1.isPrimitive = true

def ProcOK (pd : ProcDef) : Prop := ParamsOK pd.params ∧ okBlock pd.body = true

def FunOK (fd : FunDef) : Prop := ParamsOK fd.params ∧ ∃ b t, fd.body = .user b t ∧ okBlock b = true

/-- **the invariant**: a non-empty stack of well-formed activations with distinct ids below `nextId`;
    the stored procedures and functions are in the sublanguage and have primitive parameter types -/
structure WF (σ : St) : Prop where
  ne : σ.acts ≠ []
  stack : StackOK σ.acts
  below : ∀ a ∈ σ.acts, a.id < σ.nextId
  procs : ∀ p ∈ σ.procs, ProcOK p
  funs : ∀ f ∈ σ.funs, FunOK f

/-- **before / after**: the same activations (ids, function flag) in the same order, `nextId` does not decrease,
    every readable location stays readable and keeps its kind -/
structure Ext (σ σ' : St) : Prop where
  ids : σ'.acts.map (fun a => (a.id, a.isFn)) = σ.acts.map (fun a => (a.id, a.isFn))
  nextId : σ.nextId ≤ σ'.nextId
  reads : ∀ l v, ReadsIn σ.acts l v → ∃ v', ReadsIn σ'.acts l v' ∧ SameKind v v'

/-- the exception is not a crash point -/
def NoCrash (e : Stop) : Prop := ∀ p, e ≠ .crash p

/-- postcondition on exceptions: not a crash point; the RETURN signal only travels inside a function activation -/
def ErrOK (σ : St) (e : Stop) : Prop :=
  NoCrash e ∧ (e = .ret → ∃ a rest, σ.acts = a :: rest ∧ a.isFn = true)

/-- a resolved reference: its location can be read; an array holder holds a well-formed array of its element type,
    a scalar holder a scalar of its type -/
def HolderOK (σ : St) (h : Holder) : Prop :=
  ∃ v, ReadsIn σ.acts h.loc v ∧ (if h.isArr = true then ArrOK h.ty v else simple v = true ∧ v.ty = h.ty)

end Pseudo.NC
