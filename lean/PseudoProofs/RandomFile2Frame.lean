import PseudoProofs.RandomFile2
/-!
# Random files, part 2b: a block of operations on ONE file keeps every other file name (the fold of `run_op_cont`)
-/
namespace Pseudo.RandomFile2
open Pseudo Pseudo.FileStmt Pseudo.ReadLoop Pseudo.RandomFile

variable {defs : Codec.Defs} {C : RecClass defs} {n : Str} {rest : List Act}

/-- `run_ops` of `PseudoProofs/RandomFile.lean` once more, with the strong frame: every other file name keeps its handles and
    its node on disk (`Kept`), CLOSEFILE / OPENFILE of `n` included -/
theorem run_ops_kept (f : Nat) : ∀ (ops : List ROp) (σ : St) (q : VSeq) (a : Act),
    RInv C σ n q a rest → VarsOK C a ops → σ.steps + cost ops ≤ σ.stepLimit →
    ∃ σ', (runBlock (f + 3 + cost ops) (block n ops)).run.run σ = outcome (specRun q a ops) σ' ∧
      RInv C σ' n (specRun q a ops).q (specRun q a ops).a rest ∧
      StFrame σ σ' (specRun q a ops).steps ((specRun q a ops).a :: rest) ∧
      (∀ m, m ≠ n → Kept (fileSt σ) (fileSt σ') m)
  | [], σ, q, a, inv, _, _ => by
    refine ⟨σ, run_runBlock_nil (f+2) σ, inv, ?_, fun m _ => Kept.refl _ m⟩
    unfold StFrame specRun
    dsimp only
    rw [← inv.acts]
    rfl
  | op :: ops, σ, q, a, inv, hvars, hb => by
    have hcost : cost (op :: ops) = op.cost + cost ops := by simp [cost]
    have hblock : block n (op :: ops) = op.stmts n ++ block n ops := by simp [block]
    have hfuel : f + 3 + cost (op :: ops) = (f + cost ops) + 3 + op.cost := by rw [hcost]; omega
    have hfuel' : (f + cost ops) + 3 = f + 3 + cost ops := by omega
    rw [hcost] at hb
    have hv : VarsOK C a [op] := by
      intro o ho x hx
      simp only [List.mem_cons, List.not_mem_nil, or_false] at ho
      subst ho
      exact hvars o (List.mem_cons_self ..) x hx
    obtain ⟨hok, herr⟩ := run_op_cont (f + cost ops) op inv hv (by omega) (block n ops)
    cases hs : specStep q a op with
    | none =>
      have hsr := specRun_cons_none q a op ops hs
      refine ⟨tickSt σ, ?_, ?_, ?_, fun m _ => Kept.refl _ m⟩
      · rw [hblock, hfuel, herr hs, hsr]; rfl
      · rw [hsr]; exact ⟨inv.acts, inv.defs, inv.file⟩
      · rw [hsr]
        unfold StFrame tickSt
        dsimp only
        rw [← inv.acts]
    | some r =>
      obtain ⟨q1, a1⟩ := r
      obtain ⟨σ1, hrun, inv1, hfr, hkept, ha⟩ := hok q1 a1 hs
      have hst : σ1.steps = σ.steps + op.cost := by rw [hfr]
      have hlim : σ1.stepLimit = σ.stepLimit := by rw [hfr]
      have hv1 : VarsOK C a1 ops := fun o ho x hx =>
        goodVar_step_same' ha x (hvars o (List.mem_cons_of_mem _ ho) x hx)
      obtain ⟨σ', h1, h2, h3, h4⟩ := run_ops_kept f ops σ1 q1 a1 inv1 hv1 (by rw [hst, hlim]; omega)
      have hsr := specRun_cons_some q a op ops q1 a1 hs
      refine ⟨σ', ?_, ?_, ?_, fun m hm => (hkept m hm).trans (h4 m hm)⟩
      · rw [hblock, hfuel, hrun, hfuel', h1, hsr]; rfl
      · rw [hsr]; exact h2
      · rw [hsr]; exact hfr.trans h3

end Pseudo.RandomFile2
