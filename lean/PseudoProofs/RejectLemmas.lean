import Properties.C09Exec
import Properties.C04Return
import Properties.C05
/-!
# Helper lemmas for C05 (rejection clause) on runs of the evaluator (`Properties/C05Reject.lean`)

* `storeCompatible_false_iff`, `not_isArr_of_ty`;
* `ResolvesAt σ f₀ r h`: with every fuel `≥ f₀` the reference `r` resolves in `σ` to the holder `h`, state unchanged
  (the analogue of `ArrayLemmas.PureAt` for references); instances `resolvesAt_var`, `resolvesAt_elem`,
  `resolvesAt_field`, `resolvesAt_deref`;
* `run_execAssign_checked`: `r <- rhs` where `rhs` evaluates (possibly with an effect) and `r` then resolves without
  effect to a non-array holder: constant check, type check, one `writeLoc`;
* `run_bindParams_prefix`: BYVAL parameters whose arguments are accepted are bound one after the other, state unchanged;
* `run_callProc_bind_err`, `run_callFun_bind_err`: a call whose binding fails ends with that failure, no activation
  is created; `run_callFun_body_err`: a user function whose body ends with a diagnostic;
* `run_execAssign_rhs_err`: an assignment whose right-hand side (not a plain reference) fails;
* `lineOf`, `lineFlag`, `afterLine`, `run_getLine`: `getLine` as a function of the state;
* `run_execStmt_input_resolved`: INPUT into a reference that resolves without effect to a non-array holder.
-/
namespace Pseudo

namespace RejectLemmas

open ArrayLemmas C07Copy CallLemmas RecordLemmas

theorem storeCompatible_false_iff (ty : Ty) (v : Val) : storeCompatible ty v = false ↔ (implicitCast ty v).ty ≠ ty := by
  unfold storeCompatible; simp

theorem storeCompatible_true_iff (ty : Ty) (v : Val) : storeCompatible ty v = true ↔ (implicitCast ty v).ty = ty := by
  unfold storeCompatible; simp

/-- a value that has a type is not a whole array -/
theorem not_isArr_of_ty (w : Val) (h : w.ty ≠ .none) : w.isArr = false := by
  cases w <;> first | rfl | exact absurd rfl h

/-- with every fuel `≥ f₀`, `r` resolves in `σ` to the holder `h` and leaves `σ` unchanged -/
def ResolvesAt (σ : St) (f₀ : Nat) (r : Ref) (h : Holder) : Prop :=
  ∀ f, f₀ ≤ f → (resolveRef f r).run.run σ = (.ok h, σ)

theorem ResolvesAt.mono {σ : St} {f₀ f₁ : Nat} {r : Ref} {h : Holder} (hr : ResolvesAt σ f₀ r h) (hle : f₀ ≤ f₁) :
    ResolvesAt σ f₁ r h := fun f hf => hr f (Nat.le_trans hle hf)

/-- a plain variable -/
theorem resolvesAt_var {σ : St} {id : Nat} {ty : Ty} {v : Val} (x : Tok) (h : HasVar σ x.val id ty v) :
    ResolvesAt σ 1 (.var x) (varHolder id x.val ty) := by
  intro f hf
  obtain ⟨f', rfl⟩ : ∃ f', f = f' + 1 := ⟨f - 1, by omega⟩
  exact run_resolveRef_hasVar σ x id ty f' h.resolves

/-- any variable the name lookup finds (also a BYREF formal: the holder is then the caller's location) -/
theorem resolvesAt_lookup (σ : St) (cur g : Act) (rest : List Act) (x : Tok) (a : Act) (s : Slot)
    (h : σ.acts = cur :: rest) (hg : σ.acts.getLast? = some g) (hl : lookupVarIn cur g x.val = some (a, s)) :
    ResolvesAt σ 1 (.var x) (holderOf a s) := by
  intro f hf
  obtain ⟨f', rfl⟩ : ∃ f', f = f' + 1 := ⟨f - 1, by omega⟩
  exact run_resolveRef_var σ cur g rest x f' a s h hg hl

/-- an element `a[e₁,…,eₙ]` of a declared array, pure in-bounds index expressions -/
theorem resolvesAt_elem (σ : St) (t at' : Tok) (es : List Expr) (ks : List Int) (id : Nat) (e : Ty)
    (dims : List (Int × Int)) (cells : List Val) (f₀ : Nat) (ha : HasArray σ at'.val id e dims cells)
    (hes : PureAll σ f₀ es (ks.map .int)) (hb : InBoundsAll dims ks) :
    ResolvesAt σ (f₀ + es.length + 2) (.index t (.var at') es)
      { loc := cellLoc id at'.val (lin dims ks), isArr := false, ty := e, name := at'.val } := by
  intro f hf
  exact C06_exec_resolve_elem σ t at' es ks id e dims cells f₀ f ha hes hb hf

/-- a member `r.m` of a record variable -/
theorem resolvesAt_field (σ : St) (t rt m : Tok) (id : Nat) (ty : Ty) (T : Str) (fs : List (Str × Val)) (k : Bool)
    (fv : Val) (hr : HasVar σ rt.val id ty (.comp T fs)) (hm : memberKind fs m.val = some k)
    (hfv : findField fs m.val k = some fv) :
    ResolvesAt σ 2 (.field t (.var rt) m) (fieldHolder (varHolder id rt.val ty) m.val k fv) := by
  intro f hf
  exact C07_exec_resolve_field σ t rt m id ty T fs k fv f hr hm hfv hf

/-- `p^` for a plain pointer variable holding a readable location -/
theorem resolvesAt_deref (σ : St) (t pt : Tok) (idp : Nat) (pn : Str) (l : Loc) (tv : Val)
    (hp : HasVar σ pt.val idp (.ptr pn) (.ptr pn (some l))) (hv : readLocP σ l = .ok tv) :
    ResolvesAt σ 2 (.deref t (.var pt)) (C09ExecL.derefHolder l tv) := by
  intro f hf
  obtain ⟨f', rfl⟩ : ∃ f', f = f' + 2 := ⟨f - 2, by omega⟩
  exact C09ExecL.run_deref_var σ t pt idp pn l tv f' hp hv

/-! ## literals are pure -/

theorem pureAt_strLit (σ : St) (t : Tok) (s : Str) : PureAt σ 1 (.strLit t s) (.str s) := by
  intro f hf
  obtain ⟨f', rfl⟩ : ∃ f', f = f' + 1 := ⟨f - 1, by omega⟩
  rw [evalExpr.eq_def]; rfl

theorem pureAt_boolLit (σ : St) (t : Tok) (b : Bool) : PureAt σ 1 (.boolLit t b) (.bool b) := by
  intro f hf
  obtain ⟨f', rfl⟩ : ∃ f', f = f' + 1 := ⟨f - 1, by omega⟩
  rw [evalExpr.eq_def]; rfl

theorem pureAt_charLit (σ : St) (t : Tok) (c : Char) : PureAt σ 1 (.charLit t c) (.chr c) := by
  intro f hf
  obtain ⟨f', rfl⟩ : ∃ f', f = f' + 1 := ⟨f - 1, by omega⟩
  rw [evalExpr.eq_def]; rfl

/-! ## assignment -/

/-- **the checks of an assignment.**  The right-hand side evaluates to `rv` (state `σ1`: it may have an effect, e.g. a
    function call), the target then resolves without effect to the non-array holder `h`: the constant check, the type
    check, one `writeLoc`. -/
theorem run_execAssign_checked (σ σ1 : St) (t : Tok) (r : Ref) (rhs : Expr) (rv : Val) (h : Holder) (f : Nat)
    (hacts : σ.acts ≠ []) (hrhs : (evalExpr f rhs).run.run σ = (.ok rv, σ1))
    (hr : (resolveRef f r).run.run σ1 = (.ok h, σ1)) (harr : h.isArr = false) :
    (execAssign (f+1) t r rhs).run.run σ =
      ((if locConstP σ1 h.loc then (rtErr t .constAssign : M Unit)
        else if (implicitCast h.ty rv).ty != h.ty then rtErr t .typeMismatch
        else writeLoc t h.loc (implicitCast h.ty rv)).run.run σ1) := by
  rw [run_execAssign_eval σ σ1 t r rhs rv f hacts hrhs, run_assignTail_resolved σ1 t r rv h f hr harr]

/-- an assignment whose right-hand side is not a plain reference and fails: that failure, nothing else happens -/
theorem run_execAssign_rhs_err (σ σ1 : St) (t : Tok) (r : Ref) (rhs : Expr) (x : Stop) (f : Nat)
    (hacts : σ.acts ≠ []) (hna : ∀ at' sr, rhs ≠ .access at' sr)
    (hrhs : (evalExpr f rhs).run.run σ = (.error x, σ1)) :
    (execAssign (f+1) t r rhs).run.run σ = (.error x, σ1) := by
  cases hσ : σ.acts with
  | nil => exact absurd hσ hacts
  | cons cur rest =>
    rw [execAssign_succ, run_bind_ok _ _ _ _ _ (run_curAct_cons σ cur rest hσ), run_bind_ok _ _ _ _ _ (run_get σ)]
    have h1 : (evalExpr f rhs >>= fun v => (pure (some v) : M (Option Val))).run.run σ = (.error x, σ1) :=
      run_bind_err _ _ _ _ _ hrhs
    apply run_bind_err
    rw [run_tryCatch_err _ _ _ _ _ h1]
    cases x with
    | diag d =>
      simp only
      split
      · cases rhs with
        | access at' sr => exact absurd rfl (hna at' sr)
        | _ => rfl
      · rfl
    | _ => rfl

/-! ## parameter binding -/

/-- BYVAL parameters whose argument values are accepted (`C04.CastsOK`) are bound one after the other, the state is
    unchanged; the binding goes on with the remaining parameters -/
theorem run_bindParams_prefix (t : Tok) : ∀ (ps₁ : List (Str × Ty × Bool)) (es₁ : List Expr) (vs₁ : List Val)
    (ps₂ : List (Str × Ty × Bool)) (es₂ : List Expr) (vs₂ : List Val) (acc : List Slot) (f : Nat) (σ : St),
    C04.CastsOK ps₁ vs₁ → es₁.length = vs₁.length →
    (bindParams (f + ps₁.length) t (ps₁ ++ ps₂) (es₁ ++ es₂) (vs₁ ++ vs₂) acc).run.run σ =
      (bindParams f t ps₂ es₂ vs₂ ((C04.byvalSlots ps₁ vs₁).reverse ++ acc)).run.run σ := by
  intro ps₁
  induction ps₁ with
  | nil =>
    intro es₁ vs₁ ps₂ es₂ vs₂ acc f σ hc hlen
    cases vs₁ with
    | nil =>
      cases es₁ with
      | nil => simp [C04.byvalSlots]
      | cons _ _ => cases hlen
    | cons _ _ => cases hc
  | cons p ps ih =>
    intro es₁ vs₁ ps₂ es₂ vs₂ acc f σ hc hlen
    obtain ⟨pn, pty, byRef⟩ := p
    cases vs₁ with
    | nil => cases hc
    | cons v vs =>
      cases es₁ with
      | nil => cases hlen
      | cons e es =>
        obtain ⟨rfl, hty, hrest⟩ := hc
        have hf : f + ((pn, pty, false) :: ps).length = (f + ps.length) + 1 := by simp only [List.length_cons]; omega
        rw [hf]
        simp only [List.cons_append]
        rw [run_bindParams_byval, if_pos hty, ih es vs ps₂ es₂ vs₂ _ f σ hrest (by simpa using hlen)]
        simp [C04.byvalSlots]

/-- a BYVAL parameter whose argument value is not accepted: `invalidArgs` at the call token, state unchanged -/
theorem run_bindParams_byval_reject (f : Nat) (t : Tok) (pn : Str) (pty : Ty) (ps : List (Str × Ty × Bool))
    (e : Expr) (es : List Expr) (v : Val) (vs : List Val) (acc : List Slot) (σ : St)
    (hbad : storeCompatible pty v = false) :
    (bindParams (f+1) t ((pn, pty, false) :: ps) (e :: es) (v :: vs) acc).run.run σ =
      (.error (.diag (rtDiag σ t.line t.col .invalidArgs)), σ) := by
  rw [run_bindParams_byval, if_neg ((storeCompatible_false_iff pty v).1 hbad)]

/-- a BYREF parameter whose argument is a reference that resolves (without effect) to a non-array holder of another
    type than the parameter's: `invalidArgs` at the call token, whatever the argument value; state unchanged -/
theorem run_bindParams_byref_reject (f : Nat) (t : Tok) (pn : Str) (pty : Ty) (ps : List (Str × Ty × Bool))
    (at' : Tok) (r : Ref) (es : List Expr) (v : Val) (vs : List Val) (acc : List Slot) (σ : St) (h : Holder)
    (hr : (resolveRef f r).run.run σ = (.ok h, σ)) (harr : h.isArr = false) (hty : h.ty ≠ pty) :
    (bindParams (f+1) t ((pn, pty, true) :: ps) (.access at' r :: es) (v :: vs) acc).run.run σ =
      (.error (.diag (rtDiag σ t.line t.col .invalidArgs)), σ) := by
  by_cases hv : v.ty = pty
  · rw [run_bindParams_byref f t pn pty ps at' r es v vs acc σ σ h hv hr]
    simp only [harr, Bool.false_eq_true, if_false]
    rw [if_neg hty]
  · exact run_bindParams_byref_type f t pn pty ps _ es v vs acc σ hv

/-- **the binding loop is sequential**: binding `ps₁ ++ ps₂` is binding `ps₁` (with its arguments) and then, in the
    state that left and with the slots made so far, `ps₂` — whatever the passing modes are -/
theorem run_bindParams_split (t : Tok) : ∀ (ps₁ : List (Str × Ty × Bool)) (es₁ : List Expr) (vs₁ : List Val)
    (ps₂ : List (Str × Ty × Bool)) (es₂ : List Expr) (vs₂ : List Val) (acc : List Slot) (f : Nat) (σ : St),
    es₁.length = ps₁.length → vs₁.length = ps₁.length →
    (bindParams (f + 1 + ps₁.length) t (ps₁ ++ ps₂) (es₁ ++ es₂) (vs₁ ++ vs₂) acc).run.run σ =
      match (bindParams (f + 1 + ps₁.length) t ps₁ es₁ vs₁ acc).run.run σ with
      | (.ok sl, σ') => (bindParams (f+1) t ps₂ es₂ vs₂ sl.reverse).run.run σ'
      | (.error x, σ') => (.error x, σ') := by
  intro ps₁
  induction ps₁ with
  | nil =>
    intro es₁ vs₁ ps₂ es₂ vs₂ acc f σ hl1 hl2
    cases es₁ with
    | cons _ _ => cases hl1
    | nil =>
      cases vs₁ with
      | cons _ _ => cases hl2
      | nil =>
        simp only [List.length_nil, Nat.add_zero, List.nil_append]
        rw [run_bindParams_done]
        simp only [List.reverse_reverse]
  | cons p ps ih =>
    intro es₁ vs₁ ps₂ es₂ vs₂ acc f σ hl1 hl2
    obtain ⟨pn, pty, byRef⟩ := p
    cases es₁ with
    | nil => cases hl1
    | cons e es =>
      cases vs₁ with
      | nil => cases hl2
      | cons v vs =>
        have hl1' : es.length = ps.length := by simpa using hl1
        have hl2' : vs.length = ps.length := by simpa using hl2
        have hf : f + 1 + ((pn, pty, byRef) :: ps).length = (f + 1 + ps.length) + 1 := by
          simp only [List.length_cons]; omega
        rw [hf]
        simp only [List.cons_append]
        cases byRef with
        | false =>
          rw [run_bindParams_byval, run_bindParams_byval]
          by_cases hty : (implicitCast pty v).ty = pty
          · rw [if_pos hty, if_pos hty]
            exact ih es vs ps₂ es₂ vs₂ _ f σ hl1' hl2'
          · rw [if_neg hty, if_neg hty]
        | true =>
          by_cases hv : v.ty = pty
          · by_cases he : ∃ at' r, e = .access at' r
            · obtain ⟨at', r, rfl⟩ := he
              rcases hres : (resolveRef (f + 1 + ps.length) r).run.run σ with ⟨x | h, σ'⟩
              · rw [run_bindParams_byref_err _ t pn pty _ at' r _ v _ acc σ σ' x hv hres,
                  run_bindParams_byref_err _ t pn pty _ at' r _ v _ acc σ σ' x hv hres]
              · rw [run_bindParams_byref _ t pn pty _ at' r _ v _ acc σ σ' h hv hres,
                  run_bindParams_byref _ t pn pty _ at' r _ v _ acc σ σ' h hv hres]
                cases h.isArr with
                | true => simp only [if_true]
                | false =>
                  simp only [Bool.false_eq_true, if_false]
                  by_cases hh : h.ty = pty
                  · rw [if_pos hh, if_pos hh]
                    exact ih es vs ps₂ es₂ vs₂ _ f σ' hl1' hl2'
                  · rw [if_neg hh, if_neg hh]
            · have he' : ∀ at' r, e ≠ .access at' r := fun at' r h => he ⟨at', r, h⟩
              rw [run_bindParams_byref_nonref _ t pn pty _ e _ v _ acc σ hv he',
                run_bindParams_byref_nonref _ t pn pty _ e _ v _ acc σ hv he']
          · rw [run_bindParams_byref_type _ t pn pty _ e _ v _ acc σ hv,
              run_bindParams_byref_type _ t pn pty _ e _ v _ acc σ hv]

/-! ## calls -/

/-- a procedure call whose binding fails: that failure; no activation is created, the state is the one the binding
    left -/
theorem run_callProc_bind_err (f : Nat) (t : Tok) (name : Str) (args : List Expr) (σ σ1 σ2 : St) (pd : ProcDef)
    (vals : List Val) (cur : Act) (rest : List Act) (x : Stop)
    (hpd : σ.procs.find? (·.name == name) = some pd)
    (hargs : (evalArgs f args []).run.run σ = (.ok vals, σ1))
    (hlen : vals.length = pd.params.length)
    (hdepth : σ1.depth + 1 ≤ σ1.depthLimit)
    (hcur : σ1.acts = cur :: rest)
    (hbind : (bindParams f t pd.params args vals []).run.run σ1 = (.error x, σ2)) :
    (callProc (f+1) t name args).run.run σ = (.error x, σ2) := by
  rw [callProc_succ, run_bind_ok _ _ _ _ _ (run_get σ), hpd]
  dsimp only
  rw [run_bind_ok _ _ _ _ _ hargs]
  have hl : (vals.length != pd.params.length) = false := by simp [hlen]
  simp only [hl, Bool.false_eq_true, if_false]
  rw [run_bind_ok _ _ _ _ _ (run_get σ1), run_bind_ok _ _ _ _ _ (run_get σ1)]
  have hd : ¬ (σ1.depth + 1 > σ1.depthLimit) := by omega
  simp only [hd, if_false]
  rw [run_bind_ok _ _ _ _ _ (run_curAct_cons σ1 cur rest hcur)]
  exact run_bind_err _ _ _ _ _ hbind

/-- the same for a function call (user-defined or built-in) -/
theorem run_callFun_bind_err (f : Nat) (t : Tok) (args : List Expr) (σ σ1 σ2 : St) (fd : FunDef)
    (vals : List Val) (cur : Act) (rest : List Act) (x : Stop)
    (hfd : funLookup σ t.val = some fd)
    (hargs : (evalArgs f args []).run.run σ = (.ok vals, σ1))
    (hlen : vals.length = fd.params.length)
    (hdepth : σ1.depth + 1 ≤ σ1.depthLimit)
    (hcur : σ1.acts = cur :: rest)
    (hbind : (bindParams f t fd.params args vals []).run.run σ1 = (.error x, σ2)) :
    (callFun (f+1) t args).run.run σ = (.error x, σ2) := by
  rw [callFun_succ, run_bind_ok _ _ _ _ _ (run_get σ), hfd]
  dsimp only
  rw [run_bind_ok _ _ _ _ _ hargs]
  have hl : (vals.length != fd.params.length) = false := by simp [hlen]
  simp only [hl, Bool.false_eq_true, if_false]
  rw [run_bind_ok _ _ _ _ _ (run_get σ1), run_bind_ok _ _ _ _ _ (run_get σ1)]
  have hd : ¬ (σ1.depth + 1 > σ1.depthLimit) := by omega
  simp only [hd, if_false]
  rw [run_bind_ok _ _ _ _ _ (run_curAct_cons σ1 cur rest hcur)]
  exact run_bind_err _ _ _ _ _ hbind

/-- a user function whose body ends with a diagnostic: the call ends with that diagnostic, the function's activation
    is removed -/
theorem run_callFun_body_err (f : Nat) (t : Tok) (args : List Expr) (σ σ1 σ2 σ4 : St) (fd : FunDef) (body : Block)
    (defTok : Tok) (vals : List Val) (cur : Act) (rest : List Act) (slots : List Slot) (d : Diag)
    (hfd : funLookup σ t.val = some fd) (hbody : fd.body = .user body defTok)
    (hargs : (evalArgs f args []).run.run σ = (.ok vals, σ1))
    (hlen : vals.length = fd.params.length)
    (hdepth : σ1.depth + 1 ≤ σ1.depthLimit)
    (hcur : σ1.acts = cur :: rest)
    (hbind : (bindParams f t fd.params args vals []).run.run σ1 = (.ok slots, σ2))
    (hrun : (runBlock f body).run.run (calleeSt (funAct fd slots) (setSwitch σ2 cur.id t)) = (.error (.diag d), σ4)) :
    (callFun (f+1) t args).run.run σ = (.error (.diag d), popSt σ4) := by
  rw [run_callFun_user f t args σ σ1 σ2 fd body defTok vals cur rest slots hfd hbody hargs hlen hdepth hcur hbind, hrun]
  rfl

/-! ## INPUT -/

/-- the line `getLine` returns in state `σ` -/
def lineOf (σ : St) : Str := if σ.stdinEof then [] else σ.stdin.takeWhile (· != '\n')

/-- the state `getLine` leaves: the line and its line break are consumed; at the end of the input the flag is set -/
def afterLine (σ : St) : St :=
  if σ.stdinEof then σ
  else
    match σ.stdin.drop (σ.stdin.takeWhile (· != '\n')).length with
    | [] => { σ with stdin := [], stdinEof := true }
    | _ :: rest' => { σ with stdin := rest' }

theorem run_getLine (σ : St) : ∃ b, getLine.run.run σ = (.ok (lineOf σ, b), afterLine σ) := by
  unfold getLine lineOf afterLine
  rw [run_bind_ok _ _ _ _ _ (run_get σ)]
  cases σ.stdinEof with
  | true => exact ⟨false, rfl⟩
  | false =>
    simp only [Bool.false_eq_true, if_false]
    cases σ.stdin.drop (σ.stdin.takeWhile (· != '\n')).length with
    | nil => exact ⟨false, rfl⟩
    | cons _ _ => exact ⟨true, rfl⟩

theorem afterLine_acts (σ : St) : (afterLine σ).acts = σ.acts := by
  unfold afterLine
  split
  · rfl
  · split <;> rfl

theorem execStmt_input (f : Nat) (t : Tok) (r : Ref) :
    execStmt (f+1) (.input t r) = (do
        tick t
        let target ← catchNotDefined (resolveRef f r >>= fun h => pure (some h)) fun e => do
          match r with
          | .var vt =>
            if ← isIdentifierType vt then throw e
            else if (← get).pedantic then pedErr vt .pedInput
            else pure none
          | _ => throw e
        let h ← match target with
          | some h => if h.isArr then rtErr t .arrayDirect else pure h
          | none =>
            match r with
            | .var vt =>
              addVar { name := vt.val, ty := .str, val := .str [] }
              let a ← curAct
              pure { loc := { act := a.id, isArr := false, name := vt.val, path := [] }, isArr := false, ty := .str, name := vt.val : Holder }
            | _ => throw (.crash .other)
        if ← locIsConst h.loc then rtErr t .constAssign
        let (line, _) ← getLine
        match inputConvert h.ty line with
        | some v => writeLoc t h.loc v; pure .none
        | none => rtErr t .nonPrimitive) := by
  rw [execStmt.eq_def]; rfl

/-- **INPUT into a resolved target**: one tick; the reference resolves without effect to the non-array, non-constant
    holder `h`; one line is taken from the input; the line is converted by the type of `h`: a convertible type → one
    `writeLoc` of the converted value; otherwise `nonPrimitive` at the INPUT token (the line has been consumed) -/
theorem run_execStmt_input_resolved (σ : St) (t : Tok) (r : Ref) (h : Holder) (f : Nat)
    (hsteps : σ.steps + 1 ≤ σ.stepLimit)
    (hr : (resolveRef f r).run.run (tickSt σ) = (.ok h, tickSt σ)) (harr : h.isArr = false)
    (hconst : locConstP σ h.loc = false) :
    (execStmt (f+1) (.input t r)).run.run σ =
      match inputConvert h.ty (lineOf σ) with
      | some v =>
        (match (writeLoc t h.loc v).run.run (afterLine (tickSt σ)) with
         | (.ok _, σ') => (.ok .none, σ')
         | (.error e, σ') => (.error e, σ'))
      | none => (.error (.diag (rtDiag σ t.line t.col .nonPrimitive)), afterLine (tickSt σ)) := by
  have h2 : (resolveRef f r >>= fun h => (pure (some h) : M (Option Holder))).run.run (tickSt σ) = (.ok (some h), tickSt σ) := by
    rw [run_bind_ok _ _ _ _ _ hr]; rfl
  obtain ⟨b, hb⟩ := run_getLine (tickSt σ)
  have hc : locConstP (tickSt σ) h.loc = false := hconst
  rw [execStmt_input, run_bind_ok _ _ _ _ _ (run_tick_ok t σ hsteps)]
  unfold catchNotDefined
  rw [run_bind_ok _ _ _ _ _ (run_tryCatch_ok _ _ _ _ _ h2)]
  simp only [harr, Bool.false_eq_true, if_false]
  rw [run_bind_ok _ _ _ _ _ (run_pure h (tickSt σ)), run_bind_ok _ _ _ _ _ (run_locIsConst h.loc (tickSt σ))]
  simp only [hc, Bool.false_eq_true, if_false]
  rw [run_bind_ok _ _ _ _ _ hb]
  have hl : lineOf (tickSt σ) = lineOf σ := rfl
  simp only [hl]
  cases inputConvert h.ty (lineOf σ) with
  | none =>
    simp only
    have hd : rtDiag σ t.line t.col .nonPrimitive = rtDiag (afterLine (tickSt σ)) t.line t.col .nonPrimitive := by
      unfold rtDiag
      rw [afterLine_acts]
      rfl
    rw [hd]
    exact run_rtErr t .nonPrimitive _
  | some v =>
    simp only
    rw [run_bind]
    rcases (writeLoc t h.loc v).run.run (afterLine (tickSt σ)) with ⟨e | u, σ'⟩ <;> rfl

end RejectLemmas

end Pseudo
