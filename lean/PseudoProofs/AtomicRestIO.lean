import PseudoProofs.FuelMono
import PseudoProofs.EvalStep
/-!
# Two runs of the evaluator from states that differ in `out` and in the standard input

In two REPL sessions of which one has an extra entry the states before corresponding entries differ in the output chunks
and in what is left on the standard input (the loop reads its entries from the input the program reads from).
`Priv` = (`out`, `stdin`, `stdinEof`); `τ.wio p` is the state with core `τ` and these three components from `p`.

`Alt m1 m2 τ p1 p2` relates the run of `m1` from `τ.wio p1` with the run of `m2` from `τ.wio p2`:
* `reads`: the first run consumes standard input (a line, or the end-of-input mark);
* `same`: both end with the same result in states with the same core (`steps` and `depth` included), having appended the same
  output chunks, neither having touched the input.
This is `PseudoProofs/ReplLoopSim.lean` with equal `steps` / `depth` on both sides, and therefore without the `budget`
alternative: a budget stop happens on both sides or on neither.
-/
namespace Pseudo
namespace IOSim

/-- the components in which the two runs may differ -/
structure Priv where
  out : List Str
  stdin : Str
  eof : Bool

def _root_.Pseudo.St.wio (τ : St) (p : Priv) : St :=
  { τ with out := p.out, stdin := p.stdin, stdinEof := p.eof }

def privOf (σ : St) : Priv := ⟨σ.out, σ.stdin, σ.stdinEof⟩

theorem wio_privOf (σ : St) : σ.wio (privOf σ) = σ := rfl
theorem privOf_wio (τ : St) (p : Priv) : privOf (τ.wio p) = p := rfl

/-- how much standard input is left (the end-of-input mark counts as one) -/
def mu (p : Priv) : Nat := if p.eof then 0 else p.stdin.length + 1
def muSt (σ : St) : Nat := mu (privOf σ)

structure Rel (p1 p2 : Priv) : Prop where
  io : p1.eof = false ∨ (p1.stdin = p2.stdin ∧ p1.eof = p2.eof)

theorem Rel.refl (p : Priv) : Rel p p := ⟨.inr ⟨rfl, rfl⟩⟩

inductive Alt {α : Type} (mr mf : M α) (τ : St) (p1 p2 : Priv) : Prop
  | reads (hlt : muSt (mr.run.run (τ.wio p1)).2 < mu p1)
  | same (r : Except Stop α) (τ' : St) (a : List Str)
      (hr : mr.run.run (τ.wio p1) = (r, τ'.wio { p1 with out := a ++ p1.out }))
      (hf : mf.run.run (τ.wio p2) = (r, τ'.wio { p2 with out := a ++ p2.out }))

structure IOSimAt {α : Type} (mr mf : M α) (τ : St) (p1 p2 : Priv) : Prop where
  alt : Rel p1 p2 → Alt mr mf τ p1 p2

structure IOSim {α : Type} (m : M α) : Prop where
  run : ∀ τ p1 p2, IOSimAt m m τ p1 p2

section combinators
variable {α β : Type} {τ : St} {p1 p2 : Priv}

theorem Alt.mono {mr mf : M α} (h : Alt mr mf τ p1 p2) : muSt (mr.run.run (τ.wio p1)).2 ≤ mu p1 := by
  cases h with
  | reads hlt => exact Nat.le_of_lt hlt
  | same r τ' a hr hf => rw [hr]; exact Nat.le_refl _

/-- continuations that are simulated never un-read input on the first side -/
theorem monoK {kr kf : α → M β} (hk : ∀ a τ p1 p2, IOSimAt (kr a) (kf a) τ p1 p2) (a : α) (ρ : St) :
    muSt ((kr a).run.run ρ).2 ≤ muSt ρ :=
  ((hk a ρ (privOf ρ) (privOf ρ)).alt (Rel.refl _)).mono

theorem mono_bind {mr : M α} {kr kf : α → M β} (hk : ∀ a τ p1 p2, IOSimAt (kr a) (kf a) τ p1 p2) (ρ : St) :
    muSt ((mr >>= kr).run.run ρ).2 ≤ muSt (mr.run.run ρ).2 := by
  rcases h : mr.run.run ρ with ⟨r, ρ'⟩
  cases r with
  | error e => rw [run_bind_err _ _ _ _ _ h]; exact Nat.le_refl _
  | ok a => rw [run_bind_ok _ _ _ _ _ h]; exact monoK hk a ρ'

theorem mono_tryCatch {mr : M α} {hr hf : Stop → M α} (hh : ∀ e τ p1 p2, IOSimAt (hr e) (hf e) τ p1 p2) (ρ : St) :
    muSt ((tryCatch mr hr).run.run ρ).2 ≤ muSt (mr.run.run ρ).2 := by
  rcases h : mr.run.run ρ with ⟨r, ρ'⟩
  cases r with
  | ok a => rw [run_tryCatch_ok _ _ _ _ _ h]; exact Nat.le_refl _
  | error e => rw [run_tryCatch_err _ _ _ _ _ h]; exact monoK hh e ρ'

theorem IOSimAt.pure (a : α) (τ : St) (p1 p2 : Priv) : IOSimAt (pure a : M α) (pure a) τ p1 p2 :=
  ⟨fun _ => .same (.ok a) τ [] rfl rfl⟩

theorem IOSimAt.throw (e : Stop) (τ : St) (p1 p2 : Priv) : IOSimAt (throw e : M α) (throw e) τ p1 p2 :=
  ⟨fun _ => .same (.error e) τ [] rfl rfl⟩

theorem Rel.next {p1 p2 : Priv} (h : Rel p1 p2) {a : List Str} :
    Rel { p1 with out := a ++ p1.out } { p2 with out := a ++ p2.out } :=
  ⟨h.io⟩

theorem IOSimAt.bind {mr mf : M α} {kr kf : α → M β} (hm : IOSimAt mr mf τ p1 p2)
    (hk : ∀ a τ p1 p2, IOSimAt (kr a) (kf a) τ p1 p2) : IOSimAt (mr >>= kr) (mf >>= kf) τ p1 p2 := by
  refine ⟨fun hR => ?_⟩
  have hmono := mono_bind (mr := mr) hk (τ.wio p1)
  cases hm.alt hR with
  | reads hlt => exact .reads (Nat.lt_of_le_of_lt hmono hlt)
  | same r τ' a hr hf =>
    cases r with
    | error e => exact .same (.error e) τ' a (run_bind_err _ _ _ _ _ hr) (run_bind_err _ _ _ _ _ hf)
    | ok x =>
      cases (hk x τ' _ _).alt hR.next with
      | reads hlt => exact .reads (by rw [run_bind_ok _ _ _ _ _ hr]; exact hlt)
      | same r' τ'' b hr2 hf2 =>
        refine .same r' τ'' (b ++ a) ?_ ?_
        · rw [run_bind_ok _ _ _ _ _ hr, hr2, List.append_assoc]
        · rw [run_bind_ok _ _ _ _ _ hf, hf2, List.append_assoc]

theorem IOSimAt.tryCatch {mr mf : M α} {hr hf : Stop → M α} (hm : IOSimAt mr mf τ p1 p2)
    (hh : ∀ e τ p1 p2, IOSimAt (hr e) (hf e) τ p1 p2) :
    IOSimAt (tryCatch mr hr) (tryCatch mf hf) τ p1 p2 := by
  refine ⟨fun hR => ?_⟩
  have hmono := mono_tryCatch (mr := mr) hh (τ.wio p1)
  cases hm.alt hR with
  | reads hlt => exact .reads (Nat.lt_of_le_of_lt hmono hlt)
  | same r τ' a hr' hf' =>
    cases r with
    | ok x => exact .same (.ok x) τ' a (run_tryCatch_ok _ _ _ _ _ hr') (run_tryCatch_ok _ _ _ _ _ hf')
    | error e =>
      cases (hh e τ' _ _).alt hR.next with
      | reads hlt => exact .reads (by rw [run_tryCatch_err _ _ _ _ _ hr']; exact hlt)
      | same r' τ'' b hr2 hf2 =>
        refine .same r' τ'' (b ++ a) ?_ ?_
        · rw [run_tryCatch_err _ _ _ _ _ hr', hr2, List.append_assoc]
        · rw [run_tryCatch_err _ _ _ _ _ hf', hf2, List.append_assoc]

/-- after `get`: the two continuations, on the two states read -/
theorem IOSimAt.get_bind {fr ff : St → M α} (h : IOSimAt (fr (τ.wio p1)) (ff (τ.wio p2)) τ p1 p2) :
    IOSimAt ((MonadState.get : M St) >>= fr) ((MonadState.get : M St) >>= ff) τ p1 p2 := by
  refine ⟨fun hR => ?_⟩
  have e1 : ((MonadState.get : M St) >>= fr).run.run (τ.wio p1) = (fr (τ.wio p1)).run.run (τ.wio p1) :=
    run_bind_ok _ _ _ _ _ (run_get _)
  have e2 : ((MonadState.get : M St) >>= ff).run.run (τ.wio p2) = (ff (τ.wio p2)).run.run (τ.wio p2) :=
    run_bind_ok _ _ _ _ _ (run_get _)
  cases h.alt hR with
  | reads hlt => exact .reads (by rw [e1]; exact hlt)
  | same r τ' a hr hf => exact .same r τ' a (by rw [e1]; exact hr) (by rw [e2]; exact hf)

/-- a modification of the core -/
theorem IOSimAt.modc (f : St → St) (τ : St) (p1 p2 : Priv) (h : ∀ p, f (τ.wio p) = (f τ).wio p) :
    IOSimAt (modify f : M PUnit) (modify f) τ p1 p2 :=
  ⟨fun _ => .same (.ok ⟨⟩) (f τ) [] (by rw [run_modify, h]; rfl) (by rw [run_modify, h]; rfl)⟩

theorem IOSimAt.emitc (x : Str) (τ : St) (p1 p2 : Priv) : IOSimAt (emit x) (emit x) τ p1 p2 :=
  ⟨fun _ => .same (.ok ⟨⟩) τ [x] rfl rfl⟩

theorem IOSimAt.setc (s1 s2 : St) (τ τ' : St) (p1 p2 : Priv) (h1 : s1 = τ'.wio p1) (h2 : s2 = τ'.wio p2) :
    IOSimAt (set s1 : M PUnit) (set s2) τ p1 p2 :=
  ⟨fun _ => .same (.ok ⟨⟩) τ' [] (by rw [run_set, h1]; rfl) (by rw [run_set, h2]; rfl)⟩

theorem IOSimAt.withAct {mk : Nat → Act} {br bf : M α} (h : ∀ τ p1 p2, IOSimAt br bf τ p1 p2) :
    IOSimAt (withAct mk br) (withAct mk bf) τ p1 p2 := by
  refine ⟨fun hR => ?_⟩
  have e1 : pushSt mk (τ.wio p1) = (pushSt mk τ).wio p1 := rfl
  have e2 : pushSt mk (τ.wio p2) = (pushSt mk τ).wio p2 := rfl
  cases (h (pushSt mk τ) p1 p2).alt hR with
  | reads hlt => exact .reads (by rw [run_withAct, e1]; exact hlt)
  | same r τ' a hr hf =>
    refine .same r (popSt τ') a ?_ ?_
    · rw [run_withAct, e1, hr]; rfl
    · rw [run_withAct, e2, hf]; rfl

theorem IOSim.of_run {m : M α} (h : ∀ τ p1 p2, IOSimAt m m τ p1 p2) : IOSim m := ⟨h⟩

end combinators

/-! #### automation -/

syntax "iosim_lib" : tactic
macro_rules | `(tactic| iosim_lib) => `(tactic| fail "iosim_lib: no lemma")
syntax "iosim_ih" : tactic
macro_rules | `(tactic| iosim_ih) => `(tactic| fail "iosim_ih: no hypothesis")
syntax "iosim_step" : tactic

macro_rules | `(tactic| iosim_step) => `(tactic| first
  | cases ‹_ + 1 = Nat.succ _›
  | with_reducible exact IOSimAt.pure _ _ _ _
  | with_reducible exact IOSimAt.throw _ _ _ _
  | (with_reducible apply IOSim.run; with_reducible first | iosim_lib | iosim_ih)
  | (with_reducible apply IOSimAt.get_bind; dsimp only [St.wio])
  | with_reducible apply IOSimAt.bind
  | with_reducible apply IOSimAt.withAct
  | exact IOSimAt.modc _ _ _ _ (fun _ => rfl)
  | intro _
  | split
  | dsimp only)

macro "iosim_auto" : tactic => `(tactic| repeat' iosim_step)

macro "iosim_def " id:ident : tactic => `(tactic| (apply IOSim.of_run; intro τ p1 p2; unfold $id; iosim_auto))

/-! #### primitives -/

theorem IOSim.l_emit (x : Str) : IOSim (emit x) := ⟨fun τ p1 p2 => IOSimAt.emitc x τ p1 p2⟩
macro_rules | `(tactic| iosim_lib) => `(tactic| exact IOSim.l_emit _)
theorem IOSim.l_curAct : IOSim (curAct) := by iosim_def curAct
macro_rules | `(tactic| iosim_lib) => `(tactic| exact IOSim.l_curAct )
theorem IOSim.l_globalAct : IOSim (globalAct) := by iosim_def globalAct
macro_rules | `(tactic| iosim_lib) => `(tactic| exact IOSim.l_globalAct )
theorem IOSim.l_findAct (id : Nat) : IOSim (findAct id) := by iosim_def findAct
macro_rules | `(tactic| iosim_lib) => `(tactic| exact IOSim.l_findAct _)
theorem IOSim.l_mkRuntime (l c : Nat) (m : Msg) : IOSim (mkRuntime l c m) := by iosim_def mkRuntime
macro_rules | `(tactic| iosim_lib) => `(tactic| exact IOSim.l_mkRuntime _ _ _)
theorem IOSim.l_rtErr {α : Type} (t : Tok) (m : Msg) : IOSim ((rtErr t m : M α)) := by iosim_def rtErr
macro_rules | `(tactic| iosim_lib) => `(tactic| exact IOSim.l_rtErr _ _)
theorem IOSim.l_rtErr0 {α : Type} (m : Msg) : IOSim ((rtErr0 m : M α)) := by iosim_def rtErr0
macro_rules | `(tactic| iosim_lib) => `(tactic| exact IOSim.l_rtErr0 _)
theorem IOSim.l_pedErr {α : Type} (t : Tok) (m : Msg) : IOSim ((pedErr t m : M α)) := by iosim_def pedErr
macro_rules | `(tactic| iosim_lib) => `(tactic| exact IOSim.l_pedErr _ _)
theorem IOSim.l_lookupVar (n : Str) : IOSim (lookupVar n) := by iosim_def lookupVar
macro_rules | `(tactic| iosim_lib) => `(tactic| exact IOSim.l_lookupVar _)
theorem IOSim.l_lookupArr (n : Str) : IOSim (lookupArr n) := by iosim_def lookupArr
macro_rules | `(tactic| iosim_lib) => `(tactic| exact IOSim.l_lookupArr _)
theorem IOSim.l_scopeAct : IOSim (scopeAct) := by iosim_def scopeAct
macro_rules | `(tactic| iosim_lib) => `(tactic| exact IOSim.l_scopeAct )
theorem IOSim.l_typeScopeAct : IOSim (typeScopeAct) := by iosim_def typeScopeAct
macro_rules | `(tactic| iosim_lib) => `(tactic| exact IOSim.l_typeScopeAct )
theorem IOSim.l_lookupList {β : Type} (sel : Act → List (Str × β)) (n : Str) (g : Bool) : IOSim (lookupList sel n g) := by iosim_def lookupList
macro_rules | `(tactic| iosim_lib) => `(tactic| exact IOSim.l_lookupList _ _ _)
theorem IOSim.l_enumDefOf (n : Str) (g : Bool) : IOSim (enumDefOf n g) := by iosim_def enumDefOf
macro_rules | `(tactic| iosim_lib) => `(tactic| exact IOSim.l_enumDefOf _ _)
theorem IOSim.l_ptrDefOf (n : Str) (g : Bool) : IOSim (ptrDefOf n g) := by iosim_def ptrDefOf
macro_rules | `(tactic| iosim_lib) => `(tactic| exact IOSim.l_ptrDefOf _ _)
theorem IOSim.l_compDefOf (n : Str) (g : Bool) : IOSim (compDefOf n g) := by iosim_def compDefOf
macro_rules | `(tactic| iosim_lib) => `(tactic| exact IOSim.l_compDefOf _ _)
theorem IOSim.l_getType (t : Tok) (g : Bool) : IOSim (getType t g) := by iosim_def getType
macro_rules | `(tactic| iosim_lib) => `(tactic| exact IOSim.l_getType _ _)
theorem IOSim.l_getEnumElement (v : Str) (g : Bool) : IOSim (getEnumElement v g) := by iosim_def getEnumElement
macro_rules | `(tactic| iosim_lib) => `(tactic| exact IOSim.l_getEnumElement _ _)
theorem IOSim.l_isIdentifierType (t : Tok) (g : Bool) : IOSim (isIdentifierType t g) := by iosim_def isIdentifierType
macro_rules | `(tactic| iosim_lib) => `(tactic| exact IOSim.l_isIdentifierType _ _)
theorem IOSim.l_readLoc (l : Loc) : IOSim (readLoc l) := by iosim_def readLoc
macro_rules | `(tactic| iosim_lib) => `(tactic| exact IOSim.l_readLoc _)
theorem IOSim.l_locIsConst (l : Loc) : IOSim (locIsConst l) := by iosim_def locIsConst
macro_rules | `(tactic| iosim_lib) => `(tactic| exact IOSim.l_locIsConst _)
theorem IOSim.l_isLive (id : Nat) : IOSim (isLive id) := by iosim_def isLive
macro_rules | `(tactic| iosim_lib) => `(tactic| exact IOSim.l_isLive _)
theorem IOSim.l_liftMsg {α : Type} (t : Tok) (x : Except Msg α) : IOSim (liftMsg t x) := by iosim_def liftMsg
macro_rules | `(tactic| iosim_lib) => `(tactic| exact IOSim.l_liftMsg _ _)
theorem IOSim.l_liftMsg0 {α : Type} (x : Except Msg α) : IOSim (liftMsg0 x) := by iosim_def liftMsg0
macro_rules | `(tactic| iosim_lib) => `(tactic| exact IOSim.l_liftMsg0 _)
theorem IOSim.l_outputText (v : Val) : IOSim (outputText v) := by iosim_def outputText
macro_rules | `(tactic| iosim_lib) => `(tactic| exact IOSim.l_outputText _)
theorem IOSim.l_replEcho (v : Val) : IOSim (replEcho v) := by iosim_def replEcho
macro_rules | `(tactic| iosim_lib) => `(tactic| exact IOSim.l_replEcho _)
theorem IOSim.l_filePre (t : Tok) (op : FOp) : IOSim (filePre t op) := by iosim_def filePre
macro_rules | `(tactic| iosim_lib) => `(tactic| exact IOSim.l_filePre _ _)
theorem IOSim.l_codecDefs : IOSim (codecDefs) := by iosim_def codecDefs
macro_rules | `(tactic| iosim_lib) => `(tactic| exact IOSim.l_codecDefs )
theorem IOSim.l_writeText (t : Tok) (v : Val) : IOSim (writeText t v) := by iosim_def writeText
macro_rules | `(tactic| iosim_lib) => `(tactic| exact IOSim.l_writeText _ _)
theorem IOSim.l_modifyAct (id : Nat) (f : Act → Act) : IOSim (modifyAct id f) := by iosim_def modifyAct
macro_rules | `(tactic| iosim_lib) => `(tactic| exact IOSim.l_modifyAct _ _)
theorem IOSim.l_modifyCur (f : Act → Act) : IOSim (modifyCur f) := by iosim_def modifyCur
macro_rules | `(tactic| iosim_lib) => `(tactic| exact IOSim.l_modifyCur _)
theorem IOSim.l_addVar (s : Slot) : IOSim (addVar s) := by iosim_def addVar
macro_rules | `(tactic| iosim_lib) => `(tactic| exact IOSim.l_addVar _)
theorem IOSim.l_addArr (s : Slot) : IOSim (addArr s) := by iosim_def addArr
macro_rules | `(tactic| iosim_lib) => `(tactic| exact IOSim.l_addArr _)
theorem IOSim.l_writeLoc (t : Tok) (l : Loc) (v : Val) : IOSim (writeLoc t l v) := by iosim_def writeLoc
macro_rules | `(tactic| iosim_lib) => `(tactic| exact IOSim.l_writeLoc _ _ _)

theorem IOSim.l_tick (t : Tok) : IOSim (tick t) := by
  apply IOSim.of_run; intro τ p1 p2; unfold tick
  apply IOSimAt.get_bind
  dsimp only [St.wio]
  split
  · exact (IOSim.l_rtErr t .budget).run τ p1 p2
  · exact IOSimAt.setc _ _ τ { τ with steps := τ.steps + 1 } p1 p2 rfl rfl
macro_rules | `(tactic| iosim_lib) => `(tactic| exact IOSim.l_tick _)

theorem getLine_mu (σ : St) (h : σ.stdinEof = false) : muSt (getLine.run.run σ).2 < muSt σ := by
  unfold getLine
  rw [run_bind_ok _ _ _ _ _ (run_get σ)]
  simp only [h, Bool.false_eq_true, if_false]
  have hσ : muSt σ = σ.stdin.length + 1 := by unfold muSt mu privOf; simp [h]
  split
  · rename_i heq
    rw [run_bind_ok _ _ _ _ _ (run_set _ _)]
    rw [hσ]
    show muSt { σ with stdin := [], stdinEof := true } < _
    unfold muSt mu privOf
    simp
  · rename_i c rest' heq
    rw [run_bind_ok _ _ _ _ _ (run_set _ _)]
    rw [hσ]
    show muSt { σ with stdin := rest', stdinEof := false } < _
    have hl : (List.drop (List.takeWhile (fun x => x != '\n') σ.stdin).length σ.stdin).length = rest'.length + 1 := by
      rw [heq]; rfl
    rw [List.length_drop] at hl
    unfold muSt mu privOf
    simp only [Bool.false_eq_true, if_false]
    omega

theorem IOSim.l_getLine : IOSim getLine := by
  apply IOSim.of_run; intro τ p1 p2
  refine ⟨fun hR => ?_⟩
  rcases hR.io with h | ⟨hi, he⟩
  · exact .reads (getLine_mu (τ.wio p1) h)
  · cases h1 : p1.eof with
    | false => exact .reads (getLine_mu (τ.wio p1) h1)
    | true =>
      have h2 : p2.eof = true := by rw [← he]; exact h1
      have e1 : getLine.run.run (τ.wio p1) = (.ok ([], false), τ.wio p1) := by
        unfold getLine
        rw [run_bind_ok _ _ _ _ _ (run_get _)]
        have : (τ.wio p1).stdinEof = true := h1
        simp only [this, if_true]
        rfl
      have e2 : getLine.run.run (τ.wio p2) = (.ok ([], false), τ.wio p2) := by
        unfold getLine
        rw [run_bind_ok _ _ _ _ _ (run_get _)]
        have : (τ.wio p2).stdinEof = true := h2
        simp only [this, if_true]
        rfl
      exact .same (.ok ([], false)) τ [] e1 e2
macro_rules | `(tactic| iosim_lib) => `(tactic| exact IOSim.l_getLine)

theorem IOSim.l_doFile (t : Tok) (op : FOp) : IOSim (doFile t op) := by
  apply IOSim.of_run; intro τ p1 p2; unfold doFile
  apply IOSimAt.get_bind
  dsimp only [St.wio]
  split
  · rename_i f r _
    exact IOSimAt.bind (IOSimAt.setc _ _ τ { τ with fs := f.fs, handles := f.handles } p1 p2 rfl rfl) fun _ τ p1 p2 => IOSimAt.pure _ τ p1 p2
  · exact (IOSim.l_rtErr t _).run τ p1 p2
macro_rules | `(tactic| iosim_lib) => `(tactic| exact IOSim.l_doFile _ _)

theorem IOSim.l_doFile0 (op : FOp) : IOSim (doFile0 op) := by
  apply IOSim.of_run; intro τ p1 p2; unfold doFile0
  apply IOSimAt.get_bind
  dsimp only [St.wio]
  split
  · rename_i f r _
    exact IOSimAt.bind (IOSimAt.setc _ _ τ { τ with fs := f.fs, handles := f.handles } p1 p2 rfl rfl) fun _ τ p1 p2 => IOSimAt.pure _ τ p1 p2
  · exact (IOSim.l_rtErr0 _).run τ p1 p2
macro_rules | `(tactic| iosim_lib) => `(tactic| exact IOSim.l_doFile0 _)

theorem IOSim.l_runBuiltin (id : Str) (args : List Val) : IOSim (runBuiltin id args) := by iosim_def runBuiltin
macro_rules | `(tactic| iosim_lib) => `(tactic| exact IOSim.l_runBuiltin _ _)

theorem IOSimAt.catchNotDefined {α : Type} {mr mf : M α} {hr hf : Stop → M α} {τ : St} {p1 p2 : Priv}
    (hm : IOSimAt mr mf τ p1 p2) (hh : ∀ e τ p1 p2, IOSimAt (hr e) (hf e) τ p1 p2) :
    IOSimAt (Pseudo.catchNotDefined mr hr) (Pseudo.catchNotDefined mf hf) τ p1 p2 := by
  unfold Pseudo.catchNotDefined
  apply IOSimAt.tryCatch hm
  intro e τ p1 p2
  iosim_auto
  exact hh _ _ _ _

end IOSim
end Pseudo
