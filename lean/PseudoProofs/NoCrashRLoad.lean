import PseudoProofs.NoCrashRPure
namespace Pseudo.NR
open Pseudo
variable {σ : St}
open Pseudo.NC (getPath_nil)

/-!
# C01 with enum / pointer / record types: GETRECORD (`Codec.load`) keeps good values good

`Codec.load defs cur s` rebuilds `cur` node by node: every node of the result is the result of loading (some text) into the node
of `cur` at the same position (`Loaded`).  So a path that is readable in the result is readable in `cur` and leads to a node the
result's node was loaded from (`loaded_path`), and loading into one `Local` node gives a `Local` node (`loaded_local`).  No induction
on the value is needed, and fields that no path reaches (shadowed names) play no role.
-/

/-- element-wise related lists -/
inductive All2 {α β : Type} (R : α → β → Prop) : List α → List β → Prop
  | nil : All2 R [] []
  | cons {a : α} {b : β} {l₁ : List α} {l₂ : List β} : R a b → All2 R l₁ l₂ → All2 R (a :: l₁) (b :: l₂)

/-- `y` is what loading some text into `x` gave -/
def Loaded (defs : Codec.Defs) (x y : Val) : Prop := ∃ s r, Codec.load defs x s = some (y, r)

/-- the same for a record member -/
def FLoaded (defs : Codec.Defs) (p p' : Str × Val) : Prop := p'.1 = p.1 ∧ Loaded defs p.2 p'.2

/-! ### one level of `load` -/

/-- loading keeps the kind (whatever the current value is) -/
theorem load_kind (defs : Codec.Defs) (cur nv : Val) (s r : Str) (h : Codec.load defs cur s = some (nv, r)) :
    kind nv = kind cur := by
  cases cur
  all_goals
    simp only [Codec.load, bind, Option.bind, pure] at h
    repeat' (first | split at h | (dsimp only at h; split at h))
  all_goals first | (cases h; done) | (cases h; rfl)

theorem Loaded.kind {defs : Codec.Defs} {x y : Val} (h : Loaded defs x y) : kind y = kind x := by
  obtain ⟨s, r, h⟩ := h
  exact load_kind defs x y s r h

theorem load_enum_inv {defs : Codec.Defs} {ty : Str} {i : Nat} {nv : Val} {s r : Str}
    (h : Codec.load defs (.enum ty i) s = some (nv, r)) :
    ∃ w e j, defs.enumDef w = some e ∧ e.1 = ty ∧ j < e.2.length ∧ nv = .enum ty j := by
  simp only [Codec.load, bind, Option.bind, pure] at h
  repeat' (first | split at h | (dsimp only at h; split at h))
  all_goals first
    | (cases h; done)
    | skip
  all_goals
    cases h
    rename_i w _ _ _ e hfind hne _ _ q _ hlt
    exact ⟨w.1, e, q.1, hfind, by simpa using hne, by omega, rfl⟩

theorem load_comp_inv {defs : Codec.Defs} {ty : Str} {fs : List (Str × Val)} {nv : Val} {s r : Str}
    (h : Codec.load defs (.comp ty fs) s = some (nv, r)) :
    ∃ s1 vs1 r1 s2 vs2 r2, Codec.loadFields defs fs false s1 = some (vs1, r1) ∧
      Codec.loadFields defs fs true s2 = some (vs2, r2) ∧
      nv = .comp ty (Codec.mergeFields (Codec.mergeFields fs false vs1) true vs2) := by
  simp only [Codec.load, bind, Option.bind, pure] at h
  repeat' (first | split at h | (dsimp only at h; split at h))
  all_goals first
    | (cases h; done)
    | skip
  all_goals
    cases h
    rename_i q1 hq1 _ _ _ q2 hq2
    exact ⟨_, q1.1, q1.2, _, q2.1, q2.2, hq1, hq2, rfl⟩

theorem load_arr_inv {defs : Codec.Defs} {e : Ty} {d : List (Int × Int)} {cells : List Val} {nv : Val} {s r : Str}
    (h : Codec.load defs (.arr e d cells) s = some (nv, r)) :
    ∃ s1 cs r1, Codec.loadList defs cells s1 = some (cs, r1) ∧ nv = .arr e d cs := by
  simp only [Codec.load, bind, Option.bind, pure] at h
  repeat' (first | split at h | (dsimp only at h; split at h))
  all_goals first
    | (cases h; done)
    | skip
  all_goals
    cases h
    rename_i q hq
    exact ⟨_, q.1, q.2, hq, rfl⟩

/-! ### the lists -/

theorem loadList_forall (defs : Codec.Defs) : ∀ (cells cs : List Val) (s r : Str),
    Codec.loadList defs cells s = some (cs, r) → All2 (Loaded defs) cells cs := by
  intro cells
  induction cells with
  | nil =>
    intro cs s r h
    simp only [Codec.loadList] at h
    cases h
    exact .nil
  | cons v rest ih =>
    intro cs s r h
    simp only [Codec.loadList, bind, Option.bind, pure] at h
    split at h
    · cases h
    · rename_i p hp
      dsimp only at h
      split at h
      · cases h
      · rename_i q hq
        cases h
        exact .cons ⟨_, _, hp⟩ (ih _ _ _ hq)

theorem loadFields_forall (defs : Codec.Defs) : ∀ (fs : List (Str × Val)) (s1 : Str) (vs1 : List Val) (r1 : Str)
    (s2 : Str) (vs2 : List Val) (r2 : Str),
    Codec.loadFields defs fs false s1 = some (vs1, r1) → Codec.loadFields defs fs true s2 = some (vs2, r2) →
    All2 (FLoaded defs) fs (Codec.mergeFields (Codec.mergeFields fs false vs1) true vs2) := by
  intro fs
  induction fs with
  | nil =>
    intros
    exact .nil
  | cons p rest ih =>
    obtain ⟨n, v⟩ := p
    intro s1 vs1 r1 s2 vs2 r2 h1 h2
    cases hv : v.isArr with
    | false =>
      simp only [Codec.loadFields, hv, bind, Option.bind, pure] at h1 h2
      simp only [beq_self_eq_true, if_true, Bool.false_eq_true, if_false, show (false == true) = false from rfl] at h1 h2
      split at h1
      · cases h1
      · rename_i p hp
        dsimp only at h1
        split at h1
        · cases h1
        · rename_i q hq
          cases h1
          have hv' : p.1.isArr = false := (isArr_of_kind (load_kind defs v p.1 s1 p.2 hp)).trans hv
          simp only [Codec.mergeFields, hv, hv', beq_self_eq_true, if_true, Bool.false_eq_true, if_false,
            show (false == true) = false from rfl]
          exact .cons ⟨rfl, _, _, hp⟩ (ih _ _ _ _ _ _ hq h2)
    | true =>
      simp only [Codec.loadFields, hv, bind, Option.bind, pure] at h1 h2
      simp only [beq_self_eq_true, if_true, Bool.false_eq_true, if_false, show (true == false) = false from rfl] at h1 h2
      split at h2
      · cases h2
      · rename_i p hp
        dsimp only at h2
        split at h2
        · cases h2
        · rename_i q hq
          cases h2
          simp only [Codec.mergeFields, hv, beq_self_eq_true, if_true, Bool.false_eq_true, if_false,
            show (true == false) = false from rfl]
          exact .cons ⟨rfl, _, _, hp⟩ (ih _ _ _ _ _ _ h1 hq)

/-! ### element-wise loaded lists -/

theorem floaded_sig {defs : Codec.Defs} {fs fs' : List (Str × Val)} (h : All2 (FLoaded defs) fs fs') :
    fs'.map sigOf = fs.map sigOf := by
  induction h with
  | nil => rfl
  | cons hab _ ih =>
    simp only [List.map_cons, ih, sigOf, hab.1, hab.2.kind]

theorem floaded_find {defs : Codec.Defs} {fs fs' : List (Str × Val)} (h : All2 (FLoaded defs) fs fs') (m : Str) (k : Bool)
    {y : Val} (hy : findField fs' m k = some y) : ∃ x, findField fs m k = some x ∧ Loaded defs x y := by
  induction h with
  | nil => cases hy
  | @cons a b l₁ l₂ hab _ ih =>
    rw [findField_cons] at hy ⊢
    rw [hab.1, isArr_of_kind hab.2.kind] at hy
    split
    · rename_i hc
      rw [if_pos hc] at hy
      cases hy
      exact ⟨a.2, rfl, hab.2⟩
    · rename_i hc
      rw [if_neg hc] at hy
      exact ih hy

theorem loaded_length {defs : Codec.Defs} {cells cs : List Val} (h : All2 (Loaded defs) cells cs) :
    cs.length = cells.length := by
  induction h with
  | nil => rfl
  | cons _ _ ih => simp only [List.length_cons, ih]

theorem loaded_mem {defs : Codec.Defs} {cells cs : List Val} (h : All2 (Loaded defs) cells cs) {y : Val} (hy : y ∈ cs) :
    ∃ x ∈ cells, Loaded defs x y := by
  induction h with
  | nil => cases hy
  | @cons a b l₁ l₂ hab _ ih =>
    rcases List.mem_cons.1 hy with rfl | hy
    · exact ⟨a, List.mem_cons_self .., hab⟩
    · obtain ⟨x, hx, hxy⟩ := ih hy
      exact ⟨x, List.mem_cons_of_mem _ hx, hxy⟩

theorem loaded_getElem {defs : Codec.Defs} {cells cs : List Val} (h : All2 (Loaded defs) cells cs) (i : Nat) {y : Val}
    (hy : cs[i]? = some y) : ∃ x, cells[i]? = some x ∧ Loaded defs x y := by
  induction h generalizing i with
  | nil => simp at hy
  | @cons a b l₁ l₂ hab _ ih =>
    cases i with
    | zero =>
      simp only [List.getElem?_cons_zero, Option.some.injEq] at hy ⊢
      subst hy
      exact ⟨a, rfl, hab⟩
    | succ j =>
      simp only [List.getElem?_cons_succ] at hy ⊢
      exact ih j hy

/-! ### one node, one step -/

/-- the members of a loaded record are the loaded members, in order -/
theorem loaded_comp {defs : Codec.Defs} {ty : Str} {fs : List (Str × Val)} {nv : Val} (h : Loaded defs (.comp ty fs) nv) :
    ∃ fs', nv = .comp ty fs' ∧ All2 (FLoaded defs) fs fs' := by
  obtain ⟨s, r, h⟩ := h
  obtain ⟨s1, vs1, r1, s2, vs2, r2, h1, h2, rfl⟩ := load_comp_inv h
  exact ⟨_, rfl, loadFields_forall defs fs s1 vs1 r1 s2 vs2 r2 h1 h2⟩

/-- the cells of a loaded array are the loaded cells, in order -/
theorem loaded_arr {defs : Codec.Defs} {e : Ty} {d : List (Int × Int)} {cells : List Val} {nv : Val}
    (h : Loaded defs (.arr e d cells) nv) : ∃ cs, nv = .arr e d cs ∧ All2 (Loaded defs) cells cs := by
  obtain ⟨s, r, h⟩ := h
  obtain ⟨s1, cs, r1, h1, rfl⟩ := load_arr_inv h
  exact ⟨cs, rfl, loadList_forall defs cells cs s1 r1 h1⟩

/-- loading into a fine node gives a fine node -/
theorem loaded_local (defs : Codec.Defs) (hE : ∀ n, defs.enumDef n = (genums σ).find? (·.1 == n)) {cur nv : Val}
    (h : Loaded defs cur nv) (hl : Local σ cur) : Local σ nv := by
  cases cur with
  | enum ty i =>
    obtain ⟨s, r, h⟩ := h
    obtain ⟨w, e, j, hfind, hty, hlt, rfl⟩ := load_enum_inv h
    refine ⟨e.2, ?_, hlt⟩
    rw [hE] at hfind
    have hk := find_key hfind
    unfold enumLk
    rw [← hty, hk, hfind]; rfl
  | comp ty fs =>
    obtain ⟨fs', rfl, hall⟩ := loaded_comp h
    obtain ⟨body, hb, hs, hd⟩ := hl
    exact ⟨body, hb, (floaded_sig hall).trans hs, hd⟩
  | arr e d cells =>
    obtain ⟨cs, rfl, hall⟩ := loaded_arr h
    refine ⟨(loaded_length hall).trans hl.1, ?_⟩
    intro c hc
    obtain ⟨x, hx, hxc⟩ := loaded_mem hall hc
    exact hxc.kind.trans (hl.2 x hx)
  | ptr ty t =>
    obtain ⟨s, r, h⟩ := h
    simp [Codec.load] at h
  | none =>
    obtain ⟨s, r, h⟩ := h
    simp [Codec.load] at h
  | _ =>
    have hk := h.kind
    cases nv <;> first | trivial | (simp [kind, Val.ty] at hk)

/-- what a step in the loaded value leads to was loaded into what the step leads to in the current value -/
theorem loaded_step {defs : Codec.Defs} {cur nv y : Val} {st : Step} (h : Loaded defs cur nv) (hy : stepVal nv st = some y) :
    ∃ x, stepVal cur st = some x ∧ Loaded defs x y := by
  cases cur with
  | comp ty fs =>
    obtain ⟨fs', rfl, hall⟩ := loaded_comp h
    cases st with
    | idx i => simp [stepVal] at hy
    | field m =>
      simp only [stepVal] at hy ⊢
      rw [memberKind_sig (floaded_sig hall) m] at hy
      cases hm : memberKind fs m with
      | none => rw [hm] at hy; cases hy
      | some k =>
        rw [hm] at hy
        exact floaded_find hall m k hy
  | arr e d cells =>
    obtain ⟨cs, rfl, hall⟩ := loaded_arr h
    cases st with
    | field m => simp [stepVal] at hy
    | idx i =>
      simp only [stepVal] at hy ⊢
      exact loaded_getElem hall i hy
  | _ =>
    have hk := h.kind
    cases nv <;> first | (simp [stepVal] at hy; done) | (simp [kind, Val.ty] at hk)

/-- **a readable path of the loaded value is a readable path of the current value**, and leads to the node that was loaded into -/
theorem loaded_path {defs : Codec.Defs} : ∀ (p : List Step) {cur nv w' : Val}, Loaded defs cur nv → getPath nv p = some w' →
    ∃ w, getPath cur p = some w ∧ Loaded defs w w'
  | [], cur, nv, w', h, hp => by
    rw [getPath_nil] at hp; cases hp
    exact ⟨cur, getPath_nil cur, h⟩
  | st :: q, cur, nv, w', h, hp => by
    obtain ⟨y, hy, hq⟩ := getPath_cons_some.1 hp
    obtain ⟨x, hx, hxy⟩ := loaded_step h hy
    obtain ⟨w, hw, hww⟩ := loaded_path q hxy hq
    exact ⟨w, getPath_cons_some.2 ⟨x, hx, hw⟩, hww⟩

/-! ### the result -/

/-- GETRECORD: loading into a good value gives a good value of the same kind -/
theorem load_good (defs : Codec.Defs)
    (hE : ∀ n, defs.enumDef n = (genums σ).find? (·.1 == n))
    (cur nv : Val) (s r : Str) (hc : Good σ cur) (h : Codec.load defs cur s = some (nv, r)) :
    kind nv = kind cur ∧ Good σ nv := by
  refine ⟨load_kind defs cur nv s r h, ?_⟩
  intro p w' hp
  obtain ⟨w, hw, hww⟩ := loaded_path p ⟨s, r, h⟩ hp
  exact loaded_local defs hE hww (hc p w hw)

/-- the loaded value has the readable paths of the current one, with the same kinds (also a consequence of `paths_agree`) -/
theorem load_paths (defs : Codec.Defs) (cur nv : Val) (s r : Str) (h : Codec.load defs cur s = some (nv, r))
    (p : List Step) (w' : Val) (hp : getPath nv p = some w') : ∃ w, getPath cur p = some w ∧ kind w' = kind w := by
  obtain ⟨w, hw, hww⟩ := loaded_path p ⟨s, r, h⟩ hp
  exact ⟨w, hw, hww.kind⟩

#print axioms load_kind
#print axioms load_good
#print axioms load_paths

end Pseudo.NR
