import PseudoProofs.TablesBase
namespace Pseudo

/-- E1: the keyword chain of `Lexer::makeWord` is the model's keyword table -/
theorem keywords_agree : Generated.keywordsAvailable = true → Generated.keywords = keywordTable := by decide


end Pseudo
