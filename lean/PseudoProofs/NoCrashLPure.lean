import PseudoProofs.NoCrashLPath
import PseudoProofs.NoCrashRPure
/-!
# C01 with TYPE statements anywhere: value-level lemmas (`NArr`, `kind`, `Good σ k`) — the analogue of `NoCrashRPure.lean`

The state-independent lemmas (`narr_implicitCast`, `enumShift_lt`, `kind_int`, …) are those of `Pseudo.NR`.
-/
namespace Pseudo.NL
open Pseudo
open Pseudo.NC (simple)
open Pseudo.NR (Kind kind NArr narr_implicitCast enumShift_lt)

variable {σ : St} {k : Nat}

/-- a primitive scalar (or NONE) is a non-array value that is fine in every state and every scope -/
theorem ok_of_simple {v : Val} (h : NC.simple v = true) : NArr v = true ∧ Good σ k v := by
  cases v <;> first | exact ⟨rfl, good_of_scalar trivial trivial⟩ | (simp [simple] at h)

theorem good_implicitCast (ty : Ty) {v : Val} (h : Good σ k v) : Good σ k (implicitCast ty v) := by
  unfold implicitCast
  split <;> first | exact good_of_scalar trivial trivial | exact h

/-- arithmetic: the result is a primitive value, or an enum value whose index is below the size that `sz` reported -/
theorem ok_evalArith (sz : Str → Option Nat)
    (hsz : ∀ ty n, sz ty = some n → ∃ vals, enumLk σ k ty = some vals ∧ vals.length = n)
    (op : ArOp) (l r v : Val) (h : evalArith sz op l r = .ok v) : NArr v = true ∧ Good σ k v := by
  unfold evalArith at h
  dsimp only at h
  split at h
  · rename_i ty idx kk heq1 heq2
    split at h
    · cases hs : sz ty with
      | none => rw [hs] at h; cases h
      | some n =>
        rw [hs] at h
        dsimp only at h
        split at h
        · cases h
        · rename_i hn0
          cases h
          obtain ⟨vals, hl, hlen⟩ := hsz ty n hs
          refine ⟨rfl, good_of_scalar trivial ⟨vals, hl, ?_⟩⟩
          rw [hlen]
          exact enumShift_lt n _ (by simpa using hn0)
    · cases h
  · split at h
    all_goals first
      | (split at h
         · cases h
         · cases h
           first
             | (unfold intArith; split <;> exact ⟨rfl, good_of_scalar trivial trivial⟩)
             | (unfold realArith; split <;> exact ⟨rfl, good_of_scalar trivial trivial⟩))
      | cases h

/-- the default value of a defined non-record type; enum types are non-empty -/
theorem ok_defaultPrim {ty : Ty} (h : TyDef σ k ty)
    (hne : ∀ n vals, ty = .enum n → enumLk σ k n = some vals → vals ≠ [])
    (hc : ∀ n, ty ≠ .comp n) : CellOK σ k ty (defaultPrim ty) := by
  cases ty with
  | enum n =>
    obtain ⟨vals, h1⟩ := h
    exact ⟨rfl, good_of_scalar trivial ⟨vals, h1, List.length_pos_iff.2 (hne n vals rfl h1)⟩⟩
  | ptr n =>
    obtain ⟨tg, h1⟩ := h
    exact ⟨rfl, good_of_scalar trivial ⟨tg, h1, fun l hl => by cases hl⟩⟩
  | comp n => exact absurd rfl (hc n)
  | _ => exact ⟨rfl, good_of_scalar trivial trivial⟩

theorem good_none : Good σ k Val.none := good_of_scalar trivial trivial

#print axioms ok_of_simple
#print axioms good_implicitCast
#print axioms ok_evalArith
#print axioms ok_defaultPrim
#print axioms good_none

end Pseudo.NL
