import PseudoProofs.EvalInv
import PseudoModel.Top
/-!
# The REPL loop itself: `getLine`, `collectLines`, one turn of `replLoop`, whole sessions

* `run_getLine_line`: reading one complete line from the standard input;
* `collectLines_run`: the continuation lines of a multi-line entry, up to the empty line;
* `Entry` (head line + continuation lines), `Entry.text` (what is typed), `Entry.src` (what is lexed / parsed / run),
  `Entry.WF` (the head line is not empty, not `?`, not `EXIT`, not `RUNFILE…`, one line; continuation lines only after a
  block keyword, none of them empty);
* `replLoop_entry`: one turn of the loop on an input that starts with a well-formed entry;
* `session` / `InputOK` / `replLoop_session`: any number of turns;
* `replLoop_exit`, `replLoop_eof`, `replLoop_eof_partial_line`, `replLoop_blank`, `replLoop_help`: the other turns.
-/
namespace Pseudo
namespace ReplLoop

/-! ### reading lines -/

theorem takeWhile_line (line rest : Str) (h : '\n' ∉ line) :
    (line ++ '\n' :: rest).takeWhile (· != '\n') = line := by
  induction line with
  | nil => simp
  | cons c cs ih =>
    have hc : c ≠ '\n' := fun e => h (by rw [e]; exact List.mem_cons_self)
    have hcs : '\n' ∉ cs := fun e => h (List.mem_cons_of_mem _ e)
    simp [hc, ih hcs]

theorem takeWhile_noNl (line : Str) (h : '\n' ∉ line) : line.takeWhile (· != '\n') = line := by
  induction line with
  | nil => rfl
  | cons c cs ih =>
    have hc : c ≠ '\n' := fun e => h (by rw [e]; exact List.mem_cons_self)
    have hcs : '\n' ∉ cs := fun e => h (List.mem_cons_of_mem _ e)
    rw [List.takeWhile_cons]
    simp [hc, ih hcs]

/-- a complete line (terminated by a line break) is read: the line is returned, the rest stays -/
theorem run_getLine_line (s : St) (line rest : Str) (heof : s.stdinEof = false) (hin : s.stdin = line ++ '\n' :: rest)
    (hl : '\n' ∉ line) : getLine.run.run s = (.ok (line, true), { s with stdin := rest }) := by
  unfold getLine
  rw [run_bind_ok _ _ _ _ _ (run_get s)]
  simp only [heof, Bool.false_eq_true, if_false]
  rw [hin, takeWhile_line line rest hl]
  have : (line ++ '\n' :: rest).drop line.length = '\n' :: rest := by simp
  rw [this]
  rfl

/-- the input is at its end: nothing is read -/
theorem run_getLine_eof (s : St) (heof : s.stdinEof = true) : getLine.run.run s = (.ok ([], false), s) := by
  unfold getLine
  rw [run_bind_ok _ _ _ _ _ (run_get s)]
  simp only [heof, if_true]
  rfl

/-- the last line has no line break: it is returned with the flag `false`, and the end of input is recorded -/
theorem run_getLine_last (s : St) (line : Str) (heof : s.stdinEof = false) (hin : s.stdin = line) (hl : '\n' ∉ line) :
    getLine.run.run s = (.ok (line, false), { s with stdin := [], stdinEof := true }) := by
  unfold getLine
  rw [run_bind_ok _ _ _ _ _ (run_get s)]
  simp only [heof, Bool.false_eq_true, if_false]
  rw [hin, takeWhile_noNl line hl]
  have : line.drop line.length = [] := by simp
  rw [this]
  rfl

/-! ### entries -/

/-- a REPL entry as typed: the first line and — for a multi-line construct — the continuation lines (the closing empty
    line is not part of `more`) -/
structure Entry where
  head : Str
  more : List Str := []

/-- the characters the entry takes on the standard input -/
def Entry.text (e : Entry) : Str :=
  e.head ++ '\n' :: (if multilineStart e.head then (e.more.map (· ++ ['\n'])).flatten ++ ['\n'] else [])

/-- the text accumulated by `collectLines` from `code` over the lines `ls` and the closing empty line -/
def joinCont (code : Str) : List Str → Str
  | [] => code ++ ['\n'] ++ []
  | l :: ls => joinCont (code ++ ['\n'] ++ l) ls

/-- the source text handed to the lexer -/
def Entry.src (e : Entry) : Str := if multilineStart e.head then joinCont e.head e.more else e.head

/-- the continuation prompts printed while the entry is read (newest first) -/
def Entry.dots (e : Entry) : List Str :=
  if multilineStart e.head then List.replicate (e.more.length + 1) ". ".toList else []

/-- well-formed ordinary entry -/
structure Entry.WF (e : Entry) : Prop where
  nonempty : e.head ≠ []
  oneLine : '\n' ∉ e.head
  notHelp : e.head ≠ ['?']
  notExit : e.head ≠ "EXIT".toList
  notRunfile : startsWith e.head "RUNFILE".toList = false
  single : multilineStart e.head = false → e.more = []
  moreLines : ∀ l ∈ e.more, l ≠ [] ∧ '\n' ∉ l

instance (e : Entry) : Decidable e.WF :=
  if h : e.head ≠ [] ∧ '\n' ∉ e.head ∧ e.head ≠ ['?'] ∧ e.head ≠ "EXIT".toList ∧ startsWith e.head "RUNFILE".toList = false ∧
      (multilineStart e.head = false → e.more = []) ∧ (∀ l ∈ e.more, l ≠ [] ∧ '\n' ∉ l)
  then isTrue ⟨h.1, h.2.1, h.2.2.1, h.2.2.2.1, h.2.2.2.2.1, h.2.2.2.2.2.1, h.2.2.2.2.2.2⟩
  else isFalse fun w => h ⟨w.nonempty, w.oneLine, w.notHelp, w.notExit, w.notRunfile, w.single, w.moreLines⟩

/-- the continuation lines are collected up to the empty line: the prompts `. ` are printed (one per line read,
    including the empty one), the input is consumed, nothing else changes -/
theorem collectLines_run : ∀ (ls : List Str) (n : Nat) (code : Str) (st : St) (rest : Str),
    ls.length + 1 ≤ n → st.stdinEof = false → (∀ l ∈ ls, l ≠ [] ∧ '\n' ∉ l) →
    st.stdin = (ls.map (· ++ ['\n'])).flatten ++ '\n' :: rest →
    collectLines n code st =
      (some (joinCont code ls), { st with out := List.replicate (ls.length + 1) ". ".toList ++ st.out, stdin := rest })
  | [], n + 1, code, st, rest, _, heof, _, hin => by
    unfold collectLines
    dsimp only
    rw [run_getLine_line { st with out := ". ".toList :: st.out } [] rest heof (by simpa using hin) (by simp)]
    simp [joinCont, List.replicate]
  | l :: ls, n + 1, code, st, rest, hn, heof, hls, hin => by
    unfold collectLines
    dsimp only
    have hl := hls l List.mem_cons_self
    have hin' : st.stdin = l ++ '\n' :: ((ls.map (· ++ ['\n'])).flatten ++ '\n' :: rest) := by
      rw [hin]; simp
    rw [run_getLine_line { st with out := ". ".toList :: st.out } l _ heof hin' hl.2]
    have hne : l.isEmpty = false := by
      cases l with
      | nil => exact absurd rfl hl.1
      | cons _ _ => rfl
    simp only [Bool.not_true, Bool.false_eq_true, if_false, hne]
    rw [collectLines_run ls n (code ++ ['\n'] ++ l)
      { st with out := ". ".toList :: st.out, stdin := (ls.map (· ++ ['\n'])).flatten ++ '\n' :: rest } rest
      (by simp at hn; omega) heof (fun x hx => hls x (List.mem_cons_of_mem _ hx)) rfl]
    simp [joinCont, List.replicate_succ', List.append_assoc]

/-! ### one turn of the loop -/

theorem length_le_flatten (ls : List Str) : ls.length ≤ ((ls.map (· ++ ['\n'])).flatten).length := by
  induction ls with
  | nil => simp
  | cons l ls ih => simp only [List.map_cons, List.flatten_cons, List.length_append, List.length_cons, List.length_nil]; omega

/-- the state in which the entry `e` is lexed, parsed and run: the prompt `> ` (after the first turn preceded by the
    record separator) and the continuation prompts are printed, the per-entry counters `steps` and `depth` are reset,
    the text of the entry is consumed from the standard input -/
def entrySt (first : Bool) (e : Entry) (st : St) (rest : Str) : St :=
  { st with out := e.dots ++ "> ".toList :: (if first then st.out else marker :: st.out),
            steps := 0, depth := 0, stdin := rest }

/-- what the loop records of an entry's result -/
def record (r : ReplSt) : Outcome × St → ReplSt
  | (.ok, s) => { r with st := s }
  | (.diag d, s) => if isBudget d then { r with st := s, inconclusive := true } else { r with st := s, diags := d :: r.diags }
  | (.crash p, s) => { r with st := s, crash := some p }
  | (.fuel, s) => { r with st := s, inconclusive := true }

/-- one turn on the entry `e`; `rest` is the standard input after the entry -/
def step (cfg : Cfg) (first : Bool) (e : Entry) (r : ReplSt) (rest : Str) : ReplSt :=
  record r (runSource cfg e.src (entrySt first e r.st rest))

theorem record_st (r : ReplSt) (x : Outcome × St) : (record r x).st = x.2 := by
  rcases x with ⟨o, s⟩
  cases o <;> simp only [record] <;> try rfl
  split <;> rfl

theorem record_crash (r : ReplSt) (x : Outcome × St) (hr : r.crash = none) :
    (record r x).crash = match x.1 with | .crash p => some p | _ => none := by
  rcases x with ⟨o, s⟩
  cases o with
  | ok => exact hr
  | diag d => simp only [record]; split <;> exact hr
  | crash p => rfl
  | fuel => exact hr

theorem replLoop_crashed (cfg : Cfg) (n : Nat) (first : Bool) (r : ReplSt) (h : r.crash.isSome = true) :
    replLoop cfg (n + 1) first r = r := by
  unfold replLoop
  simp [h]

/-- **one turn of the loop on a well-formed entry**: the entry is read (all its lines), run by `runSource` on the state
    `entrySt`, its result is recorded, and — unless it stopped at a crash point — the loop goes on -/
theorem replLoop_entry (cfg : Cfg) (n : Nat) (first : Bool) (r : ReplSt) (e : Entry) (rest : Str) (hw : e.WF)
    (hc : r.crash = none) (heof : r.st.stdinEof = false) (hin : r.st.stdin = e.text ++ rest) :
    replLoop cfg (n + 1) first r =
      if (step cfg first e r rest).crash.isSome then step cfg first e r rest
      else replLoop cfg n false (step cfg first e r rest) := by
  have hcr := record_crash r (runSource cfg e.src (entrySt first e r.st rest)) hc
  unfold step
  generalize hX : runSource cfg e.src (entrySt first e r.st rest) = X at hcr
  conv => lhs; unfold replLoop
  simp only [hc, Option.isSome_none, Bool.false_eq_true, if_false]
  generalize hst0 : (if first = true then r.st else { r.st with out := marker :: r.st.out }) = st0
  have h0eof : st0.stdinEof = false := by subst hst0; split <;> exact heof
  have h0in : st0.stdin = e.text ++ rest := by subst hst0; split <;> exact hin
  have hin' : ({ st0 with out := "> ".toList :: st0.out, steps := 0, depth := 0 } : St).stdin
      = e.head ++ '\n' :: ((if multilineStart e.head then (e.more.map (· ++ ['\n'])).flatten ++ ['\n'] else []) ++ rest) := by
    show st0.stdin = _
    rw [h0in]; unfold Entry.text; simp
  rw [run_getLine_line { st0 with out := "> ".toList :: st0.out, steps := 0, depth := 0 } e.head _ h0eof hin' hw.oneLine]
  have hne : e.head.isEmpty = false := by
    cases hh : e.head with
    | nil => exact absurd hh hw.nonempty
    | cons _ _ => rfl
  have h1 : (e.head == ['?']) = false := by simpa using hw.notHelp
  have h2 : (e.head == "EXIT".toList) = false := by simpa using hw.notExit
  simp only [Bool.not_true, Bool.false_eq_true, if_false, hne, h1, h2, hw.notRunfile]
  by_cases hm : multilineStart e.head = true
  · simp only [hm, if_true]
    rw [collectLines_run e.more _ e.head
      { st0 with out := "> ".toList :: st0.out, steps := 0, depth := 0,
                 stdin := (e.more.map (· ++ ['\n'])).flatten ++ ['\n'] ++ rest } rest
      (by have := length_le_flatten e.more; simp only [List.length_append, List.length_cons, List.length_nil]; omega)
      h0eof hw.moreLines (by simp)]
    have hs : e.src = joinCont e.head e.more := by unfold Entry.src; simp [hm]
    have hst : entrySt first e r.st rest = { st0 with
        out := List.replicate (e.more.length + 1) ". ".toList ++ ("> ".toList :: st0.out),
        steps := 0, depth := 0, stdin := rest } := by
      subst hst0; unfold entrySt Entry.dots; cases first <;> simp [hm]
    rw [hs, hst] at hX
    dsimp only
    rw [hX]
    rcases X with ⟨o, s⟩
    cases o <;> simp only [record] at hcr ⊢
    · simp [hcr]
    · split <;> simp_all
    · simp
    · simp [hcr]
  · have hm' : multilineStart e.head = false := by simpa using hm
    have hmore := hw.single hm'
    simp only [hm', Bool.false_eq_true, if_false]
    have hs : e.src = e.head := by unfold Entry.src; simp [hm']
    have hst : entrySt first e r.st rest = { st0 with
        out := "> ".toList :: st0.out, steps := 0, depth := 0, stdin := rest } := by
      subst hst0; unfold entrySt Entry.dots; cases first <;> simp [hm']
    rw [hs, hst] at hX
    simp only [List.nil_append]
    rw [hX]
    rcases X with ⟨o, s⟩
    cases o <;> simp only [record] at hcr ⊢
    · simp [hcr]
    · split <;> simp_all
    · simp
    · simp [hcr]

/-! ### the other turns -/

/-- the state in which a one-line command (`EXIT`, `?`, an empty line) leaves the session: prompt printed, counters reset,
    the line consumed -/
def promptSt (first : Bool) (st : St) (rest : Str) : St :=
  { st with out := "> ".toList :: (if first then st.out else marker :: st.out), steps := 0, depth := 0, stdin := rest }

/-- `EXIT` ends the session: nothing is run, the state is the one before with the prompt printed and the line consumed -/
theorem replLoop_exit (cfg : Cfg) (n : Nat) (first : Bool) (r : ReplSt) (rest : Str)
    (hc : r.crash = none) (heof : r.st.stdinEof = false) (hin : r.st.stdin = "EXIT".toList ++ '\n' :: rest) :
    replLoop cfg (n + 1) first r = { r with st := promptSt first r.st rest } := by
  conv => lhs; unfold replLoop
  simp only [hc, Option.isSome_none, Bool.false_eq_true, if_false]
  generalize hst0 : (if first = true then r.st else { r.st with out := marker :: r.st.out }) = st0
  have h0eof : st0.stdinEof = false := by subst hst0; split <;> exact heof
  have h0in : st0.stdin = "EXIT".toList ++ '\n' :: rest := by subst hst0; split <;> exact hin
  rw [run_getLine_line { st0 with out := "> ".toList :: st0.out, steps := 0, depth := 0 } "EXIT".toList rest h0eof h0in (by decide)]
  have hp : promptSt first r.st rest = { st0 with out := "> ".toList :: st0.out, steps := 0, depth := 0, stdin := rest } := by
    subst hst0; unfold promptSt; cases first <;> simp
  rw [hp]
  rfl

/-- an empty line: the loop just prompts again -/
theorem replLoop_blank (cfg : Cfg) (n : Nat) (first : Bool) (r : ReplSt) (rest : Str)
    (hc : r.crash = none) (heof : r.st.stdinEof = false) (hin : r.st.stdin = '\n' :: rest) :
    replLoop cfg (n + 1) first r = replLoop cfg n false { r with st := promptSt first r.st rest } := by
  conv => lhs; unfold replLoop
  simp only [hc, Option.isSome_none, Bool.false_eq_true, if_false]
  generalize hst0 : (if first = true then r.st else { r.st with out := marker :: r.st.out }) = st0
  have h0eof : st0.stdinEof = false := by subst hst0; split <;> exact heof
  have h0in : st0.stdin = [] ++ '\n' :: rest := by subst hst0; split <;> exact hin
  rw [run_getLine_line { st0 with out := "> ".toList :: st0.out, steps := 0, depth := 0 } [] rest h0eof h0in (by simp)]
  have hp : promptSt first r.st rest = { st0 with out := "> ".toList :: st0.out, steps := 0, depth := 0, stdin := rest } := by
    subst hst0; unfold promptSt; cases first <;> simp
  rw [hp]
  rfl

/-- `?`: the help text is printed, the loop goes on -/
theorem replLoop_help (cfg : Cfg) (n : Nat) (first : Bool) (r : ReplSt) (rest : Str)
    (hc : r.crash = none) (heof : r.st.stdinEof = false) (hin : r.st.stdin = '?' :: '\n' :: rest) :
    replLoop cfg (n + 1) first r =
      replLoop cfg n false { r with st := { promptSt first r.st rest with out := helpText :: (promptSt first r.st rest).out } } := by
  conv => lhs; unfold replLoop
  simp only [hc, Option.isSome_none, Bool.false_eq_true, if_false]
  generalize hst0 : (if first = true then r.st else { r.st with out := marker :: r.st.out }) = st0
  have h0eof : st0.stdinEof = false := by subst hst0; split <;> exact heof
  have h0in : st0.stdin = ['?'] ++ '\n' :: rest := by subst hst0; split <;> exact hin
  rw [run_getLine_line { st0 with out := "> ".toList :: st0.out, steps := 0, depth := 0 } ['?'] rest h0eof h0in (by decide)]
  have hp : promptSt first r.st rest = { st0 with out := "> ".toList :: st0.out, steps := 0, depth := 0, stdin := rest } := by
    subst hst0; unfold promptSt; cases first <;> simp
  rw [hp]
  rfl

/-- the end of the input was reached before: the session ends, nothing is run; only the prompt is printed -/
theorem replLoop_eof (cfg : Cfg) (n : Nat) (first : Bool) (r : ReplSt) (hc : r.crash = none) (heof : r.st.stdinEof = true) :
    replLoop cfg (n + 1) first r = { r with st := promptSt first r.st r.st.stdin } := by
  conv => lhs; unfold replLoop
  simp only [hc, Option.isSome_none, Bool.false_eq_true, if_false]
  generalize hst0 : (if first = true then r.st else { r.st with out := marker :: r.st.out }) = st0
  have h0eof : st0.stdinEof = true := by subst hst0; split <;> exact heof
  rw [run_getLine_eof { st0 with out := "> ".toList :: st0.out, steps := 0, depth := 0 } h0eof]
  have hp : promptSt first r.st r.st.stdin = { st0 with out := "> ".toList :: st0.out, steps := 0, depth := 0 } := by
    subst hst0; unfold promptSt; cases first <;> simp
  rw [hp]
  rfl

/-- the input ends without a final line break (also: the input is empty): the session ends, the unfinished line is
    NOT run; the end of input is recorded -/
theorem replLoop_eof_partial_line (cfg : Cfg) (n : Nat) (first : Bool) (r : ReplSt) (hc : r.crash = none)
    (heof : r.st.stdinEof = false) (hl : '\n' ∉ r.st.stdin) :
    replLoop cfg (n + 1) first r = { r with st := { promptSt first r.st [] with stdinEof := true } } := by
  conv => lhs; unfold replLoop
  simp only [hc, Option.isSome_none, Bool.false_eq_true, if_false]
  generalize hst0 : (if first = true then r.st else { r.st with out := marker :: r.st.out }) = st0
  have h0eof : st0.stdinEof = false := by subst hst0; split <;> exact heof
  have h0in : st0.stdin = r.st.stdin := by subst hst0; split <;> rfl
  rw [run_getLine_last { st0 with out := "> ".toList :: st0.out, steps := 0, depth := 0 } r.st.stdin h0eof h0in hl]
  have hp : ({ promptSt first r.st [] with stdinEof := true } : St)
      = { st0 with out := "> ".toList :: st0.out, steps := 0, depth := 0, stdin := [], stdinEof := true } := by
    subst hst0; unfold promptSt; cases first <;> simp
  rw [hp]
  rfl

/-! ### whole sessions -/

/-- the session record after the entries `es`, computed without reading: each entry is run by `runSource` on `entrySt`
    (the standard input advanced past the entry's text), the result recorded; a crash point ends the session -/
def session (cfg : Cfg) : List Entry → Bool → ReplSt → ReplSt
  | [], _, r => r
  | e :: es, first, r =>
    if r.crash.isSome then r
    else session cfg es false (step cfg first e r (r.st.stdin.drop e.text.length))

/-- at each turn the standard input is not at its end and starts with the text of the next entry (it does at the start
    if the input is the concatenation of the entries' texts and no entry reads from the standard input) -/
def inputOK (cfg : Cfg) : List Entry → Bool → ReplSt → Bool
  | [], _, _ => true
  | e :: es, first, r =>
    r.crash.isSome ||
      (!r.st.stdinEof && e.text.isPrefixOf r.st.stdin &&
        inputOK cfg es false (step cfg first e r (r.st.stdin.drop e.text.length)))

theorem eq_append_drop_of_isPrefixOf {l₁ l₂ : Str} (h : l₁.isPrefixOf l₂ = true) : l₂ = l₁ ++ l₂.drop l₁.length := by
  have h' : l₁ <+: l₂ := List.isPrefixOf_iff_prefix.mp h
  obtain ⟨t, rfl⟩ := h'
  simp

/-- **sessions**: on an input that offers the well-formed entries `es` one after the other, `es.length` turns of the loop
    compute `session`; the loop then goes on with whatever follows on the input -/
theorem replLoop_session (cfg : Cfg) (n : Nat) : ∀ (es : List Entry) (first : Bool) (r : ReplSt),
    (∀ e ∈ es, e.WF) → inputOK cfg es first r = true →
    replLoop cfg (es.length + (n + 1)) first r = replLoop cfg (n + 1) (first && es.isEmpty) (session cfg es first r)
  | [], first, r, _, _ => by simp [session]
  | e :: es, first, r, hw, hok => by
    unfold inputOK at hok
    unfold session
    by_cases hc : r.crash.isSome = true
    · simp only [hc, if_true]
      have : (e :: es).length + (n + 1) = (es.length + n + 1) + 1 := by simp; omega
      rw [this, replLoop_crashed _ _ _ _ hc, replLoop_crashed _ _ _ _ hc]
    · have hc' : r.crash = none := by
        cases h : r.crash with
        | none => rfl
        | some p => rw [h] at hc; exact absurd rfl hc
      have hc'' : r.crash.isSome = false := by rw [hc']; rfl
      simp only [hc'', Bool.false_or, Bool.and_eq_true, Bool.not_eq_true'] at hok
      obtain ⟨⟨heof, hpre⟩, hrest⟩ := hok
      simp only [hc'', Bool.false_eq_true, if_false]
      have hlen : (e :: es).length + (n + 1) = (es.length + (n + 1)) + 1 := by simp; omega
      rw [hlen, replLoop_entry cfg _ first r e _ (hw e List.mem_cons_self) hc' heof (eq_append_drop_of_isPrefixOf hpre)]
      have ih := replLoop_session cfg n es false _ (fun x hx => hw x (List.mem_cons_of_mem _ hx)) hrest
      split
      · rename_i hcr
        cases es with
        | nil => simp only [session]; rw [replLoop_crashed _ _ _ _ hcr]
        | cons e2 es2 => simp only [session, hcr, if_true]; rw [replLoop_crashed _ _ _ _ hcr]
      · rw [ih]; simp

end ReplLoop
end Pseudo
