import Properties.C11Chain
import PseudoProofs.TraceChain2Ex
namespace Pseudo
open ArrayLemmas C07Copy TraceLemmas TraceChain TraceChain2

/-! # The program and the states of the BYREF instance of `Properties/C11Chain2.lean`

(a module of its own: the two lookups `hpdQ` / `hfdK2` are checked by unfolding the run and take minutes)

## non-vacuity of the binding steps: a call site inside the reference of a BYREF argument

`CALL Q(A[K2(1)])` with `Q(BYREF z : INTEGER)`: the argument is evaluated once for its value (`evalArgs`: `K2` returns) and
its reference is resolved a second time when the parameter is bound (`bindParams`) — `K2` counts its calls and fails in the
second one, so the failing call is the one made from the binding. -/
namespace C11Chain2Byref
open C11ChainEx (tk getOk isOkB isTrueB run_of_isOk run_of_isOk_unit run_of_isTrue acts_head_tail)
open C11Chain2Ex (arrParts isArrB arr_of_isArrB)

set_option maxRecDepth 1000000

def cntAcc (l c : Nat) : Expr := .access (tk .IDENTIFIER l c "cnt") (.var (tk .IDENTIFIER l c "cnt"))
def asgCnt : Stmt := .expr (.assign (tk .ASSIGNMENT 4 10) (.var (tk .IDENTIFIER 4 5 "cnt"))
  (.arith (tk .PLUS 4 16) .add (cntAcc 4 12) (.intLit (tk .INTEGER 4 18 "1") 1)))
def odTok : Tok := tk .OUTPUT 6 9
def divTok : Tok := tk .DIV 6 18
def oneTok : Tok := tk .INTEGER 6 16 "1"
def zeroTok : Tok := tk .INTEGER 6 22 "0"
def outDiv : Block := [.output odTok [.arith divTok .idiv (.intLit oneTok 1) (.intLit zeroTok 0)]]
def ifT : Tok := tk .IF 5 5
def cond2 : Expr := .cmp (tk .EQUALS 5 12) .eq (cntAcc 5 8) (.intLit (tk .INTEGER 5 14 "2") 2)
def retN : Stmt := .ret (tk .RETURN 8 5) (.access (tk .IDENTIFIER 8 12 "n") (.var (tk .IDENTIFIER 8 12 "n")))
def bodyK2 : Block := [asgCnt] ++ [.ifs ifT [(cond2, outDiv)] none, retN]
def defTokK2 : Tok := tk .FUNCTION 3 1
def fdK2 : FunDef := { name := "K2".toList, params := [("n".toList, .int, false)], ret := .int, body := .user bodyK2 defTokK2 }
def bodyQ : Block := [.output (tk .OUTPUT 11 5) [.access (tk .IDENTIFIER 11 12 "z") (.var (tk .IDENTIFIER 11 12 "z"))]]
def pdQ : ProcDef := { name := "Q".toList, params := [("z".toList, .int, true)], body := bodyQ }
def pre₀ : Block := [
  .declare (tk .DECLARE 1 1) [tk .IDENTIFIER 1 9 "cnt"] (tk .DATA_TYPE 1 15 "INTEGER"),
  .expr (.assign (tk .ASSIGNMENT 2 6) (.var (tk .IDENTIFIER 2 1 "cnt")) (.intLit (tk .INTEGER 2 8 "0") 0)),
  .funDef defTokK2 "K2".toList [{ name := "n".toList, ty := tk .DATA_TYPE 3 17 "INTEGER", byRef := false }] (tk .DATA_TYPE 3 34 "INTEGER") bodyK2,
  .procDef (tk .PROCEDURE 10 1) "Q".toList [{ name := "z".toList, ty := tk .DATA_TYPE 10 23 "INTEGER", byRef := true }] bodyQ,
  .declareArr (tk .DECLARE 13 1) [tk .IDENTIFIER 13 9 "A"] (tk .DATA_TYPE 13 27 "INTEGER")
    [(.intLit (tk .INTEGER 13 19 "1") 1, .intLit (tk .INTEGER 13 21 "3") 3)]]
def tQ : Tok := tk .CALL 14 1
def tK2 : Tok := tk .IDENTIFIER 14 10 "K2"
def argsK2 : List Expr := [.intLit (tk .INTEGER 14 13 "1") 1]
def atA : Tok := tk .IDENTIFIER 14 8 "A"
def ixT : Tok := tk .LSQRBRACKET 14 9
def refA : Ref := .var (tk .IDENTIFIER 14 8 "A")
def rArg : Ref := .index ixT refA [.call tK2 argsK2]
def argsQ : List Expr := [.access atA rArg]
def sCall : Stmt := .call tQ "Q".toList argsQ
/-- the program: lines 1–13, then `CALL Q(A[K2(1)])` -/
def prog : Block := pre₀ ++ [sCall]

def σ₀ : St := fileStW {} [] [] []
def σA : St := ((runBlock 20 pre₀).run.run σ₀).2
-- the arguments are evaluated (first call of K2: returns)
def σB : St := ((evalArgs 20 argsQ []).run.run (tickSt σA)).2
def valsB : List Val := getOk [] ((evalArgs 20 argsQ []).run.run (tickSt σA)).1
def vB : Val := valsB.headD .none
-- the binding: `A` resolved again
def hA : Holder := getOk default ((resolveRef 10 refA).run.run σB).1
def σB2 : St := ((resolveRef 10 refA).run.run σB).2
-- the second call of K2
def σI : St := ((evalArgs 10 argsK2 []).run.run σB2).2
def valsI : List Val := getOk [] ((evalArgs 10 argsK2 []).run.run σB2).1
def curI : Act := σI.acts.headD default
def slotsI : List Slot := getOk [] ((bindParams 10 tK2 fdK2.params argsK2 valsI []).run.run σI).1
def σI2 : St := ((bindParams 10 tK2 fdK2.params argsK2 valsI []).run.run σI).2
def σJ : St := calleeSt (funAct fdK2 slotsI) (setSwitch σI2 curI.id tK2)
-- K2: cnt <- cnt + 1, the IF is counted, its condition is true
def σK1 : St := ((runBlock 20 [asgCnt]).run.run σJ).2
def σK2 : St := ((evalExpr 10 cond2).run.run (tickSt σK1)).2
def aK : Act := σK2.acts.headD default

theorem hpre₀ : (runBlock 20 pre₀).run.run σ₀ = (.ok ⟨⟩, σA) := run_of_isOk_unit _ _ (by decide +kernel)
theorem hstepsA : σA.steps + 1 ≤ σA.stepLimit := by decide +kernel
set_option maxHeartbeats 4000000 in
theorem hpdQ : σA.procs.find? (·.name == "Q".toList) = some pdQ := by rfl
theorem hargsB : (evalArgs 20 argsQ []).run.run (tickSt σA) = (.ok valsB, σB) := run_of_isOk [] _ _ (by decide +kernel)
theorem hvalsB : valsB = [vB] := by
  have h : valsB.length = 1 := by decide +kernel
  unfold vB
  match hv : valsB, h with
  | [v], _ => rfl
theorem hlenB : valsB.length = pdQ.params.length := by decide +kernel
theorem hdepthB : σB.depth + 1 ≤ σB.depthLimit := by decide +kernel
theorem hcurB : σB.acts = σB.acts.headD default :: σB.acts.tail := acts_head_tail _ (by decide +kernel)
theorem htyB : vB.ty = .int := by decide +kernel
theorem hresA : (resolveRef 10 refA).run.run σB = (.ok hA, σB2) := run_of_isOk default _ _ (by decide +kernel)
theorem harrA : hA.isArr = true := by decide +kernel
theorem hvalA : readLocP σB2 hA.loc = .ok (.arr (arrParts (readLocP σB2 hA.loc)).1 (arrParts (readLocP σB2 hA.loc)).2.1
    (arrParts (readLocP σB2 hA.loc)).2.2) := arr_of_isArrB _ (by decide +kernel)
theorem hlenA : [Expr.call tK2 argsK2].length = (arrParts (readLocP σB2 hA.loc)).2.1.length := by decide +kernel
set_option maxHeartbeats 4000000 in
theorem hfdK2 : funLookup σB2 tK2.val = some fdK2 := by rfl
theorem hargsI : (evalArgs 10 argsK2 []).run.run σB2 = (.ok valsI, σI) := run_of_isOk [] _ _ (by decide +kernel)
theorem hlenI : valsI.length = fdK2.params.length := by decide +kernel
theorem hdepthI : σI.depth + 1 ≤ σI.depthLimit := by decide +kernel
theorem hcurI : σI.acts = curI :: σI.acts.tail := acts_head_tail _ (by decide +kernel)
theorem hbindI : (bindParams 10 tK2 fdK2.params argsK2 valsI []).run.run σI = (.ok slotsI, σI2) := run_of_isOk [] _ _ (by decide +kernel)
theorem hpreK : (runBlock 20 [asgCnt]).run.run σJ = (.ok ⟨⟩, σK1) := run_of_isOk_unit _ _ (by decide +kernel)
theorem hstepsK1 : σK1.steps + 1 ≤ σK1.stepLimit := by decide +kernel
theorem hcondK : (evalExpr 10 cond2).run.run (tickSt σK1) = (.ok (.bool true), σK2) := run_of_isTrue _ _ (by decide +kernel)
theorem hactsK : σK2.acts = aK :: σK2.acts.tail := acts_head_tail _ (by decide +kernel)
theorem hcompK : aK.isComp = false := by decide +kernel
theorem hstepsK2 : σK2.steps + 1 ≤ σK2.stepLimit := by decide +kernel


end C11Chain2Byref
end Pseudo
