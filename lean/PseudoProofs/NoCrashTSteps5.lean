import PseudoProofs.NoCrashTSpec
namespace Pseudo.NT
open Pseudo
open Pseudo.NC (ReadsIn ActRead ErrOK ErrNR NoCrash RO EOK errOK_diag errNR_diag errOK_fuel errNR_fuel errOK_brk errOK_cont
  getLast?_mem ro_findAct ro_isLive ro_rtErr ro_rtErr0 ro_pedErr ro_liftMsg ro_liftMsg0 ro_readLoc ro_locIsConst ro_filePre
  ro_writeText ro_get getPath_nil findSlot_name findSlot_mem lookupVarIn_some lookupArrIn_some lookupVarIn_none top_mem
  getPath_append)
variable {f : Nat}

set_option linter.unusedVariables false

theorem step_execStmt_openFile (ih : AllTri f) (top : Bool) (t : Tok) (fn : Expr) (mode : FileMode)
    (hok : okStmt top (.openFile t fn mode) = true) :
    Tri (TopCond top) (execStmt (f+1) (.openFile t fn mode)) QV := by
  intro σ hW hP
  have hE0 := Ext.refl σ
  rw [execStmt.eq_def]; dsimp only
  refine Run.bind hE0 (run_tick hW t) fun _ σ1 hW1 hE1 hE01 _ => ?_
  refine Run.bind hE01 (ih.fileName t fn σ1 hW1 trivial) fun name σ2 hW2 hE2 hE02 _ => ?_
  refine Run.bind hE02 (run_doFile hW2 t _) fun _ σ3 hW3 hE3 hE03 _ => ?_
  exact Run.pure hW3 hE03 ⟨rfl, trivial⟩

theorem step_execStmt_closeFile (ih : AllTri f) (top : Bool) (t : Tok) (fn : Expr)
    (hok : okStmt top (.closeFile t fn) = true) :
    Tri (TopCond top) (execStmt (f+1) (.closeFile t fn)) QV := by
  intro σ hW hP
  have hE0 := Ext.refl σ
  rw [execStmt.eq_def]; dsimp only
  refine Run.bind hE0 (run_tick hW t) fun _ σ1 hW1 hE1 hE01 _ => ?_
  refine Run.bind hE01 (ih.fileName t fn σ1 hW1 trivial) fun name σ2 hW2 hE2 hE02 _ => ?_
  refine Run.bind hE02 (run_doFile hW2 t _) fun _ σ3 hW3 hE3 hE03 _ => ?_
  exact Run.pure hW3 hE03 ⟨rfl, trivial⟩

theorem step_execStmt_writeFile (ih : AllTri f) (top : Bool) (t : Tok) (fn e : Expr)
    (hok : okStmt top (.writeFile t fn e) = true) :
    Tri (TopCond top) (execStmt (f+1) (.writeFile t fn e)) QV := by
  intro σ hW hP
  have hE0 := Ext.refl σ
  rw [execStmt.eq_def]; dsimp only
  refine Run.bind hE0 (run_tick hW t) fun _ σ1 hW1 hE1 hE01 _ => ?_
  refine Run.bind hE01 (ih.fileName t fn σ1 hW1 trivial) fun name σ2 hW2 hE2 hE02 _ => ?_
  refine Run.ro hW2 hE02 (ro_filePre t _) fun _ _ => ?_
  refine Run.bind hE02 (ih.evalExpr e σ2 hW2 trivial) fun v σ3 hW3 hE3 hE03 _ => ?_
  refine Run.ro hW3 hE03 (ro_writeText t v) fun txt _ => ?_
  refine Run.bind hE03 (run_doFile hW3 t _) fun _ σ4 hW4 hE4 hE04 _ => ?_
  exact Run.pure hW4 hE04 ⟨rfl, trivial⟩

theorem step_execStmt_seek (ih : AllTri f) (top : Bool) (t : Tok) (fn addr : Expr)
    (hok : okStmt top (.seek t fn addr) = true) :
    Tri (TopCond top) (execStmt (f+1) (.seek t fn addr)) QV := by
  intro σ hW hP
  have hE0 := Ext.refl σ
  rw [execStmt.eq_def]; dsimp only
  refine Run.bind hE0 (run_tick hW t) fun _ σ1 hW1 hE1 hE01 _ => ?_
  refine Run.bind hE01 (ih.evalExpr addr σ1 hW1 trivial) fun v σ2 hW2 hE2 hE02 _ => ?_
  split
  · split
    · exact Run.rtErr hW2 hE02 _ _
    · refine Run.bind hE02 (ih.fileName t fn σ2 hW2 trivial) fun name σ3 hW3 hE3 hE03 _ => ?_
      refine Run.bind hE03 (run_doFile hW3 t _) fun _ σ4 hW4 hE4 hE04 _ => ?_
      exact Run.pure hW4 hE04 ⟨rfl, trivial⟩
  · exact Run.rtErr hW2 hE02 _ _

theorem step_execStmt_for (ih : AllTri f) (top : Bool) (t it : Tok) (start stop : Expr) (step : Option Expr) (b : Block)
    (hok : okStmt top (.for t it start stop step b) = true) : Tri (TopCond top) (execStmt (f+1) (.for t it start stop step b)) QV := by
  intro σ hW hP
  have hE0 := Ext.refl σ
  have hokb : okBlock top b = true := by simpa only [okStmt] using hok
  rw [execStmt.eq_def]; dsimp -zeta only
  extract_lets jp
  have hjp : ∀ h σ', WF σ' → Ext σ σ' → TyLoc σ' h.1 h.2 → Run (jp h) σ' (Res σ (QV σ)) := by
    intro h σ1 hW1 hE01 hT
    dsimp -zeta only [jp]
    split
    · exact Run.rtErr hW1 hE01 _ _
    · rename_i hty
      have hty' : h.2 = .int := by simpa using hty
      have hI : IntLoc σ1 h.1 := by rw [hty'] at hT; exact hT
      refine Run.ro hW1 hE01 (ro_locIsConst _) fun c _ => ?_
      extract_lets jp2
      have hjp2 : ∀ u, Run (jp2 u) σ1 (Res σ (QV σ)) := by
        intro u
        dsimp -zeta only [jp2]
        refine Run.bind hE01 (ih.evalExpr start σ1 hW1 trivial) fun sv σ2 hW2 hE2 hE02 hsv => ?_
        split
        · rename_i a
          refine Run.bind hE02 (ih.evalExpr stop σ2 hW2 trivial) fun ev σ3 hW3 hE3 hE03 hev => ?_
          split
          · rename_i bnd
            extract_lets jp3
            have hjp3 : ∀ stepV σ', WF σ' → Ext σ σ' → IntLoc σ' h.1 →
                Run (jp3 stepV) σ' (Res σ (QV σ)) := by
              intro stepV σ4 hW4 hE04 hI4
              dsimp -zeta only [jp3]
              obtain ⟨old, hold, hs, hoty⟩ := hI4
              refine Run.bind hE04 (run_writeLoc hW4 t (.int a) hold (SameKind.of_scal hs rfl (by rw [hoty]; rfl))
                (SubOK.of_scal rfl trivial))
                fun _ σ5 hW5 hE5 hE05 _ => ?_
              refine Run.bind hE05 (ih.forLoop top t h.1 bnd stepV b hokb σ5 hW5
                ⟨TopCond.ext hE05 hP, IntLoc.ext hE5 ⟨old, hold, hs, hoty⟩⟩)
                fun _ σ6 hW6 hE6 hE06 _ => ?_
              exact Run.pure hW6 hE06 ⟨rfl, trivial⟩
            have hI3 : IntLoc σ3 h.1 := (hI.ext hE2).ext hE3
            split
            · exact hjp3 _ _ hW3 hE03 hI3
            · rename_i se
              refine Run.bind hE03 (ih.evalExpr se σ3 hW3 trivial) fun kv σ4 hW4 hE4 hE04 _ => ?_
              split
              · exact hjp3 _ _ hW4 hE04 (hI3.ext hE4)
              · exact Run.ro hW4 hE04 (ro_rtErr _ _ (fun _ => False)) fun _ h => h.elim
          · exact Run.rtErr hW3 hE03 _ _
        · exact Run.rtErr hW2 hE02 _ _
      split
      · exact Run.ro hW1 hE01 (ro_rtErr _ _ (fun _ => False)) fun _ h => h.elim
      · exact hjp2 ()
  clear_value jp
  refine Run.bind hE0 (run_tick hW t) fun _ σ1 hW1 hE1 hE01 _ => ?_
  refine Run.ro hW1 hE01 (ro_lookupVar hW1 it.val) fun res ⟨a, rest, g, ha, hg, hres⟩ => ?_
  have hamem : a ∈ σ1.acts := top_mem ha
  have hgmem : g ∈ σ1.acts := getLast?_mem hg
  cases res with
  | some p =>
    obtain ⟨b', s⟩ := p
    dsimp -zeta only
    obtain ⟨hb, hs⟩ := lookupVarIn_some hres.symm
    have hbmem : b' ∈ σ1.acts := by rcases hb with rfl | rfl <;> assumption
    have hty := var_tyloc hW1 hbmem hs
    cases hr : s.ref with
    | some l =>
      rw [hr] at hty
      dsimp -zeta only
      rw [pure_bind]
      exact hjp _ _ hW1 hE01 hty
    | none =>
      rw [hr] at hty
      dsimp -zeta only
      rw [pure_bind]
      exact hjp _ _ hW1 hE01 hty
  | none =>
    dsimp -zeta only
    refine Run.bind hE01 (run_addVar hW1 { name := it.val, ty := .int, val := .int 0 } rfl ⟨rfl, rfl, trivial⟩)
      fun _ σ2 hW2 hE2 hE02 hadd => ?_
    refine Run.ro hW2 hE02 (ro_curAct hW2) fun a' ⟨rest', ha'⟩ => ?_
    rw [pure_bind]
    have hid : a'.id = a.id := by
      have := hE2.ids
      rw [ha, ha'] at this
      simp only [List.map_cons, List.cons.injEq, Prod.mk.injEq] at this
      exact this.1.1
    have hrd := hadd a rest ha (lookupVarIn_none hres.symm)
    refine hjp _ _ hW2 hE02 ⟨.int 0, ?_, rfl, rfl⟩
    rw [hid]; exact hrd

theorem step_execStmt_readFile (ih : AllTri f) (top : Bool) (t : Tok) (fn : Expr) (id : Tok)
    (hok : okStmt top (.readFile t fn id) = true) :
    Tri (TopCond top) (execStmt (f+1) (.readFile t fn id)) QV := by
  intro σ hW hP
  have hE0 := Ext.refl σ
  rw [execStmt.eq_def]; dsimp -zeta only
  refine Run.bind hE0 (run_tick hW t) fun _ σ1 hW1 hE1 hE01 _ => ?_
  refine Run.bind hE01 (ih.fileName t fn σ1 hW1 trivial) fun name σ2 hW2 hE2 hE02 _ => ?_
  refine Run.ro hW2 hE02 (ro_lookupVar hW2 id.val) fun res ⟨a, rest, g, ha, hg, hres⟩ => ?_
  have hamem : a ∈ σ2.acts := top_mem ha
  have hgmem : g ∈ σ2.acts := getLast?_mem hg
  extract_lets jp2 jp
  have hjp2 : ∀ loc σ', WF σ' → Ext σ σ' → TyLoc σ' loc .str →
      Run (jp2 loc) σ' (Res σ (QV σ)) := by
    intro loc σ3 hW3 hE03 hT
    dsimp -zeta only [jp2]
    refine Run.ro hW3 hE03 (ro_locIsConst _) fun c _ => ?_
    extract_lets jp3
    have hjp3 : ∀ u, Run (jp3 u) σ3 (Res σ (QV σ)) := by
      intro u
      dsimp -zeta only [jp3]
      refine Run.bind hE03 (run_doFile hW3 t (.readLine name)) fun r σ4 hW4 hE4 hE04 hr => ?_
      obtain ⟨s, s', hstep⟩ := hr
      obtain ⟨l, rfl⟩ := NC.C01_fres_shape s s' _ r hstep
      dsimp -zeta only
      obtain ⟨old, hold, hs, hoty⟩ := hT.ext hE4
      refine Run.bind hE04 (run_writeLoc hW4 t (.str l) hold (SameKind.of_scal hs rfl (by rw [hoty]; rfl))
        (SubOK.of_scal rfl trivial))
        fun _ σ5 hW5 hE5 hE05 _ => ?_
      exact Run.pure hW5 hE05 ⟨rfl, trivial⟩
    split
    · exact Run.ro hW3 hE03 (ro_rtErr _ _ (fun _ => False)) fun _ h => h.elim
    · exact hjp3 ()
  clear_value jp2
  have hjp : ∀ u, (∀ b s, res = some (b, s) → s.ty = .str) →
      Run (jp u) σ2 (Res σ (QV σ)) := by
    intro u hstr
    dsimp -zeta only [jp]
    refine Run.ro hW2 hE02 (ro_filePre t _) fun _ _ => ?_
    cases res with
    | some p =>
      obtain ⟨b', s⟩ := p
      dsimp -zeta only
      obtain ⟨hb, hs⟩ := lookupVarIn_some hres.symm
      have hbmem : b' ∈ σ2.acts := by rcases hb with rfl | rfl <;> assumption
      have hty := var_tyloc hW2 hbmem hs
      rw [hstr b' s rfl] at hty
      cases hr : s.ref with
      | some l =>
        rw [hr] at hty
        dsimp -zeta only
        rw [pure_bind]
        exact hjp2 _ _ hW2 hE02 hty
      | none =>
        rw [hr] at hty
        dsimp -zeta only
        rw [pure_bind]
        exact hjp2 _ _ hW2 hE02 hty
    | none =>
      dsimp -zeta only
      refine Run.bind hE02 (run_addVar hW2 { name := id.val, ty := .str, val := .str [] } rfl ⟨rfl, rfl, trivial⟩)
        fun _ σ3 hW3 hE3 hE03 hadd => ?_
      refine Run.ro hW3 hE03 (ro_curAct hW3) fun a' ⟨rest', ha'⟩ => ?_
      rw [pure_bind]
      have hid : a'.id = a.id := by
        have := hE3.ids
        rw [ha, ha'] at this
        simp only [List.map_cons, List.cons.injEq, Prod.mk.injEq] at this
        exact this.1.1
      have hrd := hadd a rest ha (lookupVarIn_none hres.symm)
      refine hjp2 _ _ hW3 hE03 ⟨.str [], ?_, rfl, rfl⟩
      rw [hid]; exact hrd
  clear_value jp
  split
  · rename_i b' s
    split
    · exact Run.ro hW2 hE02 (ro_rtErr _ _ (fun _ => False)) fun _ h => h.elim
    · rename_i hty
      refine hjp () fun b2 s2 heq => ?_
      cases heq
      simpa using hty
  · exact hjp () fun b2 s2 heq => by cases heq

theorem step_execStmt_getRecord (ih : AllTri f) (top : Bool) (t : Tok) (fn : Expr) (id : Tok)
    (hok : okStmt top (.getRecord t fn id) = true) :
    Tri (TopCond top) (execStmt (f+1) (.getRecord t fn id)) QV := by
  intro σ hW hP
  have hE0 := Ext.refl σ
  rw [execStmt.eq_def]; dsimp -zeta only
  refine Run.bind hE0 (run_tick hW t) fun _ σ1 hW1 hE1 hE01 _ => ?_
  refine Run.bind hE01 (ih.fileName t fn σ1 hW1 trivial) fun name σ2 hW2 hE2 hE02 _ => ?_
  refine Run.ro hW2 hE02 (ro_filePre t _) fun _ _ => ?_
  refine Run.ro hW2 hE02 (ro_lookupVar hW2 id.val) fun res hres0 => ?_
  obtain ⟨a, rest, g, ha, hg, hres⟩ := hres0
  refine Run.ro hW2 hE02 (ro_lookupArr hW2 id.val) fun resA hres0 => ?_
  obtain ⟨a', rest', g', ha', hg', hresA⟩ := hres0
  extract_lets tgt
  have htgt : ∀ loc ty, tgt = some (loc, ty) → ∃ cur, ReadsIn σ2.acts loc cur ∧ Storable cur := by
    intro loc ty h
    dsimp only [tgt] at h
    split at h
    · rename_i b s
      obtain ⟨hb, hs⟩ := lookupVarIn_some hres.symm
      have hbmem : b ∈ σ2.acts := by
        rcases hb with rfl | rfl
        · exact top_mem ha
        · exact getLast?_mem hg
      obtain ⟨v, hv, h1, _⟩ := var_tyloc hW2 hbmem hs
      cases h
      exact ⟨v, hv, Or.inl h1⟩
    · rename_i b s
      obtain ⟨hb, hs⟩ := lookupArrIn_some hresA.symm
      have hbmem : b ∈ σ2.acts := by
        rcases hb with rfl | rfl
        · exact top_mem ha'
        · exact getLast?_mem hg'
      obtain ⟨hrd, hok⟩ := arr_holder hW2 hbmem hs
      cases h
      exact ⟨_, hrd, Or.inr ⟨_, hok.sh⟩⟩
    · cases h
  clear_value tgt
  cases tgt with
  | none => exact Run.rtErr hW2 hE02 _ _
  | some p =>
    obtain ⟨loc, ty⟩ := p
    obtain ⟨cur, hcur, hst⟩ := htgt loc ty rfl
    dsimp -zeta only
    split
    · exact Run.rtErr hW2 hE02 _ _
    · refine Run.ro hW2 hE02 (ro_locIsConst _) fun c _ => ?_
      extract_lets jp
      have hjp : ∀ u, Run (jp u) σ2 (Res σ (QV σ)) := by
        intro u
        dsimp -zeta only [jp]
        refine Run.bind hE02 (run_doFile hW2 t (.get name)) fun r σ3 hW3 hE3 hE03 hr => ?_
        obtain ⟨s, s', hstep⟩ := hr
        obtain ⟨rec, rfl⟩ := NC.C01_fres_shape s s' _ r hstep
        dsimp -zeta only
        obtain ⟨cur', hcur', k⟩ := hE3.reads _ _ hcur
        have hst' : Storable cur' := by
          rcases hst with h | ⟨ty', h⟩
          · exact Or.inl (k.scal_ty h).1
          · exact Or.inr ⟨ty', k.arrSh h⟩
        refine Run.ro hW3 hE03 (ro_readLoc hcur') fun c' hc' => ?_
        subst hc'
        refine Run.ro hW3 hE03 (ro_codecDefs hW3) fun defs hdefs => ?_
        split
        · rename_i nv rest hload
          have hk := load_ok (σ := σ3) defs hdefs _ nv rec rest hst' hload
          refine Run.bind hE03 (run_writeLoc hW3 t nv hcur' hk.1 hk.2)
            fun _ σ4 hW4 hE4 hE04 _ => ?_
          exact Run.pure hW4 hE04 ⟨rfl, trivial⟩
        · exact Run.rtErr hW3 hE03 _ _
      split
      · exact Run.ro hW2 hE02 (ro_rtErr _ _ (fun _ => False)) fun _ h => h.elim
      · exact hjp ()

theorem step_execStmt_putRecord (ih : AllTri f) (top : Bool) (t : Tok) (fn : Expr) (id : Tok)
    (hok : okStmt top (.putRecord t fn id) = true) :
    Tri (TopCond top) (execStmt (f+1) (.putRecord t fn id)) QV := by
  intro σ hW hP
  have hE0 := Ext.refl σ
  rw [execStmt.eq_def]; dsimp -zeta only
  refine Run.bind hE0 (run_tick hW t) fun _ σ1 hW1 hE1 hE01 _ => ?_
  refine Run.bind hE01 (ih.fileName t fn σ1 hW1 trivial) fun name σ2 hW2 hE2 hE02 _ => ?_
  refine Run.ro hW2 hE02 (ro_filePre t _) fun _ _ => ?_
  refine Run.ro hW2 hE02 (ro_lookupVar hW2 id.val) fun res hres0 => ?_
  obtain ⟨a, rest, g, ha, hg, hres⟩ := hres0
  refine Run.ro hW2 hE02 (ro_lookupArr hW2 id.val) fun resA hres0 => ?_
  obtain ⟨a', rest', g', ha', hg', hresA⟩ := hres0
  extract_lets tgt
  have htgt : ∀ loc ty, tgt = some (loc, ty) → ∃ cur, ReadsIn σ2.acts loc cur ∧ Storable cur := by
    intro loc ty h
    dsimp only [tgt] at h
    split at h
    · rename_i b s
      obtain ⟨hb, hs⟩ := lookupVarIn_some hres.symm
      have hbmem : b ∈ σ2.acts := by
        rcases hb with rfl | rfl
        · exact top_mem ha
        · exact getLast?_mem hg
      obtain ⟨v, hv, h1, _⟩ := var_tyloc hW2 hbmem hs
      cases h
      exact ⟨v, hv, Or.inl h1⟩
    · rename_i b s
      obtain ⟨hb, hs⟩ := lookupArrIn_some hresA.symm
      have hbmem : b ∈ σ2.acts := by
        rcases hb with rfl | rfl
        · exact top_mem ha'
        · exact getLast?_mem hg'
      obtain ⟨hrd, hok⟩ := arr_holder hW2 hbmem hs
      cases h
      exact ⟨_, hrd, Or.inr ⟨_, hok.sh⟩⟩
    · cases h
  clear_value tgt
  cases tgt with
  | none => exact Run.rtErr hW2 hE02 _ _
  | some p =>
    obtain ⟨loc, ty⟩ := p
    obtain ⟨cur, hcur, hst⟩ := htgt loc ty rfl
    dsimp -zeta only
    split
    · exact Run.rtErr hW2 hE02 _ _
    · refine Run.ro hW2 hE02 (ro_readLoc hcur) fun c' hc' => ?_
      refine Run.bind hE02 (run_doFile hW2 t _) fun r σ3 hW3 hE3 hE03 hr => ?_
      exact Run.pure hW3 hE03 ⟨rfl, trivial⟩


private theorem curAct_run {σ : St} {a : Act} {rest : List Act} (hσ : σ.acts = a :: rest) : curAct.run.run σ = (.ok a, σ) := by
  unfold curAct
  rw [run_bind_ok _ _ _ _ _ (run_get σ), hσ]; rfl

private theorem globalAct_run {σ : St} {g : Act} (hg : σ.acts.getLast? = some g) : globalAct.run.run σ = (.ok g, σ) := by
  unfold globalAct
  rw [run_bind_ok _ _ _ _ _ (run_get σ), hg]; rfl

private theorem lookupVar_run {σ : St} {a g : Act} {rest : List Act} (hσ : σ.acts = a :: rest) (hg : σ.acts.getLast? = some g)
    (n : Str) : (lookupVar n).run.run σ = (.ok (lookupVarIn a g n), σ) := by
  unfold lookupVar
  rw [run_bind_ok _ _ _ _ _ (curAct_run hσ), run_bind_ok _ _ _ _ _ (globalAct_run hg)]; rfl

private theorem lookupArr_run {σ : St} {a g : Act} {rest : List Act} (hσ : σ.acts = a :: rest) (hg : σ.acts.getLast? = some g)
    (n : Str) : (lookupArr n).run.run σ = (.ok (lookupArrIn a g n), σ) := by
  unfold lookupArr
  rw [run_bind_ok _ _ _ _ _ (curAct_run hσ), run_bind_ok _ _ _ _ _ (globalAct_run hg)]; rfl

private theorem run_of_tryCatch_ok {α : Type} {m : M α} {hd : Stop → M α} {σ σ' : St} {a : α} {Φ : Except Stop α → St → Prop}
    (h : m.run.run σ = (.ok a, σ')) (hh : Φ (.ok a) σ') : Run (tryCatch m hd) σ Φ := by
  unfold Run; rw [run_tryCatch_ok _ _ _ _ _ h]; exact hh

private theorem run_of_tryCatch_err {α : Type} {m : M α} {hd : Stop → M α} {σ σ' : St} {e : Stop} {Φ : Except Stop α → St → Prop}
    (h : m.run.run σ = (.error e, σ')) (hh : Run (hd e) σ' Φ) : Run (tryCatch m hd) σ Φ := by
  unfold Run at *; rw [run_tryCatch_err _ _ _ _ _ h]; exact hh

/-- `resolveRef` of a plain name, at any fuel: the state is unchanged; a diagnostic is raised only when the name is
    not a variable of the current activation -/
theorem resolveRef_var_run {σ : St} (hW : WF σ) (n : Nat) (vt : Tok) :
    ∃ r, (resolveRef n (.var vt)).run.run σ = (r, σ) ∧ match r with
      | .ok h => HolderOK σ h
      | .error e => ErrNR σ e ∧ ∀ d, e = .diag d → ∀ a rest, σ.acts = a :: rest → findSlot a.vars vt.val = none := by
  cases n with
  | zero =>
    rw [resolveRef.eq_def]; dsimp only
    exact ⟨.error .outOfFuel, rfl, errNR_fuel σ, fun d h => nomatch h⟩
  | succ n =>
    rw [resolveRef.eq_def]; dsimp only
    obtain ⟨a, rest, ha⟩ := hW.top
    cases hg : σ.acts.getLast? with
    | none => exact absurd (List.getLast?_eq_none_iff.1 hg) hW.ne
    | some g =>
      have hamem : a ∈ σ.acts := top_mem ha
      have hgmem : g ∈ σ.acts := getLast?_mem hg
      rw [run_bind_ok _ _ _ _ _ (lookupVar_run ha hg vt.val)]
      cases hres : lookupVarIn a g vt.val with
      | some p =>
        obtain ⟨b, s⟩ := p
        dsimp only
        obtain ⟨hb, hs⟩ := lookupVarIn_some hres
        have hbmem : b ∈ σ.acts := by rcases hb with rfl | rfl <;> assumption
        have hty := var_tyloc hW hbmem hs
        cases hr : s.ref with
        | some l =>
          rw [hr] at hty
          obtain ⟨v, hv, h1, h2⟩ := hty
          exact ⟨_, rfl, v, hv, by simp [h1, h2]⟩
        | none =>
          rw [hr] at hty
          obtain ⟨v, hv, h1, h2⟩ := hty
          exact ⟨_, rfl, v, hv, by simp [h1, h2]⟩
      | none =>
        dsimp only
        rw [run_bind_ok _ _ _ _ _ (lookupArr_run ha hg vt.val)]
        cases hresA : lookupArrIn a g vt.val with
        | some p =>
          obtain ⟨b, s⟩ := p
          dsimp only
          obtain ⟨hb, hs⟩ := lookupArrIn_some hresA
          have hbmem : b ∈ σ.acts := by rcases hb with rfl | rfl <;> assumption
          obtain ⟨hrd, hok⟩ := arr_holder hW hbmem hs
          have hsh := hok.sh
          exact ⟨_, rfl, s.val, hrd, by simpa using hsh⟩
        | none =>
          dsimp only
          obtain ⟨d, hd, _⟩ := rtErr_run (α := Holder) vt .notDefined σ
          refine ⟨_, hd, errNR_diag σ d, fun _ _ a' rest' ha' => ?_⟩
          rw [ha] at ha'; cases ha'
          exact lookupVarIn_none hres

/-- what INPUT knows about its target: a resolved holder, or a plain name that is not a variable of the current
    activation -/
def InputTarget (r : Ref) (o : Option Holder) (σ' : St) : Prop :=
  (∀ h, o = some h → HolderOK σ' h) ∧
  (o = none → ∃ vt, r = .var vt ∧ ∀ a rest, σ'.acts = a :: rest → findSlot a.vars vt.val = none)

theorem step_execStmt_input (ih : AllTri f) (top : Bool) (t : Tok) (r : Ref)
    (hok : okStmt top (.input t r) = true) :
    Tri (TopCond top) (execStmt (f+1) (.input t r)) QV := by
  intro σ hW hP
  have hE0 := Ext.refl σ
  rw [execStmt.eq_def]; dsimp -zeta only
  extract_lets jp
  have hjp : ∀ h σ', WF σ' → Ext σ σ' → HolderOK σ' h → h.isArr = false →
      Run (jp h) σ' (Res σ (QV σ)) := by
    intro h σ1 hW1 hE01 hH harr
    dsimp -zeta only [jp]
    refine Run.ro hW1 hE01 (ro_locIsConst _) fun c _ => ?_
    extract_lets jp2
    have hjp2 : ∀ u, Run (jp2 u) σ1 (Res σ (QV σ)) := by
      intro u
      dsimp -zeta only [jp2]
      refine Run.bind hE01 (run_getLine hW1) fun x σ2 hW2 hE2 hE02 _ => ?_
      split
      · rename_i v hconv
        obtain ⟨hvs, hvt⟩ := NC.simple_inputConvert _ _ _ hconv
        have hv := ok_of_simple (σ := σ2) hvs
        obtain ⟨old, hold, hk⟩ := hH.ext hE2
        rw [if_neg (by simp [harr])] at hk
        refine Run.bind hE02 (run_writeLoc hW2 t v hold (SameKind.of_scal hk.1 hv.1 (hvt.trans hk.2.symm))
            (SubOK.of_scal hv.1 hv.2))
          fun _ σ3 hW3 hE3 hE03 _ => ?_
        exact Run.pure hW3 hE03 ⟨rfl, trivial⟩
      · exact Run.rtErr hW2 hE02 _ _
    split
    · exact Run.ro hW1 hE01 (ro_rtErr _ _ (fun _ => False)) fun _ h => h.elim
    · exact hjp2 ()
  clear_value jp
  refine Run.bind hE0 (run_tick hW t) fun _ σ1 hW1 hE1 hE01 _ => ?_
  refine Run.bind hE01 (Qa := InputTarget r) ?_ fun target σ2 hW2 hE2 hE02 htg => ?_
  · have hE1' := Ext.refl σ1
    by_cases hr : ∃ vt, r = .var vt
    · obtain ⟨vt, rfl⟩ := hr
      dsimp -zeta only
      obtain ⟨res, hrun, hspec⟩ := resolveRef_var_run hW1 f vt
      unfold catchNotDefined
      cases res with
      | ok h =>
        have h1 : (resolveRef f (.var vt) >>= fun h => (pure (some h) : M (Option Holder))).run.run σ1 = (.ok (some h), σ1) := by
          rw [run_bind_ok _ _ _ _ _ hrun]; rfl
        refine run_of_tryCatch_ok h1 ⟨hW1, hE1', ?_, fun hn => nomatch hn⟩
        intro h' hh'; cases hh'; exact hspec
      | error e =>
        have h1 : (resolveRef f (.var vt) >>= fun h => (pure (some h) : M (Option Holder))).run.run σ1 = (.error e, σ1) :=
          run_bind_err _ _ _ _ _ hrun
        refine run_of_tryCatch_err h1 ?_
        obtain ⟨hnr, hfresh⟩ := hspec
        cases e with
        | diag d =>
          dsimp only
          split
          · refine Run.get_bind ?_
            split
            rotate_left
            · exact Run.throw hW1 hE1' hnr.ok
            refine Run.ro hW1 hE1' (ro_isIdentifierType hW1 vt) fun c _ => ?_
            split
            · exact Run.throw hW1 hE1' hnr.ok
            · refine Run.get_bind' ?_
              split
              · exact Run.pedErr hW1 hE1' _ _
              · exact Run.pure hW1 hE1' ⟨fun h hh => (nomatch hh), fun _ => ⟨vt, rfl, hfresh d rfl⟩⟩
          · exact Run.throw hW1 hE1' hnr.ok
        | _ => exact Run.throw hW1 hE1' hnr.ok
    · refine Run.catchND hE1' ?_ fun e σ2 hW2 hE2 hE12 he => ?_
      · refine Run.bind hE1' (ih.resolveRef r σ1 hW1 trivial) fun h σ2 hW2 hE2 hE12 hh => ?_
        refine Run.pure hW2 hE12 ⟨?_, fun hn => nomatch hn⟩
        intro h' hh'; cases hh'; exact hh
      · split
        · exact absurd ⟨_, rfl⟩ hr
        · exact Run.throw hW2 hE12 he
  · obtain ⟨hsome, hnone⟩ := htg
    cases target with
    | some h =>
      dsimp -zeta only
      split
      · exact Run.ro hW2 hE02 (ro_rtErr _ _ (fun _ => False)) fun _ h => h.elim
      · rename_i harr
        rw [pure_bind]
        exact hjp h _ hW2 hE02 (hsome h rfl) (by simpa using harr)
    | none =>
      obtain ⟨vt, rfl, hfresh⟩ := hnone rfl
      dsimp -zeta only
      obtain ⟨a, rest, ha⟩ := hW2.top
      refine Run.bind hE02 (run_addVar hW2 { name := vt.val, ty := .str, val := .str [] } rfl ⟨rfl, rfl, trivial⟩)
        fun _ σ3 hW3 hE3 hE03 hadd => ?_
      refine Run.ro hW3 hE03 (ro_curAct hW3) fun a' ⟨rest', ha'⟩ => ?_
      rw [pure_bind]
      have hid : a'.id = a.id := by
        have := hE3.ids
        rw [ha, ha'] at this
        simp only [List.map_cons, List.cons.injEq, Prod.mk.injEq] at this
        exact this.1.1
      have hrd := hadd a rest ha (hfresh a rest ha)
      refine hjp _ _ hW3 hE03 ⟨.str [], ?_, ?_⟩ rfl
      · rw [hid]; exact hrd
      · exact ⟨rfl, rfl⟩

end Pseudo.NT
