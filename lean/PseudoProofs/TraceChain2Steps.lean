import PseudoProofs.TraceChain
import PseudoProofs.RecordLemmas
import PseudoProofs.AtomicLemmasStmt
import PseudoProofs.FileStmt
/-!
# Single evaluator steps for the extended traceback chain (`PseudoProofs/TraceChain2.lean`)

Each lemma is one step of the evaluator: "when the inner piece ends with the exception `e`, the enclosing piece ends with
the same `e`" (what is executed before the inner piece is given by hypotheses on its runs), or "the enclosing piece goes
on as the inner piece" (an equation of runs).  The positions are those `PseudoProofs/TraceChain.lean` leaves out:
conditions of WHILE / UNTIL, unary operators, `&`, `AND` / `OR`, casts, references (`resolveRef`: fields, dereference,
index expressions) read or assigned to, CASE labels, file-name / data / address expressions of the file statements, the
bounds of an array declaration, CONSTANT, the head of the FOR statement, the binding of parameters (`bindParams`:
the reference of a BYREF argument is resolved a second time there).
-/
namespace Pseudo

namespace TraceChain2

set_option linter.unusedVariables false

open ArrayLemmas C07Copy TraceLemmas TraceChain

/-! ## conditions of WHILE / UNTIL -/

theorem run_while_cond_err (f : Nat) (t : Tok) (c : Expr) (b : Block) (σ σ' : St) (e : Stop) (hsteps : σ.steps + 1 ≤ σ.stepLimit)
    (h : (evalExpr f c).run.run (tickSt σ) = (.error e, σ')) : (whileLoop (f+1) t c b).run.run σ = (.error e, σ') := by
  rw [whileLoop_succ, run_bind_ok _ _ _ _ _ (run_tick_ok t σ hsteps)]
  exact run_bind_err _ _ _ _ _ h

theorem run_repeat_cond_err (f : Nat) (t : Tok) (b : Block) (c : Expr) (σ σ1 σ' : St) (e : Stop) (hsteps : σ.steps + 1 ≤ σ.stepLimit)
    (hb : (loopBody f b).run.run (tickSt σ) = (.ok false, σ1))
    (h : (evalExpr f c).run.run σ1 = (.error e, σ')) : (repeatLoop (f+1) t b c).run.run σ = (.error e, σ') := by
  rw [repeatLoop_succ, run_bind_ok _ _ _ _ _ (run_tick_ok t σ hsteps), run_bind_ok _ _ _ _ _ hb]
  simp only [Bool.false_eq_true, if_false]
  exact run_bind_err _ _ _ _ _ h

/-! ## unary operators, casts, `&`, `AND` / `OR` -/

theorem run_neg_err (f : Nat) (t : Tok) (a : Expr) (σ σ' : St) (e : Stop)
    (h : (evalExpr f a).run.run σ = (.error e, σ')) : (evalExpr (f+1) (.neg t a)).run.run σ = (.error e, σ') := by
  rw [evalExpr.eq_def]
  dsimp only
  exact run_bind_err _ _ _ _ _ h

theorem run_not_err (f : Nat) (t : Tok) (a : Expr) (σ σ' : St) (e : Stop)
    (h : (evalExpr f a).run.run σ = (.error e, σ')) : (evalExpr (f+1) (.not t a)).run.run σ = (.error e, σ') := by
  rw [evalExpr.eq_def]
  dsimp only
  exact run_bind_err _ _ _ _ _ h

theorem run_cast_err (f : Nat) (t : Tok) (ty : PrimTy) (a : Expr) (σ σ' : St) (e : Stop)
    (h : (evalExpr f a).run.run σ = (.error e, σ')) : (evalExpr (f+1) (.cast t ty a)).run.run σ = (.error e, σ') := by
  rw [evalExpr.eq_def]
  dsimp only
  exact run_bind_err _ _ _ _ _ h

theorem run_concat_left_err (f : Nat) (t : Tok) (l r : Expr) (σ σ' : St) (e : Stop)
    (h : (evalExpr f l).run.run σ = (.error e, σ')) : (evalExpr (f+1) (.concat t l r)).run.run σ = (.error e, σ') := by
  rw [evalExpr.eq_def]
  dsimp only
  exact run_bind_err _ _ _ _ _ h

theorem run_concat_right_err (f : Nat) (t : Tok) (l r : Expr) (lv : Val) (σ σ1 σ' : St) (e : Stop)
    (hl : (evalExpr f l).run.run σ = (.ok lv, σ1))
    (h : (evalExpr f r).run.run σ1 = (.error e, σ')) : (evalExpr (f+1) (.concat t l r)).run.run σ = (.error e, σ') := by
  rw [evalExpr.eq_def]
  dsimp only
  rw [run_bind_ok _ _ _ _ _ hl]
  exact run_bind_err _ _ _ _ _ h

theorem run_logic_left_err (f : Nat) (t : Tok) (op : LogOp) (l r : Expr) (σ σ' : St) (e : Stop)
    (h : (evalExpr f l).run.run σ = (.error e, σ')) : (evalExpr (f+1) (.logic t op l r)).run.run σ = (.error e, σ') := by
  rw [evalExpr.eq_def]
  dsimp only
  exact run_bind_err _ _ _ _ _ h

/-- the right operand is evaluated unless the operator is `AND` and the left operand is `FALSE` -/
theorem run_logic_right_err (f : Nat) (t : Tok) (op : LogOp) (l r : Expr) (lv : Val) (σ σ1 σ' : St) (e : Stop)
    (hl : (evalExpr f l).run.run σ = (.ok lv, σ1)) (hns : ¬ (op = .and ∧ lv = .bool false))
    (h : (evalExpr f r).run.run σ1 = (.error e, σ')) : (evalExpr (f+1) (.logic t op l r)).run.run σ = (.error e, σ') := by
  rw [evalExpr.eq_def]
  dsimp only
  rw [run_bind_ok _ _ _ _ _ hl]
  split
  · exact absurd ⟨rfl, rfl⟩ hns
  · exact run_bind_err _ _ _ _ _ h

/-- `FALSE AND r`: `r` is not evaluated -/
theorem run_logic_short (f : Nat) (t : Tok) (l r : Expr) (σ σ1 : St)
    (hl : (evalExpr f l).run.run σ = (.ok (.bool false), σ1)) :
    (evalExpr (f+1) (.logic t .and l r)).run.run σ = (.ok (.bool false), σ1) := by
  rw [evalExpr.eq_def]
  dsimp only
  rw [run_bind_ok _ _ _ _ _ hl]
  rfl

/-! ## references -/

/-- reading a reference: a diagnostic raised in a callee (longer traceback than the stack) passes `catchNotDefined` -/
theorem run_access_ref_err (f : Nat) (t : Tok) (r : Ref) (σ σ' : St) (d : Diag)
    (hr : (resolveRef f r).run.run σ = (.error (.diag d), σ')) (hlen : σ'.acts.length < d.trace.length) :
    (evalExpr (f+1) (.access t r)).run.run σ = (.error (.diag d), σ') :=
  (C11_trace_access_site f t r σ σ' d hr).2.1 hlen

theorem run_ref_field_err (f : Nat) (t : Tok) (r : Ref) (m : Tok) (σ σ' : St) (e : Stop)
    (h : (resolveRef f r).run.run σ = (.error e, σ')) : (resolveRef (f+1) (.field t r m)).run.run σ = (.error e, σ') := by
  rw [RecordLemmas.resolveRef_field]
  exact run_bind_err _ _ _ _ _ h

theorem run_ref_deref_err (f : Nat) (t : Tok) (r : Ref) (σ σ' : St) (e : Stop)
    (h : (resolveRef f r).run.run σ = (.error e, σ')) : (resolveRef (f+1) (.deref t r)).run.run σ = (.error e, σ') := by
  rw [resolveRef_deref]
  exact run_bind_err _ _ _ _ _ h

theorem run_ref_index_base_err (f : Nat) (t : Tok) (r : Ref) (idx : List Expr) (σ σ' : St) (e : Stop)
    (h : (resolveRef f r).run.run σ = (.error e, σ')) : (resolveRef (f+1) (.index t r idx)).run.run σ = (.error e, σ') := by
  rw [resolveRef_index]
  exact run_bind_err _ _ _ _ _ h

theorem run_ref_index_err (f : Nat) (t : Tok) (r : Ref) (idx : List Expr) (h : Holder) (ety : Ty) (dims : List (Int × Int)) (cells : List Val)
    (σ σ1 σ' : St) (x : Stop) (hr : (resolveRef f r).run.run σ = (.ok h, σ1)) (harr : h.isArr = true)
    (hv : readLocP σ1 h.loc = .ok (.arr ety dims cells)) (hlen : idx.length = dims.length)
    (hi : (evalIndices f idx dims []).run.run σ1 = (.error x, σ')) :
    (resolveRef (f+1) (.index t r idx)).run.run σ = (.error x, σ') := by
  rw [resolveRef_index, run_bind_ok _ _ _ _ _ hr]
  simp only [harr, Bool.not_true, Bool.false_eq_true, if_false]
  rw [run_bind_ok _ _ _ _ _ (by rw [run_readLoc, hv])]
  simp only [hlen, bne_self_eq_false, Bool.false_eq_true, if_false]
  exact run_bind_err _ _ _ _ _ hi

theorem run_idx_head_err (f : Nat) (e : Expr) (rest : List Expr) (dims : List (Int × Int)) (acc : List Int) (σ σ' : St) (x : Stop)
    (h : (evalExpr f e).run.run σ = (.error x, σ')) : (evalIndices (f+1) (e :: rest) dims acc).run.run σ = (.error x, σ') := by
  rw [evalIndices_cons]
  exact run_bind_err _ _ _ _ _ h

theorem run_idx_next (f : Nat) (e : Expr) (rest : List Expr) (d : Int × Int) (ds : List (Int × Int)) (acc : List Int) (i : Int) (σ σ1 : St)
    (h : (evalExpr f e).run.run σ = (.ok (.int i), σ1)) (hin : inBounds d i = true) :
    (evalIndices (f+1) (e :: rest) (d :: ds) acc).run.run σ = (evalIndices f rest ds (i :: acc)).run.run σ1 := by
  rw [evalIndices_cons, run_bind_ok _ _ _ _ _ h]
  simp only [hin, Bool.not_true, Bool.false_eq_true, if_false]

/-- the target of an assignment that is not a bare name -/
theorem run_assign_target_err (f : Nat) (t : Tok) (r : Ref) (rhs : Expr) (σ σ1 σ' : St) (cur : Act) (rest : List Act)
    (rv : Val) (d : Diag) (hacts : σ.acts = cur :: rest) (hrhs : (evalExpr f rhs).run.run σ = (.ok rv, σ1))
    (hr : (resolveRef f r).run.run σ1 = (.error (.diag d), σ')) (hnv : ∀ vt, r ≠ .var vt) :
    (evalExpr (f+2) (.assign t r rhs)).run.run σ = (.error (.diag d), σ') :=
  run_assign_err _ t r rhs σ σ' _ (C11_trace_propagates_assign_target f t r rhs σ σ1 σ' cur rest rv d hacts hrhs hr hnv)

/-- the pointer assignment `p <- ^r`: the reference on the left -/
theorem run_ptrAssign_left_err (f : Nat) (t : Tok) (r v : Ref) (σ σ' : St) (e : Stop)
    (h : (resolveRef f r).run.run σ = (.error e, σ')) : (evalExpr (f+1) (.ptrAssign t r v)).run.run σ = (.error e, σ') := by
  rw [evalExpr.eq_def]
  dsimp only
  exact run_bind_err _ _ _ _ _ h

theorem run_ptrAssign_right_err (f : Nat) (t : Tok) (r v : Ref) (ph : Holder) (σ σ1 σ' : St) (e : Stop)
    (hp : (resolveRef f r).run.run σ = (.ok ph, σ1)) (hna : ph.isArr = false)
    (h : (resolveRef f v).run.run σ1 = (.error e, σ')) : (evalExpr (f+1) (.ptrAssign t r v)).run.run σ = (.error e, σ') := by
  rw [evalExpr.eq_def]
  dsimp only
  rw [run_bind_ok _ _ _ _ _ hp]
  simp only [hna, Bool.false_eq_true, if_false]
  exact run_bind_err _ _ _ _ _ h

/-! ## CASE labels -/

theorem run_case_label_err (f : Nat) (v : Val) (cl : Clause) (rest : List Clause) (σ σ' : St) (e : Stop)
    (h : (caseMatch f v cl).run.run σ = (.error e, σ')) : (caseClauses (f+1) v (cl :: rest)).run.run σ = (.error e, σ') := by
  rw [caseClauses_cons]
  exact run_bind_err _ _ _ _ _ h

theorem run_caseMatch_eq_err (f : Nat) (v : Val) (e : Expr) (b : Block) (σ σ' : St) (x : Stop)
    (h : (evalExpr f e).run.run σ = (.error x, σ')) : (caseMatch (f+1) v (.eq e b)).run.run σ = (.error x, σ') := by
  rw [caseMatch.eq_def]
  dsimp only
  exact run_bind_err _ _ _ _ _ h

/-- a range label `lo TO hi` is evaluated only for a numeric selector -/
def numeric (v : Val) : Prop := (∃ n, v = .int n) ∨ (∃ x, v = .real x)

theorem run_caseMatch_lo_err (f : Nat) (v : Val) (lo hi : Expr) (b : Block) (σ σ' : St) (x : Stop) (hv : numeric v)
    (h : (evalExpr f lo).run.run σ = (.error x, σ')) : (caseMatch (f+1) v (.range lo hi b)).run.run σ = (.error x, σ') := by
  rw [caseMatch.eq_def]
  rcases hv with ⟨n, rfl⟩ | ⟨y, rfl⟩
  · dsimp only
    exact run_bind_err _ _ _ _ _ h
  · dsimp only
    exact run_bind_err _ _ _ _ _ h

theorem run_caseMatch_hi_err (f : Nat) (v l : Val) (lo hi : Expr) (b : Block) (σ σ1 σ' : St) (x : Stop) (hv : numeric v)
    (hl : (evalExpr f lo).run.run σ = (.ok l, σ1)) (hlv : numeric l)
    (h : (evalExpr f hi).run.run σ1 = (.error x, σ')) : (caseMatch (f+1) v (.range lo hi b)).run.run σ = (.error x, σ') := by
  rw [caseMatch.eq_def]
  rcases hv with ⟨n, rfl⟩ | ⟨y, rfl⟩ <;> rcases hlv with ⟨n', rfl⟩ | ⟨y', rfl⟩
  all_goals
    dsimp only
    rw [run_bind_ok _ _ _ _ _ hl]
    dsimp only
    rw [run_bind_ok _ _ _ _ _ (show (pure _ : M Float).run.run σ1 = (.ok _, σ1) from rfl)]
    exact run_bind_err _ _ _ _ _ h

/-! ## INPUT -/

theorem execStmt_input' (f : Nat) (t : Tok) (r : Ref) :
    execStmt (f+1) (.input t r) = (do
        tick t
        let target ← catchNotDefined (resolveRef f r >>= fun h => pure (some h)) fun e => do
          match r with
          | .var vt =>
            if ← isIdentifierType vt then throw e
            else if (← get).pedantic then pedErr vt .pedInput
            else pure none
          | _ => throw e
        let h ← match target with
          | some h => if h.isArr then rtErr t .arrayDirect else pure h
          | none =>
            match r with
            | .var vt =>
              addVar { name := vt.val, ty := .str, val := .str [] }
              let a ← curAct
              pure { loc := { act := a.id, isArr := false, name := vt.val, path := [] }, isArr := false, ty := .str, name := vt.val : Holder }
            | _ => throw (.crash .other)
        if ← locIsConst h.loc then rtErr t .constAssign
        let (line, _) ← getLine
        match inputConvert h.ty line with
        | some v => writeLoc t h.loc v; pure .none
        | none => rtErr t .nonPrimitive) := by
  rw [execStmt.eq_def]; rfl

theorem run_input_ref_err (f : Nat) (t : Tok) (r : Ref) (σ σ' : St) (d : Diag) (hsteps : σ.steps + 1 ≤ σ.stepLimit)
    (hr : (resolveRef f r).run.run (tickSt σ) = (.error (.diag d), σ')) (hlen : σ'.acts.length < d.trace.length) :
    (execStmt (f+1) (.input t r)).run.run σ = (.error (.diag d), σ') := by
  rw [execStmt_input', run_bind_ok _ _ _ _ _ (run_tick_ok t σ hsteps)]
  apply run_bind_err
  exact C11_trace_propagates_catchNotDefined_callee _ _ _ _ d (run_bind_err _ _ _ _ _ hr) hlen

/-! ## file statements -/

/-- the statements that start with the evaluation of a file name: token and file-name expression -/
def fileStmtOf : Stmt → Option (Tok × Expr)
  | .openFile t fn _ => some (t, fn)
  | .readFile t fn _ => some (t, fn)
  | .writeFile t fn _ => some (t, fn)
  | .closeFile t fn => some (t, fn)
  | .getRecord t fn _ => some (t, fn)
  | .putRecord t fn _ => some (t, fn)
  | _ => none

theorem run_fileStmt_name_err (f : Nat) (s : Stmt) (t : Tok) (fn : Expr) (σ σ' : St) (e : Stop) (hs : fileStmtOf s = some (t, fn))
    (hsteps : σ.steps + 1 ≤ σ.stepLimit)
    (h : (fileName f t fn).run.run (tickSt σ) = (.error e, σ')) : (execStmt (f+1) s).run.run σ = (.error e, σ') := by
  cases s <;> simp only [fileStmtOf, Option.some.injEq, Prod.mk.injEq, reduceCtorEq] at hs
  all_goals obtain ⟨rfl, rfl⟩ := hs
  · rw [FileStmt.execStmt_openFile, run_bind_ok _ _ _ _ _ (run_tick_ok _ σ hsteps)]; exact run_bind_err _ _ _ _ _ h
  · rw [FileStmt.execStmt_readFile, run_bind_ok _ _ _ _ _ (run_tick_ok _ σ hsteps)]; exact run_bind_err _ _ _ _ _ h
  · rw [FileStmt.execStmt_writeFile, run_bind_ok _ _ _ _ _ (run_tick_ok _ σ hsteps)]; exact run_bind_err _ _ _ _ _ h
  · rw [FileStmt.execStmt_closeFile, run_bind_ok _ _ _ _ _ (run_tick_ok _ σ hsteps)]; exact run_bind_err _ _ _ _ _ h
  · rw [FileStmt.execStmt_getRecord, run_bind_ok _ _ _ _ _ (run_tick_ok _ σ hsteps)]; exact run_bind_err _ _ _ _ _ h
  · rw [FileStmt.execStmt_putRecord, run_bind_ok _ _ _ _ _ (run_tick_ok _ σ hsteps)]; exact run_bind_err _ _ _ _ _ h

theorem run_fileName_err (f : Nat) (t : Tok) (e : Expr) (σ σ' : St) (x : Stop)
    (h : (evalExpr f e).run.run σ = (.error x, σ')) : (fileName (f+1) t e).run.run σ = (.error x, σ') := by
  rw [FileStmt.fileName_succ]
  exact run_bind_err _ _ _ _ _ h

/-- WRITEFILE: the data expression (the file name is evaluated, the file is open for writing) -/
theorem run_writeFile_data_err (f : Nat) (t : Tok) (fn e : Expr) (name : Str) (σ σ1 σ' : St) (x : Stop) (hsteps : σ.steps + 1 ≤ σ.stepLimit)
    (hn : (fileName f t fn).run.run (tickSt σ) = (.ok name, σ1)) (hpre : fpre (FileStmt.fileSt σ1) (.write name []) = .ok ())
    (h : (evalExpr f e).run.run σ1 = (.error x, σ')) : (execStmt (f+1) (.writeFile t fn e)).run.run σ = (.error x, σ') := by
  rw [FileStmt.execStmt_writeFile, run_bind_ok _ _ _ _ _ (run_tick_ok _ σ hsteps), run_bind_ok _ _ _ _ _ hn,
    run_bind_ok _ _ _ _ _ (FileStmt.run_filePre_ok t _ σ1 hpre)]
  exact run_bind_err _ _ _ _ _ h

theorem run_seek_addr_err (f : Nat) (t : Tok) (fn addr : Expr) (σ σ' : St) (x : Stop) (hsteps : σ.steps + 1 ≤ σ.stepLimit)
    (h : (evalExpr f addr).run.run (tickSt σ) = (.error x, σ')) : (execStmt (f+1) (.seek t fn addr)).run.run σ = (.error x, σ') := by
  rw [FileStmt.execStmt_seek, run_bind_ok _ _ _ _ _ (run_tick_ok _ σ hsteps)]
  exact run_bind_err _ _ _ _ _ h

theorem run_seek_name_err (f : Nat) (t : Tok) (fn addr : Expr) (a : Int) (σ σ1 σ' : St) (x : Stop) (hsteps : σ.steps + 1 ≤ σ.stepLimit)
    (ha : (evalExpr f addr).run.run (tickSt σ) = (.ok (.int a), σ1)) (hge : ¬ a < 1)
    (h : (fileName f t fn).run.run σ1 = (.error x, σ')) : (execStmt (f+1) (.seek t fn addr)).run.run σ = (.error x, σ') := by
  rw [FileStmt.execStmt_seek, run_bind_ok _ _ _ _ _ (run_tick_ok _ σ hsteps), run_bind_ok _ _ _ _ _ ha]
  simp only [hge, if_false]
  exact run_bind_err _ _ _ _ _ h

/-! ## array declarations, CONSTANT -/

theorem run_declareArr_bounds_err (f : Nat) (t : Tok) (ids : List Tok) (ty : Tok) (bounds : List (Expr × Expr)) (a : Act) (r : List Act)
    (σ σ' : St) (x : Stop) (hsteps : σ.steps + 1 ≤ σ.stepLimit) (hacts : σ.acts = a :: r)
    (hnew : ids.any (fun id => (findSlot a.arrs id.val).isSome) = false)
    (h : (evalBounds f bounds []).run.run (tickSt σ) = (.error x, σ')) :
    (execStmt (f+1) (.declareArr t ids ty bounds)).run.run σ = (.error x, σ') := by
  have hacts' : (tickSt σ).acts = a :: r := hacts
  rw [execStmt_declareArr, run_bind_ok _ _ _ _ _ (run_tick_ok _ σ hsteps), run_bind_ok _ _ _ _ _ (run_curAct_cons _ a r hacts')]
  simp only [hnew, Bool.false_eq_true, if_false]
  exact run_bind_err _ _ _ _ _ h

theorem run_bounds_lo_err (f : Nat) (lo hi : Expr) (rest : List (Expr × Expr)) (acc : List (Int × Int)) (σ σ' : St) (x : Stop)
    (h : (evalExpr f lo).run.run σ = (.error x, σ')) : (evalBounds (f+1) ((lo, hi) :: rest) acc).run.run σ = (.error x, σ') := by
  rw [evalBounds_cons]
  exact run_bind_err _ _ _ _ _ h

theorem run_bounds_hi_err (f : Nat) (lo hi : Expr) (rest : List (Expr × Expr)) (acc : List (Int × Int)) (a : Int) (σ σ1 σ' : St) (x : Stop)
    (hl : (evalExpr f lo).run.run σ = (.ok (.int a), σ1))
    (h : (evalExpr f hi).run.run σ1 = (.error x, σ')) : (evalBounds (f+1) ((lo, hi) :: rest) acc).run.run σ = (.error x, σ') := by
  rw [evalBounds_cons, run_bind_ok _ _ _ _ _ hl]
  exact run_bind_err _ _ _ _ _ h

theorem run_bounds_next (f : Nat) (lo hi : Expr) (rest : List (Expr × Expr)) (acc : List (Int × Int)) (a b : Int) (σ σ1 σ2 : St)
    (hl : (evalExpr f lo).run.run σ = (.ok (.int a), σ1)) (hh : (evalExpr f hi).run.run σ1 = (.ok (.int b), σ2)) (hab : ¬ b < a) :
    (evalBounds (f+1) ((lo, hi) :: rest) acc).run.run σ = (evalBounds f rest ((a, b) :: acc)).run.run σ2 := by
  rw [evalBounds_cons, run_bind_ok _ _ _ _ _ hl]
  dsimp only
  rw [run_bind_ok _ _ _ _ _ hh]
  simp only [hab, if_false]

theorem run_const_err (f : Nat) (t name : Tok) (e : Expr) (σ σ' : St) (x : Stop) (hsteps : σ.steps + 1 ≤ σ.stepLimit)
    (h : (evalExpr f e).run.run (tickSt σ) = (.error x, σ')) : (execStmt (f+1) (.const t name e)).run.run σ = (.error x, σ') := by
  rw [execStmt_const, run_bind_ok _ _ _ _ _ (run_tick_ok _ σ hsteps)]
  exact run_bind_err _ _ _ _ _ h

/-! ## the head of the FOR statement -/

/-- the iterator of a FOR statement: an existing variable (its cell and type) or a new INTEGER variable -/
def forIter (it : Tok) : M (Loc × Ty) := do
  match ← lookupVar it.val with
  | some (a, s) =>
    match s.ref with
    | some l => pure (l, s.ty)
    | none => pure ({ act := a.id, isArr := false, name := s.name, path := [] : Loc }, s.ty)
  | none =>
    addVar { name := it.val, ty := .int, val := .int 0 }
    let a ← curAct
    pure ({ act := a.id, isArr := false, name := it.val, path := [] : Loc }, Ty.int)

theorem forIter_bind {β : Type} (it : Tok) (K : Loc × Ty → M β) :
    (forIter it >>= K) = (lookupVar it.val >>= fun r =>
      match r with
      | some (a, s) =>
        match s.ref with
        | some l => pure (l, s.ty) >>= K
        | none => pure ({ act := a.id, isArr := false, name := s.name, path := [] : Loc }, s.ty) >>= K
      | none =>
        addVar { name := it.val, ty := .int, val := .int 0 } >>= fun _ => curAct >>= fun a =>
          pure ({ act := a.id, isArr := false, name := it.val, path := [] : Loc }, Ty.int) >>= K) := by
  unfold forIter
  rw [bind_assoc]
  congr 1
  funext r
  cases r with
  | none => simp only [bind_assoc]
  | some p =>
    obtain ⟨a, s⟩ := p
    dsimp only
    cases s.ref <;> rfl

theorem execStmt_for (f : Nat) (t it : Tok) (start stop : Expr) (step : Option Expr) (b : Block) :
    execStmt (f+1) (.for t it start stop step b) = (do
      tick t
      let h ← forIter it
      if h.2 != .int then rtErr t .typeMismatch
      else
        if ← locIsConst h.1 then rtErr t .constAssign
        let sv ← evalExpr f start
        match sv with
        | .int a =>
          let ev ← evalExpr f stop
          match ev with
          | .int bnd =>
            let stepV ← match step with
              | none => pure (1 : Int)
              | some se =>
                match ← evalExpr f se with
                | .int k => pure k
                | _ => rtErr t .typeMismatch
            writeLoc t h.1 (.int a)
            forLoop f t h.1 bnd stepV b
            pure .none
          | _ => rtErr t .typeMismatch
        | _ => rtErr t .typeMismatch) := by
  rw [execStmt.eq_def]
  dsimp only
  rw [forIter_bind]
  rfl

/-- the FOR statement after its iterator `l` has been found: start value, bound, step, first assignment, iterations -/
def forRest (f : Nat) (t : Tok) (l : Loc) (start stop : Expr) (step : Option Expr) (b : Block) : M Val := do
        let sv ← evalExpr f start
        match sv with
        | .int a =>
          let ev ← evalExpr f stop
          match ev with
          | .int bnd =>
            let stepV ← match step with
              | none => pure (1 : Int)
              | some se =>
                match ← evalExpr f se with
                | .int k => pure k
                | _ => rtErr t .typeMismatch
            writeLoc t l (.int a)
            forLoop f t l bnd stepV b
            pure .none
          | _ => rtErr t .typeMismatch
        | _ => rtErr t .typeMismatch

/-- the run of a FOR statement up to the evaluation of the start value: one step is counted, the iterator is the
    non-constant INTEGER cell `l` -/
theorem run_for_prefix (f : Nat) (t it : Tok) (start stop : Expr) (step : Option Expr) (b : Block) (l : Loc) (σ σ1 : St)
    (hsteps : σ.steps + 1 ≤ σ.stepLimit) (hit : (forIter it).run.run (tickSt σ) = (.ok (l, .int), σ1))
    (hconst : locConstP σ1 l = false) :
    (execStmt (f+1) (.for t it start stop step b)).run.run σ = (forRest f t l start stop step b).run.run σ1 := by
  rw [execStmt_for, run_bind_ok _ _ _ _ _ (run_tick_ok _ σ hsteps), run_bind_ok _ _ _ _ _ hit]
  simp only [bne_self_eq_false, Bool.false_eq_true, if_false]
  rw [run_bind_ok _ _ _ _ _ (run_locIsConst l σ1), hconst]
  simp only [Bool.false_eq_true, if_false]
  rfl

theorem run_forRest_start_err (f : Nat) (t : Tok) (l : Loc) (start stop : Expr) (step : Option Expr) (b : Block) (σ σ' : St) (x : Stop)
    (h : (evalExpr f start).run.run σ = (.error x, σ')) : (forRest f t l start stop step b).run.run σ = (.error x, σ') := by
  unfold forRest
  exact run_bind_err _ _ _ _ _ h

theorem run_forRest_stop_err (f : Nat) (t : Tok) (l : Loc) (start stop : Expr) (step : Option Expr) (b : Block) (a : Int) (σ σ1 σ' : St) (x : Stop)
    (hs : (evalExpr f start).run.run σ = (.ok (.int a), σ1))
    (h : (evalExpr f stop).run.run σ1 = (.error x, σ')) : (forRest f t l start stop step b).run.run σ = (.error x, σ') := by
  unfold forRest
  rw [run_bind_ok _ _ _ _ _ hs]
  exact run_bind_err _ _ _ _ _ h

theorem run_forRest_step_err (f : Nat) (t : Tok) (l : Loc) (start stop se : Expr) (b : Block) (a bnd : Int) (σ σ1 σ2 σ' : St) (x : Stop)
    (hs : (evalExpr f start).run.run σ = (.ok (.int a), σ1)) (he : (evalExpr f stop).run.run σ1 = (.ok (.int bnd), σ2))
    (h : (evalExpr f se).run.run σ2 = (.error x, σ')) : (forRest f t l start stop (some se) b).run.run σ = (.error x, σ') := by
  unfold forRest
  rw [run_bind_ok _ _ _ _ _ hs]
  dsimp only
  rw [run_bind_ok _ _ _ _ _ he]
  exact run_bind_err _ _ _ _ _ h

/-- the step value of a FOR statement: 1 without `STEP`, otherwise the INTEGER value of the expression -/
def StepVal (f : Nat) (step : Option Expr) (k : Int) (σ σ' : St) : Prop :=
  match step with
  | none => k = 1 ∧ σ' = σ
  | some se => (evalExpr f se).run.run σ = (.ok (.int k), σ')

theorem StepVal.mono {f g : Nat} (hfg : f ≤ g) {step : Option Expr} {k : Int} {σ σ' : St} (h : StepVal f step k σ σ') :
    StepVal g step k σ σ' := by
  cases step with
  | none => exact h
  | some se => exact ok_mono ((fuel_mono_all hfg).evalExpr se) h

theorem StepVal.rtrace {f : Nat} {step : Option Expr} {k : Int} {σ σ' : St} (h : StepVal f step k σ σ') : RTrace σ σ' := by
  cases step with
  | none => obtain ⟨_, rfl⟩ := h; exact ⟨rfl, rfl⟩
  | some se => exact RTrace_evalExpr h

theorem run_forRest_loop (f : Nat) (t : Tok) (l : Loc) (start stop : Expr) (step : Option Expr) (b : Block) (a bnd k : Int)
    (σ σ1 σ2 σ3 σ4 σ' : St) (x : Stop)
    (hs : (evalExpr f start).run.run σ = (.ok (.int a), σ1)) (he : (evalExpr f stop).run.run σ1 = (.ok (.int bnd), σ2))
    (hk : StepVal f step k σ2 σ3) (hw : (writeLoc t l (.int a)).run.run σ3 = (.ok ⟨⟩, σ4))
    (h : (forLoop f t l bnd k b).run.run σ4 = (.error x, σ')) : (forRest f t l start stop step b).run.run σ = (.error x, σ') := by
  unfold forRest
  rw [run_bind_ok _ _ _ _ _ hs]
  dsimp only
  rw [run_bind_ok _ _ _ _ _ he]
  cases step with
  | none =>
    obtain ⟨rfl, rfl⟩ := hk
    dsimp only
    rw [run_bind_ok _ _ _ _ _ (show (pure (1 : Int) : M Int).run.run _ = (.ok 1, _) from rfl), run_bind_ok _ _ _ _ _ hw]
    exact run_bind_err _ _ _ _ _ h
  | some se =>
    have hk' : (evalExpr f se).run.run σ2 = (.ok (.int k), σ3) := hk
    dsimp only
    rw [run_bind_ok _ _ _ _ _ hk']
    dsimp only
    rw [run_bind_ok _ _ _ _ _ (show (pure k : M Int).run.run σ3 = (.ok k, σ3) from rfl), run_bind_ok _ _ _ _ _ hw]
    exact run_bind_err _ _ _ _ _ h

/-! ## binding of parameters (BYREF arguments are resolved a second time) -/

theorem bindParams_cons' (f : Nat) (t : Tok) (pn : Str) (pty : Ty) (byRef : Bool) (ps : List (Str × Ty × Bool))
    (e : Expr) (es : List Expr) (v : Val) (vs : List Val) (acc : List Slot) :
    bindParams (f+1) t ((pn, pty, byRef) :: ps) (e :: es) (v :: vs) acc = (do
      let v' := if byRef then v else implicitCast pty v
      if v'.ty != pty then rtErr t .invalidArgs
      else if byRef then
        match e with
        | .access _ r =>
          let h ← resolveRef f r
          if h.isArr then rtErr t .arrayDirect
          else if h.ty != pty then rtErr t .invalidArgs
          else
            let c ← locIsConst h.loc
            bindParams f t ps es vs ({ name := pn, ty := h.ty, isConst := c, val := .none, ref := some h.loc } :: acc)
        | _ => rtErr t .byrefArg
      else
        bindParams f t ps es vs ({ name := pn, ty := pty, val := v' } :: acc)) := by
  rw [bindParams.eq_def]; rfl

/-- a BYREF parameter: the reference of the argument contains the call -/
theorem run_bind_ref_err (f : Nat) (t : Tok) (pn : Str) (pty : Ty) (ps : List (Str × Ty × Bool)) (at' : Tok) (r : Ref) (es : List Expr)
    (v : Val) (vs : List Val) (acc : List Slot) (σ σ' : St) (x : Stop) (hty : v.ty = pty)
    (h : (resolveRef f r).run.run σ = (.error x, σ')) :
    (bindParams (f+1) t ((pn, pty, true) :: ps) (.access at' r :: es) (v :: vs) acc).run.run σ = (.error x, σ') := by
  rw [bindParams_cons']
  simp only [if_true, hty, bne_self_eq_false, Bool.false_eq_true, if_false]
  exact run_bind_err _ _ _ _ _ h

/-- a parameter passed by value is bound -/
theorem run_bind_next_val (f : Nat) (t : Tok) (pn : Str) (pty : Ty) (ps : List (Str × Ty × Bool)) (e : Expr) (es : List Expr)
    (v : Val) (vs : List Val) (acc : List Slot) (hty : (implicitCast pty v).ty = pty) :
    bindParams (f+1) t ((pn, pty, false) :: ps) (e :: es) (v :: vs) acc =
      bindParams f t ps es vs ({ name := pn, ty := pty, val := implicitCast pty v } :: acc) := by
  rw [bindParams_cons']
  simp only [Bool.false_eq_true, if_false, hty, bne_self_eq_false]

/-- a BYREF parameter is bound -/
theorem run_bind_next_ref (f : Nat) (t : Tok) (pn : Str) (pty : Ty) (ps : List (Str × Ty × Bool)) (at' : Tok) (r : Ref) (es : List Expr)
    (v : Val) (vs : List Val) (acc : List Slot) (h : Holder) (σ σ1 : St) (hty : v.ty = pty)
    (hr : (resolveRef f r).run.run σ = (.ok h, σ1)) (hna : h.isArr = false) (hhty : h.ty = pty) :
    (bindParams (f+1) t ((pn, pty, true) :: ps) (.access at' r :: es) (v :: vs) acc).run.run σ =
      (bindParams f t ps es vs ({ name := pn, ty := h.ty, isConst := locConstP σ1 h.loc, val := .none, ref := some h.loc } :: acc)).run.run σ1 := by
  rw [bindParams_cons']
  simp only [if_true, hty, bne_self_eq_false, Bool.false_eq_true, if_false]
  rw [run_bind_ok _ _ _ _ _ hr]
  simp only [hna, hhty, bne_self_eq_false, Bool.false_eq_true, if_false]
  rw [run_bind_ok _ _ _ _ _ (run_locIsConst h.loc σ1)]

/-- `CALL name(args)`: the binding of the parameters fails -/
theorem run_callProc_bind_err (f : Nat) (t : Tok) (name : Str) (args : List Expr) (σ σ1 σ' : St) (pd : ProcDef)
    (vals : List Val) (cur : Act) (rest : List Act) (x : Stop)
    (hpd : σ.procs.find? (·.name == name) = some pd)
    (hargs : (evalArgs f args []).run.run σ = (.ok vals, σ1))
    (hlen : vals.length = pd.params.length)
    (hdepth : σ1.depth + 1 ≤ σ1.depthLimit)
    (hcur : σ1.acts = cur :: rest)
    (hbind : (bindParams f t pd.params args vals []).run.run σ1 = (.error x, σ')) :
    (callProc (f+1) t name args).run.run σ = (.error x, σ') := by
  rw [callProc_succ, run_bind_ok _ _ _ _ _ (run_get σ), hpd]
  dsimp only
  rw [run_bind_ok _ _ _ _ _ hargs]
  have hl : (vals.length != pd.params.length) = false := by simp [hlen]
  simp only [hl, Bool.false_eq_true, if_false]
  rw [run_bind_ok _ _ _ _ _ (run_get σ1), run_bind_ok _ _ _ _ _ (run_get σ1)]
  have hd : ¬ (σ1.depth + 1 > σ1.depthLimit) := by omega
  simp only [hd, if_false]
  rw [run_bind_ok _ _ _ _ _ (run_curAct_cons σ1 cur rest hcur)]
  exact run_bind_err _ _ _ _ _ hbind

theorem run_call_bind_err (f : Nat) (t : Tok) (name : Str) (args : List Expr) (σ σ1 σ' : St) (pd : ProcDef)
    (vals : List Val) (cur : Act) (rest : List Act) (x : Stop) (hsteps : σ.steps + 1 ≤ σ.stepLimit)
    (hpd : σ.procs.find? (·.name == name) = some pd)
    (hargs : (evalArgs f args []).run.run (tickSt σ) = (.ok vals, σ1))
    (hlen : vals.length = pd.params.length)
    (hdepth : σ1.depth + 1 ≤ σ1.depthLimit)
    (hcur : σ1.acts = cur :: rest)
    (hbind : (bindParams f t pd.params args vals []).run.run σ1 = (.error x, σ')) :
    (execStmt (f+2) (.call t name args)).run.run σ = (.error x, σ') := by
  rw [execStmt_call, run_bind_ok _ _ _ _ _ (run_tick_ok t σ hsteps)]
  apply run_bind_err
  exact run_callProc_bind_err f t name args (tickSt σ) σ1 σ' pd vals cur rest x hpd hargs hlen hdepth hcur hbind

/-- a function call: the binding of the parameters fails -/
theorem run_callFun_bind_err (f : Nat) (t : Tok) (args : List Expr) (σ σ1 σ' : St) (fd : FunDef)
    (vals : List Val) (cur : Act) (rest : List Act) (x : Stop)
    (hfd : funLookup σ t.val = some fd)
    (hargs : (evalArgs f args []).run.run σ = (.ok vals, σ1))
    (hlen : vals.length = fd.params.length)
    (hdepth : σ1.depth + 1 ≤ σ1.depthLimit)
    (hcur : σ1.acts = cur :: rest)
    (hbind : (bindParams f t fd.params args vals []).run.run σ1 = (.error x, σ')) :
    (evalExpr (f+2) (.call t args)).run.run σ = (.error x, σ') := by
  rw [evalExpr_call', callFun_succ, run_bind_ok _ _ _ _ _ (run_get σ), hfd]
  dsimp only
  rw [run_bind_ok _ _ _ _ _ hargs]
  have hl : (vals.length != fd.params.length) = false := by simp [hlen]
  simp only [hl, Bool.false_eq_true, if_false]
  rw [run_bind_ok _ _ _ _ _ (run_get σ1), run_bind_ok _ _ _ _ _ (run_get σ1)]
  have hd : ¬ (σ1.depth + 1 > σ1.depthLimit) := by omega
  simp only [hd, if_false]
  rw [run_bind_ok _ _ _ _ _ (run_curAct_cons σ1 cur rest hcur)]
  exact run_bind_err _ _ _ _ _ hbind

end TraceChain2

end Pseudo
