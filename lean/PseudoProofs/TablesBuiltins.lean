import PseudoProofs.TablesBase
namespace Pseudo

/-- E5: names, parameter names / types and return types of the built-in functions, in registration order -/
theorem builtins_agree : Generated.builtinsAvailable = true → Generated.builtins = builtinTable := by decide


end Pseudo
