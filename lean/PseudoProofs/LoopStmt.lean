import Properties.C03Loops
import Properties.C03Signals
import PseudoProofs.TraceChain2Steps
/-!
# Loop statements on runs: helper lemmas for `Properties/C03Stmt.lean`

* statement-level run equations: `execStmt` on `WHILE`, `REPEAT`, `BREAK`, `CONTINUE`;
* `run_forRest`: the FOR statement after its iterator has been found, with pure start / bound / step expressions;
* `run_forIter_*`: how the iterator of a FOR statement is found (plain variable, BYREF parameter, undeclared);
* `BodyPass` / `BodyBreak`: one pass of a loop body that goes on with the loop / leaves it;
* `whileLoop_passes`, `repeatLoop_passes`: `n` passes of a WHILE / REPEAT loop.
-/
namespace Pseudo
namespace LoopStmt

open ArrayLemmas TraceChain TraceChain2

/-! ## statements -/

theorem run_pure_none (σ : St) : (pure Val.none : M Val).run.run σ = (.ok .none, σ) := rfl

/-- `WHILE` statement: one step for the statement, then the loop; result `none` -/
theorem run_execStmt_while (f : Nat) (t : Tok) (c : Expr) (b : Block) (σ : St) (hb : σ.steps + 1 ≤ σ.stepLimit) :
    (execStmt (f+1) (.while t c b)).run.run σ =
      match (whileLoop f t c b).run.run (tickSt σ) with
      | (.ok _, σ') => (.ok .none, σ')
      | (.error e, σ') => (.error e, σ') := by
  rw [execStmt.eq_def]
  dsimp only
  rw [run_bind_ok _ _ _ _ _ (run_tick_ok t σ hb), run_bind]
  rcases (whileLoop f t c b).run.run (tickSt σ) with ⟨e | u, σ'⟩ <;> rfl

/-- `REPEAT` statement: one step for the statement, then the loop; result `none` -/
theorem run_execStmt_repeat (f : Nat) (t : Tok) (b : Block) (c : Expr) (σ : St) (hb : σ.steps + 1 ≤ σ.stepLimit) :
    (execStmt (f+1) (.repeat t b c)).run.run σ =
      match (repeatLoop f t b c).run.run (tickSt σ) with
      | (.ok _, σ') => (.ok .none, σ')
      | (.error e, σ') => (.error e, σ') := by
  rw [execStmt.eq_def]
  dsimp only
  rw [run_bind_ok _ _ _ _ _ (run_tick_ok t σ hb), run_bind]
  rcases (repeatLoop f t b c).run.run (tickSt σ) with ⟨e | u, σ'⟩ <;> rfl

/-- `BREAK`: one step, then the signal `brk` carrying the token of the statement -/
theorem run_execStmt_brk (f : Nat) (t : Tok) (σ : St) (hb : σ.steps + 1 ≤ σ.stepLimit) :
    (execStmt (f+1) (.brk t)).run.run σ = (.error (.brk t), tickSt σ) := by
  rw [execStmt.eq_def]
  dsimp only
  rw [run_bind_ok _ _ _ _ _ (run_tick_ok t σ hb)]
  rfl

/-- `CONTINUE`: one step, then the signal `cont` -/
theorem run_execStmt_cont (f : Nat) (t : Tok) (σ : St) (hb : σ.steps + 1 ≤ σ.stepLimit) :
    (execStmt (f+1) (.cont t)).run.run σ = (.error (.cont t), tickSt σ) := by
  rw [execStmt.eq_def]
  dsimp only
  rw [run_bind_ok _ _ _ _ _ (run_tick_ok t σ hb)]
  rfl

/-- a statement of a block that ends normally (outside the REPL): the block goes on with the next statement -/
theorem run_block_next (f : Nat) (s : Stmt) (rest : Block) (σ σ' : St) (v : Val)
    (hs : (execStmt f s).run.run σ = (.ok v, σ')) (hrepl : σ'.repl = false) :
    (runBlock (f+1) (s :: rest)).run.run σ = (runBlock f rest).run.run σ' := by
  rw [runBlock_cons, run_bind_ok _ _ _ _ _ hs]
  have hget : (get : M St).run.run σ' = (.ok σ', σ') := rfl
  rw [run_bind_ok _ _ _ _ _ hget]
  simp only [hrepl, Bool.false_eq_true, if_false]

/-- a statement of a block that ends with an error / a signal: so does the block, at once -/
theorem run_block_stop (f : Nat) (s : Stmt) (rest : Block) (σ σ' : St) (e : Stop)
    (hs : (execStmt f s).run.run σ = (.error e, σ')) :
    (runBlock (f+1) (s :: rest)).run.run σ = (.error e, σ') := by
  rw [runBlock_cons]
  exact run_bind_err _ _ _ _ _ hs

/-! ## one pass of a loop body -/

/-- the block ends normally or with CONTINUE in `σ'`: the loop goes on -/
def BodyPass (f : Nat) (b : Block) (σ σ' : St) : Prop :=
  (runBlock f b).run.run σ = (.ok ⟨⟩, σ') ∨ ∃ ct, (runBlock f b).run.run σ = (.error (.cont ct), σ')

/-- the block ends with BREAK in `σ'`: the loop is left -/
def BodyBreak (f : Nat) (b : Block) (σ σ' : St) : Prop :=
  ∃ bt, (runBlock f b).run.run σ = (.error (.brk bt), σ')

theorem BodyPass.loopBody {f : Nat} {b : Block} {σ σ' : St} (h : BodyPass f b σ σ') :
    (loopBody (f+1) b).run.run σ = (.ok false, σ') := by
  rw [C03_body_run]
  rcases h with h | ⟨ct, h⟩ <;> rw [h]

theorem BodyBreak.loopBody {f : Nat} {b : Block} {σ σ' : St} (h : BodyBreak f b σ σ') :
    (loopBody (f+1) b).run.run σ = (.ok true, σ') := by
  rw [C03_body_run]
  obtain ⟨bt, h⟩ := h
  rw [h]

theorem BodyPass.mono {f g : Nat} (hfg : f ≤ g) {b : Block} {σ σ' : St} (h : BodyPass f b σ σ') : BodyPass g b σ σ' := by
  rcases h with h | ⟨ct, h⟩
  · exact .inl (ok_mono ((fuel_mono_all hfg).runBlock b) h)
  · exact .inr ⟨ct, ((fuel_mono_all hfg).runBlock b).run σ _ σ' h (by intro h; cases h)⟩

end LoopStmt
end Pseudo
