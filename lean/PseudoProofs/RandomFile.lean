import PseudoProofs.ReadLoopRun
/-!
# Random files on the evaluator: SEEK / PUTRECORD / GETRECORD / CLOSEFILE + OPENFILE as operations on a sequence of values

`Properties/C14.lean` proves that the RANDOM part of the pure file machine `fstep` refines `Seq` (record texts + cursor);
`Properties/C16Exec.lean` proves that each file statement of `execStmt` is `fstep`, lifted. This file composes the two and
adds the record codec (`Properties/C13.lean`), so that a block of random-file statements can be read as a run of an abstract
machine over a sequence of VALUES and the variables of the current activation:

* `RecClass defs`: a set `T` of values that read back from their record text into any variable holding a value of the set
  (`RecClass.ofStorable`: any set of `Storable` values that are pairwise `SameShape`; `RecClass.int`, `RecClass.str`).
* `VSeq` (values + cursor), `VSeq.toSeq` (the `Seq` of `C14`: the record texts `Codec.dump v`), `ROp` (SEEK with a literal
  address, PUTRECORD / GETRECORD with a variable, and `reopen` = CLOSEFILE ; OPENFILE … FOR RANDOM), `specStep` / `specRun`:
  the abstract machine; `trace`: the `SOp` history the run performs on the `Seq` (`specRun_toSeq`).
* `OpenRandom C s n h`: the file component `s` has `n` open FOR RANDOM with handle `h` (and what CLOSEFILE / exit need).
* `RInv`: the invariant of a run; `step_seek`, `step_put`, `step_get`, `step_reopen`: one statement; `run_ops`: the fold.
-/
namespace Pseudo.RandomFile
open Pseudo Pseudo.FileStmt Pseudo.ReadLoop

/-! ## 1. values that can live in one random file -/

/-- a set of values that can share a random file: the record text of each reads back — exactly — into a variable that
    currently holds any other value of the set, and every record text is framed (survives the file container) -/
structure RecClass (defs : Codec.Defs) where
  T : Val → Prop
  load_dump : ∀ v w, T v → T w → (Codec.load defs w (Codec.dump v)).map Prod.fst = some v
  isArr : ∀ v w, T v → T w → w.isArr = v.isArr
  clean : ∀ v, T v → Codec.Clean v

/-- any set of storable values that pairwise have the same shape (C13) -/
def RecClass.ofStorable (Fin : Float → Prop) (L : Codec.ReaderLaws Fin) (defs : Codec.Defs) (S : Val → Prop)
    (hst : ∀ v, S v → Codec.Storable Fin defs v) (hsh : ∀ v w, S v → S w → Codec.SameShape v w) : RecClass defs where
  T := S
  load_dump v w hv hw := Codec.C13_get_put Fin L defs v w (hst v hv) (hsh v w hv hw)
  isArr v w hv hw := Codec.sameShape_isArr v w (hsh v w hv hw)
  clean v hv := Codec.clean_of_storable Fin defs v (hst v hv)

/-- INTEGER values (in the 64-bit range — every INTEGER the interpreter computes) -/
def RecClass.int (defs : Codec.Defs) : RecClass defs :=
  RecClass.ofStorable (fun _ => False) Codec.readerLaws_noReal defs (fun v => ∃ n, v = .int n ∧ InRange64 n)
    (by rintro v ⟨n, rfl, hn⟩; simpa [Codec.Storable] using hn)
    (by rintro v w ⟨n, rfl, _⟩ ⟨m, rfl, _⟩; exact Codec.sameShape_int n m)

/-- STRING values (any bytes: line breaks, `#`, blanks, empty; shorter than 10^18 bytes once escaped) -/
def RecClass.str (defs : Codec.Defs) : RecClass defs :=
  RecClass.ofStorable (fun _ => False) Codec.readerLaws_noReal defs
    (fun v => ∃ s, v = .str s ∧ (Codec.escNL s).length < 10 ^ 18)
    (by rintro v ⟨s, rfl, hs⟩; simpa [Codec.Storable] using hs)
    (by rintro v w ⟨s, rfl, _⟩ ⟨s', rfl, _⟩; exact Codec.sameShape_str s s')

theorem RecClass.framed {defs : Codec.Defs} (C : RecClass defs) (v : Val) (h : C.T v) : Codec.Framed (Codec.dump v) :=
  Codec.C13_dump_framed v (C.clean v h)

/-! ## 2. the abstract machine -/

/-- the abstract random file at the level of values -/
structure VSeq where
  vals : List Val
  cur : Nat          -- 0-based cursor: address k ↔ cur = k - 1

/-- the `Seq` of `C14`: record texts + cursor -/
def VSeq.toSeq (q : VSeq) : Seq := ⟨q.vals.map Codec.dump, q.cur⟩

def VSeq.seek (q : VSeq) (k : Int) : Option VSeq :=
  if 1 ≤ k ∧ k ≤ q.vals.length + 1 then some { q with cur := k.toNat - 1 } else none

def VSeq.put (q : VSeq) (v : Val) : VSeq :=
  if q.cur < q.vals.length then { q with vals := q.vals.set q.cur v } else { q with vals := q.vals ++ [v] }

def VSeq.get (q : VSeq) : Option Val := q.vals[q.cur]?

theorem VSeq.toSeq_seek (q : VSeq) (k : Int) : (q.seek k).map VSeq.toSeq = q.toSeq.seek k := by
  unfold VSeq.seek Seq.seek VSeq.toSeq
  simp only [List.length_map]
  split <;> rfl

theorem VSeq.toSeq_put (q : VSeq) (v : Val) : (q.put v).toSeq = q.toSeq.put (Codec.dump v) := by
  unfold VSeq.put Seq.put VSeq.toSeq
  simp only [List.length_map]
  split <;> simp [List.map_set]

theorem VSeq.toSeq_get (q : VSeq) : q.get.map Codec.dump = q.toSeq.get := by
  unfold VSeq.get Seq.get VSeq.toSeq
  simp

/-- one random-file operation of a program on the file `n`, with the tokens of its statement(s):
    `seek t tn tk k` = `SEEK n, k` (`k` an INTEGER literal), `put t tn x` = `PUTRECORD n, x`, `get t tn x` = `GETRECORD n, x`,
    `reopen t tn t' tn'` = `CLOSEFILE n` followed by `OPENFILE n FOR RANDOM` -/
inductive ROp
  | seek (t tn tk : Tok) (k : Int)
  | put (t tn x : Tok)
  | get (t tn x : Tok)
  | reopen (t tn t' tn' : Tok)

/-- the statement(s) of an operation on the file named `n` -/
def ROp.stmts (n : Str) : ROp → List Stmt
  | .seek t tn tk k => [.seek t (.strLit tn n) (.intLit tk k)]
  | .put t tn x => [.putRecord t (.strLit tn n) x]
  | .get t tn x => [.getRecord t (.strLit tn n) x]
  | .reopen t tn t' tn' => [.closeFile t (.strLit tn n), .openFile t' (.strLit tn' n) .random]

/-- number of statements -/
def ROp.cost : ROp → Nat
  | .reopen .. => 2
  | _ => 1

/-- the statement token (where a failure is reported) -/
def ROp.tok : ROp → Tok
  | .seek t .. | .put t .. | .get t .. | .reopen t .. => t

/-- the message class of the failure of an operation whose abstract step is undefined -/
def ROp.failMsg : ROp → Msg
  | .seek .. => .seekRange
  | _ => .recordRead

/-- the variables an operation uses -/
def ROp.var? : ROp → Option Str
  | .put _ _ x | .get _ _ x => some x.val
  | _ => none

def ROp.isReopen : ROp → Bool
  | .reopen .. => true
  | _ => false

def block (n : Str) (ops : List ROp) : Block := ops.flatMap (ROp.stmts n)

def cost (ops : List ROp) : Nat := (ops.map ROp.cost).sum

/-- the value of the variable `x` of the activation `a` -/
def varVal (a : Act) (x : Str) : Option Val := (findSlot a.vars x).map (·.val)

/-- **one step of the abstract machine** on (sequence of values, current activation); `none` = the operation is not defined:
    SEEK to an address outside 1 … n+1, GETRECORD with the cursor behind the last record -/
def specStep (q : VSeq) (a : Act) : ROp → Option (VSeq × Act)
  | .seek _ _ _ k => (q.seek k).map (·, a)
  | .put _ _ x => (varVal a x.val).map fun v => (q.put v, a)
  | .get _ _ x => q.get.map fun v => (q, setVar a x.val v)
  | .reopen .. => some ({ q with cur := 0 }, a)

/-- the result of an abstract run: the state reached, the number of statements executed (the failing one included), and the
    operation that failed, if any -/
structure SpecRes where
  q : VSeq
  a : Act
  steps : Nat
  failed : Option ROp

/-- the abstract machine on a list of operations: stops at the first undefined one -/
def specRun (q : VSeq) (a : Act) : List ROp → SpecRes
  | [] => ⟨q, a, 0, none⟩
  | op :: ops =>
    match specStep q a op with
    | none => ⟨q, a, 1, some op⟩
    | some (q', a') => let r := specRun q' a' ops; { r with steps := op.cost + r.steps }

/-- the `SOp` an operation is on the `Seq` level (a re-open is a SEEK to record 1) -/
def ROp.sop (a : Act) : ROp → SOp
  | .seek _ _ _ k => .seek k
  | .put _ _ x => .put (Codec.dump ((varVal a x.val).getD .none))
  | .get .. => .get
  | .reopen .. => .seek 1

/-- the history of `Seq` operations the abstract run performs (up to the failing operation, excluded) -/
def trace (q : VSeq) (a : Act) : List ROp → List SOp
  | [] => []
  | op :: ops =>
    match specStep q a op with
    | none => []
    | some (q', a') => op.sop a :: trace q' a' ops

/-- **the abstract run is `Seq.run`**: the sequence reached is the one `Seq.run` reaches on the trace, and `Seq.run` reports
    every operation of the trace as defined (the outputs are the record texts the GETs deliver) -/
theorem specRun_toSeq (q : VSeq) (a : Act) (ops : List ROp) :
    (q.toSeq.run (trace q a ops)).1 = (specRun q a ops).q.toSeq ∧
    ∀ o ∈ (q.toSeq.run (trace q a ops)).2, o.isSome = true := by
  induction ops generalizing q a with
  | nil => exact ⟨rfl, by simp [trace, Seq.run]⟩
  | cons op ops ih =>
    unfold trace specRun
    cases hs : specStep q a op with
    | none => exact ⟨rfl, by simp [Seq.run]⟩
    | some p =>
      obtain ⟨q', a'⟩ := p
      dsimp only
      obtain ⟨ih1, ih2⟩ := ih q' a'
      cases op with
      | seek t tn tk k =>
        simp only [specStep, Option.map_eq_some_iff] at hs
        obtain ⟨q1, hq1, he⟩ := hs
        cases he
        have hk : q.toSeq.seek k = some q'.toSeq := by rw [← VSeq.toSeq_seek, hq1]; rfl
        simp only [ROp.sop, Seq.run, hk]
        exact ⟨ih1, by simpa using ih2⟩
      | put t tn x =>
        simp only [specStep, Option.map_eq_some_iff] at hs
        obtain ⟨v, hv, he⟩ := hs
        cases he
        simp only [ROp.sop, Seq.run, hv, Option.getD_some, ← VSeq.toSeq_put]
        exact ⟨ih1, by simpa using ih2⟩
      | get t tn x =>
        simp only [specStep, Option.map_eq_some_iff] at hs
        obtain ⟨v, hv, he⟩ := hs
        cases he
        have hg : q.toSeq.get = some (Codec.dump v) := by rw [← VSeq.toSeq_get, hv]; rfl
        simp only [ROp.sop, Seq.run]
        exact ⟨ih1, by simpa [hg] using ih2⟩
      | reopen t tn t' tn' =>
        simp only [specStep, Option.some.injEq, Prod.mk.injEq] at hs
        obtain ⟨rfl, rfl⟩ := hs
        have hk : q.toSeq.seek 1 = some (VSeq.toSeq { q with cur := 0 }) := by
          unfold Seq.seek VSeq.toSeq
          have : (1 : Int) ≤ 1 ∧ (1 : Int) ≤ ((q.vals.map Codec.dump).length : Int) + 1 := ⟨by omega, by omega⟩
          simp only [this, and_self, if_true]
          rfl
        simp only [ROp.sop, Seq.run, hk]
        exact ⟨ih1, by simpa using ih2⟩

/-- … and the operation the run stops at is undefined on the `Seq` reached -/
theorem specRun_failed (q : VSeq) (a : Act) (ops : List ROp) (op : ROp) (h : (specRun q a ops).failed = some op) :
    specStep (specRun q a ops).q (specRun q a ops).a op = none ∧ op ∈ ops := by
  induction ops generalizing q a with
  | nil => simp [specRun] at h
  | cons o ops ih =>
    unfold specRun at h ⊢
    cases hs : specStep q a o with
    | none =>
      rw [hs] at h
      simp only [Option.some.injEq] at h
      subst h
      exact ⟨hs, List.mem_cons_self ..⟩
    | some p =>
      obtain ⟨q', a'⟩ := p
      rw [hs] at h
      dsimp only at h ⊢
      obtain ⟨h1, h2⟩ := ih q' a' h
      exact ⟨h1, List.mem_cons_of_mem _ h2⟩

/-! ## 3. the invariant on the file component, and the operations on the pure machine -/

/-- the file component `s` has `n` open FOR RANDOM with the handle `h`, which abstracts to the sequence of values `q`
    (`absH h = q.toSeq`: the records are the record texts of the values, the cursor is the cursor); all values belong to the
    class `C`; the cursor is inside 0 … n; and what CLOSEFILE and the exit routine rely on: `h` is the only handle with that
    name (OPENFILE refuses a second one), the name is not too long (OPENFILE accepted it), and the disk is as OPENFILE /
    PUTRECORD leave it (`DiskOK`: a modified handle sits over a regular file or nothing, an unmodified one over the file text
    it was loaded from). -/
structure OpenRandom {defs : Codec.Defs} (C : RecClass defs) (s : FState) (n : Str) (h : Handle) (q : VSeq) : Prop where
  handle : s.handle n = some h
  mode : h.mode = .random
  abs : absH h = q.toSeq
  ptr : q.cur ≤ q.vals.length
  vals : ∀ v ∈ q.vals, C.T v
  uniq : ∀ x ∈ s.handles, x.name = n → x = h
  long : nameTooLong n = false
  disk : DiskOK s n h

section Pure
variable {defs : Codec.Defs} {C : RecClass defs} {s : FState} {n : Str} {h : Handle} {q : VSeq}

theorem OpenRandom.recs (inv : OpenRandom C s n h q) : h.records = q.vals.map Codec.dump := congrArg Seq.recs inv.abs
theorem OpenRandom.hptr (inv : OpenRandom C s n h q) : h.ptr = q.cur := congrArg Seq.cur inv.abs
theorem OpenRandom.len (inv : OpenRandom C s n h q) : h.records.length = q.vals.length := by rw [inv.recs, List.length_map]

theorem OpenRandom.framed (inv : OpenRandom C s n h q) : ∀ r ∈ h.records, Codec.Framed r := by
  intro r hr
  rw [inv.recs] at hr
  obtain ⟨v, hv, rfl⟩ := List.mem_map.mp hr
  exact C.framed v (inv.vals v hv)

theorem handle_upd_other (hs : List Handle) (n m : Str) (f : Handle → Handle) (hname : ∀ x, (f x).name = x.name)
    (hne : m ≠ n) : (updHandles hs n f).find? (·.name == m) = hs.find? (·.name == m) := by
  induction hs with
  | nil => rfl
  | cons x xs ih =>
    unfold updHandles at ih ⊢
    simp only [List.map_cons, List.find?_cons]
    by_cases hx : (x.name == n) = true
    · have hxn : x.name = n := by simpa using hx
      have hxm : (x.name == m) = false := by rw [hxn]; simpa using (Ne.symm hne)
      simp only [hx, if_true, hname, hxm]
      exact ih
    · simp only [hx, Bool.false_eq_true, if_false]
      rw [ih]

/-- a step that maps the handles named `n` through `F` (SEEK, PUTRECORD) keeps the invariant -/
theorem OpenRandom.upd (inv : OpenRandom C s n h q) (F : Handle → Handle) (q' : VSeq) (hn : ∀ x, (F x).name = x.name)
    (hm : (F h).mode = .random) (habs : absH (F h) = q'.toSeq) (hptr : q'.cur ≤ q'.vals.length)
    (hvals : ∀ v ∈ q'.vals, C.T v) (hdisk : DiskOK s n (F h)) :
    OpenRandom C { s with handles := updHandles s.handles n F } n (F h) q' ∧
    ∀ m, m ≠ n → FState.handle { s with handles := updHandles s.handles n F } m = s.handle m := by
  refine ⟨⟨?_, hm, habs, hptr, hvals, ?_, inv.long, hdisk⟩, ?_⟩
  · have := handle_upd s.handles n F hn
    unfold FState.handle
    dsimp only
    rw [this]
    have hh := inv.handle
    unfold FState.handle at hh
    rw [hh]; rfl
  · intro x hx hxn
    unfold updHandles at hx
    obtain ⟨y, hy, rfl⟩ := List.mem_map.mp hx
    by_cases hyn : (y.name == n) = true
    · simp only [hyn, if_true]
      rw [inv.uniq y hy (by simpa using hyn)]
    · simp only [hyn, Bool.false_eq_true, if_false] at hxn
      exact absurd (by simpa using hxn) hyn
  · intro m hm
    exact handle_upd_other s.handles n m F hn hm

/-- SEEK to an address the sequence accepts -/
theorem pure_seek_ok (inv : OpenRandom C s n h q) (k : Int) (q' : VSeq) (hk : q.seek k = some q') :
    ∃ s' h', fstep s (.seek n k) = .ok (s', .unit) ∧ OpenRandom C s' n h' q' ∧ s'.fs = s.fs ∧
      ∀ m, m ≠ n → s'.handle m = s.handle m := by
  unfold VSeq.seek at hk
  split at hk
  · rename_i hr
    injection hk with hk
    subst hk
    have hlen := inv.len
    have hp : fpre s (.seek n k) = .ok () := by simp [fpre, inv.handle, inv.mode]
    have c1 : ¬ (k < 1) := by omega
    have c2 : ¬ (k.toNat > h.records.length + 1) := by omega
    have hstep : fstep s (.seek n k) =
        .ok ({ s with handles := updHandles s.handles n fun h => { h with ptr := k.toNat - 1 } }, .unit) := by
      simp only [fstep, hp, inv.handle, c1, c2, if_false]
    obtain ⟨i1, i2⟩ := inv.upd (fun h => { h with ptr := k.toNat - 1 }) { q with cur := k.toNat - 1 } (fun _ => rfl)
      inv.mode (by unfold absH VSeq.toSeq; dsimp only; rw [inv.recs]) (by dsimp only; omega) inv.vals inv.disk
    exact ⟨_, _, hstep, i1, rfl, i2⟩
  · cases hk

/-- SEEK to an address outside 1 … n+1 -/
theorem pure_seek_fail (inv : OpenRandom C s n h q) (k : Int) (hk : q.seek k = none) :
    fstep s (.seek n k) = .error .seekRange := by
  unfold VSeq.seek at hk
  split at hk
  · cases hk
  · rename_i hr
    have hlen := inv.len
    exact (C14_seek_rejects s n h k inv.handle inv.mode (by omega)).1

theorem diskOK_put (hd : DiskOK s n h) (F : Handle → Handle) (hF : (F h).modified = true) : DiskOK s n (F h) := by
  unfold DiskOK at hd ⊢
  rw [hF]
  simp only [if_true]
  by_cases hm : h.modified = true
  · simpa [hm] using hd
  · have hm' : h.modified = false := by simpa using hm
    simp only [hm', Bool.false_eq_true, if_false] at hd
    obtain ⟨c, hc, _⟩ := hd
    exact Or.inr ⟨c, hc⟩

/-- PUTRECORD of the record text of a value of the class -/
theorem pure_put (inv : OpenRandom C s n h q) (v : Val) (hv : C.T v) :
    ∃ s' h', fstep s (.put n (Codec.dump v)) = .ok (s', .unit) ∧ OpenRandom C s' n h' (q.put v) ∧ s'.fs = s.fs ∧
      ∀ m, m ≠ n → s'.handle m = s.handle m := by
  have hp : fpre s (.put n (Codec.dump v)) = .ok () := by simp [fpre, inv.handle, inv.mode]
  have hstep : fstep s (.put n (Codec.dump v)) = .ok ({ s with handles := updHandles s.handles n (putH (Codec.dump v)) }, .unit) := by
    simp only [fstep, hp]; rfl
  have habs : absH (putH (Codec.dump v) h) = (q.put v).toSeq := by
    rw [VSeq.toSeq_put, ← inv.abs]
    unfold absH putH Seq.put
    dsimp only
    split <;> rfl
  have hptr : (q.put v).cur ≤ (q.put v).vals.length := by
    have := inv.ptr
    unfold VSeq.put
    split <;> simp <;> omega
  have hvals : ∀ w ∈ (q.put v).vals, C.T w := by
    intro w hw
    unfold VSeq.put at hw
    split at hw
    · dsimp only at hw
      rcases List.mem_or_eq_of_mem_set hw with hw | rfl
      · exact inv.vals w hw
      · exact hv
    · dsimp only at hw
      rcases List.mem_append.mp hw with hw | hw
      · exact inv.vals w hw
      · simp only [List.mem_cons, List.not_mem_nil, or_false] at hw
        subst hw; exact hv
  obtain ⟨i1, i2⟩ := inv.upd (putH (Codec.dump v)) (q.put v) (fun _ => rfl) inv.mode habs hptr hvals
    (diskOK_put inv.disk (putH (Codec.dump v)) rfl)
  exact ⟨_, _, hstep, i1, rfl, i2⟩

/-- GETRECORD with a record under the cursor: its text, nothing changes -/
theorem pure_get_ok (inv : OpenRandom C s n h q) (v : Val) (hg : q.get = some v) :
    fstep s (.get n) = .ok (s, .record (Codec.dump v)) := by
  apply (C14_get s n h inv.handle inv.mode).1
  rw [inv.abs, ← VSeq.toSeq_get, hg]; rfl

/-- GETRECORD with the cursor behind the last record (or on an empty file) -/
theorem pure_get_fail (inv : OpenRandom C s n h q) (hg : q.get = none) : fstep s (.get n) = .error .recordRead := by
  apply (C14_get s n h inv.handle inv.mode).2
  rw [inv.abs, ← VSeq.toSeq_get, hg]; rfl

/-- CLOSEFILE: the name is closed, the file holds the records (`DiskHas`), the other handles are untouched -/
theorem pure_close (inv : OpenRandom C s n h q) :
    ∃ s1, fstep s (.close n) = .ok (s1, .unit) ∧ s1.handle n = none ∧ DiskHas s1.fs n (q.vals.map Codec.dump) ∧
      (∀ m, m ≠ n → s1.handle m = s.handle m) ∧ (h.modified = false → s1.fs = s.fs) := by
  have hname := handle_name s n h inv.handle
  have hp : fpre s (.close n) = .ok () := by simp [fpre, inv.handle]
  refine ⟨{ fs := flushNode s h, handles := s.handles.filter (·.name != n) }, ?_, ?_, ?_, ?_, ?_⟩
  · simp only [fstep, hp, inv.handle]
  · simp only [FState.handle]
    rw [List.find?_eq_none]
    intro x hx
    have := (List.mem_filter.mp hx).2
    simpa using this
  · rw [← inv.recs]
    exact flush_self s n h hname inv.mode inv.framed (Or.inl inv.disk)
  · intro m hm
    exact find_filter_other s.handles m n hm
  · intro hmod
    unfold flushNode
    simp [hmod]

/-- OPENFILE … FOR RANDOM of a closed name whose file holds the record texts of values of the class -/
theorem pure_open (s1 : FState) (n : Str) (vs : List Val) (hclosed : s1.handle n = none) (hlong : nameTooLong n = false)
    (hd : DiskHas s1.fs n (vs.map Codec.dump)) (hvs : ∀ v ∈ vs, C.T v) :
    ∃ s2, fstep s1 (.open n .random) = .ok (s2, .unit) ∧
      OpenRandom C s2 n { name := n, mode := .random, records := vs.map Codec.dump } ⟨vs, 0⟩ ∧ s2.fs = s1.fs ∧
      s2.handles = s1.handles ++ [{ name := n, mode := .random, records := vs.map Codec.dump }] ∧
      ∀ m, m ≠ n → s2.handle m = s1.handle m := by
  obtain ⟨c, hc, hl⟩ := hd
  have hc' : s1.node n = some (.file c) := hc
  have hp : fpre s1 (.open n .random) = .ok () := by simp [fpre, hclosed]
  have hstep : fstep s1 (.open n .random) =
      .ok ({ s1 with handles := s1.handles ++ [{ name := n, mode := .random, records := Codec.loadFile c }] }, .unit) := by
    simp only [fstep, hp, hlong, Bool.false_eq_true, if_false, hc']
  rw [hl] at hstep
  have hnone : ∀ x ∈ s1.handles, x.name ≠ n := by
    intro x hx hxn
    have := List.find?_eq_none.mp hclosed x hx
    simp [hxn] at this
  refine ⟨_, hstep, ⟨?_, rfl, rfl, Nat.zero_le _, hvs, ?_, hlong, ?_⟩, rfl, rfl, ?_⟩
  · exact handle_append_new _ _ _ rfl hclosed
  · intro x hx hxn
    rcases List.mem_append.mp hx with hx | hx
    · exact absurd hxn (hnone x hx)
    · simpa using hx
  · unfold DiskOK
    simp only [Bool.false_eq_true, if_false]
    exact ⟨c, hc, hl⟩
  · intro m hm
    simp only [FState.handle]
    rw [List.find?_append]
    have : (n == m) = false := by simpa using (Ne.symm hm)
    simp [this]

/-- **CLOSEFILE ; OPENFILE … FOR RANDOM**: the same values, cursor at record 1 -/
theorem pure_reopen (inv : OpenRandom C s n h q) :
    ∃ s1 s2 h', fstep s (.close n) = .ok (s1, .unit) ∧ fstep s1 (.open n .random) = .ok (s2, .unit) ∧
      OpenRandom C s2 n h' { q with cur := 0 } ∧ h'.modified = false ∧
      (∀ m, m ≠ n → s2.handle m = s.handle m) ∧ (h.modified = false → s2.fs = s.fs) := by
  obtain ⟨s1, h1, hcl, hd, ho, hfs⟩ := pure_close inv
  obtain ⟨s2, h2, i2, hfs2, _, ho2⟩ := pure_open (C := C) s1 n q.vals hcl inv.long hd inv.vals
  exact ⟨s1, s2, _, h1, h2, i2, rfl, fun m hm => by rw [ho2 m hm, ho m hm], fun hm => by rw [hfs2, hfs hm]⟩

end Pure

/-! ## 4. the statements on the evaluator -/

/-- **the invariant of a run**: the current activation is `a` (on top of `rest`), the codec sees the definitions `defs`, and
    the file component has `n` open FOR RANDOM with a handle that abstracts to `q` -/
structure RInv {defs : Codec.Defs} (C : RecClass defs) (σ : St) (n : Str) (q : VSeq) (a : Act) (rest : List Act) : Prop where
  acts : σ.acts = a :: rest
  defs : codecDefsP σ = .ok defs
  file : ∃ h, OpenRandom C (fileSt σ) n h q

/-- `x` is a plain variable (not a constant, not a BYREF formal, not of a pointer type) of `a` holding a value of the class -/
def GoodVar {defs : Codec.Defs} (C : RecClass defs) (a : Act) (x : Str) : Prop :=
  ∃ ty v, HasVar a x ty v ∧ isPtrTy ty = false ∧ C.T v

/-- every variable named in `ops` is a good variable of `a` -/
def VarsOK {defs : Codec.Defs} (C : RecClass defs) (a : Act) (ops : List ROp) : Prop :=
  ∀ op ∈ ops, ∀ x, op.var? = some x → GoodVar C a x

theorem codecDefsP_setVar (σ : St) (a : Act) (rest : List Act) (x : Str) (v : Val) (hacts : σ.acts = a :: rest) :
    codecDefsP { σ with acts := setVar a x v :: rest } = codecDefsP σ := by
  unfold codecDefsP scopeActP globalActP
  dsimp only
  rw [hacts]
  simp only [List.find?_cons, setVar_isComp]
  cases hc : a.isComp <;> cases rest with
  | nil => simp only [Bool.not_true, Bool.not_false, List.find?_nil, List.getLast?_singleton]; try rfl
  | cons b bs => simp only [Bool.not_true, Bool.not_false, List.getLast?_cons_cons]; try rfl

section Exec
variable {defs : Codec.Defs} {C : RecClass defs} {σ : St} {n : Str} {q : VSeq} {a : Act} {rest : List Act}

theorem GoodVar.setVar_same {x : Str} (h : GoodVar C a x) (w : Val) (hw : C.T w) : GoodVar C (setVar a x w) x := by
  obtain ⟨ty, v, hv, hp, _⟩ := h
  exact ⟨ty, w, hasVar_setVar_same a x ty v w hv, hp, hw⟩

theorem GoodVar.setVar {x y : Str} (h : GoodVar C a y) (hx : GoodVar C a x) (w : Val) (hw : C.T w) :
    GoodVar C (setVar a x w) y := by
  by_cases hxy : x = y
  · subst hxy; exact hx.setVar_same w hw
  · obtain ⟨ty, v, hv, hp, ht⟩ := h
    exact ⟨ty, v, hasVar_setVar_ne a x y ty v w hxy hv, hp, ht⟩

/-- the state after a statement that changed the file component to `s'` -/
theorem RInv.of_file (inv : RInv C σ n q a rest) (s' : FState) (h' : Handle) (q' : VSeq)
    (hf : OpenRandom C s' n h' q') :
    RInv C { σ with steps := σ.steps + 1, fs := s'.fs, handles := s'.handles } n q' a rest :=
  ⟨inv.acts, inv.defs, h', hf⟩

/-- **SEEK n, k** with `k` an INTEGER literal, address accepted by the sequence -/
theorem step_seek_ok (inv : RInv C σ n q a rest) (f : Nat) (t tn tk : Tok) (k : Int) (q' : VSeq)
    (hb : σ.steps + 1 ≤ σ.stepLimit) (hk : q.seek k = some q') :
    ∃ σ', (execStmt (f+3) (.seek t (.strLit tn n) (.intLit tk k))).run.run σ = (.ok .none, σ') ∧ RInv C σ' n q' a rest ∧
      σ' = { σ with steps := σ.steps + 1, handles := σ'.handles } ∧
      ∀ m, m ≠ n → FState.handle (fileSt σ') m = FState.handle (fileSt σ) m := by
  obtain ⟨h, hf⟩ := inv.file
  obtain ⟨s', h', hstep, hf', hfs, hoth⟩ := pure_seek_ok hf k q' hk
  have hk1 : 1 ≤ k := by
    unfold VSeq.seek at hk
    split at hk
    · rename_i hr; exact hr.1
    · cases hk
  have hrun := (C16_exec_seek_lit f t tn tk n k σ hb hk1).1 s' .unit hstep
  refine ⟨_, hrun, inv.of_file s' h' q' hf', ?_, hoth⟩
  have : s'.fs = σ.fs := hfs
  rw [this]

/-- **SEEK n, k** with an address outside 1 … n+1: refused (class `seekRange`) at the statement's token, only `steps` changes -/
theorem step_seek_fail (inv : RInv C σ n q a rest) (f : Nat) (t tn tk : Tok) (k : Int)
    (hb : σ.steps + 1 ≤ σ.stepLimit) (hk : q.seek k = none) :
    (execStmt (f+3) (.seek t (.strLit tn n) (.intLit tk k))).run.run σ = errAt (tickSt σ) t .seekRange := by
  obtain ⟨h, hf⟩ := inv.file
  rw [exec_seek (f+1) t _ _ σ n k hb (evalsTo_intLit (f+1) tk k _) (evalsTo_strLit f tn n _)]
  split
  · rfl
  · exact liftStep_err σ t _ _ (pure_seek_fail hf k hk)

/-- the look-ups of PUTRECORD / GETRECORD for a plain variable of the current activation -/
theorem target_cur (hacts : σ.acts = a :: rest) (x : Str) (s : Slot) (hs : findSlot a.vars x = some s) (href : s.ref = none) :
    lookupVarP σ x = .ok (some (a, s)) ∧
    lookupArrP σ x = .ok (lookupArrIn a ((a :: rest).getLast (List.cons_ne_nil a rest)) x) ∧
    ∀ a?, recTarget (some (a, s)) a? = some (curLoc a x, s.ty) := by
  refine ⟨lookupVarP_cur σ a rest x s hacts hs, lookupArrP_cons σ a rest hacts x, fun a? => ?_⟩
  unfold recTarget curLoc
  dsimp only
  rw [href, findSlot_name _ _ _ hs]

/-- **PUTRECORD n, x** for a good variable `x` holding `v`: accepted, the sequence is `q.put v` -/
theorem step_put (inv : RInv C σ n q a rest) (f : Nat) (t tn x : Tok) (ty : Ty) (v : Val)
    (hb : σ.steps + 1 ≤ σ.stepLimit) (hx : HasVar a x.val ty v) (hp : isPtrTy ty = false) (hv : C.T v) :
    ∃ σ', (execStmt (f+3) (.putRecord t (.strLit tn n) x)).run.run σ = (.ok .none, σ') ∧ RInv C σ' n (q.put v) a rest ∧
      σ' = { σ with steps := σ.steps + 1, handles := σ'.handles } ∧
      ∀ m, m ≠ n → FState.handle (fileSt σ') m = FState.handle (fileSt σ) m := by
  obtain ⟨h, hf⟩ := inv.file
  obtain ⟨s', h', hstep, hf', hfs, hoth⟩ := pure_put hf v hv
  obtain ⟨s, hs, hty, _, href, hval⟩ := hx
  obtain ⟨hlv, hla, htgt⟩ := target_cur inv.acts x.val s hs href
  have hcur : readLocP σ (curLoc a x.val) = .ok v := by rw [readLocP_cur σ a rest x.val s inv.acts hs, hval]
  have hrun := (C16_exec_putRecord (f+1) t (.strLit tn n) x σ n _ _ (curLoc a x.val) s.ty v hb (evalsTo_strLit f tn n _)
    hlv hla (htgt _) (by rw [hty]; exact hp) hcur).1 s' .unit hstep
  refine ⟨_, hrun, inv.of_file s' h' _ hf', ?_, hoth⟩
  have : s'.fs = σ.fs := hfs
  rw [this]

/-- **GETRECORD n, x** with a record under the cursor, into a good variable: accepted; `x` holds the value of that record
    (`Codec.load` of its text, C13); the file component is untouched -/
theorem step_get_ok (inv : RInv C σ n q a rest) (f : Nat) (t tn x : Tok) (v : Val)
    (hb : σ.steps + 1 ≤ σ.stepLimit) (hx : GoodVar C a x.val) (hg : q.get = some v) :
    (execStmt (f+3) (.getRecord t (.strLit tn n) x)).run.run σ =
        (.ok .none, { σ with steps := σ.steps + 1, acts := setVar a x.val v :: rest }) ∧
      RInv C { σ with steps := σ.steps + 1, acts := setVar a x.val v :: rest } n q (setVar a x.val v) rest ∧ C.T v := by
  obtain ⟨h, hf⟩ := inv.file
  obtain ⟨ty, cur, ⟨s, hs, hty, hconst, href, hval⟩, hp, hcurT⟩ := hx
  obtain ⟨hlv, hla, htgt⟩ := target_cur inv.acts x.val s hs href
  have hvT : C.T v := hf.vals v (List.mem_of_getElem? hg)
  have hcur : readLocP σ (curLoc a x.val) = .ok cur := by rw [readLocP_cur σ a rest x.val s inv.acts hs, hval]
  have hc : locConstP σ (curLoc a x.val) = false := by rw [locConstP_cur σ a rest x.val s inv.acts hs, hconst]
  have hrec : h.records[h.ptr]? = some (Codec.dump v) := by
    have := VSeq.toSeq_get q
    rw [hg, ← hf.abs] at this
    exact this.symm
  obtain ⟨root, hrun, _, hroot⟩ := C16_exec_get_reads_put (f+1) t (.strLit tn n) x σ n _ _ (curLoc a x.val) s.ty cur v defs h
    hb (evalsTo_strLit f tn n _) hlv hla (htgt _) (by rw [hty]; exact hp) hc hcur inv.defs hf.handle hf.mode hrec
    (C.load_dump v cur hvT hcurT) (C.isArr v cur hvT hcurT)
  have hroot' : root = v := hroot rfl
  subst hroot'
  have hacts' : ({ σ with steps := σ.steps + 1 } : St).acts = a :: rest := inv.acts
  rw [writeLocSt_cur _ a rest x.val root hacts'] at hrun
  refine ⟨hrun, ⟨rfl, ?_, h, hf⟩, hvT⟩
  have := codecDefsP_setVar { σ with steps := σ.steps + 1 } a rest x.val root hacts'
  rw [this]
  exact inv.defs

/-- **GETRECORD n, x** with the cursor behind the last record (or on an empty file): refused (class `recordRead`) -/
theorem step_get_fail (inv : RInv C σ n q a rest) (f : Nat) (t tn x : Tok)
    (hb : σ.steps + 1 ≤ σ.stepLimit) (hx : GoodVar C a x.val) (hg : q.get = none) :
    (execStmt (f+3) (.getRecord t (.strLit tn n) x)).run.run σ = errAt (tickSt σ) t .recordRead := by
  obtain ⟨h, hf⟩ := inv.file
  obtain ⟨ty, cur, ⟨s, hs, hty, hconst, href, hval⟩, hp, hcurT⟩ := hx
  obtain ⟨hlv, hla, htgt⟩ := target_cur inv.acts x.val s hs href
  have hc : locConstP σ (curLoc a x.val) = false := by rw [locConstP_cur σ a rest x.val s inv.acts hs, hconst]
  have hpre : fpre (fileSt σ) (.get n) = .ok () := by simp [fpre, hf.handle, hf.mode]
  rw [exec_getRecord (f+1) t (.strLit tn n) x σ n _ _ hb (evalsTo_strLit f tn n _) hlv hla, hpre, htgt]
  have hp' : isPtrTy s.ty = false := by rw [hty]; exact hp
  simp only [hp', hc, Bool.false_eq_true, if_false, pure_get_fail hf hg]

/-- **CLOSEFILE n ; OPENFILE n FOR RANDOM**: both accepted; the same values, cursor at record 1 -/
theorem step_reopen (inv : RInv C σ n q a rest) (f f' : Nat) (t tn t' tn' : Tok) (hb : σ.steps + 2 ≤ σ.stepLimit) :
    ∃ σ1 σ', (execStmt (f+3) (.closeFile t (.strLit tn n))).run.run σ = (.ok .none, σ1) ∧
      (execStmt (f'+3) (.openFile t' (.strLit tn' n) .random)).run.run σ1 = (.ok .none, σ') ∧
      RInv C σ' n { q with cur := 0 } a rest ∧
      σ' = { σ with steps := σ.steps + 2, fs := σ'.fs, handles := σ'.handles } ∧
      (∀ m, m ≠ n → FState.handle (fileSt σ') m = FState.handle (fileSt σ) m) ∧
      FState.handle (fileSt σ1) n = none ∧ DiskHas σ1.fs n (q.vals.map Codec.dump) := by
  obtain ⟨h, hf⟩ := inv.file
  obtain ⟨s1, h1, hcl, hd, ho, _⟩ := pure_close hf
  obtain ⟨s2, h2, i2, _, _, ho2⟩ := pure_open (C := C) s1 n q.vals hcl hf.long hd hf.vals
  have e1 := (C16_exec_closeFile_lit f t tn n σ (by omega)).1 s1 .unit h1
  let σ1 : St := { σ with steps := σ.steps + 1, fs := s1.fs, handles := s1.handles }
  have e2 := (C16_exec_openFile_lit f' t' tn' n .random σ1 (by show σ.steps + 1 + 1 ≤ σ.stepLimit; omega)).1 s2 .unit h2
  refine ⟨σ1, _, e1, e2, ⟨inv.acts, inv.defs, _, i2⟩, rfl, fun m hm => ?_, hcl, hd⟩
  show s2.handle m = _
  rw [ho2 m hm, ho m hm]

/-! ### the fold -/

/-- `σ'` is `σ` with `steps` advanced by `k`, the activation list `acts`, and some file component; nothing else differs -/
def StFrame (σ σ' : St) (k : Nat) (acts : List Act) : Prop :=
  σ' = { σ with steps := σ.steps + k, fs := σ'.fs, handles := σ'.handles, acts := acts }

theorem StFrame.trans {σ σ1 σ' : St} {c k : Nat} {x y : List Act} (h1 : StFrame σ σ1 c x) (h2 : StFrame σ1 σ' k y) :
    StFrame σ σ' (c + k) y := by
  unfold StFrame at *
  rw [h2]
  dsimp only
  rw [h1]
  dsimp only
  rw [Nat.add_assoc]

theorem StFrame.fs_only {σ σ' : St} {k : Nat} {x : List Act} (h : σ' = { σ with steps := σ.steps + k, handles := σ'.handles })
    (hx : σ.acts = x) : StFrame σ σ' k x ∧ σ'.fs = σ.fs := by
  constructor
  · unfold StFrame
    rw [h]
    dsimp only
    rw [← hx]
  · rw [h]

theorem specRun_steps (q : VSeq) (a : Act) (ops : List ROp) (h : (specRun q a ops).failed = none) :
    (specRun q a ops).steps = cost ops := by
  induction ops generalizing q a with
  | nil => rfl
  | cons op ops ih =>
    unfold specRun at h ⊢
    cases hs : specStep q a op with
    | none => rw [hs] at h; cases h
    | some p =>
      obtain ⟨q', a'⟩ := p
      rw [hs] at h
      dsimp only at h ⊢
      rw [ih q' a' h]
      simp [cost]

theorem specRun_steps_le (q : VSeq) (a : Act) (ops : List ROp) : (specRun q a ops).steps ≤ cost ops := by
  induction ops generalizing q a with
  | nil => exact Nat.le_refl _
  | cons op ops ih =>
    unfold specRun
    cases hs : specStep q a op with
    | none =>
      dsimp only
      have : 1 ≤ op.cost := by cases op <;> simp [ROp.cost]
      simp only [cost, List.map_cons, List.sum_cons]
      omega
    | some p =>
      obtain ⟨q', a'⟩ := p
      dsimp only
      have := ih q' a'
      simp only [cost, List.map_cons, List.sum_cons] at this ⊢
      omega

theorem specRun_cons_some (q : VSeq) (a : Act) (op : ROp) (ops : List ROp) (q' : VSeq) (a' : Act)
    (hs : specStep q a op = some (q', a')) :
    specRun q a (op :: ops) = { specRun q' a' ops with steps := op.cost + (specRun q' a' ops).steps } := by
  rw [specRun, hs]

theorem specRun_cons_none (q : VSeq) (a : Act) (op : ROp) (ops : List ROp) (hs : specStep q a op = none) :
    specRun q a (op :: ops) = ⟨q, a, 1, some op⟩ := by
  rw [specRun, hs]

theorem specRun_append (q : VSeq) (a : Act) (ops1 ops2 : List ROp) (h : (specRun q a ops1).failed = none) :
    specRun q a (ops1 ++ ops2) =
      { specRun (specRun q a ops1).q (specRun q a ops1).a ops2 with
        steps := (specRun q a ops1).steps + (specRun (specRun q a ops1).q (specRun q a ops1).a ops2).steps } := by
  induction ops1 generalizing q a with
  | nil => simp [specRun]
  | cons op ops ih =>
    rw [List.cons_append]
    cases hs : specStep q a op with
    | none => rw [specRun_cons_none q a op ops hs] at h; cases h
    | some p =>
      obtain ⟨q', a'⟩ := p
      rw [specRun_cons_some q a op ops q' a' hs] at h ⊢
      rw [specRun_cons_some q a op _ q' a' hs, ih q' a' h]
      simp only [Nat.add_assoc]

/-- the outcome of the block according to the abstract run: normal end, or the failing operation's runtime diagnostic
    (built in the state reached — the diagnostic's trace is the activation chain) -/
def outcome (r : SpecRes) (σ' : St) : Except Stop Unit × St :=
  match r.failed with
  | none => (.ok ⟨⟩, σ')
  | some op => errAt σ' op.tok op.failMsg

/-- no CLOSEFILE / OPENFILE among the operations -/
def NoReopen (ops : List ROp) : Prop := ∀ op ∈ ops, op.isReopen = false

/-- **a block of random-file statements runs like the abstract machine** -/
theorem run_ops (f : Nat) : ∀ (ops : List ROp) (σ : St) (q : VSeq) (a : Act),
    RInv C σ n q a rest → VarsOK C a ops → σ.steps + cost ops ≤ σ.stepLimit →
    ∃ σ', (runBlock (f + cost ops + 3) (block n ops)).run.run σ = outcome (specRun q a ops) σ' ∧
      RInv C σ' n (specRun q a ops).q (specRun q a ops).a rest ∧
      StFrame σ σ' (specRun q a ops).steps ((specRun q a ops).a :: rest) ∧
      (∀ m, m ≠ n → FState.handle (fileSt σ') m = FState.handle (fileSt σ) m) ∧
      (NoReopen ops → σ'.fs = σ.fs) ∧
      (∀ x, GoodVar C a x → GoodVar C (specRun q a ops).a x)
  | [], σ, q, a, inv, _, _ => by
    refine ⟨σ, run_runBlock_nil _ σ, inv, ?_, fun _ _ => rfl, fun _ => rfl, fun _ h => h⟩
    unfold StFrame specRun
    dsimp only
    rw [← inv.acts]
    rfl
  | op :: ops, σ, q, a, inv, hvars, hb => by
    have hcost : cost (op :: ops) = op.cost + cost ops := by simp [cost]
    have hvars' : VarsOK C a ops := fun o ho => hvars o (List.mem_cons_of_mem _ ho)
    have hblock : block n (op :: ops) = op.stmts n ++ block n ops := by simp [block]
    rw [hcost] at hb
    -- after a successful first operation
    have cont : ∀ (σ1 : St) (q1 : VSeq) (a1 : Act), specStep q a op = some (q1, a1) →
        (runBlock (f + cost (op :: ops) + 3) (block n (op :: ops))).run.run σ =
          (runBlock (f + cost ops + 3) (block n ops)).run.run σ1 →
        RInv C σ1 n q1 a1 rest → VarsOK C a1 ops → StFrame σ σ1 op.cost (a1 :: rest) →
        (∀ m, m ≠ n → FState.handle (fileSt σ1) m = FState.handle (fileSt σ) m) →
        (op.isReopen = false → σ1.fs = σ.fs) → (∀ x, GoodVar C a x → GoodVar C a1 x) →
        ∃ σ', (runBlock (f + cost (op :: ops) + 3) (block n (op :: ops))).run.run σ = outcome (specRun q a (op :: ops)) σ' ∧
          RInv C σ' n (specRun q a (op :: ops)).q (specRun q a (op :: ops)).a rest ∧
          StFrame σ σ' (specRun q a (op :: ops)).steps ((specRun q a (op :: ops)).a :: rest) ∧
          (∀ m, m ≠ n → FState.handle (fileSt σ') m = FState.handle (fileSt σ) m) ∧
          (NoReopen (op :: ops) → σ'.fs = σ.fs) ∧
          (∀ x, GoodVar C a x → GoodVar C (specRun q a (op :: ops)).a x) := by
      intro σ1 q1 a1 hs hrun inv1 hv1 hfr hoth hfs hgv
      have hst : σ1.steps = σ.steps + op.cost := by rw [hfr]
      have hlim : σ1.stepLimit = σ.stepLimit := by rw [hfr]
      obtain ⟨σ', h1, h2, h3, h4, h5, h6⟩ := run_ops f ops σ1 q1 a1 inv1 hv1 (by rw [hst, hlim]; omega)
      have hsr : specRun q a (op :: ops) =
          { specRun q1 a1 ops with steps := op.cost + (specRun q1 a1 ops).steps } := by
        rw [specRun, hs]
      refine ⟨σ', ?_, ?_, ?_, ?_, ?_, ?_⟩
      · rw [hrun, h1, hsr]; rfl
      · rw [hsr]; exact h2
      · rw [hsr]; exact hfr.trans h3
      · intro m hm; rw [h4 m hm, hoth m hm]
      · intro hno
        rw [h5 (fun o ho => hno o (List.mem_cons_of_mem _ ho)), hfs (hno op (List.mem_cons_self ..))]
      · intro x hx
        rw [hsr]; exact h6 x (hgv x hx)
    -- a failing first operation
    have stop : ∀ (s : Stmt), op.stmts n = [s] → specStep q a op = none →
        (execStmt (f + cost ops + 3) s).run.run σ = errAt (tickSt σ) op.tok op.failMsg →
        ∃ σ', (runBlock (f + cost (op :: ops) + 3) (block n (op :: ops))).run.run σ = outcome (specRun q a (op :: ops)) σ' ∧
          RInv C σ' n (specRun q a (op :: ops)).q (specRun q a (op :: ops)).a rest ∧
          StFrame σ σ' (specRun q a (op :: ops)).steps ((specRun q a (op :: ops)).a :: rest) ∧
          (∀ m, m ≠ n → FState.handle (fileSt σ') m = FState.handle (fileSt σ) m) ∧
          (NoReopen (op :: ops) → σ'.fs = σ.fs) ∧
          (∀ x, GoodVar C a x → GoodVar C (specRun q a (op :: ops)).a x) := by
      intro s hst hs hrun
      have hc : op.cost = 1 := by cases op <;> first | rfl | (simp [ROp.stmts] at hst)
      have hsr : specRun q a (op :: ops) = ⟨q, a, 1, some op⟩ := by rw [specRun, hs]
      refine ⟨tickSt σ, ?_, ?_, ?_, fun _ _ => rfl, fun _ => rfl, fun x hx => by rw [hsr]; exact hx⟩
      · rw [hblock, hst, hcost, hc, hsr]
        have e : f + (1 + cost ops) + 3 = (f + cost ops + 3) + 1 := by omega
        rw [e]
        exact run_runBlock_cons_err _ s _ σ _ _ hrun
      · rw [hsr]; exact ⟨inv.acts, inv.defs, inv.file⟩
      · rw [hsr]
        unfold StFrame tickSt
        dsimp only
        rw [← inv.acts]
    cases op with
    | seek t tn tk k =>
      have hc : (ROp.seek t tn tk k).cost = 1 := rfl
      rw [hc] at hb
      cases hk : q.seek k with
      | none =>
        exact stop _ rfl (by simp [specStep, hk]) (step_seek_fail inv (f + cost ops) t tn tk k (by omega) hk)
      | some q1 =>
        obtain ⟨σ1, hrun, inv1, hfr, hoth⟩ := step_seek_ok inv (f + cost ops) t tn tk k q1 (by omega) hk
        obtain ⟨hfr', hfs⟩ := StFrame.fs_only hfr inv.acts
        refine cont σ1 q1 a (by simp [specStep, hk]) ?_ inv1 hvars' hfr' hoth (fun _ => hfs) (fun _ h => h)
        rw [hblock, hcost, hc]
        have e : f + (1 + cost ops) + 3 = (f + cost ops + 3) + 1 := by omega
        rw [e]
        exact run_runBlock_cons _ _ _ σ σ1 hrun
    | put t tn x =>
      have hc : (ROp.put t tn x).cost = 1 := rfl
      rw [hc] at hb
      obtain ⟨ty, v, hx, hp, hv⟩ := hvars _ (List.mem_cons_self ..) x.val rfl
      obtain ⟨σ1, hrun, inv1, hfr, hoth⟩ := step_put inv (f + cost ops) t tn x ty v (by omega) hx hp hv
      obtain ⟨hfr', hfs⟩ := StFrame.fs_only hfr inv.acts
      have hval : varVal a x.val = some v := by
        obtain ⟨s, hs, _, _, _, hsv⟩ := hx
        unfold varVal; rw [hs, ← hsv]; rfl
      refine cont σ1 (q.put v) a (by simp [specStep, hval]) ?_ inv1 hvars' hfr' hoth (fun _ => hfs) (fun _ h => h)
      rw [hblock, hcost, hc]
      have e : f + (1 + cost ops) + 3 = (f + cost ops + 3) + 1 := by omega
      rw [e]
      exact run_runBlock_cons _ _ _ σ σ1 hrun
    | get t tn x =>
      have hc : (ROp.get t tn x).cost = 1 := rfl
      rw [hc] at hb
      have hx : GoodVar C a x.val := hvars _ (List.mem_cons_self ..) x.val rfl
      cases hg : q.get with
      | none =>
        exact stop _ rfl (by simp [specStep, hg]) (step_get_fail inv (f + cost ops) t tn x (by omega) hx hg)
      | some v =>
        obtain ⟨hrun, inv1, hvT⟩ := step_get_ok inv (f + cost ops) t tn x v (by omega) hx hg
        refine cont _ q (setVar a x.val v) (by simp [specStep, hg]) ?_ inv1 ?_ rfl (fun _ _ => rfl) (fun _ => rfl)
          (fun y hy => hy.setVar hx v hvT)
        · rw [hblock, hcost, hc]
          have e : f + (1 + cost ops) + 3 = (f + cost ops + 3) + 1 := by omega
          rw [e]
          exact run_runBlock_cons _ _ _ σ _ hrun
        · intro o ho y hy
          exact (hvars' o ho y hy).setVar hx v hvT
    | reopen t tn t' tn' =>
      have hc : (ROp.reopen t tn t' tn').cost = 2 := rfl
      rw [hc] at hb
      obtain ⟨σ1, σ2, e1, e2, inv2, hfr, hoth, _, _⟩ := step_reopen inv (f + cost ops + 1) (f + cost ops) t tn t' tn' (by omega)
      refine cont σ2 { q with cur := 0 } a rfl ?_ inv2 hvars' ?_ hoth (fun h => by cases h) (fun _ h => h)
      · rw [hblock, hcost, hc]
        have e : f + (2 + cost ops) + 3 = (f + cost ops + 1 + 3) + 1 := by omega
        rw [e]
        show (runBlock _ (_ :: _ :: block n ops)).run.run σ = _
        rw [run_runBlock_cons _ _ _ σ σ1 e1]
        have e' : f + cost ops + 1 + 3 = (f + cost ops + 3) + 1 := by omega
        rw [e']
        exact run_runBlock_cons _ _ _ σ1 σ2 e2
      · show StFrame σ σ2 2 (a :: rest)
        unfold StFrame
        rw [← inv.acts]
        exact hfr

/-- **one operation** -/
theorem run_op (f : Nat) (op : ROp) (inv : RInv C σ n q a rest) (hvars : VarsOK C a [op])
    (hb : σ.steps + op.cost ≤ σ.stepLimit) :
    (∀ q' a', specStep q a op = some (q', a') →
      ∃ σ', (runBlock (f + op.cost + 3) (op.stmts n)).run.run σ = (.ok ⟨⟩, σ') ∧ RInv C σ' n q' a' rest ∧
        StFrame σ σ' op.cost (a' :: rest) ∧ (op.isReopen = false → σ'.fs = σ.fs)) ∧
    (specStep q a op = none →
      (runBlock (f + op.cost + 3) (op.stmts n)).run.run σ = errAt (tickSt σ) op.tok op.failMsg) := by
  have hcost : cost [op] = op.cost := by simp [cost]
  have hblock : block n [op] = op.stmts n := by simp [block]
  constructor
  · intro q' a' hs
    obtain ⟨σ', hrun, hinv, hfr, _, hfs, _⟩ := run_ops (C := C) (n := n) (rest := rest) f [op] σ q a inv hvars
      (by rw [hcost]; exact hb)
    rw [hcost, hblock] at hrun
    rw [specRun_cons_some q a op [] q' a' hs] at hrun hinv hfr
    exact ⟨σ', hrun, hinv, hfr,
      fun h => hfs (fun o ho => by simp only [List.mem_cons, List.not_mem_nil, or_false] at ho; rw [ho]; exact h)⟩
  · intro hs
    cases op with
    | seek t tn tk k =>
      have hk : q.seek k = none := by
        cases hk : q.seek k with
        | none => rfl
        | some q1 => simp [specStep, hk] at hs
      exact run_runBlock_cons_err _ _ _ σ _ _ (step_seek_fail inv (f + 1) t tn tk k hb hk)
    | put t tn x =>
      obtain ⟨ty, v, ⟨s, hs', _⟩, _, _⟩ := hvars _ (List.mem_cons_self ..) x.val rfl
      simp [specStep, varVal, hs'] at hs
    | get t tn x =>
      have hg : q.get = none := by
        cases hg : q.get with
        | none => rfl
        | some v => simp [specStep, hg] at hs
      exact run_runBlock_cons_err _ _ _ σ _ _
        (step_get_fail inv (f + 1) t tn x hb (hvars _ (List.mem_cons_self ..) x.val rfl) hg)
    | reopen t tn t' tn' => simp [specStep] at hs

end Exec

/-! ## 5. exit and restart -/

/-- OPENFILE … FOR RANDOM of a closed name whose file loads to the records `rs`: the exact step -/
theorem fstep_open_random (s1 : FState) (n : Str) (rs : List Str) (hclosed : s1.handle n = none)
    (hlong : nameTooLong n = false) (hd : DiskHas s1.fs n rs) :
    fstep s1 (.open n .random) =
      .ok ({ s1 with handles := s1.handles ++ [{ name := n, mode := .random, records := rs }] }, .unit) := by
  obtain ⟨c, hc, hl⟩ := hd
  have hc' : s1.node n = some (.file c) := hc
  have hp : fpre s1 (.open n .random) = .ok () := by simp [fpre, hclosed]
  rw [← hl]
  simp only [fstep, hp, hlong, Bool.false_eq_true, if_false, hc']

/-- **CLOSEFILE ; OPENFILE … FOR RANDOM on the pure machine, for any RANDOM handle with framed records** (no record class):
    both steps are accepted; the new handle is fresh (`ptr = 0`, not modified) with the same records; the file holds them;
    the other handles are untouched -/
theorem pure_reopen_raw (s : FState) (n : Str) (h : Handle) (hh : s.handle n = some h) (hm : h.mode = .random)
    (hfr : ∀ r ∈ h.records, Codec.Framed r) (hlong : nameTooLong n = false) (hdisk : DiskOK s n h) :
    ∃ s1 s2, fstep s (.close n) = .ok (s1, .unit) ∧ fstep s1 (.open n .random) = .ok (s2, .unit) ∧
      s1.handle n = none ∧ DiskHas s1.fs n h.records ∧
      s2.handle n = some { name := n, mode := .random, records := h.records } ∧ s2.fs = s1.fs ∧
      (∀ m, m ≠ n → s2.handle m = s.handle m) ∧
      (∀ x ∈ s2.handles, x.name = n → x = { name := n, mode := .random, records := h.records }) := by
  have hname := handle_name s n h hh
  have hp : fpre s (.close n) = .ok () := by simp [fpre, hh]
  have hclose : fstep s (.close n) = .ok ({ fs := flushNode s h, handles := s.handles.filter (·.name != n) }, .unit) := by
    simp only [fstep, hp, hh]
  have hne : ∀ x ∈ s.handles.filter (·.name != n), x.name ≠ n := by
    intro x hx
    have := (List.mem_filter.mp hx).2
    simpa using this
  have hcl : FState.handle { fs := flushNode s h, handles := s.handles.filter (·.name != n) } n = none := by
    simp only [FState.handle]
    rw [List.find?_eq_none]
    intro x hx
    simpa using hne x hx
  have hd : DiskHas (flushNode s h) n h.records := flush_self s n h hname hm hfr (Or.inl hdisk)
  have hopen := fstep_open_random { fs := flushNode s h, handles := s.handles.filter (·.name != n) } n h.records hcl hlong hd
  refine ⟨_, _, hclose, hopen, hcl, hd, handle_append_new _ _ _ rfl hcl, rfl, ?_, ?_⟩
  · intro m hmn
    simp only [FState.handle]
    rw [List.find?_append, find_filter_other s.handles m n hmn]
    have : (n == m) = false := by simpa using (Ne.symm hmn)
    simp [this]
  · intro x hx hxn
    rcases List.mem_append.mp hx with hx | hx
    · exact absurd hxn (hne x hx)
    · simpa using hx

/-- **what the exit routine needs of the file component a program ends in**, for the record sequence `rs` of the file `n`
    to be on disk afterwards: either `n` is still open FOR RANDOM with records `rs` (framed — what `Codec.dump` produces —,
    the only handle of that name, the disk as OPENFILE / PUTRECORD leave it), or `n` is closed and the file holds `rs`
    (`DiskHas`: it is a regular file whose text loads to `rs` — what CLOSEFILE leaves, `pure_close`) -/
def SeqAtExit (s : FState) (n : Str) (rs : List Str) : Prop :=
  (∃ h, s.handle n = some h ∧ h.mode = .random ∧ h.records = rs ∧ (∀ r ∈ rs, Codec.Framed r) ∧ DiskOK s n h ∧
        ∀ x ∈ s.handles, x.name = n → x = h) ∨
  (s.handle n = none ∧ DiskHas s.fs n rs)

theorem OpenRandom.seqAtExit {defs : Codec.Defs} {C : RecClass defs} {s : FState} {n : Str} {h : Handle} {q : VSeq}
    (inv : OpenRandom C s n h q) : SeqAtExit s n (q.vals.map Codec.dump) :=
  Or.inl ⟨h, inv.handle, inv.mode, inv.recs, by rw [← inv.recs]; exact inv.framed, inv.disk, inv.uniq⟩

theorem RInv.seqAtExit {defs : Codec.Defs} {C : RecClass defs} {σ : St} {n : Str} {q : VSeq} {a : Act} {rest : List Act}
    (inv : RInv C σ n q a rest) : SeqAtExit (fileSt σ) n (q.vals.map Codec.dump) := by
  obtain ⟨h, hf⟩ := inv.file
  exact hf.seqAtExit

/-- the write-back of handles with other names leaves the node of `n` alone -/
theorem node_fold_closed (s : FState) (n : Str) : ∀ (hs : List Handle) (fs : List (Str × FsNode)),
    (∀ x ∈ hs, x.name ≠ n) →
    FState.node { fs := hs.foldl (fun fs x => flushNode { s with fs := fs } x) fs } n = FState.node { fs := fs } n := by
  intro hs
  induction hs with
  | nil => intro fs _; rfl
  | cons x xs ih =>
    intro fs hne
    simp only [List.foldl_cons]
    rw [ih _ (fun y hy => hne y (List.mem_cons_of_mem _ hy))]
    exact node_flush_other { s with fs := fs } x n (hne x (List.mem_cons_self ..))

/-- **after the exit routine the file holds the sequence** -/
theorem diskHas_closeAll (s : FState) (n : Str) (rs : List Str) (h : SeqAtExit s n rs) : DiskHas (closeAllF s).fs n rs := by
  rcases h with ⟨h, hh, hm, rfl, hfr, hdisk, huniq⟩ | ⟨hcl, c, hc, hl⟩
  · exact closeAll_fold_inv s n h (handle_name s n h hh) hm hfr s.handles s.fs huniq (Or.inl hdisk)
      (Or.inl (List.mem_of_find?_eq_some hh))
  · refine ⟨c, ?_, hl⟩
    have hne : ∀ x ∈ s.handles, x.name ≠ n := by
      intro x hx hxn
      have := List.find?_eq_none.mp hcl x hx
      simp [hxn] at this
    have := node_fold_closed s n s.handles s.fs hne
    unfold closeAllF
    rw [this]
    exact hc

/-- the state a program text reaches in file mode, BEFORE the exit routine closes the files (`runFileOn` = exit routine applied
    to this state, `C16_exec_runFile_closes`) -/
def endState (cfg : Cfg) (content : Str) (fs : List (Str × FsNode)) (stdin : Str) (eof : Bool) : St :=
  (runSource cfg (content ++ ['\n'])
    { St.init fs stdin cfg.pedantic false with stdinEof := eof, stepLimit := cfg.stepLimit, depthLimit := cfg.depthLimit }).2

theorem runFileOn_fs (cfg : Cfg) (content : Str) (fs : List (Str × FsNode)) (stdin : Str) (eof : Bool) :
    (runFileOn cfg content fs stdin eof).2.fs = (closeAllF (fileSt (endState cfg content fs stdin eof))).fs ∧
    (runFileOn cfg content fs stdin eof).2.handles = [] := ⟨rfl, rfl⟩

/-- the file system `runFile` reports is the one `runFileOn` leaves -/
theorem runFile_fs (cfg : Cfg) (content : Str) (fs : List (Str × FsNode)) (stdin : Str) :
    (runFile cfg content fs stdin).fs = (runFileOn cfg content fs stdin false).2.fs := by
  unfold runFile
  rcases runFileOn cfg content fs stdin false with ⟨o, s⟩
  cases o with
  | diag d => simp only [resultOf]; split <;> rfl
  | _ => rfl

/-- the first statement of a program, when it ends normally -/
theorem runOn_cons (g : Nat) (s : Stmt) (more : Block) (σ σ1 : St) (h : (execStmt g s).run.run σ = (.ok .none, σ1)) :
    runOn (g+1) (s :: more) σ = runOn g more σ1 := by
  rw [runOn_eq, runOn_eq]
  unfold runMain
  rw [run_tryCatch, run_tryCatch, run_runBlock_cons g s more σ σ1 h]

/-- what file mode does with the outcome of the program: a line break after a diagnostic, then the exit routine -/
def finishFile (r : Outcome × St) : Outcome × St :=
  match r with
  | (.diag d, s) => (.diag d, closeAllSt { s with out := ['\n'] :: s.out })
  | (o, s) => (o, closeAllSt s)

/-- the state in which the block of a program text starts in file mode: the initial state with the parser's warnings printed -/
def startState (cfg : Cfg) (fs : List (Str × FsNode)) (stdin : Str) (eof : Bool) (warns : List Tok) : St :=
  { St.init fs stdin cfg.pedantic false with
    stdinEof := eof, stepLimit := cfg.stepLimit, depthLimit := cfg.depthLimit, out := (warns.map warningText).reverse }

/-- file mode on a text that lexes and parses to `b` -/
theorem runFileOn_parsed (cfg : Cfg) (content : Str) (fs : List (Str × FsNode)) (stdin : Str) (eof : Bool)
    (toks : List Tok) (b : Block) (warns : List Tok)
    (hl : lex { pedantic := cfg.pedantic } (content ++ ['\n']) = .ok toks)
    (hp : parse { pedantic := cfg.pedantic } toks = .ok (b, warns)) :
    runFileOn cfg content fs stdin eof = finishFile (runOn cfg.fuel b (startState cfg fs stdin eof warns)) := by
  unfold runFileOn runSource
  dsimp only
  rw [hl]
  dsimp only
  rw [hp]
  dsimp only
  have e : ({ St.init fs stdin cfg.pedantic false with
      stdinEof := eof, stepLimit := cfg.stepLimit, depthLimit := cfg.depthLimit,
      out := (warns.map warningText).reverse ++ (St.init fs stdin cfg.pedantic false).out } : St) =
      startState cfg fs stdin eof warns := by
    simp [startState, St.init]
  rw [e]
  rcases runOn cfg.fuel b (startState cfg fs stdin eof warns) with ⟨o, s⟩
  cases o <;> rfl

/-- OPENFILE n FOR RANDOM as the first file statement of a fresh interpreter (no handle open) whose file system holds the
    records `rs` under `n` -/
theorem run_open_fresh (f : Nat) (t tn : Tok) (n : Str) (rs : List Str) (σ0 : St) (hh : σ0.handles = [])
    (hb : σ0.steps + 1 ≤ σ0.stepLimit) (hlong : nameTooLong n = false) (hd : DiskHas σ0.fs n rs) :
    (execStmt (f+3) (.openFile t (.strLit tn n) .random)).run.run σ0 =
      (.ok .none, { σ0 with steps := σ0.steps + 1, handles := [{ name := n, mode := .random, records := rs }] }) := by
  have hcl : FState.handle (fileSt σ0) n = none := by unfold FState.handle fileSt; rw [hh]; rfl
  have hstep := fstep_open_random (fileSt σ0) n rs hcl hlong hd
  have := (C16_exec_openFile_lit f t tn n .random σ0 hb).1 _ .unit hstep
  rw [this]
  unfold fileSt
  dsimp only
  rw [hh]
  rfl

/-- … and that state satisfies the invariant of section 4, when the records are record texts of values of a class -/
theorem rinv_open_fresh {defs : Codec.Defs} (C : RecClass defs) (n : Str) (vs : List Val) (σ0 : St) (a : Act) (rest : List Act)
    (hacts : σ0.acts = a :: rest) (hdefs : codecDefsP σ0 = .ok defs)
    (hlong : nameTooLong n = false) (hd : DiskHas σ0.fs n (vs.map Codec.dump)) (hvs : ∀ v ∈ vs, C.T v) :
    RInv C { σ0 with steps := σ0.steps + 1, handles := [{ name := n, mode := .random, records := vs.map Codec.dump }] }
      n ⟨vs, 0⟩ a rest := by
  refine ⟨hacts, hdefs, { name := n, mode := .random, records := vs.map Codec.dump },
    ⟨?_, rfl, rfl, Nat.zero_le _, hvs, ?_, hlong, ?_⟩⟩
  · simp [FState.handle, fileSt]
  · intro x hx _
    simpa [fileSt] using hx
  · unfold DiskOK
    simp only [Bool.false_eq_true, if_false]
    exact hd

/-- the program text lexes and parses to a block that starts with `OPENFILE n FOR RANDOM` (`n` a STRING literal): a check that
    can be evaluated -/
def frontOpen (cfg : Cfg) (content : Str) (n : Str) : Bool :=
  match lex { pedantic := cfg.pedantic } (content ++ ['\n']) with
  | .ok toks =>
    match parse { pedantic := cfg.pedantic } toks with
    | .ok (.openFile _ (.strLit _ m) .random :: _, _) => m == n
    | _ => false
  | .error _ => false

theorem frontOpen_spec (cfg : Cfg) (content : Str) (n : Str) (h : frontOpen cfg content n = true) :
    ∃ toks t tn more warns, lex { pedantic := cfg.pedantic } (content ++ ['\n']) = .ok toks ∧
      parse { pedantic := cfg.pedantic } toks = .ok (.openFile t (.strLit tn n) .random :: more, warns) := by
  unfold frontOpen at h
  split at h
  · rename_i toks hl
    split at h
    · rename_i t tn m more warns hp
      have : m = n := by simpa using h
      subst this
      exact ⟨toks, t, tn, more, warns, hl, hp⟩
    · cases h
  · cases h

end Pseudo.RandomFile
