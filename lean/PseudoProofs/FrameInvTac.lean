import PseudoProofs.FrameInv
/-!
# C04 frame theorem: the statement proved by induction on fuel (`AllF`) and the proof search (`fr_auto`, `fr_fn`)
-/
namespace Pseudo.Frame
open Pseudo

abbrev ListNoPtr (k : Nat) (l : List Val) : Prop := ∀ v ∈ l, NoPtr k v
abbrev SlotsClosed (k : Nat) (l : List Slot) : Prop := ∀ s ∈ l, SlotClosed k s
abbrev HolderSafe (k : Nat) (h : Holder) : Prop := h.loc.act ≠ k


variable {k : Nat}

theorem listNoPtr_nil : ListNoPtr k [] := fun _ h => nomatch h
theorem listNoPtr_reverse {acc : List Val} (h : Leaf (ListNoPtr k acc)) : ListNoPtr k acc.reverse :=
  fun v hv => h v (List.mem_reverse.1 hv)
theorem listNoPtr_cons {v : Val} {acc : List Val} (hv : NoPtr k v) (h : Leaf (ListNoPtr k acc)) : ListNoPtr k (v :: acc) := by
  intro w hw
  cases hw with
  | head => exact hv
  | tail _ h' => exact h w h'
theorem slotsClosed_nil : SlotsClosed k [] := fun _ h => nomatch h
theorem slotsClosed_reverse {acc : List Slot} (h : Leaf (SlotsClosed k acc)) : SlotsClosed k acc.reverse :=
  fun v hv => h v (List.mem_reverse.1 hv)
theorem slotsClosed_cons {v : Slot} {acc : List Slot} (hv : SlotClosed k v) (h : Leaf (SlotsClosed k acc)) :
    SlotsClosed k (v :: acc) := by
  intro w hw
  cases hw with
  | head => exact hv
  | tail _ h' => exact h w h'

theorem look_id {a : Act} {s : Slot} (h : LookSafe k (some (a, s))) : a.id ≠ k := (h a s rfl).1
theorem look_ref {a : Act} {s : Slot} {l : Loc} (h : LookSafe k (some (a, s))) (hr : s.ref = some l) : l.act ≠ k :=
  (h a s rfl).2.1 l hr
theorem look_val {a : Act} {s : Slot} (h : LookSafe k (some (a, s))) : NoPtr k s.val := (h a s rfl).2.2

theorem EnsF.bindS {α β : Type} [Safe α] {Q : β → Prop} {m : M α} {f : α → M β} (hm : EnsF k (Safe.safe k) m)
    (hf : ∀ a, Safe.safe k a → EnsF k Q (f a)) : EnsF k Q (m >>= f) := EnsF.bind hm hf

theorem EnsF.bindT {α β : Type} {Q : β → Prop} {m : M α} {f : α → M β} (hm : EnsF k (fun _ => True) m)
    (hf : ∀ a, EnsF k Q (f a)) : EnsF k Q (m >>= f) := EnsF.bind hm fun a _ => hf a

theorem safe_some_holder {h : Holder} (hs : Safe.safe k (some h)) : h.loc.act ≠ k := hs h rfl
theorem safe_holder {h : Holder} (hs : Safe.safe k h) : h.loc.act ≠ k := hs
theorem safe_loc {l : Loc} (hs : Safe.safe k l) : l.act ≠ k := hs
theorem safe_pair_loc {p : Loc × Ty} (hs : Safe.safe k p) : p.1.act ≠ k := hs.1
theorem safe_some_val {v : Val} (hs : Safe.safe k (some v)) : NoPtr k v := hs v rfl
theorem safe_val {v : Val} (hs : Safe.safe k v) : NoPtr k v := hs
theorem mk_safe_holder {h : Holder} (hs : h.loc.act ≠ k) : Safe.safe k h := hs
theorem mk_safe_loc {l : Loc} (hs : l.act ≠ k) : Safe.safe k l := hs
theorem mk_safe_pair_loc {l : Loc} {t : Ty} (hs : l.act ≠ k) : Safe.safe k (l, t) := ⟨hs, trivial⟩
theorem mk_safe_some_holder {h : Holder} (hs : h.loc.act ≠ k) : Safe.safe k (some h) := fun _ e => by cases e; exact hs
theorem mk_safe_some_val {v : Val} (hs : NoPtr k v) : Safe.safe k (some v) := fun _ e => by cases e; exact hs
theorem mk_safe_none_holder : Safe.safe k (none : Option Holder) := fun _ e => nomatch e
theorem mk_safe_none_val : Safe.safe k (none : Option Val) := fun _ e => nomatch e

/-- facts about locations / ids used as side conditions -/
syntax "fr_side" : tactic
macro_rules | `(tactic| fr_side) => `(tactic| first
  | assumption
  | exact ptr_target_ne (by assumption)
  | exact look_id (by assumption)
  | exact look_ref (by assumption) (by assumption)
  | exact (‹ActSafe _ _›).1
  | exact safe_some_holder (by assumption)
  | exact safe_holder (by assumption)
  | exact safe_loc (by assumption)
  | exact safe_pair_loc (by assumption)
  | (cases ‹some (_, _) = some (_, _)›; first
      | exact look_id (by assumption)
      | exact look_ref (by assumption) (by assumption))
  | (have htgt := ‹_ = some ((_ : Loc), (_ : Ty))›
     split at htgt
     · cases htgt
       split
       · exact look_ref (by assumption) (by assumption)
       · exact look_id (by assumption)
     · cases htgt
       exact look_id (by assumption)
     · cases htgt)
  | fail "fr_side")

/-- one field per function of the mutual block -/
structure AllF (k f : Nat) : Prop where
  defaultVal : ∀ t ty, EnsF k (NoPtr k) (defaultVal f t ty)
  defaultCells : ∀ t ty n acc, Leaf (ListNoPtr k acc) → EnsF k (ListNoPtr k) (defaultCells f t ty n acc)
  evalArgs : ∀ es acc, Leaf (ListNoPtr k acc) → EnsF k (ListNoPtr k) (evalArgs f es acc)
  evalIndices : ∀ es dims acc, EnsF k (fun _ => True) (evalIndices f es dims acc)
  resolveRef : ∀ r, EnsF k (HolderSafe k) (resolveRef f r)
  callFun : ∀ t args, EnsF k (NoPtr k) (callFun f t args)
  bindParams : ∀ t ps es vs acc, Leaf (ListNoPtr k vs) → Leaf (SlotsClosed k acc) →
    EnsF k (SlotsClosed k) (bindParams f t ps es vs acc)
  evalExpr : ∀ e, EnsF k (NoPtr k) (evalExpr f e)
  execAssign : ∀ t r rhs, EnsF k (fun _ => True) (execAssign f t r rhs)
  runBlock : ∀ b, EnsF k (fun _ => True) (runBlock f b)
  ifChain : ∀ t bs els, EnsF k (fun _ => True) (ifChain f t bs els)
  caseMatch : ∀ v cl, EnsF k (fun _ => True) (caseMatch f v cl)
  caseClauses : ∀ v cls, EnsF k (fun _ => True) (caseClauses f v cls)
  loopBody : ∀ b, EnsF k (fun _ => True) (loopBody f b)
  whileLoop : ∀ t c b, EnsF k (fun _ => True) (whileLoop f t c b)
  repeatLoop : ∀ t b c, EnsF k (fun _ => True) (repeatLoop f t b c)
  forLoop : ∀ t it stop step b, it.act ≠ k → EnsF k (fun _ => True) (forLoop f t it stop step b)
  callProc : ∀ t name args, EnsF k (fun _ => True) (callProc f t name args)
  resolveParams : ∀ ps acc, EnsF k (fun _ => True) (resolveParams f ps acc)
  evalBounds : ∀ bs acc, EnsF k (fun _ => True) (evalBounds f bs acc)
  declareVars : ∀ t ids ty, EnsF k (fun _ => True) (declareVars f t ids ty)
  declareArrs : ∀ t ids ty dims, EnsF k (fun _ => True) (declareArrs f t ids ty dims)
  outputAll : ∀ es, EnsF k (fun _ => True) (outputAll f es)
  fileName : ∀ t e, EnsF k (fun _ => True) (fileName f t e)
  execStmt : ∀ s, EnsF k (NoPtr k) (execStmt f s)

theorem listNoPtr_tail {v : Val} {vs : List Val} (h : Leaf (ListNoPtr k (v :: vs))) : ListNoPtr k vs :=
  fun w hw => h w (List.mem_cons_of_mem _ hw)
theorem listNoPtr_head {v : Val} {vs : List Val} (h : Leaf (ListNoPtr k (v :: vs))) : NoPtr k v :=
  h v (List.mem_cons_self ..)

theorem actClosed_of {a : Act} (h1 : a.arrs = []) (h2 : a.retVal = none) (h3 : SlotsClosed k a.vars) : ActClosed k a :=
  ⟨h3, fun s hs => (by rw [h1] at hs; cases hs), fun v hv => (by rw [h2] at hv; cases hv)⟩

theorem actClosed_meta {a b : Act} (h : ActClosed k a) (h1 : b.vars = a.vars) (h2 : b.arrs = a.arrs)
    (h3 : b.retVal = a.retVal) : ActClosed k b :=
  ⟨by rw [h1]; exact h.vars, by rw [h2]; exact h.arrs, by rw [h3]; exact h.ret⟩

theorem actClosed_ret {a : Act} {v : Val} (hv : NoPtr k v) (h : ActClosed k a) : ActClosed k { a with retVal := some v } :=
  ⟨h.vars, h.arrs, fun w hw => by cases hw; exact hv⟩

theorem safe_default {α : Type} (a : α) : @Safe.safe α instSafeDefault k a := trivial

theorem noPtr_comp_act {a : Act} (ha : ActSafe k a) (n : Str) :
    NoPtr k (.comp n ((a.vars.map fun s => (s.name, s.val)) ++ (a.arrs.map fun s => (s.name, s.val)))) := by
  apply noPtr_comp
  intro p hp
  rcases List.mem_append.1 hp with h | h
  · obtain ⟨s, hs, rfl⟩ := List.mem_map.1 h
    exact (ha.2.vars s hs).2
  · obtain ⟨s, hs, rfl⟩ := List.mem_map.1 h
    exact (ha.2.arrs s hs).2

theorem listNoPtr_vars {a : Act} (ha : ActSafe k a) : ListNoPtr k (a.vars.map (·.val)) := by
  intro v hv
  obtain ⟨s, hs, rfl⟩ := List.mem_map.1 hv
  exact (ha.2.vars s hs).2

theorem slotClosed_plain {n : Str} {t : Ty} {c : Bool} {v : Val} (h : NoPtr k v) :
    SlotClosed k { name := n, ty := t, isConst := c, val := v } := ⟨fun _ e => (nomatch e), h⟩
theorem slotClosed_ref {n : Str} {t : Ty} {c : Bool} {l : Loc} (h : l.act ≠ k) :
    SlotClosed k { name := n, ty := t, isConst := c, val := .none, ref := some l } :=
  ⟨fun _ e => (by cases e; exact h), noPtr_none⟩

/-- `NoPtr k x` for a variable `x` from the context -/
macro "fr_val0" : tactic => `(tactic| first
  | assumption
  | exact safe_some_val (by assumption)
  | exact safe_val (by assumption)
  | exact look_val (by assumption)
  | exact listNoPtr_head (by assumption)
  | exact (‹ActSafe _ _›).2.ret _ (by assumption)
  | exact noPtr_mathBuiltin (by assumption)
  | exact noPtr_inputConvert _ _ _ (by assumption)
  | exact ‹∀ x, some _ = some x → NoPtr _ x› _ rfl
  | fail "fr_val0")

/-- `NoPtr k e` for the value expressions that occur in the evaluator -/
macro "fr_val" : tactic => `(tactic| first
  | fr_val0
  | exact noPtr_none
  | exact noPtr_int _
  | exact noPtr_real _
  | exact noPtr_bool _
  | exact noPtr_chr _
  | exact noPtr_str _
  | exact noPtr_date _
  | exact noPtr_implicitCast _ (by fr_val0)
  | exact noPtr_defaultPrim _
  | exact noPtr_ptr (by fr_side)
  | fail "fr_val")

/-- closes a side goal `p` (from `Leaf p`) or fails -/
syntax "fr_safe" : tactic
macro_rules | `(tactic| fr_safe) => `(tactic| first
  | exact True.intro
  | assumption
  | exact Leaf.out (by assumption)
  | fr_val
  | exact fun _ _ => True.intro
  | exact fun _ _ => safe_default _
  | exact And.intro True.intro True.intro
  | exact listNoPtr_nil
  | exact listNoPtr_reverse (by assumption)
  | exact listNoPtr_tail (by assumption)
  | exact listNoPtr_vars (by assumption)
  | exact noPtr_comp_act (by assumption) _
  | exact noPtr_arr (by assumption)
  | exact slotClosed_plain (noPtr_arr (by assumption))
  | exact safe_default _
  | exact fun _ h => actClosed_meta h rfl rfl rfl
  | exact fun _ h => actClosed_ret (by fr_val) h
  | exact fun _ => actClosed_of rfl rfl slotsClosed_nil
  | exact fun _ => actClosed_of rfl rfl (by assumption)
  | exact listNoPtr_cons (by fr_val) (by assumption)
  | exact slotsClosed_cons (slotClosed_plain (by fr_val)) (by assumption)
  | exact slotsClosed_cons (slotClosed_ref (by fr_side)) (by assumption)
  | exact slotClosed_plain (by fr_val)
  | exact slotsClosed_nil
  | exact slotsClosed_reverse (by assumption)
  | exact fun a h => noPtr_of_simple (NC.simple_evalNeg _ a h)
  | exact fun a h => noPtr_of_simple (NC.simple_evalCmp _ _ _ a h)
  | exact fun a h => noPtr_of_simple (NC.simple_evalLogic _ _ _ a h)
  | exact fun a h => noPtr_of_simple (NC.simple_evalNot _ a h)
  | exact fun a h => noPtr_of_simple (NC.simple_evalConcat _ _ a h)
  | exact fun a h => noPtr_of_simple (NC.simple_castTo _ _ a h)
  | exact fun a h => noPtr_evalArith _ _ _ _ a h
  | exact mk_safe_none_holder
  | exact mk_safe_none_val
  | exact mk_safe_some_holder (by fr_side)
  | exact mk_safe_holder (by fr_side)
  | exact mk_safe_loc (by fr_side)
  | exact mk_safe_pair_loc (by fr_side)
  | exact mk_safe_some_val (by fr_val)
  | fr_side
  | fail "fr_safe")

/-- atoms: library lemmas and induction hypotheses (may instantiate the result predicate) -/
syntax "fr_lib" : tactic
macro_rules | `(tactic| fr_lib) => `(tactic| first
  | exact EnsF.throw _
  | exact EnsF.get
  | exact EnsF.l_rtErr _ _
  | exact EnsF.l_rtErr0 _
  | exact EnsF.l_pedErr _ _
  | exact EnsF.l_curAct
  | exact EnsF.l_globalAct
  | exact EnsF.l_lookupVar _
  | exact EnsF.l_lookupArr _
  | exact EnsF.l_scopeAct
  | exact EnsF.l_typeScopeAct
  | exact EnsF.l_enumDefOf _ _
  | exact EnsF.l_ptrDefOf _ _
  | exact EnsF.l_compDefOf _ _
  | exact EnsF.l_getType _ _
  | exact EnsF.l_getEnumElement _ _
  | exact EnsF.l_isIdentifierType _ _
  | exact EnsF.l_locIsConst _
  | exact EnsF.l_isLive _
  | exact EnsF.l_outputText _
  | exact EnsF.l_filePre _ _
  | exact EnsF.l_codecDefs
  | exact EnsF.l_writeText _ _
  | exact EnsF.l_emit _
  | exact EnsF.l_tick _
  | exact EnsF.l_getLine
  | exact EnsF.l_doFile _ _
  | exact EnsF.l_doFile0 _
  | exact EnsF.l_readLoc _ (by fr_side)
  | exact EnsF.modify _ (fun _ => rfl) (fun _ => rfl))

syntax "fr_ih" : tactic
macro_rules | `(tactic| fr_ih) => `(tactic| fail "fr_ih: no hypothesis")

set_option hygiene false in
macro_rules | `(tactic| fr_ih) => `(tactic| first
  | exact ih.evalExpr _ | exact ih.resolveRef _ | exact ih.evalIndices _ _ _ | exact ih.callFun _ _
  | exact ih.execAssign _ _ _ | exact ih.runBlock _ | exact ih.ifChain _ _ _ | exact ih.caseMatch _ _
  | exact ih.caseClauses _ _ | exact ih.loopBody _ | exact ih.whileLoop _ _ _ | exact ih.repeatLoop _ _ _
  | exact ih.callProc _ _ _ | exact ih.resolveParams _ _ | exact ih.evalBounds _ _ | exact ih.declareVars _ _ _
  | exact ih.declareArrs _ _ _ _ | exact ih.outputAll _ | exact ih.fileName _ _ | exact ih.execStmt _ | exact ih.defaultVal _ _
  | exact ih.forLoop _ _ _ _ _ (by fr_side))

macro "fr_atom" : tactic => `(tactic| with_reducible first | fr_lib | fr_ih)

/-- side-goal producing rules: the side goals are `Leaf _` goals -/
syntax "fr_rule" : tactic
macro_rules | `(tactic| fr_rule) => `(tactic| with_reducible first
  | refine EnsF.pure _ ?_
  | refine EnsF.l_liftMsg _ _ ?_
  | refine EnsF.l_liftMsg0 _ ?_
  | refine EnsF.l_addVar _ ?_
  | refine EnsF.l_addArr _ ?_
  | refine EnsF.l_writeLoc _ _ _ (by fr_side) ?_
  | refine EnsF.l_modifyCur _ (fun _ => rfl) ?_
  | refine EnsF.modifyAct _ _ (by fr_side) (fun _ => rfl) ?_
  | refine EnsF.withAct _ _ (fun _ => rfl) ?_ ?_
  | refine EnsF.l_catchNotDefined ?_ ?_
  | refine EnsF.tryCatch' ?_ ?_
  | refine EnsF.tryCatch ?_ ?_)

set_option hygiene false in
macro "fr_ihrule" : tactic => `(tactic| with_reducible first
  | refine ih.evalArgs _ _ ?_
  | refine ih.defaultCells _ _ _ _ ?_
  | refine ih.bindParams _ _ _ _ _ ?_ ?_
  | refine EnsF.bind (ih.evalArgs _ _ ?_) ?_
  | refine EnsF.bind (ih.defaultCells _ _ _ _ ?_) ?_
  | refine EnsF.bind (ih.bindParams _ _ _ _ _ ?_ ?_) ?_)

macro "fr_notleaf" : tactic => `(tactic| fail_if_success (with_reducible refine Leaf.mk ?_))

macro "fr_nonleaf_step" : tactic => `(tactic| first
  | cases ‹_ + 1 = Nat.succ _›
  | fr_atom
  | fr_rule
  | fr_ihrule
  | with_reducible refine EnsF.post (by fr_atom) ?_
  | with_reducible refine EnsF.bind (by fr_atom) ?_
  | with_reducible refine EnsF.bindT (EnsF.l_writeLoc _ _ _ (by fr_side) ?_) ?_
  | with_reducible refine EnsF.bindT (EnsF.l_addVar _ ?_) ?_
  | with_reducible refine EnsF.bindT (EnsF.l_addArr _ ?_) ?_
  | with_reducible refine EnsF.bindT (EnsF.l_modifyCur _ (fun _ => rfl) ?_) ?_
  | with_reducible refine EnsF.bindT (EnsF.modifyAct _ _ (by fr_side) (fun _ => rfl) ?_) ?_
  | with_reducible refine EnsF.bindS ?_ ?_
  | intro _
  | split
  | dsimp only)

macro "fr_step" : tactic => `(tactic| first
  | (fr_notleaf; fr_nonleaf_step)
  | (with_reducible refine Leaf.mk ?_; fr_safe))

macro "fr_auto" : tactic => `(tactic| repeat' fr_step)

open Lean in
macro "fr_fn " id:ident : tactic =>
  `(tactic| (rw [$(mkIdent (id.getId ++ `eq_def)):ident]; try dsimp only
             fr_auto))

section
variable {k : Nat}

set_option maxHeartbeats 1000000 in
theorem EnsF.l_runBuiltin (id : Str) (args : List Val) : EnsF k (NoPtr k) (runBuiltin id args) := by
  unfold runBuiltin; fr_auto

theorem EnsF.l_replEcho (v : Val) : EnsF k (fun _ => True) (replEcho v) := by
  unfold replEcho; fr_auto

end

macro_rules | `(tactic| fr_lib) => `(tactic| first | exact EnsF.l_runBuiltin _ _ | exact EnsF.l_replEcho _)

end Pseudo.Frame
