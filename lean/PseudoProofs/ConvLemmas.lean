import PseudoModel.Numeric
import PseudoProofs.CodecLemmas
/-!
# Lemmas about the C conversion functions behind `INTEGER(<string>)` / `REAL(<string>)`

`strtol10` (`FloatFmt`) is C `strtol(s, &end, 10)`: blanks, an optional sign, a maximal run of digits.
This file gives
* `strtolTail` / `strtol10_eq`: `strtol10` split at the sign;
* `strtol10_blank_sign_digits`: the value on `blanks ++ sign ++ digits ++ rest`;
* `strtol10_full_shape`: if the whole (non-empty) string is consumed, the string *is* `blanks ++ sign ++ digits`;
* `strtodBits_digits`: `strtod` on a plain digit string (no point, no exponent) is the correctly rounded integer.
-/
namespace Pseudo
open FloatFmt

/-! ### list facts -/

theorem drop_takeWhile_length {α} (p : α → Bool) : ∀ l : List α, l.drop (l.takeWhile p).length = l.dropWhile p
  | [] => rfl
  | a :: l => by
    cases h : p a
    · simp [h]
    · simp [h, drop_takeWhile_length p l]

theorem takeWhile_eq_self_of_length {α} (p : α → Bool) : ∀ l : List α, (l.takeWhile p).length = l.length → l.takeWhile p = l
  | [], _ => rfl
  | a :: l, h => by
    cases hp : p a
    · simp [hp] at h
    · simp only [List.takeWhile_cons, hp, if_true, List.length_cons, Nat.add_right_cancel_iff] at h ⊢
      rw [takeWhile_eq_self_of_length p l h]

theorem all_of_takeWhile_eq_self {α} (p : α → Bool) : ∀ l : List α, l.takeWhile p = l → ∀ a ∈ l, p a = true
  | [], _ => by simp
  | a :: l, h => by
    cases hp : p a
    · simp [hp] at h
    · simp only [List.takeWhile_cons, hp, if_true, List.cons.injEq, true_and] at h
      intro b hb
      rcases List.mem_cons.1 hb with rfl | hb
      · exact hp
      · exact all_of_takeWhile_eq_self p l h b hb

theorem mem_takeWhile_pos {α} (p : α → Bool) : ∀ l : List α, ∀ a ∈ l.takeWhile p, p a = true
  | [], _, h => by simp at h
  | b :: l, a, h => by
    cases hp : p b
    · simp [hp] at h
    · simp only [List.takeWhile_cons, hp, if_true] at h
      rcases List.mem_cons.1 h with rfl | h
      · exact hp
      · exact mem_takeWhile_pos p l a h

theorem takeWhile_all {α} (p : α → Bool) (l r : List α) (hl : ∀ a ∈ l, p a = true)
    (hr : ∀ a, r.head? = some a → p a = false) : (l ++ r).takeWhile p = l := by
  rw [List.takeWhile_append_of_pos hl]
  cases r with
  | nil => simp
  | cons a r => simp [hr a rfl]

theorem dropWhile_all {α} (p : α → Bool) (l r : List α) (hl : ∀ a ∈ l, p a = true)
    (hr : ∀ a, r.head? = some a → p a = false) : (l ++ r).dropWhile p = r := by
  rw [List.dropWhile_append_of_pos hl]
  cases r with
  | nil => simp
  | cons a r => simp [hr a rfl]

/-! ### character classes -/

theorem isDigit_not_space (c : Char) (h : isDigit c = true) : isSpaceC c = false :=
  Codec.not_space_of_isDigit c h

theorem minus_not_space : isSpaceC '-' = false := by decide
theorem plus_not_space : isSpaceC '+' = false := by decide
theorem minus_not_digit : isDigit '-' = false := by decide
theorem plus_not_digit : isDigit '+' = false := by decide

theorem isDigit_ne_nul (c : Char) (h : isDigit c = true) : (c != Char.ofNat 0) = true := by
  cases hc : (c != Char.ofNat 0) with
  | true => rfl
  | false =>
    have : c = Char.ofNat 0 := by simpa using hc
    subst this; simp [isDigit] at h

theorem isSpaceC_ne_nul (c : Char) (h : isSpaceC c = true) : (c != Char.ofNat 0) = true := by
  cases hc : (c != Char.ofNat 0) with
  | true => rfl
  | false =>
    have : c = Char.ofNat 0 := by simpa using hc
    subst this; revert h; decide

theorem cstr_of_noNul (s : Str) (h : ∀ c ∈ s, (c != Char.ofNat 0) = true) : cstr s = s := by
  unfold cstr
  have := takeWhile_all (fun c => c != Char.ofNat 0) s [] h (by simp)
  simpa using this

/-! ### `strtol10` split at the sign -/

/-- `strtol10` after blanks and sign: `pre` characters were consumed before the digits. -/
def strtolTail (neg : Bool) (s2 : Str) (pre : Nat) : Int × Nat × Bool :=
  let ds := s2.takeWhile isDigit
  if ds.isEmpty then (0, 0, false)
  else
    let mag : Int := (digitsToNat 10 ds : Nat)
    let v : Int := if neg then -mag else mag
    let consumed := pre + ds.length
    if v > longMax then (longMax, consumed, true)
    else if v < longMin then (longMin, consumed, true)
    else (v, consumed, false)

/-- the optional sign: (negative, rest, characters consumed) -/
def signSplit (s1 : Str) : Bool × Str × Nat :=
  match s1 with
  | '-' :: r => (true, r, 1)
  | '+' :: r => (false, r, 1)
  | _ => (false, s1, 0)

theorem strtol10_eq (s : Str) :
    strtol10 s = strtolTail (signSplit (s.dropWhile isSpaceC)).1 (signSplit (s.dropWhile isSpaceC)).2.1
      ((s.takeWhile isSpaceC).length + (signSplit (s.dropWhile isSpaceC)).2.2) := by
  unfold strtol10
  simp only [drop_takeWhile_length]
  rfl

theorem signSplit_minus (r : Str) : signSplit ('-' :: r) = (true, r, 1) := rfl
theorem signSplit_plus (r : Str) : signSplit ('+' :: r) = (false, r, 1) := rfl
theorem signSplit_nil : signSplit [] = (false, [], 0) := rfl
theorem signSplit_other (c : Char) (r : Str) (h1 : c ≠ '-') (h2 : c ≠ '+') : signSplit (c :: r) = (false, c :: r, 0) := by
  unfold signSplit
  split
  · rename_i heq; injection heq with heq _; exact absurd heq h1
  · rename_i heq; injection heq with heq _; exact absurd heq h2
  · rfl

/-- the consumed length of `strtolTail` is `0` or `pre +` the length of the digit run -/
theorem strtolTail_used (neg : Bool) (s2 : Str) (pre : Nat) :
    (strtolTail neg s2 pre).2.1 = if (s2.takeWhile isDigit).isEmpty then 0 else pre + (s2.takeWhile isDigit).length := by
  unfold strtolTail
  simp only
  split
  · rfl
  · (repeat' split) <;> rfl

/-- no digit in front: no conversion, value 0 -/
theorem strtolTail_nodigit (neg : Bool) (s2 : Str) (pre : Nat) (h : (s2.takeWhile isDigit) = []) :
    strtolTail neg s2 pre = (0, 0, false) := by
  unfold strtolTail; simp [h]

theorem strtolTail_digits (neg : Bool) (ds rest : Str) (pre : Nat) (hne : ds ≠ [])
    (hd : ∀ c ∈ ds, isDigit c = true) (hr : ∀ a, rest.head? = some a → isDigit a = false)
    (hrange : if neg then (digitsVal ds : Int) ≤ two63 else (digitsVal ds : Int) < two63) :
    strtolTail neg (ds ++ rest) pre = ((if neg then -(digitsVal ds : Int) else digitsVal ds), pre + ds.length, false) := by
  unfold strtolTail
  have htw := takeWhile_all isDigit ds rest hd hr
  have hemp : ds.isEmpty = false := Codec.isEmpty_false_of_ne_nil hne
  simp only [htw, hemp, Bool.false_eq_true, if_false, Codec.digitsToNat_eq ds hd]
  cases neg
  · simp only [Bool.false_eq_true, if_false] at hrange ⊢
    have h1 : ¬ ((digitsVal ds : Int) > longMax) := by unfold longMax; unfold two63 at hrange; omega
    have h2 : ¬ ((digitsVal ds : Int) < longMin) := by unfold longMin; omega
    rw [if_neg h1, if_neg h2]
  · simp only [if_true] at hrange ⊢
    have h1 : ¬ (-(digitsVal ds : Int) > longMax) := by unfold longMax; omega
    have h2 : ¬ (-(digitsVal ds : Int) < longMin) := by unfold longMin; unfold two63 at hrange; omega
    rw [if_neg h1, if_neg h2]

/-- a sign: nothing, `-` or `+` -/
inductive IsSign : Str → Bool → Prop
  | none : IsSign [] false
  | minus : IsSign ['-'] true
  | plus : IsSign ['+'] false

/-- `signSplit` always splits off a sign (possibly empty) -/
theorem signSplit_spec (s1 : Str) :
    ∃ sg, IsSign sg (signSplit s1).1 ∧ s1 = sg ++ (signSplit s1).2.1 ∧ (signSplit s1).2.2 = sg.length := by
  unfold signSplit
  split
  · exact ⟨['-'], .minus, rfl, rfl⟩
  · exact ⟨['+'], .plus, rfl, rfl⟩
  · exact ⟨[], .none, rfl, rfl⟩

/-- **value of `strtol`** on blanks, an optional sign, a non-empty run of digits and a rest that does not go on
    with a digit: the signed number, everything but the rest consumed, no range error (value within `long`). -/
theorem strtol10_blank_sign_digits (ws sg ds rest : Str) (neg : Bool)
    (hws : ∀ c ∈ ws, isSpaceC c = true) (hsg : IsSign sg neg) (hne : ds ≠ [])
    (hd : ∀ c ∈ ds, isDigit c = true) (hr : ∀ a, rest.head? = some a → isDigit a = false)
    (hrange : if neg then (digitsVal ds : Int) ≤ two63 else (digitsVal ds : Int) < two63) :
    strtol10 (ws ++ (sg ++ (ds ++ rest))) =
      ((if neg then -(digitsVal ds : Int) else digitsVal ds), ws.length + sg.length + ds.length, false) := by
  obtain ⟨d, ds', rfl⟩ := List.exists_cons_of_ne_nil hne
  have hdd : isDigit d = true := hd d (by simp)
  have hdsp : isSpaceC d = false := isDigit_not_space d hdd
  have hhead : ∀ a, (sg ++ (d :: ds' ++ rest)).head? = some a → isSpaceC a = false := by
    intro a ha
    cases hsg with
    | none => simp at ha; subst ha; exact hdsp
    | minus => simp at ha; subst ha; exact minus_not_space
    | plus => simp at ha; subst ha; exact plus_not_space
  rw [strtol10_eq, takeWhile_all isSpaceC ws _ hws hhead, dropWhile_all isSpaceC ws _ hws hhead]
  have hsplit : signSplit (sg ++ (d :: ds' ++ rest)) = (neg, d :: ds' ++ rest, sg.length) := by
    cases hsg with
    | none =>
      have h1 : d ≠ '-' := by rintro rfl; simp [isDigit] at hdd
      have h2 : d ≠ '+' := by rintro rfl; simp [isDigit] at hdd
      exact signSplit_other d _ h1 h2
    | minus => rfl
    | plus => rfl
  rw [hsplit]
  simp only
  rw [strtolTail_digits neg (d :: ds') rest _ hne hd hr hrange]

/-- **shape of a fully consumed string**: if `strtol` consumes the whole of a non-empty string, the string is
    blanks, an optional sign and a non-empty run of digits — nothing else. -/
theorem strtol10_full_shape (c : Str) (hne : c ≠ []) (hfull : (strtol10 c).2.1 = c.length) :
    ∃ ws sg ds neg, c = ws ++ (sg ++ ds) ∧ (∀ x ∈ ws, isSpaceC x = true) ∧ IsSign sg neg ∧ ds ≠ [] ∧
      (∀ x ∈ ds, isDigit x = true) := by
  have hsplit : c = c.takeWhile isSpaceC ++ c.dropWhile isSpaceC := (List.takeWhile_append_dropWhile).symm
  have hws : ∀ x ∈ c.takeWhile isSpaceC, isSpaceC x = true := mem_takeWhile_pos isSpaceC c
  have hlen : c.length = (c.takeWhile isSpaceC).length + (c.dropWhile isSpaceC).length := by
    have := congrArg List.length hsplit
    rw [List.length_append] at this
    exact this
  have hpos : 0 < c.length := List.length_pos_iff.2 hne
  obtain ⟨sg, hsg, hs1, hsl⟩ := signSplit_spec (c.dropWhile isSpaceC)
  rw [strtol10_eq, strtolTail_used, hsl] at hfull
  generalize (signSplit (c.dropWhile isSpaceC)).2.1 = r at hs1 hfull
  have hlen2 : (c.dropWhile isSpaceC).length = sg.length + r.length := by rw [hs1]; simp
  split at hfull
  · omega
  · rename_i hemp
    have hl : (r.takeWhile isDigit).length = r.length := by omega
    have heq := takeWhile_eq_self_of_length isDigit r hl
    refine ⟨_, sg, r, _, ?_, hws, hsg, ?_, all_of_takeWhile_eq_self isDigit r heq⟩
    · rw [← hs1]; exact hsplit
    · rintro rfl; simp at hemp

/-! ### `strtod` on a plain digit string -/

theorem digitsVal_dropZeros : ∀ l : Str, digitsVal (l.dropWhile (· == '0')) = digitsVal l
  | [] => rfl
  | c :: l => by
    cases h : (c == '0')
    · simp [h]
    · have : c = '0' := by simpa using h
      subst this
      rw [List.dropWhile_cons_of_pos (by rfl), digitsVal_dropZeros l]
      simp [digitsVal]

theorem mem_dropWhile {α} (p : α → Bool) : ∀ (l : List α) (a : α), a ∈ l.dropWhile p → a ∈ l
  | [], _, h => by simp at h
  | b :: l, a, h => by
    cases hp : p b
    · simpa [hp] using h
    · rw [List.dropWhile_cons_of_pos hp] at h
      exact List.mem_cons_of_mem _ (mem_dropWhile p l a h)

theorem length_dropWhile_le' {α} (p : α → Bool) : ∀ (l : List α), (l.dropWhile p).length ≤ l.length
  | [] => by simp
  | b :: l => by
    cases hp : p b
    · simp [hp]
    · rw [List.dropWhile_cons_of_pos hp]
      have := length_dropWhile_le' p l
      simp only [List.length_cons]; omega

theorem strtodBody_digits (d : Char) (ds : Str) (hd : ∀ c ∈ d :: ds, isDigit c = true) (hlen : (d :: ds).length ≤ 310) :
    strtodBody false (d :: ds) = some ((ratToBits false (digitsVal (d :: ds)) 1).1, (d :: ds).length, (ratToBits false (digitsVal (d :: ds)) 1).2) := by
  unfold strtodBody
  extract_lets startsHex startsDec r0 ih r1h ip r1
  have h1 : startsHex = false := by
    simp only [startsHex]
    split
    · rename_i x c rest heq
      injection heq with _ heq
      have hx : isDigit x = true := hd x (by rw [heq]; simp)
      have : (x == 'x') = false := by
        cases hh : (x == 'x') with
        | false => rfl
        | true => have : x = 'x' := by simpa using hh
                  subst this; simp [isDigit] at hx
      have : (x == 'X') = false := by
        cases hh : (x == 'X') with
        | false => rfl
        | true => have : x = 'X' := by simpa using hh
                  subst this; simp [isDigit] at hx
      simp [*]
    · rfl
  have h2 : startsDec = true := by
    simp only [startsDec, hd d (by simp), Bool.true_or]
  have hip : ip = d :: ds := takeWhile_all isDigit (d :: ds) [] hd (by simp) |> (by simpa using ·)
  have hr1 : r1 = [] := by simp only [r1, hip]; simp
  simp only [h1, h2, Bool.false_eq_true, if_false, if_true, hr1, hip]
  simp only [List.append_nil, List.length_nil, Nat.add_zero, Int.natCast_zero, Int.sub_zero, Int.toNat_zero, Nat.pow_zero, Nat.mul_one, ge_iff_le, Int.le_refl, if_true, Int.add_zero]
  generalize hall : List.dropWhile (fun x => x == '0') (d :: ds) = all
  have hv : digitsVal all = digitsVal (d :: ds) := by rw [← hall]; exact digitsVal_dropZeros _
  have hdall : ∀ c ∈ all, isDigit c = true := fun c hc => hd c (mem_dropWhile _ _ c (by rw [hall]; exact hc))
  have hl : all.length ≤ (d :: ds).length := by rw [← hall]; exact length_dropWhile_le' _ _
  rw [Codec.digitsToNat_eq all hdall, hv]
  cases all with
  | nil =>
    simp only [List.isEmpty_nil, if_true]
    have : digitsVal (d :: ds) = 0 := by rw [← hv]; rfl
    rw [this]; rfl
  | cons a all' =>
    simp only [List.isEmpty_cons, Bool.false_eq_true, if_false]
    have g1 : ¬ (((a :: all').length : Int) > 310) := by omega
    have g2 : ¬ (((a :: all').length : Int) < -330) := by omega
    rw [if_neg g1, if_neg g2]

theorem strtodBits_eq (s : Str) :
    strtodBits s = match strtodBody (signSplit (s.dropWhile isSpaceC)).1 (signSplit (s.dropWhile isSpaceC)).2.1 with
      | none => (0, 0, false)
      | some (bits, len, er) => (bits, (s.takeWhile isSpaceC).length + (signSplit (s.dropWhile isSpaceC)).2.2 + len, er) := by
  unfold strtodBits
  simp only [drop_takeWhile_length]
  rfl

theorem strtodBits_digits (ds : Str) (hne : ds ≠ []) (hd : ∀ c ∈ ds, isDigit c = true) (hlen : ds.length ≤ 310) :
    strtodBits ds = ((ratToBits false (digitsVal ds) 1).1, ds.length, (ratToBits false (digitsVal ds) 1).2) := by
  obtain ⟨d, ds', rfl⟩ := List.exists_cons_of_ne_nil hne
  have hdd : isDigit d = true := hd d (by simp)
  have h1 : d ≠ '-' := by rintro rfl; simp [isDigit] at hdd
  have h2 : d ≠ '+' := by rintro rfl; simp [isDigit] at hdd
  have htw : (d :: ds').takeWhile isSpaceC = [] := by simp [isDigit_not_space d hdd]
  have hdw : (d :: ds').dropWhile isSpaceC = d :: ds' := by simp [isDigit_not_space d hdd]
  rw [strtodBits_eq, htw, hdw, signSplit_other d _ h1 h2]
  simp only [strtodBody_digits d ds' hd hlen]
  simp

theorem floatOfInt_natCast (k : Nat) : floatOfInt (k : Int) = Float.ofBits (ratToBits false k 1).1 := by
  unfold floatOfInt floatOfIntBits
  have : decide ((k : Int) < 0) = false := by simp
  rw [this, Int.natAbs_natCast]

end Pseudo
