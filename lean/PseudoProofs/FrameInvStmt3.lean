import PseudoProofs.FrameInvSteps
import PseudoProofs.FrameInvLoad
/-!
# C04 frame theorem: `execStmt`, one lemma per statement form (part 3 of 3)
-/
namespace Pseudo.Frame
open Pseudo
variable {k f : Nat}
set_option linter.unusedVariables false

macro_rules | `(tactic| fr_safe) => `(tactic| exact noPtr_load (by assumption))

set_option maxHeartbeats 2000000 in
theorem step_execStmt_closeFile (ih : AllF k f) (t fn : _) : EnsF k (NoPtr k) (execStmt (f+1) (.closeFile t fn)) := by
  fr_fn execStmt

set_option maxHeartbeats 2000000 in
theorem step_execStmt_seek (ih : AllF k f) (t fn addr : _) : EnsF k (NoPtr k) (execStmt (f+1) (.seek t fn addr)) := by
  fr_fn execStmt

set_option maxHeartbeats 2000000 in
theorem step_execStmt_getRecord (ih : AllF k f) (t fn id : _) : EnsF k (NoPtr k) (execStmt (f+1) (.getRecord t fn id)) := by
  fr_fn execStmt

set_option maxHeartbeats 2000000 in
theorem step_execStmt_putRecord (ih : AllF k f) (t fn id : _) : EnsF k (NoPtr k) (execStmt (f+1) (.putRecord t fn id)) := by
  fr_fn execStmt

set_option maxHeartbeats 2000000 in
theorem step_execStmt_procDef (ih : AllF k f) (t name params body : _) : EnsF k (NoPtr k) (execStmt (f+1) (.procDef t name params body)) := by
  fr_fn execStmt

set_option maxHeartbeats 2000000 in
theorem step_execStmt_funDef (ih : AllF k f) (t name params ret body : _) : EnsF k (NoPtr k) (execStmt (f+1) (.funDef t name params ret body)) := by
  fr_fn execStmt

end Pseudo.Frame
