import PseudoProofs.ArrayFieldLemmasDecl
/-!
# `DECLARE r : T` for a record type with scalar members of primitive type and array members of primitive element type

Extends `PseudoProofs/ArrayFieldLemmasDecl.lean` (array members only) to record bodies that mix
`DECLARE x₁,… : <primitive type>` and `DECLARE a₁,… : ARRAY[l:u,…] OF <primitive type>`.

* `isIdentB g t`: is the token the name of a type or of an enum element, the type tables being those of `g`;
  `run_isIdentifierType_comp`: `isIdentifierType` inside the record context of a top-level record type;
* `MemBody g pv pa body vs as n`: the body, the scalar slots `vs` and the array slots `as` it creates;
  `run_runBlock_memBody`;
* `run_defaultVal_memBody`, `run_declare_record_mixed`;
* member lookup in the record value: `findField_mixed_false`, `findField_mixed_true`, `memberKind_mixed_arr`.
-/
namespace Pseudo

namespace ArrayFieldLemmas

open ArrayLemmas C07Copy CallLemmas RecordLemmas

/-- the activation stack while the TYPE body of a top-level record type runs: the record context `C` (not
    `typeGlobal`) on top of the global activation `g` -/
structure CompCtx (σ : St) (C g : Act) : Prop where
  acts : σ.acts = C :: [g]
  isComp : C.isComp = true
  notGlobal : C.typeGlobal = false
  gNotComp : g.isComp = false

theorem CompCtx.typeScope {σ : St} {C g : Act} (h : CompCtx σ C g) : typeScopeAct.run.run σ = (.ok g, σ) := by
  unfold typeScopeAct
  rw [run_bind_ok _ _ _ _ _ (run_get σ)]
  simp only [h.acts, List.takeWhile_cons, h.isComp, h.gNotComp, if_true, Bool.false_eq_true, if_false, List.takeWhile_nil,
    List.any_cons, h.notGlobal, List.any_nil, Bool.or_false]
  unfold scopeAct
  rw [run_bind_ok _ _ _ _ _ (run_get σ)]
  simp only [h.acts, List.find?_cons, h.isComp, h.gNotComp, Bool.not_true, Bool.not_false]
  rfl

theorem CompCtx.global {σ : St} {C g : Act} (h : CompCtx σ C g) : globalAct.run.run σ = (.ok g, σ) :=
  run_globalAct_some σ g (by rw [h.acts]; rfl)

theorem CompCtx.lookupList {β : Type} {σ : St} {C g : Act} (h : CompCtx σ C g) (sel : Act → List (Str × β)) (n : Str)
    (gl : Bool) : (lookupList sel n gl).run.run σ = (.ok ((sel g).find? (·.1 == n)), σ) := by
  unfold Pseudo.lookupList
  rw [run_bind_ok _ _ _ _ _ h.typeScope, run_bind_ok _ _ _ _ _ h.global]
  cases (sel g).find? (·.1 == n) with
  | some x => rfl
  | none =>
    simp only [beq_self_eq_true, Bool.or_true, if_true]
    rfl

/-- is the token the name of a type or of an enum element, the type tables being those of `g` -/
def isIdentB (g : Act) (t : Tok) : Bool :=
  if t.k == .DATA_TYPE then true
  else if (g.enums.find? (·.1 == t.val)).isSome then true
  else if (g.ptrs.find? (·.1 == t.val)).isSome then true
  else if (g.comps.find? (·.1 == t.val)).isSome then true
  else (enumElemIn g t.val).isSome

theorem CompCtx.getEnumElement {σ : St} {C g : Act} (h : CompCtx σ C g) (v : Str) (gl : Bool) :
    (getEnumElement v gl).run.run σ = (.ok (enumElemIn g v), σ) := by
  unfold Pseudo.getEnumElement
  rw [run_bind_ok _ _ _ _ _ h.typeScope, run_bind_ok _ _ _ _ _ h.global]
  cases enumElemIn g v with
  | some x => rfl
  | none =>
    simp only [beq_self_eq_true, Bool.or_true, if_true]
    rfl

/-- `isIdentifierType` inside the record context of a top-level record type looks at the global type tables -/
theorem CompCtx.isIdentifierType {σ : St} {C g : Act} (h : CompCtx σ C g) (t : Tok) (gl : Bool) :
    (isIdentifierType t gl).run.run σ = (.ok (isIdentB g t), σ) := by
  unfold Pseudo.isIdentifierType isIdentB
  by_cases hk : t.k = .DATA_TYPE
  · rw [run_bind_ok _ _ _ _ _ (run_getType_data σ t gl hk)]
    have : (dataTy t.val != Ty.none) = true := by
      have := dataTy_ne_none t.val
      simp only [bne, this, Bool.not_false]
    simp only [this, if_true, hk, beq_self_eq_true]
    rfl
  · have hk' : (t.k == TK.DATA_TYPE) = false := by simpa using hk
    simp only [hk', Bool.false_eq_true, if_false]
    unfold getType
    simp only [hk', Bool.false_eq_true, if_false]
    unfold enumDefOf ptrDefOf compDefOf
    rw [run_bind, run_bind, h.lookupList]
    cases he : g.enums.find? (·.1 == t.val) with
    | some x => rfl
    | none =>
      simp only [Option.isSome_none, Bool.false_eq_true, if_false]
      rw [run_bind, h.lookupList]
      cases hp : g.ptrs.find? (·.1 == t.val) with
      | some x => rfl
      | none =>
        simp only [Option.isSome_none, Bool.false_eq_true, if_false]
        rw [run_bind, h.lookupList]
        cases hc : g.comps.find? (·.1 == t.val) with
        | some x => rfl
        | none =>
          simp only [Option.isSome_none, Bool.false_eq_true, if_false, run_pure]
          have : (Ty.none != Ty.none) = false := by decide
          simp only [this, Bool.false_eq_true, if_false]
          rw [run_bind_ok _ _ _ _ _ (h.getEnumElement t.val gl)]
          rfl


/-! ### scalar member declarations -/

/-- the slot `DECLARE x : T` creates for a primitive type `T` -/
def newVarSlot (ty : Ty) (n : Str) : Slot := { name := n, ty := ty, val := defaultPrim ty }

/-- none of the names is a variable already, nor repeated in the list -/
def FreshVars (ty : Ty) : List Slot → List Tok → Prop
  | _, [] => True
  | vars, id :: rest => findSlot vars id.val = none ∧ FreshVars ty (vars ++ [newVarSlot ty id.val]) rest

/-- the state after the variable slots `slots` have been appended to the current activation -/
def declVarsSt (σ : St) (cur : Act) (rest : List Act) (slots : List Slot) : St :=
  { σ with acts := { cur with vars := cur.vars ++ slots } :: rest }

theorem CompCtx.declVarsSt {σ : St} {C g : Act} (h : CompCtx σ C g) (slots : List Slot) :
    CompCtx (declVarsSt σ C [g] slots) { C with vars := C.vars ++ slots } g :=
  ⟨rfl, h.isComp, h.notGlobal, h.gNotComp⟩

/-- `DECLARE x₁,… : T` (primitive `T`) inside the record context -/
theorem run_declareVars_prim (t tyTok : Tok) (g : Act) (hty : tyTok.k = .DATA_TYPE) :
    ∀ (ids : List Tok) (σ : St) (C : Act) (f : Nat), CompCtx σ C g →
      (∀ id ∈ ids, isIdentB g id = false) → FreshVars (dataTy tyTok.val) C.vars ids → ids.length + 2 ≤ f →
      (declareVars f t ids tyTok).run.run σ =
        (.ok ⟨⟩, declVarsSt σ C [g] (ids.map fun id => newVarSlot (dataTy tyTok.val) id.val)) := by
  intro ids
  induction ids with
  | nil =>
    intro σ C f h _ _ hf
    obtain ⟨f', rfl⟩ : ∃ f', f = f' + 1 := ⟨f - 1, by omega⟩
    rw [declareVars_nil]
    have : declVarsSt σ C [g] [] = σ := by
      have hacts := h.acts
      cases σ
      simp only at hacts
      subst hacts
      simp only [declVarsSt, List.append_nil]
    simp only [List.map_nil, this]
    rfl
  | cons id ids ih =>
    intro σ C f h hid hfresh hf
    obtain ⟨f', rfl⟩ : ∃ f', f = f' + 2 := ⟨f - 2, by omega⟩
    simp only [List.length_cons] at hf
    obtain ⟨hfr, hfrest⟩ := hfresh
    rw [declareVars_cons, run_bind_ok _ _ _ _ _ (run_curAct_cons σ C [g] h.acts)]
    simp only [hfr, Option.isSome_none, Bool.false_eq_true, if_false]
    rw [run_bind_ok _ _ _ _ _ (h.isIdentifierType id true), hid id List.mem_cons_self]
    simp only [Bool.false_eq_true, if_false]
    rw [run_bind_ok _ _ _ _ _ (run_getType_data σ tyTok true hty)]
    simp only [dataTy_ne_none, Bool.false_eq_true, if_false]
    have hv : (defaultVal (f'+1) t (dataTy tyTok.val)).run.run σ = (.ok (defaultPrim (dataTy tyTok.val)), σ) := by
      rw [defaultVal_noncomp f' t _ (dataTy_ne_comp tyTok.val)]; rfl
    rw [run_bind_ok _ _ _ _ _ hv, run_bind_ok _ _ _ _ _ (run_addVar_cons σ C [g] _ h.acts)]
    have h' : CompCtx (declVarSt σ C [g] (newVarSlot (dataTy tyTok.val) id.val))
        { C with vars := C.vars ++ [newVarSlot (dataTy tyTok.val) id.val] } g := ⟨rfl, h.isComp, h.notGlobal, h.gNotComp⟩
    have := ih (declVarSt σ C [g] (newVarSlot (dataTy tyTok.val) id.val)) _ (f'+1) h'
      (fun x hx => hid x (List.mem_cons_of_mem _ hx)) hfrest (by omega)
    rw [show ({ name := id.val, ty := dataTy tyTok.val, val := defaultPrim (dataTy tyTok.val) } : Slot) =
      newVarSlot (dataTy tyTok.val) id.val from rfl, this]
    simp only [declVarsSt, declVarSt, List.map_cons, List.append_assoc, List.singleton_append]

/-- the statement `DECLARE x₁,… : T` inside the record context -/
theorem run_execStmt_declare_prim (σ : St) (t tyTok : Tok) (ids : List Tok) (C g : Act) (f : Nat)
    (h : CompCtx σ C g) (hsteps : σ.steps + 1 ≤ σ.stepLimit) (hty : tyTok.k = .DATA_TYPE)
    (hid : ∀ id ∈ ids, isIdentB g id = false) (hfresh : FreshVars (dataTy tyTok.val) C.vars ids)
    (hf : ids.length + 3 ≤ f) :
    (execStmt f (.declare t ids tyTok)).run.run σ =
      (.ok .none, declVarsSt (tickSt σ) C [g] (ids.map fun id => newVarSlot (dataTy tyTok.val) id.val)) := by
  obtain ⟨f', rfl⟩ : ∃ f', f = f' + 1 := ⟨f - 1, by omega⟩
  have h' : CompCtx (tickSt σ) C g := ⟨h.acts, h.isComp, h.notGlobal, h.gNotComp⟩
  rw [execStmt_declare, run_bind_ok _ _ _ _ _ (run_tick_ok t σ hsteps),
    run_bind_ok _ _ _ _ _ (run_declareVars_prim t tyTok g hty ids (tickSt σ) C f' h' hid hfresh (by omega))]
  rfl

/-! ### record bodies with scalar and array members -/

/-- the block declares members of primitive type and arrays of primitive element type only; `vs` / `as` are the
    variable / array slots it creates (`pv` / `pa`: those declared before), `n` a fuel that suffices -/
inductive MemBody (g : Act) : List Slot → List Slot → Block → List Slot → List Slot → Nat → Prop
  | nil (pv pa : List Slot) : MemBody g pv pa [] [] [] 1
  | arr (pv pa : List Slot) (t tyTok : Tok) (ids : List Tok) (bounds : List (Expr × Expr)) (dims : List (Int × Int))
      (rest : Block) (vs as : List Slot) (n : Nat) :
      tyTok.k = .DATA_TYPE → LitBounds bounds dims → totalCells dims ≤ 1000000 →
      (∀ id ∈ ids, findSlot pa id.val = none) →
      MemBody g pv (pa ++ ids.map fun id => newArrSlot (dataTy tyTok.val) dims id.val) rest vs as n →
      MemBody g pv pa (.declareArr t ids tyTok bounds :: rest) vs
        ((ids.map fun id => newArrSlot (dataTy tyTok.val) dims id.val) ++ as)
        (max n (bounds.length + ids.length + totalCells dims + 5) + 1)
  | var (pv pa : List Slot) (t tyTok : Tok) (ids : List Tok) (rest : Block) (vs as : List Slot) (n : Nat) :
      tyTok.k = .DATA_TYPE → (∀ id ∈ ids, isIdentB g id = false) → FreshVars (dataTy tyTok.val) pv ids →
      MemBody g (pv ++ ids.map fun id => newVarSlot (dataTy tyTok.val) id.val) pa rest vs as n →
      MemBody g pv pa (.declare t ids tyTok :: rest)
        ((ids.map fun id => newVarSlot (dataTy tyTok.val) id.val) ++ vs) as
        (max n (ids.length + 3) + 1)

theorem defaultPrim_isArr (ty : Ty) : (defaultPrim ty).isArr = false := by
  cases ty <;> rfl

theorem MemBody.vars_spec {g : Act} {pv pa : List Slot} {body : Block} {vs as : List Slot} {n : Nat}
    (h : MemBody g pv pa body vs as n) : ∀ s ∈ vs, s.val.isArr = false := by
  induction h with
  | nil => intro s hs; cases hs
  | arr _ _ _ _ _ _ _ _ _ _ _ _ _ _ _ _ ih => exact ih
  | var pv pa t tyTok ids rest vs as n _ _ _ _ ih =>
    intro s hs
    rcases List.mem_append.mp hs with hs | hs
    · obtain ⟨id, _, rfl⟩ := List.mem_map.mp hs
      exact defaultPrim_isArr _
    · exact ih s hs

theorem MemBody.arrs_spec {g : Act} {pv pa : List Slot} {body : Block} {vs as : List Slot} {n : Nat}
    (h : MemBody g pv pa body vs as n) : ∀ s ∈ as, s.val.isArr = true := by
  induction h with
  | nil => intro s hs; cases hs
  | var _ _ _ _ _ _ _ _ _ _ _ _ _ ih => exact ih
  | arr pv pa t tyTok ids bounds dims rest vs as n _ _ _ _ _ ih =>
    intro s hs
    rcases List.mem_append.mp hs with hs | hs
    · obtain ⟨id, _, rfl⟩ := List.mem_map.mp hs
      rfl
    · exact ih s hs

/-- the state after a block of member declarations -/
def memSt (σ : St) (C : Act) (rest : List Act) (k : Nat) (vs as : List Slot) : St :=
  { σ with steps := σ.steps + k, acts := { C with vars := C.vars ++ vs, arrs := C.arrs ++ as } :: rest }

/-- **running a block of member declarations** inside the record context -/
theorem run_runBlock_memBody {g : Act} {pv pa : List Slot} {body : Block} {vs as : List Slot} {n : Nat}
    (h : MemBody g pv pa body vs as n) :
    ∀ (σ : St) (C : Act) (f : Nat), CompCtx σ C g → C.vars = pv → C.arrs = pa →
      σ.steps + body.length ≤ σ.stepLimit → n ≤ f →
      (runBlock f body).run.run σ = (.ok ⟨⟩, memSt σ C [g] body.length vs as) := by
  induction h with
  | nil pv pa =>
    intro σ C f hctx _ _ _ hf
    obtain ⟨f', rfl⟩ : ∃ f', f = f' + 1 := ⟨f - 1, by omega⟩
    rw [runBlock_nil]
    have : memSt σ C [g] ([] : Block).length [] [] = σ := by
      have hacts := hctx.acts
      cases σ
      simp only at hacts
      subst hacts
      simp only [memSt, List.length_nil, Nat.add_zero, List.append_nil]
    rw [this]
    rfl
  | arr pv pa t tyTok ids bounds dims rest' vs as n hty hlit hsize hfresh _ ih =>
    intro σ C f hctx hpv hpa hsteps hf
    obtain ⟨f', rfl⟩ : ∃ f', f = f' + 1 := ⟨f - 1, by omega⟩
    simp only [List.length_cons] at hsteps
    have hst := run_execStmt_declareArr σ t tyTok ids bounds dims C [g] 1 f' hctx.acts (by omega)
      (by rw [hpa]; exact hfresh) hty (pureBounds_of_lit _ _ _ hlit) hsize (by omega)
    rw [run_runBlock_cons_ok f' _ rest' .none σ _ hst (.inl rfl)]
    have hctx' : CompCtx (declManySt (tickSt σ) C [g] (ids.map fun id => newArrSlot (dataTy tyTok.val) dims id.val))
        { C with arrs := C.arrs ++ ids.map fun id => newArrSlot (dataTy tyTok.val) dims id.val } g :=
      ⟨rfl, hctx.isComp, hctx.notGlobal, hctx.gNotComp⟩
    rw [ih _ _ f' hctx' hpv (by simp only [hpa]) (by
      show σ.steps + 1 + rest'.length ≤ σ.stepLimit
      omega) (by omega)]
    simp only [memSt, declManySt, tickSt, List.length_cons, List.append_assoc]
    congr 2
    omega
  | var pv pa t tyTok ids rest' vs as n hty hid hfresh _ ih =>
    intro σ C f hctx hpv hpa hsteps hf
    obtain ⟨f', rfl⟩ : ∃ f', f = f' + 1 := ⟨f - 1, by omega⟩
    simp only [List.length_cons] at hsteps
    have hst := run_execStmt_declare_prim σ t tyTok ids C g f' hctx (by omega) hty hid (by rw [hpv]; exact hfresh) (by omega)
    rw [run_runBlock_cons_ok f' _ rest' .none σ _ hst (.inl rfl)]
    have hctx' : CompCtx (declVarsSt (tickSt σ) C [g] (ids.map fun id => newVarSlot (dataTy tyTok.val) id.val))
        { C with vars := C.vars ++ ids.map fun id => newVarSlot (dataTy tyTok.val) id.val } g :=
      ⟨rfl, hctx.isComp, hctx.notGlobal, hctx.gNotComp⟩
    rw [ih _ _ f' hctx' (by simp only [hpv]) hpa (by
      show σ.steps + 1 + rest'.length ≤ σ.stepLimit
      omega) (by omega)]
    simp only [memSt, declVarsSt, tickSt, List.length_cons, List.append_assoc]
    congr 2
    omega


/-! ### the default value of such a record type, and `DECLARE r : T` -/

/-- the record value made of the variable slots `vs` and the array slots `as` -/
def recOfMembers (T : Str) (vs as : List Slot) : Val :=
  .comp T ((vs.map fun s => (s.name, s.val)) ++ (as.map fun s => (s.name, s.val)))

/-- **the default value of a record type whose body declares primitive members and arrays of primitives**
    (top-level state) -/
theorem run_defaultVal_memBody (σ : St) (g : Act) (t : Tok) (T T' : Str) (body : Block) (vs as : List Slot) (n f : Nat)
    (hacts : σ.acts = [g]) (hcomp : g.isComp = false)
    (hc : g.comps.find? (·.1 == T) = some (T', body)) (hbody : MemBody g [] [] body vs as n)
    (hsteps : σ.steps + body.length ≤ σ.stepLimit) (hf : n + 1 ≤ f) :
    (defaultVal f t (.comp T)).run.run σ = (.ok (recOfMembers T vs as), afterDefaultSt σ body.length) := by
  obtain ⟨f', rfl⟩ : ∃ f', f = f' + 1 := ⟨f - 1, by omega⟩
  rw [defaultVal_comp]
  unfold compDefOf
  rw [run_bind_ok _ _ _ _ _ (run_lookupList_top σ g hacts hcomp _ _ _), hc]
  simp only
  rw [run_bind_ok _ _ _ _ _ (run_lookupList_top σ g hacts hcomp _ _ _), hc]
  rw [run_withAct]
  have hctx : ∀ mk : Nat → Act, (mk σ.nextId).isComp = true → (mk σ.nextId).typeGlobal = false →
      CompCtx (pushSt mk σ) (mk σ.nextId) g := by
    intro mk h1 h2
    exact ⟨by simp only [pushSt, hacts], h1, h2, hcomp⟩
  have hst : ∀ mk : Nat → Act, (mk σ.nextId).vars = [] → (mk σ.nextId).arrs = [] →
      popSt (memSt (pushSt mk σ) (mk σ.nextId) [g] body.length vs as) = afterDefaultSt σ body.length := by
    intro mk _ _
    cases σ
    simp only at hacts
    subst hacts
    simp only [popSt, memSt, pushSt, afterDefaultSt, List.drop_succ_cons, List.drop_zero]
  have hb := run_runBlock_memBody hbody _ _ f' (hctx (fun id => ({ id := id, name := T, isComp := true, typeGlobal := (some (T', body)).isNone } : Act)) rfl rfl) rfl rfl (by exact hsteps) (by omega)
  rw [run_bind_ok _ _ _ _ _ hb]
  rw [run_bind_ok _ _ _ _ _ (run_curAct_cons _ _ _ rfl)]
  simp only [run_pure]
  rw [hst _ rfl rfl]
  rfl

/-- **`DECLARE r : T`** on a top-level state, `T` a record type whose body declares primitive members and arrays of
    primitives -/
theorem run_declare_record_mixed (σ : St) (g : Act) (t rt tyTok : Tok) (T : Str) (body : Block) (vs as : List Slot)
    (n f : Nat)
    (hacts : σ.acts = [g]) (hcomp : g.isComp = false)
    (hsteps : σ.steps + 1 + body.length ≤ σ.stepLimit)
    (hfresh : findSlot g.vars rt.val = none)
    (hrt : (isIdentifierType rt).run.run (tickSt σ) = (.ok false, tickSt σ))
    (hk : (tyTok.k == .DATA_TYPE) = false)
    (he : g.enums.find? (·.1 == tyTok.val) = none) (hp : g.ptrs.find? (·.1 == tyTok.val) = none)
    (hc : g.comps.find? (·.1 == tyTok.val) = some (T, body))
    (hbody : MemBody g [] [] body vs as n) (hf : n + 4 ≤ f) :
    (execStmt f (.declare t [rt] tyTok)).run.run σ =
      (.ok .none, declVarSt (afterDefaultSt (tickSt σ) body.length) g []
        { name := rt.val, ty := .comp T, val := recOfMembers T vs as }) := by
  obtain ⟨f', rfl⟩ : ∃ f', f = f' + 3 := ⟨f - 3, by omega⟩
  have hacts' : (tickSt σ).acts = [g] := hacts
  have hT : T = tyTok.val := by
    have := List.find?_some hc
    simpa using this
  subst hT
  have hdv : (declareVars (f'+2) t [rt] tyTok).run.run (tickSt σ) =
      (.ok ⟨⟩, declVarSt (afterDefaultSt (tickSt σ) body.length) g []
        { name := rt.val, ty := .comp tyTok.val, val := recOfMembers tyTok.val vs as }) := by
    rw [declareVars_cons, run_bind_ok _ _ _ _ _ (run_curAct_cons _ g [] hacts')]
    simp only [hfresh, Option.isSome_none, Bool.false_eq_true, if_false]
    rw [run_bind_ok _ _ _ _ _ hrt]
    simp only [Bool.false_eq_true, if_false]
    rw [run_bind_ok _ _ _ _ _ (run_getType_comp_top (tickSt σ) g hacts' hcomp tyTok true tyTok.val body hk he hp hc)]
    have hne : ((Ty.comp tyTok.val) == Ty.none) = false := by simp
    simp only [hne, Bool.false_eq_true, if_false]
    rw [run_bind_ok _ _ _ _ _ (run_defaultVal_memBody (tickSt σ) g t tyTok.val tyTok.val body vs as n (f'+1) hacts' hcomp hc hbody
      (by show σ.steps + 1 + body.length ≤ σ.stepLimit; omega) (by omega))]
    rw [run_bind_ok _ _ _ _ _ (run_addVar_cons _ g [] _ (by exact hacts'))]
    rw [declareVars_nil]
    rfl
  rw [execStmt_declare, run_bind_ok _ _ _ _ _ (run_tick_ok t σ (by omega)), run_bind_ok _ _ _ _ _ hdv]
  rfl

/-! ### member lookup in a record made of variable slots and array slots -/

theorem findField_vars_true (vs : List Slot) (hall : ∀ s ∈ vs, s.val.isArr = false) (m : Str) :
    findField (vs.map fun s => (s.name, s.val)) m true = none := by
  unfold findField
  induction vs with
  | nil => rfl
  | cons s rest ih =>
    have hs : s.val.isArr = false := hall s List.mem_cons_self
    have h0 : (s.name == m && s.val.isArr == true) = false := by rw [hs]; simp
    simp only [List.map_cons, List.find?_cons, h0]
    exact ih (fun x hx => hall x (List.mem_cons_of_mem _ hx))

theorem findField_vars_false (vs : List Slot) (hall : ∀ s ∈ vs, s.val.isArr = false) (m : Str) :
    findField (vs.map fun s => (s.name, s.val)) m false = (findSlot vs m).map (·.val) := by
  unfold findField findSlot
  induction vs with
  | nil => rfl
  | cons s rest ih =>
    have hs : s.val.isArr = false := hall s List.mem_cons_self
    have h0 : (s.name == m && s.val.isArr == false) = (s.name == m) := by rw [hs]; simp
    simp only [List.map_cons, List.find?_cons, h0]
    cases s.name == m with
    | true => rfl
    | false => exact ih (fun x hx => hall x (List.mem_cons_of_mem _ hx))

theorem findField_append (fs gs : List (Str × Val)) (m : Str) (k : Bool) :
    findField (fs ++ gs) m k = (findField fs m k).or (findField gs m k) := by
  unfold findField
  rw [List.find?_append]
  cases List.find? (fun p => p.1 == m && p.2.isArr == k) fs <;> rfl

/-- an array member `a` of the mixed record (no scalar member has that name) -/
theorem member_mixed_arr (vs as : List Slot) (hv : ∀ s ∈ vs, s.val.isArr = false) (ha : ∀ s ∈ as, s.val.isArr = true)
    (m : Str) (s : Slot) (hnov : findSlot vs m = none) (hs : findSlot as m = some s) :
    memberKind ((vs.map fun s => (s.name, s.val)) ++ (as.map fun s => (s.name, s.val))) m = some true ∧
    findField ((vs.map fun s => (s.name, s.val)) ++ (as.map fun s => (s.name, s.val))) m true = some s.val := by
  have h1 : findField ((vs.map fun s => (s.name, s.val)) ++ (as.map fun s => (s.name, s.val))) m false = none := by
    rw [findField_append, findField_vars_false vs hv m, hnov, findField_slots_false as ha m]
    rfl
  have h2 : findField ((vs.map fun s => (s.name, s.val)) ++ (as.map fun s => (s.name, s.val))) m true = some s.val := by
    rw [findField_append, findField_vars_true vs hv m, findField_slots_true as ha m, hs]
    rfl
  refine ⟨?_, h2⟩
  unfold memberKind
  rw [h1, h2]
  rfl

/-- a scalar member `x` of the mixed record -/
theorem member_mixed_var (vs as : List Slot) (hv : ∀ s ∈ vs, s.val.isArr = false)
    (m : Str) (s : Slot) (hs : findSlot vs m = some s) :
    memberKind ((vs.map fun s => (s.name, s.val)) ++ (as.map fun s => (s.name, s.val))) m = some false ∧
    findField ((vs.map fun s => (s.name, s.val)) ++ (as.map fun s => (s.name, s.val))) m false = some s.val := by
  have h1 : findField ((vs.map fun s => (s.name, s.val)) ++ (as.map fun s => (s.name, s.val))) m false = some s.val := by
    rw [findField_append, findField_vars_false vs hv m, hs]
    rfl
  refine ⟨?_, h1⟩
  unfold memberKind
  rw [h1]
  rfl

end ArrayFieldLemmas

end Pseudo
