import Properties.C06Exec
import Properties.C07Exec
/-!
# Helper lemmas for C06 on arrays that are members of records and on arrays of records (`Properties/C06Fields.lean`)

* paths: `getPath_append`, `setPath_append_eq` (a write at `p ++ q` is a write at `p` of the rewritten sub-value),
  `readLocP_root` (a readable location has a readable root cell), `run_writeLoc_sub` (a successful write below a
  readable location), `readLocP_after` (what any location of that root reads afterwards);
* `RefAt σ f₀ r h v`: the reference `r` resolves in `σ`, with every fuel `≥ f₀` and without changing the state, to the
  holder `h`, and the location of `h` reads `v`.  Constructors: `RefAt.of_hasVar`, `RefAt.of_hasArray`, `RefAt.field`
  (one field step), `RefAt.index` (one index step with pure in-bounds indices) — iterating them reaches any nesting
  depth (`r.s.a[i]`, `arr[i].f`, `arr[i].a[j]`, …);
* `ArrAt σ f₀ r h e dims cells`: `RefAt` to a whole-array holder reading `.arr e dims cells`, well-formed, not constant;
* generic run lemmas: `run_evalExpr_access_arrRef` (a whole array used as a value: `arrayDirect`),
  `run_execAssign_arrRefs` (whole-array assignment between two array references).
-/
namespace Pseudo

namespace ArrayFieldLemmas

open ArrayLemmas C07Copy CallLemmas RecordLemmas

/-! ## paths -/

/-- reading at `p ++ q` is reading at `q` in what `p` reads -/
theorem getPath_append : ∀ (p q : List Step) (v x : Val), getPath v p = some x → getPath v (p ++ q) = getPath x q := by
  intro p
  induction p with
  | nil =>
    intro q v x h
    simp only [getPath, Option.some.injEq] at h
    subst h
    rfl
  | cons st rest ih =>
    intro q v x h
    cases st with
    | field n =>
      cases v with
      | comp ty fs =>
        simp only [List.cons_append, getPath] at h ⊢
        cases hm : memberKind fs n with
        | none => rw [hm] at h; cases h
        | some k =>
          rw [hm] at h
          simp only at h ⊢
          cases hf : findField fs n k with
          | none => rw [hf] at h; cases h
          | some fv =>
            rw [hf] at h
            simp only at h ⊢
            exact ih q fv x h
      | _ => simp [getPath] at h
    | idx i =>
      cases v with
      | arr e d cells =>
        simp only [List.cons_append, getPath] at h ⊢
        cases hc : cells[i]? with
        | none => rw [hc] at h; cases h
        | some c =>
          rw [hc] at h
          simp only at h ⊢
          exact ih q c x h
      | _ => simp [getPath] at h

/-- a write at `p ++ q` is the write, at `p`, of the sub-value rewritten at `q` -/
theorem setPath_append_eq : ∀ (p q : List Step) (v x x' nv : Val), getPath v p = some x → setPath x q nv = some x' →
    setPath v (p ++ q) nv = setPath v p x' := by
  intro p
  induction p with
  | nil =>
    intro q v x x' nv h hs
    simp only [getPath, Option.some.injEq] at h
    subst h
    simp only [List.nil_append, hs, setPath]
  | cons st rest ih =>
    intro q v x x' nv h hs
    cases st with
    | field n =>
      cases v with
      | comp ty fs =>
        simp only [List.cons_append, getPath, setPath] at h ⊢
        cases hm : memberKind fs n with
        | none => rfl
        | some k =>
          rw [hm] at h
          simp only at h ⊢
          cases hf : findField fs n k with
          | none => rfl
          | some fv =>
            rw [hf] at h
            simp only at h ⊢
            rw [ih q fv x x' nv h hs]
      | _ => simp [getPath] at h
    | idx i =>
      cases v with
      | arr e d cells =>
        simp only [List.cons_append, getPath, setPath] at h ⊢
        cases hc : cells[i]? with
        | none => rfl
        | some c =>
          rw [hc] at h
          simp only at h ⊢
          rw [ih q c x x' nv h hs]
      | _ => simp [getPath] at h

/-- the root cell of a location -/
abbrev rootOf (l : Loc) : Loc := { l with path := [] }

/-- a readable location has a readable root cell, and reads the part of the root value its path addresses -/
theorem readLocP_root (σ : St) (l : Loc) (v : Val) (h : readLocP σ l = .ok v) :
    ∃ root, readLocP σ (rootOf l) = .ok root ∧ getPath root l.path = some v := by
  unfold readLocP at h ⊢
  cases hf : σ.acts.find? (·.id == l.act) with
  | none => simp only [hf] at h; cases h
  | some a =>
    simp only [hf] at h ⊢
    have h1 : slotOf a (rootOf l) = slotOf a l := rfl
    rw [h1]
    cases hs : slotOf a l with
    | none => rw [hs] at h; cases h
    | some s =>
      rw [hs] at h
      simp only [getPath] at h ⊢
      cases hg : getPath s.val l.path with
      | none => rw [hg] at h; cases h
      | some w =>
        rw [hg] at h
        simp only [Except.ok.injEq] at h
        subst h
        exact ⟨s.val, rfl, hg⟩

/-- what a location below a readable location reads -/
theorem readLocP_sub (σ : St) (l : Loc) (v : Val) (q : List Step) (h : readLocP σ l = .ok v) :
    readLocP σ { l with path := l.path ++ q } = pathRead v q := by
  obtain ⟨root, h1, h2⟩ := readLocP_root σ l v h
  have := readLocP_path σ l.act l.isArr l.name root (l.path ++ q) h1
  rw [this]
  simp only [pathRead, getPath_append l.path q root v h2]

/-- **a successful write below a readable location.**  `l` reads `x`, its root cell is not a constant, writing `nv` at
    the path `q` inside `x` gives `x'`, of the same kind (array / not) as `x`.  Then `writeLoc` at `l.path ++ q`
    succeeds; the new state is the old one with the root cell holding `root'`, which is the old root value with `x'`
    at the path of `l`. -/
theorem run_writeLoc_sub (σ : St) (t : Tok) (l : Loc) (q : List Step) (x x' nv : Val)
    (hread : readLocP σ l = .ok x) (hc : locConstP σ l = false) (hset : setPath x q nv = some x')
    (hk : x.isArr = x'.isArr) :
    ∃ root root', readLocP σ (rootOf l) = .ok root ∧ getPath root l.path = some x ∧
      setPath root l.path x' = some root' ∧ getPath root' l.path = some x' ∧
      (writeLoc t { l with path := l.path ++ q } nv).run.run σ = (.ok ⟨⟩, updSt σ l.act (writeF (rootOf l) root')) := by
  obtain ⟨root, h1, h2⟩ := readLocP_root σ l x hread
  obtain ⟨root', h3, h4, _⟩ := getPath_setPath x' l.path root x h2 hk
  refine ⟨root, root', h1, h2, h3, h4, ?_⟩
  have hset' : setPath root (l.path ++ q) nv = some root' := by
    rw [setPath_append_eq l.path q root x x' nv h2 hset]; exact h3
  exact run_writeLoc_path σ t l.act l.isArr l.name (l.path ++ q) root nv root' h1 hc hset'

/-- after the root cell of `l` got the value `root'`, a location of that root reads the part of `root'` -/
theorem readLocP_after (σ : St) (l : Loc) (root root' : Val) (p : List Step) (h : readLocP σ (rootOf l) = .ok root) :
    readLocP (updSt σ l.act (writeF (rootOf l) root')) { l with path := p } = pathRead root' p :=
  readLocP_updSt_writeF_same σ (rootOf l) root' root p h

/-! ## references that resolve -/

/-- `r` resolves in `σ`, with every fuel `≥ f₀` and without changing the state, to the holder `h`; the location of `h`
    reads `v` -/
structure RefAt (σ : St) (f₀ : Nat) (r : Ref) (h : Holder) (v : Val) : Prop where
  run : ∀ f, f₀ ≤ f → (resolveRef f r).run.run σ = (.ok h, σ)
  reads : readLocP σ h.loc = .ok v

theorem RefAt.mono {σ : St} {f₀ f₁ : Nat} {r : Ref} {h : Holder} {v : Val} (hr : RefAt σ f₀ r h v) (hle : f₀ ≤ f₁) :
    RefAt σ f₁ r h v := ⟨fun f hf => hr.run f (Nat.le_trans hle hf), hr.reads⟩

/-- a plain variable -/
theorem RefAt.of_hasVar {σ : St} {id : Nat} {ty : Ty} {v : Val} (t : Tok) (h : HasVar σ t.val id ty v) :
    RefAt σ 1 (.var t) (varHolder id t.val ty) v := by
  refine ⟨?_, h.reads⟩
  intro f hf
  obtain ⟨f', rfl⟩ : ∃ f', f = f' + 1 := ⟨f - 1, by omega⟩
  exact run_resolveRef_hasVar σ t id ty f' h.resolves

/-- the holder `resolveRef` yields for the array `n` of activation `id` (`ty`: the declared element type of the slot) -/
abbrev arrHolder (id : Nat) (n : Str) (ty : Ty) : Holder := { loc := arrLoc id n, isArr := true, ty := ty, name := n }

/-- `a` resolves to the holder of the whole array, the same one with every fuel -/
theorem run_resolveRef_arrVar_all (σ : St) (t : Tok) (id : Nat) (h : arrOwner σ t.val = some id) :
    ∃ ty, ∀ f, (resolveRef (f+1) (.var t)).run.run σ = (.ok (arrHolder id t.val ty), σ) := by
  unfold arrOwner at h
  cases hacts : σ.acts with
  | nil => rw [hacts] at h; cases h
  | cons cur rest =>
    cases hg : σ.acts.getLast? with
    | none => rw [hacts] at h hg; simp at hg
    | some g =>
      rw [hg, hacts] at h
      simp only at h
      cases hv : varHit cur g t.val with
      | true => rw [hv] at h; cases h
      | false =>
        rw [hv] at h
        simp only [Bool.false_eq_true, if_false] at h
        have hvar : lookupVarIn cur g t.val = none := by
          have := lookupVarIn_isSome cur g t.val
          rw [hv] at this
          cases hl : lookupVarIn cur g t.val with
          | none => rfl
          | some x => rw [hl] at this; cases this
        rw [← lookupArrIn_id] at h
        cases harr : lookupArrIn cur g t.val with
        | none => rw [harr] at h; cases h
        | some p =>
          obtain ⟨a, s⟩ := p
          rw [harr] at h
          simp only [Option.map_some, Option.some.injEq] at h
          have hname : s.name = t.val := findSlot_name _ _ _ (lookupArrIn_slot _ _ _ _ _ harr)
          refine ⟨s.ty, ?_⟩
          intro f
          rw [resolveRef_var, run_bind_ok _ _ _ _ _ (run_lookupVar σ cur g rest t.val hacts hg), hvar]
          simp only
          rw [run_bind_ok _ _ _ _ _ (run_lookupArr σ cur g rest t.val hacts hg), harr]
          simp only [hname, h]
          rfl

/-- a declared array variable -/
theorem RefAt.of_hasArray {σ : St} {id : Nat} {e : Ty} {dims : List (Int × Int)} {cells : List Val} (t : Tok)
    (h : HasArray σ t.val id e dims cells) :
    ∃ ty, RefAt σ 1 (.var t) (arrHolder id t.val ty) (.arr e dims cells) := by
  obtain ⟨ty, hr⟩ := run_resolveRef_arrVar_all σ t id h.resolves
  refine ⟨ty, ?_, h.reads⟩
  intro f hf
  obtain ⟨f', rfl⟩ : ∃ f', f = f' + 1 := ⟨f - 1, by omega⟩
  exact hr f'

/-- what a member of a readable record reads -/
theorem readLocP_field (σ : St) (l : Loc) (T : Str) (fs : List (Str × Val)) (m : Str) (k : Bool) (fv : Val)
    (h : readLocP σ l = .ok (.comp T fs)) (hm : memberKind fs m = some k) (hfv : findField fs m k = some fv) :
    readLocP σ { l with path := l.path ++ [.field m] } = .ok fv := by
  rw [readLocP_sub σ l _ [.field m] h]
  simp only [pathRead, getPath, hm, hfv]

/-- what a cell of a readable array reads -/
theorem readLocP_idx (σ : St) (l : Loc) (e : Ty) (dims : List (Int × Int)) (cells : List Val) (i : Nat) (c : Val)
    (h : readLocP σ l = .ok (.arr e dims cells)) (hc : cells[i]? = some c) :
    readLocP σ { l with path := l.path ++ [.idx i] } = .ok c := by
  rw [readLocP_sub σ l _ [.idx i] h]
  simp only [pathRead, getPath, hc]

/-- **one field step**: `r` resolves to a non-array holder reading a record with the member `m` (kind `k`, current
    value `fv`); then `r.m` resolves to the holder of that member, which reads `fv` -/
theorem RefAt.field {σ : St} {f₀ : Nat} {r : Ref} {h : Holder} {T : Str} {fs : List (Str × Val)} (t m : Tok) {k : Bool}
    {fv : Val} (hr : RefAt σ f₀ r h (.comp T fs)) (harr : h.isArr = false)
    (hm : memberKind fs m.val = some k) (hfv : findField fs m.val k = some fv) :
    RefAt σ (f₀+1) (.field t r m) (fieldHolder h m.val k fv) fv := by
  refine ⟨?_, readLocP_field σ h.loc T fs m.val k fv hr.reads hm hfv⟩
  intro f hf
  obtain ⟨f', rfl⟩ : ∃ f', f = f' + 1 := ⟨f - 1, by omega⟩
  exact C07_exec_resolve_field_step σ t r m h T fs k fv f' (hr.run f' (by omega)) harr hr.reads hm hfv

/-- **one index step**: `r` resolves to a whole-array holder reading `.arr e dims cells`, the index expressions are
    pure with in-bounds integer values `ks`; then `r[es]` resolves to the holder of the cell `lin dims ks`, which reads
    that cell -/
theorem RefAt.index {σ : St} {f₀ f₁ : Nat} {r : Ref} {h : Holder} {e : Ty} {dims : List (Int × Int)} {cells : List Val}
    (t : Tok) {es : List Expr} {ks : List Int} {c : Val}
    (hr : RefAt σ f₀ r h (.arr e dims cells)) (harr : h.isArr = true)
    (hp : PureAll σ f₁ es (ks.map .int)) (hb : InBoundsAll dims ks) (hc : cells[lin dims ks]? = some c) :
    RefAt σ (max f₀ (f₁ + es.length + 1) + 1) (.index t r es) (idxHolder h e (lin dims ks)) c := by
  refine ⟨?_, readLocP_idx σ h.loc e dims cells _ c hr.reads hc⟩
  intro f hf
  obtain ⟨f', rfl⟩ : ∃ f', f = f' + 1 := ⟨f - 1, by omega⟩
  have hl : es.length = ks.length := by rw [hp.length_eq, List.length_map]
  have hlen : es.length = dims.length := by rw [hl, inBoundsAll_length dims ks hb]
  rw [run_resolveRef_index_of σ t r es _ h e dims cells f₁ f' (hr.run f' (by omega)) harr hr.reads hp hlen (by omega),
    idxOutcome_ok dims es ks hl hb]
  rfl

/-- **`r` denotes a whole array**: it resolves (every fuel `≥ f₀`, state unchanged) to the whole-array holder `h`, whose
    location reads `.arr e dims cells` with as many cells as the bounds say, and whose root cell is not a constant -/
structure ArrAt (σ : St) (f₀ : Nat) (r : Ref) (h : Holder) (e : Ty) (dims : List (Int × Int)) (cells : List Val) : Prop where
  ref : RefAt σ f₀ r h (.arr e dims cells)
  isArr : h.isArr = true
  wf : cells.length = totalCells dims
  notConst : locConstP σ h.loc = false

theorem ArrAt.mono {σ : St} {f₀ f₁ : Nat} {r : Ref} {h : Holder} {e : Ty} {dims : List (Int × Int)} {cells : List Val}
    (ha : ArrAt σ f₀ r h e dims cells) (hle : f₀ ≤ f₁) : ArrAt σ f₁ r h e dims cells :=
  ⟨ha.ref.mono hle, ha.isArr, ha.wf, ha.notConst⟩

theorem ArrAt.lin_lt {σ : St} {f₀ : Nat} {r : Ref} {h : Holder} {e : Ty} {dims : List (Int × Int)} {cells : List Val}
    (ha : ArrAt σ f₀ r h e dims cells) (ks : List Int) (hb : InBoundsAll dims ks) : lin dims ks < cells.length := by
  rw [ha.wf]; exact C06_lin_bound dims ks hb

/-- a declared array variable is an array reference -/
theorem ArrAt.of_hasArray {σ : St} {id : Nat} {e : Ty} {dims : List (Int × Int)} {cells : List Val} (t : Tok)
    (h : HasArray σ t.val id e dims cells) :
    ∃ ty, ArrAt σ 1 (.var t) (arrHolder id t.val ty) e dims cells := by
  obtain ⟨ty, hr⟩ := RefAt.of_hasArray t h
  exact ⟨ty, hr, rfl, h.wf, h.notConst⟩

/-- an array member of a record reference is an array reference -/
theorem ArrAt.of_member {σ : St} {f₀ : Nat} {r : Ref} {h : Holder} {T : Str} {fs : List (Str × Val)} (t m : Tok)
    {e : Ty} {dims : List (Int × Int)} {cells : List Val}
    (hr : RefAt σ f₀ r h (.comp T fs)) (harr : h.isArr = false) (hconst : locConstP σ h.loc = false)
    (hm : memberKind fs m.val = some true) (hfv : findField fs m.val true = some (.arr e dims cells))
    (hwf : cells.length = totalCells dims) :
    ArrAt σ (f₀+1) (.field t r m) (fieldHolder h m.val true (.arr e dims cells)) e dims cells :=
  ⟨RefAt.field t m hr harr hm hfv, rfl, hwf, hconst⟩


/-! ## generic run lemmas -/

theorem acts_ne_of_readLocP {σ : St} {l : Loc} {v : Val} (h : readLocP σ l = .ok v) : σ.acts ≠ [] := by
  intro h0
  unfold readLocP at h
  rw [h0] at h
  cases h

theorem ArrAt.acts_ne {σ : St} {f₀ : Nat} {r : Ref} {h : Holder} {e : Ty} {dims : List (Int × Int)} {cells : List Val}
    (ha : ArrAt σ f₀ r h e dims cells) : σ.acts ≠ [] := acts_ne_of_readLocP ha.ref.reads

/-- a whole array used as a value: the diagnostic `arrayDirect`, raised in the current activation -/
theorem run_evalExpr_access_arrRef (σ : St) (at' : Tok) (r : Ref) (h : Holder) (f : Nat)
    (hr : (resolveRef f r).run.run σ = (.ok h, σ)) (harr : h.isArr = true) :
    (evalExpr (f+1) (.access at' r)).run.run σ = (.error (.diag (rtDiag σ at'.line at'.col .arrayDirect)), σ) := by
  have h2 : (resolveRef f r >>= fun h => (pure (some h) : M (Option Holder))).run.run σ = (.ok (some h), σ) := by
    rw [run_bind_ok _ _ _ _ _ hr]; rfl
  rw [evalExpr_access]
  unfold catchNotDefined
  rw [run_bind_ok _ _ _ _ _ (run_tryCatch_ok _ _ _ _ _ h2)]
  simp only [harr, if_true]
  exact run_rtErr at' .arrayDirect σ

/-- `tr <- sr` for two array references: the element types and the bounds are compared, then the whole value of the
    source is written at the location of the target -/
theorem run_execAssign_arrRefs (σ : St) (t at' : Tok) (tr sr : Ref) (th sh : Holder) (es et : Ty)
    (ds dt : List (Int × Int)) (cs ct : List Val) (f₀ f : Nat)
    (hs : ArrAt σ f₀ sr sh es ds cs) (ht : ArrAt σ f₀ tr th et dt ct) (hf : f₀ + 2 ≤ f) :
    (execAssign f t tr (.access at' sr)).run.run σ =
      ((if es != et then (rtErr t .typeMismatch : M Unit)
        else if ds != dt then rtErr t .typeMismatch
        else writeLoc t th.loc (.arr es ds cs)).run.run σ) := by
  obtain ⟨f', rfl⟩ : ∃ f', f = f' + 2 := ⟨f - 2, by omega⟩
  cases hσ : σ.acts with
  | nil => exact absurd hσ hs.acts_ne
  | cons cur rest =>
    obtain ⟨htr1, htr2⟩ := rtDiag_trace σ cur rest at'.line at'.col .arrayDirect hσ
    have hra := hs.ref.run (f'+1) (by omega)
    have hrb := ht.ref.run (f'+1) (by omega)
    have hreada : (readLoc sh.loc).run.run σ = (.ok (.arr es ds cs), σ) := by
      rw [run_readLoc, hs.ref.reads]
    have hreadb : (readLoc th.loc).run.run σ = (.ok (.arr et dt ct), σ) := by
      rw [run_readLoc, ht.ref.reads]
    rw [execAssign_succ, run_bind_ok _ _ _ _ _ (run_curAct_cons σ cur rest hσ), run_bind_ok _ _ _ _ _ (run_get σ)]
    have h1 : (evalExpr (f'+1) (.access at' sr) >>= fun v => (pure (some v) : M (Option Val))).run.run σ =
        (.error (.diag (rtDiag σ at'.line at'.col .arrayDirect)), σ) :=
      run_bind_err _ _ _ _ _ (run_evalExpr_access_arrRef σ at' sr sh f' (hs.ref.run f' (by omega)) hs.isArr)
    simp only []
    rw [run_bind, run_tryCatch, h1]
    simp only [rtDiag_kind, rtDiag_msg, htr1, htr2, beq_self_eq_true, Bool.and_self, if_true, run_pure]
    rw [run_bind_ok _ _ _ _ _ hra]
    simp only [hs.isArr, Bool.not_true, Bool.false_eq_true, if_false]
    rw [run_bind_ok _ _ _ _ _ hrb]
    simp only [ht.isArr, Bool.not_true, Bool.false_eq_true, if_false]
    rw [run_bind_ok _ _ _ _ _ hreada, run_bind_ok _ _ _ _ _ hreadb]

/-- the location of the cell `i` of the array held at `h` -/
abbrev cellOf (h : Holder) (i : Nat) : Loc := { h.loc with path := h.loc.path ++ [.idx i] }

/-- **`ar[es] <- rhs` as one write**: the array reference `ar`, pure in-bounds indices, a pure right-hand side whose value
    has the element type after the implicit cast.  The assignment succeeds; the new state is the old one with the root
    cell of the array's location holding `root'` — the old root value with the array `.arr e dims (cells.set i v)` at the
    path of the array. -/
theorem run_execAssign_elem (σ : St) (t t' : Tok) (ar : Ref) (es : List Expr) (ks : List Int) (rhs : Expr) (rv : Val)
    (h : Holder) (e : Ty) (dims : List (Int × Int)) (cells : List Val) (f₀ f : Nat)
    (ha : ArrAt σ f₀ ar h e dims cells) (hp : PureAll σ f₀ es (ks.map .int)) (hb : InBoundsAll dims ks)
    (hrhs : PureAt σ f₀ rhs rv) (hty : (implicitCast e rv).ty = e) (hf : f₀ + es.length + 3 ≤ f) :
    ∃ root root', readLocP σ (rootOf h.loc) = .ok root ∧ getPath root h.loc.path = some (.arr e dims cells) ∧
      setPath root h.loc.path (.arr e dims (cells.set (lin dims ks) (implicitCast e rv))) = some root' ∧
      getPath root' h.loc.path = some (.arr e dims (cells.set (lin dims ks) (implicitCast e rv))) ∧
      (writeLoc t (cellOf h (lin dims ks)) (implicitCast e rv)).run.run σ =
        (.ok ⟨⟩, updSt σ h.loc.act (writeF (rootOf h.loc) root')) ∧
      (execAssign f t (.index t' ar es) rhs).run.run σ = (.ok ⟨⟩, updSt σ h.loc.act (writeF (rootOf h.loc) root')) := by
  obtain ⟨f', rfl⟩ : ∃ f', f = f' + 1 := ⟨f - 1, by omega⟩
  have hi : lin dims ks < cells.length := ha.lin_lt ks hb
  have hc : cells[lin dims ks]? = some cells[lin dims ks] := List.getElem?_eq_getElem hi
  have hres := (RefAt.index t' ha.ref ha.isArr hp hb hc).run f' (by omega)
  obtain ⟨root, root', h1, h2, h3, h4, h5⟩ := run_writeLoc_sub σ t h.loc [.idx (lin dims ks)] (.arr e dims cells)
    (.arr e dims (cells.set (lin dims ks) (implicitCast e rv))) (implicitCast e rv) ha.ref.reads ha.notConst
    (setPath_cell e dims cells _ _ hi) rfl
  refine ⟨root, root', h1, h2, h3, h4, h5, ?_⟩
  rw [run_execAssign_resolved σ t _ rhs rv _ f' ha.acts_ne (hrhs f' (by omega)) hres rfl ha.notConst]
  have : ((implicitCast e rv).ty != e) = false := by simp [hty]
  simp only [idxHolder, this, Bool.false_eq_true, if_false]
  exact h5


/-- a successful write *at* a readable location (the whole value it holds is replaced by one of the same kind) -/
theorem run_writeLoc_at (σ : St) (t : Tok) (l : Loc) (x x' : Val)
    (hread : readLocP σ l = .ok x) (hc : locConstP σ l = false) (hk : x.isArr = x'.isArr) :
    ∃ root root', readLocP σ (rootOf l) = .ok root ∧ getPath root l.path = some x ∧
      setPath root l.path x' = some root' ∧ getPath root' l.path = some x' ∧
      (writeLoc t l x').run.run σ = (.ok ⟨⟩, updSt σ l.act (writeF (rootOf l) root')) := by
  have h := run_writeLoc_sub σ t l [] x x' x' hread hc (by simp [setPath]) hk
  have e : ({ l with path := l.path ++ [] } : Loc) = l := by cases l; simp
  rw [e] at h
  exact h

/-! ## the shapes `r.a`, `r.s.a`, `arr[i]`, `arr[i].a` -/

/-- the holder of the array member `a` of the record variable `r` of activation `id` -/
abbrev memberHolder (id : Nat) (r a : Str) (e : Ty) : Holder :=
  { loc := ⟨id, false, r, [.field a]⟩, isArr := true, ty := e, name := a }

/-- **`r.a`**: `r` a record variable (`HasVar`), `a` an array member of it -/
theorem ArrAt.of_var_member {σ : St} {id : Nat} {ty : Ty} {T : Str} {fs : List (Str × Val)} (t rt a : Tok)
    {e : Ty} {dims : List (Int × Int)} {cells : List Val}
    (hr : HasVar σ rt.val id ty (.comp T fs))
    (hm : memberKind fs a.val = some true) (hfv : findField fs a.val true = some (.arr e dims cells))
    (hwf : cells.length = totalCells dims) :
    ArrAt σ 2 (.field t (.var rt) a) (memberHolder id rt.val a.val e) e dims cells :=
  ArrAt.of_member t a (RefAt.of_hasVar rt hr) rfl hr.notConst hm hfv hwf

/-- the holder of the array member `a` of the record member `s` of the record variable `r` -/
abbrev memberHolder2 (id : Nat) (r s a : Str) (e : Ty) : Holder :=
  { loc := ⟨id, false, r, [.field s, .field a]⟩, isArr := true, ty := e, name := a }

/-- **`r.s.a`**: `r` a record variable, `s` a record member of it, `a` an array member of that record -/
theorem ArrAt.of_var_member2 {σ : St} {id : Nat} {ty : Ty} {T T₂ : Str} {fs fs₂ : List (Str × Val)} (t₁ t₂ rt s a : Tok)
    {e : Ty} {dims : List (Int × Int)} {cells : List Val}
    (hr : HasVar σ rt.val id ty (.comp T fs))
    (hm₁ : memberKind fs s.val = some false) (hf₁ : findField fs s.val false = some (.comp T₂ fs₂))
    (hm : memberKind fs₂ a.val = some true) (hfv : findField fs₂ a.val true = some (.arr e dims cells))
    (hwf : cells.length = totalCells dims) :
    ArrAt σ 3 (.field t₂ (.field t₁ (.var rt) s) a) (memberHolder2 id rt.val s.val a.val e) e dims cells :=
  ArrAt.of_member t₂ a (RefAt.field t₁ s (RefAt.of_hasVar rt hr) rfl hm₁ hf₁) rfl hr.notConst hm hfv hwf

/-- the holder of the element `i` of the array `arr` of activation `id` -/
abbrev elemHolder (id : Nat) (arr : Str) (e : Ty) (i : Nat) : Holder :=
  { loc := ⟨id, true, arr, [.idx i]⟩, isArr := false, ty := e, name := arr }

/-- **`arr[es]`**: an element of a declared array (pure in-bounds indices) -/
theorem RefAt.of_elem {σ : St} {id : Nat} {e : Ty} {dims : List (Int × Int)} {cells : List Val} (t at' : Tok)
    {es : List Expr} {ks : List Int} {f₀ : Nat} {c : Val}
    (ha : HasArray σ at'.val id e dims cells) (hp : PureAll σ f₀ es (ks.map .int)) (hb : InBoundsAll dims ks)
    (hc : cells[lin dims ks]? = some c) :
    RefAt σ (f₀ + es.length + 3) (.index t (.var at') es) (elemHolder id at'.val e (lin dims ks)) c := by
  obtain ⟨ty, hr⟩ := RefAt.of_hasArray at' ha
  exact (RefAt.index t hr rfl hp hb hc).mono (by omega)

/-- the holder of the array member `a` of the element `i` of the array `arr` -/
abbrev elemMemberHolder (id : Nat) (arr : Str) (i : Nat) (a : Str) (e : Ty) : Holder :=
  { loc := ⟨id, true, arr, [.idx i, .field a]⟩, isArr := true, ty := e, name := a }

/-- **`arr[es].a`**: the array member `a` of an element (a record) of a declared array of records -/
theorem ArrAt.of_elem_member {σ : St} {id : Nat} {e₀ : Ty} {dims₀ : List (Int × Int)} {cells₀ : List Val} (t₁ t₂ at' a : Tok)
    {es : List Expr} {ks : List Int} {f₀ : Nat} {T : Str} {fs : List (Str × Val)}
    {e : Ty} {dims : List (Int × Int)} {cells : List Val}
    (ha : HasArray σ at'.val id e₀ dims₀ cells₀) (hp : PureAll σ f₀ es (ks.map .int)) (hb : InBoundsAll dims₀ ks)
    (hc : cells₀[lin dims₀ ks]? = some (.comp T fs))
    (hm : memberKind fs a.val = some true) (hfv : findField fs a.val true = some (.arr e dims cells))
    (hwf : cells.length = totalCells dims) :
    ArrAt σ (f₀ + es.length + 4) (.field t₂ (.index t₁ (.var at') es) a)
      (elemMemberHolder id at'.val (lin dims₀ ks) a.val e) e dims cells :=
  ArrAt.of_member t₂ a (RefAt.of_elem t₁ at' ha hp hb hc) rfl ha.notConst hm hfv hwf

/-- the member facts after the array member `a` got a new array value -/
theorem member_after_set (fs : List (Str × Val)) (a : Str) (old nv : Val) (hk : nv.isArr = true)
    (hm : memberKind fs a = some true) (hfv : findField fs a true = some old) :
    memberKind (setField fs a true nv) a = some true ∧ findField (setField fs a true nv) a true = some nv :=
  ⟨by rw [memberKind_setField fs a true nv hk a]; exact hm, findField_setField_same a true old nv hk fs hfv⟩

/-- `PureAll` with more fuel -/
theorem PureAll.mono {σ : St} {f₀ f₁ : Nat} (hle : f₀ ≤ f₁) : ∀ {es : List Expr} {vs : List Val},
    PureAll σ f₀ es vs → PureAll σ f₁ es vs
  | [], [], _ => trivial
  | [], _ :: _, h => by cases h
  | _ :: _, [], h => by cases h
  | _ :: _, _ :: _, h => ⟨h.1.mono hle, PureAll.mono hle h.2⟩


/-! ## Boolean checks for concrete states (so that facts about a state computed by running the evaluator can be
    established by kernel evaluation, `by decide +kernel`; `Val` has no decidable equality because of `Float`) -/

-- `sameV`: structural comparison of two values (REAL and DATE values are never reported equal)
mutual
  def sameV : Val → Val → Bool
    | .none, w => match w with | .none => true | _ => false
    | .int a, w => match w with | .int b => decide (a = b) | _ => false
    | .real _, _ => false
    | .bool a, w => match w with | .bool b => decide (a = b) | _ => false
    | .chr a, w => match w with | .chr b => decide (a = b) | _ => false
    | .str a, w => match w with | .str b => decide (a = b) | _ => false
    | .date _, _ => false
    | .enum a i, w => match w with | .enum b j => decide (a = b) && decide (i = j) | _ => false
    | .ptr a x, w => match w with | .ptr b y => decide (a = b) && decide (x = y) | _ => false
    | .comp a fs, w => match w with | .comp b gs => decide (a = b) && sameFs fs gs | _ => false
    | .arr e d cs, w => match w with | .arr e' d' cs' => decide (e = e') && decide (d = d') && sameVs cs cs' | _ => false
  def sameFs : List (Str × Val) → List (Str × Val) → Bool
    | [], gs => match gs with | [] => true | _ => false
    | (n, v) :: fs, gs => match gs with | (m, w) :: gs' => decide (n = m) && sameV v w && sameFs fs gs' | _ => false
  def sameVs : List Val → List Val → Bool
    | [], ws => match ws with | [] => true | _ => false
    | v :: vs, ws => match ws with | w :: ws' => sameV v w && sameVs vs ws' | _ => false
end

mutual
  theorem sameV_sound : ∀ (v w : Val), sameV v w = true → v = w
    | .none, w, h => by cases w <;> simp [sameV] at h ⊢
    | .int a, w, h => by cases w <;> simp [sameV] at h ⊢; exact h
    | .real _, _, h => by simp [sameV] at h
    | .bool a, w, h => by cases w <;> simp [sameV] at h ⊢; exact h
    | .chr a, w, h => by cases w <;> simp [sameV] at h ⊢; exact h
    | .str a, w, h => by cases w <;> simp [sameV] at h ⊢; exact h
    | .date _, _, h => by simp [sameV] at h
    | .enum a i, w, h => by cases w <;> simp [sameV] at h ⊢; exact h
    | .ptr a x, w, h => by cases w <;> simp [sameV] at h ⊢; exact h
    | .comp a fs, w, h => by
      cases w with
      | comp b gs =>
        simp only [sameV, Bool.and_eq_true, decide_eq_true_eq] at h
        rw [h.1, sameFs_sound fs gs h.2]
      | _ => simp [sameV] at h
    | .arr e d cs, w, h => by
      cases w with
      | arr e' d' cs' =>
        simp only [sameV, Bool.and_eq_true, decide_eq_true_eq] at h
        rw [h.1.1, h.1.2, sameVs_sound cs cs' h.2]
      | _ => simp [sameV] at h
  theorem sameFs_sound : ∀ (fs gs : List (Str × Val)), sameFs fs gs = true → fs = gs
    | [], gs, h => by cases gs <;> simp [sameFs] at h ⊢
    | (n, v) :: fs, gs, h => by
      cases gs with
      | nil => simp [sameFs] at h
      | cons q gs' =>
        obtain ⟨m, w⟩ := q
        simp only [sameFs, Bool.and_eq_true, decide_eq_true_eq] at h
        rw [h.1.1, sameV_sound v w h.1.2, sameFs_sound fs gs' h.2]
  theorem sameVs_sound : ∀ (vs ws : List Val), sameVs vs ws = true → vs = ws
    | [], ws, h => by cases ws <;> simp [sameVs] at h ⊢
    | v :: vs, ws, h => by
      cases ws with
      | nil => simp [sameVs] at h
      | cons w ws' =>
        simp only [sameVs, Bool.and_eq_true] at h
        rw [sameV_sound v w h.1, sameVs_sound vs ws' h.2]
end

/-- the location `l` reads a value structurally equal to `v` -/
def readsAs (σ : St) (l : Loc) (v : Val) : Bool :=
  match readLocP σ l with
  | .ok w => sameV w v
  | .error _ => false

theorem readsAs_sound {σ : St} {l : Loc} {v : Val} (h : readsAs σ l v = true) : readLocP σ l = .ok v := by
  unfold readsAs at h
  cases hr : readLocP σ l with
  | error e => rw [hr] at h; cases h
  | ok w => rw [hr] at h; rw [sameV_sound w v h]

/-- Boolean form of `HasVar` -/
def hasVarB (σ : St) (n : Str) (id : Nat) (ty : Ty) (v : Val) : Bool :=
  decide (varOwner σ n = some (id, ty)) && readsAs σ (varLoc id n) v && !locConstP σ (varLoc id n)

theorem hasVarB_sound {σ : St} {n : Str} {id : Nat} {ty : Ty} {v : Val} (h : hasVarB σ n id ty v = true) :
    HasVar σ n id ty v := by
  simp only [hasVarB, Bool.and_eq_true, decide_eq_true_eq, Bool.not_eq_true'] at h
  exact ⟨h.1.1, readsAs_sound h.1.2, h.2⟩

/-- Boolean form of `HasArray` -/
def hasArrayB (σ : St) (n : Str) (id : Nat) (e : Ty) (dims : List (Int × Int)) (cells : List Val) : Bool :=
  decide (arrOwner σ n = some id) && readsAs σ (arrLoc id n) (.arr e dims cells) && !locConstP σ (arrLoc id n) &&
    decide (cells.length = totalCells dims)

theorem hasArrayB_sound {σ : St} {n : Str} {id : Nat} {e : Ty} {dims : List (Int × Int)} {cells : List Val}
    (h : hasArrayB σ n id e dims cells = true) : HasArray σ n id e dims cells := by
  simp only [hasArrayB, Bool.and_eq_true, decide_eq_true_eq, Bool.not_eq_true'] at h
  exact ⟨h.1.1.1, readsAs_sound h.1.1.2, h.1.2, h.2⟩

end ArrayFieldLemmas

end Pseudo
