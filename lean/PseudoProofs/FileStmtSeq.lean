import PseudoProofs.FileStmt
import Properties.C14Reopen
import Properties.C15
/-!
# Sequences of file statements

* `fsteps`: a history of file operations on the pure machine; `litStmt t op`: the statement with literal arguments that
  performs `op` (OPENFILE / CLOSEFILE / WRITEFILE / SEEK); `run_litStmt`, `run_litBlock`: a block of such statements is `fsteps`.
* `fsteps_write_session`: OPENFILE n FOR WRITE, WRITEFILE n … (any number), CLOSEFILE n on the pure machine
  (from `C15_write_line`).
* `put_seek_get`: PUTRECORD, SEEK to the same address, GETRECORD on the pure machine (from `C14_put_here`, `handle_upd`).
-/
namespace Pseudo.FileStmt
open Pseudo

/-- a history of file operations on the pure machine (results dropped) -/
def fsteps (s : FState) : List FOp → Except Msg FState
  | [] => .ok s
  | op :: ops =>
    match fstep s op with
    | .ok (s', _) => fsteps s' ops
    | .error m => .error m

theorem fsteps_append (s : FState) (a b : List FOp) :
    fsteps s (a ++ b) = match fsteps s a with
      | .ok s1 => fsteps s1 b
      | .error m => .error m := by
  induction a generalizing s with
  | nil => rfl
  | cons op ops ih =>
    simp only [List.cons_append, fsteps]
    cases fstep s op with
    | error m => rfl
    | ok p => exact ih p.1

/-- the operations that are one statement with literal arguments -/
def IsLitOp : FOp → Prop
  | .open _ _ | .close _ | .write _ _ | .seek _ _ => True
  | _ => False

/-- the statement (all arguments literals, all tokens `t`) that performs `op` -/
def litStmt (t : Tok) : FOp → Stmt
  | .open n m => .openFile t (.strLit t n) m
  | .close n => .closeFile t (.strLit t n)
  | .write n txt => .writeFile t (.strLit t n) (.strLit t txt)
  | .seek n a => .seek t (.strLit t n) (.intLit t a)
  | .readLine n | .eof n | .put n _ | .get n => .closeFile t (.strLit t n)   -- not used (`IsLitOp`)

/-- one literal file statement whose operation the pure layer accepts -/
theorem run_litStmt (f : Nat) (t : Tok) (op : FOp) (σ : St) (s' : FState) (r : FRes) (hop : IsLitOp op)
    (hb : σ.steps + 1 ≤ σ.stepLimit) (h : fstep (fileSt σ) op = .ok (s', r)) :
    (execStmt (f+3) (litStmt t op)).run.run σ = (.ok .none, setFile (tickSt σ) s') := by
  cases op with
  | «open» n m =>
    show (execStmt ((f+1)+2) (.openFile t (.strLit t n) m)).run.run σ = _
    rw [exec_openFile (f+1) t _ m σ n hb (evalsTo_strLit f t n _)]
    exact liftStep_ok σ t _ s' r h
  | close n =>
    show (execStmt ((f+1)+2) (.closeFile t (.strLit t n))).run.run σ = _
    rw [exec_closeFile (f+1) t _ σ n hb (evalsTo_strLit f t n _)]
    exact liftStep_ok σ t _ s' r h
  | write n txt =>
    show (execStmt ((f+1)+2) (.writeFile t (.strLit t n) (.strLit t txt))).run.run σ = _
    rw [exec_writeFile (f+1) t _ _ σ n (.str txt) hb (evalsTo_strLit f t n _) (evalsTo_strLit (f+1) t txt _)]
    have hp : fpre (fileSt σ) (.write n []) = .ok () := fpre_of_fstep_ok _ (.write n txt) _ h
    rw [hp]
    exact liftStep_ok σ t _ s' r h
  | seek n a =>
    show (execStmt ((f+1)+2) (.seek t (.strLit t n) (.intLit t a))).run.run σ = _
    rw [exec_seek (f+1) t _ _ σ n a hb (evalsTo_intLit (f+1) t a _) (evalsTo_strLit f t n _)]
    have ha : ¬ a < 1 := by
      intro ha
      obtain ⟨m, hm⟩ := fstep_seek_low (fileSt σ) n a ha
      rw [hm] at h
      cases h
    simp only [ha, if_false]
    exact liftStep_ok σ t _ s' r h
  | readLine n => exact absurd hop id
  | eof n => exact absurd hop id
  | put n rec => exact absurd hop id
  | get n => exact absurd hop id

/-- the state after `k` successful file statements whose combined effect on the file component is `s'` -/
def afterSteps (σ : St) (k : Nat) (s' : FState) : St := { σ with steps := σ.steps + k, fs := s'.fs, handles := s'.handles }

/-- **a block of literal file statements is the history on the pure machine** -/
theorem run_litBlock (f : Nat) (t : Tok) : ∀ (ops : List FOp) (σ : St) (s' : FState),
    (∀ op ∈ ops, IsLitOp op) → σ.steps + ops.length ≤ σ.stepLimit → fsteps (fileSt σ) ops = .ok s' →
    (runBlock (f + ops.length + 3) (ops.map (litStmt t))).run.run σ = (.ok ⟨⟩, afterSteps σ ops.length s')
  | [], σ, s', _, _, h => by
    simp only [fsteps] at h
    injection h with h
    subst h
    exact run_runBlock_nil _ σ
  | op :: ops, σ, s', hops, hb, h => by
    simp only [fsteps] at h
    cases hs : fstep (fileSt σ) op with
    | error m => rw [hs] at h; cases h
    | ok p =>
      obtain ⟨s1, r⟩ := p
      rw [hs] at h
      dsimp only at h
      simp only [List.length_cons] at hb ⊢
      have h1 := run_litStmt (f + ops.length) t op σ s1 r (hops op (List.mem_cons_self ..)) (by omega) hs
      have e : f + (ops.length + 1) + 3 = (f + ops.length + 3) + 1 := by omega
      rw [e, List.map_cons, run_runBlock_cons _ _ _ _ _ h1]
      have h2 := run_litBlock f t ops (setFile (tickSt σ) s1) s' (fun o ho => hops o (List.mem_cons_of_mem _ ho))
        (by show σ.steps + 1 + ops.length ≤ σ.stepLimit; omega) h
      rw [h2]
      unfold afterSteps setFile tickSt
      simp only [Nat.add_assoc, Nat.add_comm 1]

/-! ### a WRITE session on the pure machine -/

theorem handle_of_handles_eq (s s1 : FState) (n : Str) (h : s1.handles = s.handles) : s1.handle n = s.handle n := by
  unfold FState.handle; rw [h]

theorem node_of_fs_eq (s : FState) (fs : List (Str × FsNode)) (n : Str) (h : s.fs = fs) :
    s.node n = FState.node { fs := fs } n := by
  unfold FState.node; rw [h]

/-- any number of WRITEFILE statements on a handle open for WRITE / APPEND append their lines, in order -/
theorem fsteps_writes (n : Str) : ∀ (lines : List Str) (s : FState) (h : Handle) (c : Str),
    s.handle n = some h → (h.mode = .write ∨ h.mode = .append) → s.node n = some (.file c) →
    ∃ s', fsteps s (lines.map (.write n)) = .ok s' ∧ s'.handles = s.handles ∧
      s'.node n = some (.file (c ++ joinLines lines))
  | [], s, h, c, _, _, hn => ⟨s, rfl, rfl, by simpa [joinLines] using hn⟩
  | l :: ls, s, h, c, hh, hm, hn => by
    obtain ⟨s1, hs1, hfs, hhs⟩ := C15_write_line s n l c h hh hm hn
    have hh1 : s1.handle n = some h := by rw [handle_of_handles_eq s s1 n hhs]; exact hh
    have hn1 : s1.node n = some (.file (c ++ l ++ ['\n'])) := by
      rw [node_of_fs_eq s1 _ n hfs]; exact node_setNode_same _ _ _
    obtain ⟨s', hs', hhs', hn'⟩ := fsteps_writes n ls s1 h _ hh1 hm hn1
    refine ⟨s', ?_, by rw [hhs', hhs], ?_⟩
    · simp only [List.map_cons, fsteps, hs1]
      exact hs'
    · rw [hn']
      simp [joinLines, List.append_assoc]

theorem filter_ne_of_find_none (hs : List Handle) (n : Str) (h : hs.find? (·.name == n) = none) :
    hs.filter (·.name != n) = hs := by
  rw [List.filter_eq_self]
  intro x hx
  have := List.find?_eq_none.mp h x hx
  simpa [bne] using this

/-- **OPENFILE n FOR WRITE; WRITEFILE n, l₁; …; WRITEFILE n, lₖ; CLOSEFILE n** on the pure machine: accepted; afterwards the file
    `n` holds exactly the lines, and the handle table is as before -/
theorem fsteps_write_session (s : FState) (n : Str) (lines : List Str)
    (hclosed : s.handle n = none) (hlong : nameTooLong n = false)
    (hnode : s.node n = none ∨ ∃ c, s.node n = some (.file c)) (hpar : parentOk s n = true) :
    ∃ s', fsteps s (.open n .write :: lines.map (.write n) ++ [.close n]) = .ok s' ∧
      s'.node n = some (.file (joinLines lines)) ∧ s'.handles = s.handles := by
  have hp : fpre s (.open n .write) = .ok () := by simp [fpre, hclosed]
  have hopen : fstep s (.open n .write) =
      .ok ({ fs := setNode s.fs n (.file []), handles := s.handles ++ [{ name := n, mode := .write }] }, .unit) := by
    rcases hnode with hn | ⟨c, hn⟩ <;> simp [fstep, hp, hlong, hn, hpar]
  let s1 : FState := { fs := setNode s.fs n (.file []), handles := s.handles ++ [{ name := n, mode := .write }] }
  have hh1 : s1.handle n = some ({ name := n, mode := .write } : Handle) := handle_append_new _ _ _ rfl hclosed
  have hn1 : s1.node n = some (.file []) := node_setNode_same _ _ _
  obtain ⟨s2, hs2, hhs2, hn2⟩ := fsteps_writes n lines s1 _ [] hh1 (Or.inl rfl) hn1
  have hh2 : s2.handle n = some ({ name := n, mode := .write } : Handle) := by rw [handle_of_handles_eq s1 s2 n hhs2]; exact hh1
  have hp2 : fpre s2 (.close n) = .ok () := by simp [fpre, hh2]
  have hclose : fstep s2 (.close n) = .ok ({ fs := s2.fs, handles := s2.handles.filter (·.name != n) }, .unit) := by
    simp [fstep, hp2, hh2, flushNode]
  refine ⟨{ fs := s2.fs, handles := s2.handles.filter (·.name != n) }, ?_, ?_, ?_⟩
  · show fsteps s (.open n .write :: (lines.map (.write n) ++ [.close n])) = _
    simp only [fsteps, hopen]
    rw [fsteps_append]
    show (match fsteps s1 (lines.map (.write n)) with | .ok s1 => fsteps s1 [.close n] | .error m => .error m) = _
    rw [hs2]
    simp only [fsteps, hclose]
  · have : FState.node { fs := s2.fs, handles := s2.handles.filter (·.name != n) } n = s2.node n := rfl
    rw [this, hn2]; rfl
  · show s2.handles.filter (·.name != n) = s.handles
    rw [hhs2]
    show (s.handles ++ [({ name := n, mode := .write } : Handle)]).filter (·.name != n) = s.handles
    rw [List.filter_append, filter_ne_of_find_none s.handles n hclosed]
    simp

/-- the program `OPENFILE n FOR WRITE`, `WRITEFILE n, l` for each `l` of `lines`, `CLOSEFILE n` -/
def writeSession (t : Tok) (n : Str) (lines : List Str) : Block :=
  .openFile t (.strLit t n) .write ::
    lines.map (fun l => Stmt.writeFile t (.strLit t n) (.strLit t l)) ++ [.closeFile t (.strLit t n)]

/-! ### PUTRECORD, SEEK to the same address, GETRECORD on the pure machine -/

/-- the handle after PUTRECORD of the record text `r` -/
def putH (r : Str) (h : Handle) : Handle :=
  { h with records := if h.ptr < h.records.length then h.records.set h.ptr r else h.records ++ [r], modified := true }

theorem put_seek_get (s : FState) (n : Str) (h : Handle) (r : Str)
    (hh : s.handle n = some h) (hm : h.mode = .random) (hptr : h.ptr ≤ h.records.length) :
    ∃ s1 s2, fstep s (.put n r) = .ok (s1, .unit) ∧ fstep s1 (.seek n (h.ptr + 1)) = .ok (s2, .unit) ∧
      fstep s2 (.get n) = .ok (s2, .record r) ∧
      s2.fs = s.fs ∧ s2.handle n = some (putH r h) ∧ (putH r h).records[h.ptr]? = some r := by
  have hp : fpre s (.put n r) = .ok () := by simp [fpre, hh, hm]
  let s1 : FState := { s with handles := updHandles s.handles n (putH r) }
  have h1 : fstep s (.put n r) = .ok (s1, .unit) := by simp only [fstep, hp]; rfl
  have hh1 : s1.handle n = some (putH r h) := by
    have := handle_upd s.handles n (putH r) (fun _ => rfl)
    unfold FState.handle at hh ⊢
    show (updHandles s.handles n (putH r)).find? _ = _
    rw [this, hh]; rfl
  have hrec : (putH r h).records[h.ptr]? = some r := by
    have := C14_put_here (absH h) r hptr
    unfold Seq.put absH at this
    unfold putH
    dsimp only at this ⊢
    by_cases hc : h.ptr < h.records.length
    · simp only [hc, if_true] at this ⊢; exact this
    · simp only [hc, if_false] at this ⊢; exact this
  have hlen : h.ptr + 1 ≤ (putH r h).records.length := by
    unfold putH
    dsimp only
    split
    · simp; omega
    · simp; omega
  have hp1 : fpre s1 (.seek n (h.ptr + 1)) = .ok () := by simp [fpre, hh1, putH, hm]
  let s2 : FState := { s1 with handles := updHandles s1.handles n fun x => { x with ptr := ((h.ptr : Int) + 1).toNat - 1 } }
  have c1 : ¬ ((h.ptr : Int) + 1 < 1) := by omega
  have c2 : ¬ (((h.ptr : Int) + 1).toNat > (putH r h).records.length + 1) := by omega
  have h2 : fstep s1 (.seek n (h.ptr + 1)) = .ok (s2, .unit) := by
    simp only [fstep, hp1, hh1, c1, c2, if_false]
    rfl
  have hh2 : s2.handle n = some (putH r h) := by
    have := handle_upd s1.handles n (fun x : Handle => { x with ptr := ((h.ptr : Int) + 1).toNat - 1 }) (fun _ => rfl)
    unfold FState.handle at hh1 ⊢
    show (updHandles s1.handles n _).find? _ = _
    rw [this, hh1]
    have e : ((h.ptr : Int) + 1).toNat - 1 = h.ptr := by omega
    simp only [Option.map_some, e]
    rfl
  have hp2 : fpre s2 (.get n) = .ok () := by simp [fpre, hh2, putH, hm]
  have h3 : fstep s2 (.get n) = .ok (s2, .record r) := by
    have hptr' : (putH r h).ptr = h.ptr := rfl
    simp only [fstep, hp2, hh2, hptr', hrec]
  exact ⟨s1, s2, h1, h2, h3, rfl, hh2, hrec⟩

end Pseudo.FileStmt
